/-
Refinement, STATICS fragment, part 3: the abstraction relation `R5`, its transport along the generic shapes of a
stage (`R5.effect`: the effect of a lock-fragment operation on the objects; `R5.complete`: `World.complete`;
`R5.restutter` / `R5.stutterQ`: a stage that only moves `stage` / `fin`), and the one-step simulation for the
lock-fragment operations (the proofs of `Proofs/RefineStep.lean` / `RefineStep2.lean` with the statics part of the
relation carried along: these stages touch neither the thread-locals, nor the counters, nor the lazy statics).
-/
import LoomVerif.Proofs.Refine5Rel

namespace LoomVerif
namespace Refine5
open Refine Sy C07 C08

/-- **the abstraction relation** between a world of the twin and the data of a reference state -/
structure R5 (w : World) (s : SCData5) : Prop where
  /-- one control record per loom thread -/
  lenCtl : w.ctl.length = w.exec.threads.threads.length
  x : RX5 w.prog w.ctl s.ths s.locals
  y : RY w.prog w.ctl w.spawned w.exec.objs s.cells s.mutex
  t : RT w.ctl w.tlsInits w.tlsObs s.tlsInits s.tlsDrops s.tlsObs
  z : RLazy w.prog w.exec.objs w.exec.lazyStatics w.lazyInits (w.ctlOf 0).fin s.lazyInit s.lazyDropped
  c : RCnt w.ctl w.tlsInits w.tlsDrops
  /-- between `lazy_statics.drop()` and its `drop_locals` the main thread is not descheduled -/
  lag : (w.ctlOf 0).fin = 10 → w.tid = 0
  /-- every access to lazy static `z` logged so far returned instance 1, content `40 + z` -/
  ev : ∀ e ∈ w.events, ∀ z, (w.prog.threads.getD e.tid [])[e.pc]? = some (.lazy z) → e.ret = .val (140 + (z : Int))

/-- the conclusion of the simulation: `w'` keeps the program and either stutters or takes the reference step
of the active thread's body -/
def Sim5 (w : World) (s : SCData5) (w' : World) : Prop :=
  w'.prog = w.prog ∧
  ((R5 w' s ∧ w'.events = w.events) ∨
   ∃ l s', SCData5.enabled w.prog s (w.ctlOf w.tid).body = true ∧
     (l, s') ∈ SCData5.stepL w.prog s (w.ctlOf w.tid).body ∧ R5 w' s' ∧
     w'.events.map triple = SCData.label (w.ctlOf w.tid).body l ++ w.events.map triple)

/-- … and the new active thread (if any) is in the thread table -/
def SimI (w : World) (s : SCData5) (w' : World) : Prop := Sim5 w s w' ∧ InRange w'

/-! ### the lock-fragment steps of the data semantics -/

theorem stepL_frag {p : Prog} {s : SCData5} {t : Nat} {op : Op} (hop : SCData5.opOf p s t = some op)
    (hf : isFrag op = true) :
    SCData5.stepL p s t = (SCData.stepL p s.base t).map fun x => (x.1, s.withBase x.2) := by
  unfold SCData5.stepL
  rw [hop]
  cases op <;> simp only [isFrag, Bool.false_eq_true] at hf <;> rfl

theorem mem_stepL_frag {p : Prog} {s : SCData5} {t : Nat} {op : Op} (hop : SCData5.opOf p s t = some op)
    (hf : isFrag op = true) {l : Option (Nat × Ret)} {b : SCData} (h : (l, b) ∈ SCData.stepL p s.base t) :
    (l, s.withBase b) ∈ SCData5.stepL p s t := by
  rw [stepL_frag hop hf]
  exact List.mem_map.2 ⟨(l, b), h, rfl⟩

/-! ### `finD` -/

theorem finD_congr {i : Nat} {c c' : TCtl} (h : c'.fin = c.fin) : finD i c' = finD i c := by
  unfold finD; rw [h]

theorem finD_fin_zero {i : Nat} {c : TCtl} (h : c.fin = 0) : finD i c = false := by
  unfold finD; rw [h]; split <;> rfl

theorem opOfCtl_active (w : World) : opOfCtl w.prog (w.ctlOf w.tid) = opAt w := rfl

theorem fin_getD_modify (ctl : List TCtl) (t i : Nat) (f : TCtl → TCtl) (hf : (f (ctl.getD t {})).fin = (ctl.getD t {}).fin) :
    ((ctl.modify t f).getD i {}).fin = (ctl.getD i {}).fin := by
  by_cases hi : i = t
  · subst hi
    by_cases hl : i < ctl.length
    · rw [getD_modify_self _ _ _ _ hl]; exact hf
    · rw [List.modify_eq_self (by omega)]
  · rw [getD_modify_ne _ _ _ _ _ hi]

section
variable {w : World} {s : SCData5}

/-- what the relation says about the active thread -/
theorem base5 (hR : R5 w s) (hact : w.tid < w.ctl.length) :
    (w.ctlOf w.tid).body < w.prog.threads.length ∧
    ThRel5 w.prog w.tid (w.ctlOf w.tid) (s.th (w.ctlOf w.tid).body) (s.loc (w.ctlOf w.tid).body) ∧
    SCData5.opOf w.prog s (w.ctlOf w.tid).body = opAt w := by
  obtain ⟨h1, h2⟩ := hR.x.thr w.tid hact
  refine ⟨h1, h2, ?_⟩
  unfold SCData5.opOf opAt
  have : (s.th (w.ctlOf w.tid).body).pc = (w.ctlOf w.tid).pc := h2.2.1
  rw [this]

/-- a thread that still has an operation to run is not in its epilogue -/
theorem fin_zero5 (hR : R5 w s) (hact : w.tid < w.ctl.length) {op : Op} (hop : opAt w = some op) :
    (w.ctlOf w.tid).fin = 0 := by
  apply Classical.byContradiction
  intro hne
  have := hR.x.epi w.tid hact hne
  rw [show w.ctl.getD w.tid {} = w.ctlOf w.tid from rfl, opOfCtl_active, hop] at this
  cases this

theorem started_running5 (hR : R5 w s) (hact : w.tid < w.ctl.length)
    (hfd : finD w.tid (w.ctlOf w.tid) = false) :
    (s.th (w.ctlOf w.tid).body).started = true ∧ (s.th (w.ctlOf w.tid).body).finished = false := by
  obtain ⟨_, h2, _⟩ := base5 hR hact
  exact ⟨h2.1, by rw [h2.2.2.2.1]; exact hfd⟩

/-- the main thread is not between `lazy_statics.drop()` and its `drop_locals` while another thread (or the main
thread itself, before its epilogue) runs an operation -/
theorem fin0_ne_10 (hR : R5 w s) (hact : w.tid < w.ctl.length) {op : Op} (hop : opAt w = some op) :
    (w.ctlOf 0).fin ≠ 10 := by
  intro e
  have h0 := hR.lag e
  have := fin_zero5 hR hact hop
  rw [h0] at this
  rw [this] at e
  cases e

/-- the effect of a lock-fragment operation: the objects and the reference cells / mutexes have changed
consistently; nothing else the relation reads has changed -/
theorem R5.effect {w0 : World} (hR : R5 w s)
    (hctl : w0.ctl = w.ctl) (htid : w0.tid = w.tid) (hprog : w0.prog = w.prog) (hsp : w0.spawned = w.spawned)
    (hev : w0.events = w.events)
    (hlen : w0.exec.threads.threads.length = w.exec.threads.threads.length)
    (hfr : frame5 w0 = frame5 w) (hlz : LazyLe w.prog w.exec.objs w0.exec.objs)
    {cells' : List Int} {mutex' : List (Option Nat)}
    (hy : RY w.prog w.ctl w.spawned w0.exec.objs cells' mutex') :
    R5 w0 { s with cells := cells', mutex := mutex' } := by
  simp only [frame5, Prod.mk.injEq] at hfr
  obtain ⟨f1, f2, f3, f4, f5⟩ := hfr
  have hc0 : w0.ctlOf 0 = w.ctlOf 0 := by simp only [World.ctlOf, hctl]
  refine ⟨by rw [hctl, hlen]; exact hR.lenCtl, by rw [hprog, hctl]; exact hR.x, by rw [hprog, hctl, hsp]; exact hy,
    by rw [hctl, f1, f3]; exact hR.t, ?_, by rw [hctl, f1, f2]; exact hR.c, by rw [hc0, htid]; exact hR.lag, ?_⟩
  · rw [hprog, f4, f5, hc0]
    exact hR.z.le hlz
  · rw [hev, hprog]; exact hR.ev

/-- `World.complete`: the operation the active thread is at completes with result `r` -/
theorem R5.complete (hR : R5 w s) (hact : w.tid < w.ctl.length) {op : Op} (hop : opAt w = some op) (r : Ret)
    (hr : ∀ z, op = .lazy z → r = .val (140 + (z : Int))) :
    R5 (w.complete r) (s.ret (w.ctlOf w.tid).body r) := by
  obtain ⟨_, hrel, _⟩ := base5 hR hact
  have hf0 := fin_zero5 hR hact hop
  obtain ⟨h1, h2, h3, h4, h5, h6, h7⟩ := hrel
  have hfin : ∀ i, (((w.ctl.modify w.tid (completeF r)).getD i {}).fin) = (w.ctl.getD i {}).fin :=
    fun i => fin_getD_modify _ _ _ _ rfl
  simp only [World.ctlOf, SCData5.th, SCData5.loc] at *
  refine ⟨?_, ?_, ?_, hR.t.modify _ _ rfl (fun _ => rfl), ?_, ?_, ?_, ?_⟩
  · show (w.ctl.modify w.tid (completeF r)).length = w.exec.threads.threads.length
    rw [← hR.lenCtl]; simp
  · show RX5 w.prog (w.ctl.modify w.tid (completeF r)) (s.ths.modify _ _) s.locals
    have := hR.x.modify hact (completeF r)
      (fun h => { h with rets := (h.pc, r) :: h.rets, pc := h.pc + 1 }) id rfl (Nat.le_succ _)
      (by
        refine ⟨h1, ?_, ?_, ?_, Nat.zero_le _, h6, ?_⟩
        · show (s.ths.getD _ {}).pc + 1 = (w.ctl.getD w.tid {}).pc + 1
          rw [h2]
        · show ((s.ths.getD _ {}).pc, r) :: (s.ths.getD _ {}).rets =
            ((w.ctl.getD w.tid {}).pc, r) :: (w.ctl.getD w.tid {}).results
          rw [h2, h3]
        · exact h4
        · exact h7)
      (by intro hne; exact absurd hf0 hne)
    rwa [modify_id' _ _ id (fun _ => rfl)] at this
  · exact hR.y.ctl (CtlLe.modify _ _ _ rfl id)
  · show RLazy w.prog w.exec.objs w.exec.lazyStatics w.lazyInits
      ((w.ctl.modify w.tid (completeF r)).getD 0 {}).fin s.lazyInit s.lazyDropped
    rw [hfin]; exact hR.z
  · exact hR.c.modify _ _ rfl
  · show ((w.ctl.modify w.tid (completeF r)).getD 0 {}).fin = 10 → _
    rw [hfin]; exact hR.lag
  · intro e he z hz
    rcases List.mem_cons.1 he with rfl | he
    · have hop' : opAt w = some (.lazy z) := hz
      rw [hop] at hop'
      cases hop'
      exact hr z rfl
    · exact hR.ev e he z hz

/-- a stage that only moves the active thread's `stage` / `fin` (on the same side of its `finish` step); the objects
may change -/
theorem R5.restutter {w' : World} (hR : R5 w s) (hact : w.tid < w.ctl.length) (f : TCtl → TCtl)
    (hp : w'.prog = w.prog) (hsp : w'.spawned = w.spawned) (hev : w'.events = w.events)
    (hlen : w'.exec.threads.threads.length = w.exec.threads.threads.length)
    (hcnt : w'.tlsInits = w.tlsInits ∧ w'.tlsDrops = w.tlsDrops ∧ w'.tlsObs = w.tlsObs)
    (hctl : w'.ctl = w.ctl.modify w.tid f)
    (hbody : (f (w.ctlOf w.tid)).body = (w.ctlOf w.tid).body)
    (hpc : (f (w.ctlOf w.tid)).pc = (w.ctlOf w.tid).pc)
    (hres : (f (w.ctlOf w.tid)).results = (w.ctlOf w.tid).results)
    (hloc : (f (w.ctlOf w.tid)).locals = (w.ctlOf w.tid).locals)
    (hdq : (f (w.ctlOf w.tid)).dtorQueue = (w.ctlOf w.tid).dtorQueue)
    (hst : (f (w.ctlOf w.tid)).stage ≤ maxStage5 (opAt w))
    (hfin : finD w.tid (f (w.ctlOf w.tid)) = finD w.tid (w.ctlOf w.tid))
    (hepi : (f (w.ctlOf w.tid)).fin ≠ 0 → opAt w = none)
    (hy : RY w.prog (w.ctl.modify w.tid f) w.spawned w'.exec.objs s.cells s.mutex)
    (hz : RLazy w.prog w'.exec.objs w'.exec.lazyStatics w'.lazyInits (w'.ctlOf 0).fin s.lazyInit s.lazyDropped)
    (hlag : (w'.ctlOf 0).fin = 10 → w'.tid = 0) : R5 w' s := by
  obtain ⟨_, hrel, _⟩ := base5 hR hact
  obtain ⟨h1, h2, h3, h4, h5, h6, h7⟩ := hrel
  have hopc : opOfCtl w.prog (f (w.ctlOf w.tid)) = opAt w := by
    unfold opOfCtl opAt
    rw [hbody, hpc]
  obtain ⟨c1, c2, c3⟩ := hcnt
  have hfB : finB (f (w.ctlOf w.tid)) = finB (w.ctlOf w.tid) := by
    have hz0 : (w.ctlOf w.tid).body = 0 ↔ w.tid = 0 := hR.x.body_zero hact
    rw [finB_eq_finD (i := w.tid) (by rw [hbody]; exact hz0), finB_eq_finD (i := w.tid) hz0]
    exact hfin
  simp only [World.ctlOf, SCData5.th, SCData5.loc] at *
  have ht' : RT w'.ctl w'.tlsInits w'.tlsObs s.tlsInits s.tlsDrops s.tlsObs := by
    rw [hctl, c1, c3]
    exact hR.t.modify _ f hfB (fun k => by unfold touched; rw [hloc])
  refine ⟨?_, ?_, ?_, ht', by rw [hp]; exact hz, ?_, hlag, by rw [hev, hp]; exact hR.ev⟩
  · rw [hctl, hlen, ← hR.lenCtl]; simp
  · rw [hp, hctl]
    refine hR.x.stutter hact f hbody (by rw [hpc]; exact Nat.le_refl _) ?_ ?_
    · refine ⟨h1, by rw [hpc]; exact h2, by rw [hres]; exact h3, by rw [hfin]; exact h4,
        by rw [hopc]; exact hst, by rw [hdq]; exact h6, by rw [hfin, hloc]; exact h7⟩
    · intro hne
      rw [hopc]
      exact hepi hne
  · rw [hp, hctl, hsp]; exact hy
  · rw [hctl, c1, c2]
    exact hR.c.modify _ _ hloc

/-- a `Quiet5` stuttering stage -/
theorem R5.stutterQ {w' : World} (hR : R5 w s) (hact : w.tid < w.ctl.length) (f : TCtl → TCtl)
    (hq : Quiet5 w w') (hctl : w'.ctl = w.ctl.modify w.tid f)
    (hbody : (f (w.ctlOf w.tid)).body = (w.ctlOf w.tid).body)
    (hpc : (f (w.ctlOf w.tid)).pc = (w.ctlOf w.tid).pc)
    (hres : (f (w.ctlOf w.tid)).results = (w.ctlOf w.tid).results)
    (hloc : (f (w.ctlOf w.tid)).locals = (w.ctlOf w.tid).locals)
    (hdq : (f (w.ctlOf w.tid)).dtorQueue = (w.ctlOf w.tid).dtorQueue)
    (hst : (f (w.ctlOf w.tid)).stage ≤ maxStage5 (opAt w))
    (hfin : finD w.tid (f (w.ctlOf w.tid)) = finD w.tid (w.ctlOf w.tid))
    (h10 : 10 ≤ (w.ctlOf w.tid).fin → 10 ≤ (f (w.ctlOf w.tid)).fin)
    (hepi : (f (w.ctlOf w.tid)).fin ≠ 0 → opAt w = none)
    (hg : w.tid = 0 → (w.ctlOf w.tid).fin = 10 → (f (w.ctlOf w.tid)).fin = 10)
    (hs : w.tid = 0 → 10 ≤ (f (w.ctlOf w.tid)).fin → 10 ≤ (w.ctlOf w.tid).fin)
    (hlag : w.tid = 0 → (f (w.ctlOf w.tid)).fin = 10 → w'.tid = 0) : R5 w' s := by
  have hfr := hq.frame
  simp only [frame5, Prod.mk.injEq] at hfr
  obtain ⟨f1, f2, f3, f4, f5⟩ := hfr
  have hc0 : (w'.ctlOf 0).fin = if w.tid = 0 then (f (w.ctlOf w.tid)).fin else (w.ctlOf 0).fin := by
    simp only [World.ctlOf, hctl]
    split
    · next e => rw [← e, getD_modify_self _ _ _ _ hact]
    · next e => rw [getD_modify_ne _ _ _ _ _ (fun e' => e e'.symm)]
  refine hR.restutter hact f hq.q.prog hq.q.spawned hq.q.events hq.q.len ⟨f1, f2, f3⟩ hctl hbody hpc hres hloc hdq hst
    hfin hepi ((hR.y.ctl (CtlLe.modify _ _ _ hbody h10)).viewLe hq.q.view) ?_ ?_
  · rw [f4, f5, hc0]
    refine (hR.z.le (LazyLe.of_viewLe hq.q.view)).fin ?_ ?_
    · intro e
      split
      · next e0 => rw [← e0] at e; exact hg e0 e
      · exact e
    · intro e
      split at e
      · next e0 => rw [← e0]; exact hs e0 e
      · exact e
  · rw [hc0]
    split
    · next e0 => exact hlag e0
    · next e0 =>
      intro e
      exact absurd (hR.lag e) e0

end

/-! ### the statics part of the world is not touched by the lock primitives -/

theorem postAcquire_frame5 {w w1 : World} {o : Nat} {okk : Bool} (h : w.postAcquire o = .ok (w1, okk)) :
    frame5 w1 = frame5 w := by
  unfold World.postAcquire at h
  simp only [bind, Except.bind, pure, Except.pure] at h
  repeat' split at h
  all_goals first
    | (cases h; done)
    | (cases h; rfl)

theorem releaseLock_frame5 {w w1 : World} {o : Nat} (h : w.releaseLock o = .ok w1) : frame5 w1 = frame5 w := by
  unfold World.releaseLock at h
  simp only [bind, Except.bind, pure, Except.pure] at h
  repeat' split at h
  all_goals first
    | (cases h; done)
    | (cases h; rfl)

theorem notifyEffect_frame5 {w w1 : World} {o : Nat} (h : w.notifyEffect o = .ok w1) : frame5 w1 = frame5 w := by
  unfold World.notifyEffect at h
  simp only [bind, Except.bind, pure, Except.pure] at h
  repeat' split at h
  all_goals first
    | (cases h; done)
    | (cases h; rfl)

theorem notifyWait2_frame5 {w w1 : World} {o : Nat} (h : w.notifyWait2 o = .ok w1) : frame5 w1 = frame5 w := by
  unfold World.notifyWait2 at h
  simp only [bind, Except.bind, pure, Except.pure] at h
  repeat' split at h
  all_goals first
    | (cases h; done)
    | (cases h; rfl)

/-- the first half of a wait on a notify that cannot return spuriously is a scheduling point -/
theorem notifyWait1_obs5 {w : World} {o : Nat} {ns : NotifySt} {w1 : World} {st : Nat}
    (hn : w.exec.objs[o]? = some (.notify ns)) (hs : ns.spurious = false)
    (h : w.notifyWait1 o = .ok (w1, st)) : st = 1 ∧ Quiet5 w w1 ∧ w1.ctl = w.ctl ∧ InRange w1 := by
  rw [notifyWait1_plain hn (by rw [hs]; rfl)] at h
  obtain ⟨w2, hb, he⟩ := map_ok h
  cases he
  exact ⟨rfl, (branch_quiet5 hb).1, (branch_quiet5 hb).2, branch_inRange hb⟩

theorem spawn_frame5 {w w' : World} {c : TCtl} {b : Nat} (h : w.runOp c (.spawn b) = .ok w') :
    frame5 w' = frame5 w := by
  rw [runOp_spawn] at h
  simp only [World.pushObj, bind, Except.bind, pure, Except.pure] at h
  split at h
  · cases h
  · next v hv =>
    cases h
    have : v.1.lazyStatics = (w.setObjs (w.exec.objs ++ [Obj.notify { spurious := false, seqCst := true }])).exec.lazyStatics := by
      unfold Exec.newThread at hv
      simp only [bind, Except.bind, pure, Except.pure] at hv
      split at hv
      · cases hv
      · cases hv; rfl
    simp only [frame5, Prod.mk.injEq]
    exact ⟨rfl, rfl, rfl, rfl, this⟩

/-! ### the lock-fragment operations -/

section
variable {w w' : World} {s : SCData5}

theorem enabled_plain5 (hR : R5 w s) (hact : w.tid < w.ctl.length) {op : Op} (hop : opAt w = some op)
    (hl : ∀ m, op ≠ .lock m) (hj : ∀ b, op ≠ .join b) :
    SCData5.enabled w.prog s (w.ctlOf w.tid).body = true := by
  obtain ⟨_, _, hof⟩ := base5 hR hact
  obtain ⟨h1, h2⟩ := started_running5 hR hact (finD_fin_zero (fin_zero5 hR hact hop))
  unfold SCData5.enabled SCData.enabled
  rw [SCData5.base_opOf, hof, hop, SCData5.base_th, h1, h2]
  cases op <;> first | rfl | (exfalso; exact hl _ rfl) | (exfalso; exact hj _ rfl)

/-- the effect of a lock-fragment operation followed by `complete` -/
theorem R5_complete_q {w0 : World} {op : Op} (hR : R5 w s) (hact : w.tid < w.ctl.length)
    (hop : opAt w = some op) (hnl : ∀ z, op ≠ .lazy z)
    (hctl : w0.ctl = w.ctl) (htid : w0.tid = w.tid) (hprog : w0.prog = w.prog) (hsp : w0.spawned = w.spawned)
    (hev : w0.events = w.events)
    (hlen : w0.exec.threads.threads.length = w.exec.threads.threads.length)
    (hfr : frame5 w0 = frame5 w) (hlz : LazyLe w.prog w.exec.objs w0.exec.objs)
    {cells' : List Int} {mutex' : List (Option Nat)}
    (hy : RY w.prog w.ctl w.spawned w0.exec.objs cells' mutex') (r : Ret) :
    R5 (w0.complete r) (s.withBase (({ s.base with cells := cells', mutex := mutex' } : SCData).ret
      (w.ctlOf w.tid).body r)) := by
  have h0 := hR.effect hctl htid hprog hsp hev hlen hfr hlz hy
  have hact0 : w0.tid < w0.ctl.length := by rw [htid, hctl]; exact hact
  have hc : w0.ctlOf w0.tid = w.ctlOf w.tid := by simp only [World.ctlOf, hctl, htid]
  have hop0 : opAt w0 = some op := by
    unfold opAt
    rw [hc, hprog]; exact hop
  have := h0.complete hact0 hop0 r (fun z e => absurd e (hnl z))
  rw [hc] at this
  exact this

/-- a stage that only moves the active thread's `stage` -/
theorem sim_stage5 (hR : R5 w s) (hact : w.tid < w.ctl.length) {op : Op} (hop : opAt w = some op) (n : Nat)
    (hn : n ≤ maxStage5 (some op))
    (hq : Quiet5 w w') (hctl : w'.ctl = w.ctl.modify w.tid fun c => { c with stage := n }) : Sim5 w s w' := by
  refine ⟨hq.q.prog, .inl ⟨?_, hq.q.events⟩⟩
  have hf0 := fin_zero5 hR hact hop
  refine hR.stutterQ hact _ hq hctl rfl rfl rfl rfl rfl (by rw [hop]; exact hn) (finD_congr rfl) id ?_
    (fun _ e => e) (fun _ e => e) ?_
  · intro hne
    exact absurd hf0 hne
  · intro _ e
    rw [hf0] at e
    cases e

theorem mem_frag5 (hR : R5 w s) (hact : w.tid < w.ctl.length) {op : Op} (hop : opAt w = some op)
    (hf : isFrag op = true) {l : Option (Nat × Ret)} {b : SCData}
    (h : (l, b) ∈ SCData.stepL w.prog s.base (w.ctlOf w.tid).body) :
    (l, s.withBase b) ∈ SCData5.stepL w.prog s (w.ctlOf w.tid).body :=
  mem_stepL_frag ((base5 hR hact).2.2.trans hop) hf h

theorem stage_le_one (hR : R5 w s) (hact : w.tid < w.ctl.length) :
    (w.ctlOf w.tid).stage ≤ maxStage5 (opAt w) := by
  have := (base5 hR hact).2.1.2.2.2.2.1
  rw [opOfCtl_active] at this
  exact this

theorem sim_cellRead5 (hR : R5 w s) (hact : w.tid < w.ctl.length) {ci : Nat}
    (hop : opAt w = some (.cellRead ci)) (hci : ci < w.prog.cfg.nCells)
    (h : w.runOp (w.ctlOf w.tid) (.cellRead ci) = .ok w') : SimI w s w' := by
  have hin : w.tid < w.exec.threads.threads.length := by rw [← hR.lenCtl]; exact hact
  obtain ⟨_, hrel, hof⟩ := base5 hR hact
  rw [runOp_cellRead] at h
  obtain ⟨cs, hg, h⟩ := bind_ok h
  have hobj : w.exec.objs[w.prog.cfg.nAtomics + ci]? = some (.cell cs) := getCell_ok hg
  obtain ⟨cs', hcs', hval⟩ := objView_cell (hR.y.cell ci hci)
  rw [hobj] at hcs'; cases hcs'
  simp only [bind, Except.bind, pure, Except.pure, throw, throwThe, MonadExceptOf.throw] at h
  repeat' split at h
  all_goals try (cases h; done)
  cases h
  have hco : w.cellObj ci = w.prog.cfg.nAtomics + ci := rfl
  refine ⟨?_, inRange_of (w := w) rfl (by
    show _ ≤ w.sync.exec.threads.threads.length
    rw [sync_len]; exact Nat.le_refl _) hin⟩
  refine ⟨rfl, .inr ⟨some ((s.th (w.ctlOf w.tid).body).pc, .val (s.cells.getD ci 0)),
    s.withBase (s.base.ret (w.ctlOf w.tid).body (.val (s.cells.getD ci 0))),
    enabled_plain5 hR hact hop (by simp) (by simp), ?_, ?_, ?_⟩⟩
  · refine mem_stepL_frag (hof.trans hop) rfl ?_
    unfold SCData.stepL
    rw [SCData5.base_opOf, hof, hop]
    exact List.mem_singleton.2 rfl
  · rw [← hval]
    have hvl : ViewLe w.exec.objs (w.exec.objs.set (w.prog.cfg.nAtomics + ci)
        (.cell { cs with readAccess := cs.readAccess.join w.sync.ths.caus })) := by
      intro n v hv
      by_cases e : n = w.prog.cfg.nAtomics + ci
      · subst e
        rw [objView_set_self _ (objView_lt hv)]
        rw [objView_of hobj] at hv
        exact hv
      · rw [objView_set_ne _ _ e]; exact hv
    refine R5_complete_q (s := s) (cells' := s.cells) (mutex' := s.mutex)
      (w0 := w.sync.setObj (w.cellObj ci) (.cell { cs with readAccess := cs.readAccess.join w.sync.ths.caus }))
      hR hact hop (by simp) rfl rfl rfl rfl rfl (sync_len w) rfl ?_ ?_ _
    · show LazyLe w.prog w.exec.objs (w.exec.objs.set _ _)
      rw [hco]; exact LazyLe.of_viewLe hvl
    · refine hR.y.viewLe ?_
      show ViewLe w.exec.objs (w.exec.objs.set _ _)
      rw [hco]; exact hvl
  · rw [events_complete', ← hval, hrel.2.1]
    rfl

theorem sim_cellWrite5 (hR : R5 w s) (hact : w.tid < w.ctl.length) {ci : Nat} {v : Int}
    (hop : opAt w = some (.cellWrite ci v)) (hci : ci < w.prog.cfg.nCells)
    (h : w.runOp (w.ctlOf w.tid) (.cellWrite ci v) = .ok w') : SimI w s w' := by
  have hin : w.tid < w.exec.threads.threads.length := by rw [← hR.lenCtl]; exact hact
  obtain ⟨_, hrel, hof⟩ := base5 hR hact
  rw [runOp_cellWrite] at h
  obtain ⟨cs, hg, h⟩ := bind_ok h
  have hobj : w.exec.objs[w.prog.cfg.nAtomics + ci]? = some (.cell cs) := getCell_ok hg
  simp only [bind, Except.bind, pure, Except.pure, throw, throwThe, MonadExceptOf.throw] at h
  repeat' split at h
  all_goals try (cases h; done)
  cases h
  have hco : w.cellObj ci = w.prog.cfg.nAtomics + ci := rfl
  refine ⟨?_, inRange_of (w := w) rfl (by
    show _ ≤ w.sync.exec.threads.threads.length
    rw [sync_len]; exact Nat.le_refl _) hin⟩
  refine ⟨rfl, .inr ⟨some ((s.th (w.ctlOf w.tid).body).pc, .unit),
    s.withBase (({ s.base with cells := s.cells.set ci v } : SCData).ret (w.ctlOf w.tid).body .unit),
    enabled_plain5 hR hact hop (by simp) (by simp), ?_, ?_, ?_⟩⟩
  · refine mem_stepL_frag (hof.trans hop) rfl ?_
    unfold SCData.stepL
    rw [SCData5.base_opOf, hof, hop]
    exact List.mem_singleton.2 rfl
  · refine R5_complete_q (s := s) (cells' := s.cells.set ci v) (mutex' := s.mutex)
      (w0 := w.sync.setObj (w.cellObj ci)
        (.cell { cs with writeAccess := cs.writeAccess.join w.sync.ths.caus, value := v }))
      hR hact hop (by simp) rfl rfl rfl rfl rfl (sync_len w) rfl ?_ ?_ _
    · show LazyLe w.prog w.exec.objs (w.exec.objs.set _ _)
      rw [hco]; exact LazyLe.set_low _ _ (by omega)
    · exact hR.y.setCell hci _ v rfl
  · rw [events_complete', hrel.2.1]
    rfl

theorem sim_ifEq5 (hR : R5 w s) (hact : w.tid < w.ctl.length) {i n : Nat} {r : Ret}
    (hop : opAt w = some (.ifEq i r n))
    (h : w.runOp (w.ctlOf w.tid) (.ifEq i r n) = .ok w') : SimI w s w' := by
  have hin : w.tid < w.exec.threads.threads.length := by rw [← hR.lenCtl]; exact hact
  obtain ⟨_, hrel, hof⟩ := base5 hR hact
  have hf0 := fin_zero5 hR hact hop
  have hst0 : (w.ctlOf w.tid).stage = 0 := by
    have := stage_le_one hR hact
    rw [hop] at this
    exact Nat.le_zero.1 this
  obtain ⟨h1, h2, h3, h4, h5, h6, h7⟩ := hrel
  rw [runOp_ifEq] at h
  have key : ∀ k : Nat, k ≠ 0 →
      R5 (w.modCtl w.tid fun c => { c with pc := c.pc + k })
        (s.modTh (w.ctlOf w.tid).body fun h => { h with pc := h.pc + k }) := by
    intro k hk
    have hfin : ∀ j, (((w.ctl.modify w.tid fun c => { c with pc := c.pc + k }).getD j {}).fin) = (w.ctl.getD j {}).fin :=
      fun j => fin_getD_modify _ _ _ _ rfl
    refine ⟨?_, ?_, ?_, hR.t.modify _ _ rfl (fun _ => rfl), ?_, ?_, ?_, hR.ev⟩
    · show (w.ctl.modify w.tid _).length = w.exec.threads.threads.length
      rw [← hR.lenCtl]; simp
    · show RX5 w.prog (w.ctl.modify w.tid _) (s.ths.modify _ _) s.locals
      have := hR.x.modify hact (fun c => { c with pc := c.pc + k }) (fun h => { h with pc := h.pc + k }) id rfl
        (Nat.le_add_right _ _)
        (by
          refine ⟨h1, ?_, h3, ?_, ?_, h6, ?_⟩
          · show (s.th (w.ctlOf w.tid).body).pc + k = (w.ctlOf w.tid).pc + k
            rw [h2]
          · exact h4
          · show (w.ctlOf w.tid).stage ≤ _
            rw [hst0]; exact Nat.zero_le _
          · exact h7)
        (by intro hne; exact absurd hf0 hne)
      rwa [modify_id' _ _ id (fun _ => rfl)] at this
    · exact hR.y.ctl (CtlLe.modify _ _ _ rfl id)
    · show RLazy w.prog w.exec.objs w.exec.lazyStatics w.lazyInits
        ((w.ctl.modify w.tid _).getD 0 {}).fin s.lazyInit s.lazyDropped
      rw [hfin]; exact hR.z
    · exact hR.c.modify _ _ rfl
    · show ((w.ctl.modify w.tid _).getD 0 {}).fin = 10 → _
      rw [hfin]; exact hR.lag
  split at h
  · next hc =>
    cases h
    refine ⟨?_, inRange_of rfl (Nat.le_refl _) hin⟩
    refine ⟨rfl, .inr ⟨none, s.withBase (s.base.modTh (w.ctlOf w.tid).body fun h => { h with pc := h.pc + 1 }),
      enabled_plain5 hR hact hop (by simp) (by simp), ?_, key 1 (by omega), rfl⟩⟩
    refine mem_stepL_frag (hof.trans hop) rfl ?_
    unfold SCData.stepL
    rw [SCData5.base_opOf, hof, hop]
    simp only [SCData5.base_th, h2, h3, hc, if_true, List.mem_singleton]
  · next hc =>
    cases h
    refine ⟨?_, inRange_of rfl (Nat.le_refl _) hin⟩
    refine ⟨rfl, .inr ⟨none, s.withBase (s.base.modTh (w.ctlOf w.tid).body fun h => { h with pc := h.pc + 1 + n }),
      enabled_plain5 hR hact hop (by simp) (by simp), ?_, ?_, rfl⟩⟩
    · refine mem_stepL_frag (hof.trans hop) rfl ?_
      unfold SCData.stepL
      rw [SCData5.base_opOf, hof, hop]
      simp only [SCData5.base_th, h2, h3, hc, Bool.false_eq_true, if_false, List.mem_singleton]
    · have := key (1 + n) (by omega)
      simp only [← Nat.add_assoc] at this
      exact this

theorem sim_lock5 (hR : R5 w s) (hact : w.tid < w.ctl.length) {mi : Nat}
    (hop : opAt w = some (.lock mi)) (hmi : mi < w.prog.cfg.nMutexes)
    (h : w.runOp (w.ctlOf w.tid) (.lock mi) = .ok w') : SimI w s w' := by
  have hin : w.tid < w.exec.threads.threads.length := by rw [← hR.lenCtl]; exact hact
  obtain ⟨_, hrel, hof⟩ := base5 hR hact
  obtain ⟨l, hv, hmap, hown⟩ := hR.y.mtx mi hmi
  obtain ⟨ms, hobj, hlock⟩ := objView_mutex hv
  have hobj' : w.exec.objs[w.mutexObj mi]? = some (.mutex ms) := hobj
  rw [runOp_lock] at h
  split at h
  · -- the branch point
    simp only [getMutex_of hobj', bind, Except.bind] at h
    obtain ⟨hq, hc⟩ := branch_quiet5 h
    exact ⟨sim_stage5 hR hact hop 1 (Nat.le_refl _) (quiet5_setStage hq) hc, branch_inRange h⟩
  · obtain ⟨⟨w1, okk⟩, hpa, h⟩ := bind_ok h
    obtain ⟨hk, hc1, ht1, hp1, hs1, he1, hl1, _, hobjs⟩ := postAcquire_obs hobj' hpa
    cases okk with
    | false => simp [bind, Except.bind, throw, throwThe, MonadExceptOf.throw] at h
    | true =>
      simp only [Bool.not_true, Bool.false_eq_true, if_false, bind, Except.bind, pure, Except.pure] at h
      cases h
      refine ⟨?_, inRange_of (w' := w1.complete .unit) ht1 (Nat.le_of_eq hl1.symm) hin⟩
      have hl0 : l = none := by
        rw [← hlock]
        cases hh : ms.lock with
        | none => rfl
        | some i => rw [hh] at hk; cases hk
      subst hl0
      obtain ⟨h1, h2⟩ := started_running5 hR hact (finD_fin_zero (fin_zero5 hR hact hop))
      refine ⟨hp1, .inr ⟨some ((s.th (w.ctlOf w.tid).body).pc, .unit),
        s.withBase (({ s.base with mutex := s.mutex.set mi (some (w.ctlOf w.tid).body) } : SCData).ret
          (w.ctlOf w.tid).body .unit),
        ?_, ?_, ?_, ?_⟩⟩
      · unfold SCData5.enabled SCData.enabled
        rw [SCData5.base_opOf, hof, hop, SCData5.base_th, h1, h2]
        simp only [Option.map_none] at hmap
        show (true && !false && (s.mutex.getD mi none).isNone) = true
        rw [← hmap]; rfl
      · refine mem_frag5 hR hact hop rfl ?_
        unfold SCData.stepL
        rw [SCData5.base_opOf, hof, hop]
        exact List.mem_singleton.2 rfl
      · refine R5_complete_q (s := s) (cells' := s.cells) (w0 := w1) hR hact hop (by simp) hc1 ht1 hp1 hs1 he1 hl1
          (postAcquire_frame5 hpa) ?_ ?_ _
        · rw [hobjs rfl]; exact LazyLe.set_other _ hv (by intro c e; cases e)
        · rw [hobjs rfl]
          exact hR.y.setMutex hmi _ (some w.tid) rfl (by intro i hi; cases hi; exact hact)
      · rw [events_complete', he1, ht1]
        show ((w1.ctlOf w.tid).body, (w1.ctlOf w.tid).pc, Ret.unit) :: _ = _
        rw [show w1.ctlOf w.tid = w.ctlOf w.tid by simp only [World.ctlOf, hc1], hrel.2.1]
        rfl

theorem sim_tryLock5 (hR : R5 w s) (hact : w.tid < w.ctl.length) {mi : Nat}
    (hop : opAt w = some (.tryLock mi)) (hmi : mi < w.prog.cfg.nMutexes)
    (h : w.runOp (w.ctlOf w.tid) (.tryLock mi) = .ok w') : SimI w s w' := by
  have hin : w.tid < w.exec.threads.threads.length := by rw [← hR.lenCtl]; exact hact
  obtain ⟨_, hrel, hof⟩ := base5 hR hact
  obtain ⟨l, hv, hmap, hown⟩ := hR.y.mtx mi hmi
  obtain ⟨ms, hobj, hlock⟩ := objView_mutex hv
  have hobj' : w.exec.objs[w.mutexObj mi]? = some (.mutex ms) := hobj
  rw [runOp_tryLock] at h
  split at h
  · obtain ⟨hq, hc⟩ := branch_quiet5 h
    exact ⟨sim_stage5 hR hact hop 1 (Nat.le_refl _) (quiet5_setStage hq) hc, branch_inRange h⟩
  · obtain ⟨⟨w1, okk⟩, hpa, h⟩ := bind_ok h
    obtain ⟨hk, hc1, ht1, hp1, hs1, he1, hl1, hsame, hobjs⟩ := postAcquire_obs hobj' hpa
    simp only [pure, Except.pure] at h
    cases h
    refine ⟨?_, inRange_of (w' := w1.complete _) ht1 (Nat.le_of_eq hl1.symm) hin⟩
    have hev : (w1.complete (World.boolRet okk)).events.map triple =
        ((w.ctlOf w.tid).body, (s.th (w.ctlOf w.tid).body).pc, World.boolRet okk) :: w.events.map triple := by
      rw [events_complete', he1, ht1,
        show w1.ctlOf w.tid = w.ctlOf w.tid by simp only [World.ctlOf, hc1], hrel.2.1]
    cases okk with
    | false =>
      have hw : w1 = w := hsame rfl
      rw [hw] at hev ⊢
      have hl0 : (s.base.mutex.getD mi none).isNone = false := by
        show (s.mutex.getD mi none).isNone = false
        rw [← hmap, ← hlock]
        cases hh : ms.lock with
        | none => rw [hh] at hk; cases hk
        | some i => rfl
      refine ⟨rfl, .inr ⟨some ((s.th (w.ctlOf w.tid).body).pc, SC.bool01 false),
        s.withBase (s.base.ret (w.ctlOf w.tid).body (SC.bool01 false)),
        enabled_plain5 hR hact hop (by simp) (by simp), ?_, ?_, hev⟩⟩
      · refine mem_frag5 hR hact hop rfl ?_
        unfold SCData.stepL
        rw [SCData5.base_opOf, hof, hop]
        simp only []
        rw [hl0]
        exact List.mem_singleton.2 rfl
      · exact R5_complete_q (s := s) (cells' := s.cells) (mutex' := s.mutex) (w0 := w) hR hact hop (by simp)
          rfl rfl rfl rfl rfl rfl rfl (LazyLe.refl _ _) hR.y _
    | true =>
      have hl0 : l = none := by
        rw [← hlock]
        cases hh : ms.lock with
        | none => rfl
        | some i => rw [hh] at hk; cases hk
      subst hl0
      simp only [Option.map_none] at hmap
      have hl1' : (s.base.mutex.getD mi none).isNone = true := by
        show (s.mutex.getD mi none).isNone = true
        rw [← hmap]; rfl
      refine ⟨hp1, .inr ⟨some ((s.th (w.ctlOf w.tid).body).pc, SC.bool01 true),
        s.withBase (({ s.base with mutex := s.mutex.set mi (some (w.ctlOf w.tid).body) } : SCData).ret
          (w.ctlOf w.tid).body (SC.bool01 true)),
        enabled_plain5 hR hact hop (by simp) (by simp), ?_, ?_, hev⟩⟩
      · refine mem_frag5 hR hact hop rfl ?_
        unfold SCData.stepL
        rw [SCData5.base_opOf, hof, hop]
        simp only []
        rw [hl1']
        exact List.mem_singleton.2 rfl
      · refine R5_complete_q (s := s) (cells' := s.cells) (w0 := w1) hR hact hop (by simp) hc1 ht1 hp1 hs1 he1 hl1
          (postAcquire_frame5 hpa) ?_ ?_ _
        · rw [hobjs rfl]; exact LazyLe.set_other _ hv (by intro c e; cases e)
        · rw [hobjs rfl]
          exact hR.y.setMutex hmi _ (some w.tid) rfl (by intro i hi; cases hi; exact hact)

theorem sim_unlock5 (hR : R5 w s) (hact : w.tid < w.ctl.length) {mi : Nat}
    (hop : opAt w = some (.unlock mi)) (hmi : mi < w.prog.cfg.nMutexes)
    (h : w.runOp (w.ctlOf w.tid) (.unlock mi) = .ok w') : SimI w s w' := by
  have hin : w.tid < w.exec.threads.threads.length := by rw [← hR.lenCtl]; exact hact
  obtain ⟨_, hrel, hof⟩ := base5 hR hact
  obtain ⟨l, hv, hmap, hown⟩ := hR.y.mtx mi hmi
  obtain ⟨ms, hobj, hlock⟩ := objView_mutex hv
  have hobj' : w.exec.objs[w.mutexObj mi]? = some (.mutex ms) := hobj
  rw [runOp_unlock] at h
  obtain ⟨w1, hrl, h⟩ := bind_ok h
  obtain ⟨hc1, ht1, hp1, hs1, he1, hl1, m', hm', hobjs⟩ := releaseLock_obs hobj' hrl
  simp only [pure, Except.pure] at h
  cases h
  refine ⟨?_, inRange_of (w' := w1.complete .unit) ht1 (Nat.le_of_eq hl1.symm) hin⟩
  refine ⟨hp1, .inr ⟨some ((s.th (w.ctlOf w.tid).body).pc, .unit),
    s.withBase (({ s.base with mutex := s.mutex.set mi none } : SCData).ret (w.ctlOf w.tid).body .unit),
    enabled_plain5 hR hact hop (by simp) (by simp), ?_, ?_, ?_⟩⟩
  · refine mem_frag5 hR hact hop rfl ?_
    unfold SCData.stepL
    rw [SCData5.base_opOf, hof, hop]
    exact List.mem_singleton.2 rfl
  · refine R5_complete_q (s := s) (cells' := s.cells) (w0 := w1) hR hact hop (by simp) hc1 ht1 hp1 hs1 he1 hl1
      (releaseLock_frame5 hrl) ?_ ?_ _
    · rw [hobjs]; exact LazyLe.set_other _ hv (by intro c e; cases e)
    · rw [hobjs]
      exact hR.y.setMutex hmi (.mutex m') none (by simp [view, hm']) (by intro i hi; cases hi)
  · rw [events_complete', he1, ht1,
      show w1.ctlOf w.tid = w.ctlOf w.tid by simp only [World.ctlOf, hc1], hrel.2.1]
    rfl

theorem sim_join5 (hR : R5 w s) (hact : w.tid < w.ctl.length) {b : Nat}
    (hop : opAt w = some (.join b))
    (h : w.runOp (w.ctlOf w.tid) (.join b) = .ok w') : SimI w s w' := by
  have hin : w.tid < w.exec.threads.threads.length := by rw [← hR.lenCtl]; exact hact
  obtain ⟨_, hrel, hof⟩ := base5 hR hact
  rw [runOp_join] at h
  obtain ⟨⟨tid', n⟩, hl, h2⟩ := bind_ok h
  clear h
  have h := h2
  clear h2
  -- the entry of `spawned`
  have hent : ∃ b'', (b'', tid', n) ∈ w.spawned ∧ b'' = b := by
    unfold World.lookupSpawn at hl
    split at hl
    · next b'' t'' n'' hf =>
      cases hl
      have := List.find?_some hf
      exact ⟨b'', List.mem_of_find?_eq_some hf, by simpa using this⟩
    · cases hl
  obtain ⟨b'', hmem, hbb⟩ := hent
  obtain ⟨hlt, hbody, nt, hv, hnt⟩ := hR.y.sp _ tid' n hmem
  rw [hbb] at hbody
  obtain ⟨ns, hobj, hspur, hnotified⟩ := objView_notify hv
  have hst : (w.ctlOf w.tid).stage = 0 ∨ (w.ctlOf w.tid).stage = 1 := by
    have := stage_le_one hR hact
    rw [hop] at this
    have h' : (w.ctlOf w.tid).stage ≤ 1 := this
    omega
  rcases hst with hst | hst
  · simp only [hst] at h
    obtain ⟨⟨w1, st⟩, h1, h⟩ := bind_ok h
    obtain ⟨rfl, hq, hc, hr⟩ := notifyWait1_obs5 hobj hspur h1
    simp only [pure, Except.pure] at h
    cases h
    refine ⟨sim_stage5 hR hact hop 1 (Nat.le_refl _) ⟨⟨hq.q.prog, hq.q.spawned, hq.q.events, hq.q.len, hq.q.view⟩,
      hq.frame⟩ ?_, hr⟩
    show w1.ctl.modify _ _ = _
    rw [hc]
  · simp only [hst] at h
    obtain ⟨w1, h1, h⟩ := bind_ok h
    obtain ⟨hn1, hc1, ht1, hp1, hs1, he1, hl1, hobjs⟩ := notifyWait2_obs hobj h1
    simp only [pure, Except.pure] at h
    cases h
    refine ⟨?_, inRange_of (w' := w1.complete .unit) ht1 (Nat.le_of_eq hl1.symm) hin⟩
    have hf0 := fin_zero5 hR hact hop
    obtain ⟨e1, e2⟩ := started_running5 hR hact (finD_fin_zero hf0)
    have h10 : 10 ≤ (w.ctl.getD tid' {}).fin := hnt (by rw [← hnotified]; exact hn1)
    have hfinished : (s.th (w.ctl.getD tid' {}).body).finished = true := by
      have := (hR.x.thr tid' hlt).2.2.2.2.1
      rw [show s.th (w.ctl.getD tid' {}).body = s.ths.getD (w.ctl.getD tid' {}).body {} from rfl, this]
      unfold finD
      split
      · next e0 =>
        subst e0
        have hne : (w.ctlOf 0).fin ≠ 10 := fin0_ne_10 hR hact hop
        have : 11 ≤ (w.ctl.getD 0 {}).fin := by
          have h' : (w.ctl.getD 0 {}).fin ≠ 10 := hne
          omega
        simpa using this
      · have : (w.ctl.getD tid' {}).fin ≠ 0 := by omega
        simpa using this
    refine ⟨hp1, .inr ⟨some ((s.th (w.ctlOf w.tid).body).pc, .unit),
      s.withBase (s.base.ret (w.ctlOf w.tid).body .unit), ?_, ?_, ?_, ?_⟩⟩
    · unfold SCData5.enabled SCData.enabled
      rw [SCData5.base_opOf, hof, hop, SCData5.base_th, e1, e2]
      show (true && !false && (s.th b).finished) = true
      rw [← hbody, hfinished]; rfl
    · refine mem_frag5 hR hact hop rfl ?_
      unfold SCData.stepL
      rw [SCData5.base_opOf, hof, hop]
      exact List.mem_singleton.2 rfl
    · refine R5_complete_q (s := s) (cells' := s.cells) (mutex' := s.mutex) (w0 := w1) hR hact hop (by simp) hc1 ht1
        hp1 hs1 he1 hl1 (notifyWait2_frame5 h1) ?_ ?_ _
      · rw [hobjs]; exact LazyLe.set_other _ hv (by intro c e; cases e)
      · rw [hobjs]
        exact hR.y.setNotify hv _ false (by simp [view, hspur]) (by intro e; cases e)
    · rw [events_complete', he1, ht1,
        show w1.ctlOf w.tid = w.ctlOf w.tid by simp only [World.ctlOf, hc1], hrel.2.1]
      rfl

end

end Refine5
end LoomVerif

/-
Deadlock soundness, WAIT fragment, part 7: the twin-side invariant along the stages of `cellRead`, `cellWrite`,
`ifEq`, `lock`, `tryLock`, `unlock`.
-/
import LoomVerif.Proofs.Deadlock2Points

namespace LoomVerif
namespace Deadlock2
open Refine Refine2 Sy Deadlock C07 C08

/-- what every case of the preservation proof starts from -/
structure Ctx (w : World) (s : SCData2) : Prop where
  wf : WFD w.prog
  r : R2c w s
  pk : RPk w s
  j : JB2 w
  active : w.ths.isActive = true
  act : w.tid < w.ctl.length
  run : (w.ths.get w.tid).state ≠ .blocked ∧ (w.ths.get w.tid).state ≠ .terminated
  unp : (w.ths.get w.tid).parked = false

theorem Ctx.hin {w : World} {s : SCData2} (c : Ctx w s) : w.tid < w.exec.threads.threads.length := by
  rw [← c.r.lenCtl]; exact c.act

/-- the conclusion of every case -/
def Res (w w' : World) : Prop := JB2 w' ∧ PStep w.exec.path w'.exec.path w'.ths.isActive

theorem Res.local {w w' : World} (hJ : JB2 w') (hp : w'.exec.path = w.exec.path)
    (ha : w'.ths.isActive = true) : Res w w' := by
  refine ⟨hJ, ?_⟩
  rw [hp, ha]; exact PStep.same

/-! ### helpers -/

theorem modifyActive_same4 (ths : Threads) (f : Thread → Thread) (hf : ∀ t, Same4 t (f t)) (i : Nat) :
    Same4 (ths.get i) ((ths.modifyActive f).get i) := by
  unfold Threads.modifyActive
  rw [WB.get_modify]
  split
  · exact hf _
  · exact Same4.refl _

theorem sync_same4 (w : World) (i : Nat) : Same4 (w.ths.get i) (w.sync.ths.get i) :=
  modifyActive_same4 _ _ (fun t => Same4.caus t _) i

theorem setCaus_same4 (ths : Threads) (v : VV) (i : Nat) : Same4 (ths.get i) ((ths.setCaus v).get i) :=
  modifyActive_same4 _ _ (fun t => Same4.caus t _) i

/-- replacing object `o`, whose old view is not a raised notification: raised notifications are kept -/
theorem nv_set {objs : List Obj} {o : Nat} {x : Obj} {v0 : OV2} (h0 : objView2 objs o = some v0)
    (hk : ∀ a d, v0 = .notify a true d → ∃ a' d', view2 x = .notify a' true d') :
    ∀ n a d, objView2 objs n = some (.notify a true d) →
      ∃ a' d', objView2 (objs.set o x) n = some (.notify a' true d') := by
  intro n a d hv
  by_cases e : n = o
  · subst e
    rw [h0] at hv; cases hv
    obtain ⟨a', d', h⟩ := hk a d rfl
    exact ⟨a', d', by rw [objView2_set_self _ (objView2_lt h0), h]⟩
  · exact ⟨a, d, by rw [objView2_set_ne _ _ e]; exact hv⟩

section
variable {w w' : World} {s : SCData2}

theorem ctlOf_tid_eq (w : World) : w.ctl.getD w.tid {} = w.ctlOf w.tid := rfl

/-- `Jnd` along `complete` when the raised notifications are kept -/
theorem Jnd.complete (c : Ctx w s) {w0 : World} (r : Ret) (hc : w0.ctl = w.ctl) (ht : w0.tid = w.tid)
    (hp : w0.prog = w.prog) (hs : w0.spawned = w.spawned)
    (hnv : ∀ b i n, (b, i, n) ∈ w.spawned → ∀ a d, objView2 w.exec.objs n = some (.notify a true d) →
      ∃ a' d', objView2 w0.exec.objs n = some (.notify a' true d')) : Jnd (w0.complete r) :=
  c.j.jnd.modify (g := completeF r) c.act hp hs (by rw [ctl_complete', hc, ht]) rfl (Nat.le_succ _)
    (fun _ h => h) hnv

/-- a stage that completes the operation and touches no other thread -/
theorem quiet_complete (c : Ctx w s) {w0 : World} (r : Ret) (hc : w0.ctl = w.ctl) (ht : w0.tid = w.tid)
    (hp : w0.prog = w.prog) (hs : w0.spawned = w.spawned) (hpath : w0.exec.path = w.exec.path)
    (hact : w0.ths.isActive = true)
    (hself : (w0.ths.get w.tid).state = (w.ths.get w.tid).state)
    (hths : ∀ i, i < w.ctl.length → i ≠ w.tid → Same4 (w.ths.get i) (w0.ths.get i))
    (hv : ∀ i n v, objView2 w.exec.objs n = some v → Stuck v →
      ∃ v', objView2 w0.exec.objs n = some v' ∧ VKeep i ((w.ths.get i).parked = false) v v')
    (hnv : ∀ b i n, (b, i, n) ∈ w.spawned → ∀ a d, objView2 w.exec.objs n = some (.notify a true d) →
      ∃ a' d', objView2 w0.exec.objs n = some (.notify a' true d')) : Res w (w0.complete r) :=
  Res.local
    (JB2.quiet (g := completeF r) c.j c.act c.run hp hs ht (by rw [ctl_complete', hc, ht]) hself hths hv
      (Jnd.complete c r hc ht hp hs hnv)) hpath hact

/-- a stage that only rewrites the control record of the active thread -/
theorem quiet_ctl (c : Ctx w s) {g : TCtl → TCtl}
    (hbody : (g (w.ctlOf w.tid)).body = (w.ctlOf w.tid).body)
    (hpc : (w.ctlOf w.tid).pc ≤ (g (w.ctlOf w.tid)).pc)
    (hfin : (∃ b n, (b, w.tid, n) ∈ w.spawned) → 10 ≤ (g (w.ctlOf w.tid)).fin → 10 ≤ (w.ctlOf w.tid).fin)
    {w0 : World} (hc : w0.ctl = w.ctl) (ht : w0.tid = w.tid) (hp : w0.prog = w.prog)
    (hs : w0.spawned = w.spawned) (hth : w0.exec.threads = w.exec.threads) (ho : w0.exec.objs = w.exec.objs)
    (hpath : w0.exec.path = w.exec.path) : Res w (w0.modCtl w.tid g) := by
  have hths : (w0.modCtl w.tid g).ths = w.ths := hth
  refine Res.local (JB2.quiet (g := g) c.j c.act c.run hp hs ht (by show w0.ctl.modify _ _ = _; rw [hc])
    (by rw [hths]) (fun i _ _ => by rw [hths]; exact Same4.refl _)
    (fun i n v hv _ => ⟨v, by show objView2 w0.exec.objs n = _; rw [ho]; exact hv, .inl rfl⟩) ?_) hpath
    (by rw [hths]; exact c.active)
  refine c.j.jnd.modify (g := g) c.act hp hs (by show w0.ctl.modify _ _ = _; rw [hc]) hbody hpc hfin ?_
  intro b i n _ a d hv
  exact ⟨a, d, by show objView2 w0.exec.objs n = _; rw [ho]; exact hv⟩

/-- a branch point: the control record of the active thread is rewritten by `g` (same `body`, `pc`, `fin`), its
entry by `branchF`, which must fit the new place -/
theorem branch_stage (c : Ctx w s) {g : TCtl → TCtl} {o : Nat} {a : Action} {blk wt : Bool}
    (h : (w.modCtl w.tid g).branch o a blk wt = .ok w')
    (hbody : (g (w.ctlOf w.tid)).body = (w.ctlOf w.tid).body)
    (hpc : (g (w.ctlOf w.tid)).pc = (w.ctlOf w.tid).pc)
    (hfin : 10 ≤ (g (w.ctlOf w.tid)).fin → 10 ≤ (w.ctlOf w.tid).fin)
    (hopn : OpAt w.prog w.spawned w.tid (g (w.ctlOf w.tid)) (some ⟨o, a, wt⟩))
    (hblk : blk = true → Blk w.prog w.spawned w.exec.objs w.tid (branchF o a blk wt (w.ths.get w.tid))
      (g (w.ctlOf w.tid))) : Res w w' := by
  rw [branch_point] at h
  obtain ⟨x, hx, rfl⟩ := bind_pure_ok h
  refine JB2.point (g := g) c.j c.hin c.act hx rfl rfl rfl rfl hbody hpc hfin ?_
  refine ⟨fun hb => ?_, fun ht => ?_, fun _ => by rw [branchF_operation]; exact hopn⟩
  · rw [branchF_state] at hb
    cases blk with
    | true => exact hblk rfl
    | false => exact absurd hb c.run.1
  · rw [branchF_state] at ht
    cases blk with
    | true => cases ht
    | false => exact absurd ht c.run.2

theorem cell_view (c : Ctx w s) {ci : Nat} (hci : ci < w.prog.cfg.nCells) :
    ∃ v, objView2 w.exec.objs (w.cellObj ci) = some (.cell v) := ⟨_, c.r.o.y.cell ci hci⟩

/-- `cellRead`, `cellWrite`: the cell object is replaced -/
theorem cell_step (c : Ctx w s) {ci : Nat} (hci : ci < w.prog.cfg.nCells) (x : CellSt) (r : Ret) :
    Res w ((w.sync.setObj (w.cellObj ci) (.cell x)).complete r) := by
  obtain ⟨v0, hv0⟩ := cell_view c hci
  refine quiet_complete c r rfl rfl rfl rfl rfl c.active (sync_same4 w _).st (fun i _ _ => sync_same4 w i)
    (fun i => vkeep_set hv0 (fun hs => absurd hs (by simp [Stuck]))) ?_
  intro b i n _ a d hv
  exact nv_set hv0 (by intro a d e; cases e) n a d hv

theorem step_cellRead (c : Ctx w s) {ci : Nat} (hci : ci < w.prog.cfg.nCells)
    (h : w.runOp (w.ctlOf w.tid) (.cellRead ci) = .ok w') : Res w w' := by
  rw [runOp_cellRead] at h
  obtain ⟨cs, _, h⟩ := Refine.bind_ok h
  simp only [bind, Except.bind, pure, Except.pure, throw, throwThe, MonadExceptOf.throw] at h
  repeat' split at h
  all_goals try (cases h; done)
  cases h
  exact cell_step c hci _ _

theorem step_cellWrite (c : Ctx w s) {ci : Nat} {v : Int} (hci : ci < w.prog.cfg.nCells)
    (h : w.runOp (w.ctlOf w.tid) (.cellWrite ci v) = .ok w') : Res w w' := by
  rw [runOp_cellWrite] at h
  obtain ⟨cs, _, h⟩ := Refine.bind_ok h
  simp only [bind, Except.bind, pure, Except.pure, throw, throwThe, MonadExceptOf.throw] at h
  repeat' split at h
  all_goals try (cases h; done)
  cases h
  exact cell_step c hci _ _

theorem step_ifEq (c : Ctx w s) {i : Nat} {r : Ret} {n : Nat}
    (h : w.runOp (w.ctlOf w.tid) (.ifEq i r n) = .ok w') : Res w w' := by
  rw [runOp_ifEq] at h
  split at h
  · cases h
    exact quiet_ctl c rfl (Nat.le_succ _) (fun _ h => h) rfl rfl rfl rfl rfl rfl rfl
  · cases h
    exact quiet_ctl c rfl (by show _ ≤ _ + 1 + n; omega) (fun _ h => h) rfl rfl rfl rfl rfl rfl rfl

end

end Deadlock2
end LoomVerif

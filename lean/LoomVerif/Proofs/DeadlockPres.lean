/-
Deadlock soundness, part 7: **`RB` is preserved by every successful stage of the active thread** over the lock
fragment (`spawn`, `join`, `lock`, `unlock`, `tryLock`, `cellRead`, `cellWrite`, `ifEq`, the thread epilogue).
-/
import LoomVerif.Proofs.DeadlockStep3

namespace LoomVerif
namespace Deadlock
open Refine Sy C07 C08

section
variable {w w' : World} {s : SCData}

theorem sync_get (w : World) (i : Nat) :
    (w.sync.ths.get i).state = (w.ths.get i).state ∧
    (w.sync.ths.get i).operation = (w.ths.get i).operation := by
  show ((w.ths.activeCausalityInc).get i).state = _ ∧ ((w.ths.activeCausalityInc).get i).operation = _
  unfold Threads.activeCausalityInc Threads.modifyActive
  rw [WB.get_modify]
  split <;> exact ⟨rfl, rfl⟩

/-- the entry of `spawned` a `join b` uses -/
theorem lookupSpawn_mem {b t n : Nat} (hl : w.lookupSpawn b = .ok (t, n)) : (b, t, n) ∈ w.spawned := by
  unfold World.lookupSpawn at hl
  split at hl
  · next b'' t'' n'' hf =>
    cases hl
    have := List.find?_some hf
    simp only [beq_iff_eq] at this
    subst this
    exact List.mem_of_find?_eq_some hf
  · cases hl

/-- a joiner past its branch point is blocked exactly when the `JoinHandle` is not notified -/
theorem join_fin_iff (hwf : WF w.prog) (hJ : JB w) (hR : R w s) (hact : w.tid < w.ctl.length) {b t n : Nat}
    (hop : opAt w = some (.join b)) (hmem : (b, t, n) ∈ w.spawned) {ns : NotifySt}
    (hobj : w.exec.objs[n]? = some (.notify ns)) : ns.notified = true ↔ 10 ≤ (w.ctlOf t).fin := by
  obtain ⟨_, _, nt, hv, hnt⟩ := hR.y.sp b t n hmem
  have hview := objView_of hobj
  rw [hview] at hv
  simp only [view, Option.some.injEq, OV.notify.injEq] at hv
  constructor
  · intro hn; exact hnt (by rw [← hv.2]; exact hn)
  · intro h10
    rcases hJ.jnd b t n hmem h10 with hv' | ⟨j, k, hj, hk, hop'⟩
    · rw [hview] at hv'
      simp only [view, Option.some.injEq, OV.notify.injEq] at hv'
      exact hv'.2
    · exfalso
      obtain ⟨e1, e2⟩ := hwf.join_unique hop' (show (w.prog.threads.getD (w.ctlOf w.tid).body [])[(w.ctlOf w.tid).pc]? = _ from hop)
      have := hR.x.inj j w.tid hj hact e1
      subst this
      omega

/-- **the twin-side invariant and the replay condition are kept by every successful stage** of a fragment
operation or of the epilogue -/
theorem step_JBT (hwf : WF w.prog) (hRB : RB w s) (hactive : w.ths.isActive = true)
    (hact : w.tid < w.ctl.length) (h : w.stepActive = .ok w') : JB w' ∧ PathTrans w w' := by
  have hR := hRB.r
  have hJ := hRB.j
  have hin : w.tid < w.exec.threads.threads.length := by rw [← hR.lenCtl]; exact hact
  obtain ⟨_, hrel, hof⟩ := base hR hact
  have h0 : JTd w.prog w.spawned w.exec.objs (fun t => (w.ctlOf t).fin) (w.tid = w.tid) (w.ths.get w.tid)
      (w.ctlOf w.tid) := hJ.thr _ hact
  have hst01 : (w.ctlOf w.tid).stage ≤ 1 := hrel.2.2.2.2.1
  unfold World.stepActive at h
  simp only at h
  cases hop : opAt w with
  | none =>
    have hw : waits (opAt w) = false := by rw [hop]; rfl
    have hopC : waits (opOfC w.prog (w.ctlOf w.tid)) = false := hw
    have hop' := hop
    unfold opAt at hop'
    rw [hop'] at h
    replace h : w.runEpilogue (w.ctlOf w.tid) = .ok w' := h
    have hloc := hrel.2.2.2.2.2.1
    have hdq := hrel.2.2.2.2.2.2
    have hdl : w.dropLocals = w := dropLocals_frag w hloc hdq
    by_cases h10 : 10 ≤ (w.ctlOf w.tid).fin
    · rw [runEpilogue_finish w _ h10] at h
      unfold World.finishThread at h
      split at h
      · cases h
      · rw [dropPass_eq, hdl] at h
        split at h
        · next e10 =>
          cases h
          exact ⟨JB.ctl_local hJ hact hw rfl rfl rfl rfl rfl rfl rfl (Nat.le_refl _) rfl
            (fun _ => by simp only; omega) (fun h99 => by exfalso; omega), .inl rfl⟩
        · split at h
          · next e11 =>
            rw [hdq] at h
            simp only at h
            obtain ⟨hJ', hP'⟩ := JB.done_step hJ hR hact h rfl rfl (by simp only; omega)
              ⟨by simp [Thread.setTerminated], fun _ => rfl, fun h1 => absurd h1 (h0.plain hopC).1,
                fun _ => ⟨by simp [Thread.setTerminated], fun _ op ho => by cases ho⟩⟩
            exact ⟨hJ', hP'⟩
          · rw [hdq] at h
            cases h
    · have hlt : (w.ctlOf w.tid).fin < 10 := by omega
      by_cases ht0 : w.tid = 0
      · rw [runEpilogue_main w _ ht0 hlt] at h
        cases h
        refine ⟨JB.ctl_local (w0 := { w with exec := { w.exec with lazyStatics := none } }) hJ hact hw rfl rfl rfl
          rfl rfl rfl rfl (Nat.le_refl _) rfl ?_ (fun h99 => by exfalso; omega), .inl rfl⟩
        rintro ⟨b, n, hm⟩
        have := hJ.sp0 b w.tid n hm
        omega
      · have hfind : ∃ b n, w.spawned.find? (·.2.1 == w.tid) = some (b, w.tid, n) := by
          cases hf : w.spawned.find? (·.2.1 == w.tid) with
          | none =>
            unfold World.runEpilogue at h
            simp [h10, ht0, hf, bind, Except.bind, throw, throwThe, MonadExceptOf.throw] at h
          | some e =>
            obtain ⟨b, t, n⟩ := e
            have := List.find?_some hf
            simp only [beq_iff_eq] at this
            subst this
            exact ⟨b, n, rfl⟩
        obtain ⟨b, n, hf⟩ := hfind
        have hmem := List.mem_of_find?_eq_some hf
        rw [runEpilogue_spawned w _ b n ht0 hf hlt] at h
        split at h
        · next e0 =>
          rw [hdl] at h
          cases h
          have e0' : (w.ctlOf w.tid).fin = 0 := by simpa using e0
          exact ⟨JB.ctl_local hJ hact hw rfl rfl rfl rfl rfl rfl rfl (Nat.le_refl _) rfl
            (fun _ => by simp only; omega) (fun h99 => by exfalso; omega), .inl rfl⟩
        · split at h
          · next e3 =>
            rw [dropPass_eq, hdl] at h
            split at h
            · next e3' =>
              cases h
              exact ⟨JB.ctl_local hJ hact hw rfl rfl rfl rfl rfl rfl rfl (Nat.le_refl _) rfl
                (fun _ => by simp only; omega) (fun h99 => by exfalso; omega), .inl rfl⟩
            · split at h
              · next e4 =>
                rw [hdq] at h
                simp only at h
                obtain ⟨hJ', hP'⟩ := JB.branch_step hJ hR hact h rfl rfl (by simp only; omega)
                  ⟨by rw [branchF_state]; exact h0.noYield,
                    fun htm => by
                      rw [branchF_state] at htm
                      have := h0.term htm
                      exfalso; omega,
                    fun h1 => absurd h1 (h0.plain hopC).1,
                    fun _ => ⟨by rw [branchF_state]; exact (h0.plain hopC).2,
                      fun _ op ho => by rw [branchF_operation] at ho; cases ho; rfl⟩⟩
                exact ⟨hJ', hP'⟩
              · rw [hdq] at h
                cases h
          · obtain ⟨hlt', hbody, nt, hv, hnt⟩ := hR.y.sp b w.tid n hmem
            obtain ⟨ns, hobj, hspur, hnotified⟩ := objView_notify hv
            obtain ⟨w1, h1, h⟩ := Refine.bind_ok h
            simp only [pure, Except.pure] at h
            cases h
            obtain ⟨hJ', hpath⟩ := JB.notify_step hJ hR hact hmem hobj hop hlt h1
            exact ⟨hJ', .inl hpath⟩
  | some op =>
    have hw' : ∀ (_ : waits (some op) = false), waits (opAt w) = false := fun hh => by rw [hop]; exact hh
    have hop' := hop
    unfold opAt at hop'
    rw [hop'] at h
    simp only at h
    have hok := hwf.1.opOk hop'
    cases op <;> simp only [opOk, Bool.false_eq_true, Bool.and_eq_true, decide_eq_true_eq] at hok
    case cellRead ci =>
      have hw := hw' rfl
      obtain ⟨_, hcv⟩ := objView_cell (hR.y.cell ci hok)
      have hcell := hR.y.cell ci hok
      rw [runOp_cellRead] at h
      obtain ⟨cs, hg, h⟩ := Refine.bind_ok h
      simp only [bind, Except.bind, pure, Except.pure, throw, throwThe, MonadExceptOf.throw] at h
      repeat' split at h
      all_goals try (cases h; done)
      cases h
      refine ⟨JB.complete_local (w0 := w.sync.setObj (w.cellObj ci) _) hJ hact (h0.plain hw).2 rfl rfl rfl rfl
        (fun i => sync_get w i) ?_ ?_ _, .inl rfl⟩
      · intro m l hv
        show objView (w.exec.objs.set (w.cellObj ci) _) _ = _
        rw [objView_set_ne _ _ (by
          intro e; rw [e] at hv
          have : w.cellObj ci = w.prog.cfg.nAtomics + ci := rfl
          rw [this, hcell] at hv; cases hv)]
        exact hv
      · intro n hv
        show objView (w.exec.objs.set (w.cellObj ci) _) _ = _
        rw [objView_set_ne _ _ (by
          intro e; rw [e] at hv
          have : w.cellObj ci = w.prog.cfg.nAtomics + ci := rfl
          rw [this, hcell] at hv; cases hv)]
        exact hv
    case cellWrite ci v =>
      have hw := hw' rfl
      have hcell := hR.y.cell ci hok
      rw [runOp_cellWrite] at h
      obtain ⟨cs, hg, h⟩ := Refine.bind_ok h
      simp only [bind, Except.bind, pure, Except.pure, throw, throwThe, MonadExceptOf.throw] at h
      repeat' split at h
      all_goals try (cases h; done)
      cases h
      refine ⟨JB.complete_local (w0 := w.sync.setObj (w.cellObj ci) _) hJ hact (h0.plain hw).2 rfl rfl rfl rfl
        (fun i => sync_get w i) ?_ ?_ _, .inl rfl⟩
      · intro m l hv
        show objView (w.exec.objs.set (w.cellObj ci) _) _ = _
        rw [objView_set_ne _ _ (by
          intro e; rw [e] at hv
          have : w.cellObj ci = w.prog.cfg.nAtomics + ci := rfl
          rw [this, hcell] at hv; cases hv)]
        exact hv
      · intro n hv
        show objView (w.exec.objs.set (w.cellObj ci) _) _ = _
        rw [objView_set_ne _ _ (by
          intro e; rw [e] at hv
          have : w.cellObj ci = w.prog.cfg.nAtomics + ci := rfl
          rw [this, hcell] at hv; cases hv)]
        exact hv
    case lock mi =>
      obtain ⟨l, hv, hmap, hown⟩ := hR.y.mtx mi hok
      obtain ⟨ms, hobj, hlock⟩ := objView_mutex hv
      have hobj' : w.exec.objs[w.mutexObj mi]? = some (.mutex ms) := hobj
      rw [runOp_lock] at h
      split at h
      · next hs0 =>
        have hs0' : (w.ctlOf w.tid).stage = 0 := by simpa using hs0
        have hne1 : (w.ctlOf w.tid).stage ≠ 1 := by omega
        simp only [getMutex_of hobj', bind, Except.bind] at h
        obtain ⟨hJ', hP'⟩ := JB.branch_step (g := fun c => { c with stage := 1 }) hJ hR hact h rfl rfl Iff.rfl
          ⟨by
            rw [branchF_state]; split
            · simp
            · exact h0.noYield,
           fun htm => by
            rw [branchF_state] at htm
            split at htm
            · cases htm
            · exact h0.term htm,
           fun _ => .lock mi ms.lock hop (by rw [branchF_operation]; rfl) (objView_of hobj') (by
            rw [branchF_state]
            cases hl : ms.lock.isSome with
            | true => simp
            | false =>
              simp only [Bool.false_eq_true, if_false, iff_false]
              exact (h0.st0 hne1).1),
           fun hne => absurd rfl hne⟩
        exact ⟨hJ', hP'⟩
      · next hs0 =>
        have hs1 : (w.ctlOf w.tid).stage = 1 := by
          have : (w.ctlOf w.tid).stage ≠ 0 := by simpa using hs0
          omega
        obtain ⟨⟨w1, okk⟩, hpa, h⟩ := Refine.bind_ok h
        obtain ⟨hk, _⟩ := postAcquire_obs hobj' hpa
        cases okk with
        | false => simp [bind, Except.bind, throw, throwThe, MonadExceptOf.throw] at h
        | true =>
          simp only [Bool.not_true, Bool.false_eq_true, if_false, bind, Except.bind, pure, Except.pure] at h
          cases h
          have hfree : ms.lock = none := by
            cases hh : ms.lock with
            | none => rfl
            | some i => rw [hh] at hk; cases hk
          have hnb : (w.ths.get w.tid).state ≠ .blocked := by
            cases h0.st1 hs1 with
            | lock m l' a b' x d =>
              have hm : m = mi := by
                have : some (Op.lock m) = some (Op.lock mi) := a.symm.trans hop
                cases this; rfl
              subst hm
              have hx : objView w.exec.objs (mobj w.prog m) = some (view (.mutex ms)) := objView_of hobj'
              rw [hx] at x
              simp only [view, Option.some.injEq, OV.mutex.injEq] at x
              intro hb
              have := d.1 hb
              rw [← x, hfree] at this
              cases this
            | tryLock m a => have : some (Op.tryLock m) = some (Op.lock mi) := a.symm.trans hop; cases this
            | join b' t n wt a => have : some (Op.join b') = some (Op.lock mi) := a.symm.trans hop; cases this
          obtain ⟨hJ', hpath⟩ := JB.acquire_step hJ hR hact hobj' hfree hnb .unit hpa
          exact ⟨hJ', .inl hpath⟩
    case tryLock mi =>
      obtain ⟨l, hv, hmap, hown⟩ := hR.y.mtx mi hok
      obtain ⟨ms, hobj, hlock⟩ := objView_mutex hv
      have hobj' : w.exec.objs[w.mutexObj mi]? = some (.mutex ms) := hobj
      rw [runOp_tryLock] at h
      split at h
      · next hs0 =>
        have hs0' : (w.ctlOf w.tid).stage = 0 := by simpa using hs0
        have hne1 : (w.ctlOf w.tid).stage ≠ 1 := by omega
        obtain ⟨hJ', hP'⟩ := JB.branch_step (g := fun c => { c with stage := 1 }) hJ hR hact h rfl rfl Iff.rfl
          ⟨by rw [branchF_state]; exact h0.noYield,
           fun htm => by rw [branchF_state] at htm; exact h0.term htm,
           fun _ => .tryLock mi hop (by rw [branchF_operation]; rfl)
            (by rw [branchF_state]; exact (h0.st0 hne1).1),
           fun hne => absurd rfl hne⟩
        exact ⟨hJ', hP'⟩
      · next hs0 =>
        have hs1 : (w.ctlOf w.tid).stage = 1 := by
          have : (w.ctlOf w.tid).stage ≠ 0 := by simpa using hs0
          omega
        have hnb : (w.ths.get w.tid).state ≠ .blocked := by
          cases h0.st1 hs1 with
          | lock m l' a => have : some (Op.lock m) = some (Op.tryLock mi) := a.symm.trans hop; cases this
          | tryLock m a b' x => exact x
          | join b' t n wt a => have : some (Op.join b') = some (Op.tryLock mi) := a.symm.trans hop; cases this
        obtain ⟨⟨w1, okk⟩, hpa, h⟩ := Refine.bind_ok h
        obtain ⟨hk, _, _, _, _, _, _, hsame, _⟩ := postAcquire_obs hobj' hpa
        simp only [pure, Except.pure] at h
        cases h
        cases okk with
        | false =>
          have hw1 : w1 = w := hsame rfl
          rw [hw1]
          exact ⟨JB.complete_local hJ hact hnb rfl rfl rfl rfl (fun _ => ⟨rfl, rfl⟩) (fun _ _ hv => hv)
            (fun _ hv => hv) _, .inl rfl⟩
        | true =>
          have hfree : ms.lock = none := by
            cases hh : ms.lock with
            | none => rfl
            | some i => rw [hh] at hk; cases hk
          obtain ⟨hJ', hpath⟩ := JB.acquire_step hJ hR hact hobj' hfree hnb (World.boolRet true) hpa
          exact ⟨hJ', .inl hpath⟩
    case unlock mi =>
      have hw := hw' rfl
      obtain ⟨l, hv, hmap, hown⟩ := hR.y.mtx mi hok
      obtain ⟨ms, hobj, hlock⟩ := objView_mutex hv
      have hobj' : w.exec.objs[w.mutexObj mi]? = some (.mutex ms) := hobj
      rw [runOp_unlock] at h
      obtain ⟨w1, hrl, h⟩ := Refine.bind_ok h
      simp only [pure, Except.pure] at h
      cases h
      obtain ⟨hJ', hpath⟩ := JB.release_step hJ hR hact hactive hobj' hw .unit hrl
      exact ⟨hJ', .inl hpath⟩
    case spawn b =>
      obtain ⟨hJ', hpath⟩ := JB.spawn_step hJ hR hact hop h
      exact ⟨hJ', .inl hpath⟩
    case join b =>
      rw [runOp_join] at h
      obtain ⟨⟨tid', n⟩, hl, h⟩ := Refine.bind_ok h
      have hmem := lookupSpawn_mem hl
      obtain ⟨hlt, hbody, nt, hv, hnt⟩ := hR.y.sp _ tid' n hmem
      obtain ⟨ns, hobj, hspur, hnotified⟩ := objView_notify hv
      have hiff := join_fin_iff hwf hJ hR hact hop hmem hobj
      have hst : (w.ctlOf w.tid).stage = 0 ∨ (w.ctlOf w.tid).stage = 1 := by omega
      rcases hst with hst | hst
      · have hne1 : (w.ctlOf w.tid).stage ≠ 1 := by omega
        simp only [hst] at h
        obtain ⟨⟨w1, st⟩, h1, h⟩ := Refine.bind_ok h
        rw [notifyWait1_plain hobj (by rw [hspur]; rfl)] at h1
        obtain ⟨w2, hb, he⟩ := map_ok h1
        cases he
        simp only [pure, Except.pure] at h
        cases h
        rw [branch_schedOn] at hb
        obtain ⟨x, hx, rfl⟩ := bind_pure_ok hb
        have hJ' := JB.sched_step (w' := World.modCtl { w with exec := x.1 } w.tid fun c => { c with stage := 1 })
          (g := fun c => { c with stage := 1 }) (e := x.1) (b := x.2) hJ hR hact hx rfl rfl rfl rfl rfl rfl Iff.rfl
          ⟨by
            show (branchF n .opaque (!ns.notified) (!ns.notified) _).state ≠ _
            rw [branchF_state]; split
            · simp
            · exact h0.noYield,
           fun htm => by
            replace htm : (branchF n .opaque (!ns.notified) (!ns.notified) (w.ths.get w.tid)).state = _ := htm
            rw [branchF_state] at htm
            split at htm
            · cases htm
            · exact h0.term htm,
           fun _ => .join b tid' n (!ns.notified) hop hmem
            (branchF_operation n .opaque (!ns.notified) (!ns.notified) _) (by
              show (branchF n .opaque (!ns.notified) (!ns.notified) _).state = _ ↔ _
              rw [branchF_state]
              cases hnn : ns.notified with
              | true =>
                simp only [Bool.not_true, Bool.false_eq_true, if_false]
                have := hiff.1 hnn
                constructor
                · intro hb'; exact absurd hb' (h0.st0 hne1).1
                · intro hlt'; omega
              | false =>
                simp only [Bool.not_false, if_true, true_iff]
                apply Classical.byContradiction
                intro hge
                have := hiff.2 (by omega)
                rw [hnn] at this; cases this),
           fun hne => absurd rfl hne⟩
        exact ⟨hJ', .inr ⟨_, x.1, x.2, hx, rfl⟩⟩
      · simp only [hst] at h
        obtain ⟨w1, h1, h⟩ := Refine.bind_ok h
        simp only [pure, Except.pure] at h
        cases h
        obtain ⟨hn1, _⟩ := notifyWait2_obs hobj h1
        have hnb : (w.ths.get w.tid).state ≠ .blocked := by
          cases h0.st1 hst with
          | lock m l' a => have : some (Op.lock m) = some (Op.join b) := a.symm.trans hop; cases this
          | tryLock m a => have : some (Op.tryLock m) = some (Op.join b) := a.symm.trans hop; cases this
          | join b' t2 n2 wt a e f g =>
            have hb' : b' = b := by
              have : some (Op.join b') = some (Op.join b) := a.symm.trans hop
              cases this; rfl
            subst hb'
            have ht2 : t2 = tid' := by
              have h1' := (hR.y.sp b' t2 n2 e).2.1
              have h1l := (hR.y.sp b' t2 n2 e).1
              exact hR.x.inj t2 tid' h1l hlt (h1'.trans hbody.symm)
            subst ht2
            intro hb
            have := g.1 hb
            have := hiff.1 hn1
            omega
        obtain ⟨hJ', hpath⟩ := JB.join_done_step hJ hR hact hmem hop hobj hnb h1
        exact ⟨hJ', .inl hpath⟩
    case ifEq i r n =>
      have hw := hw' rfl
      rw [runOp_ifEq] at h
      split at h
      · cases h
        exact ⟨JB.ctl_local hJ hact hw rfl rfl rfl rfl rfl rfl rfl (Nat.le_add_right _ _) rfl
          (fun _ => Iff.rfl) id, .inl rfl⟩
      · cases h
        exact ⟨JB.ctl_local hJ hact hw rfl rfl rfl rfl rfl rfl rfl
          (by show _ ≤ _ + 1 + n; omega) rfl (fun _ => Iff.rfl) id, .inl rfl⟩

/-- **the twin-side invariant and the replay condition are kept by every successful stage** of a fragment
operation or of the epilogue -/
theorem step_JB (hwf : WF w.prog) (hRB : RB w s) (hactive : w.ths.isActive = true)
    (hact : w.tid < w.ctl.length) (h : w.stepActive = .ok w') : JB w' ∧ ReplayOK w'.exec.path := by
  obtain ⟨hJ', hT⟩ := step_JBT hwf hRB hactive hact h
  exact ⟨hJ', hT.replayOK (by rw [← hRB.r.lenCtl]; exact hact) hRB.path⟩

end

end Deadlock
end LoomVerif

/-
Refinement, WAIT fragment, part 20: the token part `RPk` of the relation (reference `Th.token` ↔ twin
`Thread.token`, `Thread.parked`) and its preservation by the stages of the operations other than `park`,
`unpark`.

A thread blocked in `park` and then woken by `unpark` has "consumed" the unpark in the twin at the moment of the
`unpark` (no token is stored), while the reference consumes the token when its `park` step is taken, i.e. when
the twin's `park` completes: in between the reference token is set and the twin thread is at stage 1 of `park`,
not parked.
-/
import LoomVerif.Proofs.Refine2Thr2
import LoomVerif.Proofs.Refine2TokRef

set_option linter.unusedSimpArgs false
set_option linter.unusedVariables false

namespace LoomVerif
namespace Refine2
open Refine Sy C07 C08 Foot

/-- the control record is at the second stage of `park` -/
def parkedAt (p : Prog) (c : TCtl) : Bool := decide (opOfCtl p c = some .park) && decide (c.stage = 1)

/-- **the token part of the abstraction relation** -/
structure RPk (w : World) (s : SCData2) : Prop where
  /-- a running reference thread holds a token iff the twin thread holds one, or has been woken from `park` and
  has not completed its `park` yet -/
  tok : ∀ i, i < w.ctl.length → (w.ctlOf i).fin < 10 →
    (s.th (w.ctlOf i).body).token =
      ((w.exec.threads.get i).token || (parkedAt w.prog (w.ctlOf i) && !(w.exec.threads.get i).parked))
  /-- a thread blocked in `park` is at the second stage of `park`, blocked, with no pending operation -/
  pk : ∀ i, (w.exec.threads.get i).parked = true →
    i < w.ctl.length ∧ parkedAt w.prog (w.ctlOf i) = true ∧ PInv (w.exec.threads.get i)
  /-- a thread that has not reached the tail of its epilogue is not terminated -/
  live : ∀ i, i < w.ctl.length → (w.ctlOf i).fin < 10 → (w.exec.threads.get i).isTerminated = false

/-- the run-level condition on `park`: the schedule does not resume a thread that is blocked in `park`, and no
`unpark` has arrived between the wake-up of a parked thread and its resumption (the twin would store it as a
token for the NEXT `park`; the reference, whose `park` step is taken at the resumption, would not) -/
def parkResumeOk (w : World) : Bool :=
  match opAt2 w with
  | some .park =>
    if (w.ctlOf w.tid).stage = 0 then true
    else !(w.exec.threads.get w.tid).parked && !(w.exec.threads.get w.tid).token
  | _ => true

/-- **the abstraction relation** -/
structure R2 (w : World) (s : SCData2) : Prop where
  c : R2c w s
  p : RPk w s

theorem RPk.pinv {w : World} {s : SCData2} (h : RPk w s) (i : Nat) : PInv (w.exec.threads.get i) := by
  intro hp
  exact (h.pk i hp).2.2 hp

theorem parkedAt_false_of_op {p : Prog} {c : TCtl} (h : opOfCtl p c ≠ some .park) : parkedAt p c = false := by
  simp [parkedAt, h]

theorem parkedAt_false_of_stage {p : Prog} {c : TCtl} (h : c.stage = 0) : parkedAt p c = false := by
  simp [parkedAt, h]

theorem parkedAt_true {p : Prog} {c : TCtl} (h : parkedAt p c = true) :
    opOfCtl p c = some .park ∧ c.stage = 1 := by
  simpa [parkedAt] using h

section
variable {w w' : World} {s s' : SCData2}

/-- the active thread is not blocked in `park` -/
theorem actUnparked (hP : RPk w s) (hok : parkResumeOk w = true) : ActUnparked w := by
  unfold ActUnparked
  cases hp : (w.exec.threads.get w.tid).parked with
  | false => rfl
  | true =>
    exfalso
    obtain ⟨_, hpa, _⟩ := hP.pk w.tid hp
    obtain ⟨h1, h2⟩ := parkedAt_true hpa
    unfold parkResumeOk at hok
    rw [show opAt2 w = some .park from h1] at hok
    simp only [h2, hp] at hok
    simp at hok

/-- … and when it is about to complete a `park`, the reference thread holds a token -/
theorem parkTok (hR : R2c w s) (hP : RPk w s) (hact : w.tid < w.ctl.length) (hok : parkResumeOk w = true) :
    ParkTok w s := by
  intro hop hst
  have hst1 : (w.ctlOf w.tid).stage = 1 := by
    have := (base2 hR hact).2.1.2.2.2.2.1
    rw [show opOfCtl w.prog (w.ctlOf w.tid) = some .park from hop] at this
    simp only [maxStage] at this
    omega
  rw [hP.tok w.tid hact (by rw [fin_zero2 hR hact hop]; omega)]
  unfold parkResumeOk at hok
  rw [hop] at hok
  simp only [hst, if_false, Bool.and_eq_true, Bool.not_eq_true'] at hok
  have hpa : parkedAt w.prog (w.ctlOf w.tid) = true := by
    simp [parkedAt, show opOfCtl w.prog (w.ctlOf w.tid) = some .park from hop, hst1]
  rw [hpa, hok.1, hok.2]
  rfl

/-- a new control record runs a body that no thread ran before: its reference thread is the default one -/
theorem new_idle (hR : R2c w s) (hR' : R2c w' s') (hprog : w'.prog = w.prog) (hc : CtlStep w w') {i : Nat}
    (h1 : w.ctl.length ≤ i) (h2 : i < w'.ctl.length) : s.th (w'.ctlOf i).body = {} := by
  have hb : (w'.ctlOf i).body < w.prog.threads.length := by
    rw [← hprog]; exact (hR'.x.thr i h2).1
  refine hR.x.idle _ hb ?_
  intro j hj e
  have hj' : j < w'.ctl.length := Nat.lt_of_lt_of_le hj hc.len
  have hbj : (w'.ctl.getD j {}).body = (w.ctl.getD j {}).body := by
    by_cases hjt : j = w.tid
    · rw [hjt]; exact hc.body
    · rw [hc.other j hj hjt]
  have := hR'.x.inj j i hj' h2 (by rw [hbj]; exact e)
  omega

/-- **the token relation along a stage that writes no token** (any operation other than `park`, `unpark`, and
the epilogue): control table, thread table and reference tokens move as described by `CtlStep`, `Tok.Keep`,
`ThrStep`, `TokSame` -/
theorem RPk_generic (hR : R2c w s) (hP : RPk w s) (hact : w.tid < w.ctl.length) (hu : ActUnparked w)
    (hR' : R2c w' s') (hprog : w'.prog = w.prog) (hc : CtlStep w w') (hk : Tok.Keep w w') (ht : ThrStep w w')
    (hs : SCData2.TokSame s s') (hnp : opAt2 w ≠ some .park) : RPk w' s' := by
  have hlen : w.ctl.length = w.exec.threads.threads.length := hR.lenCtl
  have htok : ∀ i, (w'.exec.threads.get i).token = (w.exec.threads.get i).token := fun i => congrFun hk i
  have hpk : ∀ i, (w'.exec.threads.get i).parked = (w.exec.threads.get i).parked ∧ PInv (w'.exec.threads.get i) :=
    fun i => ht.pk i (hP.pinv i)
  -- the active thread is not at the second stage of `park`, before or after
  have hpa0 : parkedAt w.prog (w.ctlOf w.tid) = false := parkedAt_false_of_op hnp
  have hpa1 : parkedAt w'.prog (w'.ctlOf w.tid) = false := by
    rcases hc.pos with hpc | hst
    · apply parkedAt_false_of_op
      intro e
      apply hnp
      unfold opAt2 opOfCtl at *
      rw [hprog] at e
      simp only [World.ctlOf] at e ⊢
      rw [hc.body, hpc] at e
      exact e
    · exact parkedAt_false_of_stage hst
  have hother : ∀ i, i < w.ctl.length → i ≠ w.tid → w'.ctlOf i = w.ctlOf i := fun i hi hne => hc.other i hi hne
  refine ⟨?_, ?_, ?_⟩
  · intro i hi hfin
    rw [hs _, htok i, (hpk i).1]
    by_cases hold : i < w.ctl.length
    · by_cases hit : i = w.tid
      · subst hit
        have hfin0 : (w.ctlOf w.tid).fin < 10 := by
          apply Classical.byContradiction
          intro hge
          have := hc.fin (by simp only [World.ctlOf] at hge; omega)
          simp only [World.ctlOf] at hfin; omega
        have hb : (w'.ctlOf w.tid).body = (w.ctlOf w.tid).body := hc.body
        rw [hb, hP.tok w.tid hold hfin0, hpa0, hpa1]
      · rw [hother i hold hit] at hfin ⊢
        rw [hprog]
        exact hP.tok i hold hfin
    · -- a new thread
      have hge : w.ctl.length ≤ i := Nat.le_of_not_lt hold
      rw [new_idle hR hR' hprog hc hge hi]
      have hst := (hc.new i hge hi).1
      rw [parkedAt_false_of_stage (p := w'.prog) (c := w'.ctlOf i) hst]
      have : w.exec.threads.get i = {} := get_default _ _ (by rw [← hlen]; exact hold)
      rw [this]
      rfl
  · intro i hp
    rw [(hpk i).1] at hp
    obtain ⟨h1, h2, h3⟩ := hP.pk i hp
    have hit : i ≠ w.tid := by
      intro e
      rw [e] at hp
      rw [show (w.exec.threads.get w.tid).parked = false from hu] at hp
      cases hp
    refine ⟨Nat.lt_of_lt_of_le h1 hc.len, ?_, (hpk i).2⟩
    rw [hother i h1 hit, hprog]; exact h2
  · intro i hi hfin
    cases hterm : (w'.exec.threads.get i).isTerminated with
    | false => rfl
    | true =>
      exfalso
      rcases ht.term i hterm with hold | ⟨hit, h10⟩
      · by_cases hlt : i < w.ctl.length
        · by_cases hit : i = w.tid
          · subst hit
            have hfin0 : (w.ctlOf w.tid).fin < 10 := by
              apply Classical.byContradiction
              intro hge
              have := hc.fin (by simp only [World.ctlOf] at hge; omega)
              simp only [World.ctlOf] at hfin; omega
            rw [hP.live w.tid hlt hfin0] at hold; cases hold
          · rw [hother i hlt hit] at hfin
            rw [hP.live i hlt hfin] at hold; cases hold
        · rw [get_default _ _ (by rw [← hlen]; exact hlt)] at hold
          cases hold
      · subst hit
        have := hc.fin h10
        simp only [World.ctlOf] at hfin; omega

end

end Refine2
end LoomVerif

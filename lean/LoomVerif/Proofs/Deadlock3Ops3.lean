/-
Deadlock soundness, FUTURES fragment, part 10: the stages of the wakers: `wake`, `wakeRef`, `wakeQ`, `dropWaker`
(the slot), `awWake`, `awTake` (the `AtomicWaker`).
-/
import LoomVerif.Proofs.Deadlock3Ops2

set_option linter.unusedSimpArgs false
set_option linter.unusedVariables false

namespace LoomVerif
namespace Deadlock3
open Refine Refine4 Deadlock Deadlock2

section
variable {w w1 w2 : World} {s : SC.St}

/-! ### the shapes shared by the wakers -/

/-- the branch point of the flag store -/
theorem out_storeStart (c : Ctx w s) {op : Op} (hop : opAt w = some op) (hst : (w.ctlOf w.tid).stage = 0)
    (hw1 : wposT op 1 = none) (f : Nat) : Out w s (w.primStart f (.store 1 .rel)) := by
  have m0 := Mid.start' c (H := none) (by rw [holdsAt_of hop, hst]; cases op <;> rfl)
  refine out_primStart c m0 _ _ _ ?_ (wpos_stage (op := op) hop hw1)
  exact Pos.simple rfl (Nat.le_refl _) rfl (fun _ h => by cases h) (fun _ => rfl)

/-- the flag store takes effect; then the branch point of the lock of mutex `o` -/
theorem out_storeLock (c : Ctx w s) {op : Op} (hop : opAt w = some op)
    (hH : holdsAt w.prog (w.ctlOf w.tid) = none) (f o : Nat)
    (hO : LockPos w.prog { w.ctlOf w.tid with stage := 2 } o) :
    Out w s (do
      let (w1, _) ← w.primEffect f (.store 1 .rel)
      let m ← w1.getMutex o
      (w1.setStage 2).branch o .opaque (block := m.lock.isSome) (wait := true)) := by
  have m0 := Mid.start' c hH
  refine out_bind (primEffect_noDL _ _ _) ?_
  rintro ⟨w1, r⟩ h1
  have m1 := m0.prim h1
  dsimp only
  refine out_bind (getMutex_noDL _ _) fun mm hm => ?_
  refine out_lock c (m1.setStage 2) ?_ hm rfl hO
  exact Pos.simple rfl (Nat.le_refl _) rfl (fun _ h => by cases h) (fun _ => rfl)

/-- the branch point of the lock of mutex `o`, at the start of an operation -/
theorem out_lockStart (c : Ctx w s) {op : Op} (hop : opAt w = some op)
    (hH : holdsAt w.prog (w.ctlOf w.tid) = none) (o n : Nat)
    (hO : LockPos w.prog { w.ctlOf w.tid with stage := n } o) :
    Out w s (do
      let m ← w.getMutex o
      (w.setStage n).branch o .opaque (block := m.lock.isSome) (wait := true)) := by
  have m0 := Mid.start' c hH
  refine out_bind (getMutex_noDL _ _) fun mm hm => ?_
  refine out_lock c (m0.setStage n) ?_ hm rfl hO
  exact Pos.simple rfl (Nat.le_refl _) rfl (fun _ h => by cases h) (fun _ => rfl)

/-- the notification is delivered; then the branch point of the drop of the waker taken -/
theorem out_notifyDrop (c : Ctx w s) {op : Op} (hop : opAt w = some op)
    (hH : holdsAt w.prog (w.ctlOf w.tid) = none) (hw4 : wposT op 4 = none) (k : Nat) (a : World → Nat) :
    Out w s (do
      let w1 ← w.notifyEffect k
      (w1.setStage 4).branch (a w1) .arcDec) := by
  have m0 := Mid.start' c hH
  refine out_bind (notifyEffect_noDL _ _) fun w1 h1 => ?_
  have m1 := m0.notify h1
  refine out_branch c (m1.setStage 4) ?_ _ _ (wpos_stage (op := op) hop hw4)
  exact Pos.simple rfl (Nat.le_refl _) rfl (fun _ h => by cases h) (fun _ => rfl)

/-- by reference: notify while the guard is held, then unlock -/
theorem out_notifyUnlock (c : Ctx w s) {op : Op} (hop : opAt w = some op) (o : Nat)
    (hH : holdsAt w.prog (w.ctlOf w.tid) = some o) (k : Nat) :
    Out w s (do
      let w1 ← w.notifyEffect k
      let w2 ← w1.releaseLock o
      pure (w2.complete .unit)) := by
  have m0 := Mid.start' c hH
  refine out_bind (notifyEffect_noDL _ _) fun w1 h1 => ?_
  have m1 := m0.notify h1
  refine out_bind (releaseLock_noDL _ _) fun w2 h2 => ?_
  have m2 := m1.release h2 (fun o' e => by cases e; rfl)
  refine out_pure c (m2.complete .unit) ?_
  exact Pos.simple rfl (Nat.le_succ _) rfl (fun _ h => by cases h) (fun _ => rfl)

/-- the stage of the slot's wakers that takes the waker under the mutex (`wake`, `wakeRef`, `wakeQ`: stage 2) -/
theorem out_wake2 (c : Ctx w s) {op : Op} {f : Nat} (hop : opAt w = some op) (hk : futKind op = some (f, 0))
    (hst : (w.ctlOf w.tid).stage = 2) (hH : holdsT w.prog op 2 = none) (hw3 : wposT op 3 = none)
    (hw5 : wposT op 5 = none) (b st : Bool)
    (hh5 : b = false → holdsT w.prog op 5 = some (mbase w.prog + 2 * f)) :
    Out w s (w.wakeStage (w.ctlOf w.tid) f b st) := by
  rw [C20.wake_stage2 w _ f b st hst]
  obtain ⟨hf, hmS, hmA⟩ := fut_mtx c hop hk
  have m0 := Mid.start' c (H := none) (by rw [holdsAt_of hop, hst]; exact hH)
  refine out_bind (postAcquire_noDL _ _) ?_
  rintro ⟨w1, okk⟩ h1
  cases okk with
  | false => exact out_throw_bind _ rfl _
  | true =>
    have m1 := m0.acquire h1
    have m2 := m1.modCtl
      fun c => { c with taken := (w.futs.getD f {}).arc, takenNotify := (w.futs.getD f {}).notify }
    dsimp only
    simp only [Bool.not_true, Bool.false_eq_true, if_false]
    cases b with
    | true =>
      simp only [if_true]
      have m3 := m2.modFut f fun s => { s with slot := false }
      refine out_bind (releaseLock_noDL _ _) fun w4 h4 => ?_
      have m4 := m3.release h4 (fun o' e => by cases e; rfl)
      split
      · refine out_branch c (m4.setStage 3) ?_ _ _ (wpos_stage (op := op) hop hw3)
        exact Pos.simple rfl (Nat.le_refl _) rfl (fun _ h => by cases h) (notify_modify _ _ _ (fun _ => rfl))
      · refine out_pure c (m4.complete .unit) ?_
        exact Pos.simple rfl (Nat.le_succ _) rfl (fun _ h => by cases h) (notify_modify _ _ _ (fun _ => rfl))
    | false =>
      simp only [Bool.false_eq_true, if_false]
      split
      · refine out_branch c (m2.setStage 5) ?_ _ _ (wpos_stage (op := op) hop hw5)
        refine Pos.simple rfl (Nat.le_refl _) rfl ?_ (fun _ => rfl)
        intro o ho
        cases ho
        exact holdsAt_stage (op := op) hop (by rw [hmS]; exact hh5 rfl)
      · refine out_bind (releaseLock_noDL _ _) fun w4 h4 => ?_
        have m4 := m2.release h4 (fun o' e => by cases e; rfl)
        refine out_pure c (m4.complete .unit) ?_
        exact Pos.simple rfl (Nat.le_succ _) rfl (fun _ h => by cases h) (fun _ => rfl)

/-- the stage that takes the waker under the mutex `o` and releases the mutex (`dropWaker` 1, `awTake` 1,
`awWake` 2) -/
theorem out_take (c : Ctx w s) {op : Op} {f : Nat} (hop : opAt w = some op)
    (hH : holdsAt w.prog (w.ctlOf w.tid) = none) (o : Nat) (g : FutSt → FutSt) (hg : ∀ x, (g x).notify = x.notify)
    (had : World → Bool) (gc : TCtl → TCtl) (hgb : ∀ x, (gc x).body = x.body ∧ (gc x).pc = x.pc ∧ (gc x).fin = x.fin)
    (n : Nat) (hwn : wposT op n = none) (k : World → Nat) (a : Action) :
    Out w s (do
      let (w1, okk) ← w.postAcquire o
      if !okk then throw .expectedLock
      let w2 := w1.modFut f g
      let w3 ← w2.releaseLock o
      if had w1 then
        let w4 := w3.modCtl w3.tid gc
        (w4.setStage n).branch (k w4) a
      else pure (w3.complete .unit)) := by
  have m0 := Mid.start' c hH
  refine out_bind (postAcquire_noDL _ _) ?_
  rintro ⟨w1, okk⟩ h1
  cases okk with
  | false => exact out_throw_bind _ rfl _
  | true =>
    have m1 := m0.acquire h1
    have m2 := m1.modFut f g
    dsimp only
    simp only [Bool.not_true, Bool.false_eq_true, if_false]
    refine out_bind (releaseLock_noDL _ _) fun w3 h3 => ?_
    have m3 := m2.release h3 (fun o' e => by cases e; rfl)
    split
    · refine out_branch c ((m3.modCtl gc).setStage n) ?_ _ _ ?_
      · exact Pos.simple (hgb _).1 (Nat.le_of_eq (hgb _).2.1.symm) (hgb _).2.2 (fun _ h => by cases h)
          (notify_modify _ _ _ hg)
      · have hopc : opOfCtl w.prog { gc (id (w.ctlOf w.tid)) with stage := n } = some op := by
          show (w.prog.threads.getD (gc (w.ctlOf w.tid)).body [])[(gc (w.ctlOf w.tid)).pc]? = some op
          rw [(hgb _).1, (hgb _).2.1]; exact hop
        exact wpos_stage hopc hwn
    · refine out_pure c (m3.complete .unit) ?_
      exact Pos.simple rfl (Nat.le_succ _) rfl (fun _ h => by cases h) (notify_modify _ _ _ hg)

/-! ### `wake f` -/

theorem st_wake0 (c : Ctx w s) {f : Nat} (hop : opAt w = some (.wake f)) (hst : (w.ctlOf w.tid).stage = 0) :
    Out w s w.stepActive := by
  rw [Refine4.stepActive_op hop]
  have e : w.runOp (w.ctlOf w.tid) (.wake f) = w.primStart f (.store 1 .rel) := by
    simp only [World.runOp, World.wakeStage, hst, if_true]
  rw [e]
  exact out_storeStart c hop hst rfl f

theorem st_wake1 (c : Ctx w s) {f : Nat} (hop : opAt w = some (.wake f)) (hst : (w.ctlOf w.tid).stage = 1) :
    Out w s w.stepActive := by
  rw [Refine4.stepActive_op hop]
  simp only [World.runOp, World.wakeStage, hst]
  obtain ⟨hf, hmS, hmA⟩ := fut_mtx c hop rfl
  exact out_storeLock c hop (by rw [holdsAt_of hop, hst]; rfl) f _ (lockPos_slot (op := .wake f) hop rfl hmS)

theorem st_wake2 (c : Ctx w s) {f : Nat} (hop : opAt w = some (.wake f)) (hst : (w.ctlOf w.tid).stage = 2) :
    Out w s w.stepActive := by
  rw [Refine4.stepActive_op hop]
  show Out w s (w.wakeStage (w.ctlOf w.tid) f true true)
  exact out_wake2 c hop rfl hst rfl rfl rfl true true (fun e => by cases e)

theorem st_wake3 (c : Ctx w s) {f : Nat} (hop : opAt w = some (.wake f)) (hst : (w.ctlOf w.tid).stage = 3) :
    Out w s w.stepActive := by
  rw [Refine4.stepActive_op hop]
  show Out w s (w.wakeStage (w.ctlOf w.tid) f true true)
  rw [C20.wake_stage3 w _ f true true hst]
  exact out_notifyDrop c hop (by rw [holdsAt_of hop, hst]; rfl) rfl _
    (fun w1 => (w1.arcInfo (w.ctlOf w.tid).taken).obj)

theorem st_wake4 (c : Ctx w s) {f : Nat} (hop : opAt w = some (.wake f)) (hst : (w.ctlOf w.tid).stage = 4) :
    Out w s w.stepActive := by
  rw [Refine4.stepActive_op hop]
  show Out w s (w.wakeStage (w.ctlOf w.tid) f true true)
  rw [C20.wake_stage4 w _ f true true hst]
  exact out_dropComplete c hop (by rw [holdsAt_of hop, hst]; rfl) _ _

/-! ### `wakeRef f` -/

theorem st_wakeRef0 (c : Ctx w s) {f : Nat} (hop : opAt w = some (.wakeRef f))
    (hst : (w.ctlOf w.tid).stage = 0) : Out w s w.stepActive := by
  rw [Refine4.stepActive_op hop]
  have e : w.runOp (w.ctlOf w.tid) (.wakeRef f) = w.primStart f (.store 1 .rel) := by
    simp only [World.runOp, World.wakeStage, hst, if_true]
  rw [e]
  exact out_storeStart c hop hst rfl f

theorem st_wakeRef1 (c : Ctx w s) {f : Nat} (hop : opAt w = some (.wakeRef f))
    (hst : (w.ctlOf w.tid).stage = 1) : Out w s w.stepActive := by
  rw [Refine4.stepActive_op hop]
  simp only [World.runOp, World.wakeStage, hst]
  obtain ⟨hf, hmS, hmA⟩ := fut_mtx c hop rfl
  exact out_storeLock c hop (by rw [holdsAt_of hop, hst]; rfl) f _ (lockPos_slot (op := .wakeRef f) hop rfl hmS)

theorem st_wakeRef2 (c : Ctx w s) {f : Nat} (hop : opAt w = some (.wakeRef f))
    (hst : (w.ctlOf w.tid).stage = 2) : Out w s w.stepActive := by
  rw [Refine4.stepActive_op hop]
  show Out w s (w.wakeStage (w.ctlOf w.tid) f false true)
  exact out_wake2 c hop rfl hst rfl rfl rfl false true (fun _ => rfl)

theorem st_wakeRef5 (c : Ctx w s) {f : Nat} (hop : opAt w = some (.wakeRef f))
    (hst : (w.ctlOf w.tid).stage = 5) : Out w s w.stepActive := by
  rw [Refine4.stepActive_op hop]
  show Out w s (w.wakeStage (w.ctlOf w.tid) f false true)
  rw [C20.wake_stage5 w _ f false true (by rw [hst]; exact Nat.le_refl _)]
  obtain ⟨hf, hmS, hmA⟩ := fut_mtx c hop rfl
  exact out_notifyUnlock c hop _ (by rw [holdsAt_of hop, hst, hmS]; rfl) _

/-! ### `wakeQ f` -/

theorem st_wakeQ0 (c : Ctx w s) {f : Nat} (hop : opAt w = some (.wakeQ f)) (hst : (w.ctlOf w.tid).stage = 0) :
    Out w s w.stepActive := by
  rw [Refine4.stepActive_op hop, C20.wakeQ_eq, C20.wake_stage0_quiet w _ f false hst]
  obtain ⟨hf, hmS, hmA⟩ := fut_mtx c hop rfl
  exact out_lockStart c hop (by rw [holdsAt_of hop, hst]; rfl) _ 2 (lockPos_slot (op := .wakeQ f) hop rfl hmS)

theorem st_wakeQ2 (c : Ctx w s) {f : Nat} (hop : opAt w = some (.wakeQ f)) (hst : (w.ctlOf w.tid).stage = 2) :
    Out w s w.stepActive := by
  rw [Refine4.stepActive_op hop, C20.wakeQ_eq]
  exact out_wake2 c hop rfl hst rfl rfl rfl false false (fun _ => rfl)

theorem st_wakeQ5 (c : Ctx w s) {f : Nat} (hop : opAt w = some (.wakeQ f)) (hst : (w.ctlOf w.tid).stage = 5) :
    Out w s w.stepActive := by
  rw [Refine4.stepActive_op hop, C20.wakeQ_eq, C20.wake_stage5 w _ f false false (by rw [hst]; exact Nat.le_refl _)]
  obtain ⟨hf, hmS, hmA⟩ := fut_mtx c hop rfl
  exact out_notifyUnlock c hop _ (by rw [holdsAt_of hop, hst, hmS]; rfl) _

/-! ### `dropWaker f` -/

theorem st_dropWaker0 (c : Ctx w s) {f : Nat} (hop : opAt w = some (.dropWaker f))
    (hst : (w.ctlOf w.tid).stage = 0) : Out w s w.stepActive := by
  rw [Refine4.stepActive_op hop]
  simp only [World.runOp, hst]
  obtain ⟨hf, hmS, hmA⟩ := fut_mtx c hop rfl
  exact out_lockStart c hop (by rw [holdsAt_of hop, hst]; rfl) _ 1 (lockPos_slot (op := .dropWaker f) hop rfl hmS)

theorem st_dropWaker1 (c : Ctx w s) {f : Nat} (hop : opAt w = some (.dropWaker f))
    (hst : (w.ctlOf w.tid).stage = 1) : Out w s w.stepActive := by
  rw [Refine4.stepActive_op hop, C20.dropWaker_stage1 w _ f hst]
  exact out_take c hop (by rw [holdsAt_of hop, hst]; rfl) _ (fun s => { s with slot := false }) (fun _ => rfl)
    (fun w1 => (w1.futs.getD f {}).slot) (fun c => { c with taken := (w.futs.getD f {}).arc })
    (fun _ => ⟨rfl, rfl, rfl⟩) 2 rfl (fun w4 => (w4.arcInfo (w.futs.getD f {}).arc).obj) .arcDec

theorem st_dropWaker2 (c : Ctx w s) {f : Nat} (hop : opAt w = some (.dropWaker f))
    (hst : (w.ctlOf w.tid).stage = 2) : Out w s w.stepActive := by
  rw [Refine4.stepActive_op hop, C20.dropWaker_stage2 w _ f (by rw [hst]; exact Nat.le_refl _)]
  exact out_dropComplete c hop (by rw [holdsAt_of hop, hst]; rfl) _ _

/-! ### `awTake f` -/

theorem st_awTake0 (c : Ctx w s) {f : Nat} (hop : opAt w = some (.awTake f))
    (hst : (w.ctlOf w.tid).stage = 0) : Out w s w.stepActive := by
  rw [Refine4.stepActive_op hop]
  simp only [World.runOp, World.awTakeStage, hst]
  obtain ⟨hf, hmS, hmA⟩ := fut_mtx c hop rfl
  exact out_lockStart c hop (by rw [holdsAt_of hop, hst]; rfl) _ 1 (lockPos_aw (op := .awTake f) hop rfl hmA)

theorem st_awTake1 (c : Ctx w s) {f : Nat} (hop : opAt w = some (.awTake f))
    (hst : (w.ctlOf w.tid).stage = 1) : Out w s w.stepActive := by
  rw [Refine4.stepActive_op hop, C20.awTake_stage1 w _ f hst]
  exact out_take c hop (by rw [holdsAt_of hop, hst]; rfl) _ (fun s => { s with awWaker := false }) (fun _ => rfl)
    (fun w1 => (w1.futs.getD f {}).awWaker) (fun c => { c with taken := (w.futs.getD f {}).awArc })
    (fun _ => ⟨rfl, rfl, rfl⟩) 2 rfl (fun w4 => (w4.arcInfo (w.futs.getD f {}).awArc).obj) .arcDec

theorem st_awTake2 (c : Ctx w s) {f : Nat} (hop : opAt w = some (.awTake f))
    (hst : (w.ctlOf w.tid).stage = 2) : Out w s w.stepActive := by
  rw [Refine4.stepActive_op hop, C20.awTake_stage2 w _ f (by rw [hst]; exact Nat.le_refl _)]
  exact out_dropComplete c hop (by rw [holdsAt_of hop, hst]; rfl) _ _

/-! ### `awWake f` -/

theorem st_awWake0 (c : Ctx w s) {f : Nat} (hop : opAt w = some (.awWake f))
    (hst : (w.ctlOf w.tid).stage = 0) : Out w s w.stepActive := by
  rw [Refine4.stepActive_op hop]
  have e : w.runOp (w.ctlOf w.tid) (.awWake f) = w.primStart f (.store 1 .rel) := by
    simp only [World.runOp, hst]
  rw [e]
  exact out_storeStart c hop hst rfl f

theorem st_awWake1 (c : Ctx w s) {f : Nat} (hop : opAt w = some (.awWake f))
    (hst : (w.ctlOf w.tid).stage = 1) : Out w s w.stepActive := by
  rw [Refine4.stepActive_op hop]
  simp only [World.runOp, hst]
  obtain ⟨hf, hmS, hmA⟩ := fut_mtx c hop rfl
  exact out_storeLock c hop (by rw [holdsAt_of hop, hst]; rfl) f _ (lockPos_aw (op := .awWake f) hop rfl hmA)

theorem st_awWake2 (c : Ctx w s) {f : Nat} (hop : opAt w = some (.awWake f))
    (hst : (w.ctlOf w.tid).stage = 2) : Out w s w.stepActive := by
  rw [Refine4.stepActive_op hop, C20.awWake_stage2 w _ f hst]
  exact out_take c hop (by rw [holdsAt_of hop, hst]; rfl) _ (fun s => { s with awWaker := false }) (fun _ => rfl)
    (fun w1 => (w1.futs.getD f {}).awWaker)
    (fun c => { c with taken := (w.futs.getD f {}).awArc, takenNotify := (w.futs.getD f {}).awNotify })
    (fun _ => ⟨rfl, rfl, rfl⟩) 3 rfl (fun _ => (w.futs.getD f {}).awNotify) .opaque

theorem st_awWake3 (c : Ctx w s) {f : Nat} (hop : opAt w = some (.awWake f))
    (hst : (w.ctlOf w.tid).stage = 3) : Out w s w.stepActive := by
  rw [Refine4.stepActive_op hop, C20.awWake_stage3 w _ f hst]
  exact out_notifyDrop c hop (by rw [holdsAt_of hop, hst]; rfl) rfl _
    (fun w1 => (w1.arcInfo (w.ctlOf w.tid).taken).obj)

theorem st_awWake4 (c : Ctx w s) {f : Nat} (hop : opAt w = some (.awWake f))
    (hst : (w.ctlOf w.tid).stage = 4) : Out w s w.stepActive := by
  rw [Refine4.stepActive_op hop, C20.awWake_stage4 w _ f (by rw [hst]; exact Nat.le_refl _)]
  exact out_dropComplete c hop (by rw [holdsAt_of hop, hst]; rfl) _ _

end

end Deadlock3
end LoomVerif

/-
Race exactness, part 12: the step theorem with clocks, the exactness of the race checks, and the lift to runs.
-/
import LoomVerif.Proofs.RaceErr

namespace LoomVerif
namespace Race
open Refine Sy C07 C08 Clocks

section
variable {w w' : World} {s : SC.St}

theorem stepActive_eq_runOp {op : Op} (hop : opAt w = some op) :
    w.stepActive = w.runOp (w.ctlOf w.tid) op := by
  unfold World.stepActive
  unfold opAt at hop
  simp only [hop]

theorem stepActive_eq_epilogue (hop : opAt w = none) : w.stepActive = w.runEpilogue (w.ctlOf w.tid) := by
  unfold World.stepActive
  unfold opAt at hop
  simp only [hop]

/-- **one-step simulation with clocks**: a successful stage of the active thread of the twin, from a world related
(with clocks) to the reference state `s`, leads to a world related to `s` again (stuttering), or to a world related
to THE successor `s'` of `s` by the step of `SC.step` of the body the thread runs, a step of a thread that is
`SC.enabled`; in particular that step does not stop with a race verdict (`RC` contains `s'.verdict = none`). -/
theorem step_clock (hwf : WF w.prog) (hRC : RC w s) (hact : w.tid < w.ctl.length)
    (hactive : w.ths.isActive = true) (h : w.stepActive = .ok w') : SimC w s w' := by
  have hsim : Sim w (data s) w' := step_sim hwf hRC.r hact h
  have fin : QuietOut w w' ∨ RealOut w s w' → SimC w s w' := by
    rintro (hq | hr)
    · exact simC_of_quiet hRC hact hsim hq
    · exact simC_of_real hwf hRC hact hsim hr
  cases hop : opAt w with
  | none =>
    rw [stepActive_eq_epilogue hop] at h
    exact fin (clk_epilogue hRC hact hop h)
  | some op =>
    rw [stepActive_eq_runOp hop] at h
    have hok := hwf.opOk (show (w.prog.threads.getD (w.ctlOf w.tid).body [])[(w.ctlOf w.tid).pc]? = some op from hop)
    cases op <;> simp only [opOk, Bool.false_eq_true, Bool.and_eq_true, decide_eq_true_eq] at hok
    case cellRead c =>
      rcases clk_cellRead hRC hact hop hok with ⟨he, _⟩ | ⟨w'', hw'', hr⟩
      · rw [he] at h; cases h
      · rw [hw''] at h; cases h; exact fin (.inr hr)
    case cellWrite c v =>
      rcases clk_cellWrite hRC hact hop hok with ⟨he, _⟩ | ⟨he, _⟩ | ⟨w'', hw'', hr⟩
      · rw [he] at h; cases h
      · rw [he] at h; cases h
      · rw [hw''] at h; cases h; exact fin (.inr hr)
    case lock m => exact fin (clk_lock hRC hact hop hok h)
    case tryLock m => exact fin (clk_tryLock hRC hact hop hok h)
    case unlock m => exact fin (.inr (clk_unlock hRC hact hactive hop hok h))
    case spawn b => exact fin (.inr (clk_spawn hwf hRC hact hop h))
    case join b => exact fin (clk_join hRC hact hop h)
    case ifEq i r n => exact fin (.inr (clk_ifEq hRC hact hop h))

/-! ### the race checks are exact -/

theorem stop_race_inj {s1 : SC.St} {k k' : Nat} (h : [s1.stop (.race k)] = [s1.stop (.race k')]) : k = k' := by
  have := congrArg (fun l => l.map (·.verdict)) h
  simp [SC.St.stop] at this
  exact this

/-- **`cellRead`: the twin panics with causality violation `k` exactly when the reference step stops with
`race k`** (and then `k = 9`) -/
theorem read_panics_iff_races (hRC : RC w s) (hact : w.tid < w.ctl.length) {c : Nat}
    (hop : opAt w = some (.cellRead c)) (hc : c < w.prog.cfg.nCells) (k : Nat) :
    w.stepActive = .error (.causality k) ↔
      SC.step w.prog s (body w w.tid) = [(s.tick (body w w.tid)).stop (.race k)] := by
  rw [stepActive_eq_runOp hop]
  rcases clk_cellRead hRC hact hop hc with ⟨he, hs⟩ | ⟨w'', hw'', hr⟩
  · rw [he, hs]
    constructor
    · intro h; cases h; rfl
    · intro h; rw [stop_race_inj h]
  · obtain ⟨_, _, _, _, s', hs', hv, _⟩ := hr
    rw [hw'', hs']
    constructor
    · intro h; cases h
    · intro h
      have : s' = (s.tick (body w w.tid)).stop (.race k) := by simpa using h
      rw [this] at hv; cases hv

/-- **`cellWrite`: the twin panics with causality violation `k` exactly when the reference step stops with
`race k`** (`k = 10`: against an earlier write, `k = 11`: against an earlier read; same precedence on both sides) -/
theorem write_panics_iff_races (hRC : RC w s) (hact : w.tid < w.ctl.length) {c : Nat} {v : Int}
    (hop : opAt w = some (.cellWrite c v)) (hc : c < w.prog.cfg.nCells) (k : Nat) :
    w.stepActive = .error (.causality k) ↔
      SC.step w.prog s (body w w.tid) = [(s.tick (body w w.tid)).stop (.race k)] := by
  rw [stepActive_eq_runOp hop]
  rcases clk_cellWrite hRC hact hop hc with ⟨he, hs⟩ | ⟨he, hs⟩ | ⟨w'', hw'', hr⟩
  · rw [he, hs]
    constructor
    · intro h; cases h; rfl
    · intro h; rw [stop_race_inj h]
  · rw [he, hs]
    constructor
    · intro h; cases h; rfl
    · intro h; rw [stop_race_inj h]
  · obtain ⟨_, _, _, _, s', hs', hv, _⟩ := hr
    rw [hw'', hs']
    constructor
    · intro h; cases h
    · intro h
      have : s' = (s.tick (body w w.tid)).stop (.race k) := by simpa using h
      rw [this] at hv; cases hv

/-! ### only cell accesses panic with a causality violation -/

theorem bind_err {α β} {x : Except Panic α} {f : α → Except Panic β} {e : Panic}
    (h : (x >>= f) = .error e) : x = .error e ∨ ∃ a, x = .ok a ∧ f a = .error e := by
  cases x with
  | error e' => left; cases h; rfl
  | ok a => right; exact ⟨a, rfl, h⟩

/-- a stage of a fragment program that panics with a causality violation is the race check of a `cellRead` or a
`cellWrite` -/
theorem causality_only_at_cells (hwf : WF w.prog) (hRC : RC w s) (hact : w.tid < w.ctl.length) {k : Nat}
    (h : w.stepActive = .error (.causality k)) :
    (∃ c, opAt w = some (.cellRead c) ∧ c < w.prog.cfg.nCells) ∨
    (∃ c v, opAt w = some (.cellWrite c v) ∧ c < w.prog.cfg.nCells) := by
  obtain ⟨_, hrel, _⟩ := base hRC.r hact
  cases hop : opAt w with
  | none =>
    exfalso
    rw [stepActive_eq_epilogue hop] at h
    have hloc := hrel.2.2.2.2.2.1
    have hdq := hrel.2.2.2.2.2.2
    have hdl : w.dropLocals = w := dropLocals_frag w hloc hdq
    by_cases h10 : 10 ≤ (w.ctlOf w.tid).fin
    · rw [runEpilogue_finish w _ h10] at h
      unfold World.finishThread at h
      split at h
      · cases h
      · rw [dropPass_eq, hdl] at h
        split at h
        · cases h
        · split at h
          · rw [hdq] at h
            simp only at h
            exact threadDone_nr h k rfl
          · rw [hdq] at h
            cases h
    · have hlt : (w.ctlOf w.tid).fin < 10 := by omega
      by_cases ht0 : w.tid = 0
      · rw [runEpilogue_main w _ ht0 hlt] at h
        cases h
      · cases hf : w.spawned.find? (·.2.1 == w.tid) with
        | none =>
          unfold World.runEpilogue at h
          simp [h10, ht0, hf, throw, throwThe, MonadExceptOf.throw] at h
        | some e =>
          obtain ⟨b, t, n⟩ := e
          have := List.find?_some hf
          simp only [beq_iff_eq] at this
          subst this
          have hmem := List.mem_of_find?_eq_some hf
          rw [runEpilogue_spawned w _ b n ht0 hf hlt] at h
          split at h
          · cases h
          · split at h
            · rw [dropPass_eq, hdl] at h
              split at h
              · cases h
              · split at h
                · rw [hdq] at h
                  simp only at h
                  exact branch_nr h k rfl
                · rw [hdq] at h
                  cases h
            · obtain ⟨_, _, nt, hv, _⟩ := hRC.r.y.sp b w.tid n hmem
              obtain ⟨ns, hobj, _, _⟩ := objView_notify hv
              rw [notifyEffect_eq hobj] at h
              cases h
  | some op =>
    rw [stepActive_eq_runOp hop] at h
    have hok := hwf.opOk (show (w.prog.threads.getD (w.ctlOf w.tid).body [])[(w.ctlOf w.tid).pc]? = some op from hop)
    cases op <;> simp only [opOk, Bool.false_eq_true, Bool.and_eq_true, decide_eq_true_eq] at hok
    case cellRead c => exact .inl ⟨c, rfl, hok⟩
    case cellWrite c v => exact .inr ⟨c, v, rfl, hok⟩
    case lock m =>
      exfalso
      obtain ⟨ms, hobj⟩ := mtx_obj hRC.r hok
      rw [runOp_lock] at h
      split at h
      · simp only [getMutex_of hobj, bind, Except.bind] at h
        exact branch_nr h k rfl
      · cases hl : ms.lock with
        | some i =>
          rw [postAcquire_held hobj (by rw [hl]; rfl)] at h
          simp [bind, Except.bind, throw, throwThe, MonadExceptOf.throw] at h
        | none =>
          rw [postAcquire_free hobj hl] at h
          simp [bind, Except.bind, pure, Except.pure] at h
    case tryLock m =>
      exfalso
      obtain ⟨ms, hobj⟩ := mtx_obj hRC.r hok
      rw [runOp_tryLock] at h
      split at h
      · exact branch_nr h k rfl
      · cases hl : ms.lock with
        | some i =>
          rw [postAcquire_held hobj (by rw [hl]; rfl)] at h
          simp [bind, Except.bind, pure, Except.pure] at h
        | none =>
          rw [postAcquire_free hobj hl] at h
          simp [bind, Except.bind, pure, Except.pure] at h
    case unlock m =>
      exfalso
      obtain ⟨ms, hobj⟩ := mtx_obj hRC.r hok
      rw [runOp_unlock] at h
      cases ha : w.ths.isActive with
      | true =>
        rw [releaseLock_active hobj ha] at h
        simp [bind, Except.bind, pure, Except.pure] at h
      | false =>
        rw [releaseLock_inactive hobj ha] at h
        simp [bind, Except.bind, pure, Except.pure] at h
    case spawn b =>
      exfalso
      rw [runOp_spawn] at h
      simp only [World.pushObj, bind, Except.bind, pure, Except.pure] at h
      split at h
      · next e he =>
        cases h
        unfold Exec.newThread at he
        simp only [bind, Except.bind, pure, Except.pure] at he
        split at he
        · next e' hn =>
          cases he
          unfold Threads.newThread at hn
          split at hn <;> cases hn
        · cases he
      · cases h
    case join b =>
      exfalso
      rw [runOp_join] at h
      rcases bind_err h with hl | ⟨⟨j, n⟩, hl, h⟩
      · unfold World.lookupSpawn at hl
        split at hl <;> cases hl
      · obtain ⟨hmem, _⟩ := lookup_jn hl
        obtain ⟨_, _, nt, hv, _⟩ := hRC.r.y.sp b j n hmem
        obtain ⟨ns, hobj, hspur, _⟩ := objView_notify hv
        have hst : (w.ctlOf w.tid).stage = 0 ∨ (w.ctlOf w.tid).stage = 1 := by
          have := hrel.2.2.2.2.1; omega
        rcases hst with hst | hst
        · simp only [hst] at h
          rcases bind_err h with h1 | ⟨a, _, h1⟩
          · rw [notifyWait1_plain hobj (by rw [hspur]; rfl)] at h1
            cases hb : w.branch n .opaque (block := !ns.notified) (wait := !ns.notified) with
            | error e => rw [hb] at h1; cases h1; exact branch_nr hb k rfl
            | ok w1 => rw [hb] at h1; cases h1
          · cases h1
        · simp only [hst] at h
          rcases bind_err h with h1 | ⟨a, _, h1⟩
          · cases hn : ns.notified with
            | false => rw [notifyWait2_unnotified hobj hn] at h1; cases h1
            | true => rw [notifyWait2_notified hobj hn] at h1; cases h1
          · cases h1
    case ifEq i r n =>
      exfalso
      rw [runOp_ifEq] at h
      split at h <;> cases h

end

end Race
end LoomVerif

/-
C07/C08: the stage machine `World.runOp` specialised to each lock / wait operation (all by `rfl`:
these are the defining equations of the twin, restated per operation), and `runEpilogue`.
-/
import LoomVerif.Model.Interp

namespace LoomVerif
namespace Sy

theorem runOp_lock (w : World) (c : TCtl) (mi : Nat) :
    w.runOp c (.lock mi) =
      if c.stage == 0 then (do
        let m ← w.getMutex (w.mutexObj mi)
        (w.setStage 1).branch (w.mutexObj mi) .opaque (block := m.lock.isSome) (wait := true))
      else (do
        let (w', okk) ← w.postAcquire (w.mutexObj mi)
        if !okk then throw .expectedLock
        pure (w'.complete .unit)) := rfl

theorem runOp_tryLock (w : World) (c : TCtl) (mi : Nat) :
    w.runOp c (.tryLock mi) =
      if c.stage == 0 then (w.setStage 1).branch (w.mutexObj mi) .opaque
      else (do
        let (w', okk) ← w.postAcquire (w.mutexObj mi)
        pure (w'.complete (World.boolRet okk))) := rfl

theorem runOp_unlock (w : World) (c : TCtl) (mi : Nat) :
    w.runOp c (.unlock mi) = (do
      let w' ← w.releaseLock (w.mutexObj mi)
      pure (w'.complete .unit)) := rfl

theorem runOp_read (w : World) (c : TCtl) (li : Nat) :
    w.runOp c (.read li) =
      if c.stage == 0 then (do
        let s ← w.getRw (w.rwObj li)
        let wl := match s.lock with | some (.write _) => true | _ => false
        (w.setStage 1).branch (w.rwObj li) .rwRead (block := wl) (wait := true))
      else (do
        let (w', okk) ← w.postAcquireRead (w.rwObj li)
        if !okk then throw .expectedRead
        pure (w'.complete .unit)) := rfl

theorem runOp_write (w : World) (c : TCtl) (li : Nat) :
    w.runOp c (.write li) =
      if c.stage == 0 then (do
        let s ← w.getRw (w.rwObj li)
        (w.setStage 1).branch (w.rwObj li) .rwWrite (block := s.lock.isSome) (wait := true))
      else (do
        let (w', okk) ← w.postAcquireWrite (w.rwObj li)
        if !okk then throw .expectedWrite
        pure (w'.complete .unit)) := rfl

theorem runOp_tryRead (w : World) (c : TCtl) (li : Nat) :
    w.runOp c (.tryRead li) =
      if c.stage == 0 then (w.setStage 1).branch (w.rwObj li) .rwRead
      else (do
        let (w', okk) ← w.postAcquireRead (w.rwObj li)
        pure (w'.complete (World.boolRet okk))) := rfl

theorem runOp_tryWrite (w : World) (c : TCtl) (li : Nat) :
    w.runOp c (.tryWrite li) =
      if c.stage == 0 then (w.setStage 1).branch (w.rwObj li) .rwWrite
      else (do
        let (w', okk) ← w.postAcquireWrite (w.rwObj li)
        pure (w'.complete (World.boolRet okk))) := rfl

theorem runOp_unread (w : World) (c : TCtl) (li : Nat) :
    w.runOp c (.unread li) = (do
      let w' ← w.releaseRead (w.rwObj li)
      pure (w'.complete .unit)) := rfl

theorem runOp_unwrite (w : World) (c : TCtl) (li : Nat) :
    w.runOp c (.unwrite li) = (do
      let w' ← w.releaseWrite (w.rwObj li)
      pure (w'.complete .unit)) := rfl

theorem runOp_cvWait (w : World) (c : TCtl) (vi mi : Nat) :
    w.runOp c (.cvWait vi mi) =
    (match c.stage with
    | 0 => (w.setStage 1).branch (w.cvObj vi) .opaque
    | 1 => do
      let s ← w.getCv (w.cvObj vi)
      let w1 := w.setObj (w.cvObj vi) (.condvar { s with waiters := s.waiters ++ [w.tid] })
      let w2 ← w1.releaseLock (w.mutexObj mi)
      (w2.setStage 2).blockNow
    | 2 => do
      let m ← w.getMutex (w.mutexObj mi)
      (w.setStage 3).branch (w.mutexObj mi) .opaque (block := m.lock.isSome) (wait := true)
    | _ => do
      let (w', okk) ← w.postAcquire (w.mutexObj mi)
      if !okk then throw .expectedLock
      pure (w'.complete .unit)) := rfl

theorem runOp_cvOne (w : World) (c : TCtl) (vi : Nat) :
    w.runOp c (.cvOne vi) =
      if c.stage == 0 then (w.setStage 1).branch (w.cvObj vi) .opaque
      else (do
        let s ← w.getCv (w.cvObj vi)
        match s.waiters with
        | [] => pure (w.complete .unit)
        | t :: rest =>
          let w1 := w.setObj (w.cvObj vi) (.condvar { s with waiters := rest })
          pure ((w1.setThs (w1.ths.wake t)).complete .unit)) := rfl

theorem runOp_cvAll (w : World) (c : TCtl) (vi : Nat) :
    w.runOp c (.cvAll vi) =
      if c.stage == 0 then (w.setStage 1).branch (w.cvObj vi) .opaque
      else (do
        let s ← w.getCv (w.cvObj vi)
        let w1 := w.setObj (w.cvObj vi) (.condvar { s with waiters := [] })
        pure ((w1.setThs (s.waiters.foldl (fun ths t => ths.wake t) w1.ths)).complete .unit)) :=
  rfl

theorem runOp_nWait (w : World) (c : TCtl) (ni : Nat) :
    w.runOp c (.nWait ni) =
    (match c.stage with
    | 0 => do
      if w.notifyWaiting.getD ni false then throw .notifyTwoWaiters
      let w0 := { w with notifyWaiting := w.notifyWaiting.set ni true }
      let (w1, st) ← w0.notifyWait1 (w.notifyObj ni)
      pure (w1.modCtl w.tid fun c => { c with stage := st })
    | 1 => do
      let w1 ← w.notifyWait2 (w.notifyObj ni)
      pure ({ w1 with notifyWaiting := w1.notifyWaiting.set ni false }.complete .unit)
    | _ => pure ({ w with notifyWaiting := w.notifyWaiting.set ni false }.complete .unit)) := rfl

theorem runOp_nNotify (w : World) (c : TCtl) (ni : Nat) :
    w.runOp c (.nNotify ni) =
      if c.stage == 0 then (w.setStage 1).branch (w.notifyObj ni) .opaque
      else (do
        let w1 ← w.notifyEffect (w.notifyObj ni)
        pure (w1.complete .unit)) := rfl

theorem runOp_park (w : World) (c : TCtl) :
    w.runOp c .park = if c.stage == 0 then (w.setStage 1).parkNow else pure (w.complete .unit) :=
  rfl

theorem runOp_unpark (w : World) (c : TCtl) (b : Nat) :
    w.runOp c (.unpark b) = (do
      let t ← w.threadOf b
      pure ((w.setThs (w.ths.unpark t)).complete .unit)) := rfl

theorem runOp_spawn (w : World) (c : TCtl) (b : Nat) :
    w.runOp c (.spawn b) = (do
      let (w1, n) := w.pushObj (.notify { seqCst := true, spurious := false })
      let (e, id) ← w1.exec.newThread
      let w2 := { w1 with exec := e, ctl := w1.ctl ++ [({ body := b } : TCtl)],
                          spawned := (b, id, n) :: w1.spawned }
      pure (w2.complete .unit)) := rfl

theorem runOp_join (w : World) (c : TCtl) (b : Nat) :
    w.runOp c (.join b) = (do
      let (_, n) ← w.lookupSpawn b
      match c.stage with
      | 0 => do
        let (w1, st) ← w.notifyWait1 n
        pure (w1.modCtl w.tid fun c => { c with stage := st })
      | 1 => do
        let w1 ← w.notifyWait2 n
        pure (w1.complete .unit)
      | _ => pure (w.complete .unit)) := rfl

/-- the epilogue of a spawned thread `t ≠ 0` whose `JoinHandle` notify is `n`, before the common
tail (`fin < 10`), since the repair of finding F20: FIRST `drop_locals` (`fin = 0`, continues at `fin = 4`)
and the loop of the destructors' stores (`fin = 4`: head, `fin = 5`: effect of a store; `dropPass … 3`);
when the queue of destructors is empty the branch point of `notify` (`fin := 1`), then its effect
(`fin = 1`); the thread then enters the tail `finishThread` (`fin := 10`: second `drop_locals`, its
destructors, `thread_done`) -/
theorem runEpilogue_spawned (w : World) (c : TCtl) (b n : Nat) (ht : w.tid ≠ 0)
    (hs : w.spawned.find? (·.2.1 == w.tid) = some (b, w.tid, n)) (hlt : c.fin < 10) :
    w.runEpilogue c =
      if c.fin == 0 then .ok (w.dropLocals.modCtl w.tid fun c => { c with fin := 4 })
      else if 3 ≤ c.fin then
        w.dropPass c 3 fun w1 => (w1.modCtl w.tid fun c => { c with fin := 1 }).branch n .opaque
      else (do
        let w1 ← w.notifyEffect n
        pure (w1.modCtl w.tid fun c => { c with fin := 10 })) := by
  unfold World.runEpilogue
  have : ¬ c.fin ≥ 10 := by omega
  simp only [ht, hs, this, bind, Except.bind, beq_iff_eq, if_false]
  split
  · simp [World.dropPass, pure, Except.pure]
  · rfl

/-- one pass of `drop_locals`, spelled out by stage -/
theorem dropPass_eq (w : World) (c : TCtl) (base : Nat) (done : World → Except Panic World) :
    w.dropPass c base done =
      if c.fin = base then .ok (w.dropLocals.modCtl w.tid fun c => { c with fin := base + 1 })
      else if c.fin = base + 1 then
        (match c.dtorQueue with
        | [] => done w
        | k :: _ =>
          (w.modCtl w.tid fun c => { c with fin := base + 2 }).primStart 0
            (.store (10 + (k : Int)) .rlx) c.stage)
      else
        (match c.dtorQueue with
        | [] => .error (.internal 84)
        | k :: rest => do
          let (w1, _) ← w.primEffect 0 (.store (10 + (k : Int)) .rlx)
          pure (w1.modCtl w.tid fun c => { c with fin := base + 1, dtorQueue := rest })) := by
  obtain ⟨body, pc, stage, prim, results, fin, guards, locals, q⟩ := c
  unfold World.dropPass
  simp only [beq_iff_eq, bind, Except.bind, pure, Except.pure]
  split
  · rfl
  · split
    · cases q <;> rfl
    · cases q <;> rfl

/-- the epilogue of the main thread before the common tail: `lazy_statics.drop()` -/
theorem runEpilogue_main (w : World) (c : TCtl) (ht : w.tid = 0) (hlt : c.fin < 10) :
    w.runEpilogue c =
      .ok (({ w with exec := { w.exec with lazyStatics := none } } : World).modCtl w.tid
        fun c => { c with fin := 10 }) := by
  unfold World.runEpilogue
  have : ¬ c.fin ≥ 10 := by omega
  simp [ht, this, pure, Except.pure]

/-- from `fin = 10` on every thread runs the common tail -/
theorem runEpilogue_finish (w : World) (c : TCtl) (h : 10 ≤ c.fin) :
    w.runEpilogue c = w.finishThread c := by
  unfold World.runEpilogue
  simp [h]

end Sy
end LoomVerif

/-
Deadlock soundness, WAIT fragment, part 19: for programs WITHOUT `park` and `cvWait` (the lock fragment, channels,
`Notify`, `unpark`, `cvOne`, `cvAll`) the run-level condition `okRun` of `Props/Refine2.lean` holds of every run:
it only constrains the stages of `park` and `cvWait`.
-/
import LoomVerif.Proofs.Deadlock2Check

namespace LoomVerif
namespace Deadlock2
open Refine Refine2 Sy Deadlock

/-- the operation is neither `park` nor `cvWait` -/
def plainWait : Op → Bool
  | .park | .cvWait .. => false
  | _ => true

/-- no `park`, no `cvWait` in the program text -/
def NoParkCv (p : Prog) : Prop :=
  ∀ a, a < p.threads.length → ∀ k, k < (p.threads.getD a []).length →
    ((p.threads.getD a [])[k]?.all plainWait) = true

instance (p : Prog) : Decidable (NoParkCv p) := by unfold NoParkCv; infer_instance

theorem NoParkCv.op {p : Prog} (h : NoParkCv p) {a k : Nat} {op : Op}
    (hop : (p.threads.getD a [])[k]? = some op) : plainWait op = true := by
  obtain ⟨ha, hk⟩ := pos_bound hop
  have := h a ha k hk
  rw [hop] at this
  simpa using this

/-- the per-step condition holds in every world of such a program -/
theorem resumeOk_of_noParkCv {w : World} (h : NoParkCv w.prog) : resumeOk w = true := by
  unfold resumeOk cvResumeOk parkResumeOk
  cases hop : opAt2 w with
  | none => rfl
  | some op =>
    have hp := h.op (show (w.prog.threads.getD (w.ctlOf w.tid).body [])[(w.ctlOf w.tid).pc]? = some op from hop)
    cases op <;> first | rfl | cases hp

/-- **`okRun` holds of every run of a program without `park` and `cvWait`** (from a world related by `RB2`) -/
theorem okRun_of_noParkCv (p : Prog) (hwf : WFD p) (hn : NoParkCv p) :
    ∀ (fuel : Nat) (w : World) (s : SCData2), w.prog = p → RB2 w s → InRange w → okRun fuel w = true := by
  intro fuel
  induction fuel with
  | zero => intro w s _ _ _; rfl
  | succ fuel ih =>
    intro w s hp hRB hrange
    unfold okRun
    by_cases hact : w.ths.isActive = true
    · have hna : (!w.ths.isActive) = false := by rw [hact]; rfl
      rw [hna]
      simp only [Bool.false_eq_true, if_false, Bool.and_eq_true]
      have hres : resumeOk w = true := resumeOk_of_noParkCv (by rw [hp]; exact hn)
      refine ⟨hres, ?_⟩
      cases hstep : w.stepActive with
      | error e => rfl
      | ok w1 =>
        have hin : w.tid < w.ctl.length := by rw [hRB.r.c.lenCtl]; exact hrange hact
        obtain ⟨⟨hp1, hsim⟩, hr1, _⟩ := step_pres2 (by rw [hp]; exact hwf) hRB hact hin hres hstep
        rcases hsim with ⟨hR1, _⟩ | ⟨_, s1, _, hR1, _⟩
        · exact ih w1 s (hp1.trans hp) hR1 hr1
        · exact ih w1 s1 (hp1.trans hp) hR1 hr1
    · have hna : (!w.ths.isActive) = true := by
        cases hh : w.ths.isActive with
        | true => exact absurd hh hact
        | false => rfl
      rw [hna]; rfl

/-- … hence of every iteration from an execution record that satisfies the other hypotheses -/
theorem okIter2_of_noParkCv {prog : Prog} {e : Exec} {fuel : Nat} (hwf : WFD prog) (hn : NoParkCv prog)
    (hf : FreshExec2 e) (hp : ReplayOK e.path) {w0 : World} (hinit : World.init prog e = .ok w0) :
    okRun fuel w0 = true := by
  obtain ⟨hRB, hprog, _⟩ := init_RB2 hwf hf hp hinit
  exact okRun_of_noParkCv prog hwf hn fuel w0 _ hprog hRB (init_inRange2 hf hinit)

end Deadlock2
end LoomVerif

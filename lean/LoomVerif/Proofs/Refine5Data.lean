/-
Refinement, STATICS fragment (lock fragment + `thread_local!` / `lazy_static!`: `tls`, `tlsTry`, `tlsNest`,
`tlsStat`, `tlsObs`, `lazy`, `lazyStat`), part 1: the data-only projection `SCData5` of the reference semantics
`Spec/SC.lean` — the data of the lock fragment (`Refine.SCData`) plus, per thread, the association list of its
thread-locals (`SC.Th.locals`), the harness counters `tlsInits` / `tlsDrops` / `tlsObs`, and the lazy-statics part
(`lazyInit`, `lazyDropped`) —, its labelled step function `SCData5.stepL` (the lock-fragment operations are those of
`Refine.SCData.stepL`; the end of a thread is `SC.finish` for `tlsDtor ≠ 1`: the thread-locals are destroyed in one
step), and the well-formedness predicate `WF5` on programs (decidable).

`lazy z` after the main closure has returned has NO successor in the data semantics: the reference stops with
`misuse 20` there, the twin panics (`lazyShutdown`).
-/
import LoomVerif.Proofs.RefineData
import LoomVerif.Proofs.RefineLift

namespace LoomVerif
namespace Refine5
open Refine

/-! ### the fragment and the well-formedness of programs -/

/-- the thread-local / lazy-static operations -/
def isStatOp : Op → Bool
  | .tls _ | .tlsTry _ | .tlsNest .. | .tlsStat _ | .tlsObs _ | .lazy _ | .lazyStat _ => true
  | _ => false

/-- the operations of the statics fragment -/
def isFrag5 (op : Op) : Bool := isFrag op || isStatOp op

/-- operation `op` is in the fragment and its arguments are in range for program `p`: the harness has two
thread-local keys and two lazy statics (the counters are two-element lists on both sides); `lazy z` only in
programs that declare no atomic (then the initialiser has no scheduling point) -/
def opOk5 (p : Prog) (op : Op) : Bool :=
  match op with
  | .tls k | .tlsTry k => decide (k < 2)
  | .tlsNest k j => decide (k < 2) && decide (j < 2)
  | .tlsStat _ | .tlsObs _ | .lazyStat _ => true
  | .lazy z => decide (z < 2) && decide (p.cfg.nAtomics = 0)
  | op => opOk p op

/-- every operation of every body is a fragment operation with arguments in range -/
def OpsOk5 (p : Prog) : Prop :=
  ∀ a, a < p.threads.length → ∀ k, k < (p.threads.getD a []).length →
    ((p.threads.getD a [])[k]?.all (opOk5 p)) = true

instance (p : Prog) : Decidable (OpsOk5 p) := by unfold OpsOk5; infer_instance

/-- well-formed programs of the statics fragment: a main body; only fragment operations, with declared cells /
mutexes, keys and statics `< 2`, `lazy` only without atomics, `spawn t` naming an existing body `0 < t`; each body
spawned by at most one operation of the text; the thread-local destructors perform no loom operation
(`tlsdtor` 0: nothing, 2: `try_with` on the other key) -/
def WF5 (p : Prog) : Prop :=
  0 < p.threads.length ∧ OpsOk5 p ∧ SpawnOnce p ∧ (p.cfg.tlsDtor = 0 ∨ p.cfg.tlsDtor = 2)

instance (p : Prog) : Decidable (WF5 p) := by unfold WF5; infer_instance

theorem pos_bound {p : Prog} {a k : Nat} {op : Op} (hop : (p.threads.getD a [])[k]? = some op) :
    a < p.threads.length ∧ k < (p.threads.getD a []).length := by
  have hk : k < (p.threads.getD a []).length := (List.getElem?_eq_some_iff.1 hop).1
  refine ⟨?_, hk⟩
  apply Classical.byContradiction
  intro hn
  have : p.threads[a]? = none := List.getElem?_eq_none (by omega)
  simp [List.getD, this] at hk

theorem WF5.opOk {p : Prog} (h : WF5 p) {a k : Nat} {op : Op}
    (hop : (p.threads.getD a [])[k]? = some op) : opOk5 p op = true := by
  obtain ⟨ha, hk⟩ := pos_bound hop
  have := h.2.1 a ha k hk
  rw [hop] at this
  simpa using this

theorem WF5.spawn_unique {p : Prog} (h : WF5 p) {a k a' k' b : Nat}
    (h1 : (p.threads.getD a [])[k]? = some (.spawn b))
    (h2 : (p.threads.getD a' [])[k']? = some (.spawn b)) : a = a' ∧ k = k' := by
  obtain ⟨ha, hk⟩ := pos_bound h1
  obtain ⟨ha', hk'⟩ := pos_bound h2
  have e1 : spawnAt p a k = some b := by simp only [spawnAt, h1]
  have e2 : spawnAt p a' k' = some b := by simp only [spawnAt, h2]
  have := h.2.2.1 a ha k hk a' ha' k' hk'
  simpa [spawnPairOk, e1, e2] using this

/-! ### the data of a reference state -/

/-- the data of a reference state the statics fragment can observe: no clocks -/
structure SCData5 where
  ths : List DTh
  cells : List Int
  mutex : List (Option Nat)
  /-- per thread (body index): its thread-locals, key ↦ instance id (`SC.Th.locals`) -/
  locals : List (List (Nat × Nat))
  tlsInits : List Nat
  tlsDrops : List Nat
  tlsObs : List Nat
  /-- number of initialisations of each lazy static in this execution -/
  lazyInit : List Nat
  /-- the main closure has returned -/
  lazyDropped : Bool
deriving DecidableEq, Repr, Inhabited

/-- the data-only projection of a reference state -/
def data5 (s : SC.St) : SCData5 :=
  { ths := s.ths.map dth, cells := s.cells, mutex := s.mutex, locals := s.ths.map (·.locals),
    tlsInits := s.tlsInits, tlsDrops := s.tlsDrops, tlsObs := s.tlsObs, lazyInit := s.lazyInit,
    lazyDropped := s.lazyDropped }

namespace SCData5

/-- the lock-fragment part -/
def base (d : SCData5) : SCData := { ths := d.ths, cells := d.cells, mutex := d.mutex }
def withBase (d : SCData5) (b : SCData) : SCData5 := { d with ths := b.ths, cells := b.cells, mutex := b.mutex }

def th (d : SCData5) (t : Nat) : DTh := d.ths.getD t {}
def loc (d : SCData5) (t : Nat) : List (Nat × Nat) := d.locals.getD t []
def modTh (d : SCData5) (t : Nat) (f : DTh → DTh) : SCData5 := { d with ths := d.ths.modify t f }
def modLoc (d : SCData5) (t : Nat) (f : List (Nat × Nat) → List (Nat × Nat)) : SCData5 :=
  { d with locals := d.locals.modify t f }
/-- the operation completes with result `r` (`SC.St.ret`) -/
def ret (d : SCData5) (t : Nat) (r : Ret) : SCData5 :=
  d.modTh t fun h => { h with rets := (h.pc, r) :: h.rets, pc := h.pc + 1 }
def opOf (p : Prog) (d : SCData5) (t : Nat) : Option Op := (p.threads.getD t [])[(d.th t).pc]?

/-- `SC.enabled` on the data: only `lock` and `join` can be disabled -/
def enabled (p : Prog) (d : SCData5) (t : Nat) : Bool := SCData.enabled p d.base t

/-- `SC.tlsGet`: `LocalKey::with` by thread `t`: lazily initialised once per thread, private to it; the instance
id names the owning thread -/
def tlsGet (d : SCData5) (t k : Nat) : SCData5 × Nat :=
  match (d.loc t).lookup k with
  | some id => (d, id)
  | none =>
    let id := t * 10 + 1
    (({ d with tlsInits := d.tlsInits.set k (d.tlsInits.getD k 0 + 1) }).modLoc t fun l => (k, id) :: l, id)

/-- the destruction of the value of key `k` of thread `t` at the thread's end (`live`: the keys the thread owns) -/
def dtorStep (p : Prog) (live : List Nat) (t : Nat) (d : SCData5) (k : Nat) : SCData5 :=
  let d := { d with tlsDrops := d.tlsDrops.set k (d.tlsDrops.getD k 0 + 1) }
  match p.cfg.tlsDtor with
  | 2 =>
    if k != 0 then d
    else if live.contains 1 then { d with tlsObs := d.tlsObs.set 0 (d.tlsObs.getD 0 0 ||| 2) }
    else
      let (d, _) := tlsGet d t 1
      { d with tlsObs := d.tlsObs.set 0 (d.tlsObs.getD 0 0 ||| 1), tlsDrops := d.tlsDrops.set 1 (d.tlsDrops.getD 1 0 + 1) }
  | _ => d

/-- the keys (0, 1) thread `t` owns -/
def liveOf (d : SCData5) (t : Nat) : List Nat :=
  [0, 1].filter fun k => ((d.loc t).map (·.1)).contains k

/-- `SC.finish` for `tlsDtor ≠ 1`: the thread's thread-locals are destroyed (in any order), then it counts as
finished; the main thread's end also ends the life of the lazy statics -/
def finish (p : Prog) (d : SCData5) (t : Nat) : List SCData5 :=
  let live := liveOf d t
  let d := if t == 0 then { d with lazyDropped := true } else d
  (SC.perms2 live).map fun order =>
    (order.foldl (dtorStep p live t) d).modTh t fun h => { h with finished := true }

/-- `SC.step` on the data, for the operations of the statics fragment: the successor states, each with the
`(pc, result)` the step records -/
def stepL (p : Prog) (d : SCData5) (t : Nat) : List (Option (Nat × Ret) × SCData5) :=
  let pc := (d.th t).pc
  match opOf p d t with
  | none => (finish p d t).map fun d' => (none, d')
  | some (.tls k) | some (.tlsTry k) =>
    [(some (pc, .val (tlsGet d t k).2), (tlsGet d t k).1.ret t (.val (tlsGet d t k).2))]
  | some (.tlsNest k j) =>
    [(some (pc, .val (tlsGet (tlsGet d t k).1 t j).2),
      (tlsGet (tlsGet d t k).1 t j).1.ret t (.val (tlsGet (tlsGet d t k).1 t j).2))]
  | some (.tlsStat k) =>
    [(some (pc, .val (d.tlsInits.getD k 0 * 100 + d.tlsDrops.getD k 0)),
      d.ret t (.val (d.tlsInits.getD k 0 * 100 + d.tlsDrops.getD k 0)))]
  | some (.tlsObs k) => [(some (pc, .val (d.tlsObs.getD k 0)), d.ret t (.val (d.tlsObs.getD k 0)))]
  | some (.lazyStat z) =>
    [(some (pc, .val (if d.lazyDropped then 0 else d.lazyInit.getD z 0)),
      d.ret t (.val (if d.lazyDropped then 0 else d.lazyInit.getD z 0)))]
  | some (.lazy z) =>
    if d.lazyDropped then [] else
    let d1 := if d.lazyInit.getD z 0 == 0 then { d with lazyInit := d.lazyInit.set z 1 } else d
    [(some (pc, .val ((d1.lazyInit.getD z 0 : Int) * 100 + 40 + z)),
      d1.ret t (.val ((d1.lazyInit.getD z 0 : Int) * 100 + 40 + z)))]
  | some _ => (SCData.stepL p d.base t).map fun x => (x.1, d.withBase x.2)

def step (p : Prog) (d : SCData5) (t : Nat) : List SCData5 := (stepL p d t).map (·.2)

/-- executions of the data semantics with the trace of `(thread, pc, result)` triples they record, oldest first:
every step is a step of an enabled thread -/
inductive Run (p : Prog) : SCData5 → List (Nat × Nat × Ret) → SCData5 → Prop
  | nil (d : SCData5) : Run p d [] d
  | step {d d1 d2 : SCData5} {tr : List (Nat × Nat × Ret)} {t : Nat} {l : Option (Nat × Ret)} :
      Run p d tr d1 → enabled p d1 t = true → (l, d2) ∈ stepL p d1 t → Run p d (tr ++ SCData.label t l) d2

theorem base_th (d : SCData5) (t : Nat) : d.base.th t = d.th t := rfl
theorem base_opOf (p : Prog) (d : SCData5) (t : Nat) : SCData.opOf p d.base t = opOf p d t := rfl
theorem withBase_base (d : SCData5) : d.withBase d.base = d := rfl

theorem th_ret_self (d : SCData5) (t : Nat) (r : Ret) (ht : t < d.ths.length) :
    (d.ret t r).th t = { d.th t with rets := ((d.th t).pc, r) :: (d.th t).rets, pc := (d.th t).pc + 1 } := by
  simp [ret, modTh, th, List.getD, List.getElem?_eq_getElem ht]

end SCData5

theorem data5_base (s : SC.St) : (data5 s).base = data s := rfl

end Refine5
end LoomVerif

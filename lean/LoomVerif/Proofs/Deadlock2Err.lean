/-
Deadlock soundness, WAIT fragment, part 14: what a waiting position means in the reference state — the reference
thread is started, unfinished and NOT enabled (`blocked_disabled2`): `lock` on a held mutex, the second half of
`cvWait` on a held mutex, `recv` on an empty channel, `nWait` on a clear flag, `join` of an unfinished thread,
`park` without a token, the first half of `cvWait` still queued — and the deadlock test of a scheduling point in
the reference state (`dead_of_schedOn2`).
-/
import LoomVerif.Proofs.Deadlock2Pres

namespace LoomVerif
namespace Deadlock2
open Refine Refine2 Sy Deadlock C07 C08

/-- a deadlocked state of the reference semantics: no thread is enabled, some started thread has not finished -/
def Dead2 (p : Prog) (s : SCData2) : Prop :=
  (∀ t, SCData2.enabled p s t = false) ∧ ∃ t, (s.th t).started = true ∧ (s.th t).finished = false

section
variable {w : World} {s : SCData2}

theorem opOf_body2 (hR : R2c w s) {i : Nat} (hi : i < w.ctl.length) :
    SCData2.opOf w.prog s (w.ctlOf i).body = opOfCtl w.prog (w.ctlOf i) := by
  have h2 := (hR.x.thr i hi).2
  unfold SCData2.opOf opOfCtl
  have : (s.th (w.ctlOf i).body).pc = (w.ctlOf i).pc := h2.2.1
  rw [this]

theorem fin_zero_of_op2 (hR : R2c w s) {i : Nat} (hi : i < w.ctl.length) {op : Op}
    (hop : opOfCtl w.prog (w.ctlOf i) = some op) : (w.ctlOf i).fin = 0 := by
  apply Classical.byContradiction
  intro hne
  have := hR.x.epi i hi hne
  rw [show w.ctl.getD i {} = w.ctlOf i from rfl] at this
  rw [this] at hop; cases hop

theorem alive_of_op2 (hR : R2c w s) {i : Nat} (hi : i < w.ctl.length) {op : Op}
    (hop : opOfCtl w.prog (w.ctlOf i) = some op) :
    (s.th (w.ctlOf i).body).started = true ∧ (s.th (w.ctlOf i).body).finished = false := by
  have h2 := (hR.x.thr i hi).2
  refine ⟨h2.1, ?_⟩
  have hf : (s.th (w.ctlOf i).body).finished = decide (10 ≤ (w.ctlOf i).fin) := h2.2.2.2.1
  rw [hf, fin_zero_of_op2 hR hi hop]; rfl

/-- outside stages 2, 3 of `cvWait` the reference thread is not inside a `cvWait` -/
theorem cv_none_of (hR : R2c w s) {i : Nat} (hi : i < w.ctl.length) (hcv : pendCv w.prog (w.ctlOf i) = none) :
    (s.th (w.ctlOf i).body).cvWaiting = none ∧ (s.th (w.ctlOf i).body).cvNotified = none :=
  (hR.o.cv.th i hi).1 hcv

/-- the guard of an operation in the reference state -/
def opGuard (s : SCData2) (t : Nat) : Op → Bool
  | .lock m => (s.mutex.getD m none).isNone
  | .join b => (s.th b).finished
  | .nWait n => s.nFlag.getD n false
  | .park => (s.th t).token
  | .recv q => !(s.chan.getD q []).isEmpty
  | _ => true

/-- `enabled` of a thread that is not inside a `cvWait` -/
theorem enabled_plain_eq (hR : R2c w s) {i : Nat} (hi : i < w.ctl.length) {op : Op}
    (hop : opOfCtl w.prog (w.ctlOf i) = some op) (hcv : pendCv w.prog (w.ctlOf i) = none) :
    SCData2.enabled w.prog s (w.ctlOf i).body = opGuard s (w.ctlOf i).body op := by
  obtain ⟨h1, h2⟩ := alive_of_op2 hR hi hop
  obtain ⟨c1, c2⟩ := cv_none_of hR hi hcv
  unfold SCData2.enabled
  rw [opOf_body2 hR hi, hop, h1, h2, c1, c2]
  cases op <;> rfl

theorem lock_disabled2 (hwf : WF2 w.prog) (hR : R2c w s) {i m l : Nat} (hi : i < w.ctl.length)
    (hop : opOfCtl w.prog (w.ctlOf i) = some (.lock m))
    (hv : objView2 w.exec.objs (mutexIdx w.prog m) = some (.mutex (some l))) :
    SCData2.enabled w.prog s (w.ctlOf i).body = false := by
  have hok := hwf.opOk (show (w.prog.threads.getD (w.ctlOf i).body [])[(w.ctlOf i).pc]? = _ from hop)
  simp only [Refine2.opOk, decide_eq_true_eq] at hok
  obtain ⟨l', hv', hmap, _⟩ := hR.o.y.mtx m hok
  rw [hv] at hv'; cases hv'
  rw [enabled_plain_eq hR hi hop (pendCv_of_op hop (by intro v m e; cases e))]
  simp only [opGuard, ← hmap]; rfl

theorem cvre_disabled2 (hwf : WF2 w.prog) (hR : R2c w s) {i v m l : Nat} (hi : i < w.ctl.length)
    (hop : opOfCtl w.prog (w.ctlOf i) = some (.cvWait v m)) (hst : 2 ≤ (w.ctlOf i).stage)
    (hv : objView2 w.exec.objs (mutexIdx w.prog m) = some (.mutex (some l))) :
    SCData2.enabled w.prog s (w.ctlOf i).body = false := by
  have hok := hwf.opOk (show (w.prog.threads.getD (w.ctlOf i).body [])[(w.ctlOf i).pc]? = _ from hop)
  simp only [Refine2.opOk, Bool.and_eq_true, decide_eq_true_eq] at hok
  obtain ⟨l', hv', hmap, _⟩ := hR.o.y.mtx m hok.2
  rw [hv] at hv'; cases hv'
  obtain ⟨ws, hws, _⟩ := hR.o.cv.q v hok.1
  have hp : pendCv w.prog (w.ctlOf i) = some (v, m) := pendCv_at hop hst
  obtain ⟨ha, hb⟩ := (hR.o.cv.th i hi).2 v m ws hp hok.1 hws
  obtain ⟨h1, h2⟩ := alive_of_op2 hR hi hop
  unfold SCData2.enabled
  by_cases hm : i ∈ ws
  · obtain ⟨c1, c2⟩ := ha hm
    have c1' : (s.th (w.ctlOf i).body).cvWaiting = some (v, m) := c1
    rw [h1, h2, c1']; rfl
  · obtain ⟨c1, c2⟩ := hb hm
    have c1' : (s.th (w.ctlOf i).body).cvWaiting = none := c1
    have c2' : (s.th (w.ctlOf i).body).cvNotified = some m := c2
    rw [h1, h2, c1', c2']
    simp only [← hmap]; rfl

theorem cvq_disabled2 (hwf : WF2 w.prog) (hR : R2c w s) {i v m : Nat} {ws : List Nat} (hi : i < w.ctl.length)
    (hop : opOfCtl w.prog (w.ctlOf i) = some (.cvWait v m)) (hst : 2 ≤ (w.ctlOf i).stage)
    (hv : objView2 w.exec.objs (cvIdx w.prog v) = some (.condvar ws)) (hm : i ∈ ws) :
    SCData2.enabled w.prog s (w.ctlOf i).body = false := by
  have hok := hwf.opOk (show (w.prog.threads.getD (w.ctlOf i).body [])[(w.ctlOf i).pc]? = _ from hop)
  simp only [Refine2.opOk, Bool.and_eq_true, decide_eq_true_eq] at hok
  have hp : pendCv w.prog (w.ctlOf i) = some (v, m) := pendCv_at hop hst
  obtain ⟨c1, c2⟩ := ((hR.o.cv.th i hi).2 v m ws hp hok.1 hv).1 hm
  have c1' : (s.th (w.ctlOf i).body).cvWaiting = some (v, m) := c1
  obtain ⟨h1, h2⟩ := alive_of_op2 hR hi hop
  unfold SCData2.enabled
  rw [h1, h2, c1']; rfl

theorem recv_disabled2 (hwf : WF2 w.prog) (hR : R2c w s) {i q : Nat} {qu : List Int} (hi : i < w.ctl.length)
    (hop : opOfCtl w.prog (w.ctlOf i) = some (.recv q))
    (hv : objView2 w.exec.objs (chanIdx w.prog q) = some (.chan 0 qu)) :
    SCData2.enabled w.prog s (w.ctlOf i).body = false := by
  have hop' : (w.prog.threads.getD (w.ctl.getD i {}).body [])[(w.ctl.getD i {}).pc]? = some (.recv q) := hop
  have hok := hwf.opOk hop'
  simp only [Refine2.opOk, decide_eq_true_eq] at hok
  obtain ⟨queue, hv', hdrop, hlive⟩ := hR.o.ch.q q hok
  rw [hv] at hv'
  simp only [Option.some.injEq, OV2.chan.injEq] at hv'
  have hq : queue = [] := List.eq_nil_of_length_eq_zero hv'.1.symm
  have hch : s.chan.getD q [] = [] := by
    cases hd : s.rxDropped.getD q false with
    | true => exact (hdrop hd).1
    | false =>
      obtain ⟨_, pre, hpre, hp⟩ := hlive hd
      have : pre = [] := by
        apply Classical.byContradiction
        intro hne
        obtain ⟨j, hj, hpd⟩ := hp hne
        unfold pendD at hpd
        split at hpd
        · next q' heq =>
          cases hpd
          have heq' : (w.prog.threads.getD (w.ctl.getD j {}).body [])[(w.ctl.getD j {}).pc]? =
            some (.dropRx q) := heq
          have e1 := hwf.rx_same_body heq' hop' rfl rfl
          have := hR.x.inj j i hj hi e1
          subst this
          rw [hop'] at heq'; cases heq'
        · cases hpd
      rw [hpre, this, hq]; rfl
  rw [enabled_plain_eq hR hi hop (pendCv_of_op hop (by intro v m e; cases e))]
  simp only [opGuard, hch]; rfl

theorem nwait_disabled2 (hwf : WF2 w.prog) (hR : R2c w s) {i n : Nat} {a d : Bool} (hi : i < w.ctl.length)
    (hop : opOfCtl w.prog (w.ctlOf i) = some (.nWait n))
    (hv : objView2 w.exec.objs (notifyIdx w.prog n) = some (.notify a false d)) :
    SCData2.enabled w.prog s (w.ctlOf i).body = false := by
  have hok := hwf.opOk (show (w.prog.threads.getD (w.ctlOf i).body [])[(w.ctlOf i).pc]? = _ from hop)
  simp only [Refine2.opOk, decide_eq_true_eq] at hok
  obtain ⟨ds, hv', _⟩ := hR.o.n.n n hok
  rw [hv] at hv'
  simp only [Option.some.injEq, OV2.notify.injEq] at hv'
  rw [enabled_plain_eq hR hi hop (pendCv_of_op hop (by intro v m e; cases e))]
  simp only [opGuard, ← hv'.2.1]

theorem join_disabled2 (hwf : WFD w.prog) (hR : R2c w s) (hJ : JB2 w) {i b t n : Nat} {a d : Bool}
    (hi : i < w.ctl.length) (hop : opOfCtl w.prog (w.ctlOf i) = some (.join b)) (hm : (b, t, n) ∈ w.spawned)
    (hv : objView2 w.exec.objs n = some (.notify a false d)) :
    SCData2.enabled w.prog s (w.ctlOf i).body = false := by
  obtain ⟨ht, hb, _⟩ := hR.o.y.sp b t n hm
  have hfin : (s.th b).finished = decide (10 ≤ (w.ctlOf t).fin) := by
    have := (hR.x.thr t ht).2.2.2.2.1
    rw [← hb]; exact this
  have hlt : (w.ctlOf t).fin < 10 := by
    apply Classical.byContradiction
    intro hge
    rcases hJ.jnd b t n hm (by omega) with ⟨a', d', hv'⟩ | ⟨j, k, hj, hk, hop'⟩
    · rw [hv] at hv'; cases hv'
    · obtain ⟨e1, e2⟩ := hwf.join_unique hop'
        (show (w.prog.threads.getD (w.ctlOf i).body [])[(w.ctlOf i).pc]? = _ from hop)
      have := hR.x.inj j i hj hi e1
      subst this
      omega
  rw [enabled_plain_eq hR hi hop (pendCv_of_op hop (by intro v m e; cases e))]
  simp only [opGuard, hfin]
  simp; omega

theorem park_disabled2 (hR : R2 w s) {i : Nat} (hi : i < w.ctl.length)
    (hop : opOfCtl w.prog (w.ctlOf i) = some .park) (htok : (w.ths.get i).token = false)
    (hpk : (w.ctlOf i).stage = 0 ∨ (w.ths.get i).parked = true) :
    SCData2.enabled w.prog s (w.ctlOf i).body = false := by
  have hf0 := fin_zero_of_op2 hR.c hi hop
  have htk := hR.p.tok i hi (by omega)
  have htok' : (w.exec.threads.get i).token = false := htok
  rw [enabled_plain_eq hR.c hi hop (pendCv_of_op hop (by intro v m e; cases e))]
  simp only [opGuard]
  rw [htk, htok']
  rcases hpk with h0 | hp
  · rw [parkedAt_false_of_stage h0]; rfl
  · have hp' : (w.exec.threads.get i).parked = true := hp
    rw [hp']; simp

/-- **blocked means disabled**: a loom thread in state `blocked` is, in the reference state, a started thread that
has not finished and is NOT enabled -/
theorem blocked_disabled2 (hwf : WFD w.prog) (hRB : RB2 w s) {i : Nat} (hi : i < w.ctl.length)
    (hb : (w.ths.get i).state = .blocked) :
    SCData2.enabled w.prog s (w.ctlOf i).body = false ∧
    (s.th (w.ctlOf i).body).started = true ∧ (s.th (w.ctlOf i).body).finished = false := by
  have hR := hRB.r.c
  cases (hRB.j.thr i hi).blk hb with
  | lock m l a b x d => exact ⟨lock_disabled2 hwf.1 hR hi a d, alive_of_op2 hR hi a⟩
  | cvRe v m l a b x d => exact ⟨cvre_disabled2 hwf.1 hR hi a (by omega) d, alive_of_op2 hR hi a⟩
  | recv q bl qu a b x d => exact ⟨recv_disabled2 hwf.1 hR hi a d, alive_of_op2 hR hi a⟩
  | nWait n bl a' d' a b x d => exact ⟨nwait_disabled2 hwf.1 hR hi a d, alive_of_op2 hR hi a⟩
  | join b t n bl a' d' a b' m x d => exact ⟨join_disabled2 hwf hR hRB.j hi a m d, alive_of_op2 hR hi a⟩
  | park a b x y z => exact ⟨park_disabled2 hRB.r hi a z (.inr y), alive_of_op2 hR hi a⟩
  | cvQ v m ws a b x y d e => exact ⟨cvq_disabled2 hwf.1 hR hi a (by omega) d e, alive_of_op2 hR hi a⟩

theorem finished_disabled2 (hR : R2c w s) {i : Nat} (hi : i < w.ctl.length) (h10 : 10 ≤ (w.ctlOf i).fin) :
    SCData2.enabled w.prog s (w.ctlOf i).body = false := by
  have hf : (s.th (w.ctlOf i).body).finished = decide (10 ≤ (w.ctlOf i).fin) := (hR.x.thr i hi).2.2.2.2.1
  unfold SCData2.enabled
  rw [hf]
  have : decide (10 ≤ (w.ctlOf i).fin) = true := by simpa using h10
  rw [this]; simp

/-- a thread that is neither runnable nor yielded is not enabled; unless terminated it is started and unfinished -/
theorem stuck_disabled2 (hwf : WFD w.prog) (hRB : RB2 w s) {i : Nat} (hi : i < w.ctl.length)
    (hnr : (w.ths.get i).state ≠ .runnable) (hny : (w.ths.get i).state ≠ .yield) :
    SCData2.enabled w.prog s (w.ctlOf i).body = false ∧
    ((w.ths.get i).state ≠ .terminated →
      (s.th (w.ctlOf i).body).started = true ∧ (s.th (w.ctlOf i).body).finished = false) := by
  cases hst : (w.ths.get i).state with
  | runnable => exact absurd hst hnr
  | yield => exact absurd hst hny
  | terminated =>
    refine ⟨finished_disabled2 hRB.r.c hi ?_, fun hne => absurd rfl hne⟩
    rw [(hRB.j.thr i hi).term hst]; decide
  | blocked =>
    obtain ⟨h1, h2, h3⟩ := blocked_disabled2 hwf hRB hi hst
    exact ⟨h1, fun _ => ⟨h2, h3⟩⟩

/-- no thread enabled, as soon as no body run by a loom thread is -/
theorem none_enabled2 {p : Prog} {ctl : List TCtl} {ths : List DTh2} {d : SCData2} (hx : RX2 p ctl ths)
    (hd : d.ths = ths)
    (h : ∀ i, i < ctl.length → SCData2.enabled p d (ctl.getD i {}).body = false) :
    ∀ t, SCData2.enabled p d t = false := by
  intro t
  by_cases hex : ∃ i, i < ctl.length ∧ (ctl.getD i {}).body = t
  · obtain ⟨i, hi, rfl⟩ := hex
    exact h i hi
  · have hdef : d.th t = {} := by
      unfold SCData2.th
      rw [hd]
      by_cases ht : t < p.threads.length
      · exact hx.idle t ht (fun i hi e => hex ⟨i, hi, e⟩)
      · have : ths[t]? = none := List.getElem?_eq_none (by rw [hx.len]; omega)
        simp [List.getD, this]
    unfold SCData2.enabled
    rw [hdef]; rfl

/-- **the deadlock test of a scheduling point, in the reference state**: the scheduling point is taken from a
world `wb` with the thread table of `w` (its path may have moved by the decision about a spurious return).  If,
the active thread's entry rewritten by `F`, no thread is runnable or yielded and some thread is not terminated,
and the rewritten entry of the active thread (when its state has changed) stands for a disabled reference thread,
alive unless terminated, then the reference state is deadlocked -/
theorem dead_of_schedOn2 (hwf : WFD w.prog) (hRB : RB2 w s) (hact : w.tid < w.ctl.length) {wb : World}
    (hth : wb.exec.threads = w.exec.threads) (hpath : ReplayOK wb.exec.path) {F : Thread → Thread}
    (hs : schedOn wb F = .error .deadlock)
    (hF : (F (w.ths.get w.tid)).state ≠ .runnable → (F (w.ths.get w.tid)).state ≠ .yield →
      (F (w.ths.get w.tid)).state ≠ (w.ths.get w.tid).state →
      SCData2.enabled w.prog s (w.ctlOf w.tid).body = false ∧
      ((F (w.ths.get w.tid)).state ≠ .terminated →
        (s.th (w.ctlOf w.tid).body).started = true ∧ (s.th (w.ctlOf w.tid).body).finished = false)) :
    Dead2 w.prog s := by
  have hR := hRB.r.c
  have hin : w.tid < w.exec.threads.threads.length := by rw [← hR.lenCtl]; exact hact
  have htid : wb.tid = w.tid := by show wb.exec.threads.activeId = _; rw [hth]; rfl
  have hent : ∀ i, entryOn wb F i = entryOn w F i := by
    intro i; unfold entryOn; rw [htid]; show (if _ then F (wb.exec.threads.get i) else wb.exec.threads.get i) = _
    rw [hth]; rfl
  obtain ⟨hno, i0, hi0, hnt⟩ := schedOn_deadlock2 hs hpath (by rw [htid, hth]; exact hin)
  rw [hth] at hno hi0
  have key : ∀ i, i < w.ctl.length →
      SCData2.enabled w.prog s (w.ctlOf i).body = false ∧
      ((entryOn w F i).state ≠ .terminated →
        (s.th (w.ctlOf i).body).started = true ∧ (s.th (w.ctlOf i).body).finished = false) := by
    intro i hi
    obtain ⟨hnr, hny⟩ := hno i (by rw [← hR.lenCtl]; exact hi)
    rw [hent] at hnr hny
    by_cases e : i = w.tid
    · subst e
      have hE : entryOn w F w.tid = F (w.ths.get w.tid) := by unfold entryOn; rw [if_pos rfl]
      rw [hE] at hnr hny ⊢
      by_cases hsame : (F (w.ths.get w.tid)).state = (w.ths.get w.tid).state
      · rw [hsame] at hnr hny ⊢
        exact stuck_disabled2 hwf hRB hi hnr hny
      · exact hF hnr hny hsame
    · have hE : entryOn w F i = w.ths.get i := by unfold entryOn; rw [if_neg e]
      rw [hE] at hnr hny ⊢
      exact stuck_disabled2 hwf hRB hi hnr hny
  refine ⟨none_enabled2 hR.x rfl (fun i hi => (key i hi).1), ?_⟩
  have hi0' : i0 < w.ctl.length := by rw [hR.lenCtl]; exact hi0
  rw [hent] at hnt
  exact ⟨_, (key i0 hi0').2 hnt⟩

end

end Deadlock2
end LoomVerif

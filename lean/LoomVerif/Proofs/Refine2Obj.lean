/-
Refinement, WAIT fragment, part 3: the object parts of the abstraction relation and how they are transported
along the elementary changes of either side.

* `RY2`: cells, mutex owners, `JoinHandle` notifies (as in the lock fragment);
* `RCh`: channel queues and counts (`St.chan`, `rxDropped`, `chanLeft` ↔ `ChanSt.queue`, `msgCnt`);
* `RN` : `Notify` flags (`nFlag`, `nSpurUsed` ↔ `NotifySt.notified`, `didSpur`; `World.notifyWaiting`);
* `RCv`: condvar waiter lists (`cvQueue`, `Th.cvWaiting`, `Th.cvNotified` ↔ `CondvarSt.waiters`, the stage of
  the waiting thread).
-/
import LoomVerif.Proofs.Refine2Rel

namespace LoomVerif
namespace Refine2
open Refine Sy

/-! ### object indices -/

def cellIdx (p : Prog) (c : Nat) : Nat := p.cfg.nAtomics + c
def mutexIdx (p : Prog) (m : Nat) : Nat := p.cfg.nAtomics + p.cfg.nCells + m
def cvIdx (p : Prog) (v : Nat) : Nat := p.cfg.nAtomics + p.cfg.nCells + p.cfg.nMutexes + p.cfg.nRwlocks + v
def notifyIdx (p : Prog) (n : Nat) : Nat := cvIdx p p.cfg.nCondvars + n
def chanIdx (p : Prog) (q : Nat) : Nat := notifyIdx p p.cfg.nNotifies + q

theorem cellObj_eq (w : World) (c : Nat) : w.cellObj c = cellIdx w.prog c := rfl
theorem mutexObj_eq (w : World) (m : Nat) : w.mutexObj m = mutexIdx w.prog m := rfl
theorem cvObj_eq (w : World) (v : Nat) : w.cvObj v = cvIdx w.prog v := rfl
theorem notifyObj_eq (w : World) (n : Nat) : w.notifyObj n = notifyIdx w.prog n := rfl
theorem chanObj_eq (w : World) (q : Nat) : w.chanObj q = chanIdx w.prog q := rfl

/-- a view that stays when another object (whose view `v0` is different) is replaced -/
theorem objView2_set_keep {os : List Obj} {o idx : Nat} {v0 v : OV2} (x : Obj)
    (hv0 : objView2 os o = some v0) (h : objView2 os idx = some v) (hne : v ≠ v0) :
    objView2 (os.set o x) idx = some v := by
  have : idx ≠ o := by
    intro e
    rw [e, hv0] at h
    cases h
    exact hne rfl
  rw [objView2_set_ne _ _ this]; exact h

/-! ### what a thread is in the middle of -/

/-- inside `nWait n`, past its first stage: `(n, stage)` -/
def pendN (p : Prog) (c : TCtl) : Option (Nat × Nat) :=
  match opOfCtl p c with
  | some (.nWait n) => if c.stage = 0 then none else some (n, c.stage)
  | _ => none

/-- inside `cvWait v m`, queued or notified (stages 2, 3): `(v, m)` -/
def pendCv (p : Prog) (c : TCtl) : Option (Nat × Nat) :=
  match opOfCtl p c with
  | some (.cvWait v m) => if 2 ≤ c.stage then some (v, m) else none
  | _ => none

/-- at `dropRx q` (any stage: the twin drains the channel message by message) -/
def pendD (p : Prog) (c : TCtl) : Option Nat :=
  match opOfCtl p c with
  | some (.dropRx q) => some q
  | _ => none

/-! ### cells, mutexes, join handles -/

structure RY2 (p : Prog) (ctl : List TCtl) (spawned : List (Nat × Nat × Nat)) (objs : List Obj)
    (cells : List Int) (mutex : List (Option Nat)) : Prop where
  lenC : cells.length = p.cfg.nCells
  lenM : mutex.length = p.cfg.nMutexes
  cell : ∀ c, c < p.cfg.nCells → objView2 objs (cellIdx p c) = some (.cell (cells.getD c 0))
  mtx : ∀ m, m < p.cfg.nMutexes → ∃ l, objView2 objs (mutexIdx p m) = some (.mutex l) ∧
    l.map (fun i => (ctl.getD i {}).body) = mutex.getD m none ∧ ∀ i, l = some i → i < ctl.length
  sp : ∀ b i n, (b, i, n) ∈ spawned → i < ctl.length ∧ (ctl.getD i {}).body = b ∧
    ∃ nt ds, objView2 objs n = some (.notify false nt ds) ∧ (nt = true → 10 ≤ (ctl.getD i {}).fin)
  spn : ∀ e1 e2, e1 ∈ spawned → e2 ∈ spawned → e1.2.2 = e2.2.2 → e1.2.1 = e2.2.1

theorem RY2.viewLe {p ctl sp objs objs' cells mutex} (h : RY2 p ctl sp objs cells mutex)
    (hv : ViewLe2 objs objs') : RY2 p ctl sp objs' cells mutex := by
  refine ⟨h.lenC, h.lenM, fun c hc => hv _ _ (h.cell c hc), ?_, ?_, h.spn⟩
  · intro m hm
    obtain ⟨l, h1, h2, h3⟩ := h.mtx m hm
    exact ⟨l, hv _ _ h1, h2, h3⟩
  · intro b i n hmem
    obtain ⟨h1, h2, nt, ds, h3, h4⟩ := h.sp b i n hmem
    exact ⟨h1, h2, nt, ds, hv _ _ h3, h4⟩

/-- an object that is neither a cell, a mutex nor a `JoinHandle` notify is replaced -/
theorem RY2.setOther {p ctl sp objs cells mutex} (h : RY2 p ctl sp objs cells mutex) {o : Nat} {v0 : OV2}
    (hv0 : objView2 objs o = some v0) (x : Obj)
    (k1 : ∀ v, v0 ≠ .cell v) (k2 : ∀ l, v0 ≠ .mutex l) (k3 : ∀ a b, v0 ≠ .notify false a b) :
    RY2 p ctl sp (objs.set o x) cells mutex := by
  refine ⟨h.lenC, h.lenM, fun c hc => objView2_set_keep x hv0 (h.cell c hc) (fun e => k1 _ e.symm), ?_, ?_, h.spn⟩
  · intro m hm
    obtain ⟨l, h1, h2, h3⟩ := h.mtx m hm
    exact ⟨l, objView2_set_keep x hv0 h1 (fun e => k2 _ e.symm), h2, h3⟩
  · intro b i n hmem
    obtain ⟨h1, h2, nt, ds, h3, h4⟩ := h.sp b i n hmem
    exact ⟨h1, h2, nt, ds, objView2_set_keep x hv0 h3 (fun e => k3 _ _ e.symm), h4⟩

/-- the control table changes at `t`: same body, the tail of the epilogue is not left -/
theorem RY2.modify {p ctl sp objs cells mutex} (h : RY2 p ctl sp objs cells mutex) (t : Nat) (f : TCtl → TCtl)
    (hbody : (f (ctl.getD t {})).body = (ctl.getD t {}).body)
    (hfin : 10 ≤ (ctl.getD t {}).fin → 10 ≤ (f (ctl.getD t {})).fin) :
    RY2 p (ctl.modify t f) sp objs cells mutex := by
  have body_eq : ∀ i, i < ctl.length → ((ctl.modify t f).getD i {}).body = (ctl.getD i {}).body := by
    intro i hi
    by_cases hit : i = t
    · subst hit; rw [getD_modify_self _ _ _ _ hi]; exact hbody
    · rw [getD_modify_ne _ _ _ _ _ hit]
  refine ⟨h.lenC, h.lenM, h.cell, ?_, ?_, h.spn⟩
  · intro m hm
    obtain ⟨l, h1, h2, h3⟩ := h.mtx m hm
    refine ⟨l, h1, ?_, fun i hi => by simpa using h3 i hi⟩
    cases l with
    | none => exact h2
    | some i =>
      simp only [Option.map_some] at h2 ⊢
      rw [body_eq i (h3 i rfl)]; exact h2
  · intro b i n hmem
    obtain ⟨h1, h2, nt, ds, h3, h4⟩ := h.sp b i n hmem
    refine ⟨by simpa using h1, by rw [body_eq i h1]; exact h2, nt, ds, h3, fun e => ?_⟩
    by_cases hit : i = t
    · subst hit; rw [getD_modify_self _ _ _ _ h1]; exact hfin (h4 e)
    · rw [getD_modify_ne _ _ _ _ _ hit]; exact h4 e

theorem RY2.append {p ctl sp objs cells mutex} (h : RY2 p ctl sp objs cells mutex) (x : List TCtl) :
    RY2 p (ctl ++ x) sp objs cells mutex := by
  refine ⟨h.lenC, h.lenM, h.cell, ?_, ?_, h.spn⟩
  · intro m hm
    obtain ⟨l, h1, h2, h3⟩ := h.mtx m hm
    refine ⟨l, h1, ?_, fun i hi => by have := h3 i hi; simp; omega⟩
    cases l with
    | none => exact h2
    | some i =>
      simp only [Option.map_some] at h2 ⊢
      rw [getD_append_left _ _ _ _ (h3 i rfl)]; exact h2
  · intro b i n hmem
    obtain ⟨h1, h2, nt, ds, h3, h4⟩ := h.sp b i n hmem
    refine ⟨by simp; omega, by rw [getD_append_left _ _ _ _ h1]; exact h2, nt, ds, h3, fun e => ?_⟩
    rw [getD_append_left _ _ _ _ h1]; exact h4 e

theorem RY2.setCell {p ctl sp objs cells mutex} (h : RY2 p ctl sp objs cells mutex) {c : Nat}
    (hc : c < p.cfg.nCells) (x : Obj) (v : Int) (hx : view2 x = .cell v) :
    RY2 p ctl sp (objs.set (cellIdx p c) x) (cells.set c v) mutex := by
  have hv0 := h.cell c hc
  have hlt : cellIdx p c < objs.length := objView2_lt hv0
  refine ⟨by simpa using h.lenC, h.lenM, ?_, ?_, ?_, h.spn⟩
  · intro c' hc'
    by_cases e : c' = c
    · subst e
      rw [objView2_set_self _ hlt, hx, getD_set_self' _ _ _ _ (by rw [h.lenC]; exact hc')]
    · rw [objView2_set_ne _ _ (by unfold cellIdx; omega), getD_set_ne _ _ _ _ _ e]
      exact h.cell c' hc'
  · intro m hm
    obtain ⟨l, h1, h2, h3⟩ := h.mtx m hm
    exact ⟨l, objView2_set_keep x hv0 h1 (by intro e; cases e), h2, h3⟩
  · intro b i n hmem
    obtain ⟨h1, h2, nt, ds, h3, h4⟩ := h.sp b i n hmem
    exact ⟨h1, h2, nt, ds, objView2_set_keep x hv0 h3 (by intro e; cases e), h4⟩

theorem RY2.setMutex {p ctl sp objs cells mutex} (h : RY2 p ctl sp objs cells mutex) {m : Nat}
    (hm : m < p.cfg.nMutexes) (x : Obj) (l : Option Nat) (hx : view2 x = .mutex l)
    (hl : ∀ i, l = some i → i < ctl.length) :
    RY2 p ctl sp (objs.set (mutexIdx p m) x) cells (mutex.set m (l.map fun i => (ctl.getD i {}).body)) := by
  obtain ⟨l0, hl0, _, _⟩ := h.mtx m hm
  have hlt : mutexIdx p m < objs.length := objView2_lt hl0
  refine ⟨h.lenC, by simpa using h.lenM, ?_, ?_, ?_, h.spn⟩
  · intro c hc
    exact objView2_set_keep x hl0 (h.cell c hc) (by intro e; cases e)
  · intro m' hm'
    by_cases e : m' = m
    · subst e
      refine ⟨l, ?_, ?_, hl⟩
      · rw [objView2_set_self _ hlt, hx]
      · rw [getD_set_self' _ _ _ _ (by rw [h.lenM]; exact hm')]
    · obtain ⟨l', h1, h2, h3⟩ := h.mtx m' hm'
      refine ⟨l', ?_, ?_, h3⟩
      · rw [objView2_set_ne _ _ (by unfold mutexIdx; omega)]; exact h1
      · rw [getD_set_ne _ _ _ _ _ e]; exact h2
  · intro b i n hmem
    obtain ⟨h1, h2, nt, ds, h3, h4⟩ := h.sp b i n hmem
    exact ⟨h1, h2, nt, ds, objView2_set_keep x hl0 h3 (by intro e; cases e), h4⟩

/-- the `JoinHandle` notify `o` changes its flag to `nt'` -/
theorem RY2.setNotify {p ctl sp objs cells mutex} (h : RY2 p ctl sp objs cells mutex) {o : Nat} {nt0 ds0 : Bool}
    (ho : objView2 objs o = some (.notify false nt0 ds0)) (x : Obj) (nt' ds' : Bool)
    (hx : view2 x = .notify false nt' ds')
    (hfin : nt' = true → ∀ b i, (b, i, o) ∈ sp → 10 ≤ (ctl.getD i {}).fin) :
    RY2 p ctl sp (objs.set o x) cells mutex := by
  have hlt : o < objs.length := objView2_lt ho
  refine ⟨h.lenC, h.lenM, ?_, ?_, ?_, h.spn⟩
  · intro c hc
    exact objView2_set_keep x ho (h.cell c hc) (by intro e; cases e)
  · intro m hm
    obtain ⟨l, h1, h2, h3⟩ := h.mtx m hm
    exact ⟨l, objView2_set_keep x ho h1 (by intro e; cases e), h2, h3⟩
  · intro b i n hmem
    obtain ⟨h1, h2, nt, ds, h3, h4⟩ := h.sp b i n hmem
    by_cases e : n = o
    · subst e
      exact ⟨h1, h2, nt', ds', by rw [objView2_set_self _ hlt, hx], fun e' => hfin e' b i hmem⟩
    · exact ⟨h1, h2, nt, ds, by rw [objView2_set_ne _ _ e]; exact h3, h4⟩

theorem RY2.spawn {p ctl sp objs cells mutex} (h : RY2 p ctl sp objs cells mutex) (b : Nat) (c : TCtl)
    (hc : c.body = b) (x : Obj) (hx : view2 x = .notify false false false) :
    RY2 p (ctl ++ [c]) ((b, ctl.length, objs.length) :: sp) (objs ++ [x]) cells mutex := by
  have h1 := (h.append [c]).viewLe (ViewLe2.append objs [x])
  refine ⟨h1.lenC, h1.lenM, h1.cell, h1.mtx, ?_, ?_⟩
  · intro b' i n hmem
    rcases List.mem_cons.1 hmem with e | hmem
    · cases e
      refine ⟨by simp, by rw [getD_append_new]; exact hc, false, false, ?_, fun e => by cases e⟩
      simp [objView2, hx]
    · exact h1.sp b' i n hmem
  · intro e1 e2 h1' h2' e
    rcases List.mem_cons.1 h1' with a1 | a1 <;> rcases List.mem_cons.1 h2' with a2 | a2
    · rw [a1, a2]
    · exfalso
      obtain ⟨b2, i2, n2⟩ := e2
      obtain ⟨_, _, nt, ds, hv, _⟩ := h.sp b2 i2 n2 a2
      have := objView2_lt hv
      rw [a1] at e; simp only at e; omega
    · exfalso
      obtain ⟨b1, i1, n1⟩ := e1
      obtain ⟨_, _, nt, ds, hv, _⟩ := h.sp b1 i1 n1 a1
      have := objView2_lt hv
      rw [a2] at e; simp only at e; omega
    · exact h.spn e1 e2 a1 a2 e

/-! ### channels -/

/-- channel `q` of the DSL is object `chanIdx p q`; `msgCnt` is the length of the queue of the wrapped std channel.
While the receiver is alive the reference queue is the twin's queue, except that a `dropRx` in progress has
already drained a prefix `pre` (the reference drops the receiver and the queue in one step, when the twin's
`dropRx` completes).  After the receiver is dropped the reference counts the messages sent (`chanLeft`), the
twin keeps them. -/
structure RCh (p : Prog) (ctl : List TCtl) (objs : List Obj) (chan : List (List Int)) (rxDropped : List Bool)
    (chanLeft : List Nat) : Prop where
  lenC : chan.length = p.cfg.nChans
  lenD : rxDropped.length = p.cfg.nChans
  lenL : chanLeft.length = p.cfg.nChans
  q : ∀ q, q < p.cfg.nChans → ∃ queue : List Int,
    objView2 objs (chanIdx p q) = some (.chan queue.length queue) ∧
    (rxDropped.getD q false = true → chan.getD q [] = [] ∧ queue.length = chanLeft.getD q 0 ∧
      ∃ i k, i < ctl.length ∧ k < (ctl.getD i {}).pc ∧
        (p.threads.getD (ctl.getD i {}).body [])[k]? = some (.dropRx q)) ∧
    (rxDropped.getD q false = false → chanLeft.getD q 0 = 0 ∧ ∃ pre, chan.getD q [] = pre ++ queue ∧
      (pre ≠ [] → ∃ i, i < ctl.length ∧ pendD p (ctl.getD i {}) = some q))

theorem RCh.viewLe {p ctl objs objs' chan rx cl} (h : RCh p ctl objs chan rx cl) (hv : ViewLe2 objs objs') :
    RCh p ctl objs' chan rx cl := by
  refine ⟨h.lenC, h.lenD, h.lenL, fun q hq => ?_⟩
  obtain ⟨queue, h1, h2, h3⟩ := h.q q hq
  exact ⟨queue, hv _ _ h1, h2, h3⟩

theorem RCh.setOther {p ctl objs chan rx cl} (h : RCh p ctl objs chan rx cl) {o : Nat} {v0 : OV2}
    (hv0 : objView2 objs o = some v0) (x : Obj) (k : ∀ c q, v0 ≠ .chan c q) :
    RCh p ctl (objs.set o x) chan rx cl := by
  refine ⟨h.lenC, h.lenD, h.lenL, fun q hq => ?_⟩
  obtain ⟨queue, h1, h2, h3⟩ := h.q q hq
  exact ⟨queue, objView2_set_keep x hv0 h1 (fun e => k _ _ e.symm), h2, h3⟩

theorem RCh.modify {p ctl objs chan rx cl} (h : RCh p ctl objs chan rx cl) (t : Nat) (f : TCtl → TCtl)
    (hbody : (f (ctl.getD t {})).body = (ctl.getD t {}).body)
    (hpc : (ctl.getD t {}).pc ≤ (f (ctl.getD t {})).pc)
    (hd : ∀ q, pendD p (ctl.getD t {}) = some q → pendD p (f (ctl.getD t {})) = some q) :
    RCh p (ctl.modify t f) objs chan rx cl := by
  refine ⟨h.lenC, h.lenD, h.lenL, fun q hq => ?_⟩
  obtain ⟨queue, h1, h2, h3⟩ := h.q q hq
  refine ⟨queue, h1, ?_, ?_⟩
  · intro e
    obtain ⟨a1, a2, i, k, hi, hk, hop⟩ := h2 e
    refine ⟨a1, a2, i, k, by simpa using hi, ?_, ?_⟩
    · by_cases hit : i = t
      · subst hit; rw [getD_modify_self _ _ _ _ hi]; omega
      · rw [getD_modify_ne _ _ _ _ _ hit]; exact hk
    · by_cases hit : i = t
      · subst hit; rw [getD_modify_self _ _ _ _ hi, hbody]; exact hop
      · rw [getD_modify_ne _ _ _ _ _ hit]; exact hop
  · intro e
    obtain ⟨a1, pre, a2, a3⟩ := h3 e
    refine ⟨a1, pre, a2, fun hne => ?_⟩
    obtain ⟨i, hi, hp⟩ := a3 hne
    refine ⟨i, by simpa using hi, ?_⟩
    by_cases hit : i = t
    · subst hit; rw [getD_modify_self _ _ _ _ hi]; exact hd q hp
    · rw [getD_modify_ne _ _ _ _ _ hit]; exact hp

theorem RCh.append {p ctl objs chan rx cl} (h : RCh p ctl objs chan rx cl) (x : List TCtl) :
    RCh p (ctl ++ x) objs chan rx cl := by
  refine ⟨h.lenC, h.lenD, h.lenL, fun q hq => ?_⟩
  obtain ⟨queue, h1, h2, h3⟩ := h.q q hq
  refine ⟨queue, h1, ?_, ?_⟩
  · intro e
    obtain ⟨a1, a2, i, k, hi, hk, hop⟩ := h2 e
    refine ⟨a1, a2, i, k, by simp; omega, ?_, ?_⟩
    · rw [getD_append_left _ _ _ _ hi]; exact hk
    · rw [getD_append_left _ _ _ _ hi]; exact hop
  · intro e
    obtain ⟨a1, pre, a2, a3⟩ := h3 e
    refine ⟨a1, pre, a2, fun hne => ?_⟩
    obtain ⟨i, hi, hp⟩ := a3 hne
    exact ⟨i, by simp; omega, by rw [getD_append_left _ _ _ _ hi]; exact hp⟩

/-- channel `q` changes on both sides; the other channels are untouched -/
theorem RCh.setChan {p ctl objs chan rx cl} (h : RCh p ctl objs chan rx cl) {q : Nat} (hq : q < p.cfg.nChans)
    (x : Obj) (queue' : List Int) (hx : view2 x = .chan queue'.length queue')
    (chq : List Int) (rxq : Bool) (clq : Nat)
    (h2 : rxq = true → chq = [] ∧ queue'.length = clq ∧
      ∃ i k, i < ctl.length ∧ k < (ctl.getD i {}).pc ∧
        (p.threads.getD (ctl.getD i {}).body [])[k]? = some (.dropRx q))
    (h3 : rxq = false → clq = 0 ∧ ∃ pre, chq = pre ++ queue' ∧
      (pre ≠ [] → ∃ i, i < ctl.length ∧ pendD p (ctl.getD i {}) = some q)) :
    RCh p ctl (objs.set (chanIdx p q) x) (chan.set q chq) (rx.set q rxq) (cl.set q clq) := by
  obtain ⟨queue0, hv0, _, _⟩ := h.q q hq
  have hlt : chanIdx p q < objs.length := objView2_lt hv0
  refine ⟨by simpa using h.lenC, by simpa using h.lenD, by simpa using h.lenL, fun q' hq' => ?_⟩
  by_cases e : q' = q
  · subst e
    have lD : q' < rx.length := by rw [h.lenD]; exact hq'
    have lC : q' < chan.length := by rw [h.lenC]; exact hq'
    have lL : q' < cl.length := by rw [h.lenL]; exact hq'
    refine ⟨queue', by rw [objView2_set_self _ hlt, hx], ?_, ?_⟩
    · rw [getD_set_self' _ _ _ _ lD, getD_set_self' _ _ _ _ lC, getD_set_self' _ _ _ _ lL]
      exact h2
    · rw [getD_set_self' _ _ _ _ lD, getD_set_self' _ _ _ _ lC, getD_set_self' _ _ _ _ lL]
      exact h3
  · obtain ⟨queue, a1, a2, a3⟩ := h.q q' hq'
    refine ⟨queue, by rw [objView2_set_ne _ _ (by unfold chanIdx; omega)]; exact a1, ?_, ?_⟩
    · rw [getD_set_ne _ _ _ _ _ e, getD_set_ne _ _ _ _ _ e, getD_set_ne _ _ _ _ _ e]; exact a2
    · rw [getD_set_ne _ _ _ _ _ e, getD_set_ne _ _ _ _ _ e, getD_set_ne _ _ _ _ _ e]; exact a3

/-! ### notifies -/

/-- `Notify` `n` of the DSL is object `notifyIdx p n`, created with `spurious := true`.  `notified` is the
reference flag.  The twin decides the spurious return in the first stage of `nWait` (`didSpur := true`, stage 2)
and returns in the next one; the reference takes its `spurious` step when the twin returns: in between `didSpur`
is ahead of `nSpurUsed`.  `World.notifyWaiting` is set while a thread is past the first stage of `nWait n`, and
there is at most one such thread (the twin panics otherwise). -/
structure RN (p : Prog) (ctl : List TCtl) (objs : List Obj) (nw : List Bool) (nFlag nSpurUsed : List Bool) :
    Prop where
  lenF : nFlag.length = p.cfg.nNotifies
  lenS : nSpurUsed.length = p.cfg.nNotifies
  lenW : nw.length = p.cfg.nNotifies
  n : ∀ n, n < p.cfg.nNotifies → ∃ ds : Bool,
    objView2 objs (notifyIdx p n) = some (.notify true (nFlag.getD n false) ds) ∧
    (∀ i st, i < ctl.length → pendN p (ctl.getD i {}) = some (n, st) → nw.getD n false = true) ∧
    (∀ i j st st', i < ctl.length → j < ctl.length → pendN p (ctl.getD i {}) = some (n, st) →
      pendN p (ctl.getD j {}) = some (n, st') → i = j) ∧
    (∀ i, i < ctl.length → pendN p (ctl.getD i {}) = some (n, 2) → ds = true ∧ nSpurUsed.getD n true = false) ∧
    ((∀ i, i < ctl.length → pendN p (ctl.getD i {}) ≠ some (n, 2)) → ds = nSpurUsed.getD n true)

theorem RN.viewLe {p ctl objs objs' nw nf ns} (h : RN p ctl objs nw nf ns) (hv : ViewLe2 objs objs') :
    RN p ctl objs' nw nf ns := by
  refine ⟨h.lenF, h.lenS, h.lenW, fun n hn => ?_⟩
  obtain ⟨ds, h1, h2⟩ := h.n n hn
  exact ⟨ds, hv _ _ h1, h2⟩

theorem RN.setOther {p ctl objs nw nf ns} (h : RN p ctl objs nw nf ns) {o : Nat} {v0 : OV2}
    (hv0 : objView2 objs o = some v0) (x : Obj) (k : ∀ a b, v0 ≠ .notify true a b) :
    RN p ctl (objs.set o x) nw nf ns := by
  refine ⟨h.lenF, h.lenS, h.lenW, fun n hn => ?_⟩
  obtain ⟨ds, h1, h2⟩ := h.n n hn
  exact ⟨ds, objView2_set_keep x hv0 h1 (fun e => k _ _ e.symm), h2⟩

theorem RN.modify {p ctl objs nw nf ns} (h : RN p ctl objs nw nf ns) (t : Nat) (f : TCtl → TCtl)
    (hn : pendN p (f (ctl.getD t {})) = pendN p (ctl.getD t {})) :
    RN p (ctl.modify t f) objs nw nf ns := by
  have key : ∀ i, i < ctl.length → pendN p ((ctl.modify t f).getD i {}) = pendN p (ctl.getD i {}) := by
    intro i hi
    by_cases hit : i = t
    · subst hit; rw [getD_modify_self _ _ _ _ hi]; exact hn
    · rw [getD_modify_ne _ _ _ _ _ hit]
  have hlen : (ctl.modify t f).length = ctl.length := by simp
  refine ⟨h.lenF, h.lenS, h.lenW, fun n hn' => ?_⟩
  obtain ⟨ds, h1, h2, h3, h4, h5⟩ := h.n n hn'
  refine ⟨ds, h1, ?_, ?_, ?_, ?_⟩
  · intro i st hi hp
    rw [hlen] at hi
    rw [key i hi] at hp
    exact h2 i st hi hp
  · intro i j st st' hi hj hp hp'
    rw [hlen] at hi hj
    rw [key i hi] at hp
    rw [key j hj] at hp'
    exact h3 i j st st' hi hj hp hp'
  · intro i hi hp
    rw [hlen] at hi
    rw [key i hi] at hp
    exact h4 i hi hp
  · intro hall
    apply h5
    intro i hi
    have := hall i (by rw [hlen]; exact hi)
    rwa [key i hi] at this

/-- new threads start at stage 0 -/
theorem RN.append {p ctl objs nw nf ns} (h : RN p ctl objs nw nf ns) (c : TCtl) (hc : c.stage = 0) :
    RN p (ctl ++ [c]) objs nw nf ns := by
  have hnew : pendN p c = none := by
    unfold pendN
    split
    · rw [if_pos hc]
    · rfl
  have key : ∀ i, i < (ctl ++ [c]).length → ¬ i < ctl.length → pendN p ((ctl ++ [c]).getD i {}) = none := by
    intro i hi hni
    have : i = ctl.length := by simp at hi; omega
    subst this
    rw [getD_append_new]; exact hnew
  refine ⟨h.lenF, h.lenS, h.lenW, fun n hn' => ?_⟩
  obtain ⟨ds, h1, h2, h3, h4, h5⟩ := h.n n hn'
  refine ⟨ds, h1, ?_, ?_, ?_, ?_⟩
  · intro i st hi hp
    by_cases hin : i < ctl.length
    · rw [getD_append_left _ _ _ _ hin] at hp; exact h2 i st hin hp
    · rw [key i hi hin] at hp; cases hp
  · intro i j st st' hi hj hp hp'
    by_cases hin : i < ctl.length
    · by_cases hjn : j < ctl.length
      · rw [getD_append_left _ _ _ _ hin] at hp
        rw [getD_append_left _ _ _ _ hjn] at hp'
        exact h3 i j st st' hin hjn hp hp'
      · rw [key j hj hjn] at hp'; cases hp'
    · rw [key i hi hin] at hp; cases hp
  · intro i hi hp
    by_cases hin : i < ctl.length
    · rw [getD_append_left _ _ _ _ hin] at hp; exact h4 i hin hp
    · rw [key i hi hin] at hp; cases hp
  · intro hall
    apply h5
    intro i hi
    have := hall i (by simp; omega)
    rwa [getD_append_left _ _ _ _ hi] at this

/-! ### condvars -/

/-- the reference thread `h` of the body run by twin thread `i` (control record `c`), as far as `cvWait` is
concerned: outside stages 2, 3 of a `cvWait` it is not inside a `cvWait`; inside, it is queued
(`cvWaiting`) as long as the twin thread is in the condvar's waiter list, notified (`cvNotified`) afterwards -/
def CvTh (p : Prog) (objs : List Obj) (i : Nat) (c : TCtl) (h : DTh2) : Prop :=
  (pendCv p c = none → h.cvWaiting = none ∧ h.cvNotified = none) ∧
  (∀ v m ws, pendCv p c = some (v, m) → v < p.cfg.nCondvars →
      objView2 objs (cvIdx p v) = some (.condvar ws) →
    (i ∈ ws → h.cvWaiting = some (v, m) ∧ h.cvNotified = none) ∧
    (i ∉ ws → h.cvWaiting = none ∧ h.cvNotified = some m))

structure RCv (p : Prog) (ctl : List TCtl) (objs : List Obj) (ths : List DTh2) (cvQueue : List (List Nat)) :
    Prop where
  len : cvQueue.length = p.cfg.nCondvars
  q : ∀ v, v < p.cfg.nCondvars → ∃ ws : List Nat,
    objView2 objs (cvIdx p v) = some (.condvar ws) ∧
    cvQueue.getD v [] = ws.map (fun i => (ctl.getD i {}).body) ∧ ws.Nodup ∧
    ∀ i, i ∈ ws → i < ctl.length ∧ (ctl.getD i {}).stage = 2 ∧ ∃ m, pendCv p (ctl.getD i {}) = some (v, m)
  th : ∀ i, i < ctl.length → CvTh p objs i (ctl.getD i {}) (ths.getD (ctl.getD i {}).body {})

/-- the reference threads agree on the condvar fields -/
def CvSame (ths ths' : List DTh2) : Prop :=
  ∀ b, (ths'.getD b {}).cvWaiting = (ths.getD b {}).cvWaiting ∧
    (ths'.getD b {}).cvNotified = (ths.getD b {}).cvNotified

theorem CvSame.refl (ths : List DTh2) : CvSame ths ths := fun _ => ⟨rfl, rfl⟩

theorem CvSame.modify (ths : List DTh2) (b : Nat) (g : DTh2 → DTh2)
    (hg : ∀ x, (g x).cvWaiting = x.cvWaiting ∧ (g x).cvNotified = x.cvNotified) :
    CvSame ths (ths.modify b g) := by
  intro b'
  by_cases e : b' = b
  · subst e
    by_cases hb : b' < ths.length
    · rw [getD_modify_self _ _ _ _ hb]; exact hg _
    · have : (ths.modify b' g).getD b' {} = ths.getD b' {} := by
        simp [List.getD, List.getElem?_modify, List.getElem?_eq_none (Nat.le_of_not_lt hb)]
      rw [this]; exact ⟨rfl, rfl⟩
  · rw [getD_modify_ne _ _ _ _ _ e]; exact ⟨rfl, rfl⟩

theorem CvSame.trans {a b c : List DTh2} (h1 : CvSame a b) (h2 : CvSame b c) : CvSame a c :=
  fun x => ⟨(h2 x).1.trans (h1 x).1, (h2 x).2.trans (h1 x).2⟩

theorem CvTh.same {p objs i c} {h h' : DTh2} (hc : CvTh p objs i c h) (e1 : h'.cvWaiting = h.cvWaiting)
    (e2 : h'.cvNotified = h.cvNotified) : CvTh p objs i c h' := by
  unfold CvTh at *
  rw [e1, e2]; exact hc

theorem RCv.same {p ctl objs ths ths' cq} (h : RCv p ctl objs ths cq) (hs : CvSame ths ths') :
    RCv p ctl objs ths' cq :=
  ⟨h.len, h.q, fun i hi => (h.th i hi).same (hs _).1 (hs _).2⟩

theorem RCv.viewLe {p ctl objs objs' ths cq} (h : RCv p ctl objs ths cq) (hv : ViewLe2 objs objs') :
    RCv p ctl objs' ths cq := by
  refine ⟨h.len, ?_, ?_⟩
  · intro v hv'
    obtain ⟨ws, h1, h2⟩ := h.q v hv'
    exact ⟨ws, hv _ _ h1, h2⟩
  · intro i hi
    obtain ⟨a1, a2⟩ := h.th i hi
    refine ⟨a1, ?_⟩
    intro v m ws hp hvn hview
    obtain ⟨ws0, h1, _⟩ := h.q v hvn
    have := hv _ _ h1
    rw [this] at hview
    cases hview
    exact a2 v m ws hp hvn h1

end Refine2
end LoomVerif

/-
Race exactness, part 5: the relation `RC` between a world of the twin and a state of the reference semantics
WITH its clocks, and the glue between the data-level simulation (`Refine.step_sim`) and the clock invariants.
-/
import LoomVerif.Proofs.RaceInv
import LoomVerif.Proofs.RaceRef
import LoomVerif.Proofs.RefineLift

namespace LoomVerif
namespace Race
open Refine Sy C07 C08 Clocks

/-- the body twin thread `i` runs -/
def body (w : World) (i : Nat) : Nat := (w.ctlOf i).body

/-- **the abstraction relation with clocks**: `Refine.R` on the data, the fragment invariant of the reference
state, at most `MAX_THREADS` bodies, the twin-side invariant, and two clock systems — one describing loom's clocks,
one the reference's vector clocks — that satisfy the textbook invariants and agree on what is known of every
recorded access -/
structure RC (w : World) (s : SC.St) : Prop where
  r : R w (data s)
  fs : FragSt s
  nt : w.prog.threads.length ≤ 5
  inv : TwinInv w
  clk : ∃ σT σR, LinkT w σT ∧ LinkR w.prog s σR ∧ Good σT ∧ Good σR ∧ XInv w.ctl.length (body w) σT σR

theorem XInv.congr {n : Nat} {β β' : Nat → Nat} {T R : CS} (h : XInv n β T R) (hb : ∀ i, i < n → β' i = β i) :
    XInv n β' T R := by
  refine ⟨?_, ?_, ?_, h.idleT⟩
  · intro k c i j hi hj
    rw [hb i hi, hb j hj]; exact h.thr k c i j hi hj
  · intro k c i m hi
    rw [hb i hi]; exact h.mtx k c i m hi
  · intro b hbb
    apply h.idleR
    intro i hi
    have := hbb i hi
    rwa [hb i hi] at this

theorem fragProg_of_wf {p : Prog} (h : WF p) : FragProg p := by
  intro a k op hop
  have := h.opOk hop
  cases op <;> first | rfl | (simp [Refine.opOk] at this)

/-! ### what `R` says -/

section
variable {w : World} {s : SC.St}

theorem inj_body (hR : R w (data s)) : Inj w.ctl.length (body w) :=
  fun i j hi hj e => hR.x.inj i j hi hj e

theorem body_lt (hR : R w (data s)) {i : Nat} (hi : i < w.ctl.length) : body w i < w.prog.threads.length :=
  (hR.x.thr i hi).1

theorem ths_len (hR : R w (data s)) : s.ths.length = w.prog.threads.length := by
  have := hR.x.len
  simpa [data] using this

theorem body_lt_ths (hR : R w (data s)) {i : Nat} (hi : i < w.ctl.length) : body w i < s.ths.length := by
  rw [ths_len hR]; exact body_lt hR hi

theorem opOf_eq (hR : R w (data s)) (hact : w.tid < w.ctl.length) :
    SC.opOf w.prog s (body w w.tid) = opAt w := by
  rw [← data_opOf]
  exact (base hR hact).2.2

theorem pc_eq (hR : R w (data s)) {i : Nat} (hi : i < w.ctl.length) :
    ((data s).th (body w i)).pc = (w.ctlOf i).pc ∧
    ((data s).th (body w i)).finished = decide (10 ≤ fin w i) := by
  obtain ⟨_, h⟩ := hR.x.thr i hi
  exact ⟨h.2.1, h.2.2.2.1⟩

end

/-! ### a step of the data semantics moves the thread -/

theorem stepL_changes {p : Prog} {d d' : SCData} {t : Nat} {l : Option (Nat × Ret)} (ht : t < d.ths.length)
    (hen : SCData.enabled p d t = true) (h : (l, d') ∈ SCData.stepL p d t) :
    (d'.th t).pc ≠ (d.th t).pc ∨ ((d.th t).finished = false ∧ (d'.th t).finished = true) := by
  cases l with
  | some x =>
    obtain ⟨pc, r⟩ := x
    obtain ⟨h1, _, h3⟩ := SCData.stepL_label ht h
    left; rw [h3, h1]; omega
  | none =>
    have hmod : ∀ f : DTh → DTh, (d.modTh t f).th t = f (d.th t) := by
      intro f
      simp [SCData.modTh, SCData.th, List.getD, List.getElem?_eq_getElem ht]
    unfold SCData.stepL at h
    split at h
    · next ho =>
      simp only [List.mem_singleton, Prod.mk.injEq, true_and] at h
      subst h
      right
      refine ⟨?_, by rw [hmod]⟩
      unfold SCData.enabled at hen
      rw [ho] at hen
      simp only [Bool.and_true, Bool.and_eq_true, Bool.not_eq_true'] at hen
      exact hen.2
    · next op ho =>
      cases op <;> simp only [List.mem_singleton, List.not_mem_nil, Prod.mk.injEq] at h
      case tryLock m =>
        split at h <;> simp at h
      case ifEq i r n =>
        left
        split at h
        · simp only [List.mem_singleton, Prod.mk.injEq, true_and] at h
          subst h; rw [hmod]; show (d.th t).pc + 1 ≠ _; omega
        · simp only [List.mem_singleton, Prod.mk.injEq, true_and] at h
          subst h; rw [hmod]; show (d.th t).pc + 1 + n ≠ _; omega
      all_goals (exact absurd h.1 (by simp))

theorem stepL_length (p : Prog) (d : SCData) (t : Nat) : (SCData.stepL p d t).length ≤ 1 := by
  unfold SCData.stepL
  split
  · simp
  · next op _ =>
    cases op <;> first | (simp; done) | (simp only []; split <;> simp)

theorem mem_single {α : Type} {l : List α} (h : l.length ≤ 1) {x y : α} (hx : x ∈ l) (hy : y ∈ l) : x = y := by
  match l, h with
  | [], _ => cases hx
  | [a], _ =>
    simp only [List.mem_singleton] at hx hy
    rw [hx, hy]
  | _ :: _ :: _, h => simp at h

theorem stepL_single {p : Prog} {d : SCData} {t : Nat} {x y : Option (Nat × Ret) × SCData}
    (hx : x ∈ SCData.stepL p d t) (hy : y ∈ SCData.stepL p d t) : x = y :=
  mem_single (stepL_length p d t) hx hy

/-! ### assembling the conclusion of a step -/

/-- the conclusion of the step theorem -/
def SimC (w : World) (s : SC.St) (w' : World) : Prop :=
  w'.prog = w.prog ∧
  ((RC w' s ∧ w'.events = w.events) ∨
   ∃ s', SC.enabled w.prog s (body w w.tid) = true ∧ s' ∈ SC.step w.prog s (body w w.tid) ∧ RC w' s' ∧
     ∃ l, (l, data s') ∈ SCData.stepL w.prog (data s) (body w w.tid) ∧
       w'.events.map triple = SCData.label (body w w.tid) l ++ w.events.map triple)

section
variable {w w' : World} {s : SC.St}

/-- a stage in which the thread does not move: the data-level simulation stutters -/
theorem quiet_finish (hRC : RC w s) (hact : w.tid < w.ctl.length) (hsim : Sim w (data s) w')
    (hlen : w.tid < w'.ctl.length) (hbody : body w' w.tid = body w w.tid)
    (hpc : (w'.ctlOf w.tid).pc = (w.ctlOf w.tid).pc) (hfin : 10 ≤ fin w' w.tid ↔ 10 ≤ fin w w.tid) :
    R w' (data s) ∧ w'.events = w.events := by
  rcases hsim.2 with h | ⟨l, d', hen, hst, hR', _⟩
  · exact h
  · exfalso
    have hbt : body w w.tid < (data s).ths.length := by
      rw [hRC.r.x.len]; exact body_lt hRC.r hact
    have h0 := pc_eq hRC.r hact
    have h1 : (d'.th (body w' w.tid)).pc = (w'.ctlOf w.tid).pc ∧
        (d'.th (body w' w.tid)).finished = decide (10 ≤ fin w' w.tid) := by
      obtain ⟨_, h⟩ := hR'.x.thr w.tid hlen
      exact ⟨h.2.1, h.2.2.2.1⟩
    rw [hbody] at h1
    rcases stepL_changes hbt hen hst with hc | ⟨hc1, hc2⟩
    · apply hc; rw [h1.1, h0.1, hpc]
    · rw [h0.2] at hc1; rw [h1.2] at hc2
      simp only [decide_eq_false_iff_not, decide_eq_true_eq] at hc1 hc2
      exact hc1 (hfin.1 hc2)

/-- a stage in which the thread moves: the data-level simulation takes THE reference step -/
theorem real_finish (hwf : WF w.prog) (hRC : RC w s) (hact : w.tid < w.ctl.length) (hsim : Sim w (data s) w')
    (hlen : w.tid < w'.ctl.length) (hbody : body w' w.tid = body w w.tid)
    (hmv : (w'.ctlOf w.tid).pc ≠ (w.ctlOf w.tid).pc ∨ (¬ 10 ≤ fin w w.tid ∧ 10 ≤ fin w' w.tid))
    {s' : SC.St} (hstep : SC.step w.prog s (body w w.tid) = [s']) (hv : s'.verdict = none) :
    SC.enabled w.prog s (body w w.tid) = true ∧ FragSt s' ∧ R w' (data s') ∧
    ∃ l, (l, data s') ∈ SCData.stepL w.prog (data s) (body w w.tid) ∧
       w'.events.map triple = SCData.label (body w w.tid) l ++ w.events.map triple := by
  rcases hsim.2 with ⟨hR', _⟩ | ⟨l, d', hen, hst, hR', hev⟩
  · exfalso
    have h0 := pc_eq hRC.r hact
    have h1 := pc_eq (s := s) hR' hlen
    rw [hbody] at h1
    rcases hmv with hc | ⟨hc1, hc2⟩
    · apply hc; rw [← h1.1, h0.1]
    · have := h0.2.symm.trans h1.2
      simp only [decide_eq_decide] at this
      exact hc1 (this.2 hc2)
  · obtain ⟨s'', hmem, hres⟩ := SC.step_lift hRC.fs hst
    change s'' ∈ SC.step w.prog s (body w w.tid) at hmem
    rw [hstep] at hmem
    simp only [List.mem_singleton] at hmem
    subst hmem
    rcases hres with ⟨hfs, hd⟩ | ⟨k, hk⟩
    · subst hd
      refine ⟨?_, hfs, hR', l, hst, hev⟩
      rw [SC.enabled_data hRC.fs.1 (hRC.fs.2 _) (fun op ho => (fragProg_of_wf hwf) _ _ _ ho)]
      exact hen
    · rw [hv] at hk; cases hk

end

end Race
end LoomVerif

/-
C07, rwlock: the representation invariant (exclusion) and the one-step correspondence with the
reference semantics on the `rwWriter` / `rwReaders` components (readers compared as sets).
-/
import LoomVerif.Proofs.C07SC

namespace LoomVerif
namespace C07
open C12 Sy

/-! ### representation invariant -/

/-- the reader list is strictly sorted (so duplicate-free) and never empty while read-locked -/
def RwWF (s : RwSt) : Prop := StrictSorted (readersOf s.lock) ∧ s.lock ≠ some (.read [])

theorem RwWF_new : RwWF {} := ⟨List.Pairwise.nil, by simp⟩

theorem RwStep.wf {s s' : RwSt} (h : RwStep s s') (hwf : RwWF s) : RwWF s' := by
  cases h with
  | releaseRead h hr h' =>
    obtain ⟨rs, s'', hl, h'', hrd, hwr, hiff, _, _⟩ := releaseRead_hb h hr
    rw [h''] at h'; cases h'
    refine ⟨?_, ?_⟩
    · rw [hrd]
      have := hwf.1; rw [hl] at this
      exact filter_sorted _ _ this
    · intro e
      have : readersOf s'.lock = [] := by rw [e]; rfl
      rw [hrd] at this
      rw [hiff.2 this] at e; cases e
  | releaseWrite h hr h' =>
    obtain ⟨s'', h'', hn, _, _⟩ := releaseWrite_hb h hr
    rw [h''] at h'; cases h'
    rw [RwWF, hn]; exact ⟨List.Pairwise.nil, by simp⟩
  | @acquireRead w0 w0' o0 _ _ b0 h hr h' =>
    rcases postAcquireRead_cases h hr with ⟨_, rfl, _⟩ | ⟨_, _, h'', _⟩
    · rw [h] at h'; cases h'; exact hwf
    · rw [h''] at h'; cases h'
      refine ⟨insertSorted_sorted _ _ hwf.1, ?_⟩
      intro e
      simp only [Option.some.injEq, RwLocked.read.injEq] at e
      have := (mem_insertSorted w0.tid w0.tid (readersOf s.lock)).2 (.inl rfl)
      rw [e] at this; cases this
  | acquireWrite h hr h' =>
    rcases postAcquireWrite_cases h hr with ⟨_, rfl, _⟩ | ⟨_, _, h'', _⟩
    · rw [h] at h'; cases h'; exact hwf
    · rw [h''] at h'; cases h'
      exact ⟨List.Pairwise.nil, by simp⟩
  | touch _ _ => exact hwf

theorem RwSteps.wf {s s' : RwSt} (h : RwSteps s s') (hwf : RwWF s) : RwWF s' := by
  induction h with
  | refl => exact hwf
  | tail _ st ih => exact st.wf ih

/-- under the invariant, "unlocked" is "no writer and no reader" -/
theorem RwWF.lock_none_iff {s : RwSt} (hwf : RwWF s) :
    s.lock = none ↔ writerOf s.lock = none ∧ readersOf s.lock = [] := by
  constructor
  · intro e; rw [e]; exact ⟨rfl, rfl⟩
  · rintro ⟨hw, hr⟩
    rcases hs : s.lock with _ | ⟨rs | x⟩
    · rfl
    · rw [hs] at hr; simp only [readersOf] at hr; subst hr; exact absurd hs hwf.2
    · rw [hs] at hw; cases hw

/-! ### the reference semantics, specialised -/

theorem SC_step_tryRead {p : Prog} {s : SC.St} {t li : Nat}
    (hcv : (s.th t).cvNotified = none) (hop : SC.opOf p s t = some (.tryRead li)) :
    SC.step p s t =
      if (s.rwWriter.getD li none).isNone then
        [(({ s.tick t with rwReaders := s.rwReaders.set li (t :: s.rwReaders.getD li []) }
            : SC.St).acquire t (s.rwRel.getD li VV.zero)).ret t (SC.bool01 true)]
      else [(s.tick t).ret t (SC.bool01 false)] := by
  unfold SC.step
  simp only [hcv, hop]
  rfl

theorem SC_step_tryWrite {p : Prog} {s : SC.St} {t li : Nat}
    (hcv : (s.th t).cvNotified = none) (hop : SC.opOf p s t = some (.tryWrite li)) :
    SC.step p s t =
      if (s.rwWriter.getD li none).isNone && (s.rwReaders.getD li []).isEmpty then
        [(({ s.tick t with rwWriter := s.rwWriter.set li (some t) }
            : SC.St).acquire t (s.rwRel.getD li VV.zero)).ret t (SC.bool01 true)]
      else [(s.tick t).ret t (SC.bool01 false)] := by
  unfold SC.step
  simp only [hcv, hop]
  rfl

theorem SC_step_unwrite {p : Prog} {s : SC.St} {t li : Nat}
    (hcv : (s.th t).cvNotified = none) (hop : SC.opOf p s t = some (.unwrite li)) :
    SC.step p s t =
      [({ s.tick t with
          rwWriter := s.rwWriter.set li none
          rwRel := s.rwRel.set li ((s.rwRel.getD li VV.zero).join ((s.tick t).vc t)) }
        : SC.St).ret t .unit] := by
  unfold SC.step
  simp only [hcv, hop]
  rfl

theorem SC_step_unread {p : Prog} {s : SC.St} {t li : Nat}
    (hcv : (s.th t).cvNotified = none) (hop : SC.opOf p s t = some (.unread li)) :
    SC.step p s t =
      [({ s.tick t with
          rwReaders := s.rwReaders.set li ((s.rwReaders.getD li []).erase t)
          rwRel := s.rwRel.set li ((s.rwRel.getD li VV.zero).join ((s.tick t).vc t)) }
        : SC.St).ret t .unit] := by
  unfold SC.step
  simp only [hcv, hop]
  rfl

theorem SC_enabled_read {p : Prog} {s : SC.St} {t li : Nat}
    (hv : s.verdict = none) (hst : (s.th t).started = true) (hfin : (s.th t).finished = false)
    (hw : (s.th t).cvWaiting = none) (hcv : (s.th t).cvNotified = none)
    (hop : SC.opOf p s t = some (.read li)) :
    SC.enabled p s t = (s.rwWriter.getD li none).isNone := by
  unfold SC.enabled
  simp [hv, hst, hfin, hw, hcv, hop]

theorem SC_enabled_write {p : Prog} {s : SC.St} {t li : Nat}
    (hv : s.verdict = none) (hst : (s.th t).started = true) (hfin : (s.th t).finished = false)
    (hw : (s.th t).cvWaiting = none) (hcv : (s.th t).cvNotified = none)
    (hop : SC.opOf p s t = some (.write li)) :
    SC.enabled p s t = ((s.rwWriter.getD li none).isNone && (s.rwReaders.getD li []).isEmpty) := by
  unfold SC.enabled
  simp [hv, hst, hfin, hw, hcv, hop]

/-! ### simulation -/

/-- the rwlock components of an `SC` state abstract the twin's rwlock objects: same writer, same
SET of readers -/
def RwRel (w : World) (s : SC.St) : Prop :=
  ∀ l, s.rwWriter.getD l none = absRwWriter w l ∧
    ∀ x, x ∈ s.rwReaders.getD l [] ↔ x ∈ absRwReaders w l

theorem absRw_of {w : World} {li : Nat} {st : RwSt}
    (h : w.exec.objs[w.rwObj li]? = some (.rwlock st)) :
    absRwWriter w li = (writerOf st.lock).map (bodyOf w) ∧
    absRwReaders w li = (readersOf st.lock).map (bodyOf w) := by
  simp [absRwWriter, absRwReaders, h]

/-- the abstraction after the rwlock object `li` was replaced and the operation completed -/
theorem absRw_update {w : World} {li : Nat} {st st' : RwSt} (ts : Threads) (r : Ret)
    (h : w.exec.objs[w.rwObj li]? = some (.rwlock st)) (lj : Nat) :
    absRwWriter (({ w with exec := { w.exec with
        objs := w.exec.objs.set (w.rwObj li) (.rwlock st'), threads := ts } } : World).complete r) lj
      = (if lj = li then (writerOf st'.lock).map (bodyOf w) else absRwWriter w lj) ∧
    absRwReaders (({ w with exec := { w.exec with
        objs := w.exec.objs.set (w.rwObj li) (.rwlock st'), threads := ts } } : World).complete r) lj
      = (if lj = li then (readersOf st'.lock).map (bodyOf w) else absRwReaders w lj) := by
  have hb : bodyOf (({ w with exec := { w.exec with
        objs := w.exec.objs.set (w.rwObj li) (.rwlock st'), threads := ts } } : World).complete r)
      = bodyOf w := by
    funext t; rw [bodyOf_complete]; rfl
  unfold absRwWriter absRwReaders
  rw [hb]
  show (match (w.exec.objs.set (w.rwObj li) (.rwlock st'))[w.rwObj lj]? with
      | some (.rwlock s) => (writerOf s.lock).map (bodyOf w) | _ => none) = _ ∧
    (match (w.exec.objs.set (w.rwObj li) (.rwlock st'))[w.rwObj lj]? with
      | some (.rwlock s) => (readersOf s.lock).map (bodyOf w) | _ => []) = _
  by_cases e : lj = li
  · subst e
    rw [getElem?_set_self' _ _ _ _ h]; simp
  · have : w.rwObj lj ≠ w.rwObj li := fun hh => e (rwObj_inj w hh)
    rw [getElem?_set_ne' _ _ _ _ this]
    simp only [e, if_false]
    exact ⟨rfl, rfl⟩

theorem isEmpty_iff_forall_not_mem {α} (l : List α) : l.isEmpty = true ↔ ∀ x, x ∉ l := by
  cases l with
  | nil => simp
  | cons a l =>
    simp only [List.isEmpty_cons, Bool.false_eq_true, false_iff]
    intro hh; exact hh a List.mem_cons_self

/-- `try_read`, second stage: same result as `SC.step`, successor components correspond -/
theorem tryRead_sim {w : World} {c : TCtl} {li : Nat} {st : RwSt} {p : Prog} {s : SC.St}
    (h : w.exec.objs[w.rwObj li]? = some (.rwlock st)) (hs : c.stage ≠ 0)
    (hrel : RwRel w s) (hli : li < s.rwReaders.length)
    (hcv : (s.th (bodyOf w w.tid)).cvNotified = none)
    (hop : SC.opOf p s (bodyOf w w.tid) = some (.tryRead li)) :
    ∃ (w1 : World) (s1 : SC.St),
      w.postAcquireRead (w.rwObj li) = .ok (w1, (s.rwWriter.getD li none).isNone) ∧
      w.runOp c (.tryRead li) =
        .ok (w1.complete (.val (if (s.rwWriter.getD li none).isNone then 1 else 0))) ∧
      SC.step p s (bodyOf w w.tid) =
        [s1.ret (bodyOf w w.tid) (.val (if (s.rwWriter.getD li none).isNone then 1 else 0))] ∧
      RwRel (w1.complete (.val (if (s.rwWriter.getD li none).isNone then 1 else 0))) s1 := by
  have habs := (hrel li).1
  rw [(absRw_of h).1] at habs
  rw [SC_step_tryRead hcv hop, runOp_tryRead]
  simp only [hs, beq_iff_eq, if_false]
  cases hl : writerOf st.lock with
  | some x =>
    have hlk : st.lock = some (.write x) := by
      rcases hs' : st.lock with _ | ⟨rs | y⟩ <;> simp [hs', writerOf] at hl
      rw [hl]
    have hn : (s.rwWriter.getD li none).isNone = false := by rw [habs, hl]; rfl
    rw [hn, postAcquireRead_writer h hlk]
    refine ⟨w, s.tick (bodyOf w w.tid), rfl, rfl, rfl, ?_⟩
    intro l
    have hb : bodyOf (w.complete (.val (if false = true then 1 else 0))) = bodyOf w :=
      funext (bodyOf_complete w _)
    have := hrel l
    unfold absRwWriter absRwReaders at this ⊢
    rw [hb]
    exact this
  | none =>
    have hn : (s.rwWriter.getD li none).isNone = true := by rw [habs, hl]; rfl
    rw [hn, postAcquireRead_ok h hl]
    refine ⟨_, _, rfl, rfl, rfl, ?_⟩
    intro l
    rw [(absRw_update _ _ h l).1, (absRw_update _ _ h l).2]
    constructor
    · show s.rwWriter.getD l none = _
      rw [(hrel l).1]
      by_cases e : l = li
      · subst e; simp only [if_true, (absRw_of h).1, hl]; rfl
      · simp [e]
    · intro x
      show x ∈ (s.rwReaders.set li (bodyOf w w.tid :: s.rwReaders.getD li [])).getD l [] ↔ _
      rw [getD_set_list _ _ _ _ _ hli]
      by_cases e : l = li
      · subst e
        simp only [if_true, List.mem_cons, readersOf, List.mem_map, mem_insertSorted]
        rw [(hrel l).2 x, (absRw_of h).2, List.mem_map]
        constructor
        · rintro (rfl | ⟨a, ha, rfl⟩)
          · exact ⟨w.tid, .inl rfl, rfl⟩
          · exact ⟨a, .inr ha, rfl⟩
        · rintro ⟨a, rfl | ha, rfl⟩
          · exact .inl rfl
          · exact .inr ⟨a, ha, rfl⟩
      · simp only [e, if_false]; exact (hrel l).2 x

/-- under the invariant and the relation, the twin's "unlocked" is the reference semantics'
"no writer and no reader" -/
theorem lock_isNone_eq {w : World} {li : Nat} {st : RwSt} {s : SC.St}
    (h : w.exec.objs[w.rwObj li]? = some (.rwlock st)) (hwf : RwWF st) (hrel : RwRel w s) :
    st.lock.isNone = ((s.rwWriter.getD li none).isNone && (s.rwReaders.getD li []).isEmpty) := by
  obtain ⟨hw, hr⟩ := hrel li
  rw [(absRw_of h).1] at hw
  rw [(absRw_of h).2] at hr
  rcases hs : st.lock with _ | ⟨rs | x⟩
  · rw [hs] at hw hr
    have h1 : (s.rwWriter.getD li none).isNone = true := by rw [hw]; rfl
    have h2 : (s.rwReaders.getD li []).isEmpty = true := by
      rw [isEmpty_iff_forall_not_mem]; intro x hx; have := (hr x).1 hx; simp [readersOf] at this
    rw [h1, h2]; rfl
  · rw [hs] at hr
    have hne : rs ≠ [] := fun e => hwf.2 (by rw [hs, e])
    obtain ⟨r, rest, rfl⟩ := List.exists_cons_of_ne_nil hne
    have : bodyOf w r ∈ s.rwReaders.getD li [] := (hr _).2 (by simp [readersOf])
    have h2 : (s.rwReaders.getD li []).isEmpty = false := by
      cases hh : (s.rwReaders.getD li []).isEmpty
      · rfl
      · rw [isEmpty_iff_forall_not_mem] at hh; exact absurd this (hh _)
    rw [h2, Bool.and_false]; rfl
  · rw [hs] at hw
    have h1 : (s.rwWriter.getD li none).isNone = false := by rw [hw]; rfl
    rw [h1, Bool.false_and]; rfl

/-- `try_write`, second stage: same result as `SC.step`, successor components correspond -/
theorem tryWrite_sim {w : World} {c : TCtl} {li : Nat} {st : RwSt} {p : Prog} {s : SC.St}
    (h : w.exec.objs[w.rwObj li]? = some (.rwlock st)) (hs : c.stage ≠ 0) (hwf : RwWF st)
    (hrel : RwRel w s) (hli : li < s.rwWriter.length)
    (hcv : (s.th (bodyOf w w.tid)).cvNotified = none)
    (hop : SC.opOf p s (bodyOf w w.tid) = some (.tryWrite li)) :
    ∃ (w1 : World) (s1 : SC.St),
      w.postAcquireWrite (w.rwObj li) = .ok (w1,
        ((s.rwWriter.getD li none).isNone && (s.rwReaders.getD li []).isEmpty)) ∧
      w.runOp c (.tryWrite li) = .ok (w1.complete (.val
        (if ((s.rwWriter.getD li none).isNone && (s.rwReaders.getD li []).isEmpty) then 1 else 0))) ∧
      SC.step p s (bodyOf w w.tid) = [s1.ret (bodyOf w w.tid) (.val
        (if ((s.rwWriter.getD li none).isNone && (s.rwReaders.getD li []).isEmpty) then 1 else 0))] ∧
      RwRel (w1.complete (.val
        (if ((s.rwWriter.getD li none).isNone && (s.rwReaders.getD li []).isEmpty) then 1 else 0))) s1 := by
  have hb := lock_isNone_eq h hwf hrel
  rw [SC_step_tryWrite hcv hop, runOp_tryWrite, ← hb]
  simp only [hs, beq_iff_eq, if_false]
  cases hl : st.lock with
  | some x =>
    rw [postAcquireWrite_locked h (by simp [hl])]
    refine ⟨w, s.tick (bodyOf w w.tid), rfl, rfl, rfl, ?_⟩
    intro l
    have hb' : bodyOf (w.complete (.val (if (some x).isNone = true then 1 else 0))) = bodyOf w :=
      funext (bodyOf_complete w _)
    have := hrel l
    unfold absRwWriter absRwReaders at this ⊢
    rw [hb']
    exact this
  | none =>
    rw [postAcquireWrite_free h hl]
    refine ⟨_, _, rfl, rfl, rfl, ?_⟩
    intro l
    rw [(absRw_update _ _ h l).1, (absRw_update _ _ h l).2]
    constructor
    · show (s.rwWriter.set li (some (bodyOf w w.tid))).getD l none = _
      rw [getD_set_list _ _ _ _ _ hli, (hrel l).1]
      rfl
    · intro x
      show x ∈ s.rwReaders.getD l [] ↔ _
      rw [(hrel l).2 x]
      by_cases e : l = li
      · subst e
        simp only [if_true, (absRw_of h).2, hl, readersOf]
      · simp only [e, if_false]

/-- `unwrite` (the caller holds the write guard, so there is no reader): the successor components
correspond (`rwWriter.set l none`) -/
theorem unwrite_sim {w : World} {c : TCtl} {li : Nat} {st : RwSt} {p : Prog} {s : SC.St}
    (h : w.exec.objs[w.rwObj li]? = some (.rwlock st)) (hnr : readersOf st.lock = [])
    (hrel : RwRel w s) (hli : li < s.rwWriter.length)
    (hcv : (s.th (bodyOf w w.tid)).cvNotified = none)
    (hop : SC.opOf p s (bodyOf w w.tid) = some (.unwrite li)) :
    ∃ (w1 : World) (s1 : SC.St), w.releaseWrite (w.rwObj li) = .ok w1 ∧
      w.runOp c (.unwrite li) = .ok (w1.complete .unit) ∧
      SC.step p s (bodyOf w w.tid) = [s1.ret (bodyOf w w.tid) .unit] ∧
      RwRel (w1.complete .unit) s1 ∧ absRwWriter (w1.complete .unit) li = none := by
  rw [SC_step_unwrite hcv hop, runOp_unwrite, releaseWrite_eq h]
  refine ⟨_, _, rfl, rfl, rfl, ?_, ?_⟩
  · intro l
    rw [(absRw_update _ _ h l).1, (absRw_update _ _ h l).2]
    constructor
    · show (s.rwWriter.set li none).getD l none = _
      rw [getD_set_list _ _ _ _ _ hli, (hrel l).1]
      rfl
    · intro x
      show x ∈ s.rwReaders.getD l [] ↔ _
      rw [(hrel l).2 x]
      by_cases e : l = li
      · subst e
        simp only [if_true, (absRw_of h).2, hnr]; rfl
      · simp only [e, if_false]
  · rw [(absRw_update _ _ h li).1]; simp [writerOf]

/-- `read` / `write`, first stage: the twin blocks the thread exactly when `SC.enabled` is false -/
theorem read_block_iff_disabled {w : World} {c : TCtl} {li : Nat} {st : RwSt} {p : Prog}
    {s : SC.St} (h : w.exec.objs[w.rwObj li]? = some (.rwlock st)) (hs : c.stage = 0)
    (hrel : RwRel w s)
    (hv : s.verdict = none) (hst : (s.th (bodyOf w w.tid)).started = true)
    (hfin : (s.th (bodyOf w w.tid)).finished = false)
    (hw : (s.th (bodyOf w w.tid)).cvWaiting = none)
    (hcv : (s.th (bodyOf w w.tid)).cvNotified = none)
    (hop : SC.opOf p s (bodyOf w w.tid) = some (.read li)) :
    w.runOp c (.read li) =
      (w.setStage 1).branch (w.rwObj li) .rwRead (block := !(SC.enabled p s (bodyOf w w.tid)))
        (wait := true) := by
  rw [SC_enabled_read hv hst hfin hw hcv hop, (hrel li).1, (absRw_of h).1, runOp_read]
  simp only [hs, getRw_of h, bind, Except.bind]
  rcases st.lock with _ | ⟨rs | x⟩ <;> rfl

theorem write_block_iff_disabled {w : World} {c : TCtl} {li : Nat} {st : RwSt} {p : Prog}
    {s : SC.St} (h : w.exec.objs[w.rwObj li]? = some (.rwlock st)) (hs : c.stage = 0)
    (hwf : RwWF st) (hrel : RwRel w s)
    (hv : s.verdict = none) (hst : (s.th (bodyOf w w.tid)).started = true)
    (hfin : (s.th (bodyOf w w.tid)).finished = false)
    (hw : (s.th (bodyOf w w.tid)).cvWaiting = none)
    (hcv : (s.th (bodyOf w w.tid)).cvNotified = none)
    (hop : SC.opOf p s (bodyOf w w.tid) = some (.write li)) :
    w.runOp c (.write li) =
      (w.setStage 1).branch (w.rwObj li) .rwWrite (block := !(SC.enabled p s (bodyOf w w.tid)))
        (wait := true) := by
  rw [SC_enabled_write hv hst hfin hw hcv hop, ← lock_isNone_eq h hwf hrel, runOp_write]
  simp only [hs, getRw_of h, bind, Except.bind]
  cases st.lock <;> rfl

/-- `unread`: the twin's reader list after the release is `List.erase` of the list before — the
operation the reference semantics applies to its reader list -/
theorem unread_erase {w w' : World} {li : Nat} {st : RwSt}
    (h : w.exec.objs[w.rwObj li]? = some (.rwlock st)) (hwf : RwWF st)
    (hr : w.releaseRead (w.rwObj li) = .ok w') :
    ∃ st', w'.exec.objs[w.rwObj li]? = some (.rwlock st') ∧ writerOf st'.lock = none ∧
      readersOf st'.lock = (readersOf st.lock).erase w.tid ∧ RwWF st' := by
  obtain ⟨rs, st', hl, h', hrd, hwr, _, _, _⟩ := releaseRead_hb h hr
  refine ⟨st', h', hwr, ?_, (RwStep.releaseRead h hr h').wf hwf⟩
  rw [hrd, hl]
  have := hwf.1; rw [hl] at this
  exact filter_ne_eq_erase _ _ (StrictSorted.nodup this)

end C07
end LoomVerif

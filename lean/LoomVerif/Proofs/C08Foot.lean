/-
Frame of a step: one stage of the ACTIVE thread (`World.stepActive`) writes only the active thread's own
control record (and `spawn` appends the record of the new thread).  Every helper of `Model/Interp.lean`
either keeps the control table and the active thread (`Same`), or — the scheduling points — keeps the control
table; the stage functions write `ctl` through `modCtl` / `setStage` / `complete` at the id of the thread
that was active when the stage started.  Used by `Join.after_destructors` (`Props/C08.lean`): the steps of the
other threads are `EpiRun.other` steps.
-/
import LoomVerif.Proofs.C20Frame
import LoomVerif.Proofs.WorldBasics

set_option linter.unusedSimpArgs false
set_option linter.unusedVariables false

namespace LoomVerif
namespace Foot

/-- the control table `l'` extends `l` and agrees with it outside index `t0` -/
def Foot (t0 : Nat) (l l' : List TCtl) : Prop :=
  l.length ≤ l'.length ∧ ∀ t, t ≠ t0 → t < l.length → l'[t]? = l[t]?

theorem Foot.refl (t0 : Nat) (l : List TCtl) : Foot t0 l l := ⟨Nat.le_refl _, fun _ _ _ => rfl⟩

theorem Foot.modify {t0 : Nat} {l l' : List TCtl} (h : Foot t0 l l') (f : TCtl → TCtl) :
    Foot t0 l (l'.modify t0 f) := by
  refine ⟨by simpa using h.1, fun t ht hl => ?_⟩
  rw [List.getElem?_modify]
  have e : ¬ t0 = t := fun e => ht e.symm
  simp only [e, if_false]
  rw [h.2 t ht hl]
  cases l[t]? <;> rfl

theorem Foot.append {t0 : Nat} {l l' : List TCtl} (h : Foot t0 l l') (x : List TCtl) :
    Foot t0 l (l' ++ x) := by
  refine ⟨by simp; have := h.1; omega, fun t ht hl => ?_⟩
  rw [List.getElem?_append_left (by have := h.1; omega)]
  exact h.2 t ht hl

theorem Foot.trans {t0 : Nat} {l l' l'' : List TCtl} (h1 : Foot t0 l l') (h2 : Foot t0 l' l'') :
    Foot t0 l l'' :=
  ⟨Nat.le_trans h1.1 h2.1, fun t ht hl =>
    (h2.2 t ht (Nat.lt_of_lt_of_le hl h1.1)).trans (h1.2 t ht hl)⟩

/-- same control table, same active thread -/
def Same (w w' : World) : Prop := w'.ctl = w.ctl ∧ w'.tid = w.tid

@[simp] theorem foot_refl (t0 : Nat) (l : List TCtl) : Foot t0 l l := Foot.refl _ _
@[simp] theorem foot_modify {t0 : Nat} {l l' : List TCtl} (f : TCtl → TCtl) (h : Foot t0 l l') :
    Foot t0 l (l'.modify t0 f) := h.modify f
@[simp] theorem foot_append {t0 : Nat} {l l' : List TCtl} (x : List TCtl) (h : Foot t0 l l') :
    Foot t0 l (l' ++ x) := h.append x

@[simp] theorem activeId_ths (w : World) : w.ths.activeId = w.tid := rfl
@[simp] theorem activeId_exec (w : World) : w.exec.threads.activeId = w.tid := rfl
@[simp] theorem ctl_setThs (w : World) (t : Threads) : (w.setThs t).ctl = w.ctl := rfl
@[simp] theorem tid_setThs (w : World) (t : Threads) : (w.setThs t).tid = t.activeId := rfl
@[simp] theorem ctl_setObjs (w : World) (o : Objs) : (w.setObjs o).ctl = w.ctl := rfl
@[simp] theorem tid_setObjs (w : World) (o : Objs) : (w.setObjs o).tid = w.tid := rfl
@[simp] theorem ctl_setPath (w : World) (p : Path) : (w.setPath p).ctl = w.ctl := rfl
@[simp] theorem tid_setPath (w : World) (p : Path) : (w.setPath p).tid = w.tid := rfl
@[simp] theorem ctl_pushObj (w : World) (o : Obj) : (w.pushObj o).1.ctl = w.ctl := rfl
@[simp] theorem tid_pushObj (w : World) (o : Obj) : (w.pushObj o).1.tid = w.tid := rfl
@[simp] theorem ctl_modCtl (w : World) (t : Nat) (f : TCtl → TCtl) :
    (w.modCtl t f).ctl = w.ctl.modify t f := rfl
@[simp] theorem tid_modCtl (w : World) (t : Nat) (f : TCtl → TCtl) : (w.modCtl t f).tid = w.tid := rfl
@[simp] theorem ctl_setStage (w : World) (n : Nat) :
    (w.setStage n).ctl = w.ctl.modify w.tid fun c => { c with stage := n } := rfl
@[simp] theorem tid_setStage (w : World) (n : Nat) : (w.setStage n).tid = w.tid := rfl
@[simp] theorem ctl_setObj (w : World) (o : Nat) (v : Obj) : (w.setObj o v).ctl = w.ctl := rfl
@[simp] theorem tid_setObj (w : World) (o : Nat) (v : Obj) : (w.setObj o v).tid = w.tid := rfl
@[simp] theorem ctl_complete (w : World) (r : Ret) :
    (w.complete r).ctl = w.ctl.modify w.tid
      (fun c => { c with pc := c.pc + 1, stage := 0, prim := none, results := (c.pc, r) :: c.results }) :=
  rfl
@[simp] theorem tid_complete (w : World) (r : Ret) : (w.complete r).tid = w.tid := rfl
@[simp] theorem ctl_sync (w : World) : w.sync.ctl = w.ctl := rfl
@[simp] theorem tid_sync (w : World) : w.sync.tid = w.tid := rfl
@[simp] theorem ctl_forOthers (w : World) (p : Operation → Bool) (f : Thread → Thread) :
    (w.forOthers p f).ctl = w.ctl := rfl
@[simp] theorem tid_forOthers (w : World) (p : Operation → Bool) (f : Thread → Thread) :
    (w.forOthers p f).tid = w.tid := rfl
@[simp] theorem ctl_fenceRel (w : World) : w.fenceRel.ctl = w.ctl := rfl
@[simp] theorem tid_fenceRel (w : World) : w.fenceRel.tid = w.tid := rfl
@[simp] theorem ctl_fenceAcq (w : World) : w.fenceAcq.ctl = w.ctl := rfl
@[simp] theorem ctl_setHandle (w : World) (h : Nat) (x : Option HandleSt) : (w.setHandle h x).ctl = w.ctl := by
  unfold World.setHandle; rfl
@[simp] theorem tid_setHandle (w : World) (h : Nat) (x : Option HandleSt) : (w.setHandle h x).tid = w.tid := by
  unfold World.setHandle; rfl
@[simp] theorem ctl_modArc (w : World) (a : Nat) (f : ArcInfo → ArcInfo) : (w.modArc a f).ctl = w.ctl := rfl
@[simp] theorem tid_modArc (w : World) (a : Nat) (f : ArcInfo → ArcInfo) : (w.modArc a f).tid = w.tid := rfl
@[simp] theorem ctl_modFut (w : World) (f : Nat) (g : FutSt → FutSt) : (w.modFut f g).ctl = w.ctl := rfl
@[simp] theorem tid_modFut (w : World) (f : Nat) (g : FutSt → FutSt) : (w.modFut f g).tid = w.tid := rfl
@[simp] theorem tid_mk (p : Prog) (e : Exec) (c : List TCtl) (sp : List (Nat × Nat × Nat)) (nw : List Bool)
    (h : List (Nat × HandleSt)) (a : List ArcInfo) (t r : List (Nat × Nat)) (ev : List Event) (pk : Bool)
    (ti td tb li : List Nat) (f : List FutSt) :
    (World.mk p e c sp nw h a t r ev pk ti td tb li f).tid = e.threads.activeId := rfl
@[simp] theorem activeId_syncLoad (s : Threads) (sy : Sync) (o : Ord) :
    (s.syncLoad sy o).activeId = s.activeId := rfl
@[simp] theorem activeId_modifyActive (s : Threads) (f : Thread → Thread) :
    (s.modifyActive f).activeId = s.activeId := rfl
@[simp] theorem activeId_modify (s : Threads) (i : Nat) (f : Thread → Thread) :
    (s.modify i f).activeId = s.activeId := rfl
@[simp] theorem activeId_setCaus (s : Threads) (v : VV) : (s.setCaus v).activeId = s.activeId := rfl
@[simp] theorem activeId_seqCstFence (s : Threads) : s.seqCstFence.activeId = s.activeId := rfl
@[simp] theorem activeId_inc (s : Threads) : s.activeCausalityInc.activeId = s.activeId := rfl
@[simp] theorem activeId_unpark (s : Threads) (t : Nat) : (s.unpark t).activeId = s.activeId := by
  unfold Threads.unpark; split <;> rfl
@[simp] theorem activeId_foldl_unpark (l : List Nat) (s : Threads) :
    (l.foldl (fun ths t => ths.unpark t) s).activeId = s.activeId := by
  induction l generalizing s with
  | nil => rfl
  | cons t l ih => simp only [List.foldl_cons, ih, activeId_unpark]
@[simp] theorem activeId_wake (s : Threads) (t : Nat) : (s.wake t).activeId = s.activeId := by
  unfold Threads.wake; split <;> rfl
@[simp] theorem activeId_foldl_wake (l : List Nat) (s : Threads) :
    (l.foldl (fun ths t => ths.wake t) s).activeId = s.activeId := by
  induction l generalizing s with
  | nil => rfl
  | cons t l ih => simp only [List.foldl_cons, ih, activeId_wake]

theorem activeId_atomic_fenceAcq (a : Atomic) (ths : Threads) :
    (a.fenceAcq ths).activeId = ths.activeId := by
  unfold Atomic.fenceAcq
  generalize Atomic.storesMutOrder a.cnt = l
  induction l generalizing ths with
  | nil => rfl
  | cons i l ih =>
    simp only [List.foldl_cons, ih]
    split <;> rfl

@[simp] theorem tid_fenceAcq (w : World) : w.fenceAcq.tid = w.tid := by
  unfold World.fenceAcq
  show (w.exec.objs.foldl _ w.ths).activeId = w.ths.activeId
  generalize w.ths = ths
  generalize w.exec.objs = os
  induction os generalizing ths with
  | nil => rfl
  | cons o os ih =>
    simp only [List.foldl_cons, ih]
    split
    · exact activeId_atomic_fenceAcq _ _
    · rfl

theorem tlsGet_ctl (w : World) (k : Nat) :
    (w.tlsGet k).1.tid = w.tid ∧ Foot w.tid w.ctl (w.tlsGet k).1.ctl := by
  unfold World.tlsGet
  dsimp only
  split
  · exact ⟨rfl, Foot.refl _ _⟩
  · exact ⟨rfl, Foot.refl _ _⟩
  · exact ⟨rfl, (Foot.refl _ _).modify _⟩

theorem tlsGet_foot {w w1 : World} {k : Nat} {r : Option Nat} (h : w.tlsGet k = (w1, r)) :
    w1.tid = w.tid ∧ Foot w.tid w.ctl w1.ctl := by
  have := tlsGet_ctl w k
  rw [h] at this
  exact this

/-! ### atomics keep the active thread -/

theorem Atomic.load_act {a : Atomic} {ths : Threads} {idx : Nat} {o : Ord} {r : Atomic × Threads × Nat}
    (h : a.load ths idx o = .ok r) : r.2.1.activeId = ths.activeId := by
  unfold Atomic.load at h
  mt_split h
  all_goals first | (cases h; done) | (cases h; rfl)

theorem Atomic.rmw_act {a : Atomic} {ths : Threads} {idx : Nat} {so fo : Ord} {f : Nat → Option Nat}
    {r : Atomic × Threads × Nat × Bool} (h : a.rmw ths idx so fo f = .ok r) :
    r.2.1.activeId = ths.activeId := by
  unfold Atomic.rmw at h
  mt_split h
  all_goals first | (cases h; done) | (cases h; rfl)

theorem Prim.effect_act {t : ATy} {a : Atomic} {ths : Threads} {p : Prim} {idx : Nat}
    {r : Atomic × Threads × Ret} (h : p.effect t a ths idx = .ok r) : r.2.1.activeId = ths.activeId := by
  unfold Prim.effect at h
  mt_split h
  all_goals first
    | (cases h; done)
    | (cases h; rfl)
    | (have := Atomic.load_act ‹Atomic.load _ _ _ _ = Except.ok _›; cases h; simp_all; done)
    | (have := Atomic.rmw_act ‹Atomic.rmw _ _ _ _ _ _ = Except.ok _›; cases h; simp_all; done)

macro "fs_sat0" : tactic => `(tactic|
  (try (have := Prim.effect_act ‹Prim.effect _ _ _ _ _ = Except.ok _›)))

macro "fs_auto0" h:ident : tactic => `(tactic|
  (mt_split $h
   all_goals first
     | (cases $h:ident; done)
     | (cases $h:ident; exact ⟨rfl, rfl⟩)
     | (fs_sat0; (try cases $h:ident); simp_all [Same]; done)))

/-! ### the effect helpers keep the control table and the active thread -/

theorem postAcquire_same {w : World} {o : Nat} {r : World × Bool} (h : w.postAcquire o = .ok r) :
    Same w r.1 := by
  unfold World.postAcquire at h; fs_auto0 h
theorem releaseLock_same {w w' : World} {o : Nat} (h : w.releaseLock o = .ok w') : Same w w' := by
  unfold World.releaseLock at h; fs_auto0 h
theorem postAcquireRead_same {w : World} {o : Nat} {r : World × Bool}
    (h : w.postAcquireRead o = .ok r) : Same w r.1 := by
  unfold World.postAcquireRead at h; fs_auto0 h
theorem postAcquireWrite_same {w : World} {o : Nat} {r : World × Bool}
    (h : w.postAcquireWrite o = .ok r) : Same w r.1 := by
  unfold World.postAcquireWrite at h; fs_auto0 h
theorem releaseRead_same {w w' : World} {o : Nat} (h : w.releaseRead o = .ok w') : Same w w' := by
  unfold World.releaseRead at h; fs_auto0 h
theorem releaseWrite_same {w w' : World} {o : Nat} (h : w.releaseWrite o = .ok w') : Same w w' := by
  unfold World.releaseWrite at h; fs_auto0 h
theorem notifyWait2_same {w w' : World} {o : Nat} (h : w.notifyWait2 o = .ok w') : Same w w' := by
  unfold World.notifyWait2 at h; fs_auto0 h
theorem notifyEffect_same {w w' : World} {o : Nat} (h : w.notifyEffect o = .ok w') : Same w w' := by
  unfold World.notifyEffect at h; fs_auto0 h
theorem sendEffect_same {w w' : World} {o : Nat} {v : Int} (h : w.sendEffect o v = .ok w') :
    Same w w' := by
  unfold World.sendEffect at h; fs_auto0 h
theorem recvEffect_same {w : World} {o : Nat} {r : World × Int} (h : w.recvEffect o = .ok r) :
    Same w r.1 := by
  unfold World.recvEffect at h; fs_auto0 h
theorem refDecEffect_same {w : World} {o : Nat} {r : World × Bool} (h : w.refDecEffect o = .ok r) :
    Same w r.1 := by
  unfold World.refDecEffect at h; fs_auto0 h
theorem afterDec_same {w w' : World} {a : Nat} {l : Bool} (h : w.afterDec a l = .ok w') :
    Same w w' := by
  unfold World.afterDec at h; fs_auto0 h
theorem primEffect_same {w : World} {x : Nat} {p : Prim} {r : World × Ret}
    (h : w.primEffect x p = .ok r) : Same w r.1 := by
  unfold World.primEffect at h; fs_auto0 h
theorem wakerClone_same {w w' : World} {a : Nat} (h : w.wakerClone a = .ok w') : Same w w' := by
  unfold World.wakerClone at h; fs_auto0 h
theorem lazyRead_same {w : World} {sv : LazyVal} {r : World × Int} (h : w.lazyRead sv = .ok r) :
    Same w r.1 := by
  unfold World.lazyRead at h; fs_auto0 h


macro "fs_sat1" : tactic => `(tactic|
  (fs_sat0
   try (have := postAcquire_same ‹World.postAcquire _ _ = Except.ok _›)
   try (have := releaseLock_same ‹World.releaseLock _ _ = Except.ok _›)
   try (have := postAcquireRead_same ‹World.postAcquireRead _ _ = Except.ok _›)
   try (have := postAcquireWrite_same ‹World.postAcquireWrite _ _ = Except.ok _›)
   try (have := releaseRead_same ‹World.releaseRead _ _ = Except.ok _›)
   try (have := releaseWrite_same ‹World.releaseWrite _ _ = Except.ok _›)
   try (have := notifyWait2_same ‹World.notifyWait2 _ _ = Except.ok _›)
   try (have := notifyEffect_same ‹World.notifyEffect _ _ = Except.ok _›)
   try (have := sendEffect_same ‹World.sendEffect _ _ _ = Except.ok _›)
   try (have := recvEffect_same ‹World.recvEffect _ _ = Except.ok _›)
   try (have := refDecEffect_same ‹World.refDecEffect _ _ = Except.ok _›)
   try (have := afterDec_same ‹World.afterDec _ _ _ = Except.ok _›)
   try (have := primEffect_same ‹World.primEffect _ _ _ = Except.ok _›)
   try (have := wakerClone_same ‹World.wakerClone _ _ = Except.ok _›)
   try (have := lazyRead_same ‹World.lazyRead _ _ = Except.ok _›)))

macro "fs_auto1" h:ident : tactic => `(tactic|
  (mt_split $h
   all_goals first
     | (cases $h:ident; done)
     | (cases $h:ident; exact ⟨rfl, rfl⟩)
     | (fs_sat1; (try cases $h:ident); simp_all [Same]; done)))

theorem wakerDrop_same {w w' : World} {a : Nat} (h : w.wakerDrop a = .ok w') : Same w w' := by
  unfold World.wakerDrop at h; fs_auto1 h

theorem lazyInitFinish_same {w : World} {z id : Nat} {r : World × Int}
    (h : w.lazyInitFinish z id = .ok r) : Same w r.1 := by
  unfold World.lazyInitFinish at h
  mt_split h
  all_goals first
    | (cases h; done)
    | (have := lazyRead_same h; exact ⟨this.1.trans rfl, this.2.trans rfl⟩)

theorem Exec.newThread_act {e : Exec} {r : Exec × Nat} (h : e.newThread = .ok r) :
    r.1.threads.activeId = e.threads.activeId := by
  unfold Exec.newThread at h
  simp only [bind, Except.bind, pure, Except.pure] at h
  split at h
  · cases h
  · next v hv =>
    cases h
    unfold Threads.newThread at hv
    split at hv
    · cases hv; rfl
    · cases hv

/-! ### the scheduling points keep the control table -/

theorem branch_ctl {w w' : World} {o : Nat} {a : Action} {b wt : Bool}
    (h : w.branch o a b wt = .ok w') :
    w'.ctl = w.ctl := (C20.branch_cf h).1
theorem yieldNow_ctl {w w' : World} (h : w.yieldNow = .ok w') : w'.ctl = w.ctl := (C20.yieldNow_cf h).1
theorem notifyWait1_ctl {w : World} {o : Nat} {r : World × Nat} (h : w.notifyWait1 o = .ok r) :
    r.1.ctl = w.ctl := (C20.notifyWait1_cf h).1
theorem parkNow_ctl {w w' : World} (h : w.parkNow = .ok w') : w'.ctl = w.ctl := by
  unfold World.parkNow at h
  mt_split h
  all_goals first | (cases h; done) | (cases h; rfl)
theorem blockNow_ctl {w w' : World} (h : w.blockNow = .ok w') : w'.ctl = w.ctl := by
  unfold World.blockNow at h
  mt_split h
  all_goals first | (cases h; done) | (cases h; rfl)
theorem threadDone_ctl {w w' : World} (h : w.threadDone = .ok w') : w'.ctl = w.ctl := by
  unfold World.threadDone at h
  mt_split h
  all_goals first | (cases h; done) | (cases h; rfl)

macro "fs_sat2" : tactic => `(tactic|
  (fs_sat1
   try (have := wakerDrop_same ‹World.wakerDrop _ _ = Except.ok _›)
   try (have := lazyInitFinish_same ‹World.lazyInitFinish _ _ _ = Except.ok _›)
   try (have := Exec.newThread_act ‹Exec.newThread _ = Except.ok _›)
   try (have := branch_ctl ‹World.branch _ _ _ _ _ = Except.ok _›)
   try (have := yieldNow_ctl ‹World.yieldNow _ = Except.ok _›)
   try (have := notifyWait1_ctl ‹World.notifyWait1 _ _ = Except.ok _›)
   try (have := parkNow_ctl ‹World.parkNow _ = Except.ok _›)
   try (have := blockNow_ctl ‹World.blockNow _ = Except.ok _›)
   try (have := threadDone_ctl ‹World.threadDone _ = Except.ok _›)))

/-- close a goal about the footprint of a stage of the thread `w.tid` from the facts collected about the
helpers it called -/
macro "fs_foot" h:ident : tactic => `(tactic|
  (mt_split $h
   all_goals first
     | (cases $h:ident; done)
     | (cases $h:ident; exact Foot.refl _ _)
     | (fs_sat2; (try cases $h:ident); simp_all [Same]; done)))

theorem primStart_foot {w w' : World} {x : Nat} {p : Prim} {next : Nat}
    (h : w.primStart x p next = .ok w') : Foot w.tid w.ctl w'.ctl := by
  unfold World.primStart at h; fs_foot h

macro "fs_sat3" : tactic => `(tactic|
  (fs_sat2
   try (have := primStart_foot ‹World.primStart _ _ _ _ = Except.ok _›)))

macro "fs_foot3" h:ident : tactic => `(tactic|
  (mt_split $h
   all_goals first
     | (cases $h:ident; done)
     | (cases $h:ident; exact Foot.refl _ _)
     | (fs_sat3; (try cases $h:ident); simp_all [Same]; done)))

theorem lazyStage_foot {w w' : World} {c : TCtl} {z : Nat} (h : w.lazyStage c z = .ok w') :
    Foot w.tid w.ctl w'.ctl := by
  unfold World.lazyStage at h; fs_foot3 h


theorem blockOnStage_foot {w w' : World} {c : TCtl} {f mode : Nat}
    (h : w.blockOnStage c f mode = .ok w') : Foot w.tid w.ctl w'.ctl := by
  unfold World.blockOnStage at h; fs_foot3 h

theorem wakeStage_foot {w w' : World} {c : TCtl} {f : Nat} {b store : Bool}
    (h : w.wakeStage c f b store = .ok w') : Foot w.tid w.ctl w'.ctl := by
  unfold World.wakeStage at h; fs_foot3 h

theorem awTakeStage_foot {w w' : World} {c : TCtl} {f : Nat}
    (h : w.awTakeStage c f = .ok w') : Foot w.tid w.ctl w'.ctl := by
  unfold World.awTakeStage at h; fs_foot3 h

set_option maxHeartbeats 1600000 in
theorem runOp_foot {w w' : World} {c : TCtl} {op : Op} (h : w.runOp c op = .ok w') :
    Foot w.tid w.ctl w'.ctl := by
  cases op
  case «lazy» => exact lazyStage_foot h
  case blockOn => exact blockOnStage_foot h
  case wake => exact wakeStage_foot h
  case wakeRef => exact wakeStage_foot h
  case wakeQ => exact wakeStage_foot h
  case awTake => exact awTakeStage_foot h
  case tls k =>
    simp only [World.runOp] at h
    split at h
    · cases h
    · next h1 =>
      cases h
      obtain ⟨e, f⟩ := tlsGet_foot h1
      rw [ctl_complete, e]; exact f.modify _
  case tlsTry k =>
    simp only [World.runOp] at h
    split at h
    · next h1 =>
      cases h
      obtain ⟨e, f⟩ := tlsGet_foot h1
      rw [ctl_complete, e]; exact f.modify _
    · next h1 =>
      cases h
      obtain ⟨e, f⟩ := tlsGet_foot h1
      rw [ctl_complete, e]; exact f.modify _
  case tlsNest k j =>
    simp only [World.runOp] at h
    split at h
    · cases h
    · next h1 =>
      split at h
      · cases h
      · next h2 =>
        cases h
        obtain ⟨e1, f1⟩ := tlsGet_foot h1
        obtain ⟨e2, f2⟩ := tlsGet_foot h2
        rw [e1] at f2 e2
        rw [ctl_complete, e2]; exact (f1.trans f2).modify _
  all_goals (simp only [World.runOp] at h; fs_foot3 h)


/-! ### the epilogue -/

theorem foldl_drops_ctl (l : List Nat) (w : World) :
    (l.foldl (fun w k => { w with tlsDrops := w.tlsDrops.set k (w.tlsDrops.getD k 0 + 1) }) w).ctl = w.ctl ∧
    (l.foldl (fun w k => { w with tlsDrops := w.tlsDrops.set k (w.tlsDrops.getD k 0 + 1) }) w).tid = w.tid := by
  induction l generalizing w with
  | nil => exact ⟨rfl, rfl⟩
  | cons a l ih =>
    rw [List.foldl_cons]
    exact ⟨(ih _).1.trans rfl, (ih _).2.trans rfl⟩

theorem dropLocals_foot (w : World) : w.dropLocals.tid = w.tid ∧ Foot w.tid w.ctl w.dropLocals.ctl := by
  unfold World.dropLocals
  dsimp only
  generalize hl : List.filterMap _ _ = live
  have hf := foldl_drops_ctl live
    (w.modCtl w.tid fun c => { c with locals := c.locals.map fun (k, _) => (k, none) })
  have base : Foot w.tid w.ctl (List.foldl
      (fun w k => { w with tlsDrops := w.tlsDrops.set k (w.tlsDrops.getD k 0 + 1) })
      (w.modCtl w.tid fun c => { c with locals := c.locals.map fun (k, _) => (k, none) }) live).ctl := by
    rw [hf.1]; exact (Foot.refl _ _).modify _
  have htid := hf.2
  split
  · exact ⟨htid, by rw [ctl_modCtl]; exact base.modify _⟩
  · split
    · split
      · exact ⟨htid, base⟩
      · obtain ⟨e, f⟩ := tlsGet_ctl (List.foldl
          (fun w k => { w with tlsDrops := w.tlsDrops.set k (w.tlsDrops.getD k 0 + 1) })
          (w.modCtl w.tid fun c => { c with locals := c.locals.map fun (k, _) => (k, none) }) live) 1
        rw [htid] at f
        exact ⟨e.trans htid, base.trans f⟩
    · exact ⟨htid, base⟩
  · exact ⟨htid, base⟩

theorem dropPass_foot {w w' : World} {c : TCtl} {base : Nat} {done : World → Except Panic World}
    (hd : ∀ w2, done w = .ok w2 → Foot w.tid w.ctl w2.ctl)
    (h : w.dropPass c base done = .ok w') : Foot w.tid w.ctl w'.ctl := by
  unfold World.dropPass at h
  mt_split h
  all_goals first
    | (cases h; done)
    | (cases h
       obtain ⟨e, f⟩ := dropLocals_foot w
       rw [ctl_modCtl]; exact f.modify _)
    | exact hd _ h
    | (have f := primStart_foot h
       exact ((Foot.refl _ _).modify _).trans f)
    | (fs_sat3; (try cases h); simp_all [Same]; done)

theorem finishThread_foot {w w' : World} {c : TCtl} (h : w.finishThread c = .ok w') :
    Foot w.tid w.ctl w'.ctl := by
  unfold World.finishThread at h
  split at h
  · cases h
  · refine dropPass_foot ?_ h
    intro w2 h2
    rw [threadDone_ctl h2, ctl_modCtl]
    exact (Foot.refl _ _).modify _

theorem runEpilogue_foot {w w' : World} {c : TCtl} (h : w.runEpilogue c = .ok w') :
    Foot w.tid w.ctl w'.ctl := by
  unfold World.runEpilogue at h
  mt_split h
  all_goals first
    | (cases h; done)
    | exact finishThread_foot h
    | (cases h; rw [ctl_modCtl]; exact (Foot.refl _ _).modify _)
    | (refine dropPass_foot ?_ h
       intro w2 h2
       first
         | (cases h2; exact Foot.refl _ _)
         | (rw [branch_ctl h2, ctl_modCtl]; exact (Foot.refl _ _).modify _))
    | (fs_sat3; (try cases h); simp_all [Same]; done)

/-- one stage of the active thread writes only its own control record (and may append records) -/
theorem stepActive_foot {w w' : World} (h : w.stepActive = .ok w') : Foot w.tid w.ctl w'.ctl := by
  unfold World.stepActive at h
  simp only [] at h
  split at h
  · exact runOp_foot h
  · exact runEpilogue_foot h

/-- … hence the control record of every OTHER thread that has one is kept -/
theorem stepActive_other {w w' : World} (h : w.stepActive = .ok w') (t : Nat) (ht : t ≠ w.tid)
    (hin : t < w.ctl.length) : w'.ctl[t]? = w.ctl[t]? :=
  (stepActive_foot h).2 t ht hin

end Foot
end LoomVerif

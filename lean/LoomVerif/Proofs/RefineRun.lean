/-
Refinement, part 6: the initial world is related to the initial reference state, and the one-step simulation
lifts to whole runs of `World.runLoop`: the event log of the twin is the trace of an execution of the data
semantics.
-/
import LoomVerif.Proofs.RefineStep2
import LoomVerif.Proofs.InterpMaxTh

namespace LoomVerif
namespace Refine

/-! ### the loops of `World.init` -/

theorem forIn_pure {α β} (l : List α) (init : List β) (x : β) :
    (forIn l init (fun _ s => (pure (ForInStep.yield (s ++ [x])) : Except Panic (ForInStep (List β))))) =
      .ok (init ++ List.replicate l.length x) := by
  induction l generalizing init with
  | nil => simp [pure, Except.pure]
  | cons a l ih =>
    rw [List.forIn_cons]
    simp only [pure, Except.pure, bind, Except.bind]
    have := ih (init ++ [x])
    simp only [pure, Except.pure] at this
    rw [this]
    simp [List.replicate_succ]

theorem forIn_try {α β γ} (l : List α) (init : List β) (f : Except Panic γ) (g : γ → β) (r : List β)
    (h : (forIn l init (fun _ s => do let a ← f; pure (ForInStep.yield (s ++ [g a])))) = .ok r) :
    ∃ ext : List β, r = init ++ ext ∧ ext.length = l.length := by
  cases f with
  | error e =>
    cases l with
    | nil => simp [pure, Except.pure] at h; exact ⟨[], by simp [h]⟩
    | cons a l => rw [List.forIn_cons] at h; simp [bind, Except.bind] at h
  | ok v =>
    have : (fun (_ : α) (s : List β) =>
        (do let a ← (Except.ok v : Except Panic γ); pure (ForInStep.yield (s ++ [g a])) :
          Except Panic (ForInStep (List β)))) = fun _ s => pure (ForInStep.yield (s ++ [g v])) := rfl
    rw [this, forIn_pure] at h
    cases h
    exact ⟨_, rfl, by simp⟩

theorem forIn_pair {α β γ} (l : List α) (init : List β × List γ) (F : List β → List β)
    (G : List β × List γ → List γ) (hF : ∀ s, ∃ e, F s = s ++ e) (r : List β × List γ)
    (h : (forIn l init (fun _ s => (pure (ForInStep.yield (F s.1, G s)) : Except Panic _))) = .ok r) :
    ∃ ext : List β, r.1 = init.1 ++ ext := by
  induction l generalizing init with
  | nil => simp [pure, Except.pure] at h; exact ⟨[], by simp [h]⟩
  | cons a l ih =>
    rw [List.forIn_cons] at h
    simp only [pure, Except.pure, bind, Except.bind] at h
    obtain ⟨ext, h1⟩ := ih _ h
    obtain ⟨e, he⟩ := hF init.1
    exact ⟨e ++ ext, by rw [h1]; simp [he]⟩

/-- the thread table at the start of an iteration (`Exec.new`, `Exec.step`): the main thread alone, active -/
def FreshExec (e : Exec) : Prop := e.threads.threads.length = 1 ∧ e.threads.active = some 0

theorem freshExec_new (mt mb : Nat) (b : Option Nat) (x : Bool) : FreshExec (Exec.new mt mb b x) := ⟨rfl, rfl⟩

theorem freshExec_step {e e' : Exec} (h : e.step = some e') : FreshExec e' := by
  unfold Exec.step at h
  cases hp : e.path.step with
  | none => rw [hp] at h; cases h
  | some p => rw [hp] at h; cases h; exact ⟨rfl, rfl⟩

/-- the objects `World.init` creates: the atomics, then the cells (value 0), then the mutexes (free), … -/
theorem init_shape {prog : Prog} {e : Exec} {w : World} (h : World.init prog e = .ok w) :
    w.prog = prog ∧ w.ctl = [{}] ∧ w.spawned = [] ∧ w.events = [] ∧ w.exec.threads = e.threads ∧
    ∃ A rest : List Obj, A.length = prog.cfg.nAtomics ∧
      w.exec.objs = A ++ List.replicate prog.cfg.nCells
          (.cell { readAccess := e.threads.caus, writeAccess := e.threads.caus }) ++
        List.replicate prog.cfg.nMutexes (.mutex {}) ++ rest := by
  unfold World.init at h
  simp only [Except.bind_eq_ok'] at h
  obtain ⟨a1, h1, a2, h2, a3, h3, a4, h4, a5, h5, a6, h6, a7, h7, a8, h8, h⟩ := h
  cases h
  refine ⟨rfl, rfl, rfl, rfl, rfl, ?_⟩
  obtain ⟨A, rfl, hA⟩ := forIn_try _ _ _ _ _ h1
  rw [forIn_pure] at h2 h3 h4 h5 h6 h7
  cases h2; cases h3; cases h4; cases h5; cases h6; cases h7
  obtain ⟨ext, hext⟩ := forIn_pair _ _ (fun s => s ++ [Obj.mutex { seqCst := true }, Obj.mutex { seqCst := false }])
    (fun s => s.2 ++ [({ slotMutex := s.1.length, awMutex := s.1.length + 1 } : FutSt)]) (fun s => ⟨_, rfl⟩) _ h8
  refine ⟨a1, List.replicate prog.cfg.nRwlocks (Obj.rwlock {}) ++
    (List.replicate prog.cfg.nCondvars (Obj.condvar {}) ++
    (List.replicate prog.cfg.nNotifies (Obj.notify { spurious := true }) ++
    (List.replicate prog.cfg.nChans (Obj.chan {}) ++ ext))), by simpa using hA, ?_⟩
  show a8.1 = _
  rw [hext]
  simp only [List.nil_append, List.length_range, List.append_assoc]

theorem getD_replicate' {α} (n i : Nat) (x d : α) (h : i < n) : (List.replicate n x).getD i d = x := by
  simp [List.getD, List.getElem?_replicate, h]

/-- **the initial world is related to the initial reference state** -/
theorem init_R {prog : Prog} {e : Exec} {w : World} (hwf : WF prog) (hf : FreshExec e)
    (h : World.init prog e = .ok w) :
    R w (data (SC.init prog)) ∧ w.prog = prog ∧ w.events = [] := by
  obtain ⟨hp, hc, hs, hev, hth, A, rest, hA, hobjs⟩ := init_shape h
  refine ⟨?_, hp, hev⟩
  have hths : (data (SC.init prog)).ths =
      (List.range prog.threads.length).map fun i => ({ started := i == 0 } : DTh) := by
    simp [data, SC.init, dth, List.map_map, Function.comp_def]
  have hget : ∀ b, b < prog.threads.length →
      (data (SC.init prog)).ths.getD b {} = ({ started := b == 0 } : DTh) := by
    intro b hb
    rw [hths]
    simp [List.getD, hb]
  refine R.mk' (p := prog) (ctl := [{}]) (sp := []) hp hc hs ?_ ?_ ?_
  · rw [hth, hf.1]; rfl
  · refine ⟨by rw [hths]; simp, ⟨by simp, rfl⟩, ?_, ?_, ?_, ?_, ?_⟩
    · intro i hi
      have : i = 0 := by simpa using hi
      subst this
      refine ⟨hwf.1, ?_⟩
      show ThRel ({} : TCtl) ((data (SC.init prog)).ths.getD 0 {})
      rw [hget 0 hwf.1]
      exact ⟨rfl, rfl, rfl, rfl, Nat.zero_le _, rfl, rfl⟩
    · intro i hi hne
      have : i = 0 := by simpa using hi
      subst this
      exact absurd rfl hne
    · intro i j hi hj _
      have : i = 0 := by simpa using hi
      have : j = 0 := by simpa using hj
      omega
    · intro b hb hidle
      have hb0 : b ≠ 0 := by
        intro e0
        exact hidle 0 (by simp) (by rw [e0]; rfl)
      rw [hget b hb]
      have : (b == 0) = false := by simpa using hb0
      rw [this]
    · intro i hi0 hi
      have : i = 0 := by simpa using hi
      omega
  · have hcells : (data (SC.init prog)).cells = List.replicate prog.cfg.nCells 0 := rfl
    have hmutex : (data (SC.init prog)).mutex = List.replicate prog.cfg.nMutexes none := rfl
    rw [hcells, hmutex, hobjs]
    refine ⟨by simp, by simp, ?_, ?_, ?_, ?_⟩
    · intro c hc'
      rw [getD_replicate' _ _ _ _ hc']
      unfold objView
      rw [List.append_assoc, List.append_assoc, List.getElem?_append_right (by omega)]
      rw [List.getElem?_append_left (by simp; omega)]
      simp [List.getElem?_replicate, hA, hc', view]
    · intro m hm
      refine ⟨none, ?_, ?_, by intro i hi; cases hi⟩
      · unfold objView
        rw [List.append_assoc, List.append_assoc, List.getElem?_append_right (by omega)]
        rw [List.getElem?_append_right (by simp; omega)]
        rw [List.getElem?_append_left (by simp; omega)]
        simp [List.getElem?_replicate, hA, hm, view]
        omega
      · rw [getD_replicate' _ _ _ _ hm]; rfl
    · intro b i n hmem; cases hmem
    · intro e1 e2 h1; cases h1

/-! ### runs -/

/-- the run never activates a thread that does not exist: at every step taken, the active thread has a control
record.  (A path to replay can name any thread index.  Real loom indexes its thread vector with it and panics;
so does the twin since `Exec.schedule` checks the index (`.internal 31`).  Before that check the twin's
`Threads.get` answered with a default record, and `World.ctlOf` with the default control record, which ran the
main body a second time; `saneRun` was then a hypothesis of the refinement theorem.  It is now a THEOREM for every
run from a fresh execution: `run_sane`.) -/
def saneRun : Nat → World → Bool
  | 0, _ => true
  | fuel + 1, w =>
    if !w.ths.isActive then true
    else decide (w.tid < w.ctl.length) &&
      match w.stepActive with
      | .error _ => true
      | .ok w' => saneRun fuel w'

/-- the initial world: the main thread, active, in the table -/
theorem init_inRange {prog : Prog} {e : Exec} {w : World} (hf : FreshExec e)
    (h : World.init prog e = .ok w) : InRange w := by
  obtain ⟨_, _, _, _, hth, _⟩ := init_shape h
  intro _
  show w.exec.threads.activeId < w.exec.threads.threads.length
  rw [hth, hf.1]
  unfold Threads.activeId
  rw [hf.2]
  exact Nat.lt_succ_self 0

theorem triple_step {evs evs' : List Event} {t : Nat} {l : Option (Nat × Ret)}
    (h : evs'.map triple = SCData.label t l ++ evs.map triple) :
    evs'.reverse.map triple = evs.reverse.map triple ++ SCData.label t l := by
  rw [List.map_reverse, h, List.reverse_append, List.map_reverse]
  congr 1
  cases l with
  | none => rfl
  | some x => rfl

/-- the simulation along `runLoop` -/
theorem runLoop_sim (p : Prog) (d0 : SCData) (hwf : WF p) :
    ∀ (fuel : Nat) (w w' : World) (s : SCData), w.prog = p → R w s → InRange w →
      SCData.Run p d0 (w.events.reverse.map triple) s →
      World.runLoop fuel w = (w', none) →
      ∃ s', SCData.Run p d0 (w'.events.reverse.map triple) s' ∧ R w' s' ∧ w'.prog = p := by
  intro fuel
  induction fuel with
  | zero =>
    intro w w' s _ _ _ _ h
    simp [World.runLoop] at h
  | succ fuel ih =>
    intro w w' s hp hR hrange hrun h
    unfold World.runLoop at h
    split at h
    · cases h
      exact ⟨s, hrun, hR, hp⟩
    · next hact =>
      have hact' : w.ths.isActive = true := by simpa using hact
      have hin : w.tid < w.ctl.length := by rw [hR.lenCtl]; exact hrange hact'
      split at h
      · cases h
      · next w1 hstep =>
        have hr1 : InRange w1 := step_inRange (by rw [hp]; exact hwf) hR hin hstep
        obtain ⟨hp1, hsim⟩ := step_sim (by rw [hp]; exact hwf) hR hin hstep
        rcases hsim with ⟨hR1, hev⟩ | ⟨l, s1, hen, hst, hR1, hev⟩
        · exact ih w1 w' s (hp1.trans hp) hR1 hr1 (by rw [hev]; exact hrun) h
        · rw [hp] at hen hst
          refine ih w1 w' s1 (hp1.trans hp) hR1 hr1 ?_ h
          rw [triple_step hev]
          exact SCData.Run.step hrun hen hst

/-- every run from a related world whose active thread exists is sane: at every step the active thread has a
control record (whether or not the run completes, panics or runs out of fuel) -/
theorem saneRun_of_R (p : Prog) (hwf : WF p) :
    ∀ (fuel : Nat) (w : World) (s : SCData), w.prog = p → R w s → InRange w → saneRun fuel w = true := by
  intro fuel
  induction fuel with
  | zero => intro w s _ _ _; rfl
  | succ fuel ih =>
    intro w s hp hR hrange
    unfold saneRun
    split
    · rfl
    · next hact =>
      have hact' : w.ths.isActive = true := by simpa using hact
      have hin : w.tid < w.ctl.length := by rw [hR.lenCtl]; exact hrange hact'
      simp only [hin, decide_true, Bool.true_and]
      split
      · rfl
      · next w1 hstep =>
        have hr1 : InRange w1 := step_inRange (by rw [hp]; exact hwf) hR hin hstep
        obtain ⟨hp1, hsim⟩ := step_sim (by rw [hp]; exact hwf) hR hin hstep
        rcases hsim with ⟨hR1, _⟩ | ⟨_, s1, _, _, hR1, _⟩
        · exact ih w1 s (hp1.trans hp) hR1 hr1
        · exact ih w1 s1 (hp1.trans hp) hR1 hr1

end Refine
end LoomVerif

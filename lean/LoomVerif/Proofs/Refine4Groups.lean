/-
Refinement, FUTURES fragment, part 6: the groups of clauses of the futures part of the relation (`GS`: registration;
`GC`: the calls in progress; `GA`: the flag atomics; `GW`: the `AtomicWaker`'s mutex) are kept along the changes the
stages of the fragment make.
-/
import LoomVerif.Proofs.Refine4Frame

set_option linter.unusedSimpArgs false
set_option linter.unusedVariables false

namespace LoomVerif
namespace Refine4
open Refine Sy

/-! ### `GS` -/

/-- the master lemma for `GS`: future `f` changes on both sides -/
theorem GS.step {p : Prog} {futs : List FutSt} {nv nv' : Nat → Option (Bool × Bool × Bool)} {df : List DFut}
    (h : GS p futs nv df) {f : Nat} (hf : f < p.cfg.nFutures) (G : FutSt → FutSt) (g : DFut → DFut)
    (hmtx : (G (futs.getD f {})).slotMutex = (futs.getD f {}).slotMutex ∧
      (G (futs.getD f {})).awMutex = (futs.getD f {}).awMutex)
    (hslot : (g (df.getD f {})).slot = ((G (futs.getD f {})).slot || (G (futs.getD f {})).awWaker))
    (hkS : (G (futs.getD f {})).slot = true → isKind p f 0)
    (hkA : (G (futs.getD f {})).awWaker = true → isKind p f 1)
    (hle : (g (df.getD f {})).slotGen ≤ (g (df.getD f {})).gen)
    (hgS : (G (futs.getD f {})).slot = true → (g (df.getD f {})).slotGen = (g (df.getD f {})).gen)
    (hgA : (G (futs.getD f {})).awWaker = true →
      ((g (df.getD f {})).slotGen = (g (df.getD f {})).gen ↔
        (G (futs.getD f {})).awNotify = (G (futs.getD f {})).notify) ∧
      ∃ nt ds, nv' (G (futs.getD f {})).awNotify = some (true, nt, ds))
    (hnv : ∀ k nt ds, nv k = some (true, nt, ds) → ∃ nt' ds', nv' k = some (true, nt', ds')) :
    GS p (futs.modify f G) nv' (df.modify f g) := by
  have hfl : f < futs.length := by rw [h.lenF]; exact hf
  have hdl : f < df.length := by rw [h.lenDF]; exact hf
  refine ⟨by simpa using h.lenF, by simpa using h.lenDF, ?_, ?_, ?_, ?_, ?_, ?_, ?_⟩
  · intro f' hf'
    by_cases e : f' = f
    · subst e
      rw [getD_modify_self _ _ _ _ hfl, hmtx.1, hmtx.2]
      exact h.mtx f' hf'
    · rw [getD_modify_ne _ _ _ _ _ e]; exact h.mtx f' hf'
  · intro f' hf'
    by_cases e : f' = f
    · subst e
      rw [getD_modify_self _ _ _ _ hfl, getD_modify_self _ _ _ _ hdl]
      exact hslot
    · rw [getD_modify_ne _ _ _ _ _ e, getD_modify_ne _ _ _ _ _ e]; exact h.slot f' hf'
  · intro f' hf'
    by_cases e : f' = f
    · subst e
      rw [getD_modify_self _ _ _ _ hfl]
      exact hkS
    · rw [getD_modify_ne _ _ _ _ _ e]; exact h.kindS f' hf'
  · intro f' hf'
    by_cases e : f' = f
    · subst e
      rw [getD_modify_self _ _ _ _ hfl]
      exact hkA
    · rw [getD_modify_ne _ _ _ _ _ e]; exact h.kindA f' hf'
  · intro f' hf'
    by_cases e : f' = f
    · subst e
      rw [getD_modify_self _ _ _ _ hdl]
      exact hle
    · rw [getD_modify_ne _ _ _ _ _ e]; exact h.genLe f' hf'
  · intro f' hf'
    by_cases e : f' = f
    · subst e
      rw [getD_modify_self _ _ _ _ hfl, getD_modify_self _ _ _ _ hdl]
      exact hgS
    · rw [getD_modify_ne _ _ _ _ _ e, getD_modify_ne _ _ _ _ _ e]; exact h.genS f' hf'
  · intro f' hf'
    by_cases e : f' = f
    · subst e
      rw [getD_modify_self _ _ _ _ hfl, getD_modify_self _ _ _ _ hdl]
      exact hgA
    · rw [getD_modify_ne _ _ _ _ _ e, getD_modify_ne _ _ _ _ _ e]
      intro hw
      obtain ⟨h1, nt, ds, h2⟩ := h.genA f' hf' hw
      exact ⟨h1, hnv _ _ _ h2⟩

/-- only the `Notify` objects change, and none stops being the `Notify` of a call -/
theorem GS.nv {p : Prog} {futs : List FutSt} {nv nv' : Nat → Option (Bool × Bool × Bool)} {df : List DFut}
    (h : GS p futs nv df)
    (hnv : ∀ k nt ds, nv k = some (true, nt, ds) → ∃ nt' ds', nv' k = some (true, nt', ds')) :
    GS p futs nv' df := by
  refine ⟨h.lenF, h.lenDF, h.mtx, h.slot, h.kindS, h.kindA, h.genLe, h.genS, ?_⟩
  intro f hf hw
  obtain ⟨h1, nt, ds, h2⟩ := h.genA f hf hw
  exact ⟨h1, hnv _ _ _ h2⟩

/-- only the reference side of future `f` changes, in fields the group does not read -/
theorem GS.df {p : Prog} {futs : List FutSt} {nv : Nat → Option (Bool × Bool × Bool)} {df : List DFut}
    (h : GS p futs nv df) (f : Nat) (g : DFut → DFut)
    (hg : (g (df.getD f {})).slot = (df.getD f {}).slot ∧ (g (df.getD f {})).gen = (df.getD f {}).gen ∧
      (g (df.getD f {})).slotGen = (df.getD f {}).slotGen) :
    GS p futs nv (df.modify f g) := by
  by_cases hf : f < p.cfg.nFutures
  · have := h.step (nv' := nv) hf id g ⟨rfl, rfl⟩ (by rw [hg.1]; exact h.slot f hf) (h.kindS f hf) (h.kindA f hf)
      (by rw [hg.2.1, hg.2.2]; exact h.genLe f hf) (by rw [hg.2.1, hg.2.2]; exact h.genS f hf)
      (by rw [hg.2.1, hg.2.2]; exact h.genA f hf) (fun k nt ds hk => ⟨nt, ds, hk⟩)
    rwa [modify_id' _ _ id (fun _ => rfl)] at this
  · have : df.modify f g = df := by
      apply modify_eq_self
      intro a ha
      have := (List.getElem?_eq_some_iff.1 ha).1
      rw [h.lenDF] at this
      exact absurd this hf
    rw [this]; exact h

/-! ### `GA` -/

theorem nInfl_upd_ge (ia : Nat → Option Nat) (a x n : Nat) (v : Option Nat) (h : n ≤ a) :
    nInfl (upd ia a v) x n = nInfl ia x n := by
  induction n with
  | zero => rfl
  | succ k ih =>
    simp only [nInfl]
    rw [ih (by omega), upd_ne _ _ (by omega)]

/-- the number of stores in flight when thread `a` changes its attribute -/
theorem nInfl_upd (ia : Nat → Option Nat) (a x n : Nat) (v : Option Nat) (ha : a < n) :
    nInfl (upd ia a v) x n + (if ia a = some x then 1 else 0) = nInfl ia x n + (if v = some x then 1 else 0) := by
  induction n with
  | zero => omega
  | succ k ih =>
    simp only [nInfl]
    by_cases e : a = k
    · subst e
      rw [nInfl_upd_ge _ _ _ _ _ (Nat.le_refl _), upd_self]
      omega
    · have := ih (by omega)
      rw [upd_ne _ _ (fun e' => e e'.symm)]
      omega

/-- one more thread, without a store in flight -/
theorem nInfl_succ (ia : Nat → Option Nat) (x n : Nat) (h : ia n = none) : nInfl ia x (n + 1) = nInfl ia x n := by
  simp [nInfl, h]

/-- a flag store has taken effect; its reference step is still to come -/
theorem GA.enter {p : Prog} {n : Nat} {ia : Nat → Option Nat} {av : Nat → Option (Nat × Bool × Nat)}
    {atoms : List Int} (h : GA p n ia av atoms) {a x v c : Nat} {b : Bool} (ha : a < n) (hx : x < p.cfg.nAtomics)
    (hia : ia a = none) (hav : av x = some (v, b, c)) :
    GA p n (upd ia a (some x)) (upd av x (some (p.cfg.ty.intoU64 1, true, c + 1))) atoms := by
  have h1 : p.cfg.ty.fromU64 (p.cfg.ty.intoU64 1) = 1 := by cases p.cfg.ty <;> decide
  refine ⟨h.lenA, ?_⟩
  intro x' hx'
  have hn := nInfl_upd ia a x' n (some x) ha
  rw [hia] at hn
  simp only [reduceCtorEq, if_false, Nat.add_zero] at hn
  by_cases e : x' = x
  · subst e
    obtain ⟨v0, c0, h0, hc, h2, h3, h4, _⟩ := h.atom x' hx'
    rw [hav] at h0
    cases h0
    simp only [if_true] at hn
    refine ⟨_, _, upd_self _ _ _, by omega, h2, by omega, ?_, ?_⟩
    · rw [h4]; omega
    · rw [h1, if_pos (by omega)]
  · obtain ⟨v0, c0, h0, hc, h2, h3, h4, h5⟩ := h.atom x' hx'
    have e' : ¬ some x = some x' := by intro e2; cases e2; exact e rfl
    simp only [e', if_false, Nat.add_zero] at hn
    exact ⟨v0, c0, by rw [upd_ne _ _ e]; exact h0, hc, h2, by rw [hn]; exact h3, by rw [hn]; exact h4, h5⟩

/-- the reference step of a thread whose flag store was in flight -/
theorem GA.lin {p : Prog} {n : Nat} {ia : Nat → Option Nat} {av : Nat → Option (Nat × Bool × Nat)}
    {atoms : List Int} (h : GA p n ia av atoms) {a x : Nat} (ha : a < n) (hx : x < p.cfg.nAtomics)
    (hia : ia a = some x) : GA p n (upd ia a none) av (atoms.set x 1) := by
  refine ⟨by simpa using h.lenA, ?_⟩
  intro x' hx'
  have hn := nInfl_upd ia a x' n none ha
  rw [hia] at hn
  simp only [reduceCtorEq, if_false, Nat.add_zero] at hn
  by_cases e : x' = x
  · subst e
    obtain ⟨v0, c0, h0, hc, h2, h3, h4, h5⟩ := h.atom x' hx'
    simp only [if_true] at hn
    rw [getD_set_self' _ _ _ _ (by rw [h.lenA]; exact hx')]
    refine ⟨v0, c0, h0, hc, .inr rfl, by omega, ?_, h5⟩
    exact ⟨fun _ => by omega, fun _ => rfl⟩
  · obtain ⟨v0, c0, h0, hc, h2, h3, h4, h5⟩ := h.atom x' hx'
    have e' : ¬ some x = some x' := by intro e2; cases e2; exact e rfl
    simp only [e', if_false, Nat.add_zero] at hn
    rw [getD_set_ne _ _ _ _ _ e]
    exact ⟨v0, c0, h0, hc, h2, by rw [hn]; exact h3, by rw [hn]; exact h4, h5⟩

/-- a direct flag store: effect and reference step in one stage -/
theorem GA.store {p : Prog} {n : Nat} {ia : Nat → Option Nat} {av : Nat → Option (Nat × Bool × Nat)}
    {atoms : List Int} (h : GA p n ia av atoms) {x v c : Nat} {b : Bool} (hx : x < p.cfg.nAtomics)
    (hav : av x = some (v, b, c)) :
    GA p n ia (upd av x (some (p.cfg.ty.intoU64 1, true, c + 1))) (atoms.set x 1) := by
  have h1 : p.cfg.ty.fromU64 (p.cfg.ty.intoU64 1) = 1 := by cases p.cfg.ty <;> decide
  refine ⟨by simpa using h.lenA, ?_⟩
  intro x' hx'
  by_cases e : x' = x
  · subst e
    obtain ⟨v0, c0, h0, hc, h2, h3, h4, _⟩ := h.atom x' hx'
    rw [hav] at h0
    cases h0
    rw [getD_set_self' _ _ _ _ (by rw [h.lenA]; exact hx')]
    refine ⟨_, _, upd_self _ _ _, by omega, .inr rfl, by omega, ?_, ?_⟩
    · exact ⟨fun _ => by omega, fun _ => rfl⟩
    · rw [h1, if_pos (by omega)]
  · obtain ⟨v0, c0, h0, hc, h2, h3, h4, h5⟩ := h.atom x' hx'
    rw [getD_set_ne _ _ _ _ _ e]
    exact ⟨v0, c0, by rw [upd_ne _ _ e]; exact h0, hc, h2, h3, h4, h5⟩

/-- the reference's value of a flag: 1 iff more stores have been performed than are in flight -/
theorem GA.read {p : Prog} {n : Nat} {ia : Nat → Option Nat} {av : Nat → Option (Nat × Bool × Nat)}
    {atoms : List Int} (h : GA p n ia av atoms) {x v c : Nat} {b : Bool} (hx : x < p.cfg.nAtomics)
    (hv : av x = some (v, b, c)) : atoms.getD x 0 = if nInfl ia x n < c - 1 then 1 else 0 := by
  obtain ⟨v', c', h0, _, h2, _, h4, _⟩ := h.atom x hx
  rw [hv] at h0
  cases h0
  by_cases hlt : nInfl ia x n < c - 1
  · rw [if_pos hlt]; exact h4.2 hlt
  · rw [if_neg hlt]
    rcases h2 with e0 | e1
    · exact e0
    · exact absurd (h4.1 e1) hlt

/-! ### `GW` -/

/-- a mutex other than an `AtomicWaker`'s changes hands -/
theorem GW.other {p : Prog} {n : Nat} {wa : Nat → Option Nat} {futs : List FutSt} {mv : Nat → Option (Option Nat)}
    (h : GW p n wa futs mv) {f : Nat} (l : Option (Option Nat)) : GW p n wa futs (upd mv (mbase p + 2 * f) l) := by
  refine ⟨?_⟩
  intro f' hf'
  rw [upd_ne _ _ (by omega)]
  exact h.awFree f' hf'

/-- the registering call keeps the `AtomicWaker`'s mutex while it drops the waker it has replaced -/
theorem GW.lock {p : Prog} {n : Nat} {wa : Nat → Option Nat} {futs : List FutSt} {mv : Nat → Option (Option Nat)}
    (h : GW p n wa futs mv) {a f : Nat} (ha : a < n) (hwa : wa a = none) :
    GW p n (upd wa a (some f)) futs (upd mv (mbase p + 2 * f + 1) (some (some a))) := by
  refine ⟨?_⟩
  intro f' hf'
  by_cases e : f' = f
  · subst e
    refine ⟨some a, upd_self _ _ _, ?_⟩
    intro t ht; cases ht
    exact ⟨ha, upd_self _ _ _⟩
  · rw [upd_ne _ _ (by omega)]
    obtain ⟨l, h1, h2⟩ := h.awFree f' hf'
    refine ⟨l, h1, ?_⟩
    intro t ht
    obtain ⟨h3, h4⟩ := h2 t ht
    have : t ≠ a := by intro e'; subst e'; rw [hwa] at h4; cases h4
    exact ⟨h3, by rw [upd_ne _ _ this]; exact h4⟩

/-- … and releases it -/
theorem GW.unlock {p : Prog} {n : Nat} {wa : Nat → Option Nat} {futs : List FutSt} {mv : Nat → Option (Option Nat)}
    (h : GW p n wa futs mv) {a f : Nat} (hf : f < p.cfg.nFutures) (hwa : wa a = some f) :
    GW p n (upd wa a none) futs (upd mv (mbase p + 2 * f + 1) (some none)) := by
  refine ⟨?_⟩
  intro f' hf'
  by_cases e : f' = f
  · subst e
    exact ⟨none, upd_self _ _ _, fun t ht => by cases ht⟩
  · rw [upd_ne _ _ (by omega)]
    obtain ⟨l, h1, h2⟩ := h.awFree f' hf'
    refine ⟨l, h1, ?_⟩
    intro t ht
    obtain ⟨h3, h4⟩ := h2 t ht
    have : t ≠ a := by intro e'; subst e'; rw [hwa] at h4; cases h4; exact e rfl
    exact ⟨h3, by rw [upd_ne _ _ this]; exact h4⟩

theorem GW.futs {p : Prog} {n : Nat} {wa : Nat → Option Nat} {futs futs' : List FutSt}
    {mv : Nat → Option (Option Nat)} (h : GW p n wa futs mv) : GW p n wa futs' mv := ⟨h.awFree⟩

/-- the `AtomicWaker`'s mutex of future `f` is free when a thread `a` that does not hold it looks at it -/
theorem GW.free {p : Prog} {n : Nat} {wa : Nat → Option Nat} {futs : List FutSt} {mv : Nat → Option (Option Nat)}
    (h : GW p n wa futs mv) {f : Nat} (hf : f < p.cfg.nFutures) (hno : ∀ t, t < n → wa t ≠ some f) :
    mv (mbase p + 2 * f + 1) = some none := by
  obtain ⟨l, h1, h2⟩ := h.awFree f hf
  cases l with
  | none => exact h1
  | some t => exact absurd (h2 t rfl).2 (hno t (h2 t rfl).1)

end Refine4
end LoomVerif

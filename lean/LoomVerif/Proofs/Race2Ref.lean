/-
Race exactness on the WAIT fragment, part 5: the reference side.  The state transformers of `SC.step` are the
operations of the clock algebra (`LinkR2.*`); `SC.step` / `SC.spurious` spelled out for the operations the lock
fragment does not have.
-/
import LoomVerif.Proofs.Race2Defs

namespace LoomVerif
namespace Race2
open Refine Refine2 Clocks Race

theorem tokvc_modTh (s : SC.St) (t u : Nat) (f : SC.Th → SC.Th) (hf : ∀ a, (f a).tokenVC = a.tokenVC) :
    ((s.modTh t f).th u).tokenVC = (s.th u).tokenVC := by
  rw [Refine.th_modTh _ _ _ _ (.inr trivial)]
  split
  · exact hf _
  · rfl

theorem modTh_len (s : SC.St) (t : Nat) (f : SC.Th → SC.Th) : (s.modTh t f).ths.length = s.ths.length := by
  simp [SC.St.modTh]

theorem tick_len2 (s : SC.St) (t : Nat) : (s.tick t).ths.length = s.ths.length := modTh_len _ _ _
theorem acquire_len (s : SC.St) (t : Nat) (c : VV) : (s.acquire t c).ths.length = s.ths.length := modTh_len _ _ _
theorem ret_len (s : SC.St) (t : Nat) (r : Ret) : (s.ret t r).ths.length = s.ths.length := modTh_len _ _ _

section
variable {p : Prog} {s : SC.St} {σ : CS} {mq : Nat → List VV}

/-- a state that differs from `s` in nothing the link reads -/
theorem LinkR2.same (h : LinkR2 p s σ mq) (s' : SC.St) (h1 : ∀ b, s'.vc b = s.vc b)
    (h1' : ∀ b, (s'.th b).tokenVC = (s.th b).tokenVC) (h2 : s'.mutexRel = s.mutexRel) (hn : s'.nRel = s.nRel)
    (hc : s'.chanRel = s.chanRel) (hq : s'.chan = s.chan)
    (h3 : s'.cellW = s.cellW) (h4 : s'.cellR = s.cellR) (h5 : s'.cellWOpen = s.cellWOpen)
    (h6 : s'.cellOpen = s.cellOpen) : LinkR2 p s' σ mq :=
  ⟨fun b => by rw [h1]; exact h.thr b, fun m hm => by rw [h2]; exact h.mtx m hm,
   fun n hn' => by rw [hn]; exact h.ntf n hn', fun q hq' => by rw [hc]; exact h.chn q hq',
   fun b => by rw [h1']; exact h.tok b, fun q hq' => by rw [hq]; exact h.msg q hq',
   fun c => by rw [h3]; exact h.accW c, fun c => by rw [h4]; exact h.accR c,
   by rw [h2]; exact h.lenM, by rw [hn]; exact h.lenN, by rw [hc]; exact h.lenC, by rw [hq]; exact h.lenQ,
   by rw [h3]; exact h.lenW, by rw [h4]; exact h.lenR, fun c => by rw [h5]; exact h.opnW c,
   fun c => by rw [h6]; exact h.opnR c⟩

/-- a change of the thread clocks alone -/
theorem LinkR2.thrOnly (h : LinkR2 p s σ mq) (s' : SC.St) (σ' : CS) (h1 : ∀ b, σ'.thr b = s'.vc b)
    (hm : σ'.mtx = σ.mtx) (ha : σ'.acc = σ.acc)
    (h1' : ∀ b, (s'.th b).tokenVC = (s.th b).tokenVC) (h2 : s'.mutexRel = s.mutexRel) (hn : s'.nRel = s.nRel)
    (hc : s'.chanRel = s.chanRel) (hq : s'.chan = s.chan)
    (h3 : s'.cellW = s.cellW) (h4 : s'.cellR = s.cellR) (h5 : s'.cellWOpen = s.cellWOpen)
    (h6 : s'.cellOpen = s.cellOpen) : LinkR2 p s' σ' mq :=
  ⟨h1, fun m hm' => by rw [hm, h2]; exact h.mtx m hm',
   fun n hn' => by rw [hm, hn]; exact h.ntf n hn', fun q hq' => by rw [hm, hc]; exact h.chn q hq',
   fun b => by rw [hm, h1']; exact h.tok b, fun q hq' => by rw [hq]; exact h.msg q hq',
   fun c => by rw [ha, h3]; exact h.accW c, fun c => by rw [ha, h4]; exact h.accR c,
   by rw [h2]; exact h.lenM, by rw [hn]; exact h.lenN, by rw [hc]; exact h.lenC, by rw [hq]; exact h.lenQ,
   by rw [h3]; exact h.lenW, by rw [h4]; exact h.lenR, fun c => by rw [h5]; exact h.opnW c,
   fun c => by rw [h6]; exact h.opnR c⟩

theorem LinkR2.tick (h : LinkR2 p s σ mq) {t : Nat} (ht : t < s.ths.length) : LinkR2 p (s.tick t) (σ.tick t) mq := by
  refine h.thrOnly _ _ ?_ rfl rfl (fun b => tokvc_modTh _ _ _ _ fun _ => rfl) rfl rfl rfl rfl rfl rfl rfl rfl
  intro b
  rw [vc_tick _ _ _ ht]
  show upd σ.thr t _ b = _
  by_cases e : b = t
  · subst e; rw [upd_self, upd_self, h.thr]
  · rw [upd_ne _ _ e, upd_ne _ _ e, h.thr]

theorem LinkR2.acquire (h : LinkR2 p s σ mq) {t : Nat} (ht : t < s.ths.length) (Z : VV) :
    LinkR2 p (s.acquire t Z) (σ.acq t Z) mq := by
  refine h.thrOnly _ _ ?_ rfl rfl (fun b => tokvc_modTh _ _ _ _ fun _ => rfl) rfl rfl rfl rfl rfl rfl rfl rfl
  intro b
  rw [vc_acquire _ _ _ _ ht]
  show upd σ.thr t _ b = _
  by_cases e : b = t
  · subst e; rw [upd_self, upd_self, h.thr]
  · rw [upd_ne _ _ e, upd_ne _ _ e, h.thr]

/-- a change of a thread that keeps its clock and its token clock -/
theorem LinkR2.modTh (h : LinkR2 p s σ mq) (t : Nat) (f : SC.Th → SC.Th) (hf : ∀ a, (f a).vc = a.vc)
    (hf' : ∀ a, (f a).tokenVC = a.tokenVC) : LinkR2 p (s.modTh t f) σ mq := by
  refine h.same _ ?_ (fun b => tokvc_modTh _ _ _ _ hf') rfl rfl rfl rfl rfl rfl rfl rfl
  intro b
  rw [vc_modTh]
  split
  · exact hf _
  · rfl

theorem LinkR2.ret (h : LinkR2 p s σ mq) (t : Nat) (r : Ret) : LinkR2 p (s.ret t r) σ mq :=
  h.modTh t _ (fun _ => rfl) (fun _ => rfl)

/-- a change of fields the link does not read -/
theorem LinkR2.fields (h : LinkR2 p s σ mq) (s' : SC.St) (e1 : s'.ths = s.ths) (h2 : s'.mutexRel = s.mutexRel)
    (hn : s'.nRel = s.nRel) (hc : s'.chanRel = s.chanRel) (hq : s'.chan = s.chan)
    (h3 : s'.cellW = s.cellW) (h4 : s'.cellR = s.cellR) (h5 : s'.cellWOpen = s.cellWOpen)
    (h6 : s'.cellOpen = s.cellOpen) : LinkR2 p s' σ mq := by
  refine h.same s' ?_ ?_ h2 hn hc hq h3 h4 h5 h6
  · intro b; unfold SC.St.vc SC.St.th; rw [e1]
  · intro b; unfold SC.St.th; rw [e1]

/-- slots of different kinds are different -/
theorem slot_ne (p : Prog) {m n q : Nat} (hm : m < p.cfg.nMutexes) (hn : n < p.cfg.nNotifies)
    (hq : q < p.cfg.nChans) (b : Nat) :
    m ≠ nI p n ∧ m ≠ cI p q ∧ m ≠ kI p b ∧ nI p n ≠ cI p q ∧ nI p n ≠ kI p b ∧ cI p q ≠ kI p b := by
  unfold nI cI kI
  omega

theorem nI_inj (p : Prog) {n n' : Nat} (h : nI p n = nI p n') : n = n' := by unfold nI at h; omega
theorem cI_inj (p : Prog) {n n' : Nat} (h : cI p n = cI p n') : n = n' := by unfold cI at h; omega
theorem kI_inj (p : Prog) {n n' : Nat} (h : kI p n = kI p n') : n = n' := by unfold kI at h; omega

theorem m_ne_nI (p : Prog) {m : Nat} (hm : m < p.cfg.nMutexes) (n : Nat) : m ≠ nI p n := by unfold nI; omega
theorem m_ne_cI (p : Prog) {m : Nat} (hm : m < p.cfg.nMutexes) (n : Nat) : m ≠ cI p n := by unfold cI; omega
theorem m_ne_kI (p : Prog) {m : Nat} (hm : m < p.cfg.nMutexes) (n : Nat) : m ≠ kI p n := by unfold kI; omega
theorem nI_ne_cI (p : Prog) {n : Nat} (hn : n < p.cfg.nNotifies) (q : Nat) : nI p n ≠ cI p q := by
  unfold nI cI; omega
theorem nI_ne_kI (p : Prog) {n : Nat} (hn : n < p.cfg.nNotifies) (q : Nat) : nI p n ≠ kI p q := by
  unfold nI kI; omega
theorem cI_ne_kI (p : Prog) {n : Nat} (hn : n < p.cfg.nChans) (q : Nat) : cI p n ≠ kI p q := by
  unfold cI kI; omega

/-- the release into `mutexRel` -/
theorem LinkR2.relM (h : LinkR2 p s σ mq) {t m : Nat} (hm : m < p.cfg.nMutexes) (mx : List (Option Nat))
    (cq : List (List Nat)) :
    LinkR2 p { s with mutex := mx, mutexRel := s.mutexRel.set m ((s.mutexRel.getD m VV.zero).join (s.vc t)),
                      cvQueue := cq }
      (σ.rel t m) mq := by
  refine ⟨h.thr, ?_, ?_, ?_, ?_, h.msg, h.accW, h.accR, by simpa using h.lenM, h.lenN, h.lenC, h.lenQ, h.lenW,
    h.lenR, h.opnW, h.opnR⟩
  · intro m' hm'
    show upd σ.mtx m _ m' = (s.mutexRel.set m _).getD m' VV.zero
    rw [getD_set_upd _ _ _ _ _ (by rw [h.lenM]; exact hm)]
    by_cases e : m' = m
    · subst e; rw [upd_self, upd_self, h.mtx _ hm, h.thr]
    · rw [upd_ne _ _ e, upd_ne _ _ e, h.mtx _ hm']
  · intro n hn
    show upd σ.mtx m _ (nI p n) = _
    rw [upd_ne _ _ (Ne.symm (m_ne_nI p hm n))]; exact h.ntf n hn
  · intro q hq
    show upd σ.mtx m _ (cI p q) = _
    rw [upd_ne _ _ (Ne.symm (m_ne_cI p hm q))]; exact h.chn q hq
  · intro b
    show upd σ.mtx m _ (kI p b) = _
    rw [upd_ne _ _ (Ne.symm (m_ne_kI p hm b))]; exact h.tok b

/-- the release into `nRel` -/
theorem LinkR2.relN (h : LinkR2 p s σ mq) {t n : Nat} (hn : n < p.cfg.nNotifies) (fl : List Bool) :
    LinkR2 p { s with nFlag := fl, nRel := s.nRel.set n ((s.nRel.getD n VV.zero).join (s.vc t)) }
      (σ.rel t (nI p n)) mq := by
  refine ⟨h.thr, ?_, ?_, ?_, ?_, h.msg, h.accW, h.accR, h.lenM, by simpa using h.lenN, h.lenC, h.lenQ, h.lenW,
    h.lenR, h.opnW, h.opnR⟩
  · intro m' hm'
    show upd σ.mtx (nI p n) _ m' = _
    rw [upd_ne _ _ (m_ne_nI p hm' n)]; exact h.mtx m' hm'
  · intro n' hn'
    show upd σ.mtx (nI p n) _ (nI p n') = (s.nRel.set n _).getD n' VV.zero
    rw [getD_set_upd _ _ _ _ _ (by rw [h.lenN]; exact hn)]
    by_cases e : n' = n
    · subst e; rw [upd_self, upd_self, h.ntf _ hn, h.thr]
    · rw [upd_ne _ _ (fun hh => e (nI_inj p hh)), upd_ne _ _ e, h.ntf _ hn']
  · intro q hq
    show upd σ.mtx (nI p n) _ (cI p q) = _
    rw [upd_ne _ _ (Ne.symm (nI_ne_cI p hn q))]; exact h.chn q hq
  · intro b
    show upd σ.mtx (nI p n) _ (kI p b) = _
    rw [upd_ne _ _ (Ne.symm (nI_ne_kI p hn b))]; exact h.tok b

/-- `send`: the release into `chanRel` and the new message -/
theorem LinkR2.send (h : LinkR2 p s σ mq) {t q : Nat} (hq : q < p.cfg.nChans) (v : Int) :
    LinkR2 p
      { s with chan := s.chan.set q (s.chan.getD q [] ++ [(v, (s.chanRel.getD q VV.zero).join (s.vc t))]),
               chanRel := s.chanRel.set q ((s.chanRel.getD q VV.zero).join (s.vc t)) }
      (σ.rel t (cI p q)) (upd mq q (mq q ++ [(σ.rel t (cI p q)).mtx (cI p q)])) := by
  have hnew : (σ.rel t (cI p q)).mtx (cI p q) = (s.chanRel.getD q VV.zero).join (s.vc t) := by
    show upd σ.mtx (cI p q) _ (cI p q) = _
    rw [upd_self, h.chn q hq, h.thr]
  refine ⟨h.thr, ?_, ?_, ?_, ?_, ?_, h.accW, h.accR, h.lenM, h.lenN, by simpa using h.lenC, by simpa using h.lenQ,
    h.lenW, h.lenR, h.opnW, h.opnR⟩
  · intro m' hm'
    show upd σ.mtx (cI p q) _ m' = _
    rw [upd_ne _ _ (m_ne_cI p hm' q)]; exact h.mtx m' hm'
  · intro n' hn'
    show upd σ.mtx (cI p q) _ (nI p n') = _
    rw [upd_ne _ _ (nI_ne_cI p hn' q)]; exact h.ntf n' hn'
  · intro q' hq'
    show upd σ.mtx (cI p q) _ (cI p q') = (s.chanRel.set q _).getD q' VV.zero
    rw [getD_set_upd _ _ _ _ _ (by rw [h.lenC]; exact hq)]
    by_cases e : q' = q
    · subst e; rw [upd_self, upd_self, h.chn _ hq, h.thr]
    · rw [upd_ne _ _ (fun hh => e (cI_inj p hh)), upd_ne _ _ e, h.chn _ hq']
  · intro b
    show upd σ.mtx (cI p q) _ (kI p b) = _
    rw [upd_ne _ _ (Ne.symm (cI_ne_kI p hq b))]; exact h.tok b
  · intro q' hq'
    show upd mq q _ q' = ((s.chan.set q _).getD q' []).map (·.2)
    rw [getD_set_upd _ _ _ _ _ (by rw [h.lenQ]; exact hq)]
    by_cases e : q' = q
    · subst e
      rw [upd_self, upd_self, hnew, h.msg _ hq]
      simp
    · rw [upd_ne _ _ e, upd_ne _ _ e, h.msg _ hq']

/-- `recv` / `tryRecv`: the head of the queue is taken -/
theorem LinkR2.pop (h : LinkR2 p s σ mq) {q : Nat} (hq : q < p.cfg.nChans) {v : Int} {c : VV}
    {rest : List (Int × VV)} (hch : s.chan.getD q [] = (v, c) :: rest) :
    mq q = c :: rest.map (·.2) ∧
    LinkR2 p { s with chan := s.chan.set q rest } σ (upd mq q (rest.map (·.2))) := by
  have hm := h.msg q hq
  rw [hch] at hm
  refine ⟨hm, h.thr, h.mtx, h.ntf, h.chn, h.tok, ?_, h.accW, h.accR, h.lenM, h.lenN, h.lenC, by simpa using h.lenQ,
    h.lenW, h.lenR, h.opnW, h.opnR⟩
  intro q' hq'
  show upd mq q _ q' = ((s.chan.set q _).getD q' []).map (·.2)
  rw [getD_set_upd _ _ _ _ _ (by rw [h.lenQ]; exact hq)]
  by_cases e : q' = q
  · subst e; rw [upd_self, upd_self]
  · rw [upd_ne _ _ e, upd_ne _ _ e, h.msg _ hq']

/-- `unpark u`: the release into the token clock of `u` -/
theorem LinkR2.relK (h : LinkR2 p s σ mq) {t u : Nat} (hu : u < s.ths.length) :
    LinkR2 p (s.modTh u fun h => { h with token := true, tokenVC := h.tokenVC.join (s.vc t) })
      (σ.rel t (kI p u)) mq := by
  refine ⟨?_, ?_, ?_, ?_, ?_, h.msg, h.accW, h.accR, h.lenM, h.lenN, h.lenC, h.lenQ, h.lenW, h.lenR, h.opnW,
    h.opnR⟩
  · intro b
    rw [vc_modTh]
    show σ.thr b = _
    rw [h.thr]
    split <;> rfl
  · intro m' hm'
    show upd σ.mtx (kI p u) _ m' = _
    rw [upd_ne _ _ (m_ne_kI p hm' u)]; exact h.mtx m' hm'
  · intro n' hn'
    show upd σ.mtx (kI p u) _ (nI p n') = _
    rw [upd_ne _ _ (nI_ne_kI p hn' u)]; exact h.ntf n' hn'
  · intro q' hq'
    show upd σ.mtx (kI p u) _ (cI p q') = _
    rw [upd_ne _ _ (cI_ne_kI p hq' u)]; exact h.chn q' hq'
  · intro b
    show upd σ.mtx (kI p u) _ (kI p b) = _
    rw [Refine.th_modTh _ _ _ _ (.inr trivial)]
    by_cases e : b = u
    · subst e
      rw [upd_self, if_pos ⟨rfl, hu⟩, h.tok, h.thr]
    · rw [upd_ne _ _ (fun hh => e (kI_inj p hh)), if_neg (fun hh => e hh.1.symm), h.tok]

/-- `cvOne` / `cvAll`: the notified thread `u` acquires the clock `c` -/
theorem LinkR2.wake (h : LinkR2 p s σ mq) {u : Nat} (hu : u < s.ths.length) (c : VV) :
    LinkR2 p (s.modTh u fun h => { h with cvNotified := h.cvWaiting.map (·.2), cvWaiting := none,
                                          vc := h.vc.join c })
      (σ.acq u c) mq := by
  refine h.thrOnly _ _ ?_ rfl rfl (fun b => tokvc_modTh _ _ _ _ fun _ => rfl) rfl rfl rfl rfl rfl rfl rfl rfl
  intro b
  rw [vc_modTh]
  show upd σ.thr u _ b = _
  by_cases e : b = u
  · subst e; rw [upd_self, if_pos ⟨rfl, hu⟩, h.thr]; rfl
  · rw [upd_ne _ _ e, if_neg (fun hh => e hh.1.symm), h.thr]

theorem LinkR2.recordW (h : LinkR2 p s σ mq) {t c : Nat} (hc : c < p.cfg.nCells) (cs : List Int) :
    LinkR2 p { s with cells := cs, cellW := s.cellW.set c ((s.cellW.getD c VV.zero).join (s.vc t)) }
      (σ.record true t c) mq := by
  refine ⟨h.thr, h.mtx, h.ntf, h.chn, h.tok, h.msg, ?_, ?_, h.lenM, h.lenN, h.lenC, h.lenQ, by simpa using h.lenW,
    h.lenR, h.opnW, h.opnR⟩
  · intro c'
    show (if true = true ∧ c' = c then (σ.acc true c).join (σ.thr t) else σ.acc true c') =
      (s.cellW.set c _).getD c' VV.zero
    rw [getD_set_upd _ _ _ _ _ (by rw [h.lenW]; exact hc)]
    by_cases e : c' = c
    · subst e; rw [if_pos ⟨rfl, rfl⟩, upd_self, h.accW, h.thr]
    · rw [if_neg (fun hh => e hh.2), upd_ne _ _ e, h.accW]
  · intro c'
    show (if false = true ∧ c' = c then (σ.acc true c).join (σ.thr t) else σ.acc false c') = _
    rw [if_neg (fun hh => by cases hh.1)]
    exact h.accR c'

theorem LinkR2.recordR (h : LinkR2 p s σ mq) {t c : Nat} (hc : c < p.cfg.nCells) :
    LinkR2 p { s with cellR := s.cellR.set c ((s.cellR.getD c VV.zero).join (s.vc t)) }
      (σ.record false t c) mq := by
  refine ⟨h.thr, h.mtx, h.ntf, h.chn, h.tok, h.msg, ?_, ?_, h.lenM, h.lenN, h.lenC, h.lenQ, h.lenW,
    by simpa using h.lenR, h.opnW, h.opnR⟩
  · intro c'
    show (if true = false ∧ c' = c then (σ.acc false c).join (σ.thr t) else σ.acc true c') = _
    rw [if_neg (fun hh => by cases hh.1)]
    exact h.accW c'
  · intro c'
    show (if false = false ∧ c' = c then (σ.acc false c).join (σ.thr t) else σ.acc false c') =
      (s.cellR.set c _).getD c' VV.zero
    rw [getD_set_upd _ _ _ _ _ (by rw [h.lenR]; exact hc)]
    by_cases e : c' = c
    · subst e; rw [if_pos ⟨rfl, rfl⟩, upd_self, h.accR, h.thr]
    · rw [if_neg (fun hh => e hh.2), upd_ne _ _ e, h.accR]

/-- the start of thread `b`, whose clock is still zero, by thread `t` -/
theorem LinkR2.fork (h : LinkR2 p s σ mq) {t b : Nat} (hb : b < s.ths.length) (hz : s.vc b = VV.zero) :
    LinkR2 p (s.modTh b fun h => { h with started := true, vc := (h.vc.join (s.vc t)).inc b }) (σ.fork t b) mq := by
  refine h.thrOnly _ _ ?_ rfl rfl (fun b' => tokvc_modTh _ _ _ _ fun _ => rfl) rfl rfl rfl rfl rfl rfl rfl rfl
  intro b'
  rw [vc_modTh]
  show upd σ.thr b _ b' = _
  by_cases e : b' = b
  · subst e
    rw [upd_self, if_pos ⟨rfl, hb⟩, h.thr]
    show _ = (((s.th b').vc.join (s.vc t)).inc b')
    have : (s.th b').vc = VV.zero := hz
    rw [this, zero_join]
  · rw [upd_ne _ _ e, if_neg (fun hh => e hh.1.symm), h.thr]

end

/-! ### `SC.step` / `SC.spurious` spelled out -/

section
variable {p : Prog} {s : SC.St} {t : Nat}

theorem step_send {q : Nat} {v : Int} (hcv : (s.th t).cvNotified = none) (ho : SC.opOf p s t = some (.send q v))
    (hd : s.rxDropped.getD q false = false) :
    SC.step p s t =
      [({ s.tick t with
            chan := s.chan.set q (s.chan.getD q [] ++ [(v, (s.chanRel.getD q VV.zero).join ((s.tick t).vc t))]),
            chanRel := s.chanRel.set q ((s.chanRel.getD q VV.zero).join ((s.tick t).vc t)) }).ret t .unit] := by
  have hd' : (s.tick t).rxDropped.getD q false = false := hd
  unfold SC.step
  simp only [hcv, ho, hd']
  rfl

theorem step_recv {q : Nat} {v : Int} {c : VV} {rest : List (Int × VV)} (hcv : (s.th t).cvNotified = none)
    (ho : SC.opOf p s t = some (.recv q)) (hch : s.chan.getD q [] = (v, c) :: rest) :
    SC.step p s t = [(({ s.tick t with chan := s.chan.set q rest } : SC.St).acquire t c).ret t (.val v)] := by
  have hch' : (s.tick t).chan.getD q [] = (v, c) :: rest := hch
  unfold SC.step
  simp only [hcv, ho, hch']
  rfl

theorem step_tryRecv_some {q : Nat} {v : Int} {c : VV} {rest : List (Int × VV)}
    (hcv : (s.th t).cvNotified = none) (ho : SC.opOf p s t = some (.tryRecv q))
    (hch : s.chan.getD q [] = (v, c) :: rest) :
    SC.step p s t = [(({ s.tick t with chan := s.chan.set q rest } : SC.St).acquire t c).ret t (.val v)] := by
  have hch' : (s.tick t).chan.getD q [] = (v, c) :: rest := hch
  unfold SC.step
  simp only [hcv, ho, hch']
  rfl

theorem step_tryRecv_none {q : Nat} (hcv : (s.th t).cvNotified = none) (ho : SC.opOf p s t = some (.tryRecv q))
    (hch : s.chan.getD q [] = []) : SC.step p s t = [(s.tick t).ret t .empty] := by
  have hch' : (s.tick t).chan.getD q [] = [] := hch
  unfold SC.step
  simp only [hcv, ho, hch']

theorem step_nWait {n : Nat} (hcv : (s.th t).cvNotified = none) (ho : SC.opOf p s t = some (.nWait n)) :
    SC.step p s t =
      [(({ s.tick t with nFlag := s.nFlag.set n false } : SC.St).acquire t (s.nRel.getD n VV.zero)).ret t .unit] := by
  unfold SC.step
  simp only [hcv, ho]
  rfl

theorem step_nNotify {n : Nat} (hcv : (s.th t).cvNotified = none) (ho : SC.opOf p s t = some (.nNotify n)) :
    SC.step p s t =
      [({ s.tick t with nFlag := s.nFlag.set n true,
                        nRel := s.nRel.set n ((s.nRel.getD n VV.zero).join ((s.tick t).vc t)) }).ret t .unit] := by
  unfold SC.step
  simp only [hcv, ho]
  rfl

theorem step_park (hcv : (s.th t).cvNotified = none) (ho : SC.opOf p s t = some .park) :
    SC.step p s t =
      [(((s.tick t).acquire t (s.th t).tokenVC).modTh t fun h => { h with token := false }).ret t .unit] := by
  unfold SC.step
  simp only [hcv, ho]

theorem step_unpark {u : Nat} (hcv : (s.th t).cvNotified = none) (ho : SC.opOf p s t = some (.unpark u)) :
    SC.step p s t =
      if ((s.tick t).th u).finished then [(s.tick t).ret t .unit] else
      [((s.tick t).modTh u fun h => { h with token := true, tokenVC := h.tokenVC.join ((s.tick t).vc t) }).ret t
        .unit] := by
  unfold SC.step
  simp only [hcv, ho]

theorem step_cvWait {v m : Nat} (hcv : (s.th t).cvNotified = none) (ho : SC.opOf p s t = some (.cvWait v m)) :
    SC.step p s t =
      [({ s.tick t with mutex := s.mutex.set m none,
                        mutexRel := s.mutexRel.set m ((s.mutexRel.getD m VV.zero).join ((s.tick t).vc t)),
                        cvQueue := s.cvQueue.set v (s.cvQueue.getD v [] ++ [t]) } : SC.St).modTh t
          fun h => { h with cvWaiting := some (v, m) }] := by
  unfold SC.step
  simp only [hcv, ho]
  rfl

theorem step_cvWait2 {m : Nat} (hcv : (s.th t).cvNotified = some m) :
    SC.step p s t =
      [((({ s.tick t with mutex := s.mutex.set m (some t) } : SC.St).acquire t (s.mutexRel.getD m VV.zero)).modTh t
          fun h => { h with cvNotified := none }).ret t .unit] := by
  unfold SC.step
  simp only [hcv]
  rfl

theorem step_cvOne_nil {v : Nat} (hcv : (s.th t).cvNotified = none) (ho : SC.opOf p s t = some (.cvOne v))
    (hq : s.cvQueue.getD v [] = []) : SC.step p s t = [(s.tick t).ret t .unit] := by
  have hq' : (s.tick t).cvQueue.getD v [] = [] := hq
  unfold SC.step
  simp only [hcv, ho, hq']

theorem step_cvOne_cons {v u : Nat} {rest : List Nat} (hcv : (s.th t).cvNotified = none)
    (ho : SC.opOf p s t = some (.cvOne v)) (hq : s.cvQueue.getD v [] = u :: rest) :
    SC.step p s t =
      [(({ s.tick t with cvQueue := s.cvQueue.set v rest } : SC.St).modTh u fun h =>
          { h with cvNotified := h.cvWaiting.map (·.2), cvWaiting := none,
                   vc := h.vc.join ((s.tick t).vc t) }).ret t .unit] := by
  have hq' : (s.tick t).cvQueue.getD v [] = u :: rest := hq
  unfold SC.step
  simp only [hcv, ho, hq']
  rfl

/-- what `cvAll` does to the waiters `l`: each one is notified and acquires `c` -/
def wakeAll (l : List Nat) (c : VV) (s : SC.St) : SC.St :=
  l.foldl (fun (s' : SC.St) u => s'.modTh u fun h =>
    { h with cvNotified := h.cvWaiting.map (·.2), cvWaiting := none, vc := h.vc.join c }) s

theorem step_cvAll {v : Nat} (hcv : (s.th t).cvNotified = none) (ho : SC.opOf p s t = some (.cvAll v)) :
    SC.step p s t =
      [({ wakeAll (s.cvQueue.getD v []) ((s.tick t).vc t) (s.tick t) with
            cvQueue := (wakeAll (s.cvQueue.getD v []) ((s.tick t).vc t) (s.tick t)).cvQueue.set v [] }).ret t
          .unit] := by
  unfold SC.step
  simp only [hcv, ho]
  rfl

/-- the one modelled spurious return of `nWait` -/
theorem spurious_nWait {n : Nat} (hv : s.verdict = none) (hst : (s.th t).started = true)
    (hfin : (s.th t).finished = false) (hw : (s.th t).cvWaiting = none) (hcv : (s.th t).cvNotified = none)
    (ho : SC.opOf p s t = some (.nWait n)) (hsp : s.nSpurUsed.getD n true = false) :
    SC.spurious p s t = [(({ s with nSpurUsed := s.nSpurUsed.set n true } : SC.St).tick t).ret t .unit] := by
  rw [List.getD_eq_getElem?_getD] at hsp
  unfold SC.spurious
  simp [hv, hst, hfin, hw, hcv, ho, hsp]

end

end Race2
end LoomVerif

/-
C12, candidate layer: what `match_load_to_stores` / `match_rmw_to_stores` return when one real
slot `L` is strictly above every other real slot in modification order and all real slots have
pairwise distinct clocks.
-/
import LoomVerif.Model.Atomic
import LoomVerif.Proofs.C12VV

namespace LoomVerif
namespace C12

open Atomic

/-- slot `i` is withheld as soon as some real slot `L ≠ i` of the scanned list is strictly newer
and blocks it, provided no `assert_ne!` fires on the way -/
theorem matchInner_false (a : Atomic) (blocked : Nat → Nat → Bool) (i L : Nat) (l : List Nat)
    (hne : ∀ j ∈ l, j ≠ i → j < a.cnt → (a.storeAt i).mo ≠ (a.storeAt j).mo)
    (hL : L ∈ l) (hLi : L ≠ i) (hLc : L < a.cnt)
    (hlt : (a.storeAt i).mo.blt (a.storeAt L).mo = true) (hb : blocked i L = true) :
    matchInner a blocked i l = .ok false := by
  induction l with
  | nil => cases hL
  | cons j js ih =>
    have ihjs := fun hL' => ih (fun j' hj' => hne j' (List.mem_cons_of_mem _ hj')) hL'
    unfold matchInner
    by_cases hskip : (i == j || decide (j ≥ a.cnt)) = true
    · rw [if_pos hskip]
      have hjL : L ≠ j := by
        intro e; subst e
        simp at hskip
        rcases hskip with h | h
        · exact hLi h.symm
        · omega
      rcases List.mem_cons.1 hL with h | h
      · exact absurd h hjL
      · exact ihjs h
    · rw [if_neg hskip]
      simp at hskip
      have hneq := hne j (List.mem_cons_self) (fun e => hskip.1 e.symm) hskip.2
      rw [if_neg (by simpa using hneq)]
      by_cases hblk : ((a.storeAt i).mo.blt (a.storeAt j).mo && blocked i j) = true
      · rw [if_pos hblk]
      · rw [if_neg hblk]
        rcases List.mem_cons.1 hL with h | h
        · subst h; rw [hlt, hb] at hblk; exact absurd rfl hblk
        · exact ihjs h

/-- slot `i` is kept when no other real slot of the scanned list is equal or strictly newer -/
theorem matchInner_true (a : Atomic) (blocked : Nat → Nat → Bool) (i : Nat) (l : List Nat)
    (h : ∀ j ∈ l, j ≠ i → j < a.cnt →
      (a.storeAt i).mo ≠ (a.storeAt j).mo ∧ (a.storeAt i).mo.blt (a.storeAt j).mo = false) :
    matchInner a blocked i l = .ok true := by
  induction l with
  | nil => rfl
  | cons j js ih =>
    have ihjs := ih (fun j' hj' => h j' (List.mem_cons_of_mem _ hj'))
    unfold matchInner
    by_cases hskip : (i == j || decide (j ≥ a.cnt)) = true
    · rw [if_pos hskip]; exact ihjs
    · rw [if_neg hskip]
      simp at hskip
      have hj := h j (List.mem_cons_self) (fun e => hskip.1 e.symm) hskip.2
      rw [if_neg (by simpa using hj.1), hj.2]
      simpa using ihjs

/-- the outer loop returns exactly `L` when `L` is kept and every other real slot is withheld -/
theorem matchOuter_single (a : Atomic) (blocked : Nat → Nat → Bool) (L : Nat) (l : List Nat)
    (hLc : L < a.cnt)
    (hL : matchInner a blocked L (List.range NH) = .ok true)
    (hO : ∀ i ∈ l, i ≠ L → i < a.cnt → matchInner a blocked i (List.range NH) = .ok false) :
    matchOuter a blocked l = .ok (l.filter (· == L)) := by
  induction l with
  | nil => rfl
  | cons i is ih =>
    have ihis := ih (fun i' hi' => hO i' (List.mem_cons_of_mem _ hi'))
    unfold matchOuter
    by_cases hc : i ≥ a.cnt
    · rw [if_pos hc, ihis]
      have : i ≠ L := by omega
      simp [this]
    · rw [if_neg hc]
      by_cases hiL : i = L
      · subst hiL
        rw [hL]; simp only [ihis]
        simp
      · rw [hO i List.mem_cons_self hiL (by omega)]; simp only [ihis]
        simp [hiL]

theorem filter_range_single (L : Nat) (h : L < NH) : (List.range NH).filter (· == L) = [L] := by
  have : ∀ L, L < 7 → (List.range 7).filter (· == L) = [L] := by decide
  exact this L h

end C12
end LoomVerif

/-
C08, "resumes only after": the second half of `Notify::wait` needs the flag, and nothing but
`Notify::notify` sets the flag.  Every other world transformer used by the lock / wait /
channel / arc operations leaves every notify object alone (up to the scheduler's access record).
-/
import LoomVerif.Proofs.C08Condvar

namespace LoomVerif
namespace C08
open C12 Sy C07

/-- every notify object of `os` is still there in `os'`, unchanged up to `last_access` -/
def NotifyKept (os os' : List Obj) : Prop :=
  ∀ (n : Nat) (s : NotifySt), os[n]? = some (.notify s) →
    ∃ a, os'[n]? = some (.notify { s with lastAccess := a })

theorem NotifyKept.refl (os : List Obj) : NotifyKept os os := fun _ s h => ⟨s.lastAccess, h⟩

theorem NotifyKept.trans {a b c : List Obj} (h1 : NotifyKept a b) (h2 : NotifyKept b c) :
    NotifyKept a c := by
  intro n s h
  obtain ⟨x, hx⟩ := h1 n s h
  obtain ⟨y, hy⟩ := h2 n _ hx
  exact ⟨y, hy⟩

theorem NotifyKept.of_touched {os os' : List Obj} (h : ObjsTouched os os') : NotifyKept os os' := by
  intro n s hs
  obtain ⟨x', hx', ht⟩ := h n _ hs
  obtain ⟨a, rfl⟩ := ht.notify_inv
  exact ⟨a, hx'⟩

/-- overwriting an object that is not a notify keeps all notify objects -/
theorem notifyKept_set {os : List Obj} {o : Nat} (x : Obj)
    (h : ∀ s, os[o]? ≠ some (.notify s)) : NotifyKept os (os.set o x) := by
  intro n s hs
  by_cases e : n = o
  · subst e; exact absurd hs (h s)
  · exact ⟨s.lastAccess, by rw [getElem?_set_ne' _ _ _ _ e]; exact hs⟩

/-! ### which object a getter found -/

theorem getMutex_ok {w : World} {o : Nat} {m : MutexSt} (h : w.getMutex o = .ok m) :
    w.exec.objs[o]? = some (.mutex m) := by
  unfold World.getMutex at h; split at h <;> cases h; assumption
theorem getRw_ok {w : World} {o : Nat} {m : RwSt} (h : w.getRw o = .ok m) :
    w.exec.objs[o]? = some (.rwlock m) := by
  unfold World.getRw at h; split at h <;> cases h; assumption
theorem getChan_ok {w : World} {o : Nat} {m : ChanSt} (h : w.getChan o = .ok m) :
    w.exec.objs[o]? = some (.chan m) := by
  unfold World.getChan at h; split at h <;> cases h; assumption
theorem getArc_ok {w : World} {o : Nat} {m : ArcSt} (h : w.getArc o = .ok m) :
    w.exec.objs[o]? = some (.arc m) := by
  unfold World.getArc at h; split at h <;> cases h; assumption

theorem bind_ok {α β} {x : Except Panic α} {f : α → Except Panic β} {y : β}
    (h : x.bind f = .ok y) : ∃ a, x = .ok a ∧ f a = .ok y := by
  cases x with
  | error e => cases h
  | ok a => exact ⟨a, rfl, h⟩

/-! ### the helpers keep the notify objects -/

theorem postAcquire_keeps {w w' : World} {o : Nat} {b : Bool}
    (h : w.postAcquire o = .ok (w', b)) : NotifyKept w.exec.objs w'.exec.objs := by
  have h0 := h
  unfold World.postAcquire at h0
  obtain ⟨m, hm, _⟩ := bind_ok h0
  have hm := getMutex_ok hm
  rcases postAcquire_cases hm h with ⟨_, rfl, _⟩ | ⟨_, hl, _, _⟩
  · exact NotifyKept.refl _
  · rw [postAcquire_free hm hl] at h; cases h
    exact notifyKept_set _ (by intro s; rw [hm]; simp)

theorem releaseLock_keeps {w w' : World} {o : Nat}
    (h : w.releaseLock o = .ok w') : NotifyKept w.exec.objs w'.exec.objs := by
  have h0 := h
  unfold World.releaseLock at h0
  obtain ⟨m, hm, _⟩ := bind_ok h0
  have hm := getMutex_ok hm
  cases ha : w.ths.isActive
  · rw [releaseLock_inactive hm ha] at h; cases h
    exact notifyKept_set _ (by intro s; rw [hm]; simp)
  · rw [releaseLock_active hm ha] at h; cases h
    exact notifyKept_set _ (by intro s; rw [hm]; simp)

theorem postAcquireRead_keeps {w w' : World} {o : Nat} {b : Bool}
    (h : w.postAcquireRead o = .ok (w', b)) : NotifyKept w.exec.objs w'.exec.objs := by
  have h0 := h
  unfold World.postAcquireRead at h0
  obtain ⟨m, hm, _⟩ := bind_ok h0
  have hm := getRw_ok hm
  rcases postAcquireRead_cases hm h with ⟨_, rfl, _⟩ | ⟨_, hl, _, _⟩
  · exact NotifyKept.refl _
  · rw [postAcquireRead_ok hm hl] at h; cases h
    exact notifyKept_set _ (by intro s; rw [hm]; simp)

theorem postAcquireWrite_keeps {w w' : World} {o : Nat} {b : Bool}
    (h : w.postAcquireWrite o = .ok (w', b)) : NotifyKept w.exec.objs w'.exec.objs := by
  have h0 := h
  unfold World.postAcquireWrite at h0
  obtain ⟨m, hm, _⟩ := bind_ok h0
  have hm := getRw_ok hm
  rcases postAcquireWrite_cases hm h with ⟨_, rfl, _⟩ | ⟨_, hl, _, _⟩
  · exact NotifyKept.refl _
  · rw [postAcquireWrite_free hm hl] at h; cases h
    exact notifyKept_set _ (by intro s; rw [hm]; simp)

theorem releaseWrite_keeps {w w' : World} {o : Nat}
    (h : w.releaseWrite o = .ok w') : NotifyKept w.exec.objs w'.exec.objs := by
  have h0 := h
  unfold World.releaseWrite at h0
  obtain ⟨m, hm, _⟩ := bind_ok h0
  have hm := getRw_ok hm
  rw [releaseWrite_eq hm] at h; cases h
  exact notifyKept_set _ (by intro s; rw [hm]; simp)

theorem releaseRead_keeps {w w' : World} {o : Nat}
    (h : w.releaseRead o = .ok w') : NotifyKept w.exec.objs w'.exec.objs := by
  have h0 := h
  unfold World.releaseRead at h0
  obtain ⟨m, hm, _⟩ := bind_ok h0
  have hm := getRw_ok hm
  rcases hl : m.lock with _ | ⟨rs | x⟩
  · rw [releaseRead_invalid hm (by simp [hl])] at h; cases h
  · by_cases he : rs.filter (· != w.tid) = []
    · rw [releaseRead_last hm hl he] at h; cases h
      exact notifyKept_set _ (by intro s; rw [hm]; simp)
    · rw [releaseRead_more hm hl he] at h; cases h
      exact notifyKept_set _ (by intro s; rw [hm]; simp)
  · rw [releaseRead_invalid hm (by simp [hl])] at h; cases h

theorem forOthers_objs (w : World) (p : Operation → Bool) (f : Thread → Thread) :
    (w.forOthers p f).exec.objs = w.exec.objs := rfl

theorem sendEffect_keeps {w w' : World} {o : Nat} {v : Int}
    (h : w.sendEffect o v = .ok w') : NotifyKept w.exec.objs w'.exec.objs := by
  unfold World.sendEffect at h
  obtain ⟨m, hm, h⟩ := bind_ok h
  have hm := getChan_ok hm
  simp only [pure, Except.pure] at h
  split at h <;> (cases h; exact notifyKept_set _ (by intro s; rw [hm]; simp))

theorem recvEffect_keeps {w w' : World} {o : Nat} {v : Int}
    (h : w.recvEffect o = .ok (w', v)) : NotifyKept w.exec.objs w'.exec.objs := by
  unfold World.recvEffect at h
  obtain ⟨m, hm, h⟩ := bind_ok h
  have hm := getChan_ok hm
  simp only [pure, Except.pure, bind, Except.bind] at h
  split at h
  · cases h
  · split at h
    · split at h <;> (cases h; exact notifyKept_set _ (by intro s; rw [hm]; simp))
    · cases h

theorem refDecEffect_keeps {w w' : World} {o : Nat} {b : Bool}
    (h : w.refDecEffect o = .ok (w', b)) : NotifyKept w.exec.objs w'.exec.objs := by
  unfold World.refDecEffect at h
  obtain ⟨m, hm, h⟩ := bind_ok h
  have hm := getArc_ok hm
  simp only [pure, Except.pure, bind, Except.bind] at h
  split at h
  · cases h
  · split at h <;> (cases h; exact notifyKept_set _ (by intro s; rw [hm]; simp))

theorem branch_keeps {w w' : World} {o : Nat} {a : Action} {blk wt : Bool}
    (h : w.branch o a blk wt = .ok w') : NotifyKept w.exec.objs w'.exec.objs :=
  .of_touched (branch_objs h)

theorem yieldNow_keeps {w w' : World} (h : w.yieldNow = .ok w') :
    NotifyKept w.exec.objs w'.exec.objs := .of_touched (yieldNow_objs h)

theorem parkNow_keeps {w w' : World} (h : w.parkNow = .ok w') :
    NotifyKept w.exec.objs w'.exec.objs := .of_touched (parkNow_objs h)

theorem blockNow_keeps {w w' : World} (h : w.blockNow = .ok w') :
    NotifyKept w.exec.objs w'.exec.objs := .of_touched (blockNow_objs h)

theorem threadDone_keeps {w w' : World} (h : w.threadDone = .ok w') :
    NotifyKept w.exec.objs w'.exec.objs := .of_touched (threadDone_objs h)

/-! ### no lock / wait operation other than `notify` raises a flag -/

/-- every notify object is still there and its flag was not raised -/
def FlagNotRaised (os os' : List Obj) : Prop :=
  ∀ (n : Nat) (s : NotifySt), os[n]? = some (.notify s) →
    ∃ s', os'[n]? = some (.notify s') ∧ (s'.notified = true → s.notified = true)

theorem FlagNotRaised.refl (os : List Obj) : FlagNotRaised os os := fun _ s h => ⟨s, h, id⟩

theorem FlagNotRaised.trans {a b c : List Obj} (h1 : FlagNotRaised a b) (h2 : FlagNotRaised b c) :
    FlagNotRaised a c := by
  intro n s h
  obtain ⟨x, hx, hx'⟩ := h1 n s h
  obtain ⟨y, hy, hy'⟩ := h2 n _ hx
  exact ⟨y, hy, fun e => hx' (hy' e)⟩

theorem FlagNotRaised.of_kept {os os' : List Obj} (h : NotifyKept os os') :
    FlagNotRaised os os' := by
  intro n s hs
  obtain ⟨a, ha⟩ := h n s hs
  exact ⟨_, ha, id⟩

/-- rewriting a notify object without raising its flag -/
theorem flagNotRaised_set {os : List Obj} {o : Nat} {s s' : NotifySt}
    (h : os[o]? = some (.notify s)) (hf : s'.notified = true → s.notified = true) :
    FlagNotRaised os (os.set o (.notify s')) := by
  intro n t ht
  by_cases e : n = o
  · subst e
    rw [h] at ht; cases ht
    exact ⟨s', getElem?_set_self' _ _ _ _ h, hf⟩
  · exact ⟨t, by rw [getElem?_set_ne' _ _ _ _ e]; exact ht, id⟩

theorem getNotify_ok {w : World} {o : Nat} {m : NotifySt} (h : w.getNotify o = .ok m) :
    w.exec.objs[o]? = some (.notify m) := by
  unfold World.getNotify at h; split at h <;> cases h; assumption
theorem getCv_ok {w : World} {o : Nat} {m : CondvarSt} (h : w.getCv o = .ok m) :
    w.exec.objs[o]? = some (.condvar m) := by
  unfold World.getCv at h; split at h <;> cases h; assumption

theorem notifyWait1_flags {w w' : World} {o st : Nat} (h : w.notifyWait1 o = .ok (w', st)) :
    FlagNotRaised w.exec.objs w'.exec.objs := by
  have h0 := h
  unfold World.notifyWait1 at h0
  obtain ⟨s, hs, _⟩ := bind_ok h0
  have hs := getNotify_ok hs
  by_cases hsp : (s.spurious && !s.didSpur) = false
  · rw [notifyWait1_plain hs hsp] at h
    obtain ⟨w1, hb, he⟩ := map_ok h
    cases he
    (have k := branch_keeps hb; exact .of_kept k)
  · have h1 : s.spurious = true := by cases hh : s.spurious <;> simp [hh] at hsp ⊢
    have h2 : s.didSpur = false := by cases hh : s.didSpur <;> simp [hh] at hsp ⊢
    rw [notifyWait1_maySpur hs h1 h2] at h
    split at h
    · cases h
    · obtain ⟨w1, hb, he⟩ := map_ok h
      cases he
      refine FlagNotRaised.trans ?_ (.of_kept (yieldNow_keeps hb))
      exact flagNotRaised_set hs id
    · obtain ⟨w1, hb, he⟩ := map_ok h
      cases he
      (have k := branch_keeps hb; exact .of_kept k)

theorem notifyWait2_flags {w w' : World} {o : Nat} (h : w.notifyWait2 o = .ok w') :
    FlagNotRaised w.exec.objs w'.exec.objs := by
  have h0 := h
  unfold World.notifyWait2 at h0
  obtain ⟨s, hs, _⟩ := bind_ok h0
  have hs := getNotify_ok hs
  cases hn : s.notified
  · rw [notifyWait2_unnotified hs hn] at h; cases h
  · rw [notifyWait2_notified hs hn] at h; cases h
    exact flagNotRaised_set hs (fun e => by cases e)

/-- the lock and wait operations other than `Notify::notify` -/
def lockOrWaitNotNotify : Op → Bool
  | .lock _ | .tryLock _ | .unlock _ | .read _ | .write _ | .tryRead _ | .tryWrite _
  | .unread _ | .unwrite _ | .cvWait _ _ | .cvOne _ | .cvAll _ | .nWait _ | .park | .unpark _
  | .join _ => true
  | _ => false

/-- none of these operations, at any stage, in any state, raises the flag of any notify object:
the only way `notified` becomes `true` is `notifyEffect` (`nnotify`, and the thread epilogue) -/
theorem runOp_flags {w w' : World} {c : TCtl} {op : Op} (hop : lockOrWaitNotNotify op = true)
    (h : w.runOp c op = .ok w') : FlagNotRaised w.exec.objs w'.exec.objs := by
  cases op <;> simp only [lockOrWaitNotNotify, Bool.false_eq_true] at hop
  case lock mi =>
    rw [runOp_lock] at h
    split at h
    · obtain ⟨m, _, h⟩ := bind_ok h
      (have k := branch_keeps h; exact .of_kept k)
    · obtain ⟨r, hr, h⟩ := bind_ok h
      obtain ⟨w1, b⟩ := r
      have := postAcquire_keeps hr
      cases b <;> simp only [Bool.not_false, Bool.not_true, if_true, Bool.false_eq_true, if_false,
        bind, Except.bind, pure, Except.pure, throw, throwThe, MonadExceptOf.throw] at h
      · cases h
      · cases h; exact .of_kept this
  case tryLock mi =>
    rw [runOp_tryLock] at h
    split at h
    · (have k := branch_keeps h; exact .of_kept k)
    · obtain ⟨r, hr, h⟩ := bind_ok h
      have k := @postAcquire_keeps _ r.1 _ r.2 hr; cases h; exact .of_kept k
  case unlock mi =>
    rw [runOp_unlock] at h
    obtain ⟨r, hr, h⟩ := bind_ok h
    have k := releaseLock_keeps hr; cases h; exact .of_kept k
  case read li =>
    rw [runOp_read] at h
    split at h
    · obtain ⟨m, _, h⟩ := bind_ok h
      (have k := branch_keeps h; exact .of_kept k)
    · obtain ⟨r, hr, h⟩ := bind_ok h
      obtain ⟨w1, b⟩ := r
      have := postAcquireRead_keeps hr
      cases b <;> simp only [Bool.not_false, Bool.not_true, if_true, Bool.false_eq_true, if_false,
        bind, Except.bind, pure, Except.pure, throw, throwThe, MonadExceptOf.throw] at h
      · cases h
      · cases h; exact .of_kept this
  case write li =>
    rw [runOp_write] at h
    split at h
    · obtain ⟨m, _, h⟩ := bind_ok h
      (have k := branch_keeps h; exact .of_kept k)
    · obtain ⟨r, hr, h⟩ := bind_ok h
      obtain ⟨w1, b⟩ := r
      have := postAcquireWrite_keeps hr
      cases b <;> simp only [Bool.not_false, Bool.not_true, if_true, Bool.false_eq_true, if_false,
        bind, Except.bind, pure, Except.pure, throw, throwThe, MonadExceptOf.throw] at h
      · cases h
      · cases h; exact .of_kept this
  case tryRead li =>
    rw [runOp_tryRead] at h
    split at h
    · (have k := branch_keeps h; exact .of_kept k)
    · obtain ⟨r, hr, h⟩ := bind_ok h
      have k := @postAcquireRead_keeps _ r.1 _ r.2 hr; cases h; exact .of_kept k
  case tryWrite li =>
    rw [runOp_tryWrite] at h
    split at h
    · (have k := branch_keeps h; exact .of_kept k)
    · obtain ⟨r, hr, h⟩ := bind_ok h
      have k := @postAcquireWrite_keeps _ r.1 _ r.2 hr; cases h; exact .of_kept k
  case unread li =>
    rw [runOp_unread] at h
    obtain ⟨r, hr, h⟩ := bind_ok h
    have k := releaseRead_keeps hr; cases h; exact .of_kept k
  case unwrite li =>
    rw [runOp_unwrite] at h
    obtain ⟨r, hr, h⟩ := bind_ok h
    have k := releaseWrite_keeps hr; cases h; exact .of_kept k
  case cvWait vi mi =>
    rw [runOp_cvWait] at h
    split at h
    · (have k := branch_keeps h; exact .of_kept k)
    · obtain ⟨s, hs, h⟩ := bind_ok h
      have hs := getCv_ok hs
      obtain ⟨w2, h2, h⟩ := bind_ok h
      have k1 : NotifyKept w.exec.objs (w.setObj (w.cvObj vi)
          (.condvar { s with waiters := s.waiters ++ [w.tid] })).exec.objs :=
        notifyKept_set _ (by intro t; rw [hs]; simp)
      have k3 : NotifyKept w2.exec.objs w'.exec.objs := @blockNow_keeps (w2.setStage 2) w' h
      exact .of_kept (k1.trans ((releaseLock_keeps h2).trans k3))
    · obtain ⟨m, _, h⟩ := bind_ok h
      (have k := branch_keeps h; exact .of_kept k)
    · obtain ⟨r, hr, h⟩ := bind_ok h
      obtain ⟨w1, b⟩ := r
      have := postAcquire_keeps hr
      cases b <;> simp only [Bool.not_false, Bool.not_true, if_true, Bool.false_eq_true, if_false,
        bind, Except.bind, pure, Except.pure, throw, throwThe, MonadExceptOf.throw] at h
      · cases h
      · cases h; exact .of_kept this
  case cvOne vi =>
    rw [runOp_cvOne] at h
    split at h
    · (have k := branch_keeps h; exact .of_kept k)
    · obtain ⟨s, hs, h⟩ := bind_ok h
      have hs := getCv_ok hs
      split at h
      · cases h; exact .refl _
      · cases h
        exact .of_kept (notifyKept_set _ (by intro t; rw [hs]; simp))
  case cvAll vi =>
    rw [runOp_cvAll] at h
    split at h
    · (have k := branch_keeps h; exact .of_kept k)
    · obtain ⟨s, hs, h⟩ := bind_ok h
      have hs := getCv_ok hs
      cases h
      exact .of_kept (notifyKept_set _ (by intro t; rw [hs]; simp))
  case nWait ni =>
    rw [runOp_nWait] at h
    split at h
    · simp only [bind, Except.bind, pure, Except.pure] at h
      split at h
      · cases h
      · split at h
        · cases h
        · next r hr =>
          obtain ⟨w1, st⟩ := r
          have k := notifyWait1_flags hr
          cases h
          exact k
    · obtain ⟨w1, h1, h⟩ := bind_ok h
      have k := notifyWait2_flags h1; cases h; exact k
    · cases h; exact .refl _
  case park =>
    rw [runOp_park] at h
    split at h
    · (have k := parkNow_keeps h; exact .of_kept k)
    · cases h; exact .refl _
  case unpark b =>
    rw [runOp_unpark] at h
    obtain ⟨t, _, h⟩ := bind_ok h
    cases h; exact .refl _
  case join b =>
    rw [runOp_join] at h
    obtain ⟨r, _, h⟩ := bind_ok h
    obtain ⟨t, n⟩ := r
    simp only at h
    split at h
    · obtain ⟨r1, h1, h⟩ := bind_ok h
      obtain ⟨w1, st⟩ := r1
      have k := notifyWait1_flags h1; cases h; exact k
    · obtain ⟨w1, h1, h⟩ := bind_ok h
      have k := notifyWait2_flags h1; cases h; exact k
    · cases h; exact .refl _

end C08
end LoomVerif

/-
Race exactness on the WAIT fragment, part 4: the twin-side invariants in pointwise form (`ThrInv`: what is said of
one thread; `ObjInv`: what is said of the objects), and the frame lemmas: what a stage does not touch keeps its
invariant.
-/
import LoomVerif.Proofs.Race2Twin

namespace LoomVerif
namespace Race2
open Refine Refine2 Sy C07 C08 Clocks Race

/-! ### pointwise form -/

structure ThrInv (w : World) (σ : CS) (i : Nat) : Prop where
  rel : trel w i = VV.zero
  ob : ∀ o, topo w i = some o → o < w.exec.objs.length
  jo : ∀ b j n, topo w i = some n → (b, j, n) ∈ w.spawned → i ≠ j → pend w i = some n ∨ 10 ≤ fin w j
  lo : (σ.thr i).le (tcaus w i)
  hi : (tcaus w i).le ((σ.thr i).join (pendClk w σ i))
  tok : fin w i < 10 →
    (tuc w i).le (σ.mtx (kI w.prog (body w i))) ∧
    (σ.mtx (kI w.prog (body w i))).le ((tcaus w i).join (tuc w i))
  tokz : fin w i < 10 → ttok w i = false → tuc w i = VV.zero

/-- the one-clock-per-message shape of a channel object -/
def chanShape (os : List Obj) (n : Nat) : Prop :=
  ∃ cs, os[n]? = some (.chan cs) ∧ cs.receiverSync.length = cs.queue.length

structure ObjInv (w : World) (σ : CS) (mq : Nat → List VV) : Prop where
  mtx : ∀ m, m < w.prog.cfg.nMutexes → σ.mtx m = objHb w.exec.objs (w.mutexObj m)
  ntf : ∀ n, n < w.prog.cfg.nNotifies → σ.mtx (nI w.prog n) = objHb w.exec.objs (w.notifyObj n)
  chn : ∀ q, q < w.prog.cfg.nChans → σ.mtx (cI w.prog q) = objSs w.exec.objs (w.chanObj q)
  msg : ∀ q, q < w.prog.cfg.nChans → mq q = objRs w.exec.objs (w.chanObj q)
  acc : ∀ k c, c < w.prog.cfg.nCells → σ.acc k c = objAcc w.exec.objs k (w.cellObj c)
  cb : ∀ c, c < w.prog.cfg.nCells → cellIdle w.exec.objs (w.cellObj c)
  rsl : ∀ q, q < w.prog.cfg.nChans → chanShape w.exec.objs (w.chanObj q)
  nhb : ∀ b j n, (b, j, n) ∈ w.spawned → objHb w.exec.objs n = if 10 ≤ fin w j then tcaus w j else VV.zero
  sp0 : ∀ b j n, (b, j, n) ∈ w.spawned → 0 < j
  spt : ∀ e1 e2, e1 ∈ w.spawned → e2 ∈ w.spawned → e1.2.1 = e2.2.1 → e1 = e2
  tk0 : ∀ b, (∀ i, i < nthr w → body w i ≠ b) → σ.mtx (kI w.prog b) = VV.zero

theorem unpack {w : World} {σ : CS} {mq : Nat → List VV} (hI : TwinInv w) (hI2 : TwinInv2 w) (hL : LinkT2 w σ mq) :
    (∀ i, i < nthr w → ThrInv w σ i) ∧ ObjInv w σ mq :=
  ⟨fun i hi => ⟨hI.rel i hi, fun o => hI.ob i o hi, fun b j n => hI.jo i b j n hi, hL.lo i hi, hL.hi i hi,
      hL.tok i hi, hI2.tokz i hi⟩,
   ⟨hL.mtx, hL.ntf, hL.chn, hL.msg, hL.acc, hI.cb, hI2.rsl, hI.nhb, hI.sp0, hI.spt, hL.tk0⟩⟩

theorem pack {w : World} {σ : CS} {mq : Nat → List VV} (hT : ∀ i, i < nthr w → ThrInv w σ i)
    (hO : ObjInv w σ mq) : TwinInv w ∧ TwinInv2 w ∧ LinkT2 w σ mq :=
  ⟨⟨fun i hi => (hT i hi).rel, fun i o hi => (hT i hi).ob o, fun i b j n hi => (hT i hi).jo b j n, hO.nhb, hO.sp0,
      hO.spt, hO.cb⟩,
   ⟨fun i hi => (hT i hi).tokz, hO.rsl⟩,
   ⟨hO.mtx, hO.ntf, hO.chn, hO.msg, hO.acc, fun i hi => (hT i hi).lo, fun i hi => (hT i hi).hi,
      fun i hi => (hT i hi).tok, hO.tk0⟩⟩

/-! ### `pendClk` -/

theorem pendHb_congr {w w' : World} {i : Nat} (hp : w'.prog = w.prog) (hs : w'.spawned = w.spawned)
    (hc : w'.ctlOf i = w.ctlOf i)
    (hjh : ∀ b j n, (b, j, n) ∈ w.spawned → (objHb w.exec.objs n).le (objHb w'.exec.objs n)) :
    (pendHb w i).le (pendHb w' i) := by
  unfold pendHb
  rw [pend_congr hp hs hc]
  cases hpd : pend w i with
  | none => exact le_refl _
  | some n =>
    obtain ⟨b, j, hm⟩ := pend_mem hpd
    exact hjh b j n hm

theorem body_congr {w w' : World} {i : Nat} (hc : w'.ctlOf i = w.ctlOf i) : body w' i = body w i := by
  unfold body; rw [hc]

theorem opAtI_congr {w w' : World} {i : Nat} (hp : w'.prog = w.prog) (hc : w'.ctlOf i = w.ctlOf i) :
    opAtI w' i = opAtI w i := by
  unfold opAtI; rw [hp, hc]

/-- the control record of the thread is kept, the slots and the `JoinHandle` clocks grow: so does `pendClk` -/
theorem pendClk_mono {w w' : World} {σ σ' : CS} {i : Nat} (hp : w'.prog = w.prog) (hs : w'.spawned = w.spawned)
    (hc : w'.ctlOf i = w.ctlOf i) (hslot : ∀ m, (σ.mtx m).le (σ'.mtx m))
    (hjh : ∀ b j n, (b, j, n) ∈ w.spawned → (objHb w.exec.objs n).le (objHb w'.exec.objs n)) :
    (pendClk w σ i).le (pendClk w' σ' i) := by
  unfold pendClk
  rw [opAtI_congr hp hc, hc, hp, body_congr hc]
  split
  · split
    · exact hslot _
    · exact le_refl _
  · split
    · exact hslot _
    · exact le_refl _
  · exact pendHb_congr hp hs hc hjh

/-- a thread at stage 0 (or in its epilogue) has nothing pending -/
theorem pendClk_stage0 {w : World} {σ : CS} {i : Nat} (h : (w.ctlOf i).stage ≠ 1) : pendClk w σ i = VV.zero := by
  unfold pendClk
  split
  · rw [if_neg h]
  · rw [if_neg h]
  · exact pendHb_none (pend_stage0 h)

theorem pendClk_of_op {w : World} {σ : CS} {i : Nat} {op : Op} (hop : opAtI w i = some op)
    (h1 : ∀ n, op ≠ .nWait n) (h2 : op ≠ .park) (h3 : ∀ b, op ≠ .join b) : pendClk w σ i = VV.zero := by
  unfold pendClk
  rw [hop]
  split
  · next n e => cases e; exact absurd rfl (h1 _)
  · next e => cases e; exact absurd rfl h2
  · apply pendHb_none
    apply pend_notJoin
    intro b hb
    rw [hop] at hb
    cases hb
    exact h3 b rfl

theorem pendClk_end {w : World} {σ : CS} {i : Nat} (hop : opAtI w i = none) : pendClk w σ i = VV.zero := by
  unfold pendClk
  rw [hop]
  apply pendHb_none
  apply pend_notJoin
  intro b hb
  rw [hop] at hb
  cases hb

/-! ### frame lemmas -/

/-- nothing the invariant reads of thread `i` changes, the slots and `JoinHandle` clocks grow, the epilogues
advance -/
theorem ThrInv.frame {w w' : World} {σ σ' : CS} {i : Nat} (h : ThrInv w σ i)
    (hp : w'.prog = w.prog) (hs : w'.spawned = w.spawned) (hc : w'.ctlOf i = w.ctlOf i)
    (hsame : SameThr w w' i) (htopo : topo w' i = topo w i)
    (hlen : w.exec.objs.length ≤ w'.exec.objs.length)
    (hfin : ∀ j, 10 ≤ fin w j → 10 ≤ fin w' j)
    (hthr : σ'.thr i = σ.thr i)
    (hslot : ∀ m, (σ.mtx m).le (σ'.mtx m))
    (hkI : fin w i < 10 → σ'.mtx (kI w.prog (body w i)) = σ.mtx (kI w.prog (body w i)))
    (hjh : ∀ b j n, (b, j, n) ∈ w.spawned → (objHb w.exec.objs n).le (objHb w'.exec.objs n)) :
    ThrInv w' σ' i := by
  have hfi : fin w' i = fin w i := by unfold fin; rw [hc]
  have hb : body w' i = body w i := body_congr hc
  refine ⟨?_, ?_, ?_, ?_, ?_, ?_, ?_⟩
  · rw [hsame.rel]; exact h.rel
  · intro o ho
    rw [htopo] at ho
    exact Nat.lt_of_lt_of_le (h.ob o ho) hlen
  · intro b j n ho hm hij
    rw [htopo] at ho
    rw [hs] at hm
    rw [pend_congr hp hs hc]
    rcases h.jo b j n ho hm hij with h1 | h1
    · exact .inl h1
    · exact .inr (hfin j h1)
  · rw [hthr, hsame.caus]; exact h.lo
  · rw [hthr, hsame.caus]
    exact le_trans h.hi (join_mono (le_refl _) (pendClk_mono hp hs hc hslot hjh))
  · intro hf
    rw [hfi] at hf
    rw [hsame.uc, hsame.caus, hp, hb, hkI hf]
    exact h.tok hf
  · intro hf ht
    rw [hfi] at hf
    rw [hsame.tok] at ht
    rw [hsame.uc]
    exact h.tokz hf ht

/-- the active thread after a stage that leaves it with nothing pending (it completed an operation, or it is in its
epilogue): its ghost clock is exactly its causality -/
theorem ThrInv.exact {w' : World} {σ' : CS} {i : Nat}
    (hrel : trel w' i = VV.zero)
    (hob : ∀ o, topo w' i = some o → o < w'.exec.objs.length)
    (hjo : ∀ b j n, topo w' i = some n → (b, j, n) ∈ w'.spawned → i ≠ j → pend w' i = some n ∨ 10 ≤ fin w' j)
    (heq : σ'.thr i = tcaus w' i)
    (htok : fin w' i < 10 →
      (tuc w' i).le (σ'.mtx (kI w'.prog (body w' i))) ∧
      (σ'.mtx (kI w'.prog (body w' i))).le ((tcaus w' i).join (tuc w' i)))
    (htokz : fin w' i < 10 → ttok w' i = false → tuc w' i = VV.zero) : ThrInv w' σ' i :=
  ⟨hrel, hob, hjo, by rw [heq]; exact le_refl _, by rw [heq]; exact le_join_left _ _, htok, htokz⟩

/-! ### objects -/

/-- object `n` reads the same -/
structure SameObj (os os' : List Obj) (n : Nat) : Prop where
  hb : objHb os' n = objHb os n
  ss : objSs os' n = objSs os n
  rs : objRs os' n = objRs os n
  acc : ∀ k, objAcc os' k n = objAcc os k n
  idle : cellIdle os n → cellIdle os' n
  shape : chanShape os n → chanShape os' n

theorem SameObj.of_touched2 {os os' : List Obj} (h : ObjsTouched2 os os') {n : Nat} (hn : n < os.length) :
    SameObj os os' n :=
  ⟨objHb_touched2 h hn, objSs_touched2 h hn, objRs_touched2 h hn, fun k => objAcc_touched2 h k hn,
    cellIdle_touched2 h, chanShape_touched2 h⟩

theorem SameObj.refl (os : List Obj) (n : Nat) : SameObj os os n := ⟨rfl, rfl, rfl, fun _ => rfl, id, id⟩

theorem SameObj.set_ne (os : List Obj) {o n : Nat} (x : Obj) (h : n ≠ o) : SameObj os (os.set o x) n := by
  refine ⟨objHb_set_ne _ _ h, objSs_set_ne _ _ h, objRs_set_ne _ _ h, fun k => objAcc_set_ne _ _ _ h, ?_, ?_⟩
  · rintro ⟨cs, h1, h2, h3⟩
    exact ⟨cs, by rw [getElem?_set_ne' _ _ _ _ h]; exact h1, h2, h3⟩
  · rintro ⟨cs, h1, h2⟩
    exact ⟨cs, by rw [getElem?_set_ne' _ _ _ _ h]; exact h1, h2⟩

theorem SameObj.append (os x : List Obj) {n : Nat} (h : n < os.length) : SameObj os (os ++ x) n := by
  refine ⟨objHb_append _ _ h, objSs_append _ _ h, objRs_append _ _ h, fun k => objAcc_append _ _ _ h, ?_, ?_⟩
  · rintro ⟨cs, h1, h2, h3⟩
    exact ⟨cs, by rw [List.getElem?_append_left h]; exact h1, h2, h3⟩
  · rintro ⟨cs, h1, h2⟩
    exact ⟨cs, by rw [List.getElem?_append_left h]; exact h1, h2⟩

theorem SameObj.trans {a b c : List Obj} {n : Nat} (h1 : SameObj a b n) (h2 : SameObj b c n) : SameObj a c n :=
  ⟨h2.hb.trans h1.hb, h2.ss.trans h1.ss, h2.rs.trans h1.rs, fun k => (h2.acc k).trans (h1.acc k),
    fun h => h2.idle (h1.idle h), fun h => h2.shape (h1.shape h)⟩

section
variable {w w' : World}

theorem cellObj_congr (hp : w'.prog = w.prog) (c : Nat) : w'.cellObj c = w.cellObj c := by
  unfold World.cellObj World.cfg; rw [hp]
theorem mutexObj_congr (hp : w'.prog = w.prog) (c : Nat) : w'.mutexObj c = w.mutexObj c := by
  unfold World.mutexObj World.cfg; rw [hp]
theorem notifyObj_congr (hp : w'.prog = w.prog) (c : Nat) : w'.notifyObj c = w.notifyObj c := by
  unfold World.notifyObj World.cvObj World.rwObj World.mutexObj World.cfg; rw [hp]
theorem chanObj_congr (hp : w'.prog = w.prog) (c : Nat) : w'.chanObj c = w.chanObj c := by
  unfold World.chanObj World.notifyObj World.cvObj World.rwObj World.mutexObj World.cfg; rw [hp]
theorem cvObj_congr (hp : w'.prog = w.prog) (c : Nat) : w'.cvObj c = w.cvObj c := by
  unfold World.cvObj World.rwObj World.mutexObj World.cfg; rw [hp]

/-- **the objects after a stage**: the slots / message clocks / access clocks of the ghost system are unchanged
wherever the object reads the same; the caller accounts for the objects that changed (at most the ones listed as
exceptions in the hypotheses) -/
theorem ObjInv.frame {σ σ' : CS} {mq mq' : Nat → List VV} (h : ObjInv w σ mq)
    (hp : w'.prog = w.prog) (hs : w'.spawned = w.spawned) (hn : nthr w' = nthr w)
    (hbody : ∀ i, i < nthr w → body w' i = body w i)
    -- mutexes
    (hmtx : ∀ m, m < w.prog.cfg.nMutexes →
      (SameObj w.exec.objs w'.exec.objs (w.mutexObj m) ∧ σ'.mtx m = σ.mtx m) ∨
        σ'.mtx m = objHb w'.exec.objs (w.mutexObj m))
    -- notifies
    (hntf : ∀ n, n < w.prog.cfg.nNotifies →
      (SameObj w.exec.objs w'.exec.objs (w.notifyObj n) ∧ σ'.mtx (nI w.prog n) = σ.mtx (nI w.prog n)) ∨
        σ'.mtx (nI w.prog n) = objHb w'.exec.objs (w.notifyObj n))
    -- channels
    (hchn : ∀ q, q < w.prog.cfg.nChans →
      (SameObj w.exec.objs w'.exec.objs (w.chanObj q) ∧ σ'.mtx (cI w.prog q) = σ.mtx (cI w.prog q) ∧
          mq' q = mq q) ∨
        (σ'.mtx (cI w.prog q) = objSs w'.exec.objs (w.chanObj q) ∧ mq' q = objRs w'.exec.objs (w.chanObj q) ∧
          chanShape w'.exec.objs (w.chanObj q)))
    -- cells
    (hcell : ∀ c, c < w.prog.cfg.nCells →
      (SameObj w.exec.objs w'.exec.objs (w.cellObj c) ∧ ∀ k, σ'.acc k c = σ.acc k c) ∨
        ((∀ k, σ'.acc k c = objAcc w'.exec.objs k (w.cellObj c)) ∧ cellIdle w'.exec.objs (w.cellObj c)))
    -- join handles
    (hnhb : ∀ b j n, (b, j, n) ∈ w.spawned →
      objHb w'.exec.objs n = if 10 ≤ fin w' j then tcaus w' j else VV.zero)
    -- token slots of bodies that do not run
    (htk0 : ∀ b, (∀ i, i < nthr w → body w i ≠ b) → σ'.mtx (kI w.prog b) = σ.mtx (kI w.prog b)) :
    ObjInv w' σ' mq' := by
  refine ⟨?_, ?_, ?_, ?_, ?_, ?_, ?_, ?_, ?_, ?_, ?_⟩
  · intro m hm
    rw [hp] at hm
    rw [mutexObj_congr hp]
    rcases hmtx m hm with ⟨h1, h2⟩ | h1
    · rw [h2, h1.hb]; exact h.mtx m hm
    · exact h1
  · intro n hn'
    rw [hp] at hn' ⊢
    rw [notifyObj_congr hp]
    rcases hntf n hn' with ⟨h1, h2⟩ | h1
    · rw [h2, h1.hb]; exact h.ntf n hn'
    · exact h1
  · intro q hq
    rw [hp] at hq ⊢
    rw [chanObj_congr hp]
    rcases hchn q hq with ⟨h1, h2, _⟩ | ⟨h1, _, _⟩
    · rw [h2, h1.ss]; exact h.chn q hq
    · exact h1
  · intro q hq
    rw [hp] at hq
    rw [chanObj_congr hp]
    rcases hchn q hq with ⟨h1, _, h3⟩ | ⟨_, h2, _⟩
    · rw [h3, h1.rs]; exact h.msg q hq
    · exact h2
  · intro k c hc
    rw [hp] at hc
    rw [cellObj_congr hp]
    rcases hcell c hc with ⟨h1, h2⟩ | ⟨h1, _⟩
    · rw [h2, h1.acc]; exact h.acc k c hc
    · exact h1 k
  · intro c hc
    rw [hp] at hc
    rw [cellObj_congr hp]
    rcases hcell c hc with ⟨h1, _⟩ | ⟨_, h2⟩
    · exact h1.idle (h.cb c hc)
    · exact h2
  · intro q hq
    rw [hp] at hq
    rw [chanObj_congr hp]
    rcases hchn q hq with ⟨h1, _, _⟩ | ⟨_, _, h3⟩
    · exact h1.shape (h.rsl q hq)
    · exact h3
  · intro b j n hm
    rw [hs] at hm
    exact hnhb b j n hm
  · intro b j n hm
    rw [hs] at hm; exact h.sp0 b j n hm
  · intro e1 e2 h1 h2
    rw [hs] at h1 h2; exact h.spt e1 e2 h1 h2
  · intro b hb
    rw [hp]
    have hb' : ∀ i, i < nthr w → body w i ≠ b := by
      intro i hi
      have := hb i (by rw [hn]; exact hi)
      rwa [hbody i hi] at this
    rw [htk0 b hb']
    exact h.tk0 b hb'

/-- the `JoinHandle` clocks after a stage in which no `JoinHandle` notify changes, no thread passes its
notification and the finished threads keep their causality -/
theorem nhb_frame {σ : CS} {mq : Nat → List VV} (h : ObjInv w σ mq)
    (hobj : ∀ b j n, (b, j, n) ∈ w.spawned → objHb w'.exec.objs n = objHb w.exec.objs n)
    (hfin : ∀ j, 10 ≤ fin w' j ↔ 10 ≤ fin w j)
    (hcaus : ∀ j, 10 ≤ fin w j → tcaus w' j = tcaus w j) :
    ∀ b j n, (b, j, n) ∈ w.spawned → objHb w'.exec.objs n = if 10 ≤ fin w' j then tcaus w' j else VV.zero := by
  intro b j n hm
  rw [hobj b j n hm, h.nhb b j n hm]
  by_cases h10 : 10 ≤ fin w j
  · rw [if_pos h10, if_pos ((hfin j).2 h10), hcaus j h10]
  · rw [if_neg h10, if_neg (fun hh => h10 ((hfin j).1 hh))]

end

end Race2
end LoomVerif

/-
Clocks, race detection (C04): the decision logic of `cell::State::track_read/track_write` as used
by `World.runOp`, and of `atomic::State::track_*`, characterised by `VV.le`.
-/
import LoomVerif.Model.Interp
import LoomVerif.Proofs.ClocksVV

namespace LoomVerif
namespace Clocks

open Atomic

/-! ### `UnsafeCell` -/

/-- `start_read` + `track_read`, as a function of the cell state and the reader's causality -/
def cellReadCheck (s : CellSt) (c : VV) : Except Panic CellSt :=
  if s.isWriting then .error .cellBusy
  else if ¬ s.writeAccess.le c then .error (.causality 9)
  else .ok { s with readAccess := s.readAccess.join c }

/-- `start_write` + `track_write` -/
def cellWriteCheck (s : CellSt) (c : VV) (v : Int) : Except Panic CellSt :=
  if s.isReading != 0 || s.isWriting then .error .cellBusy
  else if ¬ s.writeAccess.le c then .error (.causality 10)
  else if ¬ s.readAccess.le c then .error (.causality 11)
  else .ok { s with writeAccess := s.writeAccess.join c, value := v }

/-- `runOp` on `.cellRead` is exactly `cellReadCheck` applied to the causality after the
`rt::synchronize` increment -/
theorem runOp_cellRead (w : World) (c : TCtl) (ci : Nat) :
    w.runOp c (.cellRead ci) =
      (w.sync.getCell (w.cellObj ci) >>= fun s =>
        cellReadCheck s w.sync.ths.caus >>= fun s' =>
          pure ((w.sync.setObj (w.cellObj ci) (.cell s')).complete (.val s'.value))) := by
  unfold World.runOp
  cases hs : w.sync.getCell (w.cellObj ci) with
  | error e => simp [hs, bind, Except.bind]
  | ok s =>
    unfold cellReadCheck
    cases hw : s.isWriting
    · by_cases hle : s.writeAccess.le w.sync.ths.caus
      · simp [hs, hw, hle, (ahead_isSome_eq_false_iff _ _).2 hle, bind, Except.bind, pure,
          Except.pure]
      · simp [hs, hw, hle, (ahead_isSome_iff _ _).2 hle, bind, Except.bind, throw, throwThe,
          MonadExceptOf.throw]
    · simp [hs, hw, bind, Except.bind, throw, throwThe, MonadExceptOf.throw]

theorem runOp_cellWrite (w : World) (c : TCtl) (ci : Nat) (v : Int) :
    w.runOp c (.cellWrite ci v) =
      (w.sync.getCell (w.cellObj ci) >>= fun s =>
        cellWriteCheck s w.sync.ths.caus v >>= fun s' =>
          pure ((w.sync.setObj (w.cellObj ci) (.cell s')).complete .unit)) := by
  unfold World.runOp
  cases hs : w.sync.getCell (w.cellObj ci) with
  | error e => simp [hs, bind, Except.bind]
  | ok s =>
    unfold cellWriteCheck
    cases hb : (s.isReading != 0 || s.isWriting)
    · by_cases hle : s.writeAccess.le w.sync.ths.caus
      · by_cases hle2 : s.readAccess.le w.sync.ths.caus
        · simp [hs, hb, hle, hle2, (ahead_isSome_eq_false_iff _ _).2 hle,
            (ahead_isSome_eq_false_iff _ _).2 hle2, bind, Except.bind, pure, Except.pure]
        · simp [hs, hb, hle, hle2, (ahead_isSome_eq_false_iff _ _).2 hle,
            (ahead_isSome_iff _ _).2 hle2, bind, Except.bind, throw, throwThe,
            MonadExceptOf.throw]
      · simp [hs, hb, hle, (ahead_isSome_iff _ _).2 hle, bind, Except.bind, throw, throwThe,
          MonadExceptOf.throw]
    · simp [hs, hb, bind, Except.bind, throw, throwThe, MonadExceptOf.throw]

/-! ### `UnsafeCell`: sections that stay open (`cellReadBegin` … `cellReadEnd`, `cellWriteBegin` … `cellWriteEnd`) -/

/-- `start_read` + `track_read` of a section that stays open: one more reader -/
def cellReadBeginCheck (s : CellSt) (c : VV) : Except Panic CellSt :=
  if s.isWriting then .error .cellBusy
  else if ¬ s.writeAccess.le c then .error (.causality 9)
  else .ok { s with isReading := s.isReading + 1, readAccess := s.readAccess.join c }

/-- `Reading::drop`: the section must be open (`internal 86` otherwise — the DSL program is ill-formed),
`track_read` again with the causality the thread has NOW, one reader less -/
def cellReadEndCheck (s : CellSt) (c : VV) : Except Panic CellSt :=
  if s.isReading == 0 || s.isWriting then .error (.internal 86)
  else if ¬ s.writeAccess.le c then .error (.causality 9)
  else .ok { s with isReading := s.isReading - 1, readAccess := s.readAccess.join c }

/-- `start_write` + `track_write` of a section that stays open -/
def cellWriteBeginCheck (s : CellSt) (c : VV) (v : Int) : Except Panic CellSt :=
  if s.isReading != 0 || s.isWriting then .error .cellBusy
  else if ¬ s.writeAccess.le c then .error (.causality 10)
  else if ¬ s.readAccess.le c then .error (.causality 11)
  else .ok { s with isWriting := true, writeAccess := s.writeAccess.join c, value := v }

/-- `Writing::drop`: the section must be open (`internal 87` otherwise), `track_write` again -/
def cellWriteEndCheck (s : CellSt) (c : VV) : Except Panic CellSt :=
  if !s.isWriting || s.isReading != 0 then .error (.internal 87)
  else if ¬ s.writeAccess.le c then .error (.causality 10)
  else if ¬ s.readAccess.le c then .error (.causality 11)
  else .ok { s with isWriting := false, writeAccess := s.writeAccess.join c }

theorem runOp_cellReadBegin (w : World) (c : TCtl) (ci : Nat) :
    w.runOp c (.cellReadBegin ci) =
      (w.sync.getCell (w.cellObj ci) >>= fun s =>
        cellReadBeginCheck s w.sync.ths.caus >>= fun s' =>
          pure ((w.sync.setObj (w.cellObj ci) (.cell s')).complete (.val s'.value))) := by
  unfold World.runOp
  cases hs : w.sync.getCell (w.cellObj ci) with
  | error e => simp [hs, bind, Except.bind]
  | ok s =>
    unfold cellReadBeginCheck
    cases hw : s.isWriting
    · by_cases hle : s.writeAccess.le w.sync.ths.caus
      · simp [hs, hw, hle, (ahead_isSome_eq_false_iff _ _).2 hle, bind, Except.bind, pure,
          Except.pure]
      · simp [hs, hw, hle, (ahead_isSome_iff _ _).2 hle, bind, Except.bind, throw, throwThe,
          MonadExceptOf.throw]
    · simp [hs, hw, bind, Except.bind, throw, throwThe, MonadExceptOf.throw]

/-- `.cellReadEnd` is `cellReadEndCheck` applied to the thread's causality as it is — there is no
`rt::synchronize` increment when a guard drops -/
theorem runOp_cellReadEnd (w : World) (c : TCtl) (ci : Nat) :
    w.runOp c (.cellReadEnd ci) =
      (w.getCell (w.cellObj ci) >>= fun s =>
        cellReadEndCheck s w.ths.caus >>= fun s' =>
          pure ((w.setObj (w.cellObj ci) (.cell s')).complete .unit)) := by
  unfold World.runOp
  cases hs : w.getCell (w.cellObj ci) with
  | error e => simp [hs, bind, Except.bind]
  | ok s =>
    unfold cellReadEndCheck
    cases hb : (s.isReading == 0 || s.isWriting)
    · by_cases hle : s.writeAccess.le w.ths.caus
      · simp [hs, hb, hle, (ahead_isSome_eq_false_iff _ _).2 hle, bind, Except.bind, pure,
          Except.pure]
      · simp [hs, hb, hle, (ahead_isSome_iff _ _).2 hle, bind, Except.bind, throw, throwThe,
          MonadExceptOf.throw]
    · simp [hs, hb, bind, Except.bind, throw, throwThe, MonadExceptOf.throw]

theorem runOp_cellWriteBegin (w : World) (c : TCtl) (ci : Nat) (v : Int) :
    w.runOp c (.cellWriteBegin ci v) =
      (w.sync.getCell (w.cellObj ci) >>= fun s =>
        cellWriteBeginCheck s w.sync.ths.caus v >>= fun s' =>
          pure ((w.sync.setObj (w.cellObj ci) (.cell s')).complete .unit)) := by
  unfold World.runOp
  cases hs : w.sync.getCell (w.cellObj ci) with
  | error e => simp [hs, bind, Except.bind]
  | ok s =>
    unfold cellWriteBeginCheck
    cases hb : (s.isReading != 0 || s.isWriting)
    · by_cases hle : s.writeAccess.le w.sync.ths.caus
      · by_cases hle2 : s.readAccess.le w.sync.ths.caus
        · simp [hs, hb, hle, hle2, (ahead_isSome_eq_false_iff _ _).2 hle,
            (ahead_isSome_eq_false_iff _ _).2 hle2, bind, Except.bind, pure, Except.pure]
        · simp [hs, hb, hle, hle2, (ahead_isSome_eq_false_iff _ _).2 hle,
            (ahead_isSome_iff _ _).2 hle2, bind, Except.bind, throw, throwThe,
            MonadExceptOf.throw]
      · simp [hs, hb, hle, (ahead_isSome_iff _ _).2 hle, bind, Except.bind, throw, throwThe,
          MonadExceptOf.throw]
    · simp [hs, hb, bind, Except.bind, throw, throwThe, MonadExceptOf.throw]

theorem runOp_cellWriteEnd (w : World) (c : TCtl) (ci : Nat) :
    w.runOp c (.cellWriteEnd ci) =
      (w.getCell (w.cellObj ci) >>= fun s =>
        cellWriteEndCheck s w.ths.caus >>= fun s' =>
          pure ((w.setObj (w.cellObj ci) (.cell s')).complete .unit)) := by
  unfold World.runOp
  cases hs : w.getCell (w.cellObj ci) with
  | error e => simp [hs, bind, Except.bind]
  | ok s =>
    unfold cellWriteEndCheck
    cases hb : (!s.isWriting || s.isReading != 0)
    · by_cases hle : s.writeAccess.le w.ths.caus
      · by_cases hle2 : s.readAccess.le w.ths.caus
        · simp [hs, hb, hle, hle2, (ahead_isSome_eq_false_iff _ _).2 hle,
            (ahead_isSome_eq_false_iff _ _).2 hle2, bind, Except.bind, pure, Except.pure]
        · simp [hs, hb, hle, hle2, (ahead_isSome_eq_false_iff _ _).2 hle,
            (ahead_isSome_iff _ _).2 hle2, bind, Except.bind, throw, throwThe,
            MonadExceptOf.throw]
      · simp [hs, hb, hle, (ahead_isSome_iff _ _).2 hle, bind, Except.bind, throw, throwThe,
          MonadExceptOf.throw]
    · simp [hs, hb, bind, Except.bind, throw, throwThe, MonadExceptOf.throw]

theorem getCell_ok {w : World} {o : Nat} {s : CellSt} (h : w.getCell o = .ok s) :
    w.exec.objs[o]? = some (.cell s) := by
  unfold World.getCell at h; split at h <;> cases h; assumption

/-- the cell just written is read back, also after `complete` -/
theorem getCell_setObj_complete {w : World} {o : Nat} {s s' : CellSt} (r : Ret)
    (h : w.getCell o = .ok s) : ((w.setObj o (.cell s')).complete r).getCell o = .ok s' := by
  have hlt : o < w.exec.objs.length := (List.getElem?_eq_some_iff.1 (getCell_ok h)).1
  unfold World.getCell
  show (match (w.exec.objs.set o (.cell s'))[o]? with | some (.cell a) => _ | _ => _) = _
  simp [hlt]

/-! ### atomics: `track_*` -/

theorem trackLoad_eq (a : Atomic) (ths : Threads) (hm : a.isMutating = false) :
    a.trackLoad ths =
      if ¬ a.unsyncMutAt.le ths.caus then .error (.causality 0)
      else .ok { a with loadedAt := a.loadedAt.join ths.caus } := by
  unfold Atomic.trackLoad Atomic.mutatingCheck
  by_cases h1 : a.unsyncMutAt.le ths.caus
  · simp [hm, h1, (ahead_isSome_eq_false_iff _ _).2 h1]; rfl
  · simp [hm, h1, (ahead_isSome_iff _ _).2 h1]; rfl

theorem trackUnsyncLoad_eq (a : Atomic) (ths : Threads) (hm : a.isMutating = false) :
    a.trackUnsyncLoad ths =
      if ¬ a.unsyncMutAt.le ths.caus then .error (.causality 1)
      else if ¬ a.storedAt.le ths.caus then .error (.causality 2)
      else .ok { a with unsyncLoadedAt := a.unsyncLoadedAt.join ths.caus } := by
  unfold Atomic.trackUnsyncLoad Atomic.mutatingCheck
  by_cases h1 : a.unsyncMutAt.le ths.caus
  · by_cases h2 : a.storedAt.le ths.caus
    · simp [hm, h1, h2, (ahead_isSome_eq_false_iff _ _).2 h1,
        (ahead_isSome_eq_false_iff _ _).2 h2]; rfl
    · simp [hm, h1, h2, (ahead_isSome_eq_false_iff _ _).2 h1, (ahead_isSome_iff _ _).2 h2]; rfl
  · simp [hm, h1, (ahead_isSome_iff _ _).2 h1]; rfl

theorem trackStore_eq (a : Atomic) (ths : Threads) (hm : a.isMutating = false) :
    a.trackStore ths =
      if ¬ a.unsyncMutAt.le ths.caus then .error (.causality 3)
      else if ¬ a.unsyncLoadedAt.le ths.caus then .error (.causality 4)
      else .ok { a with storedAt := a.storedAt.join ths.caus } := by
  unfold Atomic.trackStore Atomic.mutatingCheck
  by_cases h1 : a.unsyncMutAt.le ths.caus
  · by_cases h2 : a.unsyncLoadedAt.le ths.caus
    · simp [hm, h1, h2, (ahead_isSome_eq_false_iff _ _).2 h1,
        (ahead_isSome_eq_false_iff _ _).2 h2]; rfl
    · simp [hm, h1, h2, (ahead_isSome_eq_false_iff _ _).2 h1, (ahead_isSome_iff _ _).2 h2]; rfl
  · simp [hm, h1, (ahead_isSome_iff _ _).2 h1]; rfl

theorem trackUnsyncMut_eq (a : Atomic) (ths : Threads) (hm : a.isMutating = false) :
    a.trackUnsyncMut ths =
      if ¬ a.loadedAt.le ths.caus then .error (.causality 5)
      else if ¬ a.unsyncLoadedAt.le ths.caus then .error (.causality 6)
      else if ¬ a.storedAt.le ths.caus then .error (.causality 7)
      else if ¬ a.unsyncMutAt.le ths.caus then .error (.causality 8)
      else .ok { a with unsyncMutAt := a.unsyncMutAt.join ths.caus } := by
  unfold Atomic.trackUnsyncMut Atomic.mutatingCheck
  by_cases h1 : a.loadedAt.le ths.caus
  · by_cases h2 : a.unsyncLoadedAt.le ths.caus
    · by_cases h3 : a.storedAt.le ths.caus
      · by_cases h4 : a.unsyncMutAt.le ths.caus
        · simp [hm, h1, h2, h3, h4, (ahead_isSome_eq_false_iff _ _).2 h1,
            (ahead_isSome_eq_false_iff _ _).2 h2, (ahead_isSome_eq_false_iff _ _).2 h3,
            (ahead_isSome_eq_false_iff _ _).2 h4]; rfl
        · simp [hm, h1, h2, h3, h4, (ahead_isSome_eq_false_iff _ _).2 h1,
            (ahead_isSome_eq_false_iff _ _).2 h2, (ahead_isSome_eq_false_iff _ _).2 h3,
            (ahead_isSome_iff _ _).2 h4]; rfl
      · simp [hm, h1, h2, h3, (ahead_isSome_eq_false_iff _ _).2 h1,
          (ahead_isSome_eq_false_iff _ _).2 h2, (ahead_isSome_iff _ _).2 h3]; rfl
    · simp [hm, h1, h2, (ahead_isSome_eq_false_iff _ _).2 h1, (ahead_isSome_iff _ _).2 h2]; rfl
  · simp [hm, h1, (ahead_isSome_iff _ _).2 h1]; rfl

/-- with `is_mutating` set every `track_*` trips the `assert!` -/
theorem track_mutating (a : Atomic) (ths : Threads) (hm : a.isMutating = true) :
    a.trackLoad ths = .error .atomicMutating ∧ a.trackUnsyncLoad ths = .error .atomicMutating ∧
    a.trackStore ths = .error .atomicMutating ∧ a.trackUnsyncMut ths = .error .atomicMutating := by
  simp [Atomic.trackLoad, Atomic.trackUnsyncLoad, Atomic.trackStore, Atomic.trackUnsyncMut,
    Atomic.mutatingCheck, hm, bind, Except.bind]

end Clocks
end LoomVerif

/-
Clocks, race detection (C04): the decision logic of `cell::State::track_read/track_write` as used
by `World.runOp`, and of `atomic::State::track_*`, characterised by `VV.le`.
-/
import LoomVerif.Model.Interp
import LoomVerif.Proofs.ClocksVV

namespace LoomVerif
namespace Clocks

open Atomic

/-! ### `UnsafeCell` -/

/-- `start_read` + `track_read`, as a function of the cell state and the reader's causality -/
def cellReadCheck (s : CellSt) (c : VV) : Except Panic CellSt :=
  if s.isWriting then .error .cellBusy
  else if ¬ s.writeAccess.le c then .error (.causality 9)
  else .ok { s with readAccess := s.readAccess.join c }

/-- `start_write` + `track_write` -/
def cellWriteCheck (s : CellSt) (c : VV) (v : Int) : Except Panic CellSt :=
  if s.isReading != 0 || s.isWriting then .error .cellBusy
  else if ¬ s.writeAccess.le c then .error (.causality 10)
  else if ¬ s.readAccess.le c then .error (.causality 11)
  else .ok { s with writeAccess := s.writeAccess.join c, value := v }

/-- `runOp` on `.cellRead` is exactly `cellReadCheck` applied to the causality after the
`rt::synchronize` increment -/
theorem runOp_cellRead (w : World) (c : TCtl) (ci : Nat) :
    w.runOp c (.cellRead ci) =
      (w.sync.getCell (w.cellObj ci) >>= fun s =>
        cellReadCheck s w.sync.ths.caus >>= fun s' =>
          pure ((w.sync.setObj (w.cellObj ci) (.cell s')).complete (.val s'.value))) := by
  unfold World.runOp
  cases hs : w.sync.getCell (w.cellObj ci) with
  | error e => simp [hs, bind, Except.bind]
  | ok s =>
    unfold cellReadCheck
    cases hw : s.isWriting
    · by_cases hle : s.writeAccess.le w.sync.ths.caus
      · simp [hs, hw, hle, (ahead_isSome_eq_false_iff _ _).2 hle, bind, Except.bind, pure,
          Except.pure]
      · simp [hs, hw, hle, (ahead_isSome_iff _ _).2 hle, bind, Except.bind, throw, throwThe,
          MonadExceptOf.throw]
    · simp [hs, hw, bind, Except.bind, throw, throwThe, MonadExceptOf.throw]

theorem runOp_cellWrite (w : World) (c : TCtl) (ci : Nat) (v : Int) :
    w.runOp c (.cellWrite ci v) =
      (w.sync.getCell (w.cellObj ci) >>= fun s =>
        cellWriteCheck s w.sync.ths.caus v >>= fun s' =>
          pure ((w.sync.setObj (w.cellObj ci) (.cell s')).complete .unit)) := by
  unfold World.runOp
  cases hs : w.sync.getCell (w.cellObj ci) with
  | error e => simp [hs, bind, Except.bind]
  | ok s =>
    unfold cellWriteCheck
    cases hb : (s.isReading != 0 || s.isWriting)
    · by_cases hle : s.writeAccess.le w.sync.ths.caus
      · by_cases hle2 : s.readAccess.le w.sync.ths.caus
        · simp [hs, hb, hle, hle2, (ahead_isSome_eq_false_iff _ _).2 hle,
            (ahead_isSome_eq_false_iff _ _).2 hle2, bind, Except.bind, pure, Except.pure]
        · simp [hs, hb, hle, hle2, (ahead_isSome_eq_false_iff _ _).2 hle,
            (ahead_isSome_iff _ _).2 hle2, bind, Except.bind, throw, throwThe,
            MonadExceptOf.throw]
      · simp [hs, hb, hle, (ahead_isSome_iff _ _).2 hle, bind, Except.bind, throw, throwThe,
          MonadExceptOf.throw]
    · simp [hs, hb, bind, Except.bind, throw, throwThe, MonadExceptOf.throw]

/-! ### atomics: `track_*` -/

theorem trackLoad_eq (a : Atomic) (ths : Threads) (hm : a.isMutating = false) :
    a.trackLoad ths =
      if ¬ a.unsyncMutAt.le ths.caus then .error (.causality 0)
      else .ok { a with loadedAt := a.loadedAt.join ths.caus } := by
  unfold Atomic.trackLoad Atomic.mutatingCheck
  by_cases h1 : a.unsyncMutAt.le ths.caus
  · simp [hm, h1, (ahead_isSome_eq_false_iff _ _).2 h1]; rfl
  · simp [hm, h1, (ahead_isSome_iff _ _).2 h1]; rfl

theorem trackUnsyncLoad_eq (a : Atomic) (ths : Threads) (hm : a.isMutating = false) :
    a.trackUnsyncLoad ths =
      if ¬ a.unsyncMutAt.le ths.caus then .error (.causality 1)
      else if ¬ a.storedAt.le ths.caus then .error (.causality 2)
      else .ok { a with unsyncLoadedAt := a.unsyncLoadedAt.join ths.caus } := by
  unfold Atomic.trackUnsyncLoad Atomic.mutatingCheck
  by_cases h1 : a.unsyncMutAt.le ths.caus
  · by_cases h2 : a.storedAt.le ths.caus
    · simp [hm, h1, h2, (ahead_isSome_eq_false_iff _ _).2 h1,
        (ahead_isSome_eq_false_iff _ _).2 h2]; rfl
    · simp [hm, h1, h2, (ahead_isSome_eq_false_iff _ _).2 h1, (ahead_isSome_iff _ _).2 h2]; rfl
  · simp [hm, h1, (ahead_isSome_iff _ _).2 h1]; rfl

theorem trackStore_eq (a : Atomic) (ths : Threads) (hm : a.isMutating = false) :
    a.trackStore ths =
      if ¬ a.unsyncMutAt.le ths.caus then .error (.causality 3)
      else if ¬ a.unsyncLoadedAt.le ths.caus then .error (.causality 4)
      else .ok { a with storedAt := a.storedAt.join ths.caus } := by
  unfold Atomic.trackStore Atomic.mutatingCheck
  by_cases h1 : a.unsyncMutAt.le ths.caus
  · by_cases h2 : a.unsyncLoadedAt.le ths.caus
    · simp [hm, h1, h2, (ahead_isSome_eq_false_iff _ _).2 h1,
        (ahead_isSome_eq_false_iff _ _).2 h2]; rfl
    · simp [hm, h1, h2, (ahead_isSome_eq_false_iff _ _).2 h1, (ahead_isSome_iff _ _).2 h2]; rfl
  · simp [hm, h1, (ahead_isSome_iff _ _).2 h1]; rfl

theorem trackUnsyncMut_eq (a : Atomic) (ths : Threads) (hm : a.isMutating = false) :
    a.trackUnsyncMut ths =
      if ¬ a.loadedAt.le ths.caus then .error (.causality 5)
      else if ¬ a.unsyncLoadedAt.le ths.caus then .error (.causality 6)
      else if ¬ a.storedAt.le ths.caus then .error (.causality 7)
      else if ¬ a.unsyncMutAt.le ths.caus then .error (.causality 8)
      else .ok { a with unsyncMutAt := a.unsyncMutAt.join ths.caus } := by
  unfold Atomic.trackUnsyncMut Atomic.mutatingCheck
  by_cases h1 : a.loadedAt.le ths.caus
  · by_cases h2 : a.unsyncLoadedAt.le ths.caus
    · by_cases h3 : a.storedAt.le ths.caus
      · by_cases h4 : a.unsyncMutAt.le ths.caus
        · simp [hm, h1, h2, h3, h4, (ahead_isSome_eq_false_iff _ _).2 h1,
            (ahead_isSome_eq_false_iff _ _).2 h2, (ahead_isSome_eq_false_iff _ _).2 h3,
            (ahead_isSome_eq_false_iff _ _).2 h4]; rfl
        · simp [hm, h1, h2, h3, h4, (ahead_isSome_eq_false_iff _ _).2 h1,
            (ahead_isSome_eq_false_iff _ _).2 h2, (ahead_isSome_eq_false_iff _ _).2 h3,
            (ahead_isSome_iff _ _).2 h4]; rfl
      · simp [hm, h1, h2, h3, (ahead_isSome_eq_false_iff _ _).2 h1,
          (ahead_isSome_eq_false_iff _ _).2 h2, (ahead_isSome_iff _ _).2 h3]; rfl
    · simp [hm, h1, h2, (ahead_isSome_eq_false_iff _ _).2 h1, (ahead_isSome_iff _ _).2 h2]; rfl
  · simp [hm, h1, (ahead_isSome_iff _ _).2 h1]; rfl

/-- with `is_mutating` set every `track_*` trips the `assert!` -/
theorem track_mutating (a : Atomic) (ths : Threads) (hm : a.isMutating = true) :
    a.trackLoad ths = .error .atomicMutating ∧ a.trackUnsyncLoad ths = .error .atomicMutating ∧
    a.trackStore ths = .error .atomicMutating ∧ a.trackUnsyncMut ths = .error .atomicMutating := by
  simp [Atomic.trackLoad, Atomic.trackUnsyncLoad, Atomic.trackStore, Atomic.trackUnsyncMut,
    Atomic.mutatingCheck, hm, bind, Except.bind]

end Clocks
end LoomVerif

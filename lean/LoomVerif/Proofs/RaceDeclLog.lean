/-
End-to-end race exactness with a declarative reference side, part 3: THE REFERENCE TRACE IS THE RUN OF THE TWIN.

`run_iff_SCExec` turns an execution `SCExec` into SOME trace that ends in the same state.  Here the simulation along
`World.runLoop` is redone carrying the trace itself (`Traced`): the `(thread, pc, result)` triples the steps of the
trace record, in order (`recorded`), are exactly the event log of the twin.

* `stepRec`, `recorded`: what a trace records (`Step.res` with the thread and the pc);
* `RetsOk`: every recorded result of a thread sits at a pc below the thread's current pc — so a step that records
  nothing (`ifEq`, the end of a thread, a step that stops with a race) has `Step.res = none`;
* `Res`: what a labelled step of the data semantics does to the `rets` / `pc` of the threads; `stepL_res`: every step
  of the lock fragment does that; `res_consume`: hence `stepRec` of the step is its label;
* `runLoop_log`: `Race.runLoop_clock` with `Traced` for `SCExec`.
-/
import LoomVerif.Proofs.RaceDecl2

namespace LoomVerif
namespace RaceDecl
open Refine Refine2 VCSound

/-! ## what a trace records -/

/-- the `(thread, pc, result)` a step records (nothing when `Step.res` is `none`) -/
def stepRec (e : Step) : List (Nat × Nat × Ret) :=
  match e.res with
  | some r => [(e.t, (e.s.th e.t).pc, r)]
  | none => []

/-- the `(thread, pc, result)` triples the steps of a trace record, in order -/
def recorded (tr : List Step) : List (Nat × Nat × Ret) := tr.flatMap stepRec

theorem recorded_snoc (tr : List Step) (e : Step) : recorded (tr ++ [e]) = recorded tr ++ stepRec e := by
  simp [recorded]

/-- in terms of the events of the trace: the recorded results with their threads -/
theorem recorded_events (p : Prog) (tr : List Step) :
    (recorded tr).map (fun x => (x.1, x.2.2)) =
      (events p tr).filterMap fun e => e.res.map fun r => (e.thr, r) := by
  induction tr with
  | nil => rfl
  | cons e tr ih =>
    have h1 : recorded (e :: tr) = stepRec e ++ recorded tr := by simp [recorded]
    have h2 : events p (e :: tr) = e.ev p :: events p tr := rfl
    rw [h1, h2, List.map_append, ih, List.filterMap_cons]
    unfold stepRec
    cases hr : e.res with
    | none =>
      have : (e.ev p).res = none := hr
      simp [this]
    | some r =>
      have : (e.ev p).res = some r := hr
      simp [this]
      rfl

/-- every recorded result of a thread sits below the thread's pc -/
def RetsOk (s : SC.St) : Prop := ∀ u, ∀ x ∈ (s.th u).rets, x.1 < (s.th u).pc

theorem lookup_none_of_lt {rets : List (Nat × Ret)} {pc : Nat} (h : ∀ x ∈ rets, x.1 < pc) :
    rets.lookup pc = none := by
  rw [List.lookup_eq_none_iff]
  intro x hx
  have := h x hx
  simp only [bne_iff_ne, ne_eq]
  omega

/-- what a step labelled `l` of thread `t` does to the recorded results `R` and the pcs `P` of the threads -/
def Res (R R' : Nat → List (Nat × Ret)) (P P' : Nat → Nat) (t : Nat) : Option (Nat × Ret) → Prop
  | none => ∀ u, R' u = R u ∧ P u ≤ P' u
  | some (k, r) => k = P t ∧ R' t = (k, r) :: R t ∧ P' t = k + 1 ∧ ∀ u, u ≠ t → R' u = R u ∧ P' u = P u

/-- `Res` on reference states -/
def ResS (s s' : SC.St) (t : Nat) (l : Option (Nat × Ret)) : Prop :=
  Res (fun u => (s.th u).rets) (fun u => (s'.th u).rets) (fun u => (s.th u).pc) (fun u => (s'.th u).pc) t l

/-- a step that does `Res` keeps `RetsOk`, and what it records (`stepRec`) is its label -/
theorem res_consume {s s' : SC.St} {t : Nat} {l : Option (Nat × Ret)} (hok : RetsOk s) (h : ResS s s' t l) :
    RetsOk s' ∧ stepRec ⟨t, s, s'⟩ = SCData.label t l := by
  cases l with
  | none =>
    have h' : ∀ u, (s'.th u).rets = (s.th u).rets ∧ (s.th u).pc ≤ (s'.th u).pc := h
    constructor
    · intro u x hx
      rw [(h' u).1] at hx
      have := hok u x hx
      have := (h' u).2
      omega
    · unfold stepRec Step.res
      simp only
      rw [(h' t).1, lookup_none_of_lt (hok t)]
      rfl
  | some kr =>
    obtain ⟨k, r⟩ := kr
    have h' : k = (s.th t).pc ∧ (s'.th t).rets = (k, r) :: (s.th t).rets ∧ (s'.th t).pc = k + 1 ∧
        ∀ u, u ≠ t → (s'.th u).rets = (s.th u).rets ∧ (s'.th u).pc = (s.th u).pc := h
    obtain ⟨h1, h2, h3, h4⟩ := h'
    constructor
    · intro u x hx
      by_cases e : u = t
      · subst e
        rw [h2] at hx
        rw [h3]
        rcases List.mem_cons.1 hx with rfl | hx
        · exact Nat.lt_succ_self _
        · have := hok u x hx
          omega
      · rw [(h4 u e).1] at hx
        rw [(h4 u e).2]
        exact hok u x hx
    · unfold stepRec Step.res
      simp only
      rw [h2, ← h1, List.lookup_cons_self]
      rfl

/-- a step that changes neither `rets` nor `pc` of any thread (a step that stops with a race) records nothing -/
theorem stepRec_same {s s' : SC.St} {t : Nat} (hok : RetsOk s) (h : (s'.th t).rets = (s.th t).rets) :
    stepRec ⟨t, s, s'⟩ = [] := by
  unfold stepRec Step.res
  simp only
  rw [h, lookup_none_of_lt (hok t)]

theorem retsOk_init (p : Prog) : RetsOk (SC.init p) := by
  intro u x hx
  rw [th_init] at hx
  split at hx <;> cases hx

/-- the state a racing step leaves has the `rets` of the state before -/
theorem race_rets (s : SC.St) (t u k : Nat) : (((s.tick t).stop (.race k)).th u).rets = (s.th u).rets := by
  have h1 : data ((s.tick t).stop (.race k)) = data s := data_tick s t
  have h2 := data_th ((s.tick t).stop (.race k)) u
  rw [h1, data_th] at h2
  exact (congrArg DTh.rets h2).symm

/-! ## the lock fragment: every step does `Res` -/

namespace L

theorem th_modTh_self {d : SCData} {t : Nat} (f : DTh → DTh) (ht : t < d.ths.length) :
    (d.modTh t f).th t = f (d.th t) := getD_modify_self _ _ _ _ ht

theorem th_modTh_ne (d : SCData) {t u : Nat} (f : DTh → DTh) (h : u ≠ t) : (d.modTh t f).th u = d.th u :=
  getD_modify_ne _ _ _ _ _ h

theorem th_modTh_or (d : SCData) (t u : Nat) (f : DTh → DTh) :
    (d.modTh t f).th u = f (d.th u) ∨ (d.modTh t f).th u = d.th u := by
  by_cases e : u = t
  · subst e
    by_cases ht : u < d.ths.length
    · exact .inl (th_modTh_self f ht)
    · right
      have h1 : (d.ths.modify u f)[u]? = none := List.getElem?_eq_none (by simp; omega)
      have h2 : d.ths[u]? = none := List.getElem?_eq_none (by omega)
      simp [SCData.modTh, SCData.th, List.getD, h1, h2]
  · exact .inr (th_modTh_ne d f e)

/-- `X` has the threads of `d` as far as `rets` and `pc` go -/
structure Sim (d X : SCData) : Prop where
  len : X.ths.length = d.ths.length
  th : ∀ u, (X.th u).rets = (d.th u).rets ∧ (X.th u).pc = (d.th u).pc

theorem Sim.of_ths {d X : SCData} (h : X.ths = d.ths) : Sim d X :=
  ⟨by rw [h], fun u => by unfold SCData.th; rw [h]; exact ⟨rfl, rfl⟩⟩

theorem Sim.modTh {d X : SCData} (h : Sim d X) (b : Nat) {f : DTh → DTh}
    (hf : ∀ x, (f x).rets = x.rets ∧ (f x).pc = x.pc) : Sim d (X.modTh b f) := by
  refine ⟨by simp [SCData.modTh, h.len], fun u => ?_⟩
  rcases th_modTh_or X b u f with e | e
  · rw [e, (hf _).1, (hf _).2]; exact h.th u
  · rw [e]; exact h.th u

def ResD (d d' : SCData) (t : Nat) (l : Option (Nat × Ret)) : Prop :=
  Res (fun u => (d.th u).rets) (fun u => (d'.th u).rets) (fun u => (d.th u).pc) (fun u => (d'.th u).pc) t l

theorem res_ret {d X : SCData} {t : Nat} (r : Ret) (hs : Sim d X) (ht : t < d.ths.length) :
    ResD d (X.ret t r) t (some ((d.th t).pc, r)) := by
  have htX : t < X.ths.length := by rw [hs.len]; exact ht
  have e : (X.ret t r).th t = { X.th t with rets := ((X.th t).pc, r) :: (X.th t).rets, pc := (X.th t).pc + 1 } :=
    th_modTh_self _ htX
  refine ⟨rfl, ?_, ?_, fun u hu => ?_⟩
  · show ((X.ret t r).th t).rets = _
    rw [e]
    show ((X.th t).pc, r) :: (X.th t).rets = _
    rw [(hs.th t).1, (hs.th t).2]
  · show ((X.ret t r).th t).pc = _
    rw [e]
    show (X.th t).pc + 1 = _
    rw [(hs.th t).2]
  · show ((X.ret t r).th u).rets = _ ∧ ((X.ret t r).th u).pc = _
    have : (X.ret t r).th u = X.th u := th_modTh_ne X _ hu
    rw [this]; exact hs.th u

theorem res_mod {d X : SCData} {t : Nat} {f : DTh → DTh} (hs : Sim d X)
    (hf : ∀ x, (f x).rets = x.rets ∧ x.pc ≤ (f x).pc) : ResD d (X.modTh t f) t none := by
  intro u
  show ((X.modTh t f).th u).rets = _ ∧ _ ≤ ((X.modTh t f).th u).pc
  rcases th_modTh_or X t u f with e | e
  · rw [e, (hf _).1, (hs.th u).1]
    refine ⟨rfl, ?_⟩
    have := (hf (X.th u)).2
    rw [(hs.th u).2] at this
    exact this
  · rw [e, (hs.th u).1, (hs.th u).2]
    exact ⟨rfl, Nat.le_refl _⟩

/-- an enabled thread exists -/
theorem lt_of_enabled {p : Prog} {d : SCData} {t : Nat} (h : SCData.enabled p d t = true) : t < d.ths.length := by
  apply Classical.byContradiction
  intro hn
  have h2 : d.ths[t]? = none := List.getElem?_eq_none (by omega)
  have : d.th t = {} := by simp [SCData.th, List.getD, h2]
  unfold SCData.enabled at h
  rw [this] at h
  simp at h

/-- **every step of the lock fragment records its label** -/
theorem stepL_res {p : Prog} {d d' : SCData} {t : Nat} {l : Option (Nat × Ret)} (ht : t < d.ths.length)
    (h : (l, d') ∈ SCData.stepL p d t) : ResD d d' t l := by
  unfold SCData.stepL at h
  simp only at h
  split at h
  · simp only [List.mem_singleton, Prod.mk.injEq] at h
    obtain ⟨rfl, rfl⟩ := h
    exact res_mod (Sim.of_ths rfl) (fun _ => ⟨rfl, Nat.le_refl _⟩)
  · next op hop =>
    cases op <;> simp only [List.not_mem_nil] at h
    case spawn b =>
      simp only [List.mem_singleton, Prod.mk.injEq] at h
      obtain ⟨rfl, rfl⟩ := h
      exact res_ret _ (Sim.modTh (Sim.of_ths rfl) b (fun _ => ⟨rfl, rfl⟩)) ht
    case ifEq i r n =>
      split at h <;> simp only [List.mem_singleton, Prod.mk.injEq] at h <;> obtain ⟨rfl, rfl⟩ := h
      · exact res_mod (Sim.of_ths rfl) (fun x => ⟨rfl, Nat.le_succ _⟩)
      · exact res_mod (Sim.of_ths rfl) (fun x => ⟨rfl, by show x.pc ≤ x.pc + 1 + n; omega⟩)
    case tryLock m =>
      split at h <;> simp only [List.mem_singleton, Prod.mk.injEq] at h <;> obtain ⟨rfl, rfl⟩ := h <;>
        exact res_ret _ (Sim.of_ths rfl) ht
    all_goals
      simp only [List.mem_singleton, Prod.mk.injEq] at h
      obtain ⟨rfl, rfl⟩ := h
      exact res_ret _ (Sim.of_ths rfl) ht

end L

theorem resS_of_data {s s' : SC.St} {t : Nat} {l : Option (Nat × Ret)} (h : L.ResD (data s) (data s') t l) :
    ResS s s' t l := by
  unfold L.ResD at h
  simp only [data_th] at h
  exact h

/-! ## the simulation along `runLoop`, with the trace -/

/-- the reference state `s` has a history whose recorded results are the event log of the world `w` -/
def Traced (p : Prog) (w : World) (s : SC.St) : Prop :=
  ∃ tr, Run p tr s ∧ recorded tr = w.events.reverse.map triple

/-- what a run of the twin from a related world amounts to in the reference semantics -/
def RunOutL (p : Prog) (w' : World) : Option Panic → Prop
  | none =>
    ∃ s', Traced p w' s' ∧ RetsOk s' ∧ Race.RC w' s' ∧
      SCData.Run p (data (SC.init p)) (w'.events.reverse.map triple) (data s')
  | some (.causality k) =>
    ∃ s' t, Traced p w' s' ∧ RetsOk s' ∧ Race.RC w' s' ∧
      SCData.Run p (data (SC.init p)) (w'.events.reverse.map triple) (data s') ∧
      t = Race.body w' w'.tid ∧ SC.enabled p s' t = true ∧ SC.step p s' t = [(s'.tick t).stop (.race k)]
  | some _ => True

open Race in
/-- `Race.runLoop_clock` with the trace (`Traced`) for `SCExec` -/
theorem runLoop_log (p : Prog) (hwf : WF p) :
    ∀ (fuel : Nat) (w w' : World) (s : SC.St) (r : Option Panic), w.prog = p → RC w s → InRange w →
      Traced p w s → RetsOk s →
      SCData.Run p (data (SC.init p)) (w.events.reverse.map triple) (data s) →
      World.runLoop fuel w = (w', r) → RunOutL p w' r := by
  intro fuel
  induction fuel with
  | zero =>
    intro w w' s r _ _ _ _ _ _ h
    simp only [World.runLoop] at h
    cases h
    trivial
  | succ fuel ih =>
    intro w w' s r hp hRC hrange hex hrk hrun h
    unfold World.runLoop at h
    split at h
    · cases h
      exact ⟨s, hex, hrk, hRC, hrun⟩
    · next hact =>
      have hact' : w.ths.isActive = true := by simpa using hact
      have hin : w.tid < w.ctl.length := by rw [hRC.r.lenCtl]; exact hrange hact'
      have hwf' : WF w.prog := by rw [hp]; exact hwf
      split at h
      · next e hstep =>
        cases h
        cases e <;> try trivial
        case causality k =>
          have hcell := causality_only_at_cells hwf' hRC hin hstep
          refine ⟨s, body w w.tid, hex, hrk, hRC, hrun, rfl, ?_, ?_⟩
          · rw [← hp]
            rcases hcell with ⟨c, hop, _⟩ | ⟨c, v, hop, _⟩
            · exact enabled_cell hwf' hRC hin hop (by simp) (by simp)
            · exact enabled_cell hwf' hRC hin hop (by simp) (by simp)
          · rw [← hp]
            rcases hcell with ⟨c, hop, hc⟩ | ⟨c, v, hop, hc⟩
            · exact (read_panics_iff_races hRC hin hop hc k).1 hstep
            · exact (write_panics_iff_races hRC hin hop hc k).1 hstep
      · next w1 hstep =>
        have hr1 : InRange w1 := step_inRange hwf' hRC.r hin hstep
        obtain ⟨hp1, hsim⟩ := step_clock hwf' hRC hin hact' hstep
        rcases hsim with ⟨hRC1, hev⟩ | ⟨s1, hen, hst, hRC1, l, hl, hev⟩
        · refine ih w1 w' s r (hp1.trans hp) hRC1 hr1 ?_ hrk (by rw [hev]; exact hrun) h
          obtain ⟨tr, h1, h2⟩ := hex
          exact ⟨tr, h1, by rw [hev]; exact h2⟩
        · rw [hp] at hen hst hl
          have hen' : SCData.enabled p (data s) (body w w.tid) = true := by
            rw [← SC.enabled_data hRC.fs.1 (hRC.fs.2 _) (fun op ho => (fragProg_of_wf hwf) _ _ _ ho)]
            exact hen
          obtain ⟨hrk1, hrec⟩ := res_consume hrk (resS_of_data (L.stepL_res (L.lt_of_enabled hen') hl))
          refine ih w1 w' s1 r (hp1.trans hp) hRC1 hr1 ?_ hrk1 ?_ h
          · obtain ⟨tr, h1, h2⟩ := hex
            refine ⟨_, .snoc h1 hen hst, ?_⟩
            rw [recorded_snoc, hrec, triple_step hev, h2]
          · rw [triple_step hev]
            exact SCData.Run.step hrun hen' hl

/-! ## the compositions for the lock fragment -/

/-- the twin run ended with the report `causality k`: the reference run with history whose recorded results are the
event log of the twin, the racing step, and the declarative data race -/
theorem lock_report {prog : Prog} {exec : Exec} {w0 w : World} {fuel k : Nat}
    (hwf : WF prog) (hnt : prog.threads.length ≤ 5) (hfresh : Race.FreshClocks exec)
    (hinit : World.init prog exec = .ok w0)
    (hrun : World.runLoop fuel w0 = (w, some (.causality k))) :
    ∃ (tr : List Step) (s : SC.St) (t : Nat),
      Run prog tr s ∧ Race.RC w s ∧ t = Race.body w w.tid ∧
      Run prog (tr ++ [⟨t, s, (s.tick t).stop (.race k)⟩]) ((s.tick t).stop (.race k)) ∧
      recorded (tr ++ [⟨t, s, (s.tick t).stop (.race k)⟩]) = w.events.reverse.map triple ∧
      ∃ (j : Nat) (a b : VCSound.Event), b.thr = t ∧
        DataRace (events prog (tr ++ [⟨t, s, (s.tick t).stop (.race k)⟩])) j tr.length a b ∧ RaceKind k a b := by
  obtain ⟨hRC, hp, hev⟩ := Race.init_RC hwf hnt hfresh hinit
  have := runLoop_log prog hwf fuel w0 w (SC.init prog) _ hp hRC (init_inRange hfresh.fresh hinit)
    ⟨[], .nil, by rw [hev]; rfl⟩ (retsOk_init prog) (by rw [hev]; exact SCData.Run.nil _) hrun
  obtain ⟨s, t, ⟨tr, htr, hlog⟩, hrk, hRC', _, ht, hen, hst⟩ := this
  have hmem : (s.tick t).stop (.race k) ∈ SC.step prog s t := by rw [hst]; exact List.mem_singleton.2 rfl
  obtain ⟨j, a, hdr, hkind⟩ := last_step_race (WFX.of_wf hwf) hnt htr hen hmem rfl
  refine ⟨tr, s, t, htr, hRC', ht, .snoc htr hen hmem, ?_, j, a, _, rfl, hdr, hkind⟩
  rw [recorded_snoc, stepRec_same hrk (race_rets s t t k), List.append_nil, hlog]

/-- the twin run completed: the reference run with history whose recorded results are the event log of the twin,
declaratively race-free -/
theorem lock_completed {prog : Prog} {exec : Exec} {w0 w : World} {fuel : Nat}
    (hwf : WF prog) (hnt : prog.threads.length ≤ 5) (hfresh : Race.FreshClocks exec)
    (hinit : World.init prog exec = .ok w0) (hrun : World.runLoop fuel w0 = (w, none)) :
    ∃ (tr : List Step) (s : SC.St),
      Run prog tr s ∧ s.verdict = none ∧ Race.RC w s ∧ recorded tr = w.events.reverse.map triple ∧
      RaceFree (events prog tr) := by
  obtain ⟨hRC, hp, hev⟩ := Race.init_RC hwf hnt hfresh hinit
  have := runLoop_log prog hwf fuel w0 w (SC.init prog) _ hp hRC (init_inRange hfresh.fresh hinit)
    ⟨[], .nil, by rw [hev]; rfl⟩ (retsOk_init prog) (by rw [hev]; exact SCData.Run.nil _) hrun
  obtain ⟨s, ⟨tr, htr, hlog⟩, _, hRC', _⟩ := this
  exact ⟨tr, s, htr, hRC'.fs.1, hRC', hlog, run_no_verdict_raceFree (WFX.of_wf hwf) hnt htr hRC'.fs.1⟩

end RaceDecl
end LoomVerif

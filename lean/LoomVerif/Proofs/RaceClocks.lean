/-
Race exactness, part 1: the clock algebra, independent of the twin and of the reference semantics.

A *clock system* `CS` assigns a vector clock to every thread (`thr`), to every mutex (`mtx`), to every cell the
join of the clocks of its writes / reads (`acc true` / `acc false`), and — ghost state — to every cell and thread
the clock of the LAST write / read of the cell by that thread (`ev`).  Both the twin (loom's `causality`, the
`Synchronize` of a mutex, `writeAccess` / `readAccess` of a cell) and the reference semantics (`St.vc`, `mutexRel`,
`cellW` / `cellR`) are clock systems that are driven by the same six operations (`tick`, `acq`, `rel`, `fork`,
`record`), with different policies for `tick` (the reference ticks at every operation, loom at cell accesses and
at `spawn`).

* `Good`: the textbook invariants of vector clocks (a thread's own component is maximal in its own clock; a thread
  knows its own accesses; whoever knows the own component of an access clock knows the whole clock; the cell clock
  is the least upper bound of the last-access clocks).
* `XInv`: the link between two clock systems whose threads are matched by `β`: for every last-access clock and every
  thread / mutex clock, "the own component of the access is known" holds in one system iff it holds in the other.
* `race_agree`: in two `Good` systems linked by `XInv`, the race checks `acc k c ≤ thr i` agree.
-/
import LoomVerif.Proofs.ClocksVV

namespace LoomVerif
namespace Race
open Clocks

/-! ### `VV` in `get` form -/

theorem get_zero (i : Nat) : VV.zero.get i = 0 := by
  unfold VV.get VV.zero; split <;> simp

theorem zero_join (a : VV) : VV.zero.join a = a := join_eq_right_iff.2 (zero_le a)

theorem join_zero (a : VV) : a.join VV.zero = a := join_eq_left_iff.2 (zero_le a)

theorem le_zero {a : VV} (h : a.le VV.zero) (b : VV) : a.le b := le_trans h (zero_le b)

theorem get_join_le {a b : VV} {i n : Nat} (h1 : a.get i ≤ n) (h2 : b.get i ≤ n) : (a.join b).get i ≤ n := by
  rw [get_join]; omega

theorem le_get_join {a b : VV} {i n : Nat} (h : n ≤ (a.join b).get i) : n ≤ a.get i ∨ n ≤ b.get i := by
  rw [get_join] at h; omega

theorem get_le_join_left (a b : VV) (i : Nat) : a.get i ≤ (a.join b).get i := get_mono (le_join_left a b) i
theorem get_le_join_right (a b : VV) (i : Nat) : b.get i ≤ (a.join b).get i := get_mono (le_join_right a b) i

/-! ### pointwise update -/

def upd {α : Type} (f : Nat → α) (i : Nat) (v : α) : Nat → α := fun j => if j = i then v else f j

theorem upd_self {α : Type} (f : Nat → α) (i : Nat) (v : α) : upd f i v i = v := by simp [upd]
theorem upd_ne {α : Type} (f : Nat → α) {i j : Nat} (v : α) (h : j ≠ i) : upd f i v j = f j := by simp [upd, h]

/-! ### clock systems -/

structure CS where
  thr : Nat → VV
  mtx : Nat → VV
  acc : Bool → Nat → VV
  ev : Bool → Nat → Nat → VV

/-- the thread advances its own component -/
def CS.tick (σ : CS) (t : Nat) : CS := { σ with thr := upd σ.thr t ((σ.thr t).inc t) }
/-- the thread acquires clock `Z` -/
def CS.acq (σ : CS) (t : Nat) (Z : VV) : CS := { σ with thr := upd σ.thr t ((σ.thr t).join Z) }
/-- the thread releases into mutex `m` -/
def CS.rel (σ : CS) (t m : Nat) : CS := { σ with mtx := upd σ.mtx m ((σ.mtx m).join (σ.thr t)) }
/-- thread `t` starts thread `u` -/
def CS.fork (σ : CS) (t u : Nat) : CS := { σ with thr := upd σ.thr u ((σ.thr t).inc u) }
/-- thread `t` records an access (`k`: write) to cell `c` at its current clock -/
def CS.record (σ : CS) (k : Bool) (t c : Nat) : CS :=
  { σ with
    acc := fun k' c' => if k' = k ∧ c' = c then (σ.acc k c).join (σ.thr t) else σ.acc k' c'
    ev := fun k' c' t' => if k' = k ∧ c' = c ∧ t' = t then σ.thr t else σ.ev k' c' t' }

structure Good (σ : CS) : Prop where
  omT : ∀ t u, (σ.thr u).get t ≤ (σ.thr t).get t
  omM : ∀ t m, (σ.mtx m).get t ≤ (σ.thr t).get t
  kn : ∀ k c t, (σ.ev k c t).le (σ.thr t)
  clT : ∀ k c t u, (σ.ev k c t).get t ≤ (σ.thr u).get t → (σ.ev k c t).le (σ.thr u)
  clM : ∀ k c t m, (σ.ev k c t).get t ≤ (σ.mtx m).get t → (σ.ev k c t).le (σ.mtx m)
  ub : ∀ k c t, (σ.ev k c t).le (σ.acc k c)
  lub : ∀ k c Z, (∀ t, (σ.ev k c t).le Z) → (σ.acc k c).le Z

/-- all clocks zero -/
def CS.zero : CS := ⟨fun _ => VV.zero, fun _ => VV.zero, fun _ _ => VV.zero, fun _ _ _ => VV.zero⟩

theorem good_zero : Good CS.zero :=
  ⟨fun _ _ => Nat.le_refl _, fun _ _ => Nat.le_refl _, fun _ _ _ => le_refl _, fun _ _ _ _ _ => le_refl _,
   fun _ _ _ _ _ => le_refl _, fun _ _ _ => le_refl _, fun _ _ _ _ => zero_le _⟩

/-- thread `t` is strictly ahead of everybody else in its own component (right after a tick) -/
structure Strict (σ : CS) (t : Nat) : Prop where
  thr : ∀ u, u ≠ t → (σ.thr u).get t < (σ.thr t).get t
  mtx : ∀ m, (σ.mtx m).get t < (σ.thr t).get t

section
variable {σ : CS}

theorem Good.tick (h : Good σ) (t : Nat) : Good (σ.tick t) := by
  have grow : ∀ u, (σ.thr u).le ((σ.tick t).thr u) := by
    intro u
    show (σ.thr u).le (upd σ.thr t _ u)
    by_cases e : u = t
    · subst e; rw [upd_self]; exact le_inc _ _
    · rw [upd_ne _ _ e]; exact le_refl _
  have same : ∀ u x, ¬ (u = t ∧ x = t) → ((σ.tick t).thr u).get x = (σ.thr u).get x := by
    intro u x hne
    show (upd σ.thr t _ u).get x = _
    by_cases e : u = t
    · subst e; rw [upd_self]
      exact get_inc_ne _ _ _ (fun ex => hne ⟨rfl, ex⟩)
    · rw [upd_ne _ _ e]
  refine ⟨?_, ?_, ?_, ?_, h.clM, h.ub, h.lub⟩
  · intro t0 u
    by_cases e : u = t ∧ t0 = t
    · rw [e.1, e.2]; exact Nat.le_refl _
    · rw [same u t0 e]
      exact Nat.le_trans (h.omT t0 u) (get_mono (grow t0) t0)
  · intro t0 m
    exact Nat.le_trans (h.omM t0 m) (get_mono (grow t0) t0)
  · intro k c t0
    exact le_trans (h.kn k c t0) (grow t0)
  · intro k c t0 u hp
    by_cases e : u = t ∧ t0 = t
    · rw [e.1]
      exact le_trans (h.kn k c t0) (by rw [e.2]; exact grow t)
    · rw [same u t0 e] at hp
      exact le_trans (h.clT k c t0 u hp) (grow u)

/-- acquisition of a clock `Z` that is itself closed and below the own components -/
theorem Good.acq (h : Good σ) (t : Nat) (Z : VV) (hom : ∀ t0, Z.get t0 ≤ (σ.thr t0).get t0)
    (hcl : ∀ k c t0, (σ.ev k c t0).get t0 ≤ Z.get t0 → (σ.ev k c t0).le Z) : Good (σ.acq t Z) := by
  have grow : ∀ u, (σ.thr u).le ((σ.acq t Z).thr u) := by
    intro u
    show (σ.thr u).le (upd σ.thr t _ u)
    by_cases e : u = t
    · subst e; rw [upd_self]; exact le_join_left _ _
    · rw [upd_ne _ _ e]; exact le_refl _
  have old : ∀ u t0, ((σ.acq t Z).thr u).get t0 ≤ (σ.thr t0).get t0 := by
    intro u t0
    show (upd σ.thr t _ u).get t0 ≤ _
    by_cases e : u = t
    · subst e; rw [upd_self]
      exact get_join_le (h.omT t0 u) (hom t0)
    · rw [upd_ne _ _ e]; exact h.omT t0 u
  refine ⟨?_, ?_, ?_, ?_, h.clM, h.ub, h.lub⟩
  · intro t0 u
    exact Nat.le_trans (old u t0) (get_mono (grow t0) t0)
  · intro t0 m
    exact Nat.le_trans (h.omM t0 m) (get_mono (grow t0) t0)
  · intro k c t0
    exact le_trans (h.kn k c t0) (grow t0)
  · intro k c t0 u hp
    by_cases e : u = t
    · subst e
      have hp' : (σ.ev k c t0).get t0 ≤ ((σ.thr u).join Z).get t0 := by
        have : (σ.acq u Z).thr u = (σ.thr u).join Z := upd_self _ _ _
        rw [this] at hp; exact hp
      show (σ.ev k c t0).le (upd σ.thr u _ u)
      rw [upd_self]
      rcases le_get_join hp' with h1 | h1
      · exact le_trans (h.clT k c t0 u h1) (le_join_left _ _)
      · exact le_trans (hcl k c t0 h1) (le_join_right _ _)
    · have e' : (σ.acq t Z).thr u = σ.thr u := upd_ne _ _ e
      rw [e'] at hp ⊢
      exact h.clT k c t0 u hp

theorem Good.acqM (h : Good σ) (t m : Nat) : Good (σ.acq t (σ.mtx m)) :=
  h.acq t _ (fun t0 => h.omM t0 m) (fun k c t0 => h.clM k c t0 m)

theorem Good.acqT (h : Good σ) (t u : Nat) : Good (σ.acq t (σ.thr u)) :=
  h.acq t _ (fun t0 => h.omT t0 u) (fun k c t0 => h.clT k c t0 u)

theorem Good.rel (h : Good σ) (t m : Nat) : Good (σ.rel t m) := by
  refine ⟨h.omT, ?_, h.kn, h.clT, ?_, h.ub, h.lub⟩
  · intro t0 m'
    show (upd σ.mtx m _ m').get t0 ≤ _
    by_cases e : m' = m
    · subst e; rw [upd_self]; exact get_join_le (h.omM t0 m') (h.omT t0 t)
    · rw [upd_ne _ _ e]; exact h.omM t0 m'
  · intro k c t0 m' hp
    have hp' : (σ.ev k c t0).get t0 ≤ (upd σ.mtx m ((σ.mtx m).join (σ.thr t)) m').get t0 := hp
    show (σ.ev k c t0).le (upd σ.mtx m ((σ.mtx m).join (σ.thr t)) m')
    by_cases e : m' = m
    · subst e
      rw [upd_self] at hp' ⊢
      rcases le_get_join hp' with h1 | h1
      · exact le_trans (h.clM k c t0 m' h1) (le_join_left _ _)
      · exact le_trans (h.clT k c t0 t h1) (le_join_right _ _)
    · rw [upd_ne _ _ e] at hp' ⊢
      exact h.clM k c t0 m' hp'

/-- `t` starts `u`, whose clock is still zero -/
theorem Good.fork (h : Good σ) (t u : Nat) (hz : σ.thr u = VV.zero) : Good (σ.fork t u) := by
  have grow : ∀ x, (σ.thr x).le ((σ.fork t u).thr x) := by
    intro x
    show (σ.thr x).le (upd σ.thr u _ x)
    by_cases e : x = u
    · subst e; rw [upd_self, hz]; exact zero_le _
    · rw [upd_ne _ _ e]; exact le_refl _
  have hu0 : ∀ Y : VV, Y.get u ≤ (σ.thr u).get u → Y.get u = 0 := by
    intro Y hY; rw [hz, get_zero] at hY; omega
  refine ⟨?_, ?_, ?_, ?_, h.clM, h.ub, h.lub⟩
  · intro t0 x
    show (upd σ.thr u _ x).get t0 ≤ (upd σ.thr u _ t0).get t0
    by_cases e : x = u
    · subst e
      by_cases e0 : t0 = x
      · subst e0; exact Nat.le_refl _
      · rw [upd_self, upd_ne _ _ e0, get_inc_ne _ _ _ e0]
        exact h.omT t0 t
    · rw [upd_ne _ _ e]
      exact Nat.le_trans (h.omT t0 x) (get_mono (grow t0) t0)
  · intro t0 m
    exact Nat.le_trans (h.omM t0 m) (get_mono (grow t0) t0)
  · intro k c t0
    exact le_trans (h.kn k c t0) (grow t0)
  · intro k c t0 x hp
    have hp' : (σ.ev k c t0).get t0 ≤ (upd σ.thr u ((σ.thr t).inc u) x).get t0 := hp
    show (σ.ev k c t0).le (upd σ.thr u ((σ.thr t).inc u) x)
    by_cases e : x = u
    · subst e
      rw [upd_self] at hp' ⊢
      by_cases e0 : t0 = x
      · subst e0
        exact le_zero (by rw [← hz]; exact h.kn k c t0) _
      · rw [get_inc_ne _ _ _ e0] at hp'
        exact le_trans (h.clT k c t0 t hp') (le_inc _ _)
    · rw [upd_ne _ _ e] at hp' ⊢
      exact h.clT k c t0 x hp'

theorem Good.record (h : Good σ) (k : Bool) (t c : Nat) (hs : Strict σ t) : Good (σ.record k t c) := by
  have evEq : ∀ k' c' t', (σ.record k t c).ev k' c' t' =
      if k' = k ∧ c' = c ∧ t' = t then σ.thr t else σ.ev k' c' t' := fun _ _ _ => rfl
  have accEq : ∀ k' c', (σ.record k t c).acc k' c' =
      if k' = k ∧ c' = c then (σ.acc k c).join (σ.thr t) else σ.acc k' c' := fun _ _ => rfl
  refine ⟨h.omT, h.omM, ?_, ?_, ?_, ?_, ?_⟩
  · intro k' c' t'
    rw [evEq]; split
    · next e => obtain ⟨_, _, rfl⟩ := e; exact le_refl _
    · exact h.kn k' c' t'
  · intro k' c' t' u
    rw [evEq]; split
    · next e =>
      obtain ⟨_, _, rfl⟩ := e
      intro hp
      by_cases eu : u = t'
      · subst eu; exact le_refl _
      · have := hs.thr u eu
        have hp' : (σ.thr t').get t' ≤ (σ.thr u).get t' := hp
        omega
    · exact h.clT k' c' t' u
  · intro k' c' t' m
    rw [evEq]; split
    · next e =>
      obtain ⟨_, _, rfl⟩ := e
      intro hp
      have := hs.mtx m
      have hp' : (σ.thr t').get t' ≤ (σ.mtx m).get t' := hp
      omega
    · exact h.clM k' c' t' m
  · intro k' c' t'
    rw [evEq, accEq]
    by_cases e1 : k' = k ∧ c' = c
    · rw [if_pos e1]
      by_cases e2 : t' = t
      · rw [if_pos ⟨e1.1, e1.2, e2⟩]; exact le_join_right _ _
      · rw [if_neg (fun e => e2 e.2.2)]
        obtain ⟨rfl, rfl⟩ := e1
        exact le_trans (h.ub k' c' t') (le_join_left _ _)
    · rw [if_neg e1, if_neg (fun e => e1 ⟨e.1, e.2.1⟩)]
      exact h.ub k' c' t'
  · intro k' c' Z hZ
    rw [accEq]
    by_cases e1 : k' = k ∧ c' = c
    · rw [if_pos e1]
      obtain ⟨rfl, rfl⟩ := e1
      have hT : (σ.thr t).le Z := by
        have := hZ t
        rw [evEq, if_pos ⟨rfl, rfl, rfl⟩] at this
        exact this
      refine join_le (h.lub k' c' Z ?_) hT
      intro t'
      by_cases e2 : t' = t
      · subst e2; exact le_trans (h.kn k' c' t') hT
      · have := hZ t'
        rw [evEq, if_neg (fun e => e2 e.2.2)] at this
        exact this
    · rw [if_neg e1]
      refine h.lub k' c' Z ?_
      intro t'
      have := hZ t'
      rw [evEq, if_neg (fun e => e1 ⟨e.1, e.2.1⟩)] at this
      exact this

/-- right after a tick the thread is strictly ahead in its own component -/
theorem Good.strict_tick (h : Good σ) (t : Nat) (ht : t < 5) : Strict (σ.tick t) t := by
  have own : ((σ.tick t).thr t).get t = (σ.thr t).get t + 1 := by
    show (upd σ.thr t _ t).get t = _
    rw [upd_self, get_inc_self _ _ ht]
  refine ⟨?_, ?_⟩
  · intro u hu
    rw [own]
    show (upd σ.thr t _ u).get t < _
    rw [upd_ne _ _ hu]
    have := h.omT t u
    omega
  · intro m
    rw [own]
    have := h.omM t m
    show (σ.mtx m).get t < _
    omega

end

/-! ### two clock systems over the same run -/

/-- `T` (threads `0 … n-1`) and `R` (thread `β i` for thread `i` of `T`) agree on what is known of every recorded
access -/
structure XInv (n : Nat) (β : Nat → Nat) (T R : CS) : Prop where
  thr : ∀ k c i j, i < n → j < n →
    ((T.ev k c i).get i ≤ (T.thr j).get i ↔ (R.ev k c (β i)).get (β i) ≤ (R.thr (β j)).get (β i))
  mtx : ∀ k c i m, i < n →
    ((T.ev k c i).get i ≤ (T.mtx m).get i ↔ (R.ev k c (β i)).get (β i) ≤ (R.mtx m).get (β i))
  idleR : ∀ b, (∀ i, i < n → β i ≠ b) → R.thr b = VV.zero
  idleT : ∀ i, n ≤ i → T.thr i = VV.zero

/-- `β` is injective on the threads of `T` -/
def Inj (n : Nat) (β : Nat → Nat) : Prop := ∀ i j, i < n → j < n → β i = β j → i = j

section
variable {n : Nat} {β : Nat → Nat} {T R : CS}

/-- **the race checks agree** -/
theorem race_agree (hT : Good T) (hR : Good R) (hx : XInv n β T R) (k : Bool) (c i : Nat) (hi : i < n) :
    (T.acc k c).le (T.thr i) ↔ (R.acc k c).le (R.thr (β i)) := by
  constructor
  · intro h
    apply hR.lub
    intro b
    by_cases hb : ∃ j, j < n ∧ β j = b
    · obtain ⟨j, hj, rfl⟩ := hb
      apply hR.clT
      rw [← hx.thr k c j i hj hi]
      exact get_mono (le_trans (hT.ub k c j) h) j
    · have : R.thr b = VV.zero := hx.idleR b (fun j hj e => hb ⟨j, hj, e⟩)
      exact le_zero (by rw [← this]; exact hR.kn k c b) _
  · intro h
    apply hT.lub
    intro j
    by_cases hj : j < n
    · apply hT.clT
      rw [hx.thr k c j i hj hi]
      exact get_mono (le_trans (hR.ub k c (β j)) h) (β j)
    · have : T.thr j = VV.zero := hx.idleT j (by omega)
      exact le_zero (by rw [← this]; exact hT.kn k c j) _

/-- a tick of the first system alone -/
theorem XInv.tickT (hx : XInv n β T R) (hT : Good T) (hR : Good R) (t : Nat) (ht : t < n) :
    XInv n β (T.tick t) R := by
  refine ⟨?_, hx.mtx, hx.idleR, ?_⟩
  · intro k c i j hi hj
    by_cases e : j = t ∧ i = t
    · rw [e.1, e.2]
      constructor
      · intro _; exact get_mono (hR.kn k c (β t)) (β t)
      · intro _; exact get_mono ((hT.tick t).kn k c t) t
    · have : ((T.tick t).thr j).get i = (T.thr j).get i := by
        show (upd T.thr t _ j).get i = _
        by_cases ej : j = t
        · subst ej; rw [upd_self]; exact get_inc_ne _ _ _ (fun ei => e ⟨rfl, ei⟩)
        · rw [upd_ne _ _ ej]
      show (T.ev k c i).get i ≤ ((T.tick t).thr j).get i ↔ _
      rw [this]
      exact hx.thr k c i j hi hj
  · intro i hi
    show upd T.thr t _ i = _
    rw [upd_ne _ _ (by omega)]
    exact hx.idleT i hi

/-- a tick of the second system alone -/
theorem XInv.tickR (hx : XInv n β T R) (hT : Good T) (hR : Good R) (hinj : Inj n β) (t : Nat) (ht : t < n) :
    XInv n β T (R.tick (β t)) := by
  refine ⟨?_, hx.mtx, ?_, hx.idleT⟩
  · intro k c i j hi hj
    by_cases e : j = t ∧ i = t
    · rw [e.1, e.2]
      constructor
      · intro _; exact get_mono ((hR.tick (β t)).kn k c (β t)) (β t)
      · intro _; exact get_mono (hT.kn k c t) t
    · have : ((R.tick (β t)).thr (β j)).get (β i) = (R.thr (β j)).get (β i) := by
        show (upd R.thr (β t) _ (β j)).get (β i) = _
        by_cases ej : β j = β t
        · have ejt : j = t := hinj j t hj ht ej
          subst ejt
          rw [upd_self]
          exact get_inc_ne _ _ _ (fun ei => e ⟨rfl, hinj i j hi hj ei⟩)
        · rw [upd_ne _ _ ej]
      show _ ↔ (R.ev k c (β i)).get (β i) ≤ ((R.tick (β t)).thr (β j)).get (β i)
      rw [this]
      exact hx.thr k c i j hi hj
  · intro b hb
    show upd R.thr (β t) _ b = _
    rw [upd_ne _ _ (fun e => hb t ht e.symm)]
    exact hx.idleR b hb

/-- both threads acquire corresponding clocks -/
theorem XInv.acq (hx : XInv n β T R) (hinj : Inj n β) (t : Nat) (ht : t < n) (ZT ZR : VV)
    (hz : ∀ k c i, i < n → ((T.ev k c i).get i ≤ ZT.get i ↔ (R.ev k c (β i)).get (β i) ≤ ZR.get (β i))) :
    XInv n β (T.acq t ZT) (R.acq (β t) ZR) := by
  refine ⟨?_, hx.mtx, ?_, ?_⟩
  · intro k c i j hi hj
    show (T.ev k c i).get i ≤ (upd T.thr t _ j).get i ↔
      (R.ev k c (β i)).get (β i) ≤ (upd R.thr (β t) _ (β j)).get (β i)
    by_cases ej : j = t
    · subst ej
      rw [upd_self, upd_self, get_join, get_join]
      have h1 := hx.thr k c i j hi hj
      have h2 := hz k c i hi
      omega
    · rw [upd_ne _ _ ej, upd_ne _ _ (fun e => ej (hinj j t hj ht e))]
      exact hx.thr k c i j hi hj
  · intro b hb
    show upd R.thr (β t) _ b = _
    rw [upd_ne _ _ (fun e => hb t ht e.symm)]
    exact hx.idleR b hb
  · intro i hi
    show upd T.thr t _ i = _
    rw [upd_ne _ _ (by omega)]
    exact hx.idleT i hi

theorem XInv.acqM (hx : XInv n β T R) (hinj : Inj n β) (t : Nat) (ht : t < n) (m : Nat) :
    XInv n β (T.acq t (T.mtx m)) (R.acq (β t) (R.mtx m)) :=
  hx.acq hinj t ht _ _ (fun k c i hi => hx.mtx k c i m hi)

theorem XInv.acqT (hx : XInv n β T R) (hinj : Inj n β) (t : Nat) (ht : t < n) (u : Nat) (hu : u < n) :
    XInv n β (T.acq t (T.thr u)) (R.acq (β t) (R.thr (β u))) :=
  hx.acq hinj t ht _ _ (fun k c i hi => hx.thr k c i u hi hu)

theorem XInv.rel (hx : XInv n β T R) (t : Nat) (ht : t < n) (m : Nat) :
    XInv n β (T.rel t m) (R.rel (β t) m) := by
  refine ⟨hx.thr, ?_, hx.idleR, hx.idleT⟩
  intro k c i m' hi
  show (T.ev k c i).get i ≤ (upd T.mtx m _ m').get i ↔
    (R.ev k c (β i)).get (β i) ≤ (upd R.mtx m _ m').get (β i)
  by_cases e : m' = m
  · subst e
    rw [upd_self, upd_self, get_join, get_join]
    have h1 := hx.mtx k c i m' hi
    have h2 := hx.thr k c i t hi ht
    omega
  · rw [upd_ne _ _ e, upd_ne _ _ e]
    exact hx.mtx k c i m' hi

/-- thread `t` starts a new thread: index `n` in the first system, `b` in the second -/
theorem XInv.fork (hx : XInv n β T R) (hT : Good T) (hR : Good R) (t : Nat) (ht : t < n) (b : Nat)
    (hb : ∀ i, i < n → β i ≠ b) (β' : Nat → Nat) (hβ : ∀ i, i < n → β' i = β i) (hβn : β' n = b) :
    XInv (n + 1) β' (T.fork t n) (R.fork (β t) b) := by
  have hTn : T.thr n = VV.zero := hx.idleT n (Nat.le_refl _)
  have hRb : R.thr b = VV.zero := hx.idleR b hb
  have evT0 : ∀ k c, (T.ev k c n).get n = 0 := by
    intro k c
    have := get_mono (hT.kn k c n) n
    rw [hTn, get_zero] at this; omega
  have evR0 : ∀ k c, (R.ev k c b).get b = 0 := by
    intro k c
    have := get_mono (hR.kn k c b) b
    rw [hRb, get_zero] at this; omega
  have thrT : ∀ i j, i < n → j < n + 1 → ((T.fork t n).thr j).get i = (T.thr (if j = n then t else j)).get i := by
    intro i j hi hj
    show (upd T.thr n _ j).get i = _
    by_cases e : j = n
    · subst e; rw [upd_self, if_pos rfl]; exact get_inc_ne _ _ _ (by omega)
    · rw [upd_ne _ _ e, if_neg e]
  have thrR : ∀ i j, i < n → j < n + 1 →
      ((R.fork (β t) b).thr (β' j)).get (β i) = (R.thr (β (if j = n then t else j))).get (β i) := by
    intro i j hi hj
    show (upd R.thr b _ (β' j)).get (β i) = _
    by_cases e : j = n
    · subst e; rw [hβn, upd_self, if_pos rfl]; exact get_inc_ne _ _ _ (hb i hi)
    · have hjn : j < n := by omega
      rw [hβ j hjn, upd_ne _ _ (hb j hjn), if_neg e]
  refine ⟨?_, ?_, ?_, ?_⟩
  · intro k c i j hi hj
    by_cases ei : i = n
    · subst ei
      rw [hβn]
      show (T.ev k c i).get i ≤ _ ↔ (R.ev k c b).get b ≤ _
      rw [evT0, evR0]
      exact ⟨fun _ => Nat.zero_le _, fun _ => Nat.zero_le _⟩
    · have hin : i < n := by omega
      rw [hβ i hin]
      show (T.ev k c i).get i ≤ ((T.fork t n).thr j).get i ↔
        (R.ev k c (β i)).get (β i) ≤ ((R.fork (β t) b).thr (β' j)).get (β i)
      rw [thrT i j hin hj, thrR i j hin hj]
      by_cases e : j = n
      · rw [if_pos e]; exact hx.thr k c i t hin ht
      · rw [if_neg e]; exact hx.thr k c i j hin (by omega)
  · intro k c i m hi
    by_cases ei : i = n
    · subst ei
      rw [hβn]
      show (T.ev k c i).get i ≤ _ ↔ (R.ev k c b).get b ≤ _
      rw [evT0, evR0]
      exact ⟨fun _ => Nat.zero_le _, fun _ => Nat.zero_le _⟩
    · have hin : i < n := by omega
      rw [hβ i hin]
      exact hx.mtx k c i m hin
  · intro b' hb'
    have hne : b' ≠ b := fun e => hb' n (Nat.lt_succ_self n) (by rw [hβn, e])
    show upd R.thr b _ b' = _
    rw [upd_ne _ _ hne]
    apply hx.idleR
    intro i hi
    have := hb' i (by omega)
    rwa [hβ i hi] at this
  · intro i hi
    show upd T.thr n _ i = _
    rw [upd_ne _ _ (by omega)]
    exact hx.idleT i (by omega)

/-- both threads record an access right after their ticks -/
theorem XInv.record (hx : XInv n β T R) (hinj : Inj n β) (k : Bool) (t c : Nat) (ht : t < n)
    (hsT : Strict T t) (hsR : Strict R (β t)) : XInv n β (T.record k t c) (R.record k (β t) c) := by
  have evT : ∀ k' c' i, (T.record k t c).ev k' c' i =
      if k' = k ∧ c' = c ∧ i = t then T.thr t else T.ev k' c' i := fun _ _ _ => rfl
  have evR : ∀ k' c' i, i < n → (R.record k (β t) c).ev k' c' (β i) =
      if k' = k ∧ c' = c ∧ i = t then R.thr (β t) else R.ev k' c' (β i) := by
    intro k' c' i hi
    show (if k' = k ∧ c' = c ∧ β i = β t then R.thr (β t) else R.ev k' c' (β i)) = _
    by_cases e : i = t
    · subst e; simp
    · have : β i ≠ β t := fun eb => e (hinj i t hi ht eb)
      simp [e, this]
  refine ⟨?_, ?_, hx.idleR, hx.idleT⟩
  · intro k' c' i j hi hj
    show ((T.record k t c).ev k' c' i).get i ≤ (T.thr j).get i ↔
      ((R.record k (β t) c).ev k' c' (β i)).get (β i) ≤ (R.thr (β j)).get (β i)
    rw [evT, evR k' c' i hi]
    by_cases e : k' = k ∧ c' = c ∧ i = t
    · rw [if_pos e, if_pos e]
      obtain ⟨_, _, rfl⟩ := e
      by_cases ej : j = i
      · subst ej; exact ⟨fun _ => Nat.le_refl _, fun _ => Nat.le_refl _⟩
      · have h1 := hsT.thr j ej
        have h2 := hsR.thr (β j) (fun eb => ej (hinj j i hj hi eb))
        constructor
        · intro h; omega
        · intro h; omega
    · rw [if_neg e, if_neg e]
      exact hx.thr k' c' i j hi hj
  · intro k' c' i m hi
    show ((T.record k t c).ev k' c' i).get i ≤ (T.mtx m).get i ↔
      ((R.record k (β t) c).ev k' c' (β i)).get (β i) ≤ (R.mtx m).get (β i)
    rw [evT, evR k' c' i hi]
    by_cases e : k' = k ∧ c' = c ∧ i = t
    · rw [if_pos e, if_pos e]
      obtain ⟨_, _, rfl⟩ := e
      have h1 := hsT.mtx m
      have h2 := hsR.mtx m
      constructor
      · intro h; omega
      · intro h; omega
    · rw [if_neg e, if_neg e]
      exact hx.mtx k' c' i m hi

end

end Race
end LoomVerif

/-
Race exactness, part 3: how the twin-side invariant `TwinInv` and the link `LinkT` to a clock system are carried
along the stages of the twin.  Two generic shapes cover all stages but `spawn` and the notification of the joiner:
* `quiet_transfer`: a scheduling point / a move of the control record only (no clock changes, the pending operation
  of the stepping thread may be recorded);
* `active_transfer`: the stepping thread completes an operation: its own causality and (possibly) one object change.
-/
import LoomVerif.Proofs.RaceTwin

namespace LoomVerif
namespace Race
open Refine Sy C07 C08 Clocks

section
variable {w w' : World} {d : SCData}

theorem sp_lt (hR : R w d) {b j n : Nat} (h : (b, j, n) ∈ w.spawned) : n < w.exec.objs.length := by
  obtain ⟨_, _, nt, hv, _⟩ := hR.y.sp b j n h
  exact objView_lt hv

theorem sp_notify (hR : R w d) {b j n : Nat} (h : (b, j, n) ∈ w.spawned) :
    ∃ ns, w.exec.objs[n]? = some (.notify ns) := by
  obtain ⟨_, _, nt, hv, _⟩ := hR.y.sp b j n h
  obtain ⟨ns, h1, _⟩ := objView_notify hv
  exact ⟨ns, h1⟩

theorem mtx_obj (hR : R w d) {m : Nat} (hm : m < w.prog.cfg.nMutexes) :
    ∃ ms, w.exec.objs[w.mutexObj m]? = some (.mutex ms) := by
  obtain ⟨l, hv, _⟩ := hR.y.mtx m hm
  obtain ⟨ms, h1, _⟩ := objView_mutex hv
  exact ⟨ms, h1⟩

theorem cell_obj (hR : R w d) {c : Nat} (hc : c < w.prog.cfg.nCells) :
    ∃ cs, w.exec.objs[w.cellObj c]? = some (.cell cs) := by
  obtain ⟨cs, h1, _⟩ := objView_cell (hR.y.cell c hc)
  exact ⟨cs, h1⟩

theorem mtx_lt (hR : R w d) {m : Nat} (hm : m < w.prog.cfg.nMutexes) : w.mutexObj m < w.exec.objs.length := by
  obtain ⟨ms, h⟩ := mtx_obj hR hm
  exact (List.getElem?_eq_some_iff.1 h).1

theorem cell_lt (hR : R w d) {c : Nat} (hc : c < w.prog.cfg.nCells) : w.cellObj c < w.exec.objs.length := by
  obtain ⟨ms, h⟩ := cell_obj hR hc
  exact (List.getElem?_eq_some_iff.1 h).1

/-- a `JoinHandle` notify is not a mutex of the program -/
theorem sp_ne_mtx (hR : R w d) {b j n m : Nat} (h : (b, j, n) ∈ w.spawned) (hm : m < w.prog.cfg.nMutexes) :
    n ≠ w.mutexObj m := by
  intro e
  obtain ⟨ns, h1⟩ := sp_notify hR h
  obtain ⟨ms, h2⟩ := mtx_obj hR hm
  rw [e, h2] at h1; cases h1

theorem sp_ne_cell (hR : R w d) {b j n c : Nat} (h : (b, j, n) ∈ w.spawned) (hc : c < w.prog.cfg.nCells) :
    n ≠ w.cellObj c := by
  intro e
  obtain ⟨ns, h1⟩ := sp_notify hR h
  obtain ⟨ms, h2⟩ := cell_obj hR hc
  rw [e, h2] at h1; cases h1

theorem nthr_eq (hR : R w d) : w.ctl.length = nthr w := hR.lenCtl

end

/-- **a quiet stage** of thread `t`: a scheduling point or a move of its control record -/
theorem quiet_transfer {w w' : World} {σ : CS} {d : SCData} (hR : R w d) (hI : TwinInv w) (hL : LinkT w σ)
    (t : Nat) (hp : w'.prog = w.prog) (hs : w'.spawned = w.spawned) (hn : nthr w' = nthr w)
    (hobjs : ObjsTouched w.exec.objs w'.exec.objs)
    (hctl : ∀ i, i ≠ t → w'.ctlOf i = w.ctlOf i)
    (hthr : ∀ i, tcaus w' i = tcaus w i ∧ trel w' i = trel w i)
    (htopo : ∀ i, i ≠ t → topo w' i = topo w i)
    (hpend : pend w t = none)
    (hfin : 10 ≤ fin w t → 10 ≤ fin w' t)
    (hfin2 : 10 ≤ fin w' t → 10 ≤ fin w t ∨ ∀ b n, (b, t, n) ∉ w.spawned)
    (hop : ∀ o, topo w' t = some o → o < w.exec.objs.length ∧
      (topo w t = some o ∨ ∀ b j n, (b, j, n) ∈ w.spawned → o = n → t ≠ j → pend w' t = some n)) :
    TwinInv w' ∧ LinkT w' σ := by
  have hlen := touched_length hobjs
  have hfinEq : ∀ j, j ≠ t → fin w' j = fin w j := by
    intro j hj; unfold fin; rw [hctl j hj]
  have hpendEq : ∀ i, i ≠ t → pend w' i = pend w i := fun i hi => pend_congr hp hs (hctl i hi)
  have hfinMono : ∀ j, 10 ≤ fin w j → 10 ≤ fin w' j := by
    intro j hj
    by_cases e : j = t
    · subst e; exact hfin hj
    · rw [hfinEq j e]; exact hj
  refine ⟨⟨?_, ?_, ?_, ?_, ?_, ?_, ?_⟩, ⟨?_, ?_, ?_, ?_⟩⟩
  · intro i hi
    rw [(hthr i).2]; exact hI.rel i (by rw [← hn]; exact hi)
  · intro i o hi ho
    rw [hn] at hi
    by_cases e : i = t
    · subst e
      exact Nat.lt_of_lt_of_le (hop o ho).1 hlen
    · rw [htopo i e] at ho
      exact Nat.lt_of_lt_of_le (hI.ob i o hi ho) hlen
  · intro i b j n hi ho hm hij
    rw [hn] at hi
    rw [hs] at hm
    by_cases e : i = t
    · subst e
      rcases (hop n ho).2 with h1 | h1
      · rcases hI.jo i b j n hi h1 hm hij with h2 | h2
        · rw [hpend] at h2; cases h2
        · exact .inr (hfinMono j h2)
      · exact .inl (h1 b j n hm rfl hij)
    · rw [htopo i e] at ho
      rw [hpendEq i e]
      rcases hI.jo i b j n hi ho hm hij with h2 | h2
      · exact .inl h2
      · exact .inr (hfinMono j h2)
  · intro b j n hm
    rw [hs] at hm
    rw [objHb_touched hobjs (sp_lt hR hm), hI.nhb b j n hm, (hthr j).1]
    by_cases e : j = t
    · subst e
      by_cases h10 : 10 ≤ fin w j
      · rw [if_pos h10, if_pos (hfin h10)]
      · rw [if_neg h10]
        by_cases h10' : 10 ≤ fin w' j
        · rcases hfin2 h10' with h | h
          · exact absurd h h10
          · exact absurd hm (h b n)
        · rw [if_neg h10']
    · rw [hfinEq j e]
  · intro b j n hm
    rw [hs] at hm; exact hI.sp0 b j n hm
  · intro e1 e2 h1 h2
    rw [hs] at h1 h2; exact hI.spt e1 e2 h1 h2
  · intro c hc
    rw [hp] at hc
    have : w'.cellObj c = w.cellObj c := by unfold World.cellObj World.cfg; rw [hp]
    rw [this]
    exact cellIdle_touched hobjs (hI.cb c hc)
  · intro m hm
    rw [hp] at hm
    have : w'.mutexObj m = w.mutexObj m := by unfold World.mutexObj World.cfg; rw [hp]
    rw [this, objHb_touched hobjs (mtx_lt hR hm)]
    exact hL.mtx m hm
  · intro k c hc
    rw [hp] at hc
    have : w'.cellObj c = w.cellObj c := by unfold World.cellObj World.cfg; rw [hp]
    rw [this, objAcc_touched hobjs k (cell_lt hR hc)]
    exact hL.acc k c hc
  · intro i hi
    rw [(hthr i).1]; exact hL.lo i (by rw [← hn]; exact hi)
  · intro i hi
    rw [hn] at hi
    rw [(hthr i).1]
    by_cases e : i = t
    · subst e
      have := hL.hi i hi
      rw [pendHb_none hpend, join_zero] at this
      exact le_trans this (le_join_left _ _)
    · have : pendHb w' i = pendHb w i := by
        unfold pendHb
        rw [hpendEq i e]
        cases hpd : pend w i with
        | none => rfl
        | some n =>
          obtain ⟨b, j, hm⟩ := pend_mem hpd
          exact objHb_touched hobjs (sp_lt hR hm)
      rw [this]
      exact hL.hi i hi

/-- **the stepping thread `t` completes an operation**: its causality becomes `σ'.thr t`, at most one object
changes (the caller accounts for the mutex / cell clocks) -/
theorem active_transfer {w w' : World} {σ σ' : CS} {d : SCData} (hR : R w d) (hI : TwinInv w) (hL : LinkT w σ)
    (t : Nat) (hp : w'.prog = w.prog) (hs : w'.spawned = w.spawned) (hn : nthr w' = nthr w)
    (hctl : ∀ i, i ≠ t → w'.ctlOf i = w.ctlOf i)
    (hstage : (w'.ctlOf t).stage = 0) (hfin0 : fin w t = 0) (hfin' : fin w' t = 0)
    (hthr : ∀ i, i ≠ t → tcaus w' i = tcaus w i) (hrel : ∀ i, trel w' i = trel w i)
    (htopo : ∀ i, topo w' i = topo w i)
    (hlen : w'.exec.objs.length = w.exec.objs.length)
    (hhb : ∀ b j n, (b, j, n) ∈ w.spawned → objHb w'.exec.objs n = objHb w.exec.objs n)
    (hσ : ∀ i, i ≠ t → σ'.thr i = σ.thr i) (hσt : σ'.thr t = tcaus w' t)
    (hmtx : ∀ m, m < w.prog.cfg.nMutexes → σ'.mtx m = objHb w'.exec.objs (w.mutexObj m))
    (hacc : ∀ k c, c < w.prog.cfg.nCells → σ'.acc k c = objAcc w'.exec.objs k (w.cellObj c))
    (hcb : ∀ c, c < w.prog.cfg.nCells → cellIdle w'.exec.objs (w.cellObj c))
    (hj : ∀ n, pend w t = some n → ∀ b j, (b, j, n) ∈ w.spawned → 10 ≤ fin w j) :
    TwinInv w' ∧ LinkT w' σ' := by
  have hfinEq : ∀ j, j ≠ t → fin w' j = fin w j := by
    intro j hj; unfold fin; rw [hctl j hj]
  have hpendEq : ∀ i, i ≠ t → pend w' i = pend w i := fun i hi => pend_congr hp hs (hctl i hi)
  have hpend' : pend w' t = none := pend_stage0 (by rw [hstage]; decide)
  have hcell : ∀ c, w'.cellObj c = w.cellObj c := by intro c; unfold World.cellObj World.cfg; rw [hp]
  have hmo : ∀ m, w'.mutexObj m = w.mutexObj m := by intro m; unfold World.mutexObj World.cfg; rw [hp]
  refine ⟨⟨?_, ?_, ?_, ?_, ?_, ?_, ?_⟩, ⟨?_, ?_, ?_, ?_⟩⟩
  · intro i hi
    rw [hrel i]; exact hI.rel i (by rw [← hn]; exact hi)
  · intro i o hi ho
    rw [hn] at hi
    rw [htopo i] at ho
    rw [hlen]; exact hI.ob i o hi ho
  · intro i b j n hi ho hm hij
    rw [hn] at hi
    rw [hs] at hm
    rw [htopo i] at ho
    have hold := hI.jo i b j n hi ho hm hij
    by_cases e : i = t
    · subst e
      have h10 : 10 ≤ fin w j := by
        rcases hold with h2 | h2
        · exact hj n h2 b j hm
        · exact h2
      rw [hfinEq j (Ne.symm hij)]
      exact .inr h10
    · rw [hpendEq i e]
      rcases hold with h2 | h2
      · exact .inl h2
      · by_cases ej : j = t
        · subst ej; rw [hfin0] at h2; omega
        · rw [hfinEq j ej]; exact .inr h2
  · intro b j n hm
    rw [hs] at hm
    rw [hhb b j n hm, hI.nhb b j n hm]
    by_cases e : j = t
    · subst e
      rw [hfin0, hfin']
      simp
    · rw [hfinEq j e, hthr j e]
  · intro b j n hm
    rw [hs] at hm; exact hI.sp0 b j n hm
  · intro e1 e2 h1 h2
    rw [hs] at h1 h2; exact hI.spt e1 e2 h1 h2
  · intro c hc
    rw [hp] at hc; rw [hcell]; exact hcb c hc
  · intro m hm
    rw [hp] at hm; rw [hmo]; exact hmtx m hm
  · intro k c hc
    rw [hp] at hc; rw [hcell]; exact hacc k c hc
  · intro i hi
    rw [hn] at hi
    by_cases e : i = t
    · subst e; rw [hσt]; exact le_refl _
    · rw [hσ i e, hthr i e]; exact hL.lo i hi
  · intro i hi
    rw [hn] at hi
    by_cases e : i = t
    · subst e; rw [hσt]; exact le_join_left _ _
    · have : pendHb w' i = pendHb w i := by
        unfold pendHb
        rw [hpendEq i e]
        cases hpd : pend w i with
        | none => rfl
        | some n =>
          obtain ⟨b, j, hm⟩ := pend_mem hpd
          exact hhb b j n hm
      rw [this, hσ i e, hthr i e]
      exact hL.hi i hi

end Race
end LoomVerif

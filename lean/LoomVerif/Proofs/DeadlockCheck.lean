/-
Deadlock soundness, part 11: the hypotheses on the execution record hold for EVERY iteration of `Check.run`
(`Builder::check`): the thread table is fresh (`Exec.new`, `Exec.step`) and every `Schedule` entry of the path
`Path.step` leaves behind has an active thread.  Hence: if `Check.run` ends with the panic "deadlock" on a
well-formed program of the lock fragment, the iteration that panicked ran into a real deadlock.
-/
import LoomVerif.Proofs.DeadlockRun
import LoomVerif.Proofs.PathDfs
import LoomVerif.Model.Check

namespace LoomVerif
namespace Deadlock
open Refine Sy

/-! ### `World.init` never panics with "deadlock" -/

theorem atomicNew_notDL {ths : Threads} {v : Nat} {err : Panic} (h : Atomic.new ths v = .error err) :
    err ≠ .deadlock := by
  unfold Atomic.new at h
  simp only [bind, Except.bind] at h
  split at h
  · next e' he =>
    cases h
    unfold Atomic.trackUnsyncMut Atomic.mutatingCheck at he
    simp only [bind, Except.bind, pure, Except.pure, throw, throwThe, MonadExceptOf.throw] at he
    split at he
    · next e2 h2 => split at h2 <;> cases h2; cases he; simp
    · repeat' split at he
      all_goals first
        | (cases he; done)
        | (cases he; simp)
  · cases h

theorem forIn_try_error {α β γ} (l : List α) (init : List β) (f : Except Panic γ) (g : γ → β) (e : Panic)
    (h : (forIn l init (fun _ s => do let a ← f; pure (ForInStep.yield (s ++ [g a])))) = .error e) :
    f = .error e := by
  cases f with
  | error e' =>
    cases l with
    | nil => simp [pure, Except.pure] at h
    | cons a l => rw [List.forIn_cons] at h; simp [bind, Except.bind] at h; rw [h]
  | ok v =>
    have : (fun (_ : α) (s : List β) =>
        (do let a ← (Except.ok v : Except Panic γ); pure (ForInStep.yield (s ++ [g a])) :
          Except Panic (ForInStep (List β)))) = fun _ s => pure (ForInStep.yield (s ++ [g v])) := rfl
    rw [this, forIn_pure] at h
    cases h

theorem forIn_pure_ne_error {α σ} (l : List α) (init : σ) (F : α → σ → σ) (e : Panic) :
    forIn l init (fun a s => (pure (ForInStep.yield (F a s)) : Except Panic (ForInStep σ))) ≠ .error e := by
  induction l generalizing init with
  | nil => simp [pure, Except.pure]
  | cons a l ih =>
    rw [List.forIn_cons]
    simp only [pure, Except.pure, bind, Except.bind]
    exact ih _

theorem init_notDL {prog : Prog} {e : Exec} {err : Panic} (h : World.init prog e = .error err) :
    err ≠ .deadlock := by
  unfold World.init at h
  simp only [bind, Except.bind] at h
  split at h
  · next err' h1 =>
    cases h
    exact atomicNew_notDL (forIn_try_error _ _ _ _ _ h1)
  · repeat' split at h
    all_goals first
      | (rename_i h2; exact absurd h2 (forIn_pure_ne_error _ _ _ _))
      | cases h

/-! ### paths all of whose `Schedule` entries have an active thread -/

/-- every `Schedule` entry has an active thread -/
def AllOK (p : Path) : Prop := ∀ e ∈ p.branches, entryOK e = true

/-- every `Schedule` entry but (possibly) the last one has an active thread -/
def AllButLastOK (p : Path) : Prop :=
  ∀ i (hi : i + 1 < p.branches.length), entryOK (p.branches[i]'(by omega)) = true

theorem AllOK.replayOK {p : Path} (h : AllOK p) : ReplayOK p := by
  intro i hi _
  rw [List.getElem?_eq_getElem hi]
  simp only [Option.all_some]
  exact h _ (List.getElem_mem hi)

theorem AllOK.butLast {p : Path} (h : AllOK p) : AllButLastOK p :=
  fun i hi => h _ (List.getElem_mem _)

theorem allOK_new (mb : Nat) (b : Option Nat) (x : Bool) : AllOK (Path.new mb b x) := by
  intro e he; simp [Path.new] at he

theorem wf_new (mb : Nat) (b : Option Nat) (x : Bool) : (Path.new mb b x).WF := by
  intro e he; simp [Path.new] at he

theorem entryOK_same {e e' : Entry} (h : Entry.Same e e') : entryOK e' = entryOK e := by
  unfold entryOK; rw [h.kind, h.dec]

theorem AllOK.frame {p q : Path} (hf : Path.Frame p q) (hl : q.branches.length = p.branches.length)
    (h : AllOK p) : AllOK q := by
  intro e he
  obtain ⟨i, hi, rfl⟩ := List.getElem_of_mem he
  have hi' : i < p.branches.length := by omega
  rw [entryOK_same (hf.same i hi')]
  exact h _ (List.getElem_mem hi')

/-- the invariant of the path along a run: well-formed; every `Schedule` entry but possibly the last has an active
thread, and the last one too while a thread is active -/
def PI (w : World) : Prop :=
  w.exec.path.WF ∧ AllButLastOK w.exec.path ∧ (w.ths.isActive = true → AllOK w.exec.path)

theorem sched_entryOK {s : Sched} (hw : s.WF) (h : s.activeIdx.isSome = true) : entryOK (.sched s) = true := by
  unfold entryOK
  have := (Entry.sched_isSome_iff hw).1 h
  simp [this]

/-- `schedule` from a path all of whose `Schedule` entries have an active thread -/
theorem schedule_PI {e e' : Exec} {pk b : Bool} (h : e.schedule pk = .ok (e', b)) (hw : e.path.WF)
    (hok : AllOK e.path) :
    e'.path.WF ∧ AllButLastOK e'.path ∧ (e'.threads.isActive = true → AllOK e'.path) := by
  have hwf' : e'.path.WF := (Exec.schedule_frame h).1.wf hw
  obtain ⟨_, p1, next, hd, hb, hact, _⟩ := Exec.schedule_ok h
  obtain ⟨hf1, hl1, _, _⟩ := Exec.dporMarks_frame hd
  have hok1 : AllOK p1 := hok.frame hf1 hl1
  have hw1 : p1.WF := hf1.wf hw
  refine ⟨hwf', ?_⟩
  rw [Path.branchThread_eq] at hb
  split at hb
  · rename_i ht
    have hpos : p1.pos = p1.branches.length := by simpa [Path.isTraversed] using ht
    split at hb
    · split at hb
      · cases hb
      · split at hb
        · cases hb
        · rename_i hs1 hs2
          have hpath := Path.readSched_ok hb
          unfold Path.readSched at hb
          simp only [hpos, List.getElem?_append_right (Nat.le_refl _), Nat.sub_self,
            List.getElem?_cons_zero, Except.ok.injEq, Prod.mk.injEq] at hb
          have hnext : next = (p1.newSched (Exec.seed e.threads.threads e.initial)).activeIdx := hb.2.symm
          have hbr : e'.path.branches =
              p1.branches ++ [.sched (p1.newSched (Exec.seed e.threads.threads e.initial))] := by
            rw [hpath]
          have hnw : (p1.newSched (Exec.seed e.threads.threads e.initial)).WF :=
            Path.newSched_wf p1 _ (by omega) (by omega)
          refine ⟨?_, ?_⟩
          · intro i hi
            have hi' : i < p1.branches.length := by
              rw [hbr] at hi; simp at hi; omega
            have : e'.path.branches[i]'(by omega) = p1.branches[i] := by
              simp only [hbr]
              exact List.getElem_append_left hi'
            rw [this]
            exact hok1 _ (List.getElem_mem hi')
          · intro hact'
            intro x hx
            rw [hbr] at hx
            rcases List.mem_append.1 hx with hx | hx
            · exact hok1 x hx
            · simp only [List.mem_singleton] at hx
              subst hx
              apply sched_entryOK hnw
              rw [← hnext, ← hact]
              exact hact'
    · cases hb
  · have hpath := Path.readSched_ok hb
    have hok' : AllOK e'.path := by
      intro x hx; rw [hpath] at hx; exact hok1 x hx
    exact ⟨hok'.butLast, fun _ => hok'⟩

section
variable {w w' : World} {s : SCData}

theorem PI.step (hpi : PI w) (hactive : w.ths.isActive = true) (hT : PathTrans w w') : PI w' := by
  have hall := hpi.2.2 hactive
  rcases hT with e | ⟨F, e, b, hs, he⟩
  · have hall' : AllOK w'.exec.path := by rw [e]; exact hall
    exact ⟨by rw [e]; exact hpi.1, hall'.butLast, fun _ => hall'⟩
  · have := @schedule_PI ({ w.exec with threads := w.ths.modifyActive F }) e w.panicking b hs hpi.1 hall
    show w'.exec.path.WF ∧ AllButLastOK w'.exec.path ∧ (w'.exec.threads.isActive = true → AllOK w'.exec.path)
    rw [he]; exact this

end

/-- the path invariant along `runLoop` (with `RB`, which the one-step results need): a run that completes ends
in a world without active thread whose path is well-formed and all of whose `Schedule` entries but possibly the
last have an active thread -/
theorem runLoop_PI (p : Prog) (hwf : WF p) :
    ∀ (fuel : Nat) (w w' : World) (s : SCData), w.prog = p → RB w s → InRange w → PI w →
      World.runLoop fuel w = (w', none) → w'.exec.path.WF ∧ AllButLastOK w'.exec.path := by
  intro fuel
  induction fuel with
  | zero =>
    intro w w' s _ _ _ _ h
    simp [World.runLoop] at h
  | succ fuel ih =>
    intro w w' s hp hRB hrange hpi h
    unfold World.runLoop at h
    split at h
    · simp only [Prod.mk.injEq, and_true] at h
      subst h
      exact ⟨hpi.1, hpi.2.1⟩
    · next hact =>
      have hact' : w.ths.isActive = true := by simpa using hact
      have hin : w.tid < w.ctl.length := by rw [hRB.r.lenCtl]; exact hrange hact'
      split at h
      · cases h
      · next w1 hstep =>
        have hr1 : InRange w1 := step_inRange (by rw [hp]; exact hwf.1) hRB.r hin hstep
        obtain ⟨_, hT⟩ := step_JBT (by rw [hp]; exact hwf) hRB hact' hin hstep
        have hpi1 := hpi.step hact' hT
        obtain ⟨hp1, hsim⟩ := step_pres (by rw [hp]; exact hwf) hRB hact' hin hstep
        rcases hsim with ⟨hR1, _⟩ | ⟨_, s1, _, _, hR1, _⟩
        · exact ih w1 w' s (hp1.trans hp) hR1 hr1 hpi1 h
        · exact ih w1 w' s1 (hp1.trans hp) hR1 hr1 hpi1 h

/-- `Path.step` on such a path leaves a path all of whose `Schedule` entries have an active thread -/
theorem step_allOK {q p' : Path} (h : q.step = some p') (hw : q.WF) (hok : AllButLastOK q) :
    p'.WF ∧ AllOK p' := by
  refine ⟨Path.step_wf h hw, ?_⟩
  obtain ⟨pre, e, suf, e', hbr, hadv, _, rfl⟩ := (Path.step_eq_some q p').1 h
  intro x hx
  simp only [Path.restart] at hx
  rcases List.mem_append.1 hx with hx | hx
  · obtain ⟨i, hi, rfl⟩ := List.getElem_of_mem hx
    have hlt : i + 1 < q.branches.length := by rw [hbr]; simp; omega
    have := hok i hlt
    have he : q.branches[i]'(by omega) = pre[i] := by
      simp only [hbr]
      exact List.getElem_append_left hi
    rw [he] at this; exact this
  · simp only [List.mem_singleton] at hx
    subst hx
    have hew : e.WF := hw e (by rw [hbr]; simp)
    have hew' : x.WF := Entry.advance_wf hadv hew
    cases e with
    | sched s =>
      simp only [Entry.advance] at hadv
      split at hadv
      · cases hs : s.advance with
        | none => rw [hs] at hadv; cases hadv
        | some s' =>
          rw [hs] at hadv
          simp only [Option.map_some, Option.some.injEq] at hadv
          subst hadv
          exact sched_entryOK hew' (Sched.advance_activeIdx_isSome hs)
      · cases hadv
    | load l =>
      have := Entry.advance_kind hadv
      unfold entryOK; rw [this]; rfl
    | spur sp =>
      have := Entry.advance_kind hadv
      unfold entryOK; rw [this]; rfl

/-- what `Check.loop` keeps of the execution record from one iteration to the next -/
def IterInv (e : Exec) : Prop := FreshExec e ∧ e.path.WF ∧ AllOK e.path

theorem iterInv_initExec (c : Cfg) : IterInv (Check.initExec c) :=
  ⟨freshExec_new _ _ _ _, wf_new _ _ _, allOK_new _ _ _⟩

/-- an iteration that completes leaves an execution record that satisfies the hypotheses again -/
theorem runIter_iterInv {prog : Prog} {e e' : Exec} {fuel : Nat} (hwf : WF prog) (hi : IterInv e)
    (hterm : (runIter prog e fuel).term = none) (hstep : (runIter prog e fuel).exec.step = some e') :
    IterInv e' := by
  refine ⟨freshExec_step hstep, ?_⟩
  unfold runIter at hterm hstep
  cases hinit : World.init prog e with
  | error err => rw [hinit] at hterm; cases hterm
  | ok w0 =>
    rw [hinit] at hterm hstep
    simp only at hterm hstep
    generalize hr : World.runLoop fuel w0 = res at hterm hstep
    obtain ⟨w, r⟩ := res
    cases r with
    | some err => cases hterm
    | none =>
      simp only at hterm hstep
      replace hstep : w.exec.step = some e' := by
        cases hc : w.exec.objs.checkForLeaks <;> rw [hc] at hstep <;> exact hstep
      obtain ⟨hRB, hp, _⟩ := init_RB hwf hi.1 hi.2.2.replayOK hinit
      have hpath := init_path hinit
      have hpi : PI w0 := by
        have hall : AllOK w0.exec.path := by rw [hpath]; exact hi.2.2
        exact ⟨by rw [hpath]; exact hi.2.1, hall.butLast, fun _ => hall⟩
      obtain ⟨hw, hok⟩ := runLoop_PI prog hwf fuel w0 w _ hp hRB (init_inRange hi.1.1 hinit) hpi hr
      unfold Exec.step at hstep
      cases hps : w.exec.path.step with
      | none => rw [hps] at hstep; cases hstep
      | some p' =>
        rw [hps] at hstep
        simp only [Option.map_some, Option.some.injEq] at hstep
        subst hstep
        exact step_allOK hps hw hok

end Deadlock
end LoomVerif

/-
Helpers for property C15 (preemption bound) about the model of `path.rs`:
the stored `preemptions` fields count the preemptions of the stack prefix (`PreInv`), with a
bound `n` no schedule ever reports more than `n` preemptions (`BoundInv`).
-/
import LoomVerif.Proofs.PathCtl
import LoomVerif.Model.Exec

namespace LoomVerif

/-! ### reference definitions -/

namespace Sched

/-- the schedule has been switched away from the thread that was active when the branch point
was created *and* that thread was the one running before (`initial_active = Some(a)`), i.e. a
switch away from a thread that could have continued -/
def preempted (s : Sched) : Bool :=
  match s.initialActive with
  | some a => s.activeIdx != some a
  | none => false

theorem preemptionsNow_eq (s : Sched) :
    s.preemptionsNow = s.preemptions + (if s.preempted then 1 else 0) := by
  unfold preemptionsNow preempted
  cases hi : s.initialActive with
  | none => simp
  | some a =>
    cases ha : s.activeIdx with
    | none => simp
    | some b =>
      by_cases hab : a = b
      · subst hab; simp
      · have : ¬ b = a := fun h => hab h.symm
        simp [hab, this]

theorem preemptionsNow_le (s : Sched) : s.preemptionsNow ≤ s.preemptions + 1 := by
  rw [preemptionsNow_eq]; split <;> omega

theorem preemptions_le_now (s : Sched) : s.preemptions ≤ s.preemptionsNow := by
  rw [preemptionsNow_eq]; omega

end Sched

namespace Entry
def isSched : Entry → Bool | sched _ => true | _ => false
def preempted : Entry → Bool | sched s => s.preempted | _ => false
end Entry

/-- the reference preemption count of a stack (prefix): the number of schedule entries that
were switched away from a thread that could have continued -/
def refCount (l : List Entry) : Nat := l.countP Entry.preempted

/-- index of the last schedule entry of a stack (prefix) -/
def lastSched (l : List Entry) : Option Nat := Path.lastScheduleAux l 0 none

/-- number of schedule entries -/
def schedCount (l : List Entry) : Nat := l.countP Entry.isSched

theorem refCount_le_schedCount (l : List Entry) : refCount l ≤ schedCount l := by
  unfold refCount schedCount
  apply List.countP_mono_left
  intro e _ h
  cases e <;> first | rfl | cases h

namespace Path

/-- every schedule entry points to the previous schedule entry and stores the reference
preemption count of the entries strictly before it -/
def PreInv (p : Path) : Prop :=
  ∀ i s, p.branches[i]? = some (.sched s) →
    s.prev = lastSched (p.branches.take i) ∧ s.preemptions = refCount (p.branches.take i)

end Path

/-! ### tags: what `PreInv` looks at -/

/-- `(prev, preemptions, preempted)` of a schedule entry -/
abbrev Tag := Option (Option Nat × Nat × Bool)

def Entry.tag : Entry → Tag
  | sched s => some (s.prev, s.preemptions, s.preempted)
  | _ => none

namespace Tag

def lastAux : List Tag → Nat → Option Nat → Option Nat
  | [], _, acc => acc
  | some _ :: es, i, _ => lastAux es (i + 1) (some i)
  | none :: es, i, acc => lastAux es (i + 1) acc

def last (t : List Tag) : Option Nat := lastAux t 0 none

def pre : Tag → Bool
  | some (_, _, b) => b
  | none => false

def ref (t : List Tag) : Nat := t.countP pre

/-- `preemptions()` of the last schedule, `0` if there is none -/
def now (t : List Tag) : Nat :=
  match last t with
  | some j =>
    match t[j]? with
    | some (some (_, n, b)) => n + (if b then 1 else 0)
    | _ => 0
  | none => 0

def Inv (t : List Tag) : Prop :=
  ∀ i pv n b, t[i]? = some (some (pv, n, b)) → pv = last (t.take i) ∧ n = ref (t.take i)

theorem lastAux_snoc (t : List Tag) (x : Tag) (i : Nat) (acc : Option Nat) :
    lastAux (t ++ [x]) i acc = if x.isSome then some (i + t.length) else lastAux t i acc := by
  induction t generalizing i acc with
  | nil => cases x <;> simp [lastAux]
  | cons y ys ih =>
    cases y with
    | none => simp only [List.cons_append, lastAux, ih, List.length_cons]; congr 2; omega
    | some v => simp only [List.cons_append, lastAux, ih, List.length_cons]; congr 2; omega

theorem last_snoc (t : List Tag) (x : Tag) :
    last (t ++ [x]) = if x.isSome then some t.length else last t := by
  unfold last; rw [lastAux_snoc]; simp

theorem ref_snoc (t : List Tag) (x : Tag) : ref (t ++ [x]) = ref t + (if pre x then 1 else 0) := by
  unfold ref; simp [List.countP_append, List.countP_cons]

/-- induction from the deep end of the stack -/
theorem snoc_induction {α} {P : List α → Prop} (h0 : P [])
    (h1 : ∀ l a, P l → P (l ++ [a])) (l : List α) : P l := by
  have : ∀ r : List α, P r.reverse := by
    intro r
    induction r with
    | nil => exact h0
    | cons a r ih => rw [List.reverse_cons]; exact h1 _ _ ih
  have := this l.reverse
  rwa [List.reverse_reverse] at this

theorem last_lt {t : List Tag} {j : Nat} (h : last t = some j) : j < t.length := by
  induction t using snoc_induction generalizing j with
  | h0 => cases h
  | h1 l a ih =>
    rw [last_snoc] at h
    split at h
    · cases h; simp
    · have := ih h; simp; omega

theorem Inv.prefix {t r : List Tag} (h : Inv (t ++ r)) : Inv t := by
  intro i pv n b hi
  have hlt : i < t.length := by
    rcases Nat.lt_or_ge i t.length with h' | h'
    · exact h'
    · rw [List.getElem?_eq_none h'] at hi; cases hi
  have := h i pv n b (by rw [List.getElem?_append_left hlt]; exact hi)
  rwa [List.take_append_of_le_length (Nat.le_of_lt hlt)] at this

theorem Inv.take {t : List Tag} (h : Inv t) (k : Nat) : Inv (t.take k) := by
  have : Inv (t.take k ++ t.drop k) := by rw [List.take_append_drop]; exact h
  exact this.prefix

theorem Inv.snoc {t : List Tag} (h : Inv t) {x : Tag}
    (hx : ∀ pv n b, x = some (pv, n, b) → pv = last t ∧ n = ref t) : Inv (t ++ [x]) := by
  intro i pv n b hi
  rcases Nat.lt_or_ge i t.length with hlt | hge
  · rw [List.getElem?_append_left hlt] at hi
    rw [List.take_append_of_le_length (Nat.le_of_lt hlt)]
    exact h i pv n b hi
  · rcases Nat.lt_or_ge t.length i with hgt | hle
    · rw [List.getElem?_eq_none (by simp; omega)] at hi; cases hi
    · have : i = t.length := by omega
      subst this
      simp only [List.getElem?_concat_length, Option.some.injEq] at hi
      rw [List.take_left']
      · exact hx pv n b hi
      · rfl

/-- under the invariant, `preemptions()` of the last schedule is the reference count of the
whole stack -/
theorem Inv.now_eq {t : List Tag} (h : Inv t) : now t = ref t := by
  induction t using snoc_induction with
  | h0 => rfl
  | h1 l a ih =>
    cases a with
    | none =>
      have h' := ih h.prefix
      have hl : last (l ++ [none]) = last l := by rw [last_snoc]; rfl
      have hr : ref (l ++ [none]) = ref l := by rw [ref_snoc]; rfl
      rw [hr, ← h']
      unfold now
      rw [hl]
      cases hj : last l with
      | none => rfl
      | some j =>
        have := last_lt hj
        simp only [List.getElem?_append_left this]
    | some v =>
      obtain ⟨pv, n, b⟩ := v
      have hl : last (l ++ [some (pv, n, b)]) = some l.length := by rw [last_snoc]; rfl
      have hn := (h l.length pv n b (by simp)).2
      rw [List.take_left' rfl] at hn
      unfold now
      rw [hl, ref_snoc]
      cases b <;> simp [pre, hn]

end Tag

/-! ### from entries to tags -/

theorem lastScheduleAux_tag (l : List Entry) (i : Nat) (acc : Option Nat) :
    Path.lastScheduleAux l i acc = Tag.lastAux (l.map Entry.tag) i acc := by
  induction l generalizing i acc with
  | nil => rfl
  | cons e es ih => cases e <;> simp [Path.lastScheduleAux, Tag.lastAux, Entry.tag, ih]

theorem lastSched_tag (l : List Entry) : lastSched l = Tag.last (l.map Entry.tag) :=
  lastScheduleAux_tag l 0 none

theorem refCount_tag (l : List Entry) : refCount l = Tag.ref (l.map Entry.tag) := by
  unfold refCount Tag.ref
  rw [List.countP_map]
  congr 1
  funext e
  cases e <;> rfl

theorem getElem?_tag_sched {l : List Entry} {i : Nat} {pv : Option Nat} {n : Nat} {b : Bool}
    (h : (l.map Entry.tag)[i]? = some (some (pv, n, b))) :
    ∃ s, l[i]? = some (.sched s) ∧ s.prev = pv ∧ s.preemptions = n ∧ s.preempted = b := by
  rw [List.getElem?_map] at h
  cases he : l[i]? with
  | none => rw [he] at h; cases h
  | some e =>
    rw [he] at h
    cases e with
    | sched s =>
      simp only [Option.map_some, Entry.tag, Option.some.injEq, Prod.mk.injEq] at h
      exact ⟨s, rfl, h.1, h.2.1, h.2.2⟩
    | load _ => cases h
    | spur _ => cases h

theorem Path.preInv_iff (p : Path) : p.PreInv ↔ Tag.Inv (p.branches.map Entry.tag) := by
  constructor
  · intro h i pv n b hi
    obtain ⟨s, hs, rfl, rfl, rfl⟩ := getElem?_tag_sched hi
    have := h i s hs
    rw [← List.map_take, ← lastSched_tag, ← refCount_tag]
    exact this
  · intro h i s hi
    have := h i s.prev s.preemptions s.preempted (by rw [List.getElem?_map, hi]; rfl)
    rw [← List.map_take, ← lastSched_tag, ← refCount_tag] at this
    exact this

theorem lastSched_lt {l : List Entry} {j : Nat} (h : lastSched l = some j) : j < l.length := by
  rw [lastSched_tag] at h
  simpa using Tag.last_lt h

theorem lastSched_snoc (l : List Entry) (e : Entry) :
    lastSched (l ++ [e]) = if e.isSched then some l.length else lastSched l := by
  simp only [lastSched_tag, List.map_append, List.map_cons, List.map_nil, Tag.last_snoc,
    List.length_map]
  cases e <;> rfl

/-- the last schedule entry, if any -/
theorem lastSched_sched {l : List Entry} {j : Nat} (h : lastSched l = some j) :
    ∃ s, l[j]? = some (.sched s) := by
  induction l using Tag.snoc_induction generalizing j with
  | h0 => cases h
  | h1 l a ih =>
    rw [lastSched_snoc] at h
    split at h
    · cases h
      cases a with
      | sched s => exact ⟨s, by simp⟩
      | load _ => rename_i hx; cases hx
      | spur _ => rename_i hx; cases hx
    · obtain ⟨s, hs⟩ := ih h
      have := lastSched_lt h
      exact ⟨s, by rw [List.getElem?_append_left this]; exact hs⟩

namespace Path

/-- `preemptions()` of the last schedule of the stack, `0` if there is none: the value
`branch_thread` stores in a new schedule -/
def nowOfLast (p : Path) : Nat :=
  match p.lastSchedule.bind p.schedAt with
  | some ps => ps.preemptionsNow
  | none => 0

theorem nowOfLast_tag (p : Path) : p.nowOfLast = Tag.now (p.branches.map Entry.tag) := by
  unfold nowOfLast Tag.now
  rw [← lastSched_tag]
  show (match (lastSched p.branches).bind p.schedAt with
    | some ps => ps.preemptionsNow | none => 0) = _
  cases hj : lastSched p.branches with
  | none => rfl
  | some j =>
    obtain ⟨s, hs⟩ := lastSched_sched hj
    simp only [Option.bind_some, schedAt, hs, List.getElem?_map, Option.map_some, Entry.tag]
    exact s.preemptionsNow_eq

theorem PreInv.nowOfLast {p : Path} (h : p.PreInv) : p.nowOfLast = refCount p.branches := by
  rw [nowOfLast_tag, refCount_tag]
  exact ((preInv_iff p).1 h).now_eq

/-! ### `PreInv` is preserved -/

theorem preInv_new (cap : Nat) (bound : Option Nat) (expl : Bool) :
    (Path.new cap bound expl).PreInv := by
  intro i s h; simp [Path.new] at h

theorem PreInv.of_branches_eq {p q : Path} (h : p.PreInv) (hb : q.branches = p.branches) :
    q.PreInv := by
  unfold PreInv at *; rw [hb]; exact h

theorem PreInv.push {p q : Path} (h : p.PreInv) {e : Entry}
    (hb : q.branches = p.branches ++ [e])
    (he : ∀ s, e = .sched s →
      s.prev = lastSched p.branches ∧ s.preemptions = refCount p.branches) : q.PreInv := by
  rw [preInv_iff] at *
  rw [hb, List.map_append]
  apply h.snoc
  intro pv n b hx
  cases e with
  | sched s =>
    have hx : (Entry.sched s).tag = some (pv, n, b) := hx
    simp only [Entry.tag, Option.some.injEq, Prod.mk.injEq] at hx
    obtain ⟨rfl, rfl, _⟩ := hx
    rw [← lastSched_tag, ← refCount_tag]
    exact he s rfl
  | load _ => cases hx
  | spur _ => cases hx

theorem newSched_prev (p : Path) (seed : List ThSt) :
    (p.newSched seed).prev = lastSched p.branches := rfl

theorem newSched_preemptions (p : Path) (seed : List ThSt) :
    (p.newSched seed).preemptions = p.nowOfLast := rfl

theorem Rel.tag {s s' : Sched} (h : Sched.Rel s s') :
    (Entry.sched s').tag = (Entry.sched s).tag := by
  have h1 : s'.prev = s.prev := by rw [h.fields]
  have h2 : s'.preemptions = s.preemptions := by rw [h.fields]
  have h3 : s'.initialActive = s.initialActive := by rw [h.fields]
  simp only [Entry.tag, h1, h2, Sched.preempted, h3, h.activeIdx]

theorem PreInv.setSched {p : Path} (h : p.PreInv) {i : Nat} {s s' : Sched}
    (hs : p.schedAt i = some s) (hr : Sched.Rel s s') : (p.setSched i s').PreInv := by
  rw [preInv_iff] at *
  have : (p.setSched i s').branches.map Entry.tag = p.branches.map Entry.tag := by
    simp only [Path.setSched, List.map_set, Rel.tag hr]
    apply set_of_getElem?
    rw [List.getElem?_map, schedAt_eq_some hs]; rfl
  rw [this]; exact h

theorem backtrackConservative_preInv {p p' : Path} {tid fuel curr : Nat}
    (h : p.backtrackConservative tid fuel curr = .ok p') (hi : p.PreInv) : p'.PreInv := by
  induction fuel generalizing curr with
  | zero => unfold backtrackConservative at h; cases h; exact hi
  | succ fuel ih =>
    unfold backtrackConservative at h
    split at h
    · cases h
    · rename_i cs hcs
      have setCase : ∀ {p' : Path},
          (do let cs' ← cs.backtrack tid p.bound; pure (p.setSched curr cs')) = Except.ok p' →
          p'.PreInv := by
        intro p' h
        cases hb : cs.backtrack tid p.bound with
        | error e => rw [hb] at h; cases h
        | ok cs' => rw [hb] at h; cases h; exact hi.setSched hcs (Sched.backtrack_rel hb)
      split at h
      · split at h
        · cases h
        · split at h
          · exact setCase h
          · exact ih h
      · split at h
        · exact setCase h
        · cases h; exact hi

theorem backtrack_preInv {p p' : Path} {point tid : Nat} (h : p.backtrack point tid = .ok p')
    (hi : p.PreInv) : p'.PreInv := by
  unfold backtrack at h
  split at h
  · cases h
  · split at h
    · cases h; exact hi
    · rename_i i s hf
      have hs := findExploringSched_some hf
      cases hb : s.backtrack tid p.bound with
      | error e => rw [hb] at h; cases h
      | ok s' =>
        rw [hb] at h
        have f1 := hi.setSched hs (Sched.backtrack_rel hb)
        simp only [bind, Except.bind] at h
        split at h
        · cases h; exact f1
        · split at h
          · exact backtrackConservative_preInv h f1
          · cases h; exact f1

theorem branchThread_preInv {p p' : Path} {seed : List ThSt} {pk : Bool} {r : Option Nat}
    (h : p.branchThread seed pk = .ok (p', r)) (hi : p.PreInv) : p'.PreInv := by
  rcases branchThread_ok h with rfl | ⟨_, _, _, rfl⟩
  · exact hi.of_branches_eq rfl
  · apply hi.push (e := .sched (p.newSched seed)) rfl
    intro s hs
    cases hs
    exact ⟨newSched_prev p seed, by rw [newSched_preemptions, hi.nowOfLast]⟩

theorem pushLoad_preInv {p p' : Path} {seed : List Nat} {pk : Bool}
    (h : p.pushLoad seed pk = .ok p') (hi : p.PreInv) : p'.PreInv := by
  obtain ⟨_, _, rfl⟩ := pushLoad_ok h
  exact hi.push (e := .load (p.newLoad seed)) rfl (fun s hs => by cases hs)

theorem branchSpurious_preInv {p p' : Path} {pk b : Bool}
    (h : p.branchSpurious pk = .ok (p', b)) (hi : p.PreInv) : p'.PreInv := by
  rcases branchSpurious_ok h with rfl | ⟨_, rfl⟩
  · exact hi.of_branches_eq rfl
  · exact hi.push (e := .spur { spur := false, exploring := p.exploring }) rfl
      (fun s hs => by cases hs)

theorem branchLoad_preInv {p p' : Path} {v : Nat} (h : p.branchLoad = .ok (p', v))
    (hi : p.PreInv) : p'.PreInv := hi.of_branches_eq (branchLoad_frame h).2

theorem exploreState_preInv {p p' : Path} (h : p.exploreState = .ok p') (hi : p.PreInv) :
    p'.PreInv := hi.of_branches_eq (exploreState_frame h).2

theorem critical_preInv {p p' : Path} (h : p.critical = .ok p') (hi : p.PreInv) :
    p'.PreInv := hi.of_branches_eq (critical_frame h).2

theorem skipBranch_preInv {p : Path} (hi : p.PreInv) : p.skipBranch.PreInv :=
  hi.of_branches_eq rfl

theorem advance_tag {e e' : Entry} (h : e.advance = some e') :
    ∀ pv n b, e'.tag = some (pv, n, b) → ∃ b', e.tag = some (pv, n, b') := by
  intro pv n b ht
  cases e with
  | sched s =>
    obtain ⟨_, s', hs, rfl⟩ := Entry.advance_sched h
    obtain ⟨_, h2, h3, _⟩ := Sched.advance_fields hs
    simp only [Entry.tag, Option.some.injEq, Prod.mk.injEq] at ht
    obtain ⟨rfl, rfl, _⟩ := ht
    exact ⟨s.preempted, by simp [Entry.tag, h2, h3]⟩
  | load l => obtain ⟨_, _, rfl⟩ := Entry.advance_load h; cases ht
  | spur p => obtain ⟨_, _, rfl⟩ := Entry.advance_spur h; cases ht

theorem step_preInv {q p' : Path} (h : q.step = some p') (hi : q.PreInv) : p'.PreInv := by
  obtain ⟨pre, e, suf, e', h1, h2, _, rfl⟩ := (step_eq_some _ _).1 h
  rw [preInv_iff] at *
  simp only [restart, List.map_append, List.map_cons, List.map_nil]
  rw [h1, List.map_append, List.map_cons] at hi
  have hpre : Tag.Inv (pre.map Entry.tag) := hi.prefix
  apply hpre.snoc
  intro pv n b hx
  obtain ⟨b', hb'⟩ := advance_tag h2 pv n b hx
  have := hi (pre.map Entry.tag).length pv n b' (by simp [hb'])
  rwa [List.take_left' rfl] at this

theorem Call.preInv {pk : Bool} {p p' : Path} (h : Call pk p p') (hi : p.PreInv) :
    p'.PreInv := by
  cases h with
  | branchThread seed r h => exact branchThread_preInv h hi
  | pushLoad seed h => exact pushLoad_preInv h hi
  | branchLoad v h => exact branchLoad_preInv h hi
  | branchSpurious b h => exact branchSpurious_preInv h hi
  | backtrack point tid h => exact backtrack_preInv h hi
  | exploreState h => exact exploreState_preInv h hi
  | critical h => exact critical_preInv h hi
  | skipBranch => exact skipBranch_preInv hi

theorem Iter.preInv {np : Bool} {p q : Path} (h : Iter np p q) (hi : p.PreInv) : q.PreInv := by
  induction h with
  | refl p => exact hi
  | call pk _ hc _ ih => exact ih (hc.preInv hi)

theorem Explore.preInv {np : Bool} {p : Path} {qs : List Path} (h : Explore (Iter np) p qs)
    (hi : p.PreInv) : ∀ q ∈ qs, q.PreInv := by
  induction h with
  | last hr => intro q hq; simp only [List.mem_singleton] at hq; subst hq; exact hr.preInv hi
  | next hr hs _ ih =>
    intro q hq
    rcases List.mem_cons.1 hq with rfl | hq
    · exact hr.preInv hi
    · exact ih (step_preInv hs (hr.preInv hi)) q hq

/-- consequences of `PreInv` for one schedule entry -/
theorem PreInv.entry {p : Path} (hi : p.PreInv) {i : Nat} {s : Sched}
    (hs : p.branches[i]? = some (.sched s)) :
    s.preemptions = refCount (p.branches.take i) ∧
    s.preemptionsNow = refCount (p.branches.take (i + 1)) ∧
    s.preemptions < schedCount p.branches := by
  obtain ⟨hlt, hpi⟩ := List.getElem?_eq_some_iff.1 hs
  have h1 := (hi i s hs).2
  have htake : p.branches.take (i + 1) = p.branches.take i ++ [.sched s] := by
    rw [List.take_add_one, hs]; rfl
  refine ⟨h1, ?_, ?_⟩
  · rw [htake, s.preemptionsNow_eq, h1]
    simp only [refCount, List.countP_append, List.countP_cons, List.countP_nil, Entry.preempted,
      Nat.zero_add]
    by_cases hp : s.preempted = true <;> simp [hp]
  · have h2 := refCount_le_schedCount (p.branches.take i)
    have h3 : schedCount (p.branches.take (i + 1)) ≤ schedCount p.branches := by
      unfold schedCount
      exact (List.take_sublist _ _).countP_le
    rw [htake] at h3
    simp only [schedCount, List.countP_append, List.countP_cons, List.countP_nil,
      Entry.isSched] at h2 h3
    unfold schedCount
    simp at h3
    omega

/-! ### the bound invariant -/

end Path

namespace Sched

/-- with bound `n`: at most `n` preemptions are stored, and a schedule that has used up the
bound has no pending thread and has not been switched -/
def BoundOk (n : Nat) (s : Sched) : Prop :=
  s.preemptions ≤ n ∧
  (s.preemptions = n → (∀ t ∈ s.threads, t.isPending = false) ∧ s.preempted = false)

theorem BoundOk.now_le {n : Nat} {s : Sched} (h : s.BoundOk n) : s.preemptionsNow ≤ n := by
  rw [preemptionsNow_eq]
  rcases Nat.lt_or_ge s.preemptions n with hlt | hge
  · split <;> omega
  · have := h.1
    have heq : s.preemptions = n := by omega
    simp [(h.2 heq).2]; omega

/-- `Schedule::backtrack` on a schedule that satisfies the bound: the assertion holds, and a
schedule at the bound is returned unchanged -/
theorem BoundOk.backtrack {n : Nat} {s s' : Sched} {tid : Nat} (h : s.BoundOk n)
    (hb : s.backtrack tid (some n) = .ok s') : s'.BoundOk n := by
  unfold Sched.backtrack at hb
  split at hb
  · cases hb
  · simp only at hb
    split at hb
    · cases hb
    · split at hb
      · cases hb; exact h
      · rename_i h1 h2
        cases hb
        have hr := mark_rel tid s
        have hp : (backtrack.mark tid s).preemptions = s.preemptions := by rw [hr.fields]
        refine ⟨by rw [hp]; exact h.1, ?_⟩
        intro heq
        rw [hp] at heq
        simp [heq] at h2

theorem BoundOk.backtrack_ne_assert {n : Nat} {s : Sched} {tid : Nat} (h : s.BoundOk n) :
    s.backtrack tid (some n) ≠ .error (.internal 2) := by
  unfold Sched.backtrack
  split
  · simp
  · simp only
    have := h.1
    split
    · omega
    · split <;> simp

/-- a schedule that can be advanced has a pending thread -/
theorem advance_pending {s s' : Sched} (h : s.advance = some s') :
    ∃ t ∈ s.threads, t.isPending = true := by
  cases hn : findIdx? ThSt.isPending s.threads with
  | none => rw [advance_none.2 hn] at h; cases h
  | some i =>
    obtain ⟨hlt, hp, _⟩ := (findIdx?_eq_some _ _ _).1 hn
    exact ⟨_, List.getElem_mem hlt, hp⟩

end Sched

namespace Path

/-- with a preemption bound `n`, every schedule entry satisfies `Sched.BoundOk n` -/
def BoundInv (p : Path) : Prop :=
  ∀ n, p.bound = some n → ∀ s, Entry.sched s ∈ p.branches → s.BoundOk n

/-- seeds as `Execution::schedule` builds them: no thread is `Pending` -/
def SeedOk (seed : List ThSt) : Prop := ThSt.pending ∉ seed

theorem boundInv_new (cap : Nat) (bound : Option Nat) (expl : Bool) :
    (Path.new cap bound expl).BoundInv := by
  intro n _ s h; simp [Path.new] at h

theorem BoundInv.of_branches_eq {p q : Path} (h : p.BoundInv) (hb : q.branches = p.branches)
    (hbd : q.bound = p.bound) : q.BoundInv := by
  unfold BoundInv at *; rw [hb, hbd]; exact h

theorem BoundInv.push {p q : Path} (h : p.BoundInv) {e : Entry}
    (hb : q.branches = p.branches ++ [e]) (hbd : q.bound = p.bound)
    (he : ∀ n s, p.bound = some n → e = .sched s → s.BoundOk n) : q.BoundInv := by
  intro n hn s hs
  rw [hbd] at hn
  rw [hb, List.mem_append, List.mem_singleton] at hs
  rcases hs with hs | hs
  · exact h n hn s hs
  · exact he n s hn hs.symm

theorem BoundInv.nowOfLast_le {p : Path} (h : p.BoundInv) {n : Nat} (hn : p.bound = some n) :
    p.nowOfLast ≤ n := by
  unfold nowOfLast
  cases hj : p.lastSchedule.bind p.schedAt with
  | none => exact Nat.zero_le _
  | some ps =>
    obtain ⟨j, _, hps⟩ := Option.bind_eq_some_iff.1 hj
    have := schedAt_eq_some hps
    exact (h n hn ps (List.mem_of_getElem? this)).now_le

/-- the thread `branch_thread` reports for a fresh schedule is its active thread -/
theorem newThreads_activeIdx (seed : List ThSt) :
    findIdx? ThSt.isActive (newThreads seed) =
      (match findIdx? ThSt.isActive (padTo seed NT .disabled) with
       | some a => some a
       | none => findIdx? (· == ThSt.yield) (padTo seed NT .disabled)) := by
  unfold newThreads
  simp only
  split
  · rename_i a ha; rw [ha]
  · rename_i hn
    rw [hn]
    simp only
    split
    · rename_i y hy
      rw [hy]
      obtain ⟨hlt, _, _⟩ := (findIdx?_eq_some _ _ _).1 hy
      rw [findIdx?_eq_some]
      refine ⟨by simpa using hlt, by simp [ThSt.isActive], ?_⟩
      intro j hj
      have hjl : j < (padTo seed NT ThSt.disabled).length := by omega
      have : ((padTo seed NT ThSt.disabled).set y .active)[j]'(by simpa using hjl) =
          (padTo seed NT ThSt.disabled)[j] := by
        rw [List.getElem_set]; simp; omega
      rw [this]
      exact (findIdx?_eq_none _ _).1 hn _ (List.getElem_mem hjl)
    · rename_i hy; rw [hy, hn]

/-- the thread that is active in a fresh schedule -/
def initAct (seed : List ThSt) : Option Nat :=
  match findIdx? ThSt.isActive (padTo seed NT .disabled) with
  | some a => some a
  | none => findIdx? (· == ThSt.yield) (padTo seed NT .disabled)

theorem newSched_activeIdx (p : Path) (seed : List ThSt) :
    (p.newSched seed).activeIdx = initAct seed := by
  unfold Sched.activeIdx; rw [newSched_threads]; exact newThreads_activeIdx seed

theorem newSched_initialActive (p : Path) (seed : List ThSt) :
    (p.newSched seed).initialActive = none ∨ (p.newSched seed).initialActive = initAct seed := by
  unfold newSched initAct
  simp only
  cases h1 : findIdx? ThSt.isActive (padTo seed NT ThSt.disabled) with
  | some a =>
    simp only
    cases hp : p.lastSchedule.bind p.schedAt with
    | none => right; rfl
    | some ps =>
      simp only
      split
      · left; rfl
      · right; rfl
  | none =>
    simp only
    cases h2 : findIdx? (fun x => x == ThSt.yield) (padTo seed NT ThSt.disabled) with
    | some y =>
      simp only
      cases hp : p.lastSchedule.bind p.schedAt with
      | none => right; rfl
      | some ps =>
        simp only
        split
        · left; rfl
        · right; rfl
    | none =>
      simp only
      cases hp : p.lastSchedule.bind p.schedAt with
      | none => right; rfl
      | some ps =>
        simp only
        split
        · left; rfl
        · right; rfl

theorem newSched_not_preempted (p : Path) (seed : List ThSt) :
    (p.newSched seed).preempted = false := by
  have hact := newSched_activeIdx p seed
  unfold Sched.preempted
  rcases newSched_initialActive p seed with h | h
  · rw [h]
  · cases hi : (p.newSched seed).initialActive with
    | none => rfl
    | some a => rw [hact, ← h, hi]; simp

theorem newThreads_no_pending {seed : List ThSt} (h : SeedOk seed) :
    ∀ t ∈ newThreads seed, t.isPending = false := by
  have hpad : ∀ a ∈ padTo seed NT ThSt.disabled, a.isPending = false := by
    intro a ha
    rcases mem_padTo ha with ha | rfl
    · cases a <;> first | rfl | exact absurd ha h
    · rfl
  unfold newThreads
  simp only
  split
  · exact hpad
  · split
    · intro a ha
      rcases List.mem_or_eq_of_mem_set ha with ha | rfl
      · exact hpad a ha
      · rfl
    · exact hpad

theorem newSched_boundOk {p : Path} {seed : List ThSt} {n : Nat} (h : p.BoundInv)
    (hn : p.bound = some n) (hs : SeedOk seed) : (p.newSched seed).BoundOk n := by
  refine ⟨?_, fun _ => ⟨?_, newSched_not_preempted p seed⟩⟩
  · rw [newSched_preemptions]; exact h.nowOfLast_le hn
  · rw [newSched_threads]; exact newThreads_no_pending hs

theorem BoundInv.setSched {p : Path} (h : p.BoundInv) {i tid : Nat} {s s' : Sched}
    (hs : p.schedAt i = some s) (hb : s.backtrack tid p.bound = .ok s') :
    (p.setSched i s').BoundInv := by
  intro n hn x hx
  have hn : p.bound = some n := hn
  rcases List.mem_or_eq_of_mem_set hx with hx | hx
  · exact h n hn x hx
  · cases hx
    rw [hn] at hb
    exact (h n hn s (List.mem_of_getElem? (schedAt_eq_some hs))).backtrack hb

theorem backtrackConservative_boundInv {p p' : Path} {tid fuel curr : Nat}
    (h : p.backtrackConservative tid fuel curr = .ok p') (hi : p.BoundInv) : p'.BoundInv := by
  induction fuel generalizing curr with
  | zero => unfold backtrackConservative at h; cases h; exact hi
  | succ fuel ih =>
    unfold backtrackConservative at h
    split at h
    · cases h
    · rename_i cs hcs
      have setCase : ∀ {p' : Path},
          (do let cs' ← cs.backtrack tid p.bound; pure (p.setSched curr cs')) = Except.ok p' →
          p'.BoundInv := by
        intro p' h
        cases hb : cs.backtrack tid p.bound with
        | error e => rw [hb] at h; cases h
        | ok cs' => rw [hb] at h; cases h; exact hi.setSched hcs hb
      split at h
      · split at h
        · cases h
        · split at h
          · exact setCase h
          · exact ih h
      · split at h
        · exact setCase h
        · cases h; exact hi

theorem backtrack_boundInv {p p' : Path} {point tid : Nat} (h : p.backtrack point tid = .ok p')
    (hi : p.BoundInv) : p'.BoundInv := by
  unfold backtrack at h
  split at h
  · cases h
  · split at h
    · cases h; exact hi
    · rename_i i s hf
      have hs := findExploringSched_some hf
      cases hb : s.backtrack tid p.bound with
      | error e => rw [hb] at h; cases h
      | ok s' =>
        rw [hb] at h
        have f1 := hi.setSched hs hb
        simp only [bind, Except.bind] at h
        split at h
        · cases h; exact f1
        · split at h
          · exact backtrackConservative_boundInv h f1
          · cases h; exact f1

/-- under the invariant the assertion `self.preemptions <= bound` of `Schedule::backtrack`
never fails inside `Path::backtrack` -/
theorem backtrackConservative_ne_assert {p : Path} {tid fuel curr : Nat} (hi : p.BoundInv) :
    p.backtrackConservative tid fuel curr ≠ .error (.internal 2) := by
  induction fuel generalizing curr with
  | zero => unfold backtrackConservative; simp
  | succ fuel ih =>
    unfold backtrackConservative
    split
    · simp
    · rename_i cs hcs
      have setCase :
          (do let cs' ← cs.backtrack tid p.bound; pure (p.setSched curr cs')) ≠
            (Except.error (.internal 2) : Except Panic Path) := by
        cases hb : cs.backtrack tid p.bound with
        | ok cs' => simp [bind, Except.bind, pure, Except.pure]
        | error e =>
          simp only [bind, Except.bind, ne_eq, Except.error.injEq]
          rintro rfl
          cases hbd : p.bound with
          | none =>
            rw [hbd] at hb
            unfold Sched.backtrack at hb
            split at hb <;> simp at hb
          | some n =>
            rw [hbd] at hb
            exact (hi n hbd cs (List.mem_of_getElem? (schedAt_eq_some hcs))).backtrack_ne_assert hb
      split
      · split
        · simp
        · split
          · exact setCase
          · exact ih
      · split
        · exact setCase
        · simp

theorem backtrack_ne_assert {p : Path} {point tid : Nat} (hi : p.BoundInv) :
    p.backtrack point tid ≠ .error (.internal 2) := by
  unfold backtrack
  split
  · simp
  · split
    · simp
    · rename_i i s hf
      have hs := findExploringSched_some hf
      cases hb : s.backtrack tid p.bound with
      | error e =>
        simp only [bind, Except.bind, ne_eq, Except.error.injEq]
        rintro rfl
        cases hbd : p.bound with
        | none =>
          rw [hbd] at hb
          unfold Sched.backtrack at hb
          split at hb <;> simp at hb
        | some n =>
          rw [hbd] at hb
          exact (hi n hbd s (List.mem_of_getElem? (schedAt_eq_some hs))).backtrack_ne_assert hb
      | ok s' =>
        have f1 := hi.setSched hs hb
        simp only [bind, Except.bind]
        split
        · simp
        · split
          · exact backtrackConservative_ne_assert f1
          · simp

theorem step_boundInv {q p' : Path} (h : q.step = some p') (hi : q.BoundInv) : p'.BoundInv := by
  obtain ⟨pre, e, suf, e', h1, h2, _, rfl⟩ := (step_eq_some _ _).1 h
  intro n hn x hx
  have hn : q.bound = some n := hn
  simp only [restart, List.mem_append, List.mem_singleton] at hx
  rcases hx with hx | hx
  · exact hi n hn x (by rw [h1]; simp [hx])
  · subst hx
    cases e with
    | sched s =>
      obtain ⟨_, s', hs, hx⟩ := Entry.advance_sched h2
      cases hx
      have hb := hi n hn s (by rw [h1]; simp)
      obtain ⟨t, ht, hp⟩ := Sched.advance_pending hs
      have hne : s.preemptions ≠ n := by
        intro heq
        rw [(hb.2 heq).1 t ht] at hp; cases hp
      have hpe := (Sched.advance_fields hs).2.2.1
      refine ⟨by rw [hpe]; exact hb.1, fun heq => absurd (by rw [← hpe]; exact heq) hne⟩
    | load l => obtain ⟨_, _, hx⟩ := Entry.advance_load h2; cases hx
    | spur p => obtain ⟨_, _, hx⟩ := Entry.advance_spur h2; cases hx

/-! ### calls with seeds as built by `Execution::schedule` -/

/-- `Call`, with the seed of `branch_thread` required to contain no `Pending` thread -/
inductive CallS (pk : Bool) : Path → Path → Prop
  | branchThread {p p' : Path} (seed : List ThSt) (r : Option Nat) : SeedOk seed →
      p.branchThread seed pk = .ok (p', r) → CallS pk p p'
  | pushLoad {p p' : Path} (seed : List Nat) : p.pushLoad seed pk = .ok p' → CallS pk p p'
  | branchLoad {p p' : Path} (v : Nat) : p.branchLoad = .ok (p', v) → CallS pk p p'
  | branchSpurious {p p' : Path} (b : Bool) : p.branchSpurious pk = .ok (p', b) → CallS pk p p'
  | backtrack {p p' : Path} (point tid : Nat) : p.backtrack point tid = .ok p' → CallS pk p p'
  | exploreState {p p' : Path} : p.exploreState = .ok p' → CallS pk p p'
  | critical {p p' : Path} : p.critical = .ok p' → CallS pk p p'
  | skipBranch {p : Path} : CallS pk p p.skipBranch

theorem CallS.toCall {pk : Bool} {p p' : Path} (h : CallS pk p p') : Call pk p p' := by
  cases h with
  | branchThread seed r _ h => exact .branchThread seed r h
  | pushLoad seed h => exact .pushLoad seed h
  | branchLoad v h => exact .branchLoad v h
  | branchSpurious b h => exact .branchSpurious b h
  | backtrack point tid h => exact .backtrack point tid h
  | exploreState h => exact .exploreState h
  | critical h => exact .critical h
  | skipBranch => exact .skipBranch

/-- `Iter` over `CallS` -/
inductive IterS (np : Bool) : Path → Path → Prop
  | refl (p : Path) : IterS np p p
  | call {p p' q : Path} (pk : Bool) : (np = true → pk = false) → CallS pk p p' →
      IterS np p' q → IterS np p q

theorem IterS.toIter {np : Bool} {p q : Path} (h : IterS np p q) : Iter np p q := by
  induction h with
  | refl p => exact .refl p
  | call pk hpk hc _ ih => exact .call pk hpk hc.toCall ih

theorem CallS.boundInv {pk : Bool} {p p' : Path} (h : CallS pk p p') (hi : p.BoundInv) :
    p'.BoundInv := by
  cases h with
  | branchThread seed r hs h =>
    rcases branchThread_ok h with rfl | ⟨_, _, _, rfl⟩
    · exact hi.of_branches_eq rfl rfl
    · refine hi.push (e := .sched (p.newSched seed)) ?_ ?_ ?_
      · rfl
      · rfl
      · intro n s hn he; cases he; exact newSched_boundOk hi hn hs
  | pushLoad seed h =>
    obtain ⟨_, _, rfl⟩ := pushLoad_ok h
    refine hi.push (e := .load (p.newLoad seed)) ?_ ?_ (fun _ _ _ he => by cases he) <;> rfl
  | branchLoad v h =>
    obtain ⟨f, e⟩ := branchLoad_frame h; exact hi.of_branches_eq e f.bound
  | branchSpurious b h =>
    rcases branchSpurious_ok h with rfl | ⟨_, rfl⟩
    · exact hi.of_branches_eq rfl rfl
    · refine hi.push (e := .spur { spur := false, exploring := p.exploring }) ?_ ?_
        (fun _ _ _ he => by cases he) <;> rfl
  | backtrack point tid h => exact backtrack_boundInv h hi
  | exploreState h =>
    obtain ⟨f, e⟩ := exploreState_frame h; exact hi.of_branches_eq e f.bound
  | critical h =>
    obtain ⟨f, e⟩ := critical_frame h; exact hi.of_branches_eq e f.bound
  | skipBranch => exact hi.of_branches_eq rfl rfl

/-- every stack `Builder::check` can produce: `Path::new`, API calls (with seeds as built by
`Execution::schedule`), `Path::step` -/
inductive Reach (cap : Nat) (bound : Option Nat) (expl : Bool) : Path → Prop
  | init : Reach cap bound expl (Path.new cap bound expl)
  | call {p p' : Path} (pk : Bool) : Reach cap bound expl p → CallS pk p p' →
      Reach cap bound expl p'
  | step {p p' : Path} : Reach cap bound expl p → p.step = some p' → Reach cap bound expl p'

theorem Reach.iter {cap : Nat} {bound : Option Nat} {expl np : Bool} {p q : Path}
    (hp : Reach cap bound expl p) (h : IterS np p q) : Reach cap bound expl q := by
  induction h with
  | refl p => exact hp
  | call pk _ hc _ ih => exact ih (hp.call pk hc)

theorem Reach.explore {cap : Nat} {bound : Option Nat} {expl np : Bool} {p : Path}
    {qs : List Path} (hp : Reach cap bound expl p) (h : Explore (IterS np) p qs) :
    ∀ q ∈ qs, Reach cap bound expl q := by
  induction h with
  | last hr => intro q hq; simp only [List.mem_singleton] at hq; subst hq; exact hp.iter hr
  | next hr hs _ ih =>
    intro q hq
    rcases List.mem_cons.1 hq with rfl | hq
    · exact hp.iter hr
    · exact ih ((hp.iter hr).step hs) q hq

theorem Reach.inv {cap : Nat} {bound : Option Nat} {expl : Bool} {p : Path}
    (h : Reach cap bound expl p) : p.PreInv ∧ p.BoundInv ∧ p.bound = bound := by
  induction h with
  | init => exact ⟨preInv_new _ _ _, boundInv_new _ _ _, rfl⟩
  | call pk _ hc ih =>
    exact ⟨hc.toCall.preInv ih.1, hc.boundInv ih.2.1, (hc.toCall.frame.1.bound).trans ih.2.2⟩
  | step _ hs ih =>
    exact ⟨step_preInv hs ih.1, step_boundInv hs ih.2.1, (step_fields hs).2.1.trans ih.2.2⟩

end Path

/-! ### the seeds of `Execution::schedule` -/

theorem Exec.seed_go_ok (ths : List Thread) (i : Nat) (ini : Option Nat) :
    ThSt.pending ∉ (Exec.seed.go ths i ini).1 := by
  induction ths generalizing i ini with
  | nil => simp [Exec.seed.go]
  | cons th rest ih =>
    simp only [Exec.seed.go, List.mem_cons, not_or]
    refine ⟨?_, ih _ _⟩
    (repeat' split) <;> simp

theorem Exec.seed_ok (ths : List Thread) (ini : Option Nat) : Path.SeedOk (Exec.seed ths ini) :=
  Exec.seed_go_ok ths 0 ini

end LoomVerif

namespace LoomVerif

/-! ### a bound that is not reached never cuts -/

namespace Sched

theorem backtrack_none {s : Sched} (tid : Nat) (hx : s.exploring = true) :
    s.backtrack tid none = .ok (backtrack.mark tid s) := by
  unfold backtrack; simp [hx]

theorem backtrack_of_lt {s : Sched} {n : Nat} (tid : Nat) (hx : s.exploring = true)
    (h : s.preemptions < n) : s.backtrack tid (some n) = .ok (backtrack.mark tid s) := by
  unfold backtrack
  have h1 : ¬ s.preemptions > n := by omega
  have h2 : (s.preemptions == n) = false := by simp; omega
  simp [hx, h1, h2]

theorem backtrack_of_eq {s : Sched} {n : Nat} (tid : Nat) (hx : s.exploring = true)
    (h : s.preemptions = n) : s.backtrack tid (some n) = .ok s := by
  unfold backtrack
  simp [hx, h]

end Sched

end LoomVerif

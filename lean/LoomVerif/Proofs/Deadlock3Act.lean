/-
Deadlock soundness, FUTURES fragment, part 12: a path to replay can name a thread that is blocked or terminated;
its stage then fails with a panic other than "deadlock": `Notify::wait` on a clear flag panics "not notified", the
lock of a held mutex panics "expected to be able to acquire lock", the epilogue of a terminated thread fails.
-/
import LoomVerif.Proofs.Deadlock3Ops4

set_option linter.unusedSimpArgs false
set_option linter.unusedVariables false

namespace LoomVerif
namespace Deadlock3
open Refine Refine4 Deadlock Deadlock2

theorem wposT_slotM {op : Op} {st f : Nat} (h : wposT op st = some (.slotM f)) :
    (∃ m, op = .blockOn f m ∧ (st = 30 ∨ st = 45)) ∨ (op = .wake f ∧ st = 2) ∨ (op = .wakeRef f ∧ st = 2) ∨
    (op = .wakeQ f ∧ st = 2) ∨ (op = .dropWaker f ∧ st = 1) := by
  unfold wposT at h
  split at h <;> simp_all

theorem wposT_awM {op : Op} {st f : Nat} (h : wposT op st = some (.awM f)) :
    (∃ m, op = .blockOn f m ∧ st = 44) ∨ (op = .awWake f ∧ st = 2) ∨ (op = .awTake f ∧ st = 1) := by
  unfold wposT at h
  split at h <;> simp_all

theorem ov_mutex_inv {objs : List Obj} {o : Nat} {l : Option Nat} (h : (objs.map ov4)[o]? = some (.mutex l)) :
    ∃ m, objs[o]? = some (.mutex m) ∧ m.lock = l := by
  rw [List.getElem?_map] at h
  cases hx : objs[o]? with
  | none => rw [hx] at h; cases h
  | some x =>
    rw [hx] at h
    cases x <;> simp [ov4] at h
    exact ⟨_, rfl, h⟩

theorem ov_notify_inv {objs : List Obj} {o : Nat} {a b d : Bool} (h : (objs.map ov4)[o]? = some (.notify a b d)) :
    ∃ ns, objs[o]? = some (.notify ns) ∧ ns.notified = b := by
  rw [List.getElem?_map] at h
  cases hx : objs[o]? with
  | none => rw [hx] at h; cases h
  | some x =>
    rw [hx] at h
    cases x <;> simp [ov4] at h
    exact ⟨_, rfl, h.2.1⟩

section
variable {w : World} {s : SC.St}

/-- a stage that starts with the lock of a held mutex fails -/
theorem lock_fails {o : Nat} {f : World × Bool → Except Panic World} (hpa : w.postAcquire o = .ok (w, false))
    (hf : f (w, false) = .error .expectedLock) :
    ∃ e, (w.postAcquire o >>= f) = .error e ∧ e ≠ .deadlock := by
  rw [hpa]
  exact ⟨_, hf, by simp⟩

/-- **the thread that takes a stage that does not fail with a panic other than "deadlock" is neither blocked nor
terminated** -/
theorem active_running4 (hwf : WFD w.prog) (hRB : RB4 w s) (hact : w.tid < w.ctl.length)
    (hne : ∀ e, w.stepActive = .error e → e = .deadlock) :
    (w.ths.get w.tid).state ≠ .blocked ∧ (w.ths.get w.tid).state ≠ .terminated := by
  have hR := hRB.r
  have hJ := hRB.j
  have h0 := hJ.thr _ hact
  constructor
  · intro hb
    obtain ⟨op, ho, hbl, hun⟩ := hJ.g _ hb
    have ho' : (w.ths.get w.tid).operation = some op := ho
    have hO := h0.blk hb
    rw [ho'] at hO
    cases hw : wpos w.prog (w.ctlOf w.tid) with
    | none => rw [hO.nowait hw] at hbl; cases hbl
    | some x =>
      have hopn : opOfCtl w.prog (w.ctlOf w.tid) ≠ none := by
        intro e; rw [wpos_none e] at hw; cases hw
      unfold OpAt4 at hO
      rw [hw] at hO
      -- the stage fails
      have key : ∃ e, w.stepActive = .error e ∧ e ≠ .deadlock := by
        cases x with
        | join b =>
          obtain ⟨t, n, bl, hmem, e⟩ := hO
          cases e
          obtain ⟨hopc, hst⟩ := wpos_join hw
          have hop : opAt w = some (.join b) := hopc
          rw [Refine4.stepActive_op hop, Sy.runOp_join]
          cases hl : w.lookupSpawn b with
          | error e => exact ⟨e, rfl, (lookupSpawn_noDL w b).h e hl⟩
          | ok r =>
            obtain ⟨t', n'⟩ := r
            have hmem' := Refine4.lookupSpawn_mem hl
            have := hJ.spb _ _ hmem' hmem rfl
            simp only [Prod.mk.injEq] at this
            obtain ⟨_, _, rfl⟩ := this
            obtain ⟨_, _, nt, ds, hv, _⟩ := hR.sp.sp b t' n' hmem'
            have hv' : (ovW w)[n']? = some (.notify false nt ds) := hv
            have hnt : nt = false := by
              rcases hun with ⟨l, hl'⟩ | ⟨sp, d2, hn⟩
              · rw [hv'] at hl'; cases hl'
              · rw [hv'] at hn; cases hn; rfl
            subst hnt
            obtain ⟨ns, hns, hnn⟩ := ov_notify_inv hv'
            refine ⟨.notNotified, ?_, by simp⟩
            show (Except.ok (t', n') >>= _) = _
            simp only [bind, Except.bind, hst, C08.notifyWait2_unnotified hns hnn]
        | call f =>
          obtain ⟨bl, e⟩ := hO
          cases e
          obtain ⟨md, hopc, hst⟩ := wpos_call hw
          have hop : opAt w = some (.blockOn f md) := hopc
          obtain ⟨_, nt, ds, hv, _⟩ := hR.no_lost_wakeup hwf.1 w.tid hact hopc hst
          have hv' : (ovW w)[(w.futs.getD f {}).notify]? = some (.notify true nt ds) := hv
          have hnt : nt = false := by
            rcases hun with ⟨l, hl'⟩ | ⟨sp, d2, hn⟩
            · rw [hv'] at hl'; cases hl'
            · rw [hv'] at hn; cases hn; rfl
          subst hnt
          obtain ⟨ns, hns, hnn⟩ := ov_notify_inv hv'
          refine ⟨.notNotified, ?_, by simp⟩
          rw [Refine4.stepActive_op hop]
          show w.blockOnStage (w.ctlOf w.tid) f md = _
          rcases hst with hst | hst
          · rw [C20.blockOn_stage16 w _ f md hst, C08.notifyWait2_unnotified hns hnn]; rfl
          · rw [C20.blockOn_stage53 w _ f md hst, C08.notifyWait2_unnotified hns hnn]; rfl
        | slotM f =>
          cases hO
          obtain ⟨op', k, hop', hk⟩ := wpos_mutex (.inl hw)
          have hf := opOk4_fut (hwf.1.opOk hop') hk
          obtain ⟨⟨l, hl⟩, _⟩ := hJ.mtx f hf
          have hmS : (w.futs.getD f {}).slotMutex = mbase w.prog + 2 * f := (hR.f.s.mtx f hf).1
          have hheld : ∃ t, (ovW w)[mbase w.prog + 2 * f]? = some (.mutex (some t)) := by
            rcases hun with ⟨t, ht⟩ | ⟨sp, d2, hn⟩
            · exact ⟨t, ht⟩
            · rw [hl] at hn; cases hn
          obtain ⟨t, ht⟩ := hheld
          obtain ⟨mm, hmm, hlk⟩ := ov_mutex_inv ht
          have hpa : w.postAcquire (w.futs.getD f {}).slotMutex = .ok (w, false) := by
            rw [hmS]; exact C07.postAcquire_held hmm (by rw [hlk]; rfl)
          have hop : opAt w = some op' := hop'
          rw [wpos_of hop'] at hw
          rcases wposT_slotM hw with ⟨m, rfl, hst | hst⟩ | ⟨rfl, hst⟩ | ⟨rfl, hst⟩ | ⟨rfl, hst⟩ | ⟨rfl, hst⟩
          · rw [Refine4.stepActive_op hop]
            show ∃ e, w.blockOnStage (w.ctlOf w.tid) f m = .error e ∧ _
            rw [C20.blockOn_stage30 w _ f m hst]
            exact lock_fails hpa rfl
          · rw [Refine4.stepActive_op hop]
            show ∃ e, w.blockOnStage (w.ctlOf w.tid) f m = .error e ∧ _
            rw [C20.blockOn_stage45 w _ f m hst]
            exact lock_fails hpa rfl
          · rw [Refine4.stepActive_op hop]
            show ∃ e, w.wakeStage (w.ctlOf w.tid) f true true = .error e ∧ _
            rw [C20.wake_stage2 w _ f true true hst]
            exact lock_fails hpa rfl
          · rw [Refine4.stepActive_op hop]
            show ∃ e, w.wakeStage (w.ctlOf w.tid) f false true = .error e ∧ _
            rw [C20.wake_stage2 w _ f false true hst]
            exact lock_fails hpa rfl
          · rw [Refine4.stepActive_op hop, C20.wakeQ_eq, C20.wake_stage2 w _ f false false hst]
            exact lock_fails hpa rfl
          · rw [Refine4.stepActive_op hop, C20.dropWaker_stage1 w _ f hst]
            exact lock_fails hpa rfl
        | awM f =>
          cases hO
          obtain ⟨op', k, hop', hk⟩ := wpos_mutex (.inr hw)
          have hf := opOk4_fut (hwf.1.opOk hop') hk
          obtain ⟨_, ⟨l, hl⟩⟩ := hJ.mtx f hf
          have hmA : (w.futs.getD f {}).awMutex = mbase w.prog + 2 * f + 1 := (hR.f.s.mtx f hf).2
          have hheld : ∃ t, (ovW w)[mbase w.prog + 2 * f + 1]? = some (.mutex (some t)) := by
            rcases hun with ⟨t, ht⟩ | ⟨sp, d2, hn⟩
            · exact ⟨t, ht⟩
            · rw [hl] at hn; cases hn
          obtain ⟨t, ht⟩ := hheld
          obtain ⟨mm, hmm, hlk⟩ := ov_mutex_inv ht
          have hpa : w.postAcquire (w.futs.getD f {}).awMutex = .ok (w, false) := by
            rw [hmA]; exact C07.postAcquire_held hmm (by rw [hlk]; rfl)
          have hop : opAt w = some op' := hop'
          rw [wpos_of hop'] at hw
          rcases wposT_awM hw with ⟨m, rfl, hst⟩ | ⟨rfl, hst⟩ | ⟨rfl, hst⟩
          · rw [Refine4.stepActive_op hop]
            show ∃ e, w.blockOnStage (w.ctlOf w.tid) f m = .error e ∧ _
            rw [C20.blockOn_stage44 w _ f m hst]
            exact lock_fails hpa rfl
          · rw [Refine4.stepActive_op hop, C20.awWake_stage2 w _ f hst]
            exact lock_fails hpa rfl
          · rw [Refine4.stepActive_op hop, C20.awTake_stage1 w _ f hst]
            exact lock_fails hpa rfl
      obtain ⟨e, he, hnd⟩ := key
      exact hnd (hne e he)
  · intro ht
    have h99 := h0.term ht
    have hnone : opAt w = none := hR.x.epi w.tid hact (by
      show (w.ctlOf w.tid).fin ≠ 0
      omega)
    have : w.stepActive = .error (.internal 85) := by
      rw [Refine4.stepActive_none hnone, Sy.runEpilogue_finish w _ (by omega)]
      unfold World.finishThread
      rw [if_pos (by omega)]
      rfl
    have := hne _ this
    cases this

end

end Deadlock3
end LoomVerif

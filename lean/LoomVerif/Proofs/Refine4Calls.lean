/-
Refinement, FUTURES fragment, part 7: the group `GC` of the relation (the calls of `block_on` in progress: the flag of
the call's `Notify` ⟺ `notified` up to the notifications in flight, its spurious budget ⟺ `spurUsed`, the
registrations that belong to it) is kept along the changes the stages of the fragment make.
-/
import LoomVerif.Proofs.Refine4Groups

set_option linter.unusedSimpArgs false
set_option linter.unusedVariables false

namespace LoomVerif
namespace Refine4
open Refine Sy

variable {p : Prog} {n : Nat} {pa : Nat → Option Nat} {ca : Nat → Option (Nat × Nat × Bool)}
  {futs : List FutSt} {nv : Nat → Option (Bool × Bool × Bool)} {df : List DFut}

/-- more objects, the known ones unchanged -/
theorem GC.nvMono {nv' : Nat → Option (Bool × Bool × Bool)} (h : GC p n pa ca futs nv df)
    (hnv : ∀ k x, nv k = some x → nv' k = some x) : GC p n pa ca futs nv' df := by
  refine ⟨?_, h.slotCall, h.callInj, h.awOther, ?_⟩
  · intro i f m b hi hc
    obtain ⟨hf, nt, ds, h1, h2⟩ := h.call i f m b hi hc
    exact ⟨hf, nt, ds, hnv _ _ h1, h2⟩
  · intro j k hj hk
    obtain ⟨nt, ds, h1⟩ := h.pendOk j k hj hk
    exact ⟨nt, ds, hnv _ _ h1⟩

/-- a new thread, without attributes -/
theorem GC.succ (h : GC p n pa ca futs nv df) (hp : pa n = none) (hc : ca n = none) :
    GC p (n + 1) pa ca futs nv df := by
  have lt : ∀ i, i < n + 1 → i < n ∨ i = n := by intro i hi; omega
  refine ⟨?_, ?_, ?_, ?_, ?_⟩
  · intro i f m b hi hci
    rcases lt i hi with hi' | rfl
    · obtain ⟨hf, nt, ds, h1, h2, h3, h4⟩ := h.call i f m b hi' hci
      refine ⟨hf, nt, ds, h1, h2, ?_, h4⟩
      rw [h3]
      constructor
      · rintro (e | ⟨j, hj, hj'⟩)
        · exact .inl e
        · exact .inr ⟨j, by omega, hj'⟩
      · rintro (e | ⟨j, hj, hj'⟩)
        · exact .inl e
        · rcases lt j hj with hj2 | rfl
          · exact .inr ⟨j, hj2, hj'⟩
          · rw [hp] at hj'; cases hj'
    · rw [hc] at hci; cases hci
  · intro f hf hs
    obtain ⟨i, m, b, hi, h1⟩ := h.slotCall f hf hs
    exact ⟨i, m, b, by omega, h1⟩
  · intro i j f g m m' b b' hi hj h1 h2
    rcases lt i hi with hi' | rfl
    · rcases lt j hj with hj' | rfl
      · exact h.callInj i j f g m m' b b' hi' hj' h1 h2
      · rw [hc] at h2; cases h2
    · rw [hc] at h1; cases h1
  · intro g i f m b hg hw hi h1
    rcases lt i hi with hi' | rfl
    · exact h.awOther g i f m b hg hw hi' h1
    · rw [hc] at h1; cases h1
  · intro j k hj hk
    rcases lt j hj with hj' | rfl
    · exact h.pendOk j k hj' hk
    · rw [hp] at hk; cases hk

/-- **a new call** of `blockOn f mode` by thread `a`: a fresh `Notify` -/
theorem GC.newCall (h : GC p n pa ca futs nv df) {a f m k : Nat} (ha : a < n) (hf : f < p.cfg.nFutures)
    (hlen : futs.length = p.cfg.nFutures) (hdlen : df.length = p.cfg.nFutures)
    (hca : ca a = none) (hU : ∀ i m b, i < n → ca i ≠ some (f, m, b)) (hk : nv k = none)
    (G : FutSt → FutSt)
    (hG : (G (futs.getD f {})).notify = k ∧ (G (futs.getD f {})).slot = (futs.getD f {}).slot ∧
      (G (futs.getD f {})).awWaker = (futs.getD f {}).awWaker ∧
      (G (futs.getD f {})).awNotify = (futs.getD f {}).awNotify)
    (hnvA : ∀ g, g < p.cfg.nFutures → (futs.getD g {}).awWaker = true → nv (futs.getD g {}).awNotify ≠ none) :
    GC p n pa (upd ca a (some (f, m, false))) (futs.modify f G) (upd nv k (some (true, false, false)))
      (df.modify f newCallF) := by
  have hfl : f < futs.length := by rw [hlen]; exact hf
  have hdl : f < df.length := by rw [hdlen]; exact hf
  have hnvk : ∀ k' x, nv k' = some x → upd nv k (some (true, false, false)) k' = some x := by
    intro k' x hx
    have : k' ≠ k := by intro e; subst e; rw [hk] at hx; cases hx
    rw [upd_ne _ _ this]; exact hx
  -- a thread other than `a` in a call: on a future other than `f`
  have other : ∀ i f' m' b', i < n → upd ca a (some (f, m, false)) i = some (f', m', b') → i ≠ a →
      ca i = some (f', m', b') ∧ f' ≠ f := by
    intro i f' m' b' hi hc hne
    rw [upd_ne _ _ hne] at hc
    refine ⟨hc, ?_⟩
    intro e; subst e
    exact hU i m' b' hi hc
  have noPend : ∀ j, j < n → pa j ≠ some k := by
    intro j hj e
    obtain ⟨nt, ds, h1⟩ := h.pendOk j k hj e
    rw [hk] at h1; cases h1
  refine ⟨?_, ?_, ?_, ?_, ?_⟩
  · intro i f' m' b' hi hc
    by_cases e : i = a
    · subst e
      rw [upd_self] at hc
      cases hc
      rw [getD_modify_self _ _ _ _ hfl, getD_modify_self _ _ _ _ hdl, hG.1]
      refine ⟨hf, false, false, upd_self _ _ _, rfl, ?_, fun _ => rfl⟩
      · constructor
        · intro e; cases e
        · rintro (e | ⟨j, hj, hj'⟩)
          · cases e
          · exact absurd hj' (noPend j hj)
    · obtain ⟨hc', hne⟩ := other i f' m' b' hi hc e
      obtain ⟨hf', nt, ds, h1, h2, h3, h4⟩ := h.call i f' m' b' hi hc'
      rw [getD_modify_ne _ _ _ _ _ hne, getD_modify_ne _ _ _ _ _ hne]
      exact ⟨hf', nt, ds, hnvk _ _ h1, h2, h3, h4⟩
  · intro f' hf' hs
    by_cases e : f' = f
    · subst e
      rw [getD_modify_self _ _ _ _ hfl, hG.2.1] at hs
      obtain ⟨i, m', b', hi, h1⟩ := h.slotCall f' hf' hs
      exact absurd h1 (hU i m' b' hi)
    · rw [getD_modify_ne _ _ _ _ _ e] at hs
      obtain ⟨i, m', b', hi, h1⟩ := h.slotCall f' hf' hs
      have : i ≠ a := by intro e'; subst e'; rw [hca] at h1; cases h1
      exact ⟨i, m', b', hi, by rw [upd_ne _ _ this]; exact h1⟩
  · intro i j f1 f2 m1 m2 b1 b2 hi hj h1 h2 hn
    by_cases ei : i = a <;> by_cases ej : j = a
    · subst ei; subst ej
      rw [upd_self] at h1 h2
      cases h1; cases h2; rfl
    · subst ei
      rw [upd_self] at h1
      cases h1
      obtain ⟨h2', hne⟩ := other j f2 m2 b2 hj h2 ej
      rw [getD_modify_self _ _ _ _ hfl, getD_modify_ne _ _ _ _ _ hne, hG.1] at hn
      obtain ⟨_, nt, ds, hx, _⟩ := h.call j f2 m2 b2 hj h2'
      rw [← hn, hk] at hx; cases hx
    · subst ej
      rw [upd_self] at h2
      cases h2
      obtain ⟨h1', hne⟩ := other i f1 m1 b1 hi h1 ei
      rw [getD_modify_self _ _ _ _ hfl, getD_modify_ne _ _ _ _ _ hne, hG.1] at hn
      obtain ⟨_, nt, ds, hx, _⟩ := h.call i f1 m1 b1 hi h1'
      rw [hn, hk] at hx; cases hx
    · obtain ⟨h1', hne1⟩ := other i f1 m1 b1 hi h1 ei
      obtain ⟨h2', hne2⟩ := other j f2 m2 b2 hj h2 ej
      rw [getD_modify_ne _ _ _ _ _ hne1, getD_modify_ne _ _ _ _ _ hne2] at hn
      exact h.callInj i j f1 f2 m1 m2 b1 b2 hi hj h1' h2' hn
  · intro g i f' m' b' hg hw hi hc hn
    have hw' : (futs.getD g {}).awWaker = true ∧ ((futs.modify f G).getD g {}).awNotify = (futs.getD g {}).awNotify := by
      by_cases eg : g = f
      · subst eg
        rw [getD_modify_self _ _ _ _ hfl, hG.2.2.1] at hw
        rw [getD_modify_self _ _ _ _ hfl, hG.2.2.2]
        exact ⟨hw, rfl⟩
      · rw [getD_modify_ne _ _ _ _ _ eg] at hw ⊢
        exact ⟨hw, rfl⟩
    rw [hw'.2] at hn
    by_cases e : i = a
    · subst e
      rw [upd_self] at hc
      cases hc
      rw [getD_modify_self _ _ _ _ hfl, hG.1] at hn
      exact absurd (by rw [← hn]; exact hk) (hnvA g hg hw'.1)
    · obtain ⟨hc', hne⟩ := other i f' m' b' hi hc e
      rw [getD_modify_ne _ _ _ _ _ hne] at hn
      exact h.awOther g i f' m' b' hg hw'.1 hi hc' hn
  · intro j k' hj hk'
    obtain ⟨nt, ds, h1⟩ := h.pendOk j k' hj hk'
    exact ⟨nt, ds, hnvk _ _ h1⟩

/-- the registration of future `f` changes (registered by the call in progress, or taken away); no notification is
generated, the fields of the reference's record the group reads are kept -/
theorem GC.futStep (h : GC p n pa ca futs nv df) {f : Nat} (hf : f < p.cfg.nFutures)
    (hlen : futs.length = p.cfg.nFutures) (hdlen : df.length = p.cfg.nFutures)
    (G : FutSt → FutSt) (g : DFut → DFut)
    (hn : (G (futs.getD f {})).notify = (futs.getD f {}).notify)
    (hg : (g (df.getD f {})).notified = (df.getD f {}).notified ∧
      (g (df.getD f {})).spurUsed = (df.getD f {}).spurUsed ∧ (g (df.getD f {})).polled = (df.getD f {}).polled)
    (hS : (G (futs.getD f {})).slot = true → ∃ i m b, i < n ∧ ca i = some (f, m, b))
    (hA : (G (futs.getD f {})).awWaker = true →
      ((G (futs.getD f {})).awNotify = (futs.getD f {}).notify ∧ ∃ i m b, i < n ∧ ca i = some (f, m, b)) ∨
      ((futs.getD f {}).awWaker = true ∧ (G (futs.getD f {})).awNotify = (futs.getD f {}).awNotify)) :
    GC p n pa ca (futs.modify f G) nv (df.modify f g) := by
  have hfl : f < futs.length := by rw [hlen]; exact hf
  have hdl : f < df.length := by rw [hdlen]; exact hf
  have notify_eq : ∀ f', ((futs.modify f G).getD f' {}).notify = (futs.getD f' {}).notify := by
    intro f'
    by_cases e : f' = f
    · subst e; rw [getD_modify_self _ _ _ _ hfl]; exact hn
    · rw [getD_modify_ne _ _ _ _ _ e]
  refine ⟨?_, ?_, ?_, ?_, h.pendOk⟩
  · intro i f' m b hi hc
    obtain ⟨hf', nt, ds, h1, h2, h3, h4⟩ := h.call i f' m b hi hc
    rw [notify_eq]
    refine ⟨hf', nt, ds, h1, ?_, ?_, ?_⟩
    · by_cases e : f' = f
      · subst e; rw [getD_modify_self _ _ _ _ hdl, hg.2.1]; exact h2
      · rw [getD_modify_ne _ _ _ _ _ e]; exact h2
    · by_cases e : f' = f
      · subst e; rw [getD_modify_self _ _ _ _ hdl, hg.1]; exact h3
      · rw [getD_modify_ne _ _ _ _ _ e]; exact h3
    · by_cases e : f' = f
      · subst e; rw [getD_modify_self _ _ _ _ hdl, hg.2.2]; exact h4
      · rw [getD_modify_ne _ _ _ _ _ e]; exact h4
  · intro f' hf' hs
    by_cases e : f' = f
    · subst e
      rw [getD_modify_self _ _ _ _ hfl] at hs
      exact hS hs
    · rw [getD_modify_ne _ _ _ _ _ e] at hs
      exact h.slotCall f' hf' hs
  · intro i j f1 f2 m1 m2 b1 b2 hi hj h1 h2 hne
    rw [notify_eq, notify_eq] at hne
    exact h.callInj i j f1 f2 m1 m2 b1 b2 hi hj h1 h2 hne
  · intro g' i f' m b hg' hw hi hc hne
    rw [notify_eq] at hne
    by_cases e : g' = f
    · subst e
      rw [getD_modify_self _ _ _ _ hfl] at hw hne
      rcases hA hw with ⟨h1, i0, m0, b0, hi0, hc0⟩ | ⟨h1, h2⟩
      · rw [h1] at hne
        exact h.callInj i i0 f' g' m m0 b b0 hi hi0 hc hc0 hne
      · rw [h2] at hne
        exact h.awOther g' i f' m b hg' h1 hi hc hne
    · rw [getD_modify_ne _ _ _ _ _ e] at hw hne
      exact h.awOther g' i f' m b hg' hw hi hc hne

/-- the call of thread `a` on future `f` is over (in the reference) -/
theorem GC.leave (h : GC p n pa ca futs nv df) {a f m : Nat} {b : Bool} (ha : a < n) (hf : f < p.cfg.nFutures)
    (hlen : futs.length = p.cfg.nFutures)
    (hca : ca a = some (f, m, b)) (hU : ∀ i m' b', i < n → ca i = some (f, m', b') → i = a)
    (G : FutSt → FutSt) (g : DFut → DFut)
    (hS : (G (futs.getD f {})).slot = false)
    (hA : (G (futs.getD f {})).awWaker = true →
      (futs.getD f {}).awWaker = true ∧ (G (futs.getD f {})).awNotify = (futs.getD f {}).awNotify) :
    GC p n pa (upd ca a none) (futs.modify f G) nv (df.modify f g) := by
  have hfl : f < futs.length := by rw [hlen]; exact hf
  have other : ∀ i f' m' b', i < n → upd ca a none i = some (f', m', b') →
      i ≠ a ∧ ca i = some (f', m', b') ∧ f' ≠ f := by
    intro i f' m' b' hi hc
    have hne : i ≠ a := by intro e; subst e; rw [upd_self] at hc; cases hc
    rw [upd_ne _ _ hne] at hc
    refine ⟨hne, hc, ?_⟩
    intro e; subst e
    exact hne (hU i m' b' hi hc)
  refine ⟨?_, ?_, ?_, ?_, h.pendOk⟩
  · intro i f' m' b' hi hc
    obtain ⟨_, hc', hne⟩ := other i f' m' b' hi hc
    rw [getD_modify_ne _ _ _ _ _ hne, getD_modify_ne _ _ _ _ _ hne]
    exact h.call i f' m' b' hi hc'
  · intro f' hf' hs
    by_cases e : f' = f
    · subst e
      rw [getD_modify_self _ _ _ _ hfl, hS] at hs; cases hs
    · rw [getD_modify_ne _ _ _ _ _ e] at hs
      obtain ⟨i, m', b', hi, h1⟩ := h.slotCall f' hf' hs
      have : i ≠ a := by
        intro e'; subst e'; rw [hca] at h1; cases h1; exact e rfl
      exact ⟨i, m', b', hi, by rw [upd_ne _ _ this]; exact h1⟩
  · intro i j f1 f2 m1 m2 b1 b2 hi hj h1 h2 hne
    obtain ⟨_, h1', hne1⟩ := other i f1 m1 b1 hi h1
    obtain ⟨_, h2', hne2⟩ := other j f2 m2 b2 hj h2
    rw [getD_modify_ne _ _ _ _ _ hne1, getD_modify_ne _ _ _ _ _ hne2] at hne
    exact h.callInj i j f1 f2 m1 m2 b1 b2 hi hj h1' h2' hne
  · intro g' i f' m' b' hg' hw hi hc hne
    obtain ⟨_, hc', hne'⟩ := other i f' m' b' hi hc
    rw [getD_modify_ne _ _ _ _ _ hne'] at hne
    by_cases e : g' = f
    · subst e
      rw [getD_modify_self _ _ _ _ hfl] at hw hne
      obtain ⟨h1, h2⟩ := hA hw
      rw [h2] at hne
      exact h.awOther g' i f' m' b' hg' h1 hi hc' hne
    · rw [getD_modify_ne _ _ _ _ _ e] at hw hne
      exact h.awOther g' i f' m' b' hg' hw hi hc' hne

/-- thread `a` stays in its call on `f`; the flags of the call's `Notify` and of the reference's record change
together -/
theorem GC.callStep (h : GC p n pa ca futs nv df) {a f m : Nat} {b b' nt' ds' : Bool} (ha : a < n)
    (hdlen : df.length = p.cfg.nFutures)
    (hca : ca a = some (f, m, b)) (hU : ∀ i m' b1, i < n → ca i = some (f, m', b1) → i = a) (g : DFut → DFut)
    (hsp : (g (df.getD f {})).spurUsed = ds')
    (hnt : (g (df.getD f {})).notified = true ↔
      (nt' = true ∨ ∃ j, j < n ∧ pa j = some (futs.getD f {}).notify))
    (hpo : m = 5 → (g (df.getD f {})).polled = b') :
    GC p n pa (upd ca a (some (f, m, b'))) futs (upd nv (futs.getD f {}).notify (some (true, nt', ds')))
      (df.modify f g) := by
  obtain ⟨hf, nt0, ds0, hnv0, _⟩ := h.call a f m b ha hca
  have hdl : f < df.length := by rw [hdlen]; exact hf
  -- a thread other than `a` in a call: on another future, whose `Notify` is another object
  have other : ∀ i f' m' b1, i < n → upd ca a (some (f, m, b')) i = some (f', m', b1) → i ≠ a →
      ca i = some (f', m', b1) ∧ f' ≠ f ∧ (futs.getD f' {}).notify ≠ (futs.getD f {}).notify := by
    intro i f' m' b1 hi hc hne
    rw [upd_ne _ _ hne] at hc
    have hff : f' ≠ f := by
      intro e; subst e
      exact hne (hU i m' b1 hi hc)
    exact ⟨hc, hff, fun e => hff (h.callInj i a f' f m' m b1 b hi ha hc hca e)⟩
  have hnvk : ∀ k x, nv k = some x → k ≠ (futs.getD f {}).notify →
      upd nv (futs.getD f {}).notify (some (true, nt', ds')) k = some x := by
    intro k x hx hne
    rw [upd_ne _ _ hne]; exact hx
  refine ⟨?_, ?_, ?_, ?_, ?_⟩
  · intro i f' m' b1 hi hc
    by_cases e : i = a
    · subst e
      rw [upd_self] at hc
      cases hc
      rw [getD_modify_self _ _ _ _ hdl]
      exact ⟨hf, nt', ds', upd_self _ _ _, hsp, hnt, hpo⟩
    · obtain ⟨hc', hff, hnn⟩ := other i f' m' b1 hi hc e
      obtain ⟨hf', nt, ds, h1, h2, h3, h4⟩ := h.call i f' m' b1 hi hc'
      rw [getD_modify_ne _ _ _ _ _ hff]
      exact ⟨hf', nt, ds, hnvk _ _ h1 hnn, h2, h3, h4⟩
  · intro f' hf' hs
    obtain ⟨i, m', b1, hi, h1⟩ := h.slotCall f' hf' hs
    by_cases e : i = a
    · subst e
      rw [hca] at h1
      cases h1
      exact ⟨i, m, b', hi, upd_self _ _ _⟩
    · exact ⟨i, m', b1, hi, by rw [upd_ne _ _ e]; exact h1⟩
  · intro i j f1 f2 m1 m2 b1 b2 hi hj h1 h2 hne
    have back : ∀ i f' m' b1, i < n → upd ca a (some (f, m, b')) i = some (f', m', b1) →
        ∃ b0, ca i = some (f', m', b0) := by
      intro i f' m' b1 hi hc
      by_cases e : i = a
      · subst e; rw [upd_self] at hc; cases hc; exact ⟨b, hca⟩
      · rw [upd_ne _ _ e] at hc; exact ⟨b1, hc⟩
    obtain ⟨c1, h1'⟩ := back i f1 m1 b1 hi h1
    obtain ⟨c2, h2'⟩ := back j f2 m2 b2 hj h2
    exact h.callInj i j f1 f2 m1 m2 c1 c2 hi hj h1' h2' hne
  · intro g' i f' m' b1 hg' hw hi hc hne
    by_cases e : i = a
    · subst e; rw [upd_self] at hc; cases hc
      exact h.awOther g' i f m b hg' hw hi hca hne
    · rw [upd_ne _ _ e] at hc
      exact h.awOther g' i f' m' b1 hg' hw hi hc hne
  · intro j k hj hk
    obtain ⟨nt, ds, h1⟩ := h.pendOk j k hj hk
    by_cases e : k = (futs.getD f {}).notify
    · subst e; exact ⟨nt', ds', upd_self _ _ _⟩
    · exact ⟨nt, ds, hnvk _ _ h1 e⟩

/-- a waker has taken the registered waker of future `f` (or has found it, by reference): thread `a` is about to
notify the `Notify` `k` -/
theorem GC.linNotify (h : GC p n pa ca futs nv df) {a f k : Nat} (ha : a < n) (hf : f < p.cfg.nFutures)
    (hlen : futs.length = p.cfg.nFutures) (hdlen : df.length = p.cfg.nFutures)
    (hpa : pa a = none) (G : FutSt → FutSt) (g : DFut → DFut)
    (hk : ∃ nt ds, nv k = some (true, nt, ds))
    (hn : (G (futs.getD f {})).notify = (futs.getD f {}).notify)
    (hg : (g (df.getD f {})).spurUsed = (df.getD f {}).spurUsed ∧ (g (df.getD f {})).polled = (df.getD f {}).polled)
    (hN1 : (futs.getD f {}).notify = k → (g (df.getD f {})).notified = true)
    (hN2 : (futs.getD f {}).notify ≠ k → (g (df.getD f {})).notified = (df.getD f {}).notified)
    (hO : ∀ i f' m b, i < n → ca i = some (f', m, b) → (futs.getD f' {}).notify = k → f' = f)
    (hS : (G (futs.getD f {})).slot = true → (futs.getD f {}).slot = true)
    (hA : (G (futs.getD f {})).awWaker = true →
      (futs.getD f {}).awWaker = true ∧ (G (futs.getD f {})).awNotify = (futs.getD f {}).awNotify) :
    GC p n (upd pa a (some k)) ca (futs.modify f G) nv (df.modify f g) := by
  have hfl : f < futs.length := by rw [hlen]; exact hf
  have hdl : f < df.length := by rw [hdlen]; exact hf
  have notify_eq : ∀ f', ((futs.modify f G).getD f' {}).notify = (futs.getD f' {}).notify := by
    intro f'
    by_cases e : f' = f
    · subst e; rw [getD_modify_self _ _ _ _ hfl]; exact hn
    · rw [getD_modify_ne _ _ _ _ _ e]
  -- the notifications in flight to an object other than `k`
  have pend_ne : ∀ k', k' ≠ k → ((∃ j, j < n ∧ upd pa a (some k) j = some k') ↔ ∃ j, j < n ∧ pa j = some k') := by
    intro k' hne
    constructor
    · rintro ⟨j, hj, hj'⟩
      by_cases e : j = a
      · subst e; rw [upd_self] at hj'; cases hj'; exact absurd rfl hne
      · rw [upd_ne _ _ e] at hj'; exact ⟨j, hj, hj'⟩
    · rintro ⟨j, hj, hj'⟩
      have : j ≠ a := by intro e; subst e; rw [hpa] at hj'; cases hj'
      exact ⟨j, hj, by rw [upd_ne _ _ this]; exact hj'⟩
  refine ⟨?_, ?_, ?_, ?_, ?_⟩
  · intro i f' m b hi hc
    obtain ⟨hf', nt, ds, h1, h2, h3, h4⟩ := h.call i f' m b hi hc
    rw [notify_eq]
    by_cases e : f' = f
    · subst e
      rw [getD_modify_self _ _ _ _ hdl]
      refine ⟨hf', nt, ds, h1, by rw [hg.1]; exact h2, ?_, by rw [hg.2]; exact h4⟩
      by_cases ek : (futs.getD f' {}).notify = k
      · rw [hN1 ek, ek]
        exact ⟨fun _ => .inr ⟨a, ha, upd_self _ _ _⟩, fun _ => rfl⟩
      · rw [hN2 ek, pend_ne _ ek]; exact h3
    · rw [getD_modify_ne _ _ _ _ _ e]
      have ek : (futs.getD f' {}).notify ≠ k := fun ek => e (hO i f' m b hi hc ek)
      refine ⟨hf', nt, ds, h1, h2, ?_, h4⟩
      rw [pend_ne _ ek]; exact h3
  · intro f' hf' hs
    by_cases e : f' = f
    · subst e
      rw [getD_modify_self _ _ _ _ hfl] at hs
      exact h.slotCall f' hf' (hS hs)
    · rw [getD_modify_ne _ _ _ _ _ e] at hs
      exact h.slotCall f' hf' hs
  · intro i j f1 f2 m1 m2 b1 b2 hi hj h1 h2 hne
    rw [notify_eq, notify_eq] at hne
    exact h.callInj i j f1 f2 m1 m2 b1 b2 hi hj h1 h2 hne
  · intro g' i f' m b hg' hw hi hc hne
    rw [notify_eq] at hne
    by_cases e : g' = f
    · subst e
      rw [getD_modify_self _ _ _ _ hfl] at hw hne
      obtain ⟨h1, h2⟩ := hA hw
      rw [h2] at hne
      exact h.awOther g' i f' m b hg' h1 hi hc hne
    · rw [getD_modify_ne _ _ _ _ _ e] at hw hne
      exact h.awOther g' i f' m b hg' hw hi hc hne
  · intro j k' hj hk'
    by_cases e : j = a
    · subst e; rw [upd_self] at hk'; cases hk'; exact hk
    · rw [upd_ne _ _ e] at hk'; exact h.pendOk j k' hj hk'

/-- the notification of thread `a` lands: the flag of the `Notify` `k` is raised -/
theorem GC.land (h : GC p n pa ca futs nv df) {a k : Nat} {nt ds : Bool} (ha : a < n)
    (hpa : pa a = some k) (hk : nv k = some (true, nt, ds)) :
    GC p n (upd pa a none) ca futs (upd nv k (some (true, true, ds))) df := by
  have pend_ne : ∀ k', k' ≠ k → ((∃ j, j < n ∧ upd pa a none j = some k') ↔ ∃ j, j < n ∧ pa j = some k') := by
    intro k' hne
    constructor
    · rintro ⟨j, hj, hj'⟩
      by_cases e : j = a
      · subst e; rw [upd_self] at hj'; cases hj'
      · rw [upd_ne _ _ e] at hj'; exact ⟨j, hj, hj'⟩
    · rintro ⟨j, hj, hj'⟩
      have : j ≠ a := by intro e; subst e; rw [hpa] at hj'; cases hj'; exact hne rfl
      exact ⟨j, hj, by rw [upd_ne _ _ this]; exact hj'⟩
  refine ⟨?_, h.slotCall, h.callInj, h.awOther, ?_⟩
  · intro i f m b hi hc
    obtain ⟨hf, nt0, ds0, h1, h2, h3, h4⟩ := h.call i f m b hi hc
    by_cases e : (futs.getD f {}).notify = k
    · rw [e] at h1 h3 ⊢
      rw [hk] at h1
      cases h1
      refine ⟨hf, true, ds, upd_self _ _ _, h2, ?_, h4⟩
      rw [h3]
      exact ⟨fun _ => .inl rfl, fun _ => .inr ⟨a, ha, hpa⟩⟩
    · refine ⟨hf, nt0, ds0, by rw [upd_ne _ _ e]; exact h1, h2, ?_, h4⟩
      rw [pend_ne _ e]; exact h3
  · intro j k' hj hk'
    have hne : j ≠ a := by intro e; subst e; rw [upd_self] at hk'; cases hk'
    rw [upd_ne _ _ hne] at hk'
    obtain ⟨nt1, ds1, h1⟩ := h.pendOk j k' hj hk'
    by_cases e : k' = k
    · subst e; exact ⟨true, ds, upd_self _ _ _⟩
    · exact ⟨nt1, ds1, by rw [upd_ne _ _ e]; exact h1⟩

end Refine4
end LoomVerif

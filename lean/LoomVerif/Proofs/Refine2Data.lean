/-
Refinement of the reference semantics by the twin, WAIT fragment, part 1: the data-only projection of
`Spec/SC.lean` for the lock fragment PLUS channels (`send`, `recv`, `tryRecv`, `dropRx`), `Notify`
(`nNotify`, `nWait` with its one modelled spurious return), `park` / `unpark` and the condvar (`cvWait`,
`cvOne`, `cvAll`).

`SCData2` is the part of `SC.St` these operations observe, without clocks.  `SCData2.stepL` is `SC.step` on it,
labelled with the `(pc, result)` a completed operation records; `SCData2.spurious` is `SC.spurious`;
`SCData2.enabled` is `SC.enabled`; `SCData2.Run2` are the executions with both kinds of steps.

Also here: the well-formedness predicate `Refine2.WF2` on programs (decidable).
-/
import LoomVerif.Proofs.RefineData

namespace LoomVerif
namespace Refine2
open Refine

/-! ### the fragment and the well-formedness of programs -/

/-- operation `op` is in the WAIT fragment and its arguments are in range for program `p` -/
def opOk (p : Prog) : Op → Bool
  | .spawn b => decide (0 < b) && decide (b < p.threads.length)
  | .join _ => true
  | .lock m | .unlock m | .tryLock m => decide (m < p.cfg.nMutexes)
  | .cellRead c | .cellWrite c _ => decide (c < p.cfg.nCells)
  | .ifEq .. => true
  | .send q _ | .recv q | .tryRecv q | .dropRx q => decide (q < p.cfg.nChans)
  | .nWait n | .nNotify n => decide (n < p.cfg.nNotifies)
  | .park | .unpark _ => true
  | .cvWait v m => decide (v < p.cfg.nCondvars) && decide (m < p.cfg.nMutexes)
  | .cvOne v | .cvAll v => decide (v < p.cfg.nCondvars)
  | _ => false

/-- every operation of every body is a fragment operation with arguments in range -/
def OpsOk (p : Prog) : Prop :=
  ∀ a, a < p.threads.length → ∀ k, k < (p.threads.getD a []).length →
    ((p.threads.getD a [])[k]?.all (opOk p)) = true

instance (p : Prog) : Decidable (OpsOk p) := by unfold OpsOk; infer_instance

/-- the channel a receiver-side operation works on -/
def rxChan : Op → Option Nat
  | .recv q | .tryRecv q | .dropRx q => some q
  | _ => none

def dropChan : Op → Option Nat
  | .dropRx q => some q
  | _ => none

/-- the operation at position `k` of body `a` -/
def opAtPos (p : Prog) (a k : Nat) : Option Op := (p.threads.getD a [])[k]?

/-- positions `(a, k)` and `(a', k')`: if both are receiver-side operations on the same channel they are in the
same body (the `Receiver` of an mpsc channel is owned by one thread), and if the first one drops the receiver,
the second one does not come after it -/
def rxPairOk (p : Prog) (a k a' k' : Nat) : Bool :=
  match (opAtPos p a k).bind rxChan, (opAtPos p a' k').bind rxChan with
  | some q, some q' =>
    q != q' || (a == a' && (((opAtPos p a k).bind dropChan).isNone || decide (k' ≤ k)))
  | _, _ => true

/-- single consumer: all `recv` / `tryRecv` / `dropRx` on a channel are in one body, and none of them follows
a `dropRx` of that channel in the body's text -/
def RxOrder (p : Prog) : Prop :=
  ∀ a, a < p.threads.length → ∀ k, k < (p.threads.getD a []).length →
  ∀ a', a' < p.threads.length → ∀ k', k' < (p.threads.getD a' []).length → rxPairOk p a k a' k' = true

instance (p : Prog) : Decidable (RxOrder p) := by unfold RxOrder; infer_instance

/-- well-formed programs of the WAIT fragment: a main body; only fragment operations with declared objects and
`spawn t` naming an existing body `0 < t`; each body spawned by at most one operation of the text; single
consumer per channel, no receiver-side operation after `dropRx`.

NOT needed: at most one waiter per `Notify` (the twin panics `notifyTwoWaiters`: outside the statement);
`unpark t` names a spawned thread (the twin fails otherwise); `cvWait v m` by the holder of `m` (neither side
checks the holder); `unlock` by the holder. -/
def WF2 (p : Prog) : Prop := 0 < p.threads.length ∧ OpsOk p ∧ SpawnOnce p ∧ RxOrder p

instance (p : Prog) : Decidable (WF2 p) := by unfold WF2; infer_instance

theorem pos_bound {p : Prog} {a k : Nat} {op : Op} (hop : (p.threads.getD a [])[k]? = some op) :
    a < p.threads.length ∧ k < (p.threads.getD a []).length := by
  have hk : k < (p.threads.getD a []).length := (List.getElem?_eq_some_iff.1 hop).1
  refine ⟨?_, hk⟩
  apply Classical.byContradiction
  intro hn
  have : p.threads[a]? = none := List.getElem?_eq_none (by omega)
  simp [List.getD, this] at hk

theorem WF2.opOk {p : Prog} (h : WF2 p) {a k : Nat} {op : Op}
    (hop : (p.threads.getD a [])[k]? = some op) : opOk p op = true := by
  obtain ⟨ha, hk⟩ := pos_bound hop
  have := h.2.1 a ha k hk
  rw [hop] at this
  simpa using this

theorem WF2.spawn_unique {p : Prog} (h : WF2 p) {a k a' k' b : Nat}
    (h1 : (p.threads.getD a [])[k]? = some (.spawn b))
    (h2 : (p.threads.getD a' [])[k']? = some (.spawn b)) : a = a' ∧ k = k' := by
  obtain ⟨ha, hk⟩ := pos_bound h1
  obtain ⟨ha', hk'⟩ := pos_bound h2
  have e1 : spawnAt p a k = some b := by simp only [spawnAt, h1]
  have e2 : spawnAt p a' k' = some b := by simp only [spawnAt, h2]
  have := h.2.2.1 a ha k hk a' ha' k' hk'
  simpa [spawnPairOk, e1, e2] using this

/-- two receiver-side operations on the same channel are in the same body -/
theorem WF2.rx_same_body {p : Prog} (h : WF2 p) {a k a' k' q : Nat} {op op' : Op}
    (h1 : (p.threads.getD a [])[k]? = some op) (h2 : (p.threads.getD a' [])[k']? = some op')
    (r1 : rxChan op = some q) (r2 : rxChan op' = some q) : a = a' := by
  obtain ⟨ha, hk⟩ := pos_bound h1
  obtain ⟨ha', hk'⟩ := pos_bound h2
  have := h.2.2.2 a ha k hk a' ha' k' hk'
  simp only [rxPairOk, opAtPos, h1, h2, Option.bind_some, r1, r2, bne_self_eq_false, Bool.false_or,
    Bool.and_eq_true, beq_iff_eq] at this
  exact this.1

/-- no receiver-side operation on `q` follows a `dropRx q` -/
theorem WF2.rx_before_drop {p : Prog} (h : WF2 p) {a k a' k' q : Nat} {op' : Op}
    (h1 : (p.threads.getD a [])[k]? = some (.dropRx q)) (h2 : (p.threads.getD a' [])[k']? = some op')
    (r2 : rxChan op' = some q) : a = a' ∧ k' ≤ k := by
  obtain ⟨ha, hk⟩ := pos_bound h1
  obtain ⟨ha', hk'⟩ := pos_bound h2
  have := h.2.2.2 a ha k hk a' ha' k' hk'
  have e1 : rxChan (.dropRx q) = some q := rfl
  have e2 : dropChan (.dropRx q) = some q := rfl
  simp only [rxPairOk, opAtPos, h1, h2, Option.bind_some, e1, e2, r2, bne_self_eq_false, Bool.false_or,
    Bool.and_eq_true, beq_iff_eq, Option.isNone_some, decide_eq_true_eq] at this
  exact this

/-! ### the data of a reference state -/

/-- a thread of the reference semantics without its clocks -/
structure DTh2 where
  pc : Nat := 0
  started : Bool := false
  finished : Bool := false
  rets : List (Nat × Ret) := []
  cvWaiting : Option (Nat × Nat) := none
  cvNotified : Option Nat := none
  token : Bool := false
deriving DecidableEq, Repr, Inhabited

/-- the data of a reference state the WAIT fragment can observe: no clocks -/
structure SCData2 where
  ths : List DTh2
  cells : List Int
  mutex : List (Option Nat)
  cvQueue : List (List Nat)
  nFlag : List Bool
  nSpurUsed : List Bool
  chan : List (List Int)
  rxDropped : List Bool
  chanLeft : List Nat
deriving DecidableEq, Repr, Inhabited

def dth2 (h : SC.Th) : DTh2 :=
  { pc := h.pc, started := h.started, finished := h.finished, rets := h.rets,
    cvWaiting := h.cvWaiting, cvNotified := h.cvNotified, token := h.token }

/-- the data-only projection of a reference state -/
def data2 (s : SC.St) : SCData2 :=
  { ths := s.ths.map dth2, cells := s.cells, mutex := s.mutex, cvQueue := s.cvQueue, nFlag := s.nFlag,
    nSpurUsed := s.nSpurUsed, chan := s.chan.map (fun l => l.map (·.1)), rxDropped := s.rxDropped,
    chanLeft := s.chanLeft }

namespace SCData2

def th (d : SCData2) (t : Nat) : DTh2 := d.ths.getD t {}
def modTh (d : SCData2) (t : Nat) (f : DTh2 → DTh2) : SCData2 := { d with ths := d.ths.modify t f }
/-- the operation completes with result `r` (`SC.St.ret`) -/
def ret (d : SCData2) (t : Nat) (r : Ret) : SCData2 :=
  d.modTh t fun h => { h with rets := (h.pc, r) :: h.rets, pc := h.pc + 1 }
def opOf (p : Prog) (d : SCData2) (t : Nat) : Option Op := (p.threads.getD t [])[(d.th t).pc]?

/-- what `cvOne` / `cvAll` do to a waiter (without the clock) -/
def notifyTh (h : DTh2) : DTh2 := { h with cvNotified := h.cvWaiting.map (·.2), cvWaiting := none }

/-- `SC.enabled` on the data (fragment operations; no verdict) -/
def enabled (p : Prog) (d : SCData2) (t : Nat) : Bool :=
  (d.th t).started && !(d.th t).finished &&
  match (d.th t).cvWaiting, (d.th t).cvNotified with
  | some _, _ => false
  | none, some m => (d.mutex.getD m none).isNone
  | none, none =>
    match opOf p d t with
    | none => true
    | some op =>
      match op with
      | .lock m => (d.mutex.getD m none).isNone
      | .join b => (d.th b).finished
      | .nWait n => d.nFlag.getD n false
      | .park => (d.th t).token
      | .recv q => !(d.chan.getD q []).isEmpty
      | _ => true

/-- `SC.step` on the data, for the operations of the fragment (no successor for other operations, nor for a
`recv` on an empty channel, which is not enabled): the successor states, each with the `(pc, result)` the step
records (`none`: `ifEq`, the end of a thread and the first half of `cvWait` record nothing) -/
def stepL (p : Prog) (d : SCData2) (t : Nat) : List (Option (Nat × Ret) × SCData2) :=
  let h := d.th t
  match h.cvNotified with
  | some m =>
    [(some (h.pc, .unit),
      (({ d with mutex := d.mutex.set m (some t) }).modTh t fun h => { h with cvNotified := none }).ret t .unit)]
  | none =>
  match opOf p d t with
  | none => [(none, d.modTh t fun h => { h with finished := true })]
  | some op =>
    match op with
    | .cellRead c => [(some (h.pc, .val (d.cells.getD c 0)), d.ret t (.val (d.cells.getD c 0)))]
    | .cellWrite c v => [(some (h.pc, .unit), ({ d with cells := d.cells.set c v }).ret t .unit)]
    | .lock m => [(some (h.pc, .unit), ({ d with mutex := d.mutex.set m (some t) }).ret t .unit)]
    | .tryLock m =>
      if (d.mutex.getD m none).isNone then
        [(some (h.pc, SC.bool01 true), ({ d with mutex := d.mutex.set m (some t) }).ret t (SC.bool01 true))]
      else [(some (h.pc, SC.bool01 false), d.ret t (SC.bool01 false))]
    | .unlock m => [(some (h.pc, .unit), ({ d with mutex := d.mutex.set m none }).ret t .unit)]
    | .spawn b => [(some (h.pc, .unit), (d.modTh b fun h => { h with started := true }).ret t .unit)]
    | .join _ => [(some (h.pc, .unit), d.ret t .unit)]
    | .ifEq i r n =>
      if h.rets.lookup (h.pc - i) == some r then [(none, d.modTh t fun h => { h with pc := h.pc + 1 })]
      else [(none, d.modTh t fun h => { h with pc := h.pc + 1 + n })]
    | .send q v =>
      if d.rxDropped.getD q false then
        [(some (h.pc, .unit), ({ d with chanLeft := d.chanLeft.set q (d.chanLeft.getD q 0 + 1) }).ret t .unit)]
      else [(some (h.pc, .unit), ({ d with chan := d.chan.set q (d.chan.getD q [] ++ [v]) }).ret t .unit)]
    | .recv q =>
      match d.chan.getD q [] with
      | v :: rest => [(some (h.pc, .val v), ({ d with chan := d.chan.set q rest }).ret t (.val v))]
      | [] => []
    | .tryRecv q =>
      match d.chan.getD q [] with
      | v :: rest => [(some (h.pc, .val v), ({ d with chan := d.chan.set q rest }).ret t (.val v))]
      | [] => [(some (h.pc, .empty), d.ret t .empty)]
    | .dropRx q =>
      [(some (h.pc, .unit),
        ({ d with chan := d.chan.set q [], rxDropped := d.rxDropped.set q true }).ret t .unit)]
    | .nWait n => [(some (h.pc, .unit), ({ d with nFlag := d.nFlag.set n false }).ret t .unit)]
    | .nNotify n => [(some (h.pc, .unit), ({ d with nFlag := d.nFlag.set n true }).ret t .unit)]
    | .park => [(some (h.pc, .unit), (d.modTh t fun h => { h with token := false }).ret t .unit)]
    | .unpark u =>
      if (d.th u).finished then [(some (h.pc, .unit), d.ret t .unit)]
      else [(some (h.pc, .unit), (d.modTh u fun h => { h with token := true }).ret t .unit)]
    | .cvWait v m =>
      [(none, ({ d with mutex := d.mutex.set m none
                        cvQueue := d.cvQueue.set v (d.cvQueue.getD v [] ++ [t]) }).modTh t
          fun h => { h with cvWaiting := some (v, m) })]
    | .cvOne v =>
      match d.cvQueue.getD v [] with
      | [] => [(some (h.pc, .unit), d.ret t .unit)]
      | w :: rest =>
        [(some (h.pc, .unit), (({ d with cvQueue := d.cvQueue.set v rest }).modTh w notifyTh).ret t .unit)]
    | .cvAll v =>
      let d1 := (d.cvQueue.getD v []).foldl (fun d w => d.modTh w notifyTh) d
      [(some (h.pc, .unit), ({ d1 with cvQueue := d1.cvQueue.set v [] }).ret t .unit)]
    | _ => []

def step (p : Prog) (d : SCData2) (t : Nat) : List SCData2 := (stepL p d t).map (·.2)

/-- `SC.spurious` on the data: the one modelled spurious return of `nWait n` (once per `Notify`), labelled with
the result it records -/
def spuriousL (p : Prog) (d : SCData2) (t : Nat) : List (Option (Nat × Ret) × SCData2) :=
  let h := d.th t
  if !h.started || h.finished || h.cvWaiting.isSome || h.cvNotified.isSome then []
  else match opOf p d t with
    | some (.nWait n) =>
      if !(d.nSpurUsed.getD n true) then
        [(some (h.pc, .unit), ({ d with nSpurUsed := d.nSpurUsed.set n true }).ret t .unit)]
      else []
    | _ => []

def spurious (p : Prog) (d : SCData2) (t : Nat) : List SCData2 := (spuriousL p d t).map (·.2)

/-- executions of the data semantics with the trace of `(thread, pc, result)` triples they record, oldest first:
every step is either a step (`stepL`, i.e. `SC.step`) of an ENABLED thread, or a spurious return
(`spuriousL`, i.e. `SC.spurious`) -/
inductive Run2 (p : Prog) : SCData2 → List (Nat × Nat × Ret) → SCData2 → Prop
  | nil (d : SCData2) : Run2 p d [] d
  | step {d d1 d2 : SCData2} {tr : List (Nat × Nat × Ret)} {t : Nat} {l : Option (Nat × Ret)} :
      Run2 p d tr d1 → enabled p d1 t = true → (l, d2) ∈ stepL p d1 t → Run2 p d (tr ++ SCData.label t l) d2
  | spur {d d1 d2 : SCData2} {tr : List (Nat × Nat × Ret)} {t : Nat} {l : Option (Nat × Ret)} :
      Run2 p d tr d1 → (l, d2) ∈ spuriousL p d1 t → Run2 p d (tr ++ SCData.label t l) d2

end SCData2

/-! ### projection lemmas -/

theorem data2_modTh (s : SC.St) (t : Nat) (f : SC.Th → SC.Th) (g : DTh2 → DTh2)
    (h : ∀ a, dth2 (f a) = g (dth2 a)) : data2 (s.modTh t f) = (data2 s).modTh t g := by
  simp only [data2, SC.St.modTh, SCData2.modTh]
  rw [map_modify _ _ _ g dth2 h]

theorem data2_modTh_id (s : SC.St) (t : Nat) (f : SC.Th → SC.Th) (h : ∀ a, dth2 (f a) = dth2 a) :
    data2 (s.modTh t f) = data2 s := by
  rw [data2_modTh s t f id h]
  simp only [SCData2.modTh]
  rw [modify_id' _ _ id (fun _ => rfl)]

theorem data2_tick (s : SC.St) (t : Nat) : data2 (s.tick t) = data2 s := data2_modTh_id _ _ _ fun _ => rfl
theorem data2_acquire (s : SC.St) (t : Nat) (c : VV) : data2 (s.acquire t c) = data2 s :=
  data2_modTh_id _ _ _ fun _ => rfl
theorem data2_ret (s : SC.St) (t : Nat) (r : Ret) : data2 (s.ret t r) = (data2 s).ret t r :=
  data2_modTh _ _ _ _ fun _ => rfl

theorem data2_th (s : SC.St) (t : Nat) : (data2 s).th t = dth2 (s.th t) := by
  simp only [SCData2.th, data2, SC.St.th, List.getD, List.getElem?_map]
  cases s.ths[t]? <;> rfl

theorem data2_opOf (p : Prog) (s : SC.St) (t : Nat) : SCData2.opOf p (data2 s) t = SC.opOf p s t := by
  simp only [SCData2.opOf, SC.opOf, data2_th]; rfl

end Refine2
end LoomVerif

/-
Small facts about the interpreter's plumbing (`Except`, `Threads`, `World.setObj`, `forOthers`,
`complete`, …) shared by the C09 / C10 / C11 proofs.
-/
import LoomVerif.Model.Interp
import LoomVerif.Proofs.C12VV

namespace LoomVerif
namespace WB

/-! ### `Except` -/

@[simp] theorem ok_bind {ε α β} (a : α) (f : α → Except ε β) : (Except.ok a >>= f) = f a := rfl
@[simp] theorem error_bind {ε α β} (e : ε) (f : α → Except ε β) :
    (Except.error e >>= f) = .error e := rfl
@[simp] theorem pure_eq_ok {ε α} (a : α) : (pure a : Except ε α) = .ok a := rfl
@[simp] theorem throw_eq_error {ε α} (e : ε) : (throw e : Except ε α) = .error e := rfl

theorem bind_eq_ok {ε α β} {m : Except ε α} {f : α → Except ε β} {b : β}
    (h : (m >>= f) = .ok b) : ∃ a, m = .ok a ∧ f a = .ok b := by
  cases m with
  | error e => cases h
  | ok a => exact ⟨a, rfl, h⟩

theorem bind_eq_error {ε α β} {m : Except ε α} {f : α → Except ε β} {e : ε}
    (h : (m >>= f) = .error e) : m = .error e ∨ ∃ a, m = .ok a ∧ f a = .error e := by
  cases m with
  | error e' => left; cases h; rfl
  | ok a => right; exact ⟨a, rfl, h⟩

/-! ### `Threads` -/

theorem get_modify (ths : Threads) (i j : Nat) (f : Thread → Thread) :
    (ths.modify i f).get j =
      if i = j ∧ j < ths.threads.length then f (ths.get j) else ths.get j := by
  simp only [Threads.modify, Threads.get, List.getD_eq_getElem?_getD, List.getElem?_modify]
  by_cases hj : j < ths.threads.length
  · by_cases hij : i = j <;> simp [hj, hij]
  · simp [hj]

@[simp] theorem activeId_modify (ths : Threads) (i : Nat) (f : Thread → Thread) :
    (ths.modify i f).activeId = ths.activeId := rfl

@[simp] theorem length_modify (ths : Threads) (i : Nat) (f : Thread → Thread) :
    (ths.modify i f).threads.length = ths.threads.length := by
  simp [Threads.modify]

@[simp] theorem activeId_setCaus (ths : Threads) (v : VV) :
    (ths.setCaus v).activeId = ths.activeId := rfl

@[simp] theorem length_setCaus (ths : Threads) (v : VV) :
    (ths.setCaus v).threads.length = ths.threads.length := by
  simp [Threads.setCaus, Threads.modifyActive]

/-- the active thread exists in the thread table (always the case while a thread runs) -/
def ActiveOk (ths : Threads) : Prop := ths.activeId < ths.threads.length

theorem caus_setCaus {ths : Threads} (h : ActiveOk ths) (v : VV) : (ths.setCaus v).caus = v := by
  unfold ActiveOk at h
  simp only [Threads.caus, Threads.activeT, activeId_setCaus]
  simp only [Threads.setCaus, Threads.modifyActive, get_modify]
  simp [h]

theorem get_setCaus_ne (ths : Threads) (v : VV) (i : Nat) (h : i ≠ ths.activeId) :
    (ths.setCaus v).get i = ths.get i := by
  simp only [Threads.setCaus, Threads.modifyActive, get_modify]
  rw [if_neg]
  omega

theorem caus_syncLoad {ths : Threads} (h : ActiveOk ths) (sy : Sync) (o : Ord) :
    (ths.syncLoad sy o).caus = sy.load ths.caus o := caus_setCaus h _

theorem get_syncLoad_ne (ths : Threads) (sy : Sync) (o : Ord) (i : Nat) (h : i ≠ ths.activeId) :
    (ths.syncLoad sy o).get i = ths.get i := get_setCaus_ne ths _ i h

@[simp] theorem activeId_syncLoad (ths : Threads) (sy : Sync) (o : Ord) :
    (ths.syncLoad sy o).activeId = ths.activeId := rfl

@[simp] theorem length_syncLoad (ths : Threads) (sy : Sync) (o : Ord) :
    (ths.syncLoad sy o).threads.length = ths.threads.length := length_setCaus _ _

theorem ActiveOk.syncLoad {ths : Threads} (h : ActiveOk ths) (sy : Sync) (o : Ord) :
    ActiveOk (ths.syncLoad sy o) := by
  unfold ActiveOk at *; simpa using h

/-! ### `Sync` -/

theorem store_rel_hb (s : Sync) (released caus : VV) :
    (s.store released caus .rel).hb = (s.hb.join released).join caus := rfl

theorem le_store_rel (s : Sync) (released caus : VV) :
    s.hb.le (s.store released caus .rel).hb :=
  C12.VV.le_trans (C12.VV.le_join_left _ _) (C12.VV.le_join_left _ _)

theorem caus_le_store_rel (s : Sync) (released caus : VV) :
    caus.le (s.store released caus .rel).hb := C12.VV.le_join_right _ _

theorem load_acq (s : Sync) (caus : VV) : s.load caus .acq = caus.join s.hb := rfl
theorem load_sc (s : Sync) (caus : VV) : s.load caus .sc = caus.join s.hb := rfl

/-! ### `World` plumbing -/

open World

section
variable (w : World)

@[simp] theorem objs_setObj (o : Nat) (v : Obj) : (w.setObj o v).exec.objs = w.exec.objs.set o v := rfl
@[simp] theorem ths_setObj (o : Nat) (v : Obj) : (w.setObj o v).ths = w.ths := rfl
@[simp] theorem path_setObj (o : Nat) (v : Obj) : (w.setObj o v).exec.path = w.exec.path := rfl
@[simp] theorem tid_setObj (o : Nat) (v : Obj) : (w.setObj o v).tid = w.tid := rfl
@[simp] theorem arcs_setObj (o : Nat) (v : Obj) : (w.setObj o v).arcs = w.arcs := rfl
@[simp] theorem handles_setObj (o : Nat) (v : Obj) : (w.setObj o v).handles = w.handles := rfl
@[simp] theorem arcs_setThs (t : Threads) : (w.setThs t).arcs = w.arcs := rfl
@[simp] theorem handles_setThs (t : Threads) : (w.setThs t).handles = w.handles := rfl
@[simp] theorem objs_setThs (t : Threads) : (w.setThs t).exec.objs = w.exec.objs := rfl
@[simp] theorem ths_setThs (t : Threads) : (w.setThs t).ths = t := rfl
@[simp] theorem path_setThs (t : Threads) : (w.setThs t).exec.path = w.exec.path := rfl
@[simp] theorem objs_forOthers (p : Operation → Bool) (f : Thread → Thread) :
    (w.forOthers p f).exec.objs = w.exec.objs := rfl
@[simp] theorem path_forOthers (p : Operation → Bool) (f : Thread → Thread) :
    (w.forOthers p f).exec.path = w.exec.path := rfl
@[simp] theorem tid_forOthers (p : Operation → Bool) (f : Thread → Thread) :
    (w.forOthers p f).tid = w.tid := rfl
@[simp] theorem activeId_forOthers (p : Operation → Bool) (f : Thread → Thread) :
    (w.forOthers p f).ths.activeId = w.ths.activeId := rfl
@[simp] theorem length_forOthers (p : Operation → Bool) (f : Thread → Thread) :
    (w.forOthers p f).ths.threads.length = w.ths.threads.length := by
  simp [World.forOthers, World.setThs, World.ths]

/-- `complete` touches only the interpreter's control state and the event log -/
@[simp] theorem exec_complete (r : Ret) : (w.complete r).exec = w.exec := rfl
@[simp] theorem ths_complete (r : Ret) : (w.complete r).ths = w.ths := rfl
@[simp] theorem handles_complete (r : Ret) : (w.complete r).handles = w.handles := rfl
@[simp] theorem arcs_complete (r : Ret) : (w.complete r).arcs = w.arcs := rfl
@[simp] theorem tracks_complete (r : Ret) : (w.complete r).tracks = w.tracks := rfl
@[simp] theorem rawAllocs_complete (r : Ret) : (w.complete r).rawAllocs = w.rawAllocs := rfl
@[simp] theorem events_complete (r : Ret) :
    (w.complete r).events =
      ⟨(w.ctlOf w.tid).body, (w.ctlOf w.tid).pc, r, (w.ths.get w.tid).causality⟩ :: w.events := rfl

@[simp] theorem exec_setStage (n : Nat) : (w.setStage n).exec = w.exec := rfl
@[simp] theorem ths_setStage (n : Nat) : (w.setStage n).ths = w.ths := rfl
@[simp] theorem tid_setStage (n : Nat) : (w.setStage n).tid = w.tid := rfl
@[simp] theorem panicking_setStage (n : Nat) : (w.setStage n).panicking = w.panicking := rfl
@[simp] theorem handles_setStage (n : Nat) : (w.setStage n).handles = w.handles := rfl
@[simp] theorem arcs_setStage (n : Nat) : (w.setStage n).arcs = w.arcs := rfl

@[simp] theorem exec_setHandle (h : Nat) (x : Option HandleSt) : (w.setHandle h x).exec = w.exec := by
  cases x <;> rfl
@[simp] theorem arcs_setHandle (h : Nat) (x : Option HandleSt) : (w.setHandle h x).arcs = w.arcs := by
  cases x <;> rfl
@[simp] theorem exec_modArc (a : Nat) (f : ArcInfo → ArcInfo) : (w.modArc a f).exec = w.exec := rfl
@[simp] theorem handles_modArc (a : Nat) (f : ArcInfo → ArcInfo) :
    (w.modArc a f).handles = w.handles := rfl

end

/-- the typed getters read the object store -/
theorem getChan_ok_iff (w : World) (o : Nat) (s : ChanSt) :
    w.getChan o = .ok s ↔ w.exec.objs[o]? = some (.chan s) := by
  unfold World.getChan
  split
  · next a h => simp [h]
  · next h =>
    constructor
    · intro h'; cases h'
    · intro h'; exact absurd h' (h _)

theorem getArc_ok_iff (w : World) (o : Nat) (s : ArcSt) :
    w.getArc o = .ok s ↔ w.exec.objs[o]? = some (.arc s) := by
  unfold World.getArc
  split
  · next a h => simp [h]
  · next h =>
    constructor
    · intro h'; cases h'
    · intro h'; exact absurd h' (h _)

theorem getChan_setObj {w : World} {o : Nat} {s : ChanSt} (h : w.getChan o = .ok s) (s' : ChanSt) :
    (w.setObj o (.chan s')).getChan o = .ok s' := by
  rw [getChan_ok_iff] at h ⊢
  have : o < w.exec.objs.length := by
    rcases Nat.lt_or_ge o w.exec.objs.length with h' | h'
    · exact h'
    · rw [List.getElem?_eq_none h'] at h; cases h
  simp [this]

theorem getArc_setObj {w : World} {o : Nat} {s : ArcSt} (h : w.getArc o = .ok s) (s' : ArcSt) :
    (w.setObj o (.arc s')).getArc o = .ok s' := by
  rw [getArc_ok_iff] at h ⊢
  have : o < w.exec.objs.length := by
    rcases Nat.lt_or_ge o w.exec.objs.length with h' | h'
    · exact h'
    · rw [List.getElem?_eq_none h'] at h; cases h
  simp [this]

theorem objs_setObj_ne (w : World) (o o' : Nat) (v : Obj) (h : o' ≠ o) :
    (w.setObj o v).exec.objs[o']? = w.exec.objs[o']? := by
  simp [List.getElem?_set_ne (Ne.symm h)]

/-- `forOthers` on one thread -/
theorem forOthers_get (w : World) (p : Operation → Bool) (f : Thread → Thread) (i : Nat) :
    (w.forOthers p f).ths.get i =
      if i = w.tid then w.ths.get i else
        match (w.ths.get i).operation with
        | some op => if p op then f (w.ths.get i) else w.ths.get i
        | none => w.ths.get i := by
  simp only [World.forOthers, World.setThs, World.ths, Threads.get, List.getD_eq_getElem?_getD,
    List.getElem?_mapIdx]
  by_cases hi : i < w.exec.threads.threads.length
  · simp [hi]
    rfl
  · have : w.exec.threads.threads[i]? = none := by simp; omega
    simp [this]

theorem forOthers_get_self (w : World) (p : Operation → Bool) (f : Thread → Thread) :
    (w.forOthers p f).ths.get w.tid = w.ths.get w.tid := by
  rw [forOthers_get]; simp

theorem caus_forOthers (w : World) (p : Operation → Bool) (f : Thread → Thread) :
    (w.forOthers p f).ths.caus = w.ths.caus := by
  simp only [Threads.caus, Threads.activeT, activeId_forOthers]
  exact congrArg _ (forOthers_get_self w p f)

end WB
end LoomVerif

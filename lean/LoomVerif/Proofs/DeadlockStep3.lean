/-
Deadlock soundness, part 6: the twin-side invariant `JB` along `spawn` and along the scheduling points of the
fragment (the branch points of `lock`, `tryLock`, `join`, of the epilogue's notification, and `thread_done`).
-/
import LoomVerif.Proofs.DeadlockStep2

namespace LoomVerif
namespace Deadlock
open Refine Sy

/-! ### `spawn` -/

theorem newThread_ths {e e' : Exec} {id : Nat} (h : e.newThread = .ok (e', id)) :
    e'.path = e.path ∧ ∀ i, (e'.threads.get i).state = ((e.threads.threads ++ [({} : Thread)]).getD i {}).state ∧
      (e'.threads.get i).operation = ((e.threads.threads ++ [({} : Thread)]).getD i {}).operation := by
  unfold Exec.newThread at h
  simp only [bind, Except.bind, pure, Except.pure] at h
  split at h
  · cases h
  · next v hv =>
    cases h
    unfold Threads.newThread at hv
    split at hv
    · cases hv
      refine ⟨rfl, fun i => ?_⟩
      simp only [Threads.get, Threads.modify, List.getD_eq_getElem?_getD, List.getElem?_modify]
      cases hh : (e.threads.threads ++ [({} : Thread)])[i]? with
      | none => simp
      | some th =>
        simp only [Option.map_some, Option.getD_some]
        split <;> split <;> exact ⟨rfl, rfl⟩
    · cases hv

theorem spawn_ths {w w' : World} {c : TCtl} {b : Nat} (h : w.runOp c (.spawn b) = .ok w') :
    w'.exec.path = w.exec.path ∧
    ∀ i, (w'.ths.get i).state = ((w.exec.threads.threads ++ [({} : Thread)]).getD i {}).state ∧
      (w'.ths.get i).operation = ((w.exec.threads.threads ++ [({} : Thread)]).getD i {}).operation := by
  rw [runOp_spawn] at h
  simp only [World.pushObj, bind, Except.bind, pure, Except.pure] at h
  split at h
  · cases h
  · next v hv =>
    cases h
    obtain ⟨e', id⟩ := v
    obtain ⟨h1, h2⟩ := newThread_ths hv
    exact ⟨h1, h2⟩

section
variable {w w' : World} {s : SCData}

/-- **`spawn`**: a new thread, runnable, without a pending operation; a new entry of `spawned` -/
theorem JB.spawn_step (hJ : JB w) (hR : R w s) (hact : w.tid < w.ctl.length) {b : Nat}
    (hop : opAt w = some (.spawn b)) (h : w.runOp (w.ctlOf w.tid) (.spawn b) = .ok w') :
    JB w' ∧ w'.exec.path = w.exec.path := by
  obtain ⟨hpath, hths⟩ := spawn_ths h
  obtain ⟨w2, rfl, hp, ht, _, hc, hsp, hobjs, hlen⟩ := spawn_obs h
  refine ⟨?_, hpath⟩
  have hw : waits (opAt w) = false := by rw [hop]; rfl
  have hctl : (w2.complete .unit).ctl = (w.ctl ++ [({ body := b } : TCtl)]).modify w.tid (completeF .unit) := by
    rw [ctl_complete', hc, ht]
  have hctlOld : ∀ j, j < w.ctl.length →
      (w2.complete .unit).ctlOf j = if j = w.tid then completeF .unit (w.ctlOf j) else w.ctlOf j := by
    intro j hj
    unfold World.ctlOf
    rw [hctl, modify_append_left' _ _ _ _ hact, getD_append_left _ _ _ _ (by simpa using hj)]
    by_cases e : j = w.tid
    · subst e; rw [if_pos rfl, getD_modify_self _ _ _ _ hact]
    · rw [if_neg e, getD_modify_ne _ _ _ _ _ e]
  have hctlNew : (w2.complete .unit).ctlOf w.ctl.length = ({ body := b } : TCtl) := by
    unfold World.ctlOf
    rw [hctl, modify_append_left' _ _ _ _ hact]
    have : (w.ctl.modify w.tid (completeF .unit)).length = w.ctl.length := by simp
    rw [← this]
    exact getD_append_new _ _ _
  have hlen' : (w2.complete .unit).ctl.length = w.ctl.length + 1 := by rw [hctl]; simp
  have hprog : (w2.complete .unit).prog = w.prog := hp
  have hsp' : (w2.complete .unit).spawned = (b, w.ctl.length, w.exec.objs.length) :: w.spawned := by
    show w2.spawned = _; rw [hsp, hR.lenCtl]
  have hobjs' : (w2.complete .unit).exec.objs =
      w.exec.objs ++ [.notify { seqCst := true, spurious := false }] := hobjs
  have htid : (w2.complete .unit).tid = w.tid := ht
  have hfinOld : ∀ t, t < w.ctl.length → ((w2.complete .unit).ctlOf t).fin = (w.ctlOf t).fin := by
    intro t ht'
    rw [hctlOld t ht']; split <;> rfl
  have hview : ViewLe w.exec.objs (w2.complete .unit).exec.objs := by
    rw [hobjs']; exact ViewLe.append _ _
  have hfin' : ∀ b' t n, (b', t, n) ∈ w.spawned →
      (((w2.complete .unit).ctlOf t).fin < 10 ↔ (w.ctlOf t).fin < 10) := by
    intro b' t n hm
    rw [hfinOld t (hR.y.sp b' t n hm).1]
  refine ⟨fun i hi => ?_, ?_, ?_, ?_⟩
  · rw [hlen'] at hi
    unfold JT
    rw [hprog, hsp', htid]
    by_cases hin : i < w.ctl.length
    · have hil : i < w.exec.threads.threads.length := by rw [← hR.lenCtl]; exact hin
      have hst := hths i
      rw [getD_append_left _ _ _ _ hil] at hst
      rw [hctlOld i hin]
      by_cases e : i = w.tid
      · subst e
        rw [if_pos rfl]
        have h0 := hJ.thr _ hact
        exact (h0.after_plain (sp' := (b, w.ctl.length, w.exec.objs.length) :: w.spawned) hw trivial
          (.inr rfl) (fun htm => by rw [completeF_fin]; exact h0.term htm)).mono (fun _ h => h)
          (fun _ _ h => h) (fun _ _ _ _ => Iff.rfl) (fun _ => rfl) hst.1 hst.2
      · rw [if_neg e]
        exact (hJ.thr i hin).mono (fun _ h => List.mem_cons_of_mem _ h) (fun m l h => hview _ _ h) hfin' id
          hst.1 hst.2
    · have : i = w.ctl.length := by omega
      subst this
      have hst := hths w.exec.threads.threads.length
      rw [getD_append_new, ← hR.lenCtl] at hst
      rw [hctlNew]
      have hst1 : ((w2.complete .unit).ths.get w.ctl.length).state = .runnable := hst.1
      have hst2 : ((w2.complete .unit).ths.get w.ctl.length).operation = none := hst.2
      refine ⟨?_, ?_, ?_, ?_⟩
      · rw [hst1]; simp
      · rw [hst1]; intro hh; cases hh
      · intro h1; cases h1
      · intro _
        refine ⟨by rw [hst1]; simp, fun _ op ho => ?_⟩
        rw [hst2] at ho; cases ho
  · rw [hsp']
    intro e1 e2 h1 h2 e
    rcases List.mem_cons.1 h1 with a1 | a1 <;> rcases List.mem_cons.1 h2 with a2 | a2
    · rw [a1, a2]
    · exfalso
      obtain ⟨b2, i2, n2⟩ := e2
      have := (hR.y.sp b2 i2 n2 a2).1
      rw [a1] at e; simp only at e; omega
    · exfalso
      obtain ⟨b1, i1, n1⟩ := e1
      have := (hR.y.sp b1 i1 n1 a1).1
      rw [a2] at e; simp only at e; omega
    · exact hJ.spt e1 e2 a1 a2 e
  · rw [hsp']
    intro b' i n hm
    rcases List.mem_cons.1 hm with a | a
    · cases a; omega
    · exact hJ.sp0 b' i n a
  · rw [hsp']
    intro b' i n hm h10
    rcases List.mem_cons.1 hm with a | a
    · cases a
      rw [hctlNew] at h10
      simp at h10
    · have hi := (hR.y.sp b' i n a).1
      rw [hfinOld i hi] at h10
      rcases hJ.jnd b' i n a h10 with hv | ⟨j, k, hj, hk, hop'⟩
      · exact .inl (hview _ _ hv)
      · refine .inr ⟨j, k, by rw [hlen']; omega, ?_, ?_⟩
        · rw [hctlOld j hj]; split
          · next e => subst e; exact Nat.lt_succ_of_lt hk
          · exact hk
        · have : ((w2.complete .unit).ctlOf j).body = (w.ctlOf j).body := by
            rw [hctlOld j hj]; split <;> rfl
          rw [hprog, this]; exact hop'

/-! ### scheduling points -/

theorem schedOn_setStage (w : World) (n : Nat) (F : Thread → Thread) : schedOn (w.setStage n) F = schedOn w F := rfl
theorem schedOn_modCtl (w : World) (t : Nat) (g : TCtl → TCtl) (F : Thread → Thread) :
    schedOn (w.modCtl t g) F = schedOn w F := rfl

/-- what `World.branch` does to the active thread's entry -/
def branchF (o : Nat) (a : Action) (blk wt : Bool) (t : Thread) : Thread :=
  let t := { t with operation := some ⟨o, a, wt⟩ }
  if blk then t.setBlocked else t

theorem branchF_state (o : Nat) (a : Action) (blk wt : Bool) (t : Thread) :
    (branchF o a blk wt t).state = if blk then .blocked else t.state := by
  unfold branchF; cases blk <;> rfl

theorem branchF_operation (o : Nat) (a : Action) (blk wt : Bool) (t : Thread) :
    (branchF o a blk wt t).operation = some ⟨o, a, wt⟩ := by
  unfold branchF; cases blk <;> rfl

/-- what a stage does to the path: nothing, or one call of `Exec.schedule` on the execution of `w` with the active
thread's entry rewritten (the execution of `w'` is its result) -/
def PathTrans (w w' : World) : Prop :=
  w'.exec.path = w.exec.path ∨
  ∃ (F : Thread → Thread) (e : Exec) (b : Bool), schedOn w F = .ok (e, b) ∧ w'.exec = e

theorem PathTrans.replayOK {w w' : World} (h : PathTrans w w')
    (hin : w.tid < w.exec.threads.threads.length) (hp : ReplayOK w.exec.path) : ReplayOK w'.exec.path := by
  rcases h with e | ⟨F, e, b, hs, he⟩
  · rw [e]; exact hp
  · rw [he]; exact (schedOn_ok hs hin).2.2 hp

/-- a branch point after the active thread's control record has been rewritten by `g` -/
theorem JB.branch_step (hJ : JB w) (hR : R w s) (hact : w.tid < w.ctl.length) {g : TCtl → TCtl}
    {o : Nat} {a : Action} {blk wt : Bool} (h : (w.modCtl w.tid g).branch o a blk wt = .ok w')
    (hbody : (g (w.ctlOf w.tid)).body = (w.ctlOf w.tid).body)
    (hpc : (g (w.ctlOf w.tid)).pc = (w.ctlOf w.tid).pc)
    (hfin : (g (w.ctlOf w.tid)).fin < 10 ↔ (w.ctlOf w.tid).fin < 10)
    (hnew : JTd w.prog w.spawned w.exec.objs (fun t => (w.ctlOf t).fin) False
      (branchF o a blk wt (w.ths.get w.tid)) (g (w.ctlOf w.tid))) :
    JB w' ∧ PathTrans w w' := by
  rw [branch_schedOn] at h
  obtain ⟨x, hx, rfl⟩ := bind_pure_ok h
  rw [schedOn_modCtl] at hx
  exact ⟨JB.sched_step (e := x.1) (b := x.2) hJ hR hact hx rfl rfl rfl rfl hbody hpc hfin hnew,
    .inr ⟨_, x.1, x.2, hx, rfl⟩⟩

/-- `thread_done` after the active thread's control record has been rewritten by `g` -/
theorem JB.done_step (hJ : JB w) (hR : R w s) (hact : w.tid < w.ctl.length) {g : TCtl → TCtl}
    (h : (w.modCtl w.tid g).threadDone = .ok w')
    (hbody : (g (w.ctlOf w.tid)).body = (w.ctlOf w.tid).body)
    (hpc : (g (w.ctlOf w.tid)).pc = (w.ctlOf w.tid).pc)
    (hfin : (g (w.ctlOf w.tid)).fin < 10 ↔ (w.ctlOf w.tid).fin < 10)
    (hnew : JTd w.prog w.spawned w.exec.objs (fun t => (w.ctlOf t).fin) False
      ({ (w.ths.get w.tid).setTerminated with operation := none }) (g (w.ctlOf w.tid))) :
    JB w' ∧ PathTrans w w' := by
  rw [threadDone_schedOn] at h
  obtain ⟨x, hx, rfl⟩ := bind_pure_ok h
  rw [schedOn_modCtl] at hx
  exact ⟨JB.sched_step (e := x.1) (b := x.2) hJ hR hact hx rfl rfl rfl rfl hbody hpc hfin hnew,
    .inr ⟨_, x.1, x.2, hx, rfl⟩⟩

end

end Deadlock
end LoomVerif

/-
Soundness of the vector clocks of the reference semantics, part 10: from the view back to runs of `Spec/SC.lean`:
the verdict of every step of a run in terms of the happens-before relation of the events of the run
(`Run.verdict_at`), and the clock characterisation (`Run.clock_le_iff`).
-/
import LoomVerif.Proofs.VCSoundRace

namespace LoomVerif
namespace VCSound
open Race (upd upd_self upd_ne get_zero zero_join join_zero)
open Clocks
open Refine (WF)

variable {p : Prog} {tr : List Step} {s : SC.St}

/-- the end state of a run is determined by its history -/
theorem Run.last (h : Run p tr s) :
    (tr = [] ∧ s = SC.init p) ∨ ∃ tr0 e, tr = tr0 ++ [e] ∧ s = e.s' := by
  cases h with
  | nil => exact .inl ⟨rfl, rfl⟩
  | snoc _ _ _ => exact .inr ⟨_, _, rfl, rfl⟩

theorem Run.det {s2 : SC.St} (h1 : Run p tr s) (h2 : Run p tr s2) : s = s2 := by
  rcases h1.last with ⟨e1, rfl⟩ | ⟨tr0, e, e1, rfl⟩
  · rcases h2.last with ⟨_, rfl⟩ | ⟨tr0', e', e2, _⟩
    · rfl
    · rw [e1] at e2; simp at e2
  · rcases h2.last with ⟨e2, _⟩ | ⟨tr0', e', e2, rfl⟩
    · rw [e2] at e1; simp at e1
    · rw [e1] at e2
      have := List.append_inj' e2 rfl
      simp only [List.cons.injEq, and_true] at this
      rw [this.2]

/-- the state a step leaves is the end of the run (last step) or has no verdict (the next step is enabled in it) -/
theorem Run.after (h : Run p tr s) {n : Nat} {e : Step} (hn : tr[n]? = some e) :
    (n + 1 = tr.length ∧ e.s' = s) ∨ (n + 1 < tr.length ∧ e.s'.verdict = none) := by
  have hlt := (List.getElem?_eq_some_iff.1 hn).1
  obtain ⟨_, _, _, hr1⟩ := h.take n e hn
  by_cases hl : n + 1 = tr.length
  · left
    refine ⟨hl, ?_⟩
    rw [List.take_of_length_le (by omega)] at hr1
    exact hr1.det h
  · right
    have hlt2 : n + 1 < tr.length := by omega
    refine ⟨hlt2, ?_⟩
    obtain ⟨hr2, hen, _, _⟩ := h.take (n + 1) _ (List.getElem?_eq_getElem hlt2)
    rw [hr1.det hr2]
    exact (enabled_facts hen).1

theorem events_take (p : Prog) (tr : List Step) (n : Nat) : events p (tr.take n) = (events p tr).take n :=
  List.map_take

theorem events_getElem? (p : Prog) (tr : List Step) (n : Nat) : (events p tr)[n]? = (tr[n]?).map (Step.ev p) :=
  List.getElem?_map

/-- the earlier accesses of another thread that satisfy `P` and do NOT happen before event `n` of the run -/
def UnordAtA (p : Prog) (tr : List Step) (n : Nat) (t : Nat) (P : Event → Prop) : Prop :=
  ∃ (j : Nat) (a : Event), j < n ∧ (events p tr)[j]? = some a ∧ a.thr ≠ t ∧ P a ∧ ¬ HBA (events p tr) j n

theorem unord_atA {n : Nat} {e : Step} (hn : tr[n]? = some e) (P : Event → Prop) :
    Unord (events p (tr.take n)) (e.ev p) P ↔ UnordAtA p tr n e.t P := by
  have hlt := (List.getElem?_eq_some_iff.1 hn).1
  have hlen : (events p (tr.take n)).length = n := by simp [events]; omega
  have happ : events p (tr.take n) ++ [e.ev p] = (events p tr).take (n + 1) := by
    rw [events_take, List.take_add_one, events_getElem?, hn]; rfl
  have hget : ∀ j a, (events p (tr.take n))[j]? = some a ↔ j < n ∧ (events p tr)[j]? = some a := by
    intro j a
    rw [events_take, List.getElem?_take]
    by_cases h : j < n
    · simp [h]
    · simp [h]
  unfold Unord UnordAtA
  rw [hlen, happ]
  constructor
  · rintro ⟨j, a, hj, ht, hp, hh⟩
    obtain ⟨hjn, hj'⟩ := (hget j a).1 hj
    exact ⟨j, a, hjn, hj', ht, hp, fun h => hh ((hba_take (Nat.lt_succ_self n)).2 h)⟩
  · rintro ⟨j, a, hjn, hj, ht, hp, hh⟩
    exact ⟨j, a, (hget j a).2 ⟨hjn, hj⟩, ht, hp, fun h => hh ((hba_take (Nat.lt_succ_self n)).1 h)⟩

/-- **the verdict of every step of a run, declaratively** -/
theorem Run.verdict_at (hwf : WFX p) (hlen : p.threads.length ≤ 5) (h : Run p tr s) {n : Nat} {e : Step}
    (hn : tr[n]? = some e) :
    (e.s'.verdict = none ∧ ¬ UnordAtA p tr n e.t (Conflict · (e.ev p))) ∨
    (e.s'.verdict = some (.race 9) ∧ ∃ x, (e.ev p).isRead x ∧ UnordAtA p tr n e.t (·.isWrite x)) ∨
    (e.s'.verdict = some (.race 10) ∧ ∃ x, (e.ev p).isWrite x ∧ UnordAtA p tr n e.t (·.isWrite x)) ∨
    (e.s'.verdict = some (.race 11) ∧ ∃ x, (e.ev p).isWrite x ∧ ¬ UnordAtA p tr n e.t (·.isWrite x) ∧
      UnordAtA p tr n e.t (·.isRead x)) := by
  obtain ⟨hr0, hen, hstep, _⟩ := h.take n e hn
  obtain ⟨hs, hI⟩ := hr0.inv hwf hlen
  have hv := (enabled_facts hen).1
  have hC := hr0.invC hwf hlen hv
  obtain ⟨_, _, c, _, ha⟩ := ctx_of_step hwf hlen hs hI hen hstep
  have := c.verdict_cases hC ha.step hv
  simp only [unord_atA hn] at this
  exact this


theorem clocks_getElem? (tr : List Step) (n : Nat) : (clocks tr)[n]? = (tr[n]?).map Step.clock :=
  List.getElem?_map

theorem clocks_take (tr : List Step) (n : Nat) : clocks (tr.take n) = (clocks tr).take n := List.map_take

/-- **the clock of a ticking event is known exactly to the events it happens-before-or-equals**: for a ticking event
`j` of thread `u` and ANY event `i` of the run, the own component of the clock of `j` is below the clock of `i` iff
`j = i` or `j` happens before `i` -/
theorem Run.clock_get_le_iff (hwf : WFX p) (hlen : p.threads.length ≤ 5) (h : Run p tr s) {j i : Nat} {ej ei : Step}
    (hj : tr[j]? = some ej) (hi : tr[i]? = some ei) (ht : (ej.ev p).ticks = true) :
    ej.clock.get ej.t ≤ ei.clock.get ej.t ↔ HBAeq (events p tr) j i := by
  obtain ⟨_, hI⟩ := h.inv hwf hlen
  have hcj : (clocks tr)[j]? = some ej.clock := by rw [clocks_getElem?, hj]; rfl
  have hci : (clocks tr)[i]? = some ei.clock := by rw [clocks_getElem?, hi]; rfl
  constructor
  · intro hle
    rcases Nat.lt_trichotomy j i with hlt | heq | hgt
    · right
      obtain ⟨hr0, hen, hstep, _⟩ := h.take i ei hi
      obtain ⟨hs0, hI0⟩ := hr0.inv hwf hlen
      obtain ⟨_, _, c, hclk, _⟩ := ctx_of_step hwf hlen hs0 hI0 hen hstep
      have hilt := (List.getElem?_eq_some_iff.1 hi).1
      have hj0 : (events p (tr.take i))[j]? = some (ej.ev p) := by
        rw [events_take, List.getElem?_take, if_pos hlt, events_getElem?, hj]; rfl
      have hc0 : (clocks (tr.take i))[j]? = some ej.clock := by
        rw [clocks_take, List.getElem?_take, if_pos hlt]; exact hcj
      have hx : ej.clock.get (ej.ev p).thr ≤ (newClock (view ei.s) (Step.ev p ⟨ei.t, ei.s, ei.s'⟩)).get (ej.ev p).thr := by
        rw [← hclk]; exact hle
      have hb := c.know_new hj0 hc0 ht hx
      have hl : (events p (tr.take i)).length = i := by simp [events]; omega
      have happ : events p (tr.take i) ++ [Step.ev p ⟨ei.t, ei.s, ei.s'⟩] = (events p tr).take (i + 1) := by
        rw [events_take, List.take_add_one, events_getElem?, hi]; rfl
      rw [hl, happ] at hb
      exact (hba_take (Nat.lt_succ_self i)).1 hb
    · exact .inl heq
    · exfalso
      obtain ⟨hr0, hen, hstep, _⟩ := h.take j ej hj
      obtain ⟨hs0, hI0⟩ := hr0.inv hwf hlen
      obtain ⟨_, _, c, hclk, _⟩ := ctx_of_step hwf hlen hs0 hI0 hen hstep
      have hi0 : (events p (tr.take j))[i]? = some (ei.ev p) := by
        rw [events_take, List.getElem?_take, if_pos hgt, events_getElem?, hi]; rfl
      have hc0 : (clocks (tr.take j))[i]? = some ei.clock := by
        rw [clocks_take, List.getElem?_take, if_pos hgt]; exact hci
      have h1 := get_mono (hI0.clkT i _ _ hi0 hc0) ej.t
      have h2 := hI0.ownT ej.t (ei.ev p).thr
      have h3 := newClock_self hI0 (Step.ev p ⟨ej.t, ej.s, ej.s'⟩) c.sf.t5
      rw [← hclk, if_pos ht] at h3
      have h3' : ej.clock.get ej.t = ((view ej.s).vc ej.t).get ej.t + 1 := h3
      omega
  · rintro (rfl | hb)
    · rw [hj] at hi; cases hi; exact Nat.le_refl _
    · exact get_mono (hI.hb_le hb hcj hci) _

/-- the whole clock: `clock j ≤ clock i` iff `j` happens-before-or-equals `i` -/
theorem Run.clock_le_iff (hwf : WFX p) (hlen : p.threads.length ≤ 5) (h : Run p tr s) {j i : Nat} {ej ei : Step}
    (hj : tr[j]? = some ej) (hi : tr[i]? = some ei) (ht : (ej.ev p).ticks = true) :
    ej.clock.le ei.clock ↔ HBAeq (events p tr) j i := by
  constructor
  · intro hle; exact (h.clock_get_le_iff hwf hlen hj hi ht).1 (get_mono hle _)
  · rintro (rfl | hb)
    · rw [hj] at hi; cases hi; exact le_refl _
    · obtain ⟨_, hI⟩ := h.inv hwf hlen
      exact hI.hb_le hb (by rw [clocks_getElem?, hj]; rfl) (by rw [clocks_getElem?, hi]; rfl)

/-- **thread clocks**: at the end of a run, thread `u` knows the own component of a ticking event `j` iff `j`
happens-before-or-equals a step of `u` or the `spawn` of `u` -/
theorem Run.vc_iff (hwf : WFX p) (hlen : p.threads.length ≤ 5) (h : Run p tr s) {j : Nat} {ej : Step}
    (hj : tr[j]? = some ej) (ht : (ej.ev p).ticks = true) (u : Nat) :
    ej.clock.get ej.t ≤ (s.vc u).get ej.t ↔ VisA (events p tr) j u := by
  obtain ⟨_, hI⟩ := h.inv hwf hlen
  have hje : (events p tr)[j]? = some (ej.ev p) := by rw [events_getElem?, hj]; rfl
  have hcj : (clocks tr)[j]? = some ej.clock := by rw [clocks_getElem?, hj]; rfl
  constructor
  · exact hI.knowT j _ _ hje hcj ht u
  · rintro ⟨i, a, hi, hor, hb⟩
    have hil := (List.getElem?_eq_some_iff.1 hi).1
    have hci : i < (clocks tr).length := by rw [hI.len]; exact hil
    have hci' := List.getElem?_eq_getElem hci
    have h1 : ej.clock.le (clocks tr)[i] := hI.hbeq_le hb hcj hci'
    have h2 : (clocks tr)[i].le (s.vc u) := by
      rcases hor with hor | hor
      · have := hI.clkT i a _ hi hci'; rw [hor] at this; exact this
      · exact hI.clkS i a _ u hi hci' hor
    exact get_mono (le_trans h1 h2) _

/-- **clocks of synchronisation objects**: the clock of `o` (a mutex, a rwlock, a `Notify`, the park token of a thread
that can still park) knows the own component of a ticking event `j` iff `j` happens-before-or-equals a release into
`o` -/
theorem Run.orel_iff (hwf : WFX p) (hlen : p.threads.length ≤ 5) (h : Run p tr s) {j : Nat} {ej : Step}
    (hj : tr[j]? = some ej) (ht : (ej.ev p).ticks = true) (o : Obj) (hd : ¬ Dead p (view s) o) :
    ej.clock.get ej.t ≤ ((view s).orel o).get ej.t ↔
      ∃ (i : Nat) (a : Event), (events p tr)[i]? = some a ∧ a.Rel o ∧ HBAeq (events p tr) j i := by
  obtain ⟨_, hI⟩ := h.inv hwf hlen
  have hje : (events p tr)[j]? = some (ej.ev p) := by rw [events_getElem?, hj]; rfl
  have hcj : (clocks tr)[j]? = some ej.clock := by rw [clocks_getElem?, hj]; rfl
  constructor
  · intro h
    obtain ⟨i, a, h1, h2, h3, _⟩ := hI.knowM j _ _ hje hcj ht o h
    exact ⟨i, a, h1, h2, h3⟩
  · rintro ⟨i, a, hi, hop, hb⟩
    have hil := (List.getElem?_eq_some_iff.1 hi).1
    have hci : i < (clocks tr).length := by rw [hI.len]; exact hil
    have hci' := List.getElem?_eq_getElem hci
    have h1 : ej.clock.le (clocks tr)[i] := hI.hbeq_le hb hcj hci'
    rcases hI.clkM i a _ o hi hci' hop with h2 | h2
    · exact get_mono (le_trans h1 h2) _
    · exact (hd h2).elim

/-- **cell clocks** (`cellW`): the write clock of cell `c` knows the own component of a ticking event `j` iff `j`
happens-before-or-equals a write of `c` -/
theorem Run.cellW_iff (hwf : WFX p) (hlen : p.threads.length ≤ 5) (h : Run p tr s) (hv : s.verdict = none) {j : Nat}
    {ej : Step} (hj : tr[j]? = some ej) (ht : (ej.ev p).ticks = true) (c : Nat) :
    ej.clock.get ej.t ≤ (s.cellW.getD c VV.zero).get ej.t ↔
      ∃ (i : Nat) (a : Event), (events p tr)[i]? = some a ∧ a.isWrite c ∧ HBAeq (events p tr) j i := by
  obtain ⟨_, hI⟩ := h.inv hwf hlen
  have hC := h.invC hwf hlen hv
  have hje : (events p tr)[j]? = some (ej.ev p) := by rw [events_getElem?, hj]; rfl
  have hcj : (clocks tr)[j]? = some ej.clock := by rw [clocks_getElem?, hj]; rfl
  constructor
  · intro hle
    rcases hC.cwLub c ej.t with h0 | ⟨i, a, k, hi, hk, hw, hg⟩
    · have := hI.pos j _ _ hje hcj ht
      have h0' : (s.cellW.getD c VV.zero).get ej.t = 0 := h0
      have : 1 ≤ ej.clock.get ej.t := this
      omega
    · have hg' : (s.cellW.getD c VV.zero).get ej.t = k.get ej.t := hg
      rw [hg'] at hle
      rw [events_getElem?] at hi
      cases hti : tr[i]? with
      | none => rw [hti] at hi; cases hi
      | some ei =>
        rw [hti] at hi
        rw [clocks_getElem?, hti] at hk
        cases hk; cases hi
        exact ⟨i, _, by rw [events_getElem?, hti]; rfl, hw, (h.clock_get_le_iff hwf hlen hj hti ht).1 hle⟩
  · rintro ⟨i, a, hi, hw, hb⟩
    have hil := (List.getElem?_eq_some_iff.1 hi).1
    have hci : i < (clocks tr).length := by rw [hI.len]; exact hil
    have hci' := List.getElem?_eq_getElem hci
    have h1 : ej.clock.le (clocks tr)[i] := hI.hbeq_le hb hcj hci'
    exact get_mono (le_trans h1 (hC.cwUb i a _ c hi hci' hw)) _

/-- **cell clocks** (`cellR`) -/
theorem Run.cellR_iff (hwf : WFX p) (hlen : p.threads.length ≤ 5) (h : Run p tr s) (hv : s.verdict = none) {j : Nat}
    {ej : Step} (hj : tr[j]? = some ej) (ht : (ej.ev p).ticks = true) (c : Nat) :
    ej.clock.get ej.t ≤ (s.cellR.getD c VV.zero).get ej.t ↔
      ∃ (i : Nat) (a : Event), (events p tr)[i]? = some a ∧ a.isRead c ∧ HBAeq (events p tr) j i := by
  obtain ⟨_, hI⟩ := h.inv hwf hlen
  have hC := h.invC hwf hlen hv
  have hje : (events p tr)[j]? = some (ej.ev p) := by rw [events_getElem?, hj]; rfl
  have hcj : (clocks tr)[j]? = some ej.clock := by rw [clocks_getElem?, hj]; rfl
  constructor
  · intro hle
    rcases hC.crLub c ej.t with h0 | ⟨i, a, k, hi, hk, hw, hg⟩
    · have := hI.pos j _ _ hje hcj ht
      have h0' : (s.cellR.getD c VV.zero).get ej.t = 0 := h0
      have : 1 ≤ ej.clock.get ej.t := this
      omega
    · have hg' : (s.cellR.getD c VV.zero).get ej.t = k.get ej.t := hg
      rw [hg'] at hle
      rw [events_getElem?] at hi
      cases hti : tr[i]? with
      | none => rw [hti] at hi; cases hi
      | some ei =>
        rw [hti] at hi
        rw [clocks_getElem?, hti] at hk
        cases hk; cases hi
        exact ⟨i, _, by rw [events_getElem?, hti]; rfl, hw, (h.clock_get_le_iff hwf hlen hj hti ht).1 hle⟩
  · rintro ⟨i, a, hi, hw, hb⟩
    have hil := (List.getElem?_eq_some_iff.1 hi).1
    have hci : i < (clocks tr).length := by rw [hI.len]; exact hil
    have hci' := List.getElem?_eq_getElem hci
    have h1 : ej.clock.le (clocks tr)[i] := hI.hbeq_le hb hcj hci'
    exact get_mono (le_trans h1 (hC.crUb i a _ c hi hci' hw)) _

end VCSound
end LoomVerif

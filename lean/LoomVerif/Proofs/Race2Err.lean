/-
Race exactness on the WAIT fragment: only the race checks of `cellRead` / `cellWrite` make a stage of a program of
the WAIT fragment (without `dropRx`) panic with a causality violation.
-/
import LoomVerif.Proofs.Race2Rel
import LoomVerif.Proofs.RaceMain

namespace LoomVerif
namespace Race2
open Refine Refine2 Sy C07 C08 Clocks Race

/-- the computation does not panic with a causality violation -/
def NoRaceE {α : Type} (x : Except Panic α) : Prop := ∀ k, x ≠ .error (.causality k)

theorem NoRaceE.ok {α : Type} (a : α) : NoRaceE (Except.ok a : Except Panic α) := by
  intro k h; cases h

theorem NoRaceE.pure {α : Type} (a : α) : NoRaceE (pure a : Except Panic α) := NoRaceE.ok a

theorem NoRaceE.err {α : Type} {e : Panic} (h : NoRace e) : NoRaceE (Except.error e : Except Panic α) := by
  intro k hk; cases hk; exact h k rfl

theorem NoRaceE.of_nr {α : Type} {x : Except Panic α} (h : ∀ e, x = .error e → NoRace e) : NoRaceE x := by
  intro k hk; exact h _ hk k rfl

theorem NoRaceE.bind {α β : Type} {x : Except Panic α} {f : α → Except Panic β} (hx : NoRaceE x)
    (hf : ∀ a, x = .ok a → NoRaceE (f a)) : NoRaceE (x >>= f) := by
  intro k h
  rcases bind_err h with h1 | ⟨a, ha, h1⟩
  · exact hx k h1
  · exact hf a ha k h1

/-! ### the scheduler -/

theorem branch_nre (w : World) (o : Nat) (a : Action) (blk wt : Bool) : NoRaceE (w.branch o a blk wt) :=
  NoRaceE.of_nr fun _ h => branch_nr h

theorem threadDone_nre (w : World) : NoRaceE w.threadDone := NoRaceE.of_nr fun _ h => threadDone_nr h

theorem yieldNow_nr {w : World} {e : Panic} (h : w.yieldNow = .error e) : NoRace e := by
  unfold World.yieldNow at h
  simp only [bind, Except.bind, pure, Except.pure] at h
  split at h
  · next err hs => cases h; exact schedule_nr hs
  · cases h

theorem blockNow_nr {w : World} {e : Panic} (h : w.blockNow = .error e) : NoRace e := by
  unfold World.blockNow at h
  simp only [bind, Except.bind, pure, Except.pure] at h
  split at h
  · next err hs => cases h; exact schedule_nr hs
  · cases h

theorem parkNow_nr {w : World} {e : Panic} (h : w.parkNow = .error e) : NoRace e := by
  unfold World.parkNow at h
  simp only [bind, Except.bind, pure, Except.pure] at h
  split at h
  · cases h
  · split at h
    · next err hs => cases h; exact schedule_nr hs
    · cases h

theorem yieldNow_nre (w : World) : NoRaceE w.yieldNow := NoRaceE.of_nr fun _ h => yieldNow_nr h
theorem blockNow_nre (w : World) : NoRaceE w.blockNow := NoRaceE.of_nr fun _ h => blockNow_nr h
theorem parkNow_nre (w : World) : NoRaceE w.parkNow := NoRaceE.of_nr fun _ h => parkNow_nr h

/-! ### the objects -/

theorem getMutex_nre (w : World) (o : Nat) : NoRaceE (w.getMutex o) := by
  unfold World.getMutex; split
  · exact .ok _
  · exact .err (by intro k; simp)

theorem getCv_nre (w : World) (o : Nat) : NoRaceE (w.getCv o) := by
  unfold World.getCv; split
  · exact .ok _
  · exact .err (by intro k; simp)

theorem getNotify_nre (w : World) (o : Nat) : NoRaceE (w.getNotify o) := by
  unfold World.getNotify; split
  · exact .ok _
  · exact .err (by intro k; simp)

theorem getChan_nre (w : World) (o : Nat) : NoRaceE (w.getChan o) := by
  unfold World.getChan; split
  · exact .ok _
  · exact .err (by intro k; simp)

theorem postAcquire_nre (w : World) (o : Nat) : NoRaceE (w.postAcquire o) := by
  unfold World.postAcquire
  refine .bind (getMutex_nre w o) fun m _ => ?_
  split
  · exact .pure _
  · exact .pure _

theorem releaseLock_nre (w : World) (o : Nat) : NoRaceE (w.releaseLock o) := by
  unfold World.releaseLock
  refine .bind (getMutex_nre w o) fun m _ => ?_
  dsimp only
  split
  · exact .pure _
  · exact .pure _

theorem branchSpurious_nre (p : Path) (pk : Bool) : NoRaceE (p.branchSpurious pk) := by
  have jp : ∀ p' : Path, NoRaceE (match p'.branches[p'.pos]? with
      | some (.spur s) => (.ok ({ p' with pos := p'.pos + 1 }, s.spur) : Except Panic (Path × Bool))
      | _ => .error .nondet) := by
    intro p'
    split
    · exact .ok _
    · exact .err (by intro k; simp)
  unfold Path.branchSpurious
  dsimp only
  split
  · refine .bind ?_ fun _ _ => .bind (.pure _) fun _ _ => jp _
    unfold Path.assertLen
    split
    · exact .ok _
    · exact .err (by intro k; simp)
  · exact .bind (.pure _) fun _ _ => jp _

theorem notifyWait1_nre (w : World) (o : Nat) : NoRaceE (w.notifyWait1 o) := by
  unfold World.notifyWait1
  refine .bind (getNotify_nre w o) fun s _ => ?_
  have jp : ∀ x : World × Bool, NoRaceE (match x with
      | (w, spurious) =>
        have s :=
          if spurious = true then { s with didSpur := true } else s;
        have w := w.setObj o (Obj.notify s);
        if spurious = true then do
          let w ← w.yieldNow
          pure (w, 2)
        else do
          let w ← w.branch o Action.opaque (!s.notified) !s.notified
          (pure (w, 1) : Except Panic (World × Nat))) := by
    rintro ⟨w1, sp⟩
    dsimp only
    split
    · exact .bind (yieldNow_nre _) fun _ _ => .pure _
    · exact .bind (branch_nre _ _ _ _ _) fun _ _ => .pure _
  dsimp only
  split
  · refine .bind (branchSpurious_nre _ _) fun x _ => ?_
    obtain ⟨p, b⟩ := x
    exact .bind (.pure _) fun _ _ => jp _
  · exact .bind (.pure _) fun _ _ => jp _

theorem notifyWait1_nr {w : World} {o : Nat} {e : Panic} (h : w.notifyWait1 o = .error e) : NoRace e := by
  intro k hk; subst hk; exact notifyWait1_nre w o k h

theorem notifyWait2_nre (w : World) (o : Nat) : NoRaceE (w.notifyWait2 o) := by
  unfold World.notifyWait2
  refine .bind (getNotify_nre w o) fun s _ => ?_
  split
  · exact .err (by intro k; simp)
  · exact .pure _

theorem notifyEffect_nre (w : World) (o : Nat) : NoRaceE (w.notifyEffect o) := by
  unfold World.notifyEffect
  exact .bind (getNotify_nre w o) fun s _ => .pure _

theorem sendEffect_nre (w : World) (o : Nat) (v : Int) : NoRaceE (w.sendEffect o v) := by
  unfold World.sendEffect
  refine .bind (getChan_nre w o) fun s _ => ?_
  dsimp only
  split
  · exact .pure _
  · exact .pure _

theorem recvEffect_nre (w : World) (o : Nat) : NoRaceE (w.recvEffect o) := by
  intro k h
  unfold World.recvEffect at h
  rcases bind_err h with h1 | ⟨s, _, h1⟩
  · exact getChan_nre w o k h1
  · simp only [bind, Except.bind, pure, Except.pure, throw, throwThe, MonadExceptOf.throw] at h1
    repeat' split at h1
    all_goals cases h1

theorem threadOf_nre (w : World) (b : Nat) : NoRaceE (w.threadOf b) := by
  unfold World.threadOf
  split
  · exact .ok _
  · split
    · exact .ok _
    · exact .err (by intro k; simp)

theorem lookupSpawn_nre (w : World) (b : Nat) : NoRaceE (w.lookupSpawn b) := by
  unfold World.lookupSpawn
  split
  · exact .ok _
  · exact .err (by intro k; simp)

theorem newThread_nre (e : Exec) : NoRaceE e.newThread := by
  intro k he
  unfold Exec.newThread at he
  simp only [bind, Except.bind, pure, Except.pure] at he
  split at he
  · next e' hn =>
    cases he
    unfold Threads.newThread at hn
    split at hn <;> cases hn
  · cases he

/-! ### the operations of the fragment other than the cell accesses -/

theorem expectedLock_tail_nre (x : World × Bool) :
    NoRaceE (match x with
      | (w', okk) => (do
        if !okk then throw Panic.expectedLock
        pure (w'.complete .unit) : Except Panic World)) := by
  obtain ⟨w', okk⟩ := x
  intro k h
  cases okk <;> cases h

theorem runOp_lock_nre (w : World) (c : TCtl) (m : Nat) : NoRaceE (w.runOp c (.lock m)) := by
  rw [runOp_lock]
  split
  · exact .bind (getMutex_nre _ _) fun _ _ => branch_nre _ _ _ _ _
  · exact .bind (postAcquire_nre _ _) fun x _ => expectedLock_tail_nre x

theorem runOp_tryLock_nre (w : World) (c : TCtl) (m : Nat) : NoRaceE (w.runOp c (.tryLock m)) := by
  rw [runOp_tryLock]
  split
  · exact branch_nre _ _ _ _ _
  · exact .bind (postAcquire_nre _ _) fun x _ => .pure _

theorem runOp_unlock_nre (w : World) (c : TCtl) (m : Nat) : NoRaceE (w.runOp c (.unlock m)) := by
  rw [runOp_unlock]
  exact .bind (releaseLock_nre _ _) fun x _ => .pure _

theorem runOp_spawn_nre (w : World) (c : TCtl) (b : Nat) : NoRaceE (w.runOp c (.spawn b)) := by
  rw [runOp_spawn]
  dsimp only [World.pushObj]
  exact .bind (newThread_nre _) fun x _ => .pure _

theorem runOp_join_nre (w : World) (c : TCtl) (b : Nat) : NoRaceE (w.runOp c (.join b)) := by
  rw [runOp_join]
  refine .bind (lookupSpawn_nre _ _) fun x _ => ?_
  obtain ⟨j, n⟩ := x
  dsimp only
  split
  · exact .bind (notifyWait1_nre _ _) fun x _ => .pure _
  · exact .bind (notifyWait2_nre _ _) fun x _ => .pure _
  · exact .pure _

theorem runOp_ifEq_nre (w : World) (c : TCtl) (i : Nat) (r : Ret) (n : Nat) :
    NoRaceE (w.runOp c (.ifEq i r n)) := by
  intro k h
  rw [runOp_ifEq] at h
  split at h <;> cases h

theorem runOp_send_nre (w : World) (c : TCtl) (q : Nat) (v : Int) : NoRaceE (w.runOp c (.send q v)) := by
  simp only [World.runOp]
  split
  · exact branch_nre _ _ _ _ _
  · exact .bind (sendEffect_nre _ _ _) fun x _ => .pure _

theorem runOp_recv_nre (w : World) (c : TCtl) (q : Nat) : NoRaceE (w.runOp c (.recv q)) := by
  simp only [World.runOp]
  split
  · exact .bind (getChan_nre _ _) fun _ _ => branch_nre _ _ _ _ _
  · exact .bind (recvEffect_nre _ _) fun x _ => .pure _

theorem runOp_tryRecv_nre (w : World) (c : TCtl) (q : Nat) : NoRaceE (w.runOp c (.tryRecv q)) := by
  simp only [World.runOp]
  split
  · refine .bind (getChan_nre _ _) fun _ _ => ?_
    split
    · exact .pure _
    · exact branch_nre _ _ _ _ _
  · exact .bind (recvEffect_nre _ _) fun x _ => .pure _

theorem runOp_nWait_nre (w : World) (c : TCtl) (n : Nat) : NoRaceE (w.runOp c (.nWait n)) := by
  rw [runOp_nWait]
  split
  · intro k h
    simp only [bind, Except.bind, pure, Except.pure, throw, throwThe, MonadExceptOf.throw] at h
    split at h
    · cases h
    · split at h
      · next e he => cases h; exact notifyWait1_nre _ _ k he
      · cases h
  · exact .bind (notifyWait2_nre _ _) fun x _ => .pure _
  · exact .pure _

theorem runOp_nNotify_nre (w : World) (c : TCtl) (n : Nat) : NoRaceE (w.runOp c (.nNotify n)) := by
  rw [runOp_nNotify]
  split
  · exact branch_nre _ _ _ _ _
  · exact .bind (notifyEffect_nre _ _) fun x _ => .pure _

theorem runOp_park_nre (w : World) (c : TCtl) : NoRaceE (w.runOp c .park) := by
  rw [runOp_park]
  split
  · exact parkNow_nre _
  · exact .pure _

theorem runOp_unpark_nre (w : World) (c : TCtl) (b : Nat) : NoRaceE (w.runOp c (.unpark b)) := by
  rw [runOp_unpark]
  exact .bind (threadOf_nre _ _) fun x _ => .pure _

theorem runOp_cvWait_nre (w : World) (c : TCtl) (v m : Nat) : NoRaceE (w.runOp c (.cvWait v m)) := by
  rw [runOp_cvWait]
  split
  · exact branch_nre _ _ _ _ _
  · exact .bind (getCv_nre _ _) fun _ _ => .bind (releaseLock_nre _ _) fun _ _ => blockNow_nre _
  · exact .bind (getMutex_nre _ _) fun _ _ => branch_nre _ _ _ _ _
  · exact .bind (postAcquire_nre _ _) fun x _ => expectedLock_tail_nre x

theorem runOp_cvOne_nre (w : World) (c : TCtl) (v : Nat) : NoRaceE (w.runOp c (.cvOne v)) := by
  rw [runOp_cvOne]
  split
  · exact branch_nre _ _ _ _ _
  · refine .bind (getCv_nre _ _) fun _ _ => ?_
    split
    · exact .pure _
    · exact .pure _

theorem runOp_cvAll_nre (w : World) (c : TCtl) (v : Nat) : NoRaceE (w.runOp c (.cvAll v)) := by
  rw [runOp_cvAll]
  split
  · exact branch_nre _ _ _ _ _
  · exact .bind (getCv_nre _ _) fun _ _ => .pure _

/-! ### the epilogue -/

theorem runEpilogue_nre (w : World) (hdq : (w.ctlOf w.tid).dtorQueue = []) :
    NoRaceE (w.runEpilogue (w.ctlOf w.tid)) := by
  intro k h
  by_cases h10 : 10 ≤ (w.ctlOf w.tid).fin
  · rw [runEpilogue_finish w _ h10] at h
    unfold World.finishThread at h
    split at h
    · cases h
    · rw [dropPass_eq] at h
      split at h
      · cases h
      · split at h
        · rw [hdq] at h
          simp only at h
          exact threadDone_nr h k rfl
        · rw [hdq] at h
          cases h
  · have hlt : (w.ctlOf w.tid).fin < 10 := by omega
    by_cases ht0 : w.tid = 0
    · rw [runEpilogue_main w _ ht0 hlt] at h
      cases h
    · cases hf : w.spawned.find? (·.2.1 == w.tid) with
      | none =>
        unfold World.runEpilogue at h
        simp [h10, ht0, hf, throw, throwThe, MonadExceptOf.throw] at h
      | some e =>
        obtain ⟨b, t, n⟩ := e
        have := List.find?_some hf
        simp only [beq_iff_eq] at this
        subst this
        rw [runEpilogue_spawned w _ b n ht0 hf hlt] at h
        split at h
        · cases h
        · split at h
          · rw [dropPass_eq] at h
            split at h
            · cases h
            · split at h
              · rw [hdq] at h
                simp only at h
                exact branch_nr h k rfl
              · rw [hdq] at h
                cases h
          · exact (NoRaceE.bind (notifyEffect_nre _ _) fun x _ => .pure _) k h

/-! ### the theorem -/

/-- the active thread is about to execute a cell access of a declared cell -/
def AtCell2 (w : World) : Prop :=
  (∃ c, opAt2 w = some (.cellRead c) ∧ c < w.prog.cfg.nCells) ∨
  (∃ c v, opAt2 w = some (.cellWrite c v) ∧ c < w.prog.cfg.nCells)

/-- a stage of a program of the WAIT fragment (without `dropRx`) that panics with a causality violation is the race
check of a `cellRead` or a `cellWrite` -/
theorem causality_only_at_cells2 {w : World} {s : SC.St} (hwf : WF3 w.prog) (hRC : RC2 w s)
    (hact : w.tid < w.ctl.length) {k : Nat} (h : w.stepActive = .error (.causality k)) : AtCell2 w := by
  obtain ⟨_, hrel, _⟩ := base2 hRC.r.c hact
  cases hop : opAt2 w with
  | none =>
    exfalso
    rw [stepActive_eq_epilogue (show opAt w = none from hop)] at h
    exact runEpilogue_nre w hrel.2.2.2.2.2.2 k h
  | some op =>
    rw [stepActive_eq_runOp (show opAt w = some op from hop)] at h
    have hop' : (w.prog.threads.getD (w.ctlOf w.tid).body [])[(w.ctlOf w.tid).pc]? = some op := hop
    have hok := hwf.1.opOk hop'
    cases op <;> simp only [Refine2.opOk, Bool.false_eq_true, Bool.and_eq_true, decide_eq_true_eq] at hok
    case cellRead c => exact .inl ⟨c, hop, hok⟩
    case cellWrite c v => exact .inr ⟨c, v, hop, hok⟩
    case lock m => exact absurd h (runOp_lock_nre _ _ _ k)
    case tryLock m => exact absurd h (runOp_tryLock_nre _ _ _ k)
    case unlock m => exact absurd h (runOp_unlock_nre _ _ _ k)
    case spawn b => exact absurd h (runOp_spawn_nre _ _ _ k)
    case join b => exact absurd h (runOp_join_nre _ _ _ k)
    case ifEq i r n => exact absurd h (runOp_ifEq_nre _ _ _ _ _ k)
    case send q v => exact absurd h (runOp_send_nre _ _ _ _ k)
    case recv q => exact absurd h (runOp_recv_nre _ _ _ k)
    case tryRecv q => exact absurd h (runOp_tryRecv_nre _ _ _ k)
    case dropRx q => exact (hwf.noDrop hop').elim
    case nWait n => exact absurd h (runOp_nWait_nre _ _ _ k)
    case nNotify n => exact absurd h (runOp_nNotify_nre _ _ _ k)
    case park => exact absurd h (runOp_park_nre _ _ k)
    case unpark b => exact absurd h (runOp_unpark_nre _ _ _ k)
    case cvWait v m => exact absurd h (runOp_cvWait_nre _ _ _ _ k)
    case cvOne v => exact absurd h (runOp_cvOne_nre _ _ _ k)
    case cvAll v => exact absurd h (runOp_cvAll_nre _ _ _ k)

end Race2
end LoomVerif

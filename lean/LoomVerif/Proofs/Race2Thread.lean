/-
Race exactness on the WAIT fragment, part 12: `join` (the joiner may already have acquired the clock of the thread
it joins), the thread epilogue (the notification of the joiner publishes the final causality) and `spawn`.
-/
import LoomVerif.Proofs.Race2Rel

namespace LoomVerif
namespace Race2
open Refine Refine2 Sy C07 C08 Clocks Race

section
variable {w w' : World} {s : SC.St}

/-! ### generalities -/

/-- a thread whose epilogue has begun is at no operation -/
theorem opAtI_none_of_fin (hRC : RC2 w s) {j : Nat} (hj : j < w.ctl.length) (hf : fin w j ≠ 0) :
    opAtI w j = none := hRC.r.c.x.epi j hj hf

/-- for a thread at `join` the pending clock is the clock of the `JoinHandle` notify -/
theorem pendClk_join {σ : CS} {i b : Nat} (hop : opAtI w i = some (.join b)) : pendClk w σ i = pendHb w i := by
  unfold pendClk
  rw [hop]

/-- a finished thread: the ghost clock is the causality -/
theorem eq_caus_fin (hRC : RC2 w s) {σ : CS} {mq : Nat → List VV} (hL : LinkT2 w σ mq) {j : Nat}
    (hj : j < w.ctl.length) (hf : fin w j ≠ 0) : σ.thr j = tcaus w j :=
  eq_caus2 hL (by rw [← nthr_eq2 hRC.r]; exact hj) (pendClk_end (opAtI_none_of_fin hRC hj hf))

theorem pend_none_of_fin2 (hRC : RC2 w s) {j : Nat} (hj : j < w.ctl.length) (hf : fin w j ≠ 0) :
    pend w j = none := by
  apply pend_notJoin
  intro b hb
  rw [opAtI_none_of_fin hRC hj hf] at hb; cases hb

/-- replacing a notify object by one with the same clock -/
theorem SameObj.set_notify {os : List Obj} {o : Nat} {ns ns' : NotifySt} (hx : os[o]? = some (.notify ns))
    (hhb : ns'.sync.hb = ns.sync.hb) (n : Nat) : SameObj os (os.set o (.notify ns')) n :=
  SameObj.set_same (x' := .notify ns') hx hhb rfl rfl (fun _ => rfl) (by intro cs; simp) (by intro cs; simp) n

/-! ### `join` -/

theorem clk_join2 (hRC : RC2 w s) (hact : w.tid < w.ctl.length) {b : Nat} (hop : opAt2 w = some (.join b))
    (h : w.runOp (w.ctlOf w.tid) (.join b) = .ok w') : QuietOut2 w s w' ∨ RealOut2 w s w' := by
  obtain ⟨_, hrel, _⟩ := base2 hRC.r.c hact
  have hC : pendCv w.prog (w.ctlOf w.tid) = none := pendCv_of_op hop (by simp)
  have hcv : (s.th (body w w.tid)).cvNotified = none := (frag_cv hRC hact hC).2
  have ho : SC.opOf w.prog s (body w w.tid) = some (.join b) := (opOf_eq2 hRC.r hact).trans hop
  have hbt := body_lt_ths2 hRC.r hact
  have ht := nthr_tid2 hRC hact
  have hf0 : fin w w.tid = 0 := fin0 hRC hact hop
  rw [runOp_join] at h
  obtain ⟨⟨j, n⟩, hl, h⟩ := bind_ok h
  obtain ⟨hmem, hjn⟩ := lookup_jn hl
  obtain ⟨hjlt, hjbody, nt, ds, hv, hnt⟩ := hRC.r.c.o.y.sp b j n hmem
  obtain ⟨ns, hobj, hspur, hnotified, _⟩ := objView2_notify hv
  have hst : (w.ctlOf w.tid).stage = 0 ∨ (w.ctlOf w.tid).stage = 1 := by
    have := hrel.2.2.2.2.1
    have hop' : opOfCtl w.prog (w.ctlOf w.tid) = some (.join b) := hop
    rw [hop'] at this
    simp only [maxStage] at this
    omega
  rcases hst with hst | hst
  · left
    simp only [hst] at h
    obtain ⟨⟨w1, st⟩, h1, h⟩ := bind_ok h
    rw [notifyWait1_plain hobj (by rw [hspur]; rfl)] at h1
    obtain ⟨w2, hb, he⟩ := map_ok h1
    rw [Prod.mk.injEq] at he
    obtain ⟨e1, e2⟩ := he
    subst e1; subst e2
    simp only [pure, Except.pure] at h
    cases h
    obtain ⟨hq, hc, _⟩ := branch_quiet2 hb
    have hso : SchedOut w (w1.modCtl w.tid fun c => { c with stage := 1 }) (some n) :=
      (branch_sched hb ht).exec_congr rfl
    refine quiet_core2 hRC hact (fun c => { c with stage := 1 }) (fun σ => pendClk_stage0 (by rw [hst]; decide))
      (pend_stage0 (by rw [hst]; decide)) hso hq.prog hq.spawned hq.events
      (by show w1.ctl.modify _ _ = _; rw [hc]) rfl Iff.rfl ?_ ?_
    · intro o ho'
      cases ho'
      refine ⟨sp_lt2 hRC.r hmem, .inr ?_⟩
      intro b' j' n' _ e _
      subst e
      have hself : (w1.modCtl w.tid fun c => { c with stage := 1 }).ctlOf w.tid =
          { w.ctlOf w.tid with stage := 1 } := by
        have := ctlOf_modCtl_self w1 w.tid (fun c => { c with stage := 1 }) (by rw [hc]; exact hact)
        rw [this]
        unfold World.ctlOf; rw [hc]
      unfold pend
      rw [hself]
      simp only [if_true]
      have hop' : opAtI (w1.modCtl w.tid fun c => { c with stage := 1 }) w.tid = some (.join b) := by
        unfold opAtI
        rw [hself]
        show (w1.prog.threads.getD (w.ctlOf w.tid).body [])[(w.ctlOf w.tid).pc]? = _
        rw [hq.prog]; exact hop
      rw [hop']
      show jn (w1.modCtl w.tid fun c => { c with stage := 1 }) b = some _
      unfold jn
      show (w1.spawned.find? _).map _ = _
      rw [hq.spawned]
      exact hjn
    · intro d' _ hst' _
      exact no_silent hRC hact hop (by intro i r n; simp) (by intro v m; simp) d' hst'
  · right
    simp only [hst] at h
    obtain ⟨w1, h1, h⟩ := bind_ok h
    have hn1 : ns.notified = true := by
      cases hnt' : ns.notified with
      | false => rw [notifyWait2_unnotified hobj hnt'] at h1; cases h1
      | true => rfl
    rw [notifyWait2_notified hobj hn1] at h1
    obtain rfl : w1 = (w.setThs (w.ths.setCaus (w.ths.caus.join ns.sync.hb))).setObj n
        (.notify { ns with notified := false }) := by cases h1; rfl
    simp only [pure, Except.pure] at h
    cases h
    obtain ⟨σT, σR, mT, mR, hc⟩ := hRC.clk
    -- the joined thread has passed its notification; its clock is the clock of the notify
    have hfj : 10 ≤ fin w j := hnt (by rw [← hnotified]; exact hn1)
    have hjt : j ≠ w.tid := by intro e; rw [e, hf0] at hfj; omega
    have hhb : ns.sync.hb = σT.thr j := by
      have := hRC.inv.nhb b j n hmem
      rw [objHb_of hobj, if_pos hfj] at this
      rw [eq_caus_fin hRC hc.lt hjlt (by omega)]
      exact this
    have hpt : pend w w.tid = some n := by
      unfold pend
      rw [if_pos hst, opAtI_tid2, hop]
      exact hjn
    have hphb : pendClk w σT w.tid = ns.sync.hb := by
      rw [pendClk_join (by rw [opAtI_tid2]; exact hop)]
      unfold pendHb; rw [hpt]; exact objHb_of hobj
    -- the joiner's causality after the wait
    have hcaus : (tcaus w w.tid).join ns.sync.hb = (σT.thr w.tid).join (σT.thr j) := by
      rw [← hhb]
      have h1 := hc.lt.lo w.tid ht
      have h2 := hc.lt.hi w.tid ht
      rw [hphb] at h2
      exact (sandwich_join h1 h2).symm
    have hbj : body w j = b := hjbody
    have hget : ∀ i, ((w.setThs (w.ths.setCaus (w.ths.caus.join ns.sync.hb))).setObj n
        (.notify { ns with notified := false })).ths.get i =
        if i = w.tid ∧ i < nthr w then { w.ths.get i with causality := w.ths.caus.join ns.sync.hb }
        else w.ths.get i := fun i => Clocks.get_setCaus w.ths _ i
    have hsameO : ∀ n', SameObj w.exec.objs (w.exec.objs.set n (.notify { ns with notified := false })) n' :=
      fun n' => SameObj.set_notify (ns' := { ns with notified := false }) hobj rfl n'
    have hself : ((w.setThs (w.ths.setCaus (w.ths.caus.join ns.sync.hb))).setObj n
        (.notify { ns with notified := false })).ths.get w.tid =
        { w.ths.get w.tid with causality := w.ths.caus.join ns.sync.hb } := by
      rw [hget, if_pos ⟨rfl, ht⟩]
    have hother : ∀ i, i ≠ w.tid → ((w.setThs (w.ths.setCaus (w.ths.caus.join ns.sync.hb))).setObj n
        (.notify { ns with notified := false })).ths.get i = w.ths.get i := by
      intro i hi; rw [hget, if_neg (fun hh => hi hh.1)]
    have hI := complete_core2 (w' := ((w.setThs (w.ths.setCaus (w.ths.caus.join ns.sync.hb))).setObj n
        (.notify { ns with notified := false })).complete .unit) hRC hact hop hc.lt
      (σT' := σT.acq w.tid (σT.thr j)) (mT' := mT) _ .unit rfl rfl rfl rfl rfl
      (by show (w.ths.setCaus _).threads.length = _; simp [nthr, World.ths])
      (by show (w.exec.objs.set _ _).length = _; simp)
      (fun i hi => sameThr_of_key5 (by rw [hother i hi]))
      (by unfold trel; rw [hself])
      (by unfold topo; rw [hself])
      (by unfold tuc; rw [hself])
      (by unfold ttok; rw [hself])
      (by unfold tcaus; rw [hself]; exact le_join_left _ _)
      (by
        intro i hi
        show upd σT.thr w.tid _ i = _
        rw [upd_ne _ _ hi])
      (by
        show upd σT.thr w.tid _ w.tid = _
        rw [upd_self, ← hcaus]
        unfold tcaus; rw [hself]
        rfl)
      (fun _ => le_refl _) (fun _ => rfl)
      (by
        intro n' hn' b' j' hm'
        rw [hpt] at hn'
        cases hn'
        have := hRC.r.c.o.y.spn _ _ hm' hmem rfl
        simp only at this
        rw [this]; exact hfj)
      (fun b' j' n' _ => (hsameO n').hb)
      (fun m' _ => .inl ⟨hsameO _, rfl⟩) (fun n' _ => .inl ⟨hsameO _, rfl⟩) (fun q _ => .inl ⟨hsameO _, rfl, rfl⟩)
      (fun c _ => .inl ⟨hsameO _, fun _ => rfl⟩)
    have hX1 := hc.x.tickR hc.gt hc.gr (inj_body2 hRC.r) w.tid hact
    have hvb : (s.tick (body w w.tid)).vc b = (σR.tick (body w w.tid)).thr (body w j) := by
      rw [hbj]
      exact ((hc.lr.tick hbt).thr b).symm
    refine realOut_complete hRC hact hop (by intro n; simp) _ _ rfl rfl (step_join hcv ho) ?_
    refine newSt_complete hact _ .unit rfl rfl hRC.fs.1 hRC.nd ⟨hI.1, hI.2.1⟩ hI.2.2
      (σR' := (σR.tick (body w w.tid)).acq (body w w.tid) ((σR.tick (body w w.tid)).thr (body w j))) (mR' := mR) ?_
      (hc.gt.acqT _ _) ((hc.gr.tick _).acqT _ _) (hX1.acqT (inj_body2 hRC.r) w.tid hact j hjlt) ?_ ?_ ?_
    · rw [← hvb]
      exact ((hc.lr.tick hbt).acquire (by rw [tick_len2]; exact hbt) _).ret _ _
    · intro q hq
      exact (hc.mx q hq).imp fun _ _ hh => hh.ev rfl rfl
    · intro q Z hq hZ
      exact (hc.mgt q Z hq hZ).acq _ _
    · intro q Z hq hZ
      exact ((hc.mgr q Z hq hZ).tick _).acq _ _

end

end Race2
end LoomVerif

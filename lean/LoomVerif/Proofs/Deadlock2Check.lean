/-
Deadlock soundness, WAIT fragment, part 18: the hypotheses on the execution record hold for every iteration of
`Check.run` (`Builder::check`) whose predecessors satisfy the run-level condition `okRun`: the thread table is fresh
(`Exec.new`, `Exec.step`) and every `Schedule` entry of the path `Path.step` leaves behind has an active thread.
-/
import LoomVerif.Proofs.Deadlock2Run
import LoomVerif.Proofs.DeadlockCheck
import LoomVerif.Proofs.InterpMaxTh
import LoomVerif.Proofs.CheckLoop

namespace LoomVerif
namespace Deadlock2
open Refine Refine2 Sy Deadlock

theorem branchSpurious_allOK {p p' : Path} {pk bs : Bool} (h : p.branchSpurious pk = .ok (p', bs))
    (hw : p.WF) (hok : AllOK p) : p'.WF ∧ AllOK p' := by
  unfold Path.branchSpurious at h
  by_cases ht : p.isTraversed = true
  · simp only [ht, if_true, bind, Except.bind, pure, Except.pure] at h
    split at h
    · cases h
    · split at h
      · cases h
        constructor
        · intro e he
          simp only [List.mem_append, List.mem_singleton] at he
          rcases he with he | rfl
          · exact hw e he
          · exact trivial
        · intro e he
          simp only [List.mem_append, List.mem_singleton] at he
          rcases he with he | rfl
          · exact hok e he
          · rfl
      · cases h
  · simp only [ht, if_false, bind, Except.bind, pure, Except.pure, Bool.false_eq_true] at h
    split at h
    · cases h
      exact ⟨hw, hok⟩
    · cases h

/-- the path invariant of `Proofs/DeadlockCheck.lean` along one stage -/
theorem PStep.PI {p p' : Path} {a : Bool} (h : PStep p p' a) (hw : p.WF) (hok : AllOK p) :
    p'.WF ∧ AllButLastOK p' ∧ (a = true → AllOK p') := by
  cases h with
  | same => exact ⟨hw, hok.butLast, fun _ => hok⟩
  | sched e e' pk b he hs =>
    exact schedule_PI hs (by rw [he]; exact hw) (by rw [he]; exact hok)
  | spur p1 bs pk' e e' pk b h1 he hs =>
    obtain ⟨hw1, hok1⟩ := branchSpurious_allOK h1 hw hok
    exact schedule_PI hs (by rw [he]; exact hw1) (by rw [he]; exact hok1)

/-- the path invariant along `runLoop`: a run that satisfies `okRun` and completes ends in a world whose path is
well-formed and all of whose `Schedule` entries but possibly the last have an active thread -/
theorem runLoop_PI2 (p : Prog) (hwf : WFD p) :
    ∀ (fuel : Nat) (w w' : World) (s : SCData2), w.prog = p → RB2 w s → InRange w → PI w →
      okRun fuel w = true → World.runLoop fuel w = (w', none) →
      w'.exec.path.WF ∧ AllButLastOK w'.exec.path := by
  intro fuel
  induction fuel with
  | zero =>
    intro w w' s _ _ _ _ _ h
    simp [World.runLoop] at h
  | succ fuel ih =>
    intro w w' s hp hRB hrange hpi hok h
    unfold World.runLoop at h
    unfold okRun at hok
    split at h
    · simp only [Prod.mk.injEq, and_true] at h
      subst h
      exact ⟨hpi.1, hpi.2.1⟩
    · next hact =>
      have hact' : w.ths.isActive = true := by simpa using hact
      have hin : w.tid < w.ctl.length := by rw [hRB.r.c.lenCtl]; exact hrange hact'
      rw [if_neg hact] at hok
      simp only [Bool.and_eq_true] at hok
      split at h
      · cases h
      · next w1 hstep =>
        have hok1 : okRun fuel w1 = true := by
          have := hok.2
          rw [hstep] at this
          exact this
        obtain ⟨⟨hp1, hsim⟩, hr1, hT⟩ := step_pres2 (by rw [hp]; exact hwf) hRB hact' hin hok.1 hstep
        have hpi1 : PI w1 := hT.PI hpi.1 (hpi.2.2 hact')
        rcases hsim with ⟨hR1, _⟩ | ⟨_, s1, _, hR1, _⟩
        · exact ih w1 w' s (hp1.trans hp) hR1 hr1 hpi1 hok1 h
        · exact ih w1 w' s1 (hp1.trans hp) hR1 hr1 hpi1 hok1 h

/-- what `Check.loop` keeps of the execution record from one iteration to the next: it is the fresh execution
of its path, well-formed, all of whose `Schedule` entries have an active thread -/
def IterInv2 (mt : Nat) (e : Exec) : Prop := e = Check.freshE mt e.path ∧ e.path.WF ∧ AllOK e.path

theorem IterInv2.fresh {mt : Nat} {e : Exec} (h : IterInv2 mt e) : FreshExec2 e := by
  rw [h.1]; exact ⟨rfl, rfl⟩

theorem iterInv2_initExec (c : Cfg) : IterInv2 c.maxThreads (Check.initExec c) :=
  ⟨rfl, wf_new _ _ _, allOK_new _ _ _⟩

/-- `okRun` for one iteration -/
def okIter2 (prog : Prog) (exec : Exec) (fuel : Nat := 200000) : Bool :=
  match World.init prog exec with
  | .ok w0 => okRun fuel w0
  | .error _ => false

/-- an iteration that satisfies `okRun` and completes leaves an execution record that satisfies the hypotheses
again -/
theorem runIter_iterInv2 {prog : Prog} {e e' : Exec} {fuel mt : Nat} (hwf : WFD prog) (hi : IterInv2 mt e)
    (hok : okIter2 prog e fuel = true)
    (hterm : (runIter prog e fuel).term = none) (hstep : (runIter prog e fuel).exec.step = some e') :
    IterInv2 mt e' := by
  have hmt : (runIter prog e fuel).exec.maxThreads = mt := by
    rw [runIter_maxThreads, hi.1]; rfl
  obtain ⟨_, _, _, _, _, hfe⟩ := Check.step_resets hstep
  rw [hmt] at hfe
  refine ⟨hfe, ?_⟩
  unfold runIter at hterm hstep
  unfold okIter2 at hok
  cases hinit : World.init prog e with
  | error err => rw [hinit] at hterm; cases hterm
  | ok w0 =>
    rw [hinit] at hterm hstep hok
    simp only at hterm hstep hok
    generalize hr : World.runLoop fuel w0 = res at hterm hstep
    obtain ⟨w, r⟩ := res
    cases r with
    | some err => cases hterm
    | none =>
      simp only at hterm hstep
      replace hstep : w.exec.step = some e' := by
        cases hc : w.exec.objs.checkForLeaks <;> rw [hc] at hstep <;> exact hstep
      obtain ⟨hRB, hp, _⟩ := init_RB2 hwf hi.fresh hi.2.2.replayOK hinit
      have hpath := init_path hinit
      have hpi : PI w0 := by
        have hall : AllOK w0.exec.path := by rw [hpath]; exact hi.2.2
        exact ⟨by rw [hpath]; exact hi.2.1, hall.butLast, fun _ => hall⟩
      obtain ⟨hw, hokp⟩ := runLoop_PI2 prog hwf fuel w0 w _ hp hRB (init_inRange2 hi.fresh hinit) hpi hok hr
      unfold Exec.step at hstep
      cases hps : w.exec.path.step with
      | none => rw [hps] at hstep; cases hstep
      | some p' =>
        rw [hps] at hstep
        simp only [Option.map_some, Option.some.injEq] at hstep
        subst hstep
        exact step_allOK hps hw hokp

end Deadlock2
end LoomVerif

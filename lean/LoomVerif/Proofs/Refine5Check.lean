/-
Refinement, STATICS fragment: two facts about the data semantics `SCData5`.

* `stepL_label5`: the label of a step is the `(pc, result)` the step records for the thread.
* a verified checker for "what do the runs of the data semantics with this trace look like?": `saturate` computes
  the set of pairs (length of the prefix of the trace matched, state) reachable by runs whose trace is a prefix of the
  given trace; if the set is closed under the steps (checked by computation) it contains every such run
  (`Run_in_closed`), so every run with the whole trace ends in a state of the set (`all_runs`), and a trace none of
  whose full matches is in the set is not the trace of any run (`not_trace`).
-/
import LoomVerif.Proofs.Refine5Data

namespace LoomVerif
namespace Refine5
open Refine

theorem tlsGet_ths (d : SCData5) (t k : Nat) : (SCData5.tlsGet d t k).1.ths = d.ths := by
  unfold SCData5.tlsGet
  split <;> rfl

/-- a label is the result the step records for the thread (`St.ret`) -/
theorem stepL_label5 {p : Prog} {d d' : SCData5} {t pc : Nat} {r : Ret}
    (ht : t < d.ths.length) (h : (some (pc, r), d') ∈ SCData5.stepL p d t) :
    pc = (d.th t).pc ∧ (d'.th t).rets = (pc, r) :: (d.th t).rets ∧ (d'.th t).pc = pc + 1 := by
  have hret : ∀ (d0 : SCData5) (r0 : Ret), d0.ths = d.ths →
      ((d0.ret t r0).th t).rets = ((d.th t).pc, r0) :: (d.th t).rets ∧
      ((d0.ret t r0).th t).pc = (d.th t).pc + 1 := by
    intro d0 r0 hl
    have ht0 : t < d0.ths.length := by rw [hl]; exact ht
    have he : d0.th t = d.th t := by unfold SCData5.th; rw [hl]
    rw [SCData5.th_ret_self d0 t r0 ht0, he]; exact ⟨rfl, rfl⟩
  have lock : (some (pc, r), d') ∈ (SCData.stepL p d.base t).map (fun x => (x.1, d.withBase x.2)) →
      pc = (d.th t).pc ∧ (d'.th t).rets = (pc, r) :: (d.th t).rets ∧ (d'.th t).pc = pc + 1 := by
    intro hl
    obtain ⟨⟨l', b⟩, hb, e⟩ := List.mem_map.1 hl
    simp only [Prod.mk.injEq] at e
    obtain ⟨rfl, rfl⟩ := e
    exact SCData.stepL_label (d := d.base) ht hb
  unfold SCData5.stepL at h
  split at h
  case h_1 =>
    obtain ⟨x, _, e⟩ := List.mem_map.1 h
    cases e
  case h_9 => exact lock h
  all_goals
    simp only at h
    repeat' split at h
    all_goals first
      | (cases h; done)
      | (simp only [List.mem_singleton, Prod.mk.injEq, Option.some.injEq] at h
         obtain ⟨⟨rfl, rfl⟩, rfl⟩ := h
         first
           | exact ⟨rfl, hret _ _ rfl⟩
           | exact ⟨rfl, hret _ _ (tlsGet_ths _ _ _)⟩
           | exact ⟨rfl, hret _ _ ((tlsGet_ths _ _ _).trans (tlsGet_ths _ _ _))⟩)

namespace Check

abbrev Trace := List (Nat × Nat × Ret)

/-- the successors of `(k, d)`: unlabelled steps keep `k`, a labelled step must record the `k`-th entry of `τ` -/
def succs (p : Prog) (T : Nat) (τ : Trace) (x : Nat × SCData5) : List (Nat × SCData5) :=
  (List.range T).flatMap fun t =>
    (if SCData5.enabled p x.2 t then SCData5.stepL p x.2 t else []).filterMap
      fun ld =>
        match ld.1 with
        | none => some (x.1, ld.2)
        | some (pc, r) => if τ[x.1]? = some (t, pc, r) then some (x.1 + 1, ld.2) else none

/-- one round of saturation -/
def round (p : Prog) (T : Nat) (τ : Trace) (S : List (Nat × SCData5)) : List (Nat × SCData5) :=
  S.foldl (fun acc x => (succs p T τ x).foldl (fun acc y => if acc.contains y then acc else acc ++ [y]) acc) S

def saturate (p : Prog) (T : Nat) (τ : Trace) : Nat → List (Nat × SCData5) → List (Nat × SCData5)
  | 0, S => S
  | n + 1, S => saturate p T τ n (round p T τ S)

/-- `S` is closed under the steps, contains only states with at most `T` threads -/
def closed (p : Prog) (T : Nat) (τ : Trace) (S : List (Nat × SCData5)) : Bool :=
  S.all fun x => decide (x.2.ths.length ≤ T) && (succs p T τ x).all fun y => S.contains y

/-- a thread outside the thread table is not enabled -/
theorem not_started {d : SCData5} {t : Nat} (h : d.ths.length ≤ t) : (d.th t).started = false := by
  unfold SCData5.th
  simp [List.getD, List.getElem?_eq_none h]

theorem prefix_getElem {τ tr : Trace} {x : Nat × Nat × Ret} (h : tr ++ [x] <+: τ) : τ[tr.length]? = some x := by
  obtain ⟨rest, rfl⟩ := h
  simp

/-- **every run whose trace is a prefix of `τ` stays in a closed set that contains the initial state** -/
theorem Run_in_closed {p : Prog} {T : Nat} {τ : Trace} {S : List (Nat × SCData5)} {d0 : SCData5}
    (hc : closed p T τ S = true) (h0 : (0, d0) ∈ S) {tr : Trace} {d : SCData5}
    (hr : SCData5.Run p d0 tr d) (hp : tr <+: τ) : (tr.length, d) ∈ S := by
  induction hr with
  | nil => exact h0
  | step hrun hen hst ih =>
    rename_i d1 d2 tr1 t l
    have hp1 : tr1 <+: τ := List.IsPrefix.trans (List.prefix_append _ _) hp
    have hin := ih hp1
    unfold closed at hc
    rw [List.all_eq_true] at hc
    have hx := hc _ hin
    simp only [Bool.and_eq_true, decide_eq_true_eq, List.all_eq_true] at hx
    have ht : t < T := by
      apply Classical.byContradiction
      intro hge
      have : (d1.th t).started = false := not_started (by have := hx.1; omega)
      unfold SCData5.enabled SCData.enabled at hen
      rw [SCData5.base_th, this] at hen
      simp at hen
    have hy : ((tr1 ++ SCData.label t l).length, d2) ∈ succs p T τ (tr1.length, d1) := by
      unfold succs
      rw [List.mem_flatMap]
      refine ⟨t, List.mem_range.2 ht, ?_⟩
      rw [List.mem_filterMap]
      refine ⟨(l, d2), ?_, ?_⟩
      · simp only [hen, if_true]
        exact hst
      · cases l with
        | none => simp [SCData.label]
        | some x =>
          obtain ⟨pc, r⟩ := x
          have := prefix_getElem (tr := tr1) (x := (t, pc, r)) (by simpa [SCData.label] using hp)
          simp [SCData.label, this]
    have := hx.2 _ hy
    exact List.contains_iff_mem.1 this |> fun h => by simpa using h

/-- **every run with trace `τ` ends in a state satisfying `P`** when every full match of a closed set containing the
initial state does -/
theorem all_runs {p : Prog} {T : Nat} {τ : Trace} {S : List (Nat × SCData5)} {d0 : SCData5} (P : SCData5 → Bool)
    (hc : closed p T τ S = true) (h0 : S.contains (0, d0) = true)
    (hn : (S.all fun x => x.1 != τ.length || P x.2) = true) : ∀ d, SCData5.Run p d0 τ d → P d = true := by
  intro d hr
  have h0' : (0, d0) ∈ S := by simpa using h0
  have := Run_in_closed hc h0' hr (List.prefix_refl _)
  rw [List.all_eq_true] at hn
  have := hn _ this
  simpa using this

/-- **`τ` is not the trace of any run** when no element of a closed set containing the initial state has matched
all of `τ` -/
theorem not_trace {p : Prog} {T : Nat} {τ : Trace} {S : List (Nat × SCData5)} {d0 : SCData5}
    (hc : closed p T τ S = true) (h0 : S.contains (0, d0) = true)
    (hn : (S.all fun x => x.1 != τ.length) = true) : ¬ ∃ d, SCData5.Run p d0 τ d := by
  rintro ⟨d, hr⟩
  have := all_runs (fun _ => false) hc h0 (by simpa using hn) d hr
  cases this

end Check

/-! ### a sanity example: the checker evaluates in the kernel -/

/-- two threads race on the initialisation of a lazy static -/
def racedProg : Prog := { cfg := { nAtomics := 1 }, threads := [[.spawn 1, .lazy 0, .join 1], [.lazy 0]] }

/-- both accesses return `240`: the static would have been initialised twice -/
def racedTrace : Check.Trace := [(0, 0, .unit), (1, 0, .val 240), (0, 1, .val 240), (0, 2, .unit)]

theorem racedTrace_not_reference : ¬ ∃ d, SCData5.Run racedProg (data5 (SC.init racedProg)) racedTrace d :=
  Check.not_trace (T := 2) (S := Check.saturate racedProg 2 racedTrace 20 [(0, data5 (SC.init racedProg))])
    (by decide +kernel) (by decide +kernel) (by decide +kernel)

end Refine5
end LoomVerif

/-
Race exactness on the WAIT fragment, part 10: generic tools for worlds in the normal form `W2 w O F` (object table
`O`, thread entries rewritten by `F`), the generic acquisition from a slot (`acq_core2`), and the stages of `lock`,
`tryLock`, `unlock`, `ifEq`.
-/
import LoomVerif.Proofs.Race2Cell

namespace LoomVerif
namespace Race2
open Refine Refine2 Sy C07 C08 Clocks Race

/-! ### normal forms -/

/-- replacing an object that is neither a cell nor a channel by one with the same clocks -/
theorem SameObj.set_same {os : List Obj} {o : Nat} {x x' : Obj} (hx : os[o]? = some x)
    (hhb : hbOf x' = hbOf x) (hss : ssOf x' = ssOf x) (hrs : rsOf x' = rsOf x)
    (hacc : ∀ k, accOf k x' = accOf k x) (hnc : ∀ cs, x ≠ .cell cs) (hnq : ∀ cs, x ≠ .chan cs) (n : Nat) :
    SameObj os (os.set o x') n := by
  by_cases e : n = o
  · subst e
    refine ⟨objHb_set_same _ hx hhb n, objSs_set_same _ hx hss n, objRs_set_same _ hx hrs n,
      fun k => objAcc_set_same _ k hx (hacc k) n, ?_, ?_⟩
    · rintro ⟨cs, h1, _⟩
      rw [hx] at h1; cases h1; exact absurd rfl (hnc cs)
    · rintro ⟨cs, h1, _⟩
      rw [hx] at h1; cases h1; exact absurd rfl (hnq cs)
  · exact SameObj.set_ne _ _ e

theorem key5_setBlocked (t : Thread) : key5 t.setBlocked = key5 t := rfl
theorem key5_wake (t : Thread) : key5 t.wake = key5 t := by unfold Thread.wake; split <;> rfl

/-- the readers of a thread of a world in normal form whose entry keeps `key5` -/
theorem W2_same (w : World) (O : List Obj) (F : Nat → Thread → Thread) (i : Nat)
    (h : i < nthr w → key5 (F i (w.ths.get i)) = key5 (w.ths.get i)) :
    SameThr w (W2 w O F) i ∧ topo (W2 w O F) i = topo w i := by
  apply sameThr_of_key5
  rw [W2_get]
  split
  · next hi => exact h hi
  · rfl

/-- `SchedOut` only reads the execution record of the old world -/
theorem SchedOut.src_congr {w0 w w' : World} {o : Option Nat} (h : SchedOut w0 w' o) (he : w0.exec = w.exec) :
    SchedOut w w' o := by
  have e1 : ∀ i, tcaus w0 i = tcaus w i ∧ trel w0 i = trel w i ∧ tuc w0 i = tuc w i ∧ ttok w0 i = ttok w i ∧
      Race.topo w0 i = Race.topo w i := by
    intro i; unfold tcaus trel tuc ttok Race.topo World.ths; rw [he]; exact ⟨rfl, rfl, rfl, rfl, rfl⟩
  have e2 : w0.tid = w.tid := by unfold World.tid World.ths; rw [he]
  refine ⟨?_, ?_, by rw [← he]; exact h.objs, by rw [h.len]; unfold nthr; rw [he]⟩
  · intro i
    obtain ⟨a, b, c, d, _⟩ := e1 i
    exact ⟨(h.same i).caus.trans a, (h.same i).rel.trans b, (h.same i).uc.trans c, (h.same i).tok.trans d⟩
  · intro i
    rw [h.topo i, e2, (e1 i).2.2.2.2]

section
variable {w w' : World} {s : SC.St}

theorem obj_ne_of_kinds {os : List Obj} {a b : Nat} {x y : Obj} (ha : os[a]? = some x) (hb : os[b]? = some y)
    (hxy : x ≠ y) : a ≠ b := by
  intro e; subst e; rw [ha] at hb; cases hb; exact hxy rfl

theorem mtx_ne_ntf (hR : R2 w (data2 s)) {m n : Nat} (hm : m < w.prog.cfg.nMutexes) (hn : n < w.prog.cfg.nNotifies) :
    w.notifyObj n ≠ w.mutexObj m := by
  obtain ⟨ms, h1⟩ := mtx_obj2 hR hm
  obtain ⟨ns, h2, _⟩ := ntf_obj2 hR hn
  exact obj_ne_of_kinds h2 h1 (by intro e; cases e)

theorem mtx_ne_chan (hR : R2 w (data2 s)) {m q : Nat} (hm : m < w.prog.cfg.nMutexes) (hq : q < w.prog.cfg.nChans) :
    w.chanObj q ≠ w.mutexObj m := by
  obtain ⟨ms, h1⟩ := mtx_obj2 hR hm
  obtain ⟨ns, h2⟩ := chan_obj2 hR hq
  exact obj_ne_of_kinds h2 h1 (by intro e; cases e)

theorem ntf_ne_chan (hR : R2 w (data2 s)) {n q : Nat} (hn : n < w.prog.cfg.nNotifies) (hq : q < w.prog.cfg.nChans) :
    w.chanObj q ≠ w.notifyObj n := by
  obtain ⟨ms, h1, _⟩ := ntf_obj2 hR hn
  obtain ⟨ns, h2⟩ := chan_obj2 hR hq
  exact obj_ne_of_kinds h2 h1 (by intro e; cases e)

/-! ### acquiring from a slot -/

/-- **the active thread acquires the clock of slot `m`** (a mutex at `lock` / `tryLock` / the second half of
`cvWait`; a `Notify` at the second half of `nWait`): in the twin its causality becomes `tcaus ⊔ σT.mtx m`, one
object `o` that is neither a cell nor a channel is replaced by one with the same clocks, the other threads keep
`key5`; the reference thread ticks and acquires `σR.mtx m` -/
theorem acq_core2 (hRC : RC2 w s) (hact : w.tid < w.ctl.length) {op : Op} (hop : opAt2 w = some op)
    (hn1 : ∀ n, op ≠ .nWait n) (hn2 : op ≠ .park) (hn3 : ∀ b, op ≠ .join b) (m : Nat)
    {o : Nat} {x x' : Obj} (hx : w.exec.objs[o]? = some x)
    (hhb : hbOf x' = hbOf x) (hss : ssOf x' = ssOf x) (hrs : rsOf x' = rsOf x)
    (hacc : ∀ k, accOf k x' = accOf k x) (hnc : ∀ cs, x ≠ .cell cs) (hnq : ∀ cs, x ≠ .chan cs)
    (F : Nat → Thread → Thread)
    (hF : ∀ i, i ≠ w.tid → ∀ t, key5 (F i t) = key5 t)
    (hFt : ∀ σT : CS, ∀ mT, LinkT2 w σT mT → ∀ t : Thread,
      F w.tid t = { t with causality := t.causality.join (σT.mtx m) })
    (r : Ret) {s' : SC.St}
    (hs' : ∀ σR mR, LinkR2 w.prog (s.tick (body w w.tid)) σR mR →
      LinkR2 w.prog s' (σR.acq (body w w.tid) (σR.mtx m)) mR)
    (hv : s'.verdict = none) (hnd : ∀ q, s'.rxDropped.getD q false = false) :
    NewSt w ((W2 w (w.exec.objs.set o x') F).complete r) s' := by
  obtain ⟨σT, σR, mT, mR, hc⟩ := hRC.clk
  have ht := nthr_tid2 hRC hact
  have hpc : pendClk w σT w.tid = VV.zero := pendClk_of_op (by rw [opAtI_tid2]; exact hop) hn1 hn2 hn3
  have hbt := body_lt_ths2 hRC.r hact
  have hsame : ∀ n, SameObj w.exec.objs (w.exec.objs.set o x') n :=
    fun n => SameObj.set_same hx hhb hss hrs hacc hnc hnq n
  have hget := W2_get w (w.exec.objs.set o x') F
  have hself : (W2 w (w.exec.objs.set o x') F).ths.get w.tid =
      { w.ths.get w.tid with causality := (w.ths.get w.tid).causality.join (σT.mtx m) } := by
    rw [hget, if_pos ht]; exact hFt σT mT hc.lt _
  have hI := complete_core2 (w' := (W2 w (w.exec.objs.set o x') F).complete r) hRC hact hop hc.lt
    (σT' := σT.acq w.tid (σT.mtx m)) (mT' := mT)
    (W2 w (w.exec.objs.set o x') F) r rfl rfl rfl rfl rfl (W2_nthr _ _ _)
    (by show (w.exec.objs.set _ _).length = _; simp)
    (fun i hi => W2_same w _ F i (fun _ => hF i hi _))
    (by unfold trel; rw [hself])
    (by unfold topo; rw [hself])
    (by unfold tuc; rw [hself])
    (by unfold ttok; rw [hself])
    (by unfold tcaus; rw [hself]; exact le_join_left _ _)
    (by
      intro i hi
      show upd σT.thr w.tid _ i = _
      rw [upd_ne _ _ hi])
    (by
      show upd σT.thr w.tid _ w.tid = _
      rw [upd_self, eq_caus2 hc.lt ht hpc]
      unfold tcaus; rw [hself])
    (fun _ => le_refl _) (fun _ => rfl)
    (by intro n hn; rw [pend_none_of_op2 hop hn3] at hn; cases hn)
    (fun b j n _ => (hsame n).hb)
    (fun m' _ => .inl ⟨hsame _, rfl⟩) (fun n _ => .inl ⟨hsame _, rfl⟩) (fun q _ => .inl ⟨hsame _, rfl, rfl⟩)
    (fun c _ => .inl ⟨hsame _, fun _ => rfl⟩)
  have hX1 := hc.x.tickR hc.gt hc.gr (inj_body2 hRC.r) w.tid hact
  refine newSt_complete hact _ r rfl rfl hv hnd ⟨hI.1, hI.2.1⟩ hI.2.2 (hs' _ _ (hc.lr.tick hbt))
    (hc.gt.acqM _ _) ((hc.gr.tick _).acqM _ _) (hX1.acqM (inj_body2 hRC.r) w.tid hact m) ?_ ?_ ?_
  · intro q hq
    exact (hc.mx q hq).imp fun _ _ hh => hh.ev rfl rfl
  · intro q Z hq hZ
    exact (hc.mgt q Z hq hZ).acq _ _
  · intro q Z hq hZ
    exact ((hc.mgr q Z hq hZ).tick _).acq _ _

/-- an operation that completes without touching any clock of the twin; the reference thread ticks -/
theorem noop_core2 (hRC : RC2 w s) (hact : w.tid < w.ctl.length) {op : Op} (hop : opAt2 w = some op)
    (hn1 : ∀ n, op ≠ .nWait n) (hn2 : op ≠ .park) (hn3 : ∀ b, op ≠ .join b) (r : Ret) {s' : SC.St}
    (hs' : ∀ σR mR, LinkR2 w.prog (s.tick (body w w.tid)) σR mR → LinkR2 w.prog s' σR mR)
    (hv : s'.verdict = none) (hnd : ∀ q, s'.rxDropped.getD q false = false) :
    NewSt w (w.complete r) s' := by
  obtain ⟨σT, σR, mT, mR, hc⟩ := hRC.clk
  have ht := nthr_tid2 hRC hact
  have hpc : pendClk w σT w.tid = VV.zero := pendClk_of_op (by rw [opAtI_tid2]; exact hop) hn1 hn2 hn3
  have hbt := body_lt_ths2 hRC.r hact
  have hI := complete_core2 (w' := w.complete r) hRC hact hop hc.lt (σT' := σT) (mT' := mT)
    w r rfl rfl rfl rfl rfl rfl rfl (fun i _ => ⟨⟨rfl, rfl, rfl, rfl⟩, rfl⟩) rfl rfl rfl rfl (le_refl _)
    (fun _ _ => rfl) (eq_caus2 hc.lt ht hpc) (fun _ => le_refl _) (fun _ => rfl)
    (by intro n hn; rw [pend_none_of_op2 hop hn3] at hn; cases hn)
    (fun _ _ _ _ => rfl)
    (fun _ _ => .inl ⟨SameObj.refl _ _, rfl⟩) (fun _ _ => .inl ⟨SameObj.refl _ _, rfl⟩)
    (fun _ _ => .inl ⟨SameObj.refl _ _, rfl, rfl⟩) (fun _ _ => .inl ⟨SameObj.refl _ _, fun _ => rfl⟩)
  have hX1 := hc.x.tickR hc.gt hc.gr (inj_body2 hRC.r) w.tid hact
  refine newSt_complete hact _ r rfl rfl hv hnd ⟨hI.1, hI.2.1⟩ hI.2.2 (hs' _ _ (hc.lr.tick hbt))
    hc.gt (hc.gr.tick _) hX1 ?_ hc.mgt ?_
  · intro q hq
    exact (hc.mx q hq).imp fun _ _ hh => hh.ev rfl rfl
  · intro q Z hq hZ
    exact (hc.mgr q Z hq hZ).tick _

/-! ### a branch point -/

/-- the first stage of an operation whose branch point is on a declared object `o` (not a `JoinHandle` notify) -/
theorem quiet_branch2 (hRC : RC2 w s) (hact : w.tid < w.ctl.length) {op : Op} (hop : opAt2 w = some op)
    (hn3 : ∀ b, op ≠ .join b) (h1 : ∀ i r n, op ≠ .ifEq i r n) (h2 : ∀ v m, op ≠ .cvWait v m)
    (hst : (w.ctlOf w.tid).stage ≠ 1) (k : Nat)
    {o : Nat} {a : Action} {blk wt : Bool} (hb : (w.setStage k).branch o a blk wt = .ok w')
    (ho : o < w.exec.objs.length) (hoJ : ∀ b j n, (b, j, n) ∈ w.spawned → o ≠ n) :
    QuietOut2 w s w' := by
  have ht := nthr_tid2 hRC hact
  obtain ⟨hq, hc, _⟩ := branch_quiet2 hb
  have hso : SchedOut w w' (some o) := (branch_sched (w := w.setStage k) hb ht).src_congr rfl
  refine quiet_core2 hRC hact (fun c => { c with stage := k }) (fun σ => pendClk_stage0 hst)
    (pend_none_of_op2 hop hn3) hso hq.prog hq.spawned hq.events hc rfl Iff.rfl ?_ ?_
  · intro o' ho'
    cases ho'
    exact ⟨ho, .inr fun b j n hm e => absurd e (hoJ b j n hm)⟩
  · intro d' _ hst' _
    exact no_silent hRC hact hop h1 h2 d' hst'

/-! ### `lock`, `tryLock` -/

theorem clk_lock2 (hRC : RC2 w s) (hact : w.tid < w.ctl.length) {mi : Nat}
    (hop : opAt2 w = some (.lock mi)) (hmi : mi < w.prog.cfg.nMutexes)
    (h : w.runOp (w.ctlOf w.tid) (.lock mi) = .ok w') : QuietOut2 w s w' ∨ RealOut2 w s w' := by
  obtain ⟨ms, hobj⟩ := mtx_obj2 hRC.r hmi
  rw [runOp_lock] at h
  split at h
  · next hs0 =>
    left
    simp only [getMutex_of hobj, bind, Except.bind] at h
    have hs0' : (w.ctlOf w.tid).stage = 0 := by simpa using hs0
    exact quiet_branch2 hRC hact hop (by intro b; simp) (by intro i r n; simp) (by intro v m; simp)
      (by rw [hs0']; decide) 1 h (mtx_lt2 hRC.r hmi) (fun b j n hm e => sp_ne_mtx2 hRC.r hm hmi e.symm)
  · right
    obtain ⟨⟨w1, okk⟩, hpa, h⟩ := bind_ok h
    cases hl : ms.lock with
    | some i =>
      rw [postAcquire_held hobj (by rw [hl]; rfl)] at hpa
      cases hpa
      simp [bind, Except.bind, throw, throwThe, MonadExceptOf.throw] at h
    | none =>
      rw [postAcquire_free hobj hl] at hpa
      obtain ⟨rfl, rfl⟩ : w1 = W2 w (w.exec.objs.set (w.mutexObj mi) (.mutex { ms with lock := some w.tid }))
          (acqF w (w.mutexObj mi) ms.sync.hb) ∧ okk = true := by
        cases hpa; exact ⟨rfl, rfl⟩
      simp only [Bool.not_true, Bool.false_eq_true, if_false, bind, Except.bind, pure, Except.pure] at h
      cases h
      have hC : pendCv w.prog (w.ctlOf w.tid) = none := pendCv_of_op hop (by simp)
      have hcv : (s.th (body w w.tid)).cvNotified = none := (frag_cv hRC hact hC).2
      have ho : SC.opOf w.prog s (body w w.tid) = some (.lock mi) := (opOf_eq2 hRC.r hact).trans hop
      have hbt := body_lt_ths2 hRC.r hact
      refine realOut_complete hRC hact hop (by intro n; simp) _ _ rfl rfl (step_lock hcv ho) ?_
      refine acq_core2 hRC hact hop (by intro n; simp) (by simp) (by intro b; simp) mi hobj
        (x' := .mutex { ms with lock := some w.tid }) rfl rfl rfl
        (fun _ => rfl) (by intro cs; simp) (by intro cs; simp) _ ?_ ?_ .unit ?_ ?_ ?_
      rotate_left 3
      · exact hRC.fs.1
      · exact hRC.nd
      · intro i hi t
        unfold acqF; rw [if_neg hi]; split <;> rfl
      · intro σT mT hL t
        unfold acqF; rw [if_pos rfl, hL.mtx mi hmi, objHb_of hobj]; rfl
      · intro σR mR hL
        have e : σR.mtx mi = s.mutexRel.getD mi VV.zero := hL.mtx mi hmi
        rw [e]
        refine LinkR2.ret ?_ _ _
        exact LinkR2.acquire (s := { s.tick (body w w.tid) with mutex := s.mutex.set mi (some (body w w.tid)) })
          (hL.fields _ rfl rfl rfl rfl rfl rfl rfl rfl rfl)
          (by show body w w.tid < (s.tick (body w w.tid)).ths.length; rw [tick_len2]; exact hbt) _

theorem clk_tryLock2 (hRC : RC2 w s) (hact : w.tid < w.ctl.length) {mi : Nat}
    (hop : opAt2 w = some (.tryLock mi)) (hmi : mi < w.prog.cfg.nMutexes)
    (h : w.runOp (w.ctlOf w.tid) (.tryLock mi) = .ok w') : QuietOut2 w s w' ∨ RealOut2 w s w' := by
  obtain ⟨l, hv, hmap, _⟩ := hRC.r.c.o.y.mtx mi hmi
  obtain ⟨ms, hobj0, hlock⟩ := objView2_mutex hv
  have hobj : w.exec.objs[w.mutexObj mi]? = some (.mutex ms) := hobj0
  have hC : pendCv w.prog (w.ctlOf w.tid) = none := pendCv_of_op hop (by simp)
  have hcv : (s.th (body w w.tid)).cvNotified = none := (frag_cv hRC hact hC).2
  have ho : SC.opOf w.prog s (body w w.tid) = some (.tryLock mi) := (opOf_eq2 hRC.r hact).trans hop
  have hbt := body_lt_ths2 hRC.r hact
  have hmx : s.mutex.getD mi none = l.map fun i => (w.ctl.getD i {}).body := hmap.symm
  rw [runOp_tryLock] at h
  split at h
  · next hs0 =>
    left
    have hs0' : (w.ctlOf w.tid).stage = 0 := by simpa using hs0
    exact quiet_branch2 hRC hact hop (by intro b; simp) (by intro i r n; simp) (by intro v m; simp)
      (by rw [hs0']; decide) 1 h (mtx_lt2 hRC.r hmi) (fun b j n hm e => sp_ne_mtx2 hRC.r hm hmi e.symm)
  · right
    obtain ⟨⟨w1, okk⟩, hpa, h⟩ := bind_ok h
    simp only [pure, Except.pure] at h
    cases hl : ms.lock with
    | some i =>
      rw [postAcquire_held hobj (by rw [hl]; rfl)] at hpa
      obtain ⟨e1, e2⟩ : w = w1 ∧ false = okk := by cases hpa; exact ⟨rfl, rfl⟩
      subst e1; subst e2
      cases h
      have hst := step_tryLock hcv ho
      have hfree : (s.mutex.getD mi none).isNone = false := by
        rw [hmx, ← hlock, hl]; rfl
      rw [hfree] at hst
      simp only [Bool.false_eq_true, if_false] at hst
      refine realOut_complete hRC hact hop (by intro n; simp) _ _ rfl rfl hst ?_
      exact noop_core2 hRC hact hop (by intro n; simp) (by simp) (by intro b; simp) _
        (fun σR mR hL => hL.ret _ _) hRC.fs.1 hRC.nd
    | none =>
      rw [postAcquire_free hobj hl] at hpa
      obtain ⟨rfl, rfl⟩ : w1 = W2 w (w.exec.objs.set (w.mutexObj mi) (.mutex { ms with lock := some w.tid }))
          (acqF w (w.mutexObj mi) ms.sync.hb) ∧ okk = true := by
        cases hpa; exact ⟨rfl, rfl⟩
      cases h
      have hst := step_tryLock hcv ho
      have hfree : (s.mutex.getD mi none).isNone = true := by
        rw [hmx, ← hlock, hl]; rfl
      rw [hfree] at hst
      simp only [if_true] at hst
      refine realOut_complete hRC hact hop (by intro n; simp) _ _ rfl rfl hst ?_
      refine acq_core2 hRC hact hop (by intro n; simp) (by simp) (by intro b; simp) mi hobj
        (x' := .mutex { ms with lock := some w.tid }) rfl rfl rfl
        (fun _ => rfl) (by intro cs; simp) (by intro cs; simp) _ ?_ ?_ _ ?_ ?_ ?_
      rotate_left 3
      · exact hRC.fs.1
      · exact hRC.nd
      · intro i hi t
        unfold acqF; rw [if_neg hi]; split <;> rfl
      · intro σT mT hL t
        unfold acqF; rw [if_pos rfl, hL.mtx mi hmi, objHb_of hobj]; rfl
      · intro σR mR hL
        have e : σR.mtx mi = s.mutexRel.getD mi VV.zero := hL.mtx mi hmi
        rw [e]
        refine LinkR2.ret ?_ _ _
        exact LinkR2.acquire (s := { s.tick (body w w.tid) with mutex := s.mutex.set mi (some (body w w.tid)) })
          (hL.fields _ rfl rfl rfl rfl rfl rfl rfl rfl rfl)
          (by show body w w.tid < (s.tick (body w w.tid)).ths.length; rw [tick_len2]; exact hbt) _

end

end Race2
end LoomVerif

/-
Deadlock soundness, FUTURES fragment, part 4: the world in the middle of a stage (`Deadlock3.Mid`) along the
helpers that do not schedule.
-/
import LoomVerif.Proofs.Deadlock3Prim

set_option linter.unusedSimpArgs false
set_option linter.unusedVariables false

namespace LoomVerif
namespace Deadlock3
open Refine Refine4 Deadlock

/-! ### views of the objects -/

theorem ov_set (objs : List Obj) (o : Nat) (x : Obj) : (objs.set o x).map ov4 = (objs.map ov4).set o (ov4 x) :=
  List.map_set

theorem get_set_self {l : List OV4} {o : Nat} {v0 : OV4} (v : OV4) (h0 : l[o]? = some v0) :
    (l.set o v)[o]? = some v := Sy.getElem?_set_self' _ _ _ _ h0

theorem get_set_ne (l : List OV4) {o n : Nat} (v : OV4) (h : n ≠ o) : (l.set o v)[n]? = l[n]? :=
  Sy.getElem?_set_ne' _ _ _ _ h

theorem unavail_set_ne {l : List OV4} {o n : Nat} (v : OV4) (h : n ≠ o) :
    Unavail (l.set o v) n ↔ Unavail l n := by
  unfold Unavail
  rw [get_set_ne l v h]

/-- the mutex and `Notify` views of two object stores coincide (up to the `did_spur` flag of a `Notify`) -/
def OvEq (a b : List OV4) : Prop :=
  ∀ o : Nat, (∀ l, b[o]? = some (.mutex l) ↔ a[o]? = some (.mutex l)) ∧
    (∀ x y, (∃ z, b[o]? = some (.notify x y z)) ↔ ∃ z, a[o]? = some (.notify x y z))

theorem OvEq.refl (a : List OV4) : OvEq a a := fun _ => ⟨fun _ => Iff.rfl, fun _ _ => Iff.rfl⟩

theorem OvEq.of_eq {a b : List OV4} (h : b = a) : OvEq a b := by rw [h]; exact OvEq.refl a

theorem OvEq.unavail {a b : List OV4} (h : OvEq a b) (o : Nat) : Unavail b o ↔ Unavail a o := by
  unfold Unavail
  constructor
  · rintro (⟨l, hl⟩ | ⟨sp, ds, hn⟩)
    · exact .inl ⟨l, ((h o).1 _).1 hl⟩
    · obtain ⟨z, hz⟩ := ((h o).2 _ _).1 ⟨ds, hn⟩
      exact .inr ⟨sp, z, hz⟩
  · rintro (⟨l, hl⟩ | ⟨sp, ds, hn⟩)
    · exact .inl ⟨l, ((h o).1 _).2 hl⟩
    · obtain ⟨z, hz⟩ := ((h o).2 _ _).2 ⟨ds, hn⟩
      exact .inr ⟨sp, z, hz⟩

/-- rewriting an atomic object -/
theorem ovEq_set_atomic {l : List OV4} {x : Nat} {a c a' c' : Nat} {b b' : Bool}
    (h0 : l[x]? = some (.atomic a b c)) : OvEq l (l.set x (.atomic a' b' c')) := by
  intro o
  by_cases e : o = x
  · subst e
    rw [get_set_self _ h0, h0]
    exact ⟨fun _ => ⟨fun h => (by cases h), fun h => (by cases h)⟩,
      fun _ _ => ⟨fun ⟨_, h⟩ => (by cases h), fun ⟨_, h⟩ => (by cases h)⟩⟩
  · rw [get_set_ne l _ e]
    exact ⟨fun _ => Iff.rfl, fun _ _ => Iff.rfl⟩

/-- the `did_spur` flag of a `Notify` changes -/
theorem ovEq_set_didSpur {l : List OV4} {o : Nat} {x y z z' : Bool}
    (h0 : l[o]? = some (.notify x y z)) : OvEq l (l.set o (.notify x y z')) := by
  intro n
  by_cases e : n = o
  · subst e
    rw [get_set_self _ h0, h0]
    refine ⟨fun _ => ⟨fun h => (by cases h), fun h => (by cases h)⟩, fun a b => ⟨?_, ?_⟩⟩
    · rintro ⟨_, h⟩; cases h; exact ⟨_, rfl⟩
    · rintro ⟨_, h⟩; cases h; exact ⟨_, rfl⟩
  · rw [get_set_ne l _ e]
    exact ⟨fun _ => Iff.rfl, fun _ _ => Iff.rfl⟩

/-! ### the start of a stage, the control record, the futures' table -/

section
variable {w w1 w2 : World} {s : SC.St} {G : TCtl → TCtl} {H : Option Nat} {K : List Nat} {Fu : List FutSt}

/-- the start of a stage -/
theorem Mid.start (c : Ctx w s) : Mid w w id (holdsAt w.prog (w.ctlOf w.tid)) [] w.futs where
  prog := rfl
  spawned := rfl
  ctl := (modify_id' _ _ id (fun _ => rfl)).symm
  futs := rfl
  tid := rfl
  pan := rfl
  act := c.active
  len := rfl
  g := c.j.g
  oth := fun _ _ => ⟨rfl, id⟩
  run := c.run
  locks := fun _ _ h _ => h
  mine := fun o h => ((c.j.hold o w.tid h).2).symm ▸ rfl
  mkind := fun _ l h => ⟨l, h⟩
  nmono := fun _ _ ds _ h => ⟨ds, h⟩
  nkind := fun _ _ nt ds h => ⟨nt, ds, h⟩
  avail := by
    intro i _ op sp nt ds _ hv _ hnb h
    rcases h with h | h
    · exact absurd h hnb
    · subst h; exact ⟨ds, hv⟩
  path := ⟨c.rp, id⟩

/-- the stage rewrites the control record of the active thread -/
theorem Mid.modCtl (m : Mid w w1 G H K Fu) (g : TCtl → TCtl) :
    Mid w (w1.modCtl w1.tid g) (fun c => g (G c)) H K Fu :=
  { m with
    ctl := by
      show w1.ctl.modify w1.tid g = _
      rw [m.ctl, m.tid, modify_modify'] }

theorem Mid.setStage (m : Mid w w1 G H K Fu) (n : Nat) :
    Mid w (w1.setStage n) (fun c => { G c with stage := n }) H K Fu :=
  m.modCtl fun c => { c with stage := n }

theorem Mid.complete (m : Mid w w1 G H K Fu) (r : Ret) :
    Mid w (w1.complete r) (fun c => completeF r (G c)) H K Fu :=
  { m with
    ctl := by
      show w1.ctl.modify w1.tid (completeF r) = _
      rw [m.ctl, m.tid, modify_modify'] }

theorem Mid.modFut (m : Mid w w1 G H K Fu) (f : Nat) (g : FutSt → FutSt) :
    Mid w (w1.modFut f g) G H K (Fu.modify f g) :=
  { m with
    futs := by
      show w1.futs.modify f g = _
      rw [m.futs] }

/-! ### helpers that touch no other thread and no mutex, no `Notify` -/

/-- the thread table keeps every state and pending operation; the mutex and `Notify` views are kept -/
theorem Mid.same (m : Mid w w1 G H K Fu) (hp : w2.prog = w1.prog) (hc : w2.ctl = w1.ctl)
    (hs : w2.spawned = w1.spawned) (hf : w2.futs = w1.futs) (hn : w2.panicking = w1.panicking)
    (ht : TSame w1.exec.threads w2.exec.threads) (ho : OvEq (ovW w1) (ovW w2))
    (hpath : w1.exec.path.WF ∧ AllOK w1.exec.path → w2.exec.path.WF ∧ AllOK w2.exec.path)
    (hrp : ReplayOK w1.exec.path → ReplayOK w2.exec.path) :
    Mid w w2 G H K Fu where
  prog := hp.trans m.prog
  spawned := hs.trans m.spawned
  ctl := hc.trans m.ctl
  futs := hf.trans m.futs
  tid := by
    show w2.exec.threads.activeId = _
    unfold Threads.activeId
    rw [ht.1]
    exact m.tid
  pan := hn.trans m.pan
  act := by
    show w2.exec.threads.active.isSome = true
    rw [ht.1]; exact m.act
  len := ht.2.1.trans m.len
  g := by
    intro i hb
    have hb1 : (w1.exec.threads.get i).state = .blocked := by rw [← (ht.2.2 i).1]; exact hb
    obtain ⟨op, h1, h2, h3⟩ := m.g i hb1
    exact ⟨op, by rw [(ht.2.2 i).2]; exact h1, h2, (ho.unavail _).2 h3⟩
  oth := by
    intro i hi
    obtain ⟨h1, h2⟩ := m.oth i hi
    refine ⟨((ht.2.2 i).2).trans h1, fun h => h2 ?_⟩
    show (w1.exec.threads.get i).state = _
    rw [← (ht.2.2 i).1]; exact h
  run := by
    have : (w2.ths.get w.tid).state = (w1.ths.get w.tid).state := (ht.2.2 _).1
    rw [this]; exact m.run
  locks := fun o t h ht' => m.locks o t (((ho o).1 _).1 h) ht'
  mine := fun o h => m.mine o (((ho o).1 _).1 h)
  mkind := by
    intro o l h
    obtain ⟨l', h'⟩ := m.mkind o l h
    exact ⟨l', ((ho o).1 _).2 h'⟩
  nmono := by
    intro o sp ds hk h
    exact ((ho o).2 _ _).2 (m.nmono o sp ds hk h)
  nkind := by
    intro o sp nt ds h
    obtain ⟨nt', hz⟩ := m.nkind o sp nt ds h
    exact ⟨nt', ((ho o).2 _ _).2 hz⟩
  avail := by
    intro i hi op sp nt ds hop hv hk hnb h
    have hnb1 : (w1.ths.get i).state ≠ .blocked := by
      intro hb
      apply hnb
      show (w2.exec.threads.get i).state = _
      rw [(ht.2.2 i).1]; exact hb
    exact ((ho _).2 _ _).2 (m.avail i hi op sp nt ds hop hv hk hnb1 h)
  path := ⟨hrp m.path.1, fun h => hpath (m.path.2 h)⟩

/-- the waker's `Arc` -/
theorem Mid.arc (m : Mid w w1 G H K Fu) (h : ArcFx w1 w2) : Mid w w2 G H K Fu :=
  m.same h.prog h.ctl h.spawned h.futs h.pan h.ths (OvEq.of_eq h.objs) (fun hw => by rw [h.path]; exact hw)
    (fun hw => by rw [h.path]; exact hw)

theorem Mid.wakerClone (m : Mid w w1 G H K Fu) {a : Nat} (h : w1.wakerClone a = .ok w2) :
    Mid w w2 G H K Fu := m.arc (wakerClone_fx h)

theorem Mid.wakerDrop (m : Mid w w1 G H K Fu) {a : Nat} (h : w1.wakerDrop a = .ok w2) :
    Mid w w2 G H K Fu := m.arc (wakerDrop_fx h)

/-- an atomic primitive -/
theorem Mid.prim (m : Mid w w1 G H K Fu) {x : Nat} {p : Prim} {r : Ret}
    (h : w1.primEffect x p = .ok (w2, r)) : Mid w w2 G H K Fu := by
  have fx := primEffect_fx h
  obtain ⟨a, a', ha, ho⟩ := fx.objs
  refine m.same fx.prog fx.ctl fx.spawned fx.futs fx.pan fx.ths ?_ fx.path fx.rp
  show OvEq (w1.exec.objs.map ov4) (w2.exec.objs.map ov4)
  rw [ho, ov_set]
  exact ovEq_set_atomic (by rw [List.getElem?_map, ha]; rfl)

/-- a field of the execution record the invariant does not read -/
theorem Mid.lazy (m : Mid w w1 G H K Fu) :
    Mid w { w1 with exec := { w1.exec with lazyStatics := none } } G H K Fu :=
  m.same rfl rfl rfl rfl rfl (TSame.refl _) (OvEq.refl _) id id

/-- a new object that is not a mutex -/
theorem Mid.push (m : Mid w w1 G H K Fu) (x : Obj) (hx : ∀ l, ov4 x ≠ .mutex l) :
    Mid w (w1.pushObj x).1 G H K Fu := by
  have hov : ovW (w1.pushObj x).1 = ovW w1 ++ [ov4 x] := by
    show (w1.exec.objs ++ [x]).map ov4 = _
    simp
  have old : ∀ (o : Nat) (v : OV4), (ovW w1)[o]? = some v → (ovW (w1.pushObj x).1)[o]? = some v := by
    intro o v h
    rw [hov, List.getElem?_append_left (List.getElem?_eq_some_iff.1 h).1]; exact h
  have oldM : ∀ (o : Nat) (l : Option Nat), (ovW (w1.pushObj x).1)[o]? = some (.mutex l) →
      (ovW w1)[o]? = some (.mutex l) := by
    intro o l h
    rw [hov] at h
    by_cases ho : o < (ovW w1).length
    · rw [List.getElem?_append_left ho] at h; exact h
    · rw [List.getElem?_append_right (by omega)] at h
      cases hk : o - (ovW w1).length with
      | zero => rw [hk] at h; simp at h; exact absurd h (hx l)
      | succ k => rw [hk] at h; simp at h
  exact
    { m with
      g := by
        intro i hb
        obtain ⟨op, h1, h2, h3⟩ := m.g i hb
        refine ⟨op, h1, h2, ?_⟩
        rcases h3 with ⟨l, hl⟩ | ⟨sp, ds, hn⟩
        · exact .inl ⟨l, old _ _ hl⟩
        · exact .inr ⟨sp, ds, old _ _ hn⟩
      locks := fun o t h ht => m.locks o t (oldM o _ h) ht
      mine := fun o h => m.mine o (oldM o _ h)
      mkind := by
        intro o l h
        obtain ⟨l', h'⟩ := m.mkind o l h
        exact ⟨l', old _ _ h'⟩
      nmono := by
        intro o sp ds hk h
        obtain ⟨ds', h'⟩ := m.nmono o sp ds hk h
        exact ⟨ds', old _ _ h'⟩
      nkind := by
        intro o sp nt ds h
        obtain ⟨nt', ds', h'⟩ := m.nkind o sp nt ds h
        exact ⟨nt', ds', old _ _ h'⟩
      avail := by
        intro i hi op sp nt ds hop hv hk hnb h
        obtain ⟨ds', h'⟩ := m.avail i hi op sp nt ds hop hv hk hnb h
        exact ⟨ds', old _ _ h'⟩ }

end

/-! ### helpers that rewrite one object and block / wake the threads waiting on it -/

/-- object `o` is rewritten (its view becomes `v`); every OTHER thread whose pending operation satisfies `P` has
its entry rewritten by `B`; nothing else changes -/
structure Upd (w1 w2 : World) (o : Nat) (v : OV4) (P : Operation → Bool) (B : Thread → Thread) : Prop where
  prog : w2.prog = w1.prog
  ctl : w2.ctl = w1.ctl
  spawned : w2.spawned = w1.spawned
  futs : w2.futs = w1.futs
  pan : w2.panicking = w1.panicking
  path : w2.exec.path = w1.exec.path
  active : w2.exec.threads.active = w1.exec.threads.active
  len : w2.exec.threads.threads.length = w1.exec.threads.threads.length
  ov : ∃ v0, (ovW w1)[o]? = some v0 ∧ ovW w2 = (ovW w1).set o v
  self : (w2.ths.get w1.tid).state = (w1.ths.get w1.tid).state
  oth : ∀ i, i ≠ w1.tid →
    w2.ths.get i = if (w1.ths.get i).operation.any P then B (w1.ths.get i) else w1.ths.get i

theorem get_mapIdx3 (s : Threads) (F : Nat → Thread → Thread) (i : Nat) :
    ({ s with threads := s.threads.mapIdx F } : Threads).get i =
      if i < s.threads.length then F i (s.get i) else s.get i := by
  simp only [Threads.get, List.getD_eq_getElem?_getD, List.getElem?_mapIdx]
  by_cases hi : i < s.threads.length
  · simp [hi]
  · have : s.threads[i]? = none := by simp; omega
    simp [hi, this]

/-- the entry function of `forOthers` -/
def othersF (t0 : Nat) (A0 : Thread → Thread) (P : Operation → Bool) (B : Thread → Thread) (i : Nat)
    (th : Thread) : Thread :=
  if i = t0 then A0 th else (if th.operation.any P then B th else th)

/-- the thread table after `forOthers` -/
theorem upd_of_mapIdx {w1 : World} {e : Exec} (P : Operation → Bool) (B A0 : Thread → Thread)
    (hA : ∀ t, (A0 t).state = t.state)
    (he : e.threads =
      { w1.exec.threads with threads := w1.exec.threads.threads.mapIdx (othersF w1.tid A0 P B) }) :
    e.threads.active = w1.exec.threads.active ∧ e.threads.threads.length = w1.exec.threads.threads.length ∧
    (e.threads.get w1.tid).state = (w1.ths.get w1.tid).state ∧
    ∀ i, i ≠ w1.tid → e.threads.get i = if (w1.ths.get i).operation.any P then B (w1.ths.get i) else w1.ths.get i := by
  rw [he]
  refine ⟨rfl, by simp, ?_, ?_⟩
  · rw [get_mapIdx3]
    split
    · unfold othersF; rw [if_pos rfl]; exact hA _
    · rfl
  · intro i hi
    rw [get_mapIdx3]
    split
    · unfold othersF; rw [if_neg hi]; rfl
    · next hlt =>
      have hd : w1.ths.get i = {} := by
        show w1.exec.threads.threads.getD i {} = {}
        simp [List.getD, List.getElem?_eq_none (Nat.le_of_not_lt hlt)]
      show w1.ths.get i = _
      rw [hd]
      rfl

theorem getMutex_of_ok {w : World} {o : Nat} (h : ∃ r, w.postAcquire o = .ok r) :
    ∃ m, w.exec.objs[o]? = some (.mutex m) := by
  obtain ⟨r, h⟩ := h
  unfold World.postAcquire at h
  cases hg : w.getMutex o with
  | error e => simp [hg, bind, Except.bind] at h
  | ok m => exact ⟨m, getMutex_ok4 hg⟩

/-- a successful `post_acquire` -/
theorem postAcquire_upd {w1 w2 : World} {o : Nat} (h : w1.postAcquire o = .ok (w2, true)) :
    Upd w1 w2 o (.mutex (some w1.tid)) (fun op => op.obj == o && op.blocking) Thread.setBlocked ∧
    (ovW w1)[o]? = some (.mutex none) := by
  obtain ⟨m, hm⟩ := getMutex_of_ok ⟨_, h⟩
  have hl : m.lock = none := by
    cases hl : m.lock with
    | none => rfl
    | some t =>
      rw [C07.postAcquire_held hm (by rw [hl]; rfl)] at h
      cases h
  have hv : (ovW w1)[o]? = some (.mutex none) := by
    show (w1.exec.objs.map ov4)[o]? = _
    rw [List.getElem?_map, hm]
    simp [ov4, hl]
  rw [C07.postAcquire_free hm hl] at h
  simp only [Except.ok.injEq, Prod.mk.injEq, and_true] at h
  subst h
  obtain ⟨h1, h2, h3, h4⟩ := upd_of_mapIdx (w1 := w1)
    (e := { w1.exec with
      objs := w1.exec.objs.set o (.mutex { m with lock := some w1.tid })
      threads := { w1.exec.threads with threads :=
        (w1.exec.threads.threads.mapIdx fun i th =>
          if i = w1.tid then { th with causality := th.causality.join m.sync.hb }
          else if th.operation.any (fun op => op.obj == o && op.blocking) then th.setBlocked
          else th) } })
    (fun op => op.obj == o && op.blocking) Thread.setBlocked
    (fun th => { th with causality := th.causality.join m.sync.hb }) (fun _ => rfl) rfl
  exact ⟨⟨rfl, rfl, rfl, rfl, rfl, rfl, h1, h2, ⟨_, hv, by
    show (w1.exec.objs.set o _).map ov4 = _
    rw [ov_set]; rfl⟩, h3, h4⟩, hv⟩

/-- `release_lock` (a thread is active) -/
theorem releaseLock_upd {w1 w2 : World} {o : Nat} (ha : w1.ths.isActive = true)
    (h : w1.releaseLock o = .ok w2) :
    Upd w1 w2 o (.mutex none) (fun op => op.obj == o) Thread.wake ∧ ∃ l, (ovW w1)[o]? = some (.mutex l) := by
  obtain ⟨m, hm⟩ : ∃ m, w1.exec.objs[o]? = some (.mutex m) := by
    unfold World.releaseLock at h
    cases hg : w1.getMutex o with
    | error e => simp [hg, bind, Except.bind] at h
    | ok m => exact ⟨m, getMutex_ok4 hg⟩
  have hv : (ovW w1)[o]? = some (.mutex m.lock) := by
    show (w1.exec.objs.map ov4)[o]? = _
    rw [List.getElem?_map, hm]; rfl
  rw [C07.releaseLock_active hm ha] at h
  simp only [Except.ok.injEq] at h
  subst h
  obtain ⟨h1, h2, h3, h4⟩ := upd_of_mapIdx (w1 := w1)
    (e := { w1.exec with
      objs := w1.exec.objs.set o (.mutex { m with
        lock := none, sync := m.sync.store w1.ths.activeT.released w1.ths.caus .rel })
      threads := { w1.exec.threads with threads :=
        (w1.exec.threads.threads.mapIdx fun i th =>
          if i = w1.tid then th
          else if th.operation.any (fun op => op.obj == o) then th.wake else th) } })
    (fun op => op.obj == o) Thread.wake id (fun _ => rfl) rfl
  exact ⟨⟨rfl, rfl, rfl, rfl, rfl, rfl, h1, h2, ⟨_, hv, by
    show (w1.exec.objs.set o _).map ov4 = _
    rw [ov_set]; rfl⟩, h3, h4⟩, _, hv⟩

/-- `Notify::notify` -/
theorem notifyEffect_upd {w1 w2 : World} {o : Nat} (h : w1.notifyEffect o = .ok w2) :
    ∃ sp nt ds, Upd w1 w2 o (.notify sp true ds) (fun op => op.obj == o) Thread.wake ∧
      (ovW w1)[o]? = some (.notify sp nt ds) := by
  obtain ⟨ns, hn⟩ : ∃ ns, w1.exec.objs[o]? = some (.notify ns) := by
    unfold World.notifyEffect at h
    cases hg : w1.getNotify o with
    | error e => simp [hg, bind, Except.bind] at h
    | ok m => exact ⟨m, getNotify_ok4 hg⟩
  have hv : (ovW w1)[o]? = some (.notify ns.spurious ns.notified ns.didSpur) := by
    show (w1.exec.objs.map ov4)[o]? = _
    rw [List.getElem?_map, hn]; rfl
  rw [C08.notifyEffect_eq hn] at h
  simp only [Except.ok.injEq] at h
  subst h
  obtain ⟨h1, h2, h3, h4⟩ := upd_of_mapIdx (w1 := w1)
    (e := { w1.exec with
      objs := w1.exec.objs.set o (.notify { ns with
        sync := ns.sync.store w1.ths.activeT.released w1.ths.caus .rel, notified := true })
      threads := { w1.exec.threads with threads :=
        (w1.exec.threads.threads.mapIdx fun i th =>
          if i = w1.tid then th
          else if th.operation.any (fun op => op.obj == o) then th.wake
          else th) } })
    (fun op => op.obj == o) Thread.wake id (fun _ => rfl) rfl
  exact ⟨ns.spurious, ns.notified, ns.didSpur, ⟨rfl, rfl, rfl, rfl, rfl, rfl, h1, h2, ⟨_, hv, by
    show (w1.exec.objs.set o _).map ov4 = _
    rw [ov_set]; rfl⟩, h3, h4⟩, hv⟩

section
variable {w w1 w2 : World} {G : TCtl → TCtl} {H : Option Nat} {K : List Nat} {Fu : List FutSt}

theorem any_obj {th : Thread} {o : Nat} {P : Operation → Bool} (h : th.operation.any P = true) :
    ∃ op, th.operation = some op ∧ P op = true := by
  cases ho : th.operation with
  | none => rw [ho] at h; cases h
  | some op => rw [ho] at h; exact ⟨op, rfl, h⟩

/-- the frame part of `Mid` along an `Upd` -/
theorem Mid.upd_tid (m : Mid w w1 G H K Fu) {o : Nat} {v : OV4} {P : Operation → Bool} {B : Thread → Thread}
    (u : Upd w1 w2 o v P B) : w2.tid = w.tid := by
  show w2.exec.threads.activeId = _
  unfold Threads.activeId
  rw [u.active]
  exact m.tid

/-- **a mutex is acquired**: the other threads waiting on it are blocked -/
theorem Mid.acquire (m : Mid w w1 G none K Fu) {o : Nat} (h : w1.postAcquire o = .ok (w2, true)) :
    Mid w w2 G (some o) K Fu := by
  obtain ⟨u, hv0⟩ := postAcquire_upd h
  obtain ⟨v0, _, hov⟩ := u.ov
  have hself : (w2.ths.get w.tid).state = (w1.ths.get w.tid).state := by rw [← m.tid]; exact u.self
  have hoth : ∀ i, i ≠ w.tid → w2.ths.get i =
      if (w1.ths.get i).operation.any (fun op => op.obj == o && op.blocking) then (w1.ths.get i).setBlocked
      else w1.ths.get i := fun i hi => u.oth i (by rw [m.tid]; exact hi)
  have hget : ∀ n, n ≠ o → (ovW w2)[n]? = (ovW w1)[n]? := fun n hn => by rw [hov, get_set_ne _ _ hn]
  have hgo : (ovW w2)[o]? = some (.mutex (some w.tid)) := by rw [hov, get_set_self _ hv0, m.tid]
  refine
    { prog := u.prog.trans m.prog, spawned := u.spawned.trans m.spawned, ctl := u.ctl.trans m.ctl,
      futs := u.futs.trans m.futs, tid := m.upd_tid u, pan := u.pan.trans m.pan,
      act := by show w2.exec.threads.active.isSome = true; rw [u.active]; exact m.act,
      len := u.len.trans m.len, g := ?_, oth := ?_, run := by rw [hself]; exact m.run,
      locks := ?_, mine := ?_, mkind := ?_, nmono := ?_, nkind := ?_, avail := ?_,
      path := by rw [u.path]; exact m.path }
  · intro i hb
    by_cases hi : i = w.tid
    · subst hi
      have hb' : (w2.ths.get w.tid).state = .blocked := hb
      rw [hself] at hb'
      exact absurd hb' m.run.1
    · have e := hoth i hi
      have hb' : (w2.ths.get i).state = .blocked := hb
      show ∃ op, (w2.ths.get i).operation = some op ∧ _
      rw [e] at hb' ⊢
      split at hb'
      · next hc =>
        rw [if_pos hc]
        obtain ⟨op, ho, hp⟩ := any_obj (o := o) hc
        simp only [Bool.and_eq_true, beq_iff_eq] at hp
        refine ⟨op, ho, hp.2, .inl ⟨w.tid, ?_⟩⟩
        rw [hp.1]; exact hgo
      · next hc =>
        rw [if_neg hc]
        obtain ⟨op, h1, h2, h3⟩ := m.g i hb'
        refine ⟨op, h1, h2, ?_⟩
        have hne : op.obj ≠ o := by
          intro e'
          apply hc
          show (w1.exec.threads.get i).operation.any _ = true
          rw [h1]
          simp [e', h2]
        show Unavail (ovW w2) op.obj
        rw [hov]
        exact (unavail_set_ne _ hne).2 h3
  · intro i hi
    rw [hoth i hi]
    obtain ⟨h1, h2⟩ := m.oth i hi
    split
    · exact ⟨h1, fun ht => by simp [Thread.setBlocked] at ht⟩
    · exact ⟨h1, h2⟩
  · intro o' t hl ht
    by_cases e : o' = o
    · subst e
      rw [hgo] at hl
      cases hl
      exact absurd rfl ht
    · rw [hget o' e] at hl
      exact m.locks o' t hl ht
  · intro o' hl
    by_cases e : o' = o
    · rw [e]
    · rw [hget o' e] at hl
      have := m.mine o' hl
      cases this
  · intro o' l hl
    obtain ⟨l', h'⟩ := m.mkind o' l hl
    by_cases e : o' = o
    · subst e; exact ⟨_, hgo⟩
    · exact ⟨l', by rw [hget o' e]; exact h'⟩
  · intro o' sp ds hk hl
    obtain ⟨ds', h'⟩ := m.nmono o' sp ds hk hl
    have e : o' ≠ o := by
      intro e; subst e
      rw [hv0] at h'; cases h'
    exact ⟨ds', by rw [hget o' e]; exact h'⟩
  · intro o' sp nt ds hl
    obtain ⟨nt', ds', h'⟩ := m.nkind o' sp nt ds hl
    have e : o' ≠ o := by
      intro e; subst e
      rw [hv0] at h'; cases h'
    exact ⟨nt', ds', by rw [hget o' e]; exact h'⟩
  · intro i hi op sp nt ds hop hv hk hnb h
    obtain ⟨nt', ds', hkd⟩ := m.nkind _ sp nt ds hv
    have e : op.obj ≠ o := by
      intro e
      rw [e, hv0] at hkd; cases hkd
    have hnb1 : (w1.ths.get i).state ≠ .blocked := by
      intro hb
      apply hnb
      rw [hoth i hi]
      split
      · rfl
      · exact hb
    obtain ⟨ds', h'⟩ := m.avail i hi op sp nt ds hop hv hk hnb1 h
    exact ⟨ds', by rw [hget _ e]; exact h'⟩

/-- what `wake` leaves of an entry -/
theorem wake_blocked {t : Thread} (h : t.wake.state = .blocked) : False := by
  rw [Deadlock.wake_state] at h
  split at h
  · cases h
  · next hn => exact hn h

theorem wake_term {t : Thread} (h : t.wake.state = .terminated) : t.state = .terminated := by
  rw [Deadlock.wake_state] at h
  split at h
  · cases h
  · exact h

/-- **object `o` becomes available** (a mutex is released, a `Notify` is notified): the threads whose pending
operation is on it are woken.  `hlk`: the locks after the step. -/
theorem Mid.wakeStep (m : Mid w w1 G H K Fu) {o : Nat} {v : OV4} {H' : Option Nat}
    (u : Upd w1 w2 o v (fun op => op.obj == o) Thread.wake)
    (hav : ¬ Unavail [v] 0)
    (hlk : ∀ t, v = .mutex (some t) → False)
    (hmine : ∀ o', o' ≠ o → H = some o' → H' = some o')
    (hmk : ∀ l, (ovW w1)[o]? = some (.mutex l) → ∃ l', v = .mutex l')
    (hnm : ∀ sp ds, (ovW w1)[o]? = some (.notify sp true ds) → ∃ ds', v = .notify sp true ds')
    (hnk : ∀ sp nt ds, (ovW w1)[o]? = some (.notify sp nt ds) → ∃ ds', v = .notify sp true ds') :
    Mid w w2 G H' K Fu := by
  obtain ⟨v0, hv0, hov⟩ := u.ov
  have hself : (w2.ths.get w.tid).state = (w1.ths.get w.tid).state := by rw [← m.tid]; exact u.self
  have hoth : ∀ i, i ≠ w.tid → w2.ths.get i =
      if (w1.ths.get i).operation.any (fun op => op.obj == o) then (w1.ths.get i).wake
      else w1.ths.get i := fun i hi => u.oth i (by rw [m.tid]; exact hi)
  have hget : ∀ n, n ≠ o → (ovW w2)[n]? = (ovW w1)[n]? := fun n hn => by rw [hov, get_set_ne _ _ hn]
  have hgo : (ovW w2)[o]? = some v := by rw [hov, get_set_self _ hv0]
  refine
    { prog := u.prog.trans m.prog, spawned := u.spawned.trans m.spawned, ctl := u.ctl.trans m.ctl,
      futs := u.futs.trans m.futs, tid := m.upd_tid u, pan := u.pan.trans m.pan,
      act := by show w2.exec.threads.active.isSome = true; rw [u.active]; exact m.act,
      len := u.len.trans m.len, g := ?_, oth := ?_, run := by rw [hself]; exact m.run,
      locks := ?_, mine := ?_, mkind := ?_, nmono := ?_, nkind := ?_, avail := ?_,
      path := by rw [u.path]; exact m.path }
  · intro i hb
    by_cases hi : i = w.tid
    · subst hi
      have hb' : (w2.ths.get w.tid).state = .blocked := hb
      rw [hself] at hb'
      exact absurd hb' m.run.1
    · have e := hoth i hi
      have hb' : (w2.ths.get i).state = .blocked := hb
      show ∃ op, (w2.ths.get i).operation = some op ∧ _
      rw [e] at hb' ⊢
      split at hb'
      · exact absurd hb' (fun h => wake_blocked h)
      · next hc =>
        rw [if_neg hc]
        obtain ⟨op, h1, h2, h3⟩ := m.g i hb'
        refine ⟨op, h1, h2, ?_⟩
        have hne : op.obj ≠ o := by
          intro e'
          apply hc
          show (w1.exec.threads.get i).operation.any _ = true
          rw [h1]
          simp [e']
        show Unavail (ovW w2) op.obj
        rw [hov]
        exact (unavail_set_ne _ hne).2 h3
  · intro i hi
    rw [hoth i hi]
    obtain ⟨h1, h2⟩ := m.oth i hi
    split
    · exact ⟨(Deadlock.wake_operation _).trans h1, fun ht => h2 (wake_term ht)⟩
    · exact ⟨h1, h2⟩
  · intro o' t hl ht
    by_cases e : o' = o
    · subst e
      rw [hgo] at hl
      exact absurd (Option.some.inj hl) (fun e' => hlk t e')
    · rw [hget o' e] at hl
      exact m.locks o' t hl ht
  · intro o' hl
    by_cases e : o' = o
    · subst e
      rw [hgo] at hl
      exact absurd (Option.some.inj hl) (fun e' => hlk _ e')
    · rw [hget o' e] at hl
      exact hmine o' e (m.mine o' hl)
  · intro o' l hl
    obtain ⟨l', h'⟩ := m.mkind o' l hl
    by_cases e : o' = o
    · subst e
      obtain ⟨l2, e2⟩ := hmk l' h'
      exact ⟨l2, by rw [hgo, e2]⟩
    · exact ⟨l', by rw [hget o' e]; exact h'⟩
  · intro o' sp ds hk hl
    obtain ⟨ds', h'⟩ := m.nmono o' sp ds hk hl
    by_cases e : o' = o
    · subst e
      obtain ⟨d2, e2⟩ := hnm sp ds' h'
      exact ⟨d2, by rw [hgo, e2]⟩
    · exact ⟨ds', by rw [hget o' e]; exact h'⟩
  · intro o' sp nt ds hl
    obtain ⟨nt', ds', h'⟩ := m.nkind o' sp nt ds hl
    by_cases e : o' = o
    · subst e
      obtain ⟨d2, e2⟩ := hnk sp nt' ds' h'
      exact ⟨true, d2, by rw [hgo, e2]⟩
    · exact ⟨nt', ds', by rw [hget o' e]; exact h'⟩
  · intro i hi op sp nt ds hop hv hk hnb h
    obtain ⟨nt', ds', hkd⟩ := m.nkind _ sp nt ds hv
    by_cases e : op.obj = o
    · rw [e] at hkd ⊢
      obtain ⟨d2, e2⟩ := hnk sp nt' ds' hkd
      exact ⟨d2, by rw [hgo, e2]⟩
    · have hnb1 : (w1.ths.get i).state ≠ .blocked := by
        intro hb
        apply hnb
        rw [hoth i hi]
        have hop1 : (w1.ths.get i).operation = some op := by rw [(m.oth i hi).1]; exact hop
        have : (w1.ths.get i).operation.any (fun op => op.obj == o) = false := by
          rw [hop1]; simp [e]
        rw [this]
        exact hb
      obtain ⟨ds', h'⟩ := m.avail i hi op sp nt ds hop hv hk hnb1 h
      exact ⟨ds', by rw [hget _ e]; exact h'⟩

/-- **a mutex is released** -/
theorem Mid.release (m : Mid w w1 G H K Fu) {o : Nat} (h : w1.releaseLock o = .ok w2)
    (hH : ∀ o', H = some o' → o' = o) : Mid w w2 G none K Fu := by
  obtain ⟨u, l, hv0⟩ := releaseLock_upd m.act h
  refine m.wakeStep u ?_ (fun t e => by cases e) ?_ (fun _ _ => ⟨none, rfl⟩) ?_ ?_
  · rintro (⟨l, hl⟩ | ⟨sp, ds, hn⟩)
    · simp at hl
    · simp at hn
  · intro o' hne e
    exact absurd (hH o' e) hne
  · intro sp ds hn
    rw [hv0] at hn; cases hn
  · intro sp nt ds hn
    rw [hv0] at hn; cases hn

/-- **a `Notify` is notified** -/
theorem Mid.notify (m : Mid w w1 G H K Fu) {o : Nat} (h : w1.notifyEffect o = .ok w2) :
    Mid w w2 G H K Fu := by
  obtain ⟨sp, nt, ds, u, hv0⟩ := notifyEffect_upd h
  refine m.wakeStep u ?_ (fun t e => by cases e) (fun _ _ e => e) ?_ ?_ ?_
  · rintro (⟨l, hl⟩ | ⟨sp', ds', hn⟩)
    · simp at hl
    · simp at hn
  · intro l hl
    rw [hv0] at hl; cases hl
  · intro sp' ds' hn
    rw [hv0] at hn
    cases hn
    exact ⟨_, rfl⟩
  · intro sp' nt' ds' hn
    rw [hv0] at hn
    cases hn
    exact ⟨_, rfl⟩

/-- **the flag of a `Notify` is consumed** (the second half of `wait`) -/
theorem Mid.consume (m : Mid w w1 G H K Fu) {o : Nat} (h : w1.notifyWait2 o = .ok w2) :
    Mid w w2 G H (o :: K) Fu := by
  obtain ⟨ns, hn⟩ : ∃ ns, w1.exec.objs[o]? = some (.notify ns) := by
    unfold World.notifyWait2 at h
    cases hg : w1.getNotify o with
    | error e => simp [hg, bind, Except.bind] at h
    | ok m => exact ⟨m, getNotify_ok4 hg⟩
  have hnt : ns.notified = true := by
    cases hh : ns.notified with
    | true => rfl
    | false => rw [C08.notifyWait2_unnotified hn hh] at h; cases h
  rw [C08.notifyWait2_notified hn hnt] at h
  have e2 := Except.ok.inj h
  clear h
  have hv0 : (ovW w1)[o]? = some (.notify ns.spurious true ns.didSpur) := by
    show (w1.exec.objs.map ov4)[o]? = _
    rw [List.getElem?_map, hn]
    simp [ov4, hnt]
  have hov : ovW w2 = (ovW w1).set o (.notify ns.spurious false ns.didSpur) := by
    rw [← e2]
    show (w1.exec.objs.set o _).map ov4 = _
    rw [ov_set]; rfl
  have ht : TSame w1.exec.threads w2.exec.threads := by
    rw [← e2]; exact tsame_setCaus _ _
  have hget : ∀ n, n ≠ o → (ovW w2)[n]? = (ovW w1)[n]? := fun n hn => by rw [hov, get_set_ne _ _ hn]
  have hgo : (ovW w2)[o]? = some (.notify ns.spurious false ns.didSpur) := by
    rw [hov, get_set_self _ hv0]
  refine
    { prog := by rw [← e2]; exact m.prog, spawned := by rw [← e2]; exact m.spawned,
      ctl := by rw [← e2]; exact m.ctl, futs := by rw [← e2]; exact m.futs,
      tid := by
        show w2.exec.threads.activeId = _
        unfold Threads.activeId
        rw [ht.1]; exact m.tid
      pan := by rw [← e2]; exact m.pan,
      act := by
        show w2.exec.threads.active.isSome = true
        rw [ht.1]; exact m.act
      len := ht.2.1.trans m.len, g := ?_, oth := ?_, run := ?_,
      locks := ?_, mine := ?_, mkind := ?_, nmono := ?_, nkind := ?_, avail := ?_,
      path := by rw [← e2]; exact m.path }
  · intro i hb
    have hb1 : (w1.exec.threads.get i).state = .blocked := by rw [← (ht.2.2 i).1]; exact hb
    obtain ⟨op, h1, h2, h3⟩ := m.g i hb1
    refine ⟨op, by rw [(ht.2.2 i).2]; exact h1, h2, ?_⟩
    by_cases e : op.obj = o
    · rw [e]; exact .inr ⟨_, _, hgo⟩
    · show Unavail (ovW w2) op.obj
      rw [hov]
      exact (unavail_set_ne _ e).2 h3
  · intro i hi
    obtain ⟨h1, h2⟩ := m.oth i hi
    refine ⟨((ht.2.2 i).2).trans h1, fun h => h2 ?_⟩
    show (w1.exec.threads.get i).state = _
    rw [← (ht.2.2 i).1]; exact h
  · have : (w2.ths.get w.tid).state = (w1.ths.get w.tid).state := (ht.2.2 _).1
    rw [this]; exact m.run
  · intro o' t hl ht'
    by_cases e : o' = o
    · subst e; rw [hgo] at hl; cases hl
    · rw [hget o' e] at hl; exact m.locks o' t hl ht'
  · intro o' hl
    by_cases e : o' = o
    · subst e; rw [hgo] at hl; cases hl
    · rw [hget o' e] at hl; exact m.mine o' hl
  · intro o' l hl
    obtain ⟨l', h'⟩ := m.mkind o' l hl
    have e : o' ≠ o := by
      intro e; subst e
      rw [hv0] at h'; cases h'
    exact ⟨l', by rw [hget o' e]; exact h'⟩
  · intro o' sp ds hk hl
    have hk' : o' ∉ K := fun hm => hk (List.mem_cons_of_mem _ hm)
    have e : o' ≠ o := fun e => hk (by rw [e]; exact List.mem_cons_self)
    obtain ⟨ds', h'⟩ := m.nmono o' sp ds hk' hl
    exact ⟨ds', by rw [hget o' e]; exact h'⟩
  · intro o' sp nt ds hl
    obtain ⟨nt', ds', h'⟩ := m.nkind o' sp nt ds hl
    by_cases e : o' = o
    · subst e
      rw [hv0] at h'
      cases h'
      exact ⟨false, _, hgo⟩
    · exact ⟨nt', ds', by rw [hget o' e]; exact h'⟩
  · intro i hi op sp nt ds hop hv hk hnb h
    have hk' : op.obj ∉ K := fun hm => hk (List.mem_cons_of_mem _ hm)
    have e : op.obj ≠ o := fun e => hk (by rw [e]; exact List.mem_cons_self)
    have hnb1 : (w1.ths.get i).state ≠ .blocked := by
      intro hb
      apply hnb
      show (w2.exec.threads.get i).state = _
      rw [(ht.2.2 i).1]; exact hb
    obtain ⟨ds', h'⟩ := m.avail i hi op sp nt ds hop hv hk' hnb1 h
    exact ⟨ds', by rw [hget _ e]; exact h'⟩

end

end Deadlock3
end LoomVerif

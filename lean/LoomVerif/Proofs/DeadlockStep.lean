/-
Deadlock soundness, part 4: the twin-side invariant `JB` along the stages that touch other threads or the tables:
the acquisition and the release of a mutex, the notification of a `JoinHandle`, the completion of a `join`, `spawn`.
-/
import LoomVerif.Proofs.DeadlockInv

namespace LoomVerif
namespace Deadlock
open Refine Sy

section
variable {w : World} {s : SCData}

theorem completeF_fin (r : Ret) (c : TCtl) : (completeF r c).fin = c.fin := rfl
theorem completeF_body (r : Ret) (c : TCtl) : (completeF r c).body = c.body := rfl
theorem completeF_stage (r : Ret) (c : TCtl) : (completeF r c).stage ≠ 1 := by simp [completeF]

/-- a `JoinHandle` notify is not a mutex object -/
theorem notify_ne_mutex {objs : List Obj} {n o : Nat} {a b : Bool} {l : Option Nat}
    (hn : objView objs n = some (.notify a b)) (ho : objView objs o = some (.mutex l)) : n ≠ o := by
  intro e; rw [e, ho] at hn; cases hn

theorem spawned_view (hR : R w s) {b t n : Nat} (h : (b, t, n) ∈ w.spawned) :
    ∃ nt, objView w.exec.objs n = some (.notify false nt) := by
  obtain ⟨_, _, nt, hv, _⟩ := hR.y.sp b t n h
  exact ⟨nt, hv⟩

/-- the control records after `complete` -/
theorem ctlOf_complete (w0 : World) (r : Ret) (hc : w0.ctl = w.ctl) (ht : w0.tid = w.tid)
    (hact : w.tid < w.ctl.length) (j : Nat) :
    (w0.complete r).ctlOf j = if j = w.tid then completeF r (w.ctlOf j) else w.ctlOf j :=
  ctlOf_of_modify (w := w) (w' := w0.complete r) (by rw [ctl_complete', hc, ht]) hact j

/-! ### thread tables after the lock primitives -/

theorem postAcquire_ths {w1 : World} {o : Nat} {m : MutexSt}
    (hm : w.exec.objs[o]? = some (.mutex m)) (hl : m.lock = none) (h : w.postAcquire o = .ok (w1, true)) :
    w1.exec.path = w.exec.path ∧ ∀ i, i < w.exec.threads.threads.length →
      w1.ths.get i =
        if i = w.tid then { w.ths.get i with causality := (w.ths.get i).causality.join m.sync.hb }
        else if (w.ths.get i).operation.any (fun op => op.obj == o && op.blocking) then (w.ths.get i).setBlocked
        else w.ths.get i := by
  rw [C07.postAcquire_free hm hl] at h
  simp only [Except.ok.injEq, Prod.mk.injEq, and_true] at h
  subst h
  exact ⟨rfl, fun i hi => Sy.get_mapIdx w.exec.threads _ i hi⟩

theorem releaseLock_ths {w1 : World} {o : Nat} {m : MutexSt}
    (hm : w.exec.objs[o]? = some (.mutex m)) (ha : w.ths.isActive = true) (h : w.releaseLock o = .ok w1) :
    w1.exec.path = w.exec.path ∧ ∀ i, i < w.exec.threads.threads.length →
      w1.ths.get i =
        if i = w.tid then w.ths.get i
        else if (w.ths.get i).operation.any (fun op => op.obj == o) then (w.ths.get i).wake
        else w.ths.get i := by
  rw [C07.releaseLock_active hm ha] at h
  simp only [Except.ok.injEq] at h
  subst h
  exact ⟨rfl, fun i hi => Sy.get_mapIdx w.exec.threads _ i hi⟩

/-- `JT` of a world reached by `complete` -/
theorem JT_complete (w1 : World) (r : Ret) (i : Nat) :
    JT (w1.complete r) i =
      JTd w1.prog w1.spawned w1.exec.objs (fun t => ((w1.complete r).ctlOf t).fin) (i = w1.tid) (w1.ths.get i)
        ((w1.complete r).ctlOf i) := rfl

/-! ### the acquisition of a mutex -/

/-- **`post_acquire` succeeds** (the stage after the branch point of `lock` / `tryLock`): the OTHER threads waiting on
the mutex are blocked, nobody else is touched -/
theorem JB.acquire_step (hJ : JB w) (hR : R w s) (hact : w.tid < w.ctl.length) {mi : Nat} {ms : MutexSt}
    (hobj : w.exec.objs[w.mutexObj mi]? = some (.mutex ms)) (hfree : ms.lock = none)
    (hnb : (w.ths.get w.tid).state ≠ .blocked) (r : Ret) {w1 : World}
    (hpa : w.postAcquire (w.mutexObj mi) = .ok (w1, true)) :
    JB (w1.complete r) ∧ (w1.complete r).exec.path = w.exec.path := by
  obtain ⟨_, hc1, ht1, hp1, hs1, _, hl1, _, hobjs⟩ := postAcquire_obs hobj hpa
  replace hobjs := hobjs rfl
  obtain ⟨hpath, hths⟩ := postAcquire_ths hobj hfree hpa
  have hview : objView w.exec.objs (mobj w.prog mi) = some (.mutex ms.lock) := objView_of hobj
  have hlt : mobj w.prog mi < w.exec.objs.length := objView_lt hview
  have hfin : ∀ t, ((w1.complete r).ctlOf t).fin = (w.ctlOf t).fin := by
    intro t
    rw [ctlOf_complete w1 r hc1 ht1 hact]
    split <;> rfl
  have hs' : (w1.complete r).spawned = w.spawned := hs1
  refine ⟨⟨fun i hi => ?_, by rw [hs']; exact hJ.spt, by rw [hs']; exact hJ.sp0, ?_⟩, hpath⟩
  · have hi' : i < w.ctl.length := by
      have : (w1.complete r).ctl.length = w.ctl.length := by rw [ctl_complete', hc1]; simp
      omega
    have hil : i < w.exec.threads.threads.length := by rw [← hR.lenCtl]; exact hi'
    rw [JT_complete, hp1, hs1, ht1, hobjs, hths i hil, ctlOf_complete w1 r hc1 ht1 hact]
    by_cases e : i = w.tid
    · subst e
      simp only [if_true]
      have h0 := hJ.thr _ hi'
      exact JTd.mk_idle trivial h0.noYield (fun ht => by rw [completeF_fin]; exact h0.term ht)
        (completeF_stage r _) hnb
    · simp only [e, if_false]
      have h0 : JTd w.prog w.spawned w.exec.objs (fun t => (w.ctlOf t).fin) False (w.ths.get i) (w.ctlOf i) :=
        (hJ.thr i hi').mono (fun _ h => h) (fun _ _ h => h) (fun _ _ _ _ => Iff.rfl) (fun f => e f) rfl rfl
      have h1 := h0.acquire_other (mi := mi) (x := w.tid)
        (objs' := w.exec.objs.set (w.mutexObj mi) (.mutex { ms with lock := some w.tid }))
        (by rw [mutexObj_eq, objView_set_self _ hlt]; rfl)
        (fun m l hm hv => by
          rw [mutexObj_eq, objView_set_ne _ _ (by simp [mobj, hm])]; exact hv)
        (fun b t n hmem => by
          obtain ⟨nt, hn⟩ := spawned_view hR hmem
          exact notify_ne_mutex hn hview)
      exact h1.mono (fun _ h => h) (fun _ _ h => h) (fun _ t _ _ => by rw [hfin t]) (fun f => f.elim) rfl rfl
  · refine jnd_frame hJ hp1 hs1 (by rw [ctl_complete', hc1]; simp) ?_ ?_ ?_
    · intro b i n _ h10
      rw [hfin] at h10; exact h10
    · intro n hv
      show objView w1.exec.objs n = _
      rw [hobjs, mutexObj_eq, objView_set_ne _ _ (notify_ne_mutex hv hview)]; exact hv
    · intro j hj
      rw [ctlOf_complete w1 r hc1 ht1 hact]
      split
      · exact ⟨rfl, Nat.le_succ _⟩
      · exact ⟨rfl, Nat.le_refl _⟩

/-! ### the release of a mutex -/

/-- **`release_lock`** (the single stage of `unlock`): the blocked threads pending on the mutex are woken, nobody
else is touched -/
theorem JB.release_step (hJ : JB w) (hR : R w s) (hact : w.tid < w.ctl.length) (ha : w.ths.isActive = true)
    {mi : Nat} {ms : MutexSt} (hobj : w.exec.objs[w.mutexObj mi]? = some (.mutex ms))
    (hw : waits (opAt w) = false) (r : Ret) {w1 : World}
    (hrl : w.releaseLock (w.mutexObj mi) = .ok w1) :
    JB (w1.complete r) ∧ (w1.complete r).exec.path = w.exec.path := by
  obtain ⟨hc1, ht1, hp1, hs1, _, hl1, m', hm', hobjs⟩ := releaseLock_obs hobj hrl
  obtain ⟨hpath, hths⟩ := releaseLock_ths hobj ha hrl
  have hview : objView w.exec.objs (mobj w.prog mi) = some (.mutex ms.lock) := objView_of hobj
  have hlt : mobj w.prog mi < w.exec.objs.length := objView_lt hview
  have hfin : ∀ t, ((w1.complete r).ctlOf t).fin = (w.ctlOf t).fin := by
    intro t
    rw [ctlOf_complete w1 r hc1 ht1 hact]
    split <;> rfl
  have hs' : (w1.complete r).spawned = w.spawned := hs1
  refine ⟨⟨fun i hi => ?_, by rw [hs']; exact hJ.spt, by rw [hs']; exact hJ.sp0, ?_⟩, hpath⟩
  · have hi' : i < w.ctl.length := by
      have : (w1.complete r).ctl.length = w.ctl.length := by rw [ctl_complete', hc1]; simp
      omega
    have hil : i < w.exec.threads.threads.length := by rw [← hR.lenCtl]; exact hi'
    rw [JT_complete, hp1, hs1, ht1, hobjs, hths i hil, ctlOf_complete w1 r hc1 ht1 hact]
    by_cases e : i = w.tid
    · subst e
      simp only [if_true]
      have h0 := hJ.thr _ hi'
      exact h0.after_plain hw trivial (.inr rfl) (fun ht => by rw [completeF_fin]; exact h0.term ht)
    · simp only [e, if_false]
      have h0 : JTd w.prog w.spawned w.exec.objs (fun t => (w.ctlOf t).fin) False (w.ths.get i) (w.ctlOf i) :=
        (hJ.thr i hi').mono (fun _ h => h) (fun _ _ h => h) (fun _ _ _ _ => Iff.rfl) (fun f => e f) rfl rfl
      have h1 := h0.release_other (mi := mi)
        (objs' := w.exec.objs.set (w.mutexObj mi) (.mutex m'))
        (by rw [mutexObj_eq, objView_set_self _ hlt]; simp [view, hm'])
        (fun m l hm hv => by
          rw [mutexObj_eq, objView_set_ne _ _ (by simp [mobj, hm])]; exact hv)
        (fun b t n hmem => by
          obtain ⟨nt, hn⟩ := spawned_view hR hmem
          exact notify_ne_mutex hn hview)
      have hrel : released (mobj w.prog mi) (w.ths.get i) =
          (if (w.ths.get i).operation.any (fun op => op.obj == w.mutexObj mi) then (w.ths.get i).wake
           else w.ths.get i) := by
        unfold released
        cases (w.ths.get i).operation with
        | none => rfl
        | some op => rfl
      rw [hrel] at h1
      exact h1.mono (fun _ h => h) (fun _ _ h => h) (fun _ t _ _ => by rw [hfin t]) (fun f => f.elim) rfl rfl
  · refine jnd_frame hJ hp1 hs1 (by rw [ctl_complete', hc1]; simp) ?_ ?_ ?_
    · intro b i n _ h10
      rw [hfin] at h10; exact h10
    · intro n hv
      show objView w1.exec.objs n = _
      rw [hobjs, mutexObj_eq, objView_set_ne _ _ (notify_ne_mutex hv hview)]; exact hv
    · intro j hj
      rw [ctlOf_complete w1 r hc1 ht1 hact]
      split
      · exact ⟨rfl, Nat.le_succ _⟩
      · exact ⟨rfl, Nat.le_refl _⟩

end

end Deadlock
end LoomVerif

/-
Race exactness on the WAIT fragment, part 7: the two generic shapes of a stage.

* `assemble`: the twin-side invariants after a stage, from the invariant of the active thread (the caller's
  business), the frame of every other thread (or, for the threads the stage touches, their invariant), and the
  account of the objects;
* `quiet_core2`: a scheduling point / a move of the control record of the active thread: `QuietOut2`.
-/
import LoomVerif.Proofs.Race2Step

namespace LoomVerif
namespace Race2
open Refine Refine2 Sy C07 C08 Clocks Race

section
variable {w w' : World} {s : SC.St}

/-- what `assemble` asks about a thread other than the active one: nothing the invariant reads has changed, or the
invariant is re-established by the caller -/
def OtherOK (w w' : World) (σ σ' : CS) (i : Nat) : Prop :=
  (SameThr w w' i ∧ topo w' i = topo w i ∧ σ'.thr i = σ.thr i ∧
    (fin w i < 10 → σ'.mtx (kI w.prog (body w i)) = σ.mtx (kI w.prog (body w i)))) ∨
  ThrInv w' σ' i

theorem assemble (hRC : RC2 w s) {σT σT' : CS} {mT mT' : Nat → List VV} (hLT : LinkT2 w σT mT)
    (hp : w'.prog = w.prog) (hs : w'.spawned = w.spawned) (hn : nthr w' = nthr w)
    (hlen : w.exec.objs.length ≤ w'.exec.objs.length)
    (hctl : ∀ i, i ≠ w.tid → w'.ctlOf i = w.ctlOf i) (hbody : body w' w.tid = body w w.tid)
    (hfinT : 10 ≤ fin w w.tid → 10 ≤ fin w' w.tid)
    (hself : ThrInv w' σT' w.tid)
    (hoth : ∀ i, i < nthr w → i ≠ w.tid → OtherOK w w' σT σT' i)
    (hslot : ∀ m, (σT.mtx m).le (σT'.mtx m))
    (hjh : ∀ b j n, (b, j, n) ∈ w.spawned → (objHb w.exec.objs n).le (objHb w'.exec.objs n))
    (hmtx : ∀ m, m < w.prog.cfg.nMutexes →
      (SameObj w.exec.objs w'.exec.objs (w.mutexObj m) ∧ σT'.mtx m = σT.mtx m) ∨
        σT'.mtx m = objHb w'.exec.objs (w.mutexObj m))
    (hntf : ∀ n, n < w.prog.cfg.nNotifies →
      (SameObj w.exec.objs w'.exec.objs (w.notifyObj n) ∧ σT'.mtx (nI w.prog n) = σT.mtx (nI w.prog n)) ∨
        σT'.mtx (nI w.prog n) = objHb w'.exec.objs (w.notifyObj n))
    (hchn : ∀ q, q < w.prog.cfg.nChans →
      (SameObj w.exec.objs w'.exec.objs (w.chanObj q) ∧ σT'.mtx (cI w.prog q) = σT.mtx (cI w.prog q) ∧
          mT' q = mT q) ∨
        (σT'.mtx (cI w.prog q) = objSs w'.exec.objs (w.chanObj q) ∧ mT' q = objRs w'.exec.objs (w.chanObj q) ∧
          chanShape w'.exec.objs (w.chanObj q)))
    (hcell : ∀ c, c < w.prog.cfg.nCells →
      (SameObj w.exec.objs w'.exec.objs (w.cellObj c) ∧ ∀ k, σT'.acc k c = σT.acc k c) ∨
        ((∀ k, σT'.acc k c = objAcc w'.exec.objs k (w.cellObj c)) ∧ cellIdle w'.exec.objs (w.cellObj c)))
    (hnhb : ∀ b j n, (b, j, n) ∈ w.spawned →
      objHb w'.exec.objs n = if 10 ≤ fin w' j then tcaus w' j else VV.zero)
    (htk0 : ∀ b, (∀ i, i < nthr w → body w i ≠ b) → σT'.mtx (kI w.prog b) = σT.mtx (kI w.prog b)) :
    TwinInv w' ∧ TwinInv2 w' ∧ LinkT2 w' σT' mT' := by
  obtain ⟨hT, hO⟩ := unpack hRC.inv hRC.inv2 hLT
  have hfin : ∀ j, 10 ≤ fin w j → 10 ≤ fin w' j := by
    intro j hj
    by_cases e : j = w.tid
    · subst e; exact hfinT hj
    · unfold fin at hj ⊢; rw [hctl j e]; exact hj
  have hbodyAll : ∀ i, i < nthr w → body w' i = body w i := by
    intro i _
    by_cases e : i = w.tid
    · subst e; exact hbody
    · exact body_congr (hctl i e)
  apply pack
  · intro i hi
    rw [hn] at hi
    by_cases e : i = w.tid
    · subst e; exact hself
    · rcases hoth i hi e with ⟨h1, h2, h3, h4⟩ | h1
      · exact (hT i hi).frame hp hs (hctl i e) h1 h2 hlen hfin h3 hslot h4 hjh
      · exact h1
  · exact hO.frame hp hs hn hbodyAll hmtx hntf hchn hcell hnhb htk0

/-- `SchedOut` only reads the execution record of the new world -/
theorem SchedOut.exec_congr {w w1 w2 : World} {o : Option Nat} (h : SchedOut w w1 o) (he : w2.exec = w1.exec) :
    SchedOut w w2 o := by
  have e1 : ∀ i, tcaus w2 i = tcaus w1 i ∧ trel w2 i = trel w1 i ∧ tuc w2 i = tuc w1 i ∧ ttok w2 i = ttok w1 i ∧
      Race.topo w2 i = Race.topo w1 i := by
    intro i; unfold tcaus trel tuc ttok Race.topo World.ths; rw [he]; exact ⟨rfl, rfl, rfl, rfl, rfl⟩
  refine ⟨?_, ?_, by rw [he]; exact h.objs, by unfold nthr; rw [he]; exact h.len⟩
  · intro i
    obtain ⟨a, b, c, d, _⟩ := e1 i
    exact ⟨a.trans (h.same i).caus, b.trans (h.same i).rel, c.trans (h.same i).uc, d.trans (h.same i).tok⟩
  · intro i
    rw [(e1 i).2.2.2.2]; exact h.topo i

/-- no scheduling point at all -/
theorem SchedOut.refl (w : World) : SchedOut w w (Race.topo w w.tid) :=
  ⟨fun _ => ⟨rfl, rfl, rfl, rfl⟩, fun i => by split <;> simp_all, ObjsTouched2.refl _, rfl⟩

/-- what `quiet_core2` asks of the execution record after the stage: the clocks and tokens of all threads are kept;
the pending operation of the active thread becomes `op'`, the others are kept; every object reads the same -/
structure QuietEx (w w' : World) (op' : Option Nat) : Prop where
  same : ∀ i, SameThr w w' i
  topo : ∀ i, Race.topo w' i = if i = w.tid then op' else Race.topo w i
  len : nthr w' = nthr w
  olen : w.exec.objs.length ≤ w'.exec.objs.length
  osame : ∀ n, n < w.exec.objs.length → SameObj w.exec.objs w'.exec.objs n

theorem SchedOut.toQuietEx {w w' : World} {o : Option Nat} (h : SchedOut w w' o) : QuietEx w w' o :=
  ⟨h.same, h.topo, h.len, touched2_length h.objs, fun _ hn => SameObj.of_touched2 h.objs hn⟩

/-- a scheduling point after a change of objects that keeps every clock -/
theorem QuietEx.trans_objs {w w0 w' : World} {o : Option Nat} (h : SchedOut w0 w' o) (hths : w0.exec.threads = w.exec.threads)
    (hlen : w0.exec.objs.length = w.exec.objs.length)
    (hobjs : ∀ n, n < w.exec.objs.length → SameObj w.exec.objs w0.exec.objs n) : QuietEx w w' o := by
  have e1 : ∀ i, tcaus w0 i = tcaus w i ∧ trel w0 i = trel w i ∧ tuc w0 i = tuc w i ∧ ttok w0 i = ttok w i ∧
      Race.topo w0 i = Race.topo w i := by
    intro i; unfold tcaus trel tuc ttok Race.topo World.ths; rw [hths]; exact ⟨rfl, rfl, rfl, rfl, rfl⟩
  have e2 : w0.tid = w.tid := by unfold World.tid World.ths; rw [hths]
  refine ⟨?_, ?_, by rw [h.len]; unfold nthr; rw [hths], by rw [← hlen]; exact touched2_length h.objs, ?_⟩
  · intro i
    obtain ⟨a, b, c, d, _⟩ := e1 i
    exact ⟨(h.same i).caus.trans a, (h.same i).rel.trans b, (h.same i).uc.trans c, (h.same i).tok.trans d⟩
  · intro i
    rw [h.topo i, e2, (e1 i).2.2.2.2]
  · intro n hn
    exact (hobjs n hn).trans (SameObj.of_touched2 h.objs (by rw [hlen]; exact hn))

/-- a lattice fact used when a pending acquisition becomes official: `a ≤ b ≤ a ⊔ k` gives `a ⊔ k = b ⊔ k` -/
theorem sandwich_join {a b k : VV} (h1 : a.le b) (h2 : b.le (a.join k)) : a.join k = b.join k :=
  le_antisymm (join_mono h1 (le_refl _)) (join_le h2 (le_join_right _ _))

/-- **a quiet stage** of the active thread: a scheduling point (or none), the control record rewritten by `F`, which
keeps body and whether the epilogue has passed its notification; nothing was pending before -/
theorem quiet_core2' (hRC : RC2 w s) (hact : w.tid < w.ctl.length) (F : TCtl → TCtl) {op' : Option Nat}
    (hpend0 : ∀ σ, pendClk w σ w.tid = VV.zero) (hpd : pend w w.tid = none)
    (hso : QuietEx w w' op')
    (hp : w'.prog = w.prog) (hs : w'.spawned = w.spawned) (hev : w'.events = w.events)
    (hc : w'.ctl = w.ctl.modify w.tid F)
    (hFb : (F (w.ctlOf w.tid)).body = (w.ctlOf w.tid).body)
    (hFfin : 10 ≤ (F (w.ctlOf w.tid)).fin ↔ 10 ≤ (w.ctlOf w.tid).fin)
    (hop : ∀ o, op' = some o → o < w.exec.objs.length ∧
      (Race.topo w w.tid = some o ∨ ∀ b j n, (b, j, n) ∈ w.spawned → o = n → w.tid ≠ j → pend w' w.tid = some n))
    (hno : ∀ d', SCData2.enabled w.prog (data2 s) (body w w.tid) = true →
      (none, d') ∈ SCData2.stepL w.prog (data2 s) (body w w.tid) → R2 w' d' → False) :
    QuietOut2 w s w' := by
  have ht := nthr_tid2 hRC hact
  have hself : w'.ctlOf w.tid = F (w.ctlOf w.tid) := by
    unfold World.ctlOf; rw [hc]; exact getD_modify_self _ _ _ _ hact
  have hne : ∀ i, i ≠ w.tid → w'.ctlOf i = w.ctlOf i := by
    intro i hi; unfold World.ctlOf; rw [hc]; exact getD_modify_ne _ _ _ _ _ hi
  have hbody : ∀ i, body w' i = body w i := by
    intro i
    unfold body
    by_cases e : i = w.tid
    · subst e; rw [hself]; exact hFb
    · rw [hne i e]
  have hfinEq : 10 ≤ fin w' w.tid ↔ 10 ≤ fin w w.tid := by unfold fin; rw [hself]; exact hFfin
  have hlen := hso.olen
  have hsame : ∀ n, n < w.exec.objs.length → SameObj w.exec.objs w'.exec.objs n := hso.osame
  refine ⟨hp, by rw [hc]; simp, hbody, hev, hno, ?_⟩
  have key : ∀ σT mT, LinkT2 w σT mT → TwinInv w' ∧ TwinInv2 w' ∧ LinkT2 w' σT mT := by
    intro σT mT hLT
    obtain ⟨hT, hO⟩ := unpack hRC.inv hRC.inv2 hLT
    have hTt := hT w.tid ht
    have hcaus := (hso.same w.tid).caus
    refine assemble hRC hLT hp hs hso.len hlen hne (hbody _) hfinEq.2 ?_ ?_ (fun _ => le_refl _) ?_ ?_ ?_ ?_ ?_ ?_
      (fun _ _ => rfl)
    · -- the active thread
      refine ⟨?_, ?_, ?_, ?_, ?_, ?_, ?_⟩
      · rw [(hso.same w.tid).rel]; exact hTt.rel
      · intro o ho
        rw [hso.topo, if_pos rfl] at ho
        exact Nat.lt_of_lt_of_le (hop o ho).1 hlen
      · intro b j n ho hm hij
        rw [hso.topo, if_pos rfl] at ho
        rw [hs] at hm
        rcases (hop n ho).2 with h1 | h1
        · rcases hTt.jo b j n h1 hm hij with h2 | h2
          · rw [hpd] at h2; cases h2
          · by_cases e : j = w.tid
            · exact absurd e.symm hij
            · right
              unfold fin at h2 ⊢; rw [hne j e]; exact h2
        · exact .inl (h1 b j n hm rfl hij)
      · rw [hcaus]; exact hTt.lo
      · rw [hcaus]
        have := hTt.hi
        rw [hpend0 σT, join_zero] at this
        exact le_trans this (le_join_left _ _)
      · intro hf
        have hf' : fin w w.tid < 10 := by
          apply Classical.byContradiction; intro hh; have := hfinEq.2 (by omega); omega
        rw [(hso.same w.tid).uc, hcaus, hp, hbody]
        exact hTt.tok hf'
      · intro hf htk
        have hf' : fin w w.tid < 10 := by
          apply Classical.byContradiction; intro hh; have := hfinEq.2 (by omega); omega
        rw [(hso.same w.tid).tok] at htk
        rw [(hso.same w.tid).uc]
        exact hTt.tokz hf' htk
    · intro i hi e
      refine .inl ⟨hso.same i, ?_, rfl, fun _ => rfl⟩
      rw [hso.topo, if_neg e]
    · intro b j n hm
      rw [(hsame n (sp_lt2 hRC.r hm)).hb]; exact le_refl _
    · intro m hm; exact .inl ⟨hsame _ (mtx_lt2 hRC.r hm), rfl⟩
    · intro n hn'; exact .inl ⟨hsame _ (ntf_lt2 hRC.r hn'), rfl⟩
    · intro q hq; exact .inl ⟨hsame _ (chan_lt2 hRC.r hq), rfl, rfl⟩
    · intro c hc'; exact .inl ⟨hsame _ (cell_lt2 hRC.r hc'), fun _ => rfl⟩
    · refine nhb_frame hO (fun b j n hm => (hsame n (sp_lt2 hRC.r hm)).hb) ?_ (fun j _ => (hso.same j).caus)
      intro j
      by_cases e : j = w.tid
      · subst e; exact hfinEq
      · unfold fin; rw [hne j e]
  obtain ⟨σT, _, mT, _, hclk⟩ := hRC.clk
  exact ⟨(key σT mT hclk.lt).1, (key σT mT hclk.lt).2.1, fun σ m hσ => (key σ m hσ).2.2⟩

theorem quiet_core2 (hRC : RC2 w s) (hact : w.tid < w.ctl.length) (F : TCtl → TCtl) {op' : Option Nat}
    (hpend0 : ∀ σ, pendClk w σ w.tid = VV.zero) (hpd : pend w w.tid = none)
    (hso : SchedOut w w' op')
    (hp : w'.prog = w.prog) (hs : w'.spawned = w.spawned) (hev : w'.events = w.events)
    (hc : w'.ctl = w.ctl.modify w.tid F)
    (hFb : (F (w.ctlOf w.tid)).body = (w.ctlOf w.tid).body)
    (hFfin : 10 ≤ (F (w.ctlOf w.tid)).fin ↔ 10 ≤ (w.ctlOf w.tid).fin)
    (hop : ∀ o, op' = some o → o < w.exec.objs.length ∧
      (Race.topo w w.tid = some o ∨ ∀ b j n, (b, j, n) ∈ w.spawned → o = n → w.tid ≠ j → pend w' w.tid = some n))
    (hno : ∀ d', SCData2.enabled w.prog (data2 s) (body w w.tid) = true →
      (none, d') ∈ SCData2.stepL w.prog (data2 s) (body w w.tid) → R2 w' d' → False) :
    QuietOut2 w s w' :=
  quiet_core2' hRC hact F hpend0 hpd hso.toQuietEx hp hs hev hc hFb hFfin hop hno

end

end Race2
end LoomVerif

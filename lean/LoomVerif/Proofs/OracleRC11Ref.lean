/-
A definition-shaped reference enumerator for the RC11 outcomes that the kernel can evaluate (plain
recursion over `pstep`, lists, no hashing), with its specification: used for the kernel-checked
examples of `Props/OracleRC11.lean`.
-/
import LoomVerif.Proofs.OracleRC11Loop

namespace LoomVerif.RC11

/-- reflexive-transitive closure of the successor function, from `a` -/
inductive ReachFromS (p : Prog) (a : PSt) : PSt → Prop
  | refl : ReachFromS p a a
  | tail {s s' : PSt} : ReachFromS p a s → s' ∈ succs p s → ReachFromS p a s'

theorem ReachFromS.head {p : Prog} {a b c : PSt} (h : b ∈ succs p a) (r : ReachFromS p b c) :
    ReachFromS p a c := by
  induction r with
  | refl => exact .tail .refl h
  | tail _ hs ih => exact .tail ih hs

theorem ReachFromS.cases_head {p : Prog} {a c : PSt} (r : ReachFromS p a c) :
    c = a ∨ ∃ b, b ∈ succs p a ∧ ReachFromS p b c := by
  induction r with
  | refl => exact .inl rfl
  | tail r hs ih =>
    rcases ih with rfl | ⟨b, hb, rb⟩
    · exact .inr ⟨_, hs, .refl⟩
    · exact .inr ⟨b, hb, .tail rb hs⟩

theorem reachS_iff {p : Prog} {s : PSt} : ReachS p s ↔ ReachFromS p (pinit p) s := by
  constructor
  · intro r
    induction r with
    | init => exact .refl
    | tail _ hs ih => exact .tail ih hs
  · intro r
    induction r with
    | refl => exact .init
    | tail _ hs ih => exact .tail ih hs

/-- the complete (not `bad`, no thread enabled) states reachable from `s`, by plain recursion;
`none`: the fuel did not suffice -/
def completeNaive (p : Prog) : Nat → PSt → Option (List PSt)
  | 0, _ => none
  | fuel + 1, s =>
    (succs p s).foldl (fun acc s' => match acc, completeNaive p fuel s' with
      | some a, some b => some (a ++ b)
      | _, _ => none)
      (some (if !s.bad && (enabledThreads p s).isEmpty then [s] else []))

theorem foldl_naive_none {g : PSt → Option (List PSt)} : ∀ (l : List PSt),
    l.foldl (fun acc s' => match acc, g s' with
      | some a, some b => some (a ++ b)
      | _, _ => none) none = none
  | [] => rfl
  | _ :: l => by simpa using foldl_naive_none l

theorem foldl_naive {g : PSt → Option (List PSt)} : ∀ (l : List PSt) (here r : List PSt),
    l.foldl (fun acc s' => match acc, g s' with
      | some a, some b => some (a ++ b)
      | _, _ => none) (some here) = some r →
    (∀ s', s' ∈ l → ∃ b, g s' = some b) ∧
      ∀ o, o ∈ r ↔ o ∈ here ∨ ∃ s', s' ∈ l ∧ ∃ b, g s' = some b ∧ o ∈ b
  | [], here, r, h => by
    have : here = r := by simpa using h
    subst this; simp
  | x :: l, here, r, h => by
    rw [List.foldl_cons] at h
    cases hx : g x with
    | none =>
      rw [hx] at h
      rw [foldl_naive_none] at h
      cases h
    | some b =>
      rw [hx] at h
      obtain ⟨h1, h2⟩ := foldl_naive l (here ++ b) r h
      refine ⟨?_, ?_⟩
      · intro s' hs'
        rcases List.mem_cons.1 hs' with rfl | hs'
        · exact ⟨b, hx⟩
        · exact h1 s' hs'
      · intro o
        rw [h2 o, List.mem_append]
        constructor
        · rintro ((h | h) | ⟨s', hs', b', hb', ho⟩)
          · exact .inl h
          · exact .inr ⟨x, by simp, b, hx, h⟩
          · exact .inr ⟨s', List.mem_cons_of_mem _ hs', b', hb', ho⟩
        · rintro (h | ⟨s', hs', b', hb', ho⟩)
          · exact .inl (.inl h)
          · rcases List.mem_cons.1 hs' with rfl | hs'
            · rw [hx] at hb'; cases hb'; exact .inl (.inr ho)
            · exact .inr ⟨s', hs', b', hb', ho⟩

/-- `completeNaive`, when its fuel suffices, lists exactly the complete states reachable from
`s` -/
theorem completeNaive_spec (p : Prog) : ∀ (fuel : Nat) (s : PSt) (l : List PSt),
    completeNaive p fuel s = some l →
    ∀ t, t ∈ l ↔ ReachFromS p s t ∧ t.bad = false ∧ enabledThreads p t = []
  | 0, _, _, h => by simp [completeNaive] at h
  | fuel + 1, s, l, h => by
    have h' : (succs p s).foldl (fun acc s' => match acc, completeNaive p fuel s' with
        | some a, some b => some (a ++ b)
        | _, _ => none)
        (some (if !s.bad && (enabledThreads p s).isEmpty then [s] else [])) = some l := h
    obtain ⟨h1, h2⟩ := foldl_naive _ _ _ h'
    intro t
    rw [h2 t]
    constructor
    · rintro (ho | ⟨s', hs', b, hb, ho⟩)
      · by_cases ht : (!s.bad && (enabledThreads p s).isEmpty) = true
        · rw [if_pos ht] at ho
          have : t = s := by simpa using ho
          subst this
          simp only [Bool.and_eq_true, Bool.not_eq_true', List.isEmpty_iff] at ht
          exact ⟨.refl, ht.1, ht.2⟩
        · rw [if_neg ht] at ho; cases ho
      · obtain ⟨rt, ht⟩ := (completeNaive_spec p fuel s' b hb t).1 ho
        exact ⟨rt.head hs', ht⟩
    · rintro ⟨rt, hb, ht⟩
      rcases rt.cases_head with rfl | ⟨s', hs', rt'⟩
      · left
        rw [if_pos (by simp [hb, ht])]
        simp
      · obtain ⟨b, hb'⟩ := h1 s' hs'
        exact .inr ⟨s', hs', b, hb', (completeNaive_spec p fuel s' b hb' t).2 ⟨rt', hb, ht⟩⟩

section
variable {α : Type} [DecidableEq α]

/-- does some state of `L` have a consistent graph (pruned modification orders) with outcome
`o`?  The outcomes are compared first, so that the kernel evaluates `consistent` only where it
matters. -/
def refHas (out : PSt → Graph → α) (p : Prog) (strong : Bool) (L : List PSt) (o : α) : Bool :=
  L.any fun s => (prunedMos (candidate p s)).any fun mos =>
    decide (out s ((candidate p s).graph mos) = o) && ((candidate p s).graph mos).consistent strong

omit [DecidableEq α] in
/-- the pruned outcome set, from the list of complete states -/
theorem prunedOutcome_iff_naive [BEq α] [Hashable α] {out : PSt → Graph → α} {p : Prog}
    {strong : Bool} {fuel : Nat} {L : List PSt} (hL : completeNaive p fuel (pinit p) = some L)
    (o : α) : PrunedOutcome p out strong o ↔
      ∃ s, s ∈ L ∧ ∃ mos, mos ∈ prunedMos (candidate p s) ∧
        ((candidate p s).graph mos).consistent strong = true ∧
        o = out s ((candidate p s).graph mos) := by
  constructor
  · rintro ⟨s, mos, hr, hb, ht, hmos, hc, ho⟩
    exact ⟨s, (completeNaive_spec p fuel _ L hL s).2 ⟨reachS_iff.1 hr, hb, ht⟩, mos, hmos, hc, ho⟩
  · rintro ⟨s, hs, mos, hmos, hc, ho⟩
    obtain ⟨hr, hb, ht⟩ := (completeNaive_spec p fuel _ L hL s).1 hs
    exact ⟨s, mos, reachS_iff.2 hr, hb, ht, hmos, hc, ho⟩

theorem refHas_iff [BEq α] [Hashable α] {out : PSt → Graph → α} {p : Prog} {strong : Bool}
    {fuel : Nat} {L : List PSt} (hL : completeNaive p fuel (pinit p) = some L) (o : α) :
    refHas out p strong L.eraseDups o = true ↔ PrunedOutcome p out strong o := by
  rw [prunedOutcome_iff_naive hL]
  unfold refHas
  simp only [List.any_eq_true, Bool.and_eq_true, decide_eq_true_eq, List.mem_eraseDups]
  constructor
  · rintro ⟨s, hs, mos, hmos, ho, hc⟩
    exact ⟨s, hs, mos, hmos, hc, ho.symm⟩
  · rintro ⟨s, hs, mos, hmos, hc, ho⟩
    exact ⟨s, hs, mos, hmos, ho.symm, hc⟩

end
end LoomVerif.RC11

/-
C10: no stage of the interpreter can raise one of the three leak panics — they come from
`check_for_leaks` alone.  A syntactic fact about `Model/*.lean`, proved by walking every
`Except`-valued function reachable from `World.stepActive`.
-/
import LoomVerif.Proofs.C10Alloc
import LoomVerif.Proofs.C10NoLeakAttr

namespace LoomVerif
namespace C10

/-- the three panics of `check_for_leaks` -/
def isLeak : Panic → Bool
  | .leakArc | .leakAlloc | .leakMsg => true
  | _ => false

/-- a computation that cannot end with a leak panic -/
structure NoLeak {α : Type} (m : Except Panic α) : Prop where
  h : ∀ e, m = .error e → isLeak e = false

theorem NoLeak.ok {α : Type} (a : α) : NoLeak (Except.ok a : Except Panic α) := by
  constructor; intro e h; cases h

theorem NoLeak.pure {α : Type} (a : α) : NoLeak (Pure.pure a : Except Panic α) := NoLeak.ok a

theorem NoLeak.error {α : Type} (e : Panic) (h : isLeak e = false) :
    NoLeak (Except.error e : Except Panic α) := by
  constructor; intro e' h'; cases h'; exact h

theorem NoLeak.throw {α : Type} (e : Panic) (h : isLeak e = false) :
    NoLeak (throw e : Except Panic α) := NoLeak.error e h

theorem NoLeak.bind {α β : Type} {m : Except Panic α} {f : α → Except Panic β}
    (hm : NoLeak m) (hf : ∀ a, NoLeak (f a)) : NoLeak (m >>= f) := by
  constructor
  intro e h
  rcases WB.bind_eq_error h with h' | ⟨a, _, h'⟩
  · exact hm.h e h'
  · exact (hf a).h e h'

theorem NoLeak.map {α β : Type} {m : Except Panic α} (f : α → β) (hm : NoLeak m) :
    NoLeak (Except.map f m) := by
  constructor
  intro e h
  cases m with
  | error e' => cases h; exact hm.h _ rfl
  | ok a => cases h

/-- close a goal `NoLeak (f x)` by a fact already proved (collected in the simp set `noleak`) -/
macro "noleak_call" : tactic => `(tactic| (simp only [noleak]; done))

macro "noleak_step" : tactic => `(tactic| first
  | exact NoLeak.ok _
  | exact NoLeak.pure _
  | exact NoLeak.error _ rfl
  | exact NoLeak.throw _ rfl
  | assumption
  | noleak_call
  | refine NoLeak.map _ ?_
  | refine NoLeak.bind ?_ ?_
  | intro _
  | split)

macro "noleak" : tactic => `(tactic| ((try dsimp only); repeat' noleak_step))

/-! ### `Path` -/

@[noleak] theorem Sched.backtrack_noLeak (s : Sched) (tid : Nat) (b : Option Nat) :
    NoLeak (s.backtrack tid b) := by
  unfold Sched.backtrack; noleak

@[noleak] theorem Path.exploreState_noLeak (p : Path) : NoLeak p.exploreState := by
  unfold Path.exploreState; noleak

@[noleak] theorem Path.critical_noLeak (p : Path) : NoLeak p.critical := by
  unfold Path.critical; noleak

@[noleak] theorem Path.assertLen_noLeak (p : Path) (b : Bool) : NoLeak (p.assertLen b) := by
  unfold Path.assertLen; noleak

@[noleak] theorem Path.pushLoad_noLeak (p : Path) (l : List Nat) (b : Bool) : NoLeak (p.pushLoad l b) := by
  unfold Path.pushLoad; noleak

@[noleak] theorem Path.branchLoad_noLeak (p : Path) : NoLeak p.branchLoad := by
  unfold Path.branchLoad; noleak

@[noleak] theorem Path.branchSpurious_noLeak (p : Path) (b : Bool) : NoLeak (p.branchSpurious b) := by
  unfold Path.branchSpurious; noleak

@[noleak] theorem Path.branchThread_noLeak (p : Path) (l : List ThSt) (b : Bool) :
    NoLeak (p.branchThread l b) := by
  unfold Path.branchThread; noleak

@[noleak] theorem Path.backtrackConservative_noLeak (p : Path) (tid fuel curr : Nat) :
    NoLeak (p.backtrackConservative tid fuel curr) := by
  induction fuel generalizing curr with
  | zero => unfold Path.backtrackConservative; noleak
  | succ n ih => unfold Path.backtrackConservative; noleak; exact ih _

@[noleak] theorem Path.backtrack_noLeak (p : Path) (point tid : Nat) : NoLeak (p.backtrack point tid) := by
  unfold Path.backtrack; noleak

/-! ### `Threads`, `Objs`, `Exec` -/

@[noleak] theorem Threads.newThread_noLeak (s : Threads) : NoLeak s.newThread := by
  unfold Threads.newThread; noleak

@[noleak] theorem Objs.lastDependentAccess_noLeak (os : Objs) (op : Operation) :
    NoLeak (os.lastDependentAccess op) := by
  unfold Objs.lastDependentAccess; noleak

@[noleak] theorem Objs.setLastAccess_noLeak (os : Objs) (op : Operation) (pid : Nat) (v : VV) :
    NoLeak (os.setLastAccess op pid v) := by
  unfold Objs.setLastAccess; noleak

@[noleak] theorem Exec.newThread_noLeak (e : Exec) : NoLeak e.newThread := by
  unfold Exec.newThread; noleak

@[noleak] theorem Exec.dporMarks_go_noLeak (e : Exec) (l : List Thread) (i : Nat) (p : Path) :
    NoLeak (Exec.dporMarks.go e l i p) := by
  induction l generalizing i p with
  | nil => unfold Exec.dporMarks.go; noleak
  | cons th rest ih =>
    unfold Exec.dporMarks.go
    noleak
    all_goals first
      | exact ih _ _
      | (constructor; intro e' h'; cases h'
         rename_i herr
         exact (Objs.lastDependentAccess_noLeak _ _).h _ herr)
      | (constructor; intro e' h'; cases h'
         rename_i herr
         exact (Path.backtrack_noLeak _ _ _).h _ herr)

@[noleak] theorem Exec.dporMarks_noLeak (e : Exec) : NoLeak e.dporMarks := Exec.dporMarks_go_noLeak e _ _ _

@[noleak] theorem Exec.schedule_noLeak (e : Exec) (b : Bool) : NoLeak (e.schedule b) := by
  unfold Exec.schedule; noleak

/-! ### atomics -/

@[noleak] theorem Atomic.mutatingCheck_noLeak (a : Atomic) : NoLeak a.mutatingCheck := by
  unfold Atomic.mutatingCheck; noleak

@[noleak] theorem Atomic.trackLoad_noLeak (a : Atomic) (ths : Threads) : NoLeak (a.trackLoad ths) := by
  unfold Atomic.trackLoad; noleak

@[noleak] theorem Atomic.trackUnsyncLoad_noLeak (a : Atomic) (ths : Threads) :
    NoLeak (a.trackUnsyncLoad ths) := by
  unfold Atomic.trackUnsyncLoad; noleak

@[noleak] theorem Atomic.trackStore_noLeak (a : Atomic) (ths : Threads) : NoLeak (a.trackStore ths) := by
  unfold Atomic.trackStore; noleak

@[noleak] theorem Atomic.trackUnsyncMut_noLeak (a : Atomic) (ths : Threads) :
    NoLeak (a.trackUnsyncMut ths) := by
  unfold Atomic.trackUnsyncMut; noleak

@[noleak] theorem Atomic.load_noLeak (a : Atomic) (ths : Threads) (idx : Nat) (o : Ord) :
    NoLeak (a.load ths idx o) := by
  unfold Atomic.load; noleak

@[noleak] theorem Atomic.rmw_noLeak (a : Atomic) (ths : Threads) (idx : Nat) (so fo : Ord)
    (f : Nat → Option Nat) : NoLeak (a.rmw ths idx so fo f) := by
  unfold Atomic.rmw; noleak

@[noleak] theorem Atomic.matchInner_noLeak (a : Atomic) (blocked : Nat → Nat → Bool) (i : Nat)
    (l : List Nat) : NoLeak (a.matchInner blocked i l) := by
  induction l with
  | nil => unfold Atomic.matchInner; noleak
  | cons j js ih => unfold Atomic.matchInner; noleak <;> exact ih

@[noleak] theorem Atomic.matchOuter_noLeak (a : Atomic) (blocked : Nat → Nat → Bool) (l : List Nat) :
    NoLeak (a.matchOuter blocked l) := by
  induction l with
  | nil => unfold Atomic.matchOuter; noleak
  | cons i is ih =>
    unfold Atomic.matchOuter
    noleak
    all_goals first
      | exact ih
      | (constructor; intro e' h'; cases h'
         rename_i herr
         exact (Atomic.matchInner_noLeak _ _ _ _).h _ herr)
      | (constructor; intro e' h'; cases h'
         rename_i herr
         exact ih.h _ herr)

@[noleak] theorem Atomic.matchLoadToStores_noLeak (a : Atomic) (ths : Threads) (o : Ord) :
    NoLeak (a.matchLoadToStores ths o) := Atomic.matchOuter_noLeak _ _ _

@[noleak] theorem Atomic.matchRmwToStores_noLeak (a : Atomic) : NoLeak a.matchRmwToStores :=
  Atomic.matchOuter_noLeak _ _ _

@[noleak] theorem Prim.candidates_noLeak (a : Atomic) (ths : Threads) (p : Prim) :
    NoLeak (p.candidates a ths) := by
  unfold Prim.candidates; noleak

@[noleak] theorem Prim.effect_noLeak (t : ATy) (a : Atomic) (ths : Threads) (p : Prim) (idx : Nat) :
    NoLeak (p.effect t a ths idx) := by
  unfold Prim.effect; noleak

/-! ### the interpreter -/

open World

@[noleak] theorem branch_noLeak (w : World) (obj : Nat) (act : Action) (block : Bool) :
    NoLeak (w.branch obj act block) := by
  unfold World.branch; noleak

@[noleak] theorem getAtomic_noLeak (w : World) (o : Nat) : NoLeak (w.getAtomic o) := by
  unfold World.getAtomic; noleak
@[noleak] theorem getMutex_noLeak (w : World) (o : Nat) : NoLeak (w.getMutex o) := by
  unfold World.getMutex; noleak
@[noleak] theorem getRw_noLeak (w : World) (o : Nat) : NoLeak (w.getRw o) := by
  unfold World.getRw; noleak
@[noleak] theorem getCv_noLeak (w : World) (o : Nat) : NoLeak (w.getCv o) := by
  unfold World.getCv; noleak
@[noleak] theorem getNotify_noLeak (w : World) (o : Nat) : NoLeak (w.getNotify o) := by
  unfold World.getNotify; noleak
@[noleak] theorem getChan_noLeak (w : World) (o : Nat) : NoLeak (w.getChan o) := by
  unfold World.getChan; noleak
@[noleak] theorem getArc_noLeak (w : World) (o : Nat) : NoLeak (w.getArc o) := by
  unfold World.getArc; noleak
@[noleak] theorem getCell_noLeak (w : World) (o : Nat) : NoLeak (w.getCell o) := by
  unfold World.getCell; noleak

@[noleak] theorem primStart_noLeak (w : World) (x : Nat) (p : Prim) (next : Nat) :
    NoLeak (w.primStart x p next) := by
  unfold World.primStart; noleak

@[noleak] theorem primEffect_noLeak (w : World) (x : Nat) (p : Prim) : NoLeak (w.primEffect x p) := by
  unfold World.primEffect; noleak

@[noleak] theorem yieldNow_noLeak (w : World) : NoLeak w.yieldNow := by
  unfold World.yieldNow; noleak

@[noleak] theorem postAcquire_noLeak (w : World) (o : Nat) : NoLeak (w.postAcquire o) := by
  unfold World.postAcquire; noleak

@[noleak] theorem releaseLock_noLeak (w : World) (o : Nat) : NoLeak (w.releaseLock o) := by
  unfold World.releaseLock; noleak

@[noleak] theorem postAcquireRead_noLeak (w : World) (o : Nat) : NoLeak (w.postAcquireRead o) := by
  unfold World.postAcquireRead; noleak

@[noleak] theorem postAcquireWrite_noLeak (w : World) (o : Nat) : NoLeak (w.postAcquireWrite o) := by
  unfold World.postAcquireWrite; noleak

@[noleak] theorem releaseRead_noLeak (w : World) (o : Nat) : NoLeak (w.releaseRead o) := by
  unfold World.releaseRead; noleak

@[noleak] theorem releaseWrite_noLeak (w : World) (o : Nat) : NoLeak (w.releaseWrite o) := by
  unfold World.releaseWrite; noleak

@[noleak] theorem parkNow_noLeak (w : World) : NoLeak w.parkNow := by
  unfold World.parkNow; noleak

@[noleak] theorem notifyWait1_noLeak (w : World) (o : Nat) : NoLeak (w.notifyWait1 o) := by
  unfold World.notifyWait1; noleak

@[noleak] theorem notifyWait2_noLeak (w : World) (o : Nat) : NoLeak (w.notifyWait2 o) := by
  unfold World.notifyWait2; noleak

@[noleak] theorem notifyEffect_noLeak (w : World) (o : Nat) : NoLeak (w.notifyEffect o) := by
  unfold World.notifyEffect; noleak

@[noleak] theorem sendEffect_noLeak (w : World) (o : Nat) (v : Int) : NoLeak (w.sendEffect o v) := by
  unfold World.sendEffect; noleak

@[noleak] theorem recvEffect_noLeak (w : World) (o : Nat) : NoLeak (w.recvEffect o) := by
  unfold World.recvEffect; noleak

@[noleak] theorem handle_noLeak (w : World) (h : Nat) : NoLeak (w.handle h) := by
  unfold World.handle; noleak

@[noleak] theorem refDecEffect_noLeak (w : World) (o : Nat) : NoLeak (w.refDecEffect o) := by
  unfold World.refDecEffect; noleak

@[noleak] theorem afterDec_noLeak (w : World) (a : Nat) (last : Bool) : NoLeak (w.afterDec a last) := by
  unfold World.afterDec; noleak

@[noleak] theorem threadOf_noLeak (w : World) (b : Nat) : NoLeak (w.threadOf b) := by
  unfold World.threadOf; noleak

@[noleak] theorem lookupSpawn_noLeak (w : World) (b : Nat) : NoLeak (w.lookupSpawn b) := by
  unfold World.lookupSpawn; noleak

@[noleak] theorem threadDone_noLeak (w : World) : NoLeak w.threadDone := by
  unfold World.threadDone; noleak

@[noleak] theorem lazyRead_noLeak (w : World) (sv : LazyVal) : NoLeak (w.lazyRead sv) := by
  unfold World.lazyRead; noleak

@[noleak] theorem lazyStatics_noLeak (w : World) : NoLeak w.lazyStatics := by
  unfold World.lazyStatics; noleak

@[noleak] theorem lazyInitFinish_noLeak (w : World) (z id : Nat) : NoLeak (w.lazyInitFinish z id) := by
  unfold World.lazyInitFinish; noleak

@[noleak] theorem lazyStage_noLeak (w : World) (c : TCtl) (z : Nat) : NoLeak (w.lazyStage c z) := by
  unfold World.lazyStage; noleak

@[noleak] theorem wakerClone_noLeak (w : World) (a : Nat) : NoLeak (w.wakerClone a) := by
  unfold World.wakerClone; noleak

@[noleak] theorem wakerDrop_noLeak (w : World) (a : Nat) : NoLeak (w.wakerDrop a) := by
  unfold World.wakerDrop; noleak

@[noleak] theorem blockOnStage_noLeak (w : World) (c : TCtl) (f mode : Nat) :
    NoLeak (w.blockOnStage c f mode) := by
  unfold World.blockOnStage; noleak

@[noleak] theorem wakeStage_noLeak (w : World) (c : TCtl) (f : Nat) (b : Bool) (store : Bool) :
    NoLeak (w.wakeStage c f b store) := by
  unfold World.wakeStage; noleak

@[noleak] theorem awTakeStage_noLeak (w : World) (c : TCtl) (f : Nat) : NoLeak (w.awTakeStage c f) := by
  unfold World.awTakeStage; noleak

theorem dropPass_noLeak (w : World) (c : TCtl) (base : Nat) (done : World → Except Panic World)
    (hd : ∀ w, NoLeak (done w)) : NoLeak (w.dropPass c base done) := by
  unfold World.dropPass; noleak
  all_goals exact hd _

@[noleak] theorem finishThread_noLeak (w : World) (c : TCtl) : NoLeak (w.finishThread c) := by
  unfold World.finishThread; noleak
  exact dropPass_noLeak _ _ _ _ (by intro w; noleak)

@[noleak] theorem runEpilogue_noLeak (w : World) (c : TCtl) : NoLeak (w.runEpilogue c) := by
  unfold World.runEpilogue; noleak
  all_goals exact dropPass_noLeak _ _ _ _ (by intro w; noleak)

@[noleak] theorem runOp_noLeak (w : World) (c : TCtl) (op : Op) : NoLeak (w.runOp c op) := by
  cases op <;> (simp only [World.runOp] <;> noleak)

@[noleak] theorem stepActive_noLeak (w : World) : NoLeak w.stepActive := by
  unfold World.stepActive; noleak

theorem NoLeak.forIn {α β : Type} (l : List α) (init : β)
    (f : α → β → Except Panic (ForInStep β)) (hf : ∀ a b, NoLeak (f a b)) :
    NoLeak (forIn l init f) := by
  induction l generalizing init with
  | nil => simp only [List.forIn_nil]; exact NoLeak.pure _
  | cons a l ih =>
    simp only [List.forIn_cons]
    refine NoLeak.bind (hf a init) ?_
    intro r
    cases r with
    | done b => exact NoLeak.pure _
    | yield b => exact ih b

@[noleak] theorem Atomic.new_noLeak (ths : Threads) (v : Nat) : NoLeak (Atomic.new ths v) := by
  unfold Atomic.new; noleak

theorem init_noLeak (prog : Prog) (exec : Exec) : NoLeak (World.init prog exec) := by
  unfold World.init
  dsimp only
  repeat' first
    | exact NoLeak.pure _
    | exact NoLeak.ok _
    | noleak_call
    | refine NoLeak.bind ?_ ?_
    | refine NoLeak.forIn _ _ _ ?_
    | intro _
    | split

/-- a panic that ends `runLoop` is raised by a stage (or is the model's `fuel`): not a leak -/
theorem runLoop_noLeak (fuel : Nat) (w w' : World) (e : Panic)
    (h : World.runLoop fuel w = (w', some e)) : isLeak e = false := by
  induction fuel generalizing w with
  | zero => simp only [World.runLoop, Prod.mk.injEq, Option.some.injEq] at h; rw [← h.2]; rfl
  | succ n ih =>
    unfold World.runLoop at h
    cases ha : w.ths.isActive with
    | false => simp [ha] at h
    | true =>
      simp only [ha, Bool.not_true, Bool.false_eq_true, if_false] at h
      cases hs : w.stepActive with
      | error e' =>
        rw [hs] at h
        simp only [Prod.mk.injEq, Option.some.injEq] at h
        rw [← h.2]
        exact (stepActive_noLeak w).h _ hs
      | ok w1 => rw [hs] at h; exact ih w1 h

/-- an iteration that ends with a leak panic got it from `check_for_leaks`, after a run that ended
with no active thread -/
theorem runIter_leak (prog : Prog) (exec : Exec) (fuel : Nat) (e : Panic)
    (ht : (runIter prog exec fuel).term = some e) (hl : isLeak e = true) :
    ∃ w0 w, World.init prog exec = .ok w0 ∧ World.runLoop fuel w0 = (w, none) ∧
      w.ths.isActive = false ∧ w.exec.objs.checkForLeaks = .error e := by
  rw [runIter_eq] at ht
  cases hi : World.init prog exec with
  | error e' =>
    rw [hi] at ht
    simp only [Option.some.injEq] at ht
    subst ht
    rw [(init_noLeak prog exec).h _ hi] at hl; cases hl
  | ok w0 =>
    rw [hi] at ht
    dsimp only at ht
    rcases hr : World.runLoop fuel w0 with ⟨w, r⟩
    rw [hr] at ht
    cases r with
    | some e' =>
      simp only [Option.some.injEq] at ht
      subst ht
      rw [runLoop_noLeak fuel w0 w _ hr] at hl; cases hl
    | none =>
      dsimp only [leakVerdict] at ht
      refine ⟨w0, w, rfl, hr, runLoop_none fuel w0 w hr, ?_⟩
      cases hc : w.exec.objs.checkForLeaks with
      | error e' => rw [hc] at ht; simp only [Option.some.injEq] at ht; rw [ht]
      | ok u => rw [hc] at ht; cases ht

end C10
end LoomVerif

/-
Race exactness, part 10: `spawn` keeps `RC`.  The new loom thread starts from the spawner's causality BEFORE the
spawner's own increment (`Execution::new_thread`), the new reference thread from the spawner's clock AFTER its tick:
both know exactly the accesses the spawner has performed.
-/
import LoomVerif.Proofs.RaceOps4

namespace LoomVerif
namespace Race
open Refine Sy C07 C08 Clocks

/-! ### `Execution::new_thread` -/

theorem get_append_new (ths : Threads) (x : Thread) (i : Nat) :
    ({ ths with threads := ths.threads ++ [x] } : Threads).get i =
      if i = ths.threads.length then x else ths.get i := by
  unfold Threads.get
  by_cases h : i < ths.threads.length
  · rw [if_neg (by omega)]
    simp [List.getD, List.getElem?_append_left h]
  · by_cases e : i = ths.threads.length
    · subst e; rw [if_pos rfl]; simp [List.getD]
    · rw [if_neg e]
      have h1 : ths.threads.length + 1 ≤ i := by omega
      simp [List.getD, List.getElem?_eq_none (show (ths.threads ++ [x]).length ≤ i by simpa using h1),
        List.getElem?_eq_none (show ths.threads.length ≤ i by omega)]

theorem get_default_of_ge (ths : Threads) {i : Nat} (h : ths.threads.length ≤ i) : ths.get i = {} := by
  unfold Threads.get
  simp [List.getD, List.getElem?_eq_none h]

/-- what `new_thread` does to the clocks -/
theorem newThread_view {e e' : Exec} {id : Nat} (h : e.newThread = .ok (e', id))
    (ha : e.threads.activeId < e.threads.threads.length) :
    id = e.threads.threads.length ∧ e'.objs = e.objs ∧
    e'.threads.threads.length = e.threads.threads.length + 1 ∧ e'.threads.activeId = e.threads.activeId ∧
    (∀ i, (e'.threads.get i).causality =
      if i = e.threads.threads.length then e.threads.caus.inc e.threads.threads.length
      else if i = e.threads.activeId then e.threads.caus.inc e.threads.activeId
      else (e.threads.get i).causality) ∧
    (∀ i, (e'.threads.get i).released = (e.threads.get i).released) ∧
    (∀ i, (e'.threads.get i).operation = (e.threads.get i).operation) := by
  unfold Exec.newThread at h
  simp only [bind, Except.bind, pure, Except.pure] at h
  split at h
  · cases h
  · next v hv =>
    cases h
    unfold Threads.newThread at hv
    split at hv
    · cases hv
      have hne : e.threads.activeId ≠ e.threads.threads.length := by omega
      have hact : ({ e.threads with threads := e.threads.threads ++ [{}] } : Threads).activeT = e.threads.activeT := by
        unfold Threads.activeT
        show ({ e.threads with threads := e.threads.threads ++ [{}] } : Threads).get e.threads.activeId = _
        rw [get_append_new, if_neg hne]
      have hlen2 : ({ e.threads with threads := e.threads.threads ++ [{}] } : Threads).threads.length =
          e.threads.threads.length + 1 := by simp
      refine ⟨rfl, rfl, by simp [Threads.modify], rfl, ?_, ?_, ?_⟩
      · intro i
        simp only [WB.get_modify, WB.length_modify, hlen2, WB.activeId_modify]
        show (if e.threads.activeId = i ∧ i < e.threads.threads.length + 1 then _ else _ : Thread).causality = _
        by_cases e1 : i = e.threads.threads.length
        · subst e1
          rw [if_neg (fun hh => hne hh.1), if_pos ⟨rfl, Nat.lt_succ_self _⟩, if_pos rfl, get_append_new, if_pos rfl,
            hact]
          show ((({} : Thread).causality.join e.threads.activeT.causality).inc _) = _
          show ((VV.zero.join e.threads.activeT.causality).inc _) = _
          rw [zero_join]; rfl
        · rw [if_neg e1]
          by_cases e2 : i = e.threads.activeId
          · subst e2
            rw [if_pos ⟨rfl, by omega⟩, if_pos rfl, if_neg (fun hh => e1 hh.1.symm), get_append_new, if_neg e1]
            rfl
          · rw [if_neg (fun hh => e2 hh.1.symm), if_neg e2, if_neg (fun hh => e1 hh.1.symm), get_append_new,
              if_neg e1]
      · intro i
        simp only [WB.get_modify, WB.length_modify, hlen2, WB.activeId_modify]
        have hbase : (({ e.threads with threads := e.threads.threads ++ [{}] } : Threads).get i).released =
            (e.threads.get i).released := by
          rw [get_append_new]
          split
          · next e1 => rw [e1, get_default_of_ge _ (Nat.le_refl _)]
          · rfl
        split
        · split
          · exact hbase
          · exact hbase
        · split
          · exact hbase
          · exact hbase
      · intro i
        simp only [WB.get_modify, WB.length_modify, hlen2, WB.activeId_modify]
        have hbase : (({ e.threads with threads := e.threads.threads ++ [{}] } : Threads).get i).operation =
            (e.threads.get i).operation := by
          rw [get_append_new]
          split
          · next e1 => rw [e1, get_default_of_ge _ (Nat.le_refl _)]
          · rfl
        split
        · split
          · exact hbase
          · exact hbase
        · split
          · exact hbase
          · exact hbase
    · cases hv

/-! ### `spawn` -/

section
variable {w w' : World} {s : SC.St}

/-- the object of a fresh `JoinHandle` notify -/
def jhObj : Obj := .notify { seqCst := true, spurious := false }

/-- `spawn b`, spelled out (with the thread table) -/
theorem spawn_obs' {c : TCtl} {b : Nat} (h : w.runOp c (.spawn b) = .ok w') :
    ∃ (w2 : World) (e' : Exec), w' = w2.complete .unit ∧
      (w.setObjs (w.exec.objs ++ [jhObj])).exec.newThread = .ok (e', w.exec.threads.threads.length) ∧
      w2.exec = e' ∧ w2.prog = w.prog ∧ w2.ctl = w.ctl ++ [({ body := b } : TCtl)] ∧
      w2.spawned = (b, w.exec.threads.threads.length, w.exec.objs.length) :: w.spawned := by
  rw [runOp_spawn] at h
  simp only [World.pushObj, bind, Except.bind, pure, Except.pure] at h
  split at h
  · cases h
  · next v hv =>
    cases h
    obtain ⟨e', id⟩ := v
    obtain ⟨h1, _⟩ := newThread_obs hv
    subst h1
    exact ⟨_, e', rfl, hv, rfl, rfl, rfl, rfl⟩

theorem getD_append_beyond {α : Type} (l : List α) (a d : α) {j : Nat} (h : l.length < j) :
    (l ++ [a]).getD j d = l.getD j d := by
  simp [List.getD, List.getElem?_eq_none (show (l ++ [a]).length ≤ j by simp; omega),
    List.getElem?_eq_none (show l.length ≤ j by omega)]

/-- `spawn b`, spelled out: what the clock invariants read of the world reached -/
theorem spawn_view {b : Nat} (h : w.runOp (w.ctlOf w.tid) (.spawn b) = .ok w') (hact : w.tid < w.ctl.length)
    (hin : w.tid < nthr w) :
    w'.prog = w.prog ∧ w'.spawned = (b, nthr w, w.exec.objs.length) :: w.spawned ∧ nthr w' = nthr w + 1 ∧
    w'.exec.objs = w.exec.objs ++ [jhObj] ∧ w'.ctl.length = w.ctl.length + 1 ∧
    (∀ i, w'.ctlOf i = if i = w.tid then completeF .unit (w.ctlOf w.tid)
      else if i = w.ctl.length then ({ body := b } : TCtl) else w.ctlOf i) ∧
    (∀ i, tcaus w' i = if i = nthr w then (tcaus w w.tid).inc (nthr w)
      else if i = w.tid then (tcaus w w.tid).inc w.tid else tcaus w i) ∧
    (∀ i, trel w' i = trel w i) ∧ (∀ i, topo w' i = topo w i) := by
  obtain ⟨w2, e', rfl, hv, he, hp, hc, hs⟩ := spawn_obs' h
  obtain ⟨_, h2, h3, h4, h5, h6, h7⟩ := newThread_view hv hin
  have htid : w2.tid = w.tid := by
    show w2.exec.threads.activeId = _
    rw [he]; exact h4
  have hcl : ∀ j, w2.ctlOf j = if j = w.ctl.length then ({ body := b } : TCtl) else w.ctlOf j := by
    intro j
    unfold World.ctlOf
    rw [hc]
    by_cases e1 : j = w.ctl.length
    · subst e1; rw [if_pos rfl, getD_append_new]
    · rw [if_neg e1]
      by_cases e2 : j < w.ctl.length
      · exact getD_append_left _ _ _ _ e2
      · exact getD_append_beyond _ _ _ (by omega)
  refine ⟨hp, hs, ?_, ?_, ?_, ?_, ?_, ?_, ?_⟩
  · show w2.exec.threads.threads.length = _
    rw [he]; exact h3
  · show w2.exec.objs = _
    rw [he]; exact h2
  · rw [ctl_len_complete, hc]; simp
  · intro i
    by_cases e1 : i = w.tid
    · rw [if_pos e1, e1, ← htid, ctlOf_complete_self w2 .unit (by rw [htid, hc]; simp; omega), hcl, htid,
        if_neg (by omega)]
    · rw [if_neg e1, ctlOf_complete_ne w2 .unit (by rw [htid]; exact e1), hcl]
  · intro i
    show (w2.exec.threads.get i).causality = _
    rw [he]; exact h5 i
  · intro i
    show (w2.exec.threads.get i).released = _
    rw [he]; exact h6 i
  · intro i
    show (w2.exec.threads.get i).operation.map _ = _
    rw [he, h7]; rfl

theorem cellIdle_append (os x : List Obj) {n : Nat} (h : cellIdle os n) : cellIdle (os ++ x) n := by
  obtain ⟨cs, h1, h2, h3⟩ := h
  have hn : n < os.length := (List.getElem?_eq_some_iff.1 h1).1
  exact ⟨cs, by rw [List.getElem?_append_left hn]; exact h1, h2, h3⟩

theorem get_out (w : World) {i : Nat} (h : nthr w ≤ i) : w.ths.get i = {} := get_default_of_ge _ h

/-- the twin side of `spawn` -/
theorem spawn_transfer (hRC : RC w s) (hact : w.tid < w.ctl.length) {b : Nat}
    (hop : opAt w = some (.spawn b)) (hfresh : ∀ i, i < w.ctl.length → body w i ≠ b) {σT : CS} (hLT : LinkT w σT)
    (hp : w'.prog = w.prog) (hs : w'.spawned = (b, nthr w, w.exec.objs.length) :: w.spawned)
    (hn : nthr w' = nthr w + 1) (hobjs : w'.exec.objs = w.exec.objs ++ [jhObj])
    (hctl : ∀ i, w'.ctlOf i = if i = w.tid then completeF .unit (w.ctlOf w.tid)
      else if i = w.ctl.length then ({ body := b } : TCtl) else w.ctlOf i)
    (hcaus : ∀ i, tcaus w' i = if i = nthr w then (tcaus w w.tid).inc (nthr w)
      else if i = w.tid then (tcaus w w.tid).inc w.tid else tcaus w i)
    (hrel : ∀ i, trel w' i = trel w i) (htopo : ∀ i, topo w' i = topo w i) :
    TwinInv w' ∧ LinkT w' ((σT.fork w.tid (nthr w)).tick w.tid) := by
  have hn0 : w.ctl.length = nthr w := nthr_eq hRC.r
  have ht : w.tid < nthr w := nthr_tid hRC hact
  have hpn := pend_none_of_op hRC hact hop (by intro b'; simp)
  have hf0 : fin w w.tid = 0 := fin_zero hRC.r hact hop
  have hσt : σT.thr w.tid = tcaus w w.tid := eq_caus hRC hact hLT hpn
  have hcell : ∀ c, w'.cellObj c = w.cellObj c := by intro c; unfold World.cellObj World.cfg; rw [hp]
  have hmo : ∀ m, w'.mutexObj m = w.mutexObj m := by intro m; unfold World.mutexObj World.cfg; rw [hp]
  -- no entry for `b` yet
  have hjnb : jn w b = none := by
    cases hj : jn w b with
    | none => rfl
    | some n' =>
      obtain ⟨j, hm⟩ := jn_mem hj
      obtain ⟨hjl, hjb, _⟩ := hRC.r.y.sp b j n' hm
      exact absurd hjb (hfresh j hjl)
  have hjn : ∀ b', b' ≠ b → jn w' b' = jn w b' := by
    intro b' hb'
    unfold jn
    rw [hs, List.find?_cons]
    have : ((b, nthr w, w.exec.objs.length).1 == b') = false := beq_false_of_ne (Ne.symm hb')
    rw [this]
  have hctlne : ∀ i, i ≠ w.tid → i < nthr w → w'.ctlOf i = w.ctlOf i := by
    intro i h1 h2
    rw [hctl i, if_neg h1, if_neg (by omega)]
  have hpendMono : ∀ i, i ≠ w.tid → i < nthr w → ∀ n', pend w i = some n' → pend w' i = some n' := by
    intro i h1 h2 n' hpd
    have hopi : opAtI w' i = opAtI w i := by unfold opAtI; rw [hctlne i h1 h2, hp]
    unfold pend at hpd ⊢
    rw [hctlne i h1 h2, hopi]
    by_cases hst : (w.ctlOf i).stage = 1
    · rw [if_pos hst] at hpd ⊢
      cases hoi : opAtI w i with
      | none => rw [hoi] at hpd; cases hpd
      | some op =>
        rw [hoi] at hpd
        cases op <;> first | (cases hpd; done) | skip
        case join b' =>
          have hpd' : jn w b' = some n' := hpd
          have : b' ≠ b := by
            intro e; rw [e, hjnb] at hpd'; cases hpd'
          show jn w' b' = some n'
          rw [hjn b' this]; exact hpd'
    · exact absurd hpd (by rw [if_neg hst]; simp)
  have hfinEq : ∀ j, j < nthr w → fin w' j = fin w j := by
    intro j hj
    unfold fin
    rw [hctl j]
    split
    · next e => rw [e]; rfl
    · rw [if_neg (by omega)]
  have hhbEq : ∀ n', n' < w.exec.objs.length → objHb w'.exec.objs n' = objHb w.exec.objs n' := by
    intro n' hn'; rw [hobjs]; exact objHb_append _ _ hn'
  have htopoN : topo w (nthr w) = none := by
    unfold topo; rw [get_out w (Nat.le_refl _)]; rfl
  have hthr' : ∀ i, ((σT.fork w.tid (nthr w)).tick w.tid).thr i =
      if i = w.tid then (σT.thr w.tid).inc w.tid
      else if i = nthr w then (σT.thr w.tid).inc (nthr w) else σT.thr i := by
    intro i
    show upd (upd σT.thr (nthr w) _) w.tid ((upd σT.thr (nthr w) _ w.tid).inc w.tid) i = _
    by_cases e1 : i = w.tid
    · rw [e1, upd_self, if_pos rfl, upd_ne _ _ (by omega)]
    · rw [upd_ne _ _ e1, if_neg e1]
      by_cases e2 : i = nthr w
      · rw [e2, upd_self, if_pos rfl]
      · rw [upd_ne _ _ e2, if_neg e2]
  refine ⟨⟨?_, ?_, ?_, ?_, ?_, ?_, ?_⟩, ⟨?_, ?_, ?_, ?_⟩⟩
  · intro i hi
    rw [hrel]
    by_cases e : i < nthr w
    · exact hRC.inv.rel i e
    · unfold trel; rw [get_out w (by omega)]
  · intro i o hi ho
    rw [htopo] at ho
    rw [hn] at hi
    have hi' : i < nthr w := by
      apply Classical.byContradiction
      intro hh
      have : i = nthr w := by omega
      rw [this, htopoN] at ho; cases ho
    have := hRC.inv.ob i o hi' ho
    rw [hobjs]; simp; omega
  · intro i b' j n' hi ho hm hij
    rw [htopo] at ho
    rw [hn] at hi
    have hi' : i < nthr w := by
      apply Classical.byContradiction
      intro hh
      have : i = nthr w := by omega
      rw [this, htopoN] at ho; cases ho
    rw [hs] at hm
    rcases List.mem_cons.1 hm with e | hm
    · cases e
      have := hRC.inv.ob i _ hi' ho
      omega
    · have hjl : j < nthr w := by rw [← hn0]; exact (hRC.r.y.sp b' j n' hm).1
      rcases hRC.inv.jo i b' j n' hi' ho hm hij with h1 | h1
      · have hit : i ≠ w.tid := by intro e; rw [e, hpn] at h1; cases h1
        exact .inl (hpendMono i hit hi' n' h1)
      · rw [hfinEq j hjl]; exact .inr h1
  · intro b' j n' hm
    rw [hs] at hm
    rcases List.mem_cons.1 hm with e | hm
    · cases e
      have h1 : objHb w'.exec.objs w.exec.objs.length = VV.zero := by
        rw [hobjs]; unfold objHb; simp [jhObj, hbOf]; rfl
      have h2 : fin w' (nthr w) = 0 := by
        unfold fin; rw [hctl, if_neg (by omega), if_pos hn0.symm]
      rw [h1, h2]; simp
    · obtain ⟨hjl, _, _⟩ := hRC.r.y.sp b' j n' hm
      have hjl' : j < nthr w := by rw [← hn0]; exact hjl
      rw [hhbEq n' (sp_lt hRC.r hm), hRC.inv.nhb b' j n' hm, hfinEq j hjl', hcaus,
        if_neg (show ¬ j = nthr w by omega)]
      by_cases e : j = w.tid
      · rw [e, hf0]; simp
      · rw [if_neg e]
  · intro b' j n' hm
    rw [hs] at hm
    rcases List.mem_cons.1 hm with e | hm
    · cases e; omega
    · exact hRC.inv.sp0 b' j n' hm
  · intro e1 e2 h1 h2 he
    rw [hs] at h1 h2
    rcases List.mem_cons.1 h1 with a1 | a1 <;> rcases List.mem_cons.1 h2 with a2 | a2
    · rw [a1, a2]
    · exfalso
      obtain ⟨b2, j2, n2⟩ := e2
      have := (hRC.r.y.sp b2 j2 n2 a2).1
      rw [a1] at he; simp only at he; omega
    · exfalso
      obtain ⟨b1, j1, n1⟩ := e1
      have := (hRC.r.y.sp b1 j1 n1 a1).1
      rw [a2] at he; simp only at he; omega
    · exact hRC.inv.spt e1 e2 a1 a2 he
  · intro c hc
    rw [hp] at hc
    rw [hcell, hobjs]
    exact cellIdle_append _ _ (hRC.inv.cb c hc)
  · intro m hm
    rw [hp] at hm
    rw [hmo, hhbEq _ (mtx_lt hRC.r hm)]
    exact hLT.mtx m hm
  · intro k c hc
    rw [hp] at hc
    rw [hcell, hobjs, objAcc_append _ _ _ (cell_lt hRC.r hc)]
    exact hLT.acc k c hc
  · intro i hi
    rw [hn] at hi
    rw [hcaus, hthr']
    by_cases e1 : i = w.tid
    · have e2 : ¬ i = nthr w := by omega
      simp only [if_pos e1, if_neg e2, hσt]; exact le_refl _
    · by_cases e2 : i = nthr w
      · simp only [if_neg e1, if_pos e2, hσt]; exact le_refl _
      · simp only [if_neg e1, if_neg e2]
        exact hLT.lo i (by omega)
  · intro i hi
    rw [hn] at hi
    rw [hcaus, hthr']
    by_cases e1 : i = w.tid
    · have e2 : ¬ i = nthr w := by omega
      simp only [if_pos e1, if_neg e2, hσt]; exact le_join_left _ _
    · by_cases e2 : i = nthr w
      · simp only [if_neg e1, if_pos e2, hσt]; exact le_join_left _ _
      · simp only [if_neg e1, if_neg e2]
        have hi' : i < nthr w := by omega
        have hmono : (pendHb w i).le (pendHb w' i) := by
          unfold pendHb
          cases hpd : pend w i with
          | none => exact zero_le _
          | some n' =>
            rw [hpendMono i e1 hi' n' hpd]
            obtain ⟨b', j', hm'⟩ := pend_mem hpd
            show (objHb w.exec.objs n').le (objHb w'.exec.objs n')
            rw [hhbEq n' (sp_lt hRC.r hm')]; exact le_refl _
        exact le_trans (hLT.hi i hi') (join_mono (le_refl _) hmono)

theorem clk_spawn (hwf : WF w.prog) (hRC : RC w s) (hact : w.tid < w.ctl.length) {b : Nat}
    (hop : opAt w = some (.spawn b))
    (h : w.runOp (w.ctlOf w.tid) (.spawn b) = .ok w') : RealOut w s w' := by
  obtain ⟨hb0, hbl, hidle⟩ := hRC.r.x.spawn_fresh hwf hact hop
  have hfresh : ∀ i, i < w.ctl.length → body w i ≠ b := hidle
  have ht := nthr_tid hRC hact
  have hn0 : w.ctl.length = nthr w := nthr_eq hRC.r
  obtain ⟨hp, hs, hn, hobjs, hcl, hctl, hcaus, hrel, htopo⟩ := spawn_view h hact ht
  obtain ⟨σT, σR, hLT, hLR, hGT, hGR, hX⟩ := hRC.clk
  have hT := spawn_transfer hRC hact hop hfresh hLT hp hs hn hobjs hctl hcaus hrel htopo
  have hcv : (s.th (body w w.tid)).cvNotified = none := (hRC.fs.2 _).2.1
  have ho : SC.opOf w.prog s (body w w.tid) = some (.spawn b) := (opOf_eq hRC.r hact).trans hop
  have hbt := body_lt_ths hRC.r hact
  have hbne : b ≠ body w w.tid := Ne.symm (hfresh w.tid hact)
  have hRb : σR.thr b = VV.zero := hX.idleR b hfresh
  have hz : (s.tick (body w w.tid)).vc b = VV.zero := by
    rw [vc_tick _ _ _ hbt, upd_ne _ _ hbne, ← hLR.thr, hRb]
  have hz' : (σR.tick (body w w.tid)).thr b = VV.zero := by
    show upd σR.thr _ _ b = _
    rw [upd_ne _ _ hbne, hRb]
  have hbl' : b < (s.tick (body w w.tid)).ths.length := by rw [tick_len, ths_len hRC.r]; exact hbl
  have hTn : σT.thr (nthr w) = VV.zero := hX.idleT _ (by omega)
  have hGT' := hGT.fork w.tid (nthr w) hTn
  have hGR' := (hGR.tick (body w w.tid)).fork (body w w.tid) b hz'
  have hβ : ∀ i, i < w.ctl.length → body w' i = body w i := by
    intro i hi
    unfold body
    rw [hctl i]
    split
    · next e => rw [e]; rfl
    · rw [if_neg (by omega)]
  have hβn : body w' w.ctl.length = b := by
    unfold body
    rw [hctl, if_neg (by omega), if_pos rfl]
  have hX1 := hX.tickR hGT hGR (inj_body hRC.r) w.tid hact
  have hX2 := hX1.fork hGT (hGR.tick _) w.tid hact b hfresh (body w') hβ hβn
  have hX3 := hX2.tickT (by rw [hn0]; exact hGT') hGR' w.tid (by omega)
  refine ⟨hp, by omega, hβ _ hact, .inl ?_, _, step_spawn hcv ho, hRC.fs.1, hT.1,
    (σT.fork w.tid (nthr w)).tick w.tid, (σR.tick (body w w.tid)).fork (body w w.tid) b, hT.2, ?_,
    hGT'.tick _, hGR', ?_⟩
  · rw [hctl, if_pos rfl]; show (w.ctlOf w.tid).pc + 1 ≠ _; omega
  · exact (LinkR.fork (hLR.tick hbt) hbl' hz).ret _ _
  · rw [hcl, ← hn0]; exact hX3

end

end Race
end LoomVerif

/-
C13.1: the checkpoint decoder inverts the encoder (`Entry.ofJson ∘ Entry.toJson`,
`Path.ofJson ∘ Path.toJson`).
-/
import LoomVerif.Model.Ckpt

namespace LoomVerif

theorem ThSt.ofName_name (t : ThSt) : ThSt.ofName t.name = some t := by
  cases t <;> decide

/-- `mapM` of a decoder over the image of its encoder gives the list back -/
theorem mapM_map_roundtrip {α β} (enc : α → β) (dec : β → Option α)
    (h : ∀ a, dec (enc a) = some a) (l : List α) : (l.map enc).mapM dec = some l := by
  induction l with
  | nil => rfl
  | cons x xs ih => simp [List.mapM_cons, h, ih]

theorem asOptNat_optNatJson (o : Option Nat) : (optNatJson o).asOptNat = some o := by
  cases o <;> rfl

theorem asRef_refJson (o : Option Nat) : (refJson o).asRef = some o := by
  cases o <;> rfl

theorem Entry.ofJson_toJson (e : Entry) : Entry.ofJson e.toJson = some e := by
  cases e with
  | sched s =>
    have h1 := mapM_map_roundtrip (fun t : ThSt => Json.str t.name) Json.asThSt
      (fun t => by simp [Json.asThSt, ThSt.ofName_name]) s.threads
    simp [Entry.toJson, Entry.ofJson, Json.asArr, h1, Json.asNat, asOptNat_optNatJson,
      asRef_refJson, Json.asBool]
  | load l =>
    have h1 := mapM_map_roundtrip Json.num Json.asNat (fun _ => rfl) l.values
    simp [Entry.toJson, Entry.ofJson, Json.asArr, h1, Json.asNat, Json.asBool]
  | spur p =>
    simp [Entry.toJson, Entry.ofJson, Json.asBool]

theorem Path.ofJson_toJson (p : Path) (cap : Nat) :
    Path.ofJson cap p.toJson = some { p with cap := cap } := by
  have h1 := mapM_map_roundtrip Entry.toJson Entry.ofJson Entry.ofJson_toJson p.branches
  simp [Path.toJson, Path.ofJson, Json.asArr, h1, Json.asNat, asOptNat_optNatJson, Json.asBool]

end LoomVerif

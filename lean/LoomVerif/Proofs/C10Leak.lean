/-
C10, leak check: `Objs.checkForLeaks` characterised entry by entry.
-/
import LoomVerif.Model.Objs

namespace LoomVerif
namespace C10

/-- what `check_for_leaks` says about one entry of the object store: the panic it raises, if any -/
def leakOf : Obj → Option Panic
  | .alloc s => if s.isDropped then none else some .leakAlloc
  | .arc s => if s.refCnt = 0 then none else some .leakArc
  | .chan s => if s.msgCnt = 0 then none else some .leakMsg
  | _ => none

theorem leakOf_eq_none (o : Obj) :
    leakOf o = none ↔
      (∀ s, o = .alloc s → s.isDropped = true) ∧ (∀ s, o = .arc s → s.refCnt = 0) ∧
      (∀ s, o = .chan s → s.msgCnt = 0) := by
  cases o <;> simp [leakOf]

theorem leakOf_eq_some (o : Obj) (e : Panic) :
    leakOf o = some e ↔
      (∃ s, o = .alloc s ∧ s.isDropped = false ∧ e = .leakAlloc) ∨
      (∃ s, o = .arc s ∧ s.refCnt ≠ 0 ∧ e = .leakArc) ∨
      (∃ s, o = .chan s ∧ s.msgCnt ≠ 0 ∧ e = .leakMsg) := by
  cases o <;> simp [leakOf] <;> grind

theorem check_cons (o : Obj) (os : Objs) :
    Objs.checkForLeaks (o :: os) =
      match leakOf o with
      | some e => .error e
      | none => Objs.checkForLeaks os := by
  cases o <;> simp only [Objs.checkForLeaks, leakOf]
  case alloc s => cases h : s.isDropped <;> simp
  case arc s => by_cases h : s.refCnt = 0 <;> simp [h]
  case chan s => by_cases h : s.msgCnt = 0 <;> simp [h]

/-- `check_for_leaks` is "find the first entry with a complaint" -/
theorem check_eq_findSome (os : Objs) :
    Objs.checkForLeaks os =
      match os.findSome? leakOf with
      | some e => .error e
      | none => .ok () := by
  induction os with
  | nil => rfl
  | cons o os ih =>
    rw [check_cons, List.findSome?_cons]
    cases h : leakOf o with
    | some e => rfl
    | none => simpa using ih

theorem check_ok_iff (os : Objs) :
    Objs.checkForLeaks os = .ok () ↔ ∀ o ∈ os, leakOf o = none := by
  rw [check_eq_findSome]
  cases h : os.findSome? leakOf with
  | none => simpa using List.findSome?_eq_none_iff.1 h
  | some e =>
    simp only [reduceCtorEq, false_iff]
    intro hall
    rw [List.findSome?_eq_none_iff.2 hall] at h
    cases h

/-- the error is the complaint of the first (lowest index) offending entry -/
theorem check_error_iff (os : Objs) (e : Panic) :
    Objs.checkForLeaks os = .error e ↔
      ∃ i, ∃ h : i < os.length, leakOf os[i] = some e ∧
        ∀ j, (hj : j < i) → leakOf (os[j]'(Nat.lt_trans hj h)) = none := by
  induction os with
  | nil => simp [Objs.checkForLeaks]
  | cons o os ih =>
    rw [check_cons]
    cases ho : leakOf o with
    | some e' =>
      constructor
      · intro h
        cases h
        exact ⟨0, by simp, by simpa using ho, by intro j hj; omega⟩
      · rintro ⟨i, hi, he, hj⟩
        cases i with
        | zero => simp only [List.getElem_cons_zero] at he; rw [ho] at he; cases he; rfl
        | succ i =>
          have := hj 0 (by omega)
          simp only [List.getElem_cons_zero] at this
          rw [ho] at this; cases this
    | none =>
      simp only
      rw [ih]
      constructor
      · rintro ⟨i, hi, he, hj⟩
        refine ⟨i + 1, by simp; omega, by simpa using he, ?_⟩
        intro j hj'
        cases j with
        | zero => simpa using ho
        | succ j => simpa using hj j (by omega)
      · rintro ⟨i, hi, he, hj⟩
        cases i with
        | zero => simp only [List.getElem_cons_zero] at he; rw [ho] at he; cases he
        | succ i =>
          refine ⟨i, by simp at hi; omega, by simpa using he, ?_⟩
          intro j hj'
          simpa using hj (j + 1) (by omega)

/-- the check can only raise one of the three leak panics -/
theorem check_error_kind (os : Objs) (e : Panic) (h : Objs.checkForLeaks os = .error e) :
    e = .leakAlloc ∨ e = .leakArc ∨ e = .leakMsg := by
  obtain ⟨i, hi, he, _⟩ := (check_error_iff os e).1 h
  rcases (leakOf_eq_some _ _).1 he with ⟨_, _, _, rfl⟩ | ⟨_, _, _, rfl⟩ | ⟨_, _, _, rfl⟩ <;> simp

/-- entries that are not allocations, arcs or channels are ignored -/
theorem check_append (os os' : Objs) (h : ∀ o ∈ os, leakOf o = none) :
    Objs.checkForLeaks (os ++ os') = Objs.checkForLeaks os' := by
  induction os with
  | nil => rfl
  | cons o os ih =>
    rw [List.cons_append, check_cons, h o (by simp)]
    exact ih (fun o ho => h o (by simp [ho]))

end C10
end LoomVerif

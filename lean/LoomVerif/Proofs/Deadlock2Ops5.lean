/-
Deadlock soundness, WAIT fragment, part 11: `join`, `spawn` and the thread epilogue.
-/
import LoomVerif.Proofs.Deadlock2Ops4

namespace LoomVerif
namespace Deadlock2
open Refine Refine2 Sy Deadlock C07 C08

section
variable {w w' : World} {s : SCData2}

/-- a branch point whose stage counter is written after the branch (`nWait`, `join`) or before it -/
theorem branch_stage' (c : Ctx w s) {g : TCtl → TCtl} {o : Nat} {a : Action} {blk wt : Bool} {w1 : World}
    (h : w.branch o a blk wt = .ok w1)
    (hbody : (g (w.ctlOf w.tid)).body = (w.ctlOf w.tid).body)
    (hpc : (g (w.ctlOf w.tid)).pc = (w.ctlOf w.tid).pc)
    (hfin : 10 ≤ (g (w.ctlOf w.tid)).fin → 10 ≤ (w.ctlOf w.tid).fin)
    (hopn : OpAt w.prog w.spawned w.tid (g (w.ctlOf w.tid)) (some ⟨o, a, wt⟩))
    (hblk : blk = true → Blk w.prog w.spawned w.exec.objs w.tid (branchF o a blk wt (w.ths.get w.tid))
      (g (w.ctlOf w.tid))) : Res w (w1.modCtl w.tid g) := by
  rw [branch_point] at h
  obtain ⟨x, hx, rfl⟩ := bind_pure_ok h
  refine JB2.point (g := g) c.j c.hin c.act hx rfl rfl rfl rfl hbody hpc hfin ?_
  refine ⟨fun hb => ?_, fun ht => ?_, fun _ => by rw [branchF_operation]; exact hopn⟩
  · rw [branchF_state] at hb
    cases blk with
    | true => exact hblk rfl
    | false => exact absurd hb c.run.1
  · rw [branchF_state] at ht
    cases blk with
    | true => cases ht
    | false => exact absurd ht c.run.2

theorem step_join (c : Ctx w s) {b : Nat} (hop : opAt2 w = some (.join b))
    (h : w.runOp (w.ctlOf w.tid) (.join b) = .ok w') : Res w w' := by
  rw [runOp_join] at h
  obtain ⟨⟨t', n⟩, hl, h⟩ := Refine.bind_ok h
  have hmem := lookupSpawn_mem hl
  obtain ⟨ns, hobj, hspur⟩ := join_obj c.r hmem
  have hview : objView2 w.exec.objs n = some (.notify ns.spurious ns.notified ns.didSpur) := objView2_of hobj
  have hop' : opOfCtl w.prog (w.ctlOf w.tid) = some (.join b) := hop
  simp only at h
  split at h
  · obtain ⟨⟨w1, st⟩, h1, h⟩ := Refine.bind_ok h
    rw [notifyWait1_plain hobj (by rw [hspur]; rfl)] at h1
    obtain ⟨w2, hb, he⟩ := map_ok h1
    cases he
    cases h
    have hop1 : opOfCtl w.prog { w.ctlOf w.tid with stage := 1 } = some (.join b) := hop
    refine branch_stage' (g := fun c => { c with stage := 1 }) c hb rfl rfl id ?_ ?_
    · unfold OpAt; rw [hop1]; simp
      exact ⟨t', hmem⟩
    · intro hb'
      have hnt : ns.notified = false := by simpa using hb'
      exact .join b t' n true ns.spurious ns.didSpur hop1 rfl hmem
        (by rw [branchF_operation, hnt]; rfl) (by rw [hview, hnt])
  · obtain ⟨w1, h1, h⟩ := Refine.bind_ok h
    cases h
    obtain ⟨hnt, hc1, ht1, hp1, hs1, hpath, hact1, hobjs, hths⟩ := wait2_desc hobj h1
    refine Res.local (JB2.quiet (g := completeF .unit) c.j c.act c.run hp1 hs1 ht1
      (by rw [ctl_complete', hc1, ht1]) (hths _).st (fun i _ _ => hths i) ?_ ?_) hpath (hact1.trans c.active)
    · intro i
      show ∀ n v, _ → _ → ∃ v', objView2 w1.exec.objs n = some v' ∧ _
      rw [hobjs]
      exact vkeep_set hview (fun hs => by rw [hnt] at hs; exact absurd hs (by simp [Stuck]))
    · -- the notification is consumed: the `join` of `b` now lies behind the pc of the joiner
      have hctl : (w1.complete .unit).ctl = w.ctl.modify w.tid (completeF .unit) := by
        rw [ctl_complete', hc1, ht1]
      intro b2 i n2 hm2 h10
      have hm2' : (b2, i, n2) ∈ w.spawned := by
        have : (w1.complete .unit).spawned = w.spawned := hs1
        rw [this] at hm2; exact hm2
      have h10' : 10 ≤ (w.ctlOf i).fin := by
        rw [ctlOf_of_modify hctl c.act] at h10
        split at h10 <;> exact h10
      have hbody : ∀ j, ((w1.complete .unit).ctlOf j).body = (w.ctlOf j).body := by
        intro j; rw [ctlOf_of_modify hctl c.act]; split <;> rfl
      have hpcle : ∀ j, (w.ctlOf j).pc ≤ ((w1.complete .unit).ctlOf j).pc := by
        intro j; rw [ctlOf_of_modify hctl c.act]; split
        · exact Nat.le_succ _
        · exact Nat.le_refl _
      have hlen : (w1.complete .unit).ctl.length = w.ctl.length := ctl_len_of_modify hctl
      have hprog : (w1.complete .unit).prog = w.prog := hp1
      by_cases en : n2 = n
      · subst en
        have hi : i = t' := c.r.o.y.spn (b2, i, n2) (b, t', n2) hm2' hmem rfl
        have hb2 : b2 = b := by
          have h1' := (c.r.o.y.sp b2 i n2 hm2').2.1
          have h2' := (c.r.o.y.sp b t' n2 hmem).2.1
          rw [← h1', ← h2', hi]
        refine .inr ⟨w.tid, (w.ctlOf w.tid).pc, by rw [hlen]; exact c.act, ?_, ?_⟩
        · rw [ctlOf_of_modify hctl c.act, if_pos rfl]; exact Nat.lt_succ_self _
        · rw [hprog, hbody, hb2]; exact hop
      · rcases c.j.jnd b2 i n2 hm2' h10' with ⟨a, d, hv⟩ | ⟨j, k, hj, hk, hop2⟩
        · refine .inl ⟨a, d, ?_⟩
          show objView2 w1.exec.objs n2 = _
          rw [hobjs, objView2_set_ne _ _ en]; exact hv
        · refine .inr ⟨j, k, by rw [hlen]; exact hj, Nat.lt_of_lt_of_le hk (hpcle j), ?_⟩
          rw [hprog, hbody]; exact hop2
  · cases h
    exact quiet_complete c _ rfl rfl rfl rfl rfl c.active rfl (fun i _ _ => Same4.refl _)
      (fun i n v hv _ => ⟨v, hv, .inl rfl⟩) (fun b i n _ a d hv => ⟨a, d, hv⟩)

/-! ### `spawn` -/

theorem newThread_same4 {e e' : Exec} {id : Nat} (h : e.newThread = .ok (e', id)) :
    e'.path = e.path ∧ e'.threads.isActive = e.threads.isActive ∧
    ∀ i, Same4 ((e.threads.threads ++ [({} : Thread)]).getD i {}) (e'.threads.get i) := by
  unfold Exec.newThread at h
  simp only [bind, Except.bind, pure, Except.pure] at h
  split at h
  · cases h
  · next v hv =>
    cases h
    unfold Threads.newThread at hv
    split at hv
    · cases hv
      refine ⟨rfl, rfl, fun i => ?_⟩
      simp only [Threads.get, Threads.modify, List.getD_eq_getElem?_getD, List.getElem?_modify]
      cases hh : (e.threads.threads ++ [({} : Thread)])[i]? with
      | none => simp; exact Same4.refl _
      | some th =>
        simp only [Option.getD_some]
        split <;> split <;> exact ⟨rfl, rfl, rfl, rfl⟩
    · cases hv

theorem opAt_new (p : Prog) (sp : List (Nat × Nat × Nat)) (i b : Nat) :
    OpAt p sp i ({ body := b } : TCtl) none := by
  unfold OpAt
  split
  · simp
  · next op _ => cases op <;> simp

theorem step_spawn (c : Ctx w s) {b : Nat} (h : w.runOp (w.ctlOf w.tid) (.spawn b) = .ok w') : Res w w' := by
  have h0 := h
  obtain ⟨w2, rfl, hp, ht, _, hc, hsp, hobjs, hlen⟩ := spawn_obs h
  -- the thread table
  have hthr : w2.exec.path = w.exec.path ∧ w2.ths.isActive = w.ths.isActive ∧
      ∀ i, Same4 ((w.exec.threads.threads ++ [({} : Thread)]).getD i {}) (w2.ths.get i) := by
    rw [runOp_spawn] at h0
    simp only [World.pushObj, bind, Except.bind, pure, Except.pure] at h0
    split at h0
    · cases h0
    · next v hv =>
      obtain ⟨e', id⟩ := v
      have := newThread_same4 hv
      simp only [Except.ok.injEq] at h0
      have hw : w2.exec = e' := by
        have := congrArg (fun x : World => x.exec) h0
        exact this.symm
      rw [show w2.ths = w2.exec.threads from rfl, hw]
      exact this
  obtain ⟨hpath, hactv, hths⟩ := hthr
  have hL : w.ctl.length = w.exec.threads.threads.length := c.r.lenCtl
  have hctl : (w2.complete .unit).ctl = (w.ctl ++ [({ body := b } : TCtl)]).modify w.tid (completeF .unit) := by
    rw [ctl_complete', hc, ht]
  have hctlOld : ∀ j, j < w.ctl.length →
      (w2.complete .unit).ctlOf j = if j = w.tid then completeF .unit (w.ctlOf j) else w.ctlOf j := by
    intro j hj
    unfold World.ctlOf
    rw [hctl, modify_append_left' _ _ _ _ c.act, getD_append_left _ _ _ _ (by simpa using hj)]
    by_cases e : j = w.tid
    · subst e; rw [if_pos rfl, getD_modify_self _ _ _ _ c.act]
    · rw [if_neg e, getD_modify_ne _ _ _ _ _ e]
  have hctlNew : (w2.complete .unit).ctlOf w.ctl.length = ({ body := b } : TCtl) := by
    unfold World.ctlOf
    rw [hctl, modify_append_left' _ _ _ _ c.act]
    have : (w.ctl.modify w.tid (completeF .unit)).length = w.ctl.length := by simp
    rw [← this]
    exact getD_append_new _ _ _
  have hlen' : (w2.complete .unit).ctl.length = w.ctl.length + 1 := by rw [hctl]; simp
  have hprog : (w2.complete .unit).prog = w.prog := hp
  have hsp' : (w2.complete .unit).spawned = (b, w.ctl.length, w.exec.objs.length) :: w.spawned := by
    show w2.spawned = _; rw [hsp, hL]
  have hobjs' : (w2.complete .unit).exec.objs =
      w.exec.objs ++ [.notify { seqCst := true, spurious := false }] := hobjs
  have htid : (w2.complete .unit).tid = w.tid := ht
  have hview : ViewLe2 w.exec.objs (w2.complete .unit).exec.objs := by
    rw [hobjs']; exact ViewLe2.append _ _
  have hold : ∀ i, i < w.ctl.length → Same4 (w.ths.get i) ((w2.complete .unit).ths.get i) := by
    intro i hi
    have := hths i
    rw [getD_append_left _ _ _ _ (by rw [← hL]; exact hi)] at this
    exact this
  have hnew : Same4 ({} : Thread) ((w2.complete .unit).ths.get w.ctl.length) := by
    have := hths w.exec.threads.threads.length
    rw [getD_append_new, ← hL] at this
    exact this
  refine Res.local ⟨fun i hi => ?_, ?_, ?_, ?_⟩ hpath (hactv.trans c.active)
  · rw [hlen'] at hi
    rw [hprog, hsp', htid]
    by_cases hin : i < w.ctl.length
    · have hs4 := hold i hin
      rw [hctlOld i hin]
      by_cases e : i = w.tid
      · subst e
        rw [if_pos rfl]
        exact JT2.running (by rw [hs4.st]; exact c.run.1) (by rw [hs4.st]; exact c.run.2) rfl
      · rw [if_neg e]
        refine ((c.j.thr i hin).weaken (fun f => absurd f e)).other (fun _ h => List.mem_cons_of_mem _ h) hs4.op
          (fun ht => by rw [← hs4.st]; exact ht) (fun hb => ?_)
        exact ((c.j.thr i hin).blk (by rw [← hs4.st]; exact hb)).frame (fun _ h => List.mem_cons_of_mem _ h)
          hs4.op hs4.pk (fun _ => hs4.tk) (fun n v hv _ => ⟨v, hview n v hv, .inl rfl⟩)
    · have : i = w.ctl.length := by omega
      subst this
      rw [hctlNew]
      have hst : ((w2.complete .unit).ths.get w.ctl.length).state = .runnable := hnew.st
      have hop : ((w2.complete .unit).ths.get w.ctl.length).operation = none := hnew.op
      refine ⟨fun hb => (by rw [hst] at hb; cases hb), fun ht => (by rw [hst] at ht; cases ht), fun _ => ?_⟩
      rw [hop]; exact opAt_new _ _ _ _
  · rw [hsp']
    intro e1 e2 h1 h2 e
    rcases List.mem_cons.1 h1 with a1 | a1 <;> rcases List.mem_cons.1 h2 with a2 | a2
    · rw [a1, a2]
    · exfalso
      obtain ⟨b2, i2, n2⟩ := e2
      have := (c.r.o.y.sp b2 i2 n2 a2).1
      rw [a1] at e; simp only at e; omega
    · exfalso
      obtain ⟨b1, i1, n1⟩ := e1
      have := (c.r.o.y.sp b1 i1 n1 a1).1
      rw [a2] at e; simp only at e; omega
    · exact c.j.spt e1 e2 a1 a2 e
  · rw [hsp']
    intro b' i n hm
    rcases List.mem_cons.1 hm with a | a
    · cases a; have := c.act; omega
    · exact c.j.sp0 b' i n a
  · rw [Jnd, hsp']
    intro b' i n hm h10
    rcases List.mem_cons.1 hm with a | a
    · cases a
      rw [hctlNew] at h10
      simp at h10
    · have hi := (c.r.o.y.sp b' i n a).1
      have hfin : ((w2.complete .unit).ctlOf i).fin = (w.ctlOf i).fin := by
        rw [hctlOld i hi]; split <;> rfl
      rw [hfin] at h10
      rcases c.j.jnd b' i n a h10 with ⟨a', d, hv⟩ | ⟨j, k, hj, hk, hop'⟩
      · exact .inl ⟨a', d, hview _ _ hv⟩
      · refine .inr ⟨j, k, by rw [hlen']; omega, ?_, ?_⟩
        · rw [hctlOld j hj]; split
          · next e => subst e; exact Nat.lt_succ_of_lt hk
          · exact hk
        · have : ((w2.complete .unit).ctlOf j).body = (w.ctlOf j).body := by
            rw [hctlOld j hj]; split <;> rfl
          rw [hprog, this]; exact hop'

/-! ### the epilogue -/

theorem opAt_epi {p : Prog} {sp : List (Nat × Nat × Nat)} {i : Nat} {c : TCtl} (hop : opOfCtl p c = none)
    (hf : c.fin ≠ 1) : OpAt p sp i c none := by
  unfold OpAt; rw [hop]; simp [hf]

theorem step_epilogue (c : Ctx w s) (hop : opAt2 w = none)
    (h : w.runEpilogue (w.ctlOf w.tid) = .ok w') : Res w w' := by
  obtain ⟨_, hrel, _⟩ := base2 c.r c.act
  have hloc := hrel.2.2.2.2.2.1
  have hdq := hrel.2.2.2.2.2.2
  have hdl : w.dropLocals = w := dropLocals_frag w hloc hdq
  have hopc : ∀ f, opOfCtl w.prog { w.ctlOf w.tid with fin := f } = none := fun f => hop
  by_cases h10 : 10 ≤ (w.ctlOf w.tid).fin
  · rw [runEpilogue_finish w _ h10] at h
    unfold World.finishThread at h
    split at h
    · cases h
    · rw [dropPass_eq, hdl] at h
      split at h
      · cases h
        exact quiet_ctl c rfl (Nat.le_refl _) (fun _ _ => h10) rfl rfl rfl rfl rfl rfl rfl
      · split at h
        · rw [hdq] at h
          simp only at h
          rw [done_point] at h
          obtain ⟨x, hx, rfl⟩ := bind_pure_ok h
          refine JB2.point (g := fun c => { c with fin := 99 }) c.j c.hin c.act hx rfl rfl rfl rfl rfl rfl
            (fun _ => h10) ?_
          exact ⟨fun hb => (by cases hb), fun _ => rfl, fun _ => opAt_epi (hopc 99) (by simp)⟩
        · rw [hdq] at h
          cases h
  · have hlt : (w.ctlOf w.tid).fin < 10 := by omega
    by_cases ht0 : w.tid = 0
    · rw [runEpilogue_main w _ ht0 hlt] at h
      cases h
      refine quiet_ctl (w0 := { w with exec := { w.exec with lazyStatics := none } }) c rfl (Nat.le_refl _) ?_
        rfl rfl rfl rfl rfl rfl rfl
      rintro ⟨b, n, hm⟩ _
      have := c.j.sp0 b w.tid n hm
      omega
    · have hfind : ∃ b n, w.spawned.find? (·.2.1 == w.tid) = some (b, w.tid, n) := by
        cases hf : w.spawned.find? (·.2.1 == w.tid) with
        | none =>
          unfold World.runEpilogue at h
          simp [h10, ht0, hf, throw, throwThe, MonadExceptOf.throw] at h
        | some e =>
          obtain ⟨b, t, n⟩ := e
          have := List.find?_some hf
          simp only [beq_iff_eq] at this
          subst this
          exact ⟨b, n, rfl⟩
      obtain ⟨b, n, hf⟩ := hfind
      have hmem := List.mem_of_find?_eq_some hf
      rw [runEpilogue_spawned w _ b n ht0 hf hlt] at h
      split at h
      · rw [hdl] at h
        cases h
        exact quiet_ctl c rfl (Nat.le_refl _) (fun _ h' => by simp at h') rfl rfl rfl rfl rfl rfl rfl
      · split at h
        · rw [dropPass_eq, hdl] at h
          split at h
          · cases h
            exact quiet_ctl c rfl (Nat.le_refl _) (fun _ h' => by simp at h') rfl rfl rfl rfl rfl rfl rfl
          · split at h
            · rw [hdq] at h
              simp only at h
              refine branch_stage (g := fun c => { c with fin := 1 }) c h rfl rfl (by simp) ?_
                (by intro hb; cases hb)
              unfold OpAt; rw [hopc 1]; simp
              exact ⟨b, hmem⟩
            · rw [hdq] at h
              cases h
        · obtain ⟨ns, hobj, _⟩ := join_obj c.r hmem
          obtain ⟨w1, h1, h⟩ := Refine.bind_ok h
          simp only [pure, Except.pure] at h
          cases h
          obtain ⟨hc1, ht1, hp1, hs1, _, _, ⟨ns', _, hnt', _, hobjs⟩, _, _⟩ := notify_desc hobj h1
          have hlt0 : n < w.exec.objs.length := objView2_lt (objView2_of hobj)
          refine notify_wake (g := fun c => { c with fin := 10 }) c hobj h1 rfl rfl rfl
            (by show w1.ctl.modify w.tid _ = _; rw [ht1]) rfl ?_
          -- the raised flag of this thread's `JoinHandle`
          have hctl : (w1.modCtl w.tid fun c => { c with fin := 10 }).ctl =
              w.ctl.modify w.tid fun c => { c with fin := 10 } := by
            show w1.ctl.modify _ _ = _; rw [hc1]
          intro b2 i n2 hm2 h10'
          have hm2' : (b2, i, n2) ∈ w.spawned := by
            have : (w1.modCtl w.tid fun c => { c with fin := 10 }).spawned = w.spawned := hs1
            rw [this] at hm2; exact hm2
          by_cases e : i = w.tid
          · subst e
            have := c.j.spt _ _ hm2' hmem rfl
            simp only [Prod.mk.injEq] at this
            obtain ⟨_, _, en⟩ := this
            subst en
            refine .inl ⟨ns'.spurious, ns'.didSpur, ?_⟩
            show objView2 w1.exec.objs n2 = _
            rw [hobjs, objView2_set_self _ hlt0]
            simp [view2, hnt']
          · have hfi : ((w1.modCtl w.tid fun c => { c with fin := 10 }).ctlOf i).fin = (w.ctlOf i).fin := by
              rw [ctlOf_of_modify hctl c.act, if_neg e]
            rw [hfi] at h10'
            rcases c.j.jnd b2 i n2 hm2' h10' with ⟨a, d, hv⟩ | ⟨j, k, hj, hk, hop2⟩
            · refine .inl ⟨a, d, ?_⟩
              show objView2 w1.exec.objs n2 = _
              rw [hobjs, objView2_set_ne _ _ (fun en => e (c.r.o.y.spn (b2, i, n2) (b, w.tid, n) hm2' hmem en))]
              exact hv
            · refine .inr ⟨j, k, by rw [ctl_len_of_modify hctl]; exact hj, ?_, ?_⟩
              · rw [ctlOf_of_modify hctl c.act]; split <;> exact hk
              · have : ((w1.modCtl w.tid fun c => { c with fin := 10 }).ctlOf j).body = (w.ctlOf j).body := by
                  rw [ctlOf_of_modify hctl c.act]; split <;> rfl
                rw [this]
                show (w1.prog.threads.getD _ [])[k]? = _
                rw [hp1]; exact hop2

end

end Deadlock2
end LoomVerif

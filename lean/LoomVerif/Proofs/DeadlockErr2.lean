/-
Deadlock soundness, part 9: **a stage of a fragment operation (or of the epilogue) that panics with "deadlock" does
so at a scheduling point, in a deadlocked reference state.**
-/
import LoomVerif.Proofs.DeadlockErr

namespace LoomVerif
namespace Deadlock
open Refine Sy C07 C08

section
variable {w : World} {s : SCData}

theorem finished_disabled (hR : R w s) {i : Nat} (hi : i < w.ctl.length) (h10 : 10 ≤ (w.ctlOf i).fin) :
    SCData.enabled w.prog s (w.ctlOf i).body = false := by
  have hf : (s.th (w.ctlOf i).body).finished = decide (10 ≤ (w.ctlOf i).fin) := (hR.x.thr i hi).2.2.2.2.1
  unfold SCData.enabled
  rw [hf]
  have : decide (10 ≤ (w.ctlOf i).fin) = true := by simpa using h10
  rw [this]; simp

/-- **deadlock soundness, one stage**: if a stage of the active thread panics with "deadlock" in a world related to
the reference state `s` (`RB`), then `s` is deadlocked: no thread is enabled and some started thread has not
finished -/
theorem step_deadlock (hwf : WF w.prog) (hRB : RB w s) (hactive : w.ths.isActive = true)
    (hact : w.tid < w.ctl.length) (h : w.stepActive = .error .deadlock) : Dead w.prog s := by
  have hR := hRB.r
  have hJ := hRB.j
  obtain ⟨_, hrel, hof⟩ := base hR hact
  have hst01 : (w.ctlOf w.tid).stage ≤ 1 := hrel.2.2.2.2.1
  unfold World.stepActive at h
  simp only at h
  cases hop : opAt w with
  | none =>
    have hop' := hop
    unfold opAt at hop'
    rw [hop'] at h
    replace h : w.runEpilogue (w.ctlOf w.tid) = .error .deadlock := h
    have hloc := hrel.2.2.2.2.2.1
    have hdq := hrel.2.2.2.2.2.2
    have hdl : w.dropLocals = w := dropLocals_frag w hloc hdq
    by_cases h10 : 10 ≤ (w.ctlOf w.tid).fin
    · rw [runEpilogue_finish w _ h10] at h
      unfold World.finishThread at h
      split at h
      · cases h
      · rw [dropPass_eq, hdl] at h
        split at h
        · cases h
        · split at h
          · rw [hdq] at h
            simp only at h
            have hs := threadDone_error h
            rw [schedOn_modCtl] at hs
            exact dead_of_schedOn hwf hRB hact hs
              (fun _ _ => ⟨finished_disabled hR hact h10, fun hne => absurd rfl hne⟩)
          · rw [hdq] at h
            cases h
    · have hlt : (w.ctlOf w.tid).fin < 10 := by omega
      by_cases ht0 : w.tid = 0
      · rw [runEpilogue_main w _ ht0 hlt] at h
        cases h
      · cases hf : w.spawned.find? (·.2.1 == w.tid) with
        | none =>
          unfold World.runEpilogue at h
          simp [h10, ht0, hf, bind, Except.bind, throw, throwThe, MonadExceptOf.throw] at h
        | some e =>
          obtain ⟨b, t, n⟩ := e
          have := List.find?_some hf
          simp only [beq_iff_eq] at this
          subst this
          have hmem := List.mem_of_find?_eq_some hf
          rw [runEpilogue_spawned w _ b n ht0 hf hlt] at h
          split at h
          · rw [hdl] at h
            cases h
          · split at h
            · rw [dropPass_eq, hdl] at h
              split at h
              · cases h
              · split at h
                · rw [hdq] at h
                  simp only at h
                  have hs := branch_error h
                  rw [schedOn_modCtl] at hs
                  refine dead_of_schedOn hwf hRB hact hs (fun _ hne => absurd ?_ hne)
                  rw [branchF_state]; rfl
                · rw [hdq] at h
                  cases h
            · obtain ⟨hlt', hbody, nt, hv, hnt⟩ := hR.y.sp b w.tid n hmem
              obtain ⟨ns, hobj, _, _⟩ := objView_notify hv
              rw [notifyEffect_eq hobj] at h
              simp only [bind, Except.bind, pure, Except.pure] at h
              cases h
  | some op =>
    have hop' := hop
    unfold opAt at hop'
    rw [hop'] at h
    simp only at h
    have hok := hwf.1.opOk hop'
    cases op <;> simp only [opOk, Bool.false_eq_true, Bool.and_eq_true, decide_eq_true_eq] at hok
    case cellRead ci =>
      obtain ⟨cs, hcs, _⟩ := objView_cell (hR.y.cell ci hok)
      have hg : w.sync.getCell (w.cellObj ci) = .ok cs := by
        unfold World.getCell
        have : w.sync.exec.objs[w.cellObj ci]? = some (.cell cs) := hcs
        rw [this]
      rw [runOp_cellRead, hg] at h
      simp only [bind, Except.bind, pure, Except.pure, throw, throwThe, MonadExceptOf.throw] at h
      repeat' split at h
      all_goals cases h
    case cellWrite ci v =>
      obtain ⟨cs, hcs, _⟩ := objView_cell (hR.y.cell ci hok)
      have hg : w.sync.getCell (w.cellObj ci) = .ok cs := by
        unfold World.getCell
        have : w.sync.exec.objs[w.cellObj ci]? = some (.cell cs) := hcs
        rw [this]
      rw [runOp_cellWrite, hg] at h
      simp only [bind, Except.bind, pure, Except.pure, throw, throwThe, MonadExceptOf.throw] at h
      repeat' split at h
      all_goals cases h
    case lock mi =>
      obtain ⟨l, hv, hmap, hown⟩ := hR.y.mtx mi hok
      obtain ⟨ms, hobj, hlock⟩ := objView_mutex hv
      have hobj' : w.exec.objs[w.mutexObj mi]? = some (.mutex ms) := hobj
      rw [runOp_lock] at h
      split at h
      · simp only [getMutex_of hobj', bind, Except.bind] at h
        have hs := branch_error h
        rw [schedOn_setStage] at hs
        refine dead_of_schedOn hwf hRB hact hs (fun _ hne => ?_)
        rw [branchF_state] at hne
        cases hl : ms.lock.isSome with
        | false => rw [hl] at hne; exact absurd rfl hne
        | true =>
          exact ⟨lock_disabled hwf hR hact hop (objView_of hobj') hl, fun _ => alive_of_op hR hact hop⟩
      · cases hl : ms.lock with
        | none =>
          rw [postAcquire_free hobj' hl] at h
          simp only [bind, Except.bind, pure, Except.pure, Bool.not_true, Bool.false_eq_true, if_false] at h
          cases h
        | some x =>
          rw [postAcquire_held hobj' (by rw [hl]; rfl)] at h
          simp [bind, Except.bind, throw, throwThe, MonadExceptOf.throw] at h
    case tryLock mi =>
      obtain ⟨l, hv, hmap, hown⟩ := hR.y.mtx mi hok
      obtain ⟨ms, hobj, hlock⟩ := objView_mutex hv
      have hobj' : w.exec.objs[w.mutexObj mi]? = some (.mutex ms) := hobj
      rw [runOp_tryLock] at h
      split at h
      · have hs := branch_error h
        rw [schedOn_setStage] at hs
        refine dead_of_schedOn hwf hRB hact hs (fun _ hne => absurd ?_ hne)
        rw [branchF_state]; rfl
      · cases hl : ms.lock with
        | none =>
          rw [postAcquire_free hobj' hl] at h
          simp only [bind, Except.bind, pure, Except.pure] at h
          cases h
        | some x =>
          rw [postAcquire_held hobj' (by rw [hl]; rfl)] at h
          simp only [bind, Except.bind, pure, Except.pure] at h
          cases h
    case unlock mi =>
      obtain ⟨l, hv, hmap, hown⟩ := hR.y.mtx mi hok
      obtain ⟨ms, hobj, hlock⟩ := objView_mutex hv
      have hobj' : w.exec.objs[w.mutexObj mi]? = some (.mutex ms) := hobj
      rw [runOp_unlock, releaseLock_active hobj' hactive] at h
      simp only [bind, Except.bind, pure, Except.pure] at h
      cases h
    case spawn b =>
      rw [runOp_spawn] at h
      simp only [World.pushObj, bind, Except.bind, pure, Except.pure] at h
      split at h
      · next e he =>
        cases h
        unfold Exec.newThread at he
        simp only [bind, Except.bind, pure, Except.pure] at he
        split at he
        · next e' he' =>
          cases he
          unfold Threads.newThread at he'
          split at he' <;> cases he'
        · cases he
      · cases h
    case join b =>
      rw [runOp_join] at h
      rcases WB.bind_eq_error h with hl | ⟨⟨tid', n⟩, hl, h⟩
      · unfold World.lookupSpawn at hl
        split at hl <;> cases hl
      · have hmem := lookupSpawn_mem hl
        obtain ⟨hlt, hbody, nt, hv, hnt⟩ := hR.y.sp _ tid' n hmem
        obtain ⟨ns, hobj, hspur, hnotified⟩ := objView_notify hv
        have hiff := join_fin_iff hwf hJ hR hact hop hmem hobj
        have hst : (w.ctlOf w.tid).stage = 0 ∨ (w.ctlOf w.tid).stage = 1 := by omega
        rcases hst with hst | hst
        · simp only [hst] at h
          rw [notifyWait1_plain hobj (by rw [hspur]; rfl)] at h
          cases hb : w.branch n .opaque (!ns.notified) (!ns.notified) with
          | ok w2 =>
            rw [hb] at h
            simp [Except.map, bind, Except.bind, pure, Except.pure] at h
          | error e =>
            rw [hb] at h
            simp only [Except.map, bind, Except.bind, Except.error.injEq] at h
            subst h
            have hs := branch_error hb
            refine dead_of_schedOn hwf hRB hact hs (fun _ hne => ?_)
            rw [branchF_state] at hne
            cases hnn : ns.notified with
            | true => rw [hnn] at hne; exact absurd rfl hne
            | false =>
              have hlt10 : (w.ctlOf tid').fin < 10 := by
                apply Classical.byContradiction
                intro hge
                have := hiff.2 (by omega)
                rw [hnn] at this; cases this
              exact ⟨join_disabled hR hact hop hmem hlt10, fun _ => alive_of_op hR hact hop⟩
        · simp only [hst] at h
          cases hn : ns.notified with
          | true =>
            rw [notifyWait2_notified hobj hn] at h
            simp only [bind, Except.bind, pure, Except.pure] at h
            cases h
          | false =>
            rw [notifyWait2_unnotified hobj hn] at h
            simp only [bind, Except.bind] at h
            cases h
    case ifEq i r n =>
      rw [runOp_ifEq] at h
      split at h <;> cases h

end

end Deadlock
end LoomVerif

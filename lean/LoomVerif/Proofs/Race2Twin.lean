/-
Race exactness on the WAIT fragment, part 3: the twin side, generalities.

* the scheduling points (`branch`, `yieldNow`, `blockNow`, the blocking half of `parkNow`, `threadDone`) keep
  causality, `released`, `unparkCaus`, the `park` token of every thread and only record / clear the pending
  operation of the active thread (`sched_frame` and its instances);
* the access bookkeeping of the scheduler does not touch any clock of an object (`*_touched2`);
* what `R2` says about the objects (`*_obj2`).
-/
import LoomVerif.Proofs.Race2Defs

namespace LoomVerif
namespace Race2
open Refine Refine2 Sy C07 C08 Clocks Race

/-! ### what the clock invariants read of a thread entry -/

def key5 (t : Thread) : VV × VV × Option Operation × VV × Bool :=
  (t.causality, t.released, t.operation, t.unparkCaus, t.token)

theorem key5_yield (l : List Thread) (nid i : Nat) :
    key5 ((l.mapIdx fun i th => if th.isYield && i != nid then th.setRunnable else th).getD i {}) =
      key5 (l.getD i {}) := by
  simp only [List.getD, List.getElem?_mapIdx]
  cases h : l[i]? with
  | none => rfl
  | some th =>
    simp only [Option.map_some, Option.getD_some]
    split <;> rfl

theorem key5_modify (l : List Thread) (nid i : Nat) (g : Thread → Thread) (hg : ∀ t, key5 (g t) = key5 t) :
    key5 ((l.modify nid g).getD i {}) = key5 (l.getD i {}) := by
  simp only [List.getD, List.getElem?_modify]
  cases h : l[i]? with
  | none => rfl
  | some th =>
    by_cases e : nid = i
    · simp [e, hg]
    · simp [e]

theorem key5_both (l : List Thread) (nid i : Nat) (g : Thread → Thread) (hg : ∀ t, key5 (g t) = key5 t) :
    key5 (((l.modify nid g).mapIdx fun i th => if th.isYield && i != nid then th.setRunnable else th).getD i {}) =
      key5 (l.getD i {}) := by
  rw [key5_yield, key5_modify _ _ _ _ hg]

theorem schedule_key5 {e e' : Exec} {b : Bool} {p : Bool} (h : e.schedule p = .ok (e', b)) (i : Nat) :
    key5 (e'.threads.get i) = key5 (e.threads.get i) := by
  unfold Exec.schedule at h
  simp only [bind, Except.bind, pure, Except.pure] at h
  repeat' split at h
  all_goals first
    | (cases h; done)
    | (cases h; rfl)
    | (cases h; exact key5_yield _ _ _)
    | (cases h; exact key5_both _ _ _ _ (fun _ => rfl))

/-! ### the access bookkeeping touches no clock -/

theorem hbOf_touched2 {x x' : Obj} (h : Touched2 x x') : hbOf x' = hbOf x := by cases h <;> rfl
theorem accOf_touched2 {x x' : Obj} (k : Bool) (h : Touched2 x x') : accOf k x' = accOf k x := by cases h <;> rfl
theorem ssOf_touched2 {x x' : Obj} (h : Touched2 x x') : ssOf x' = ssOf x := by cases h <;> rfl
theorem rsOf_touched2 {x x' : Obj} (h : Touched2 x x') : rsOf x' = rsOf x := by cases h <;> rfl

theorem touched2_length {os os' : List Obj} (h : ObjsTouched2 os os') : os.length ≤ os'.length := by
  apply Classical.byContradiction
  intro hn
  have hlt : os'.length < os.length := by omega
  obtain ⟨x', hx', _⟩ := h os'.length _ (List.getElem?_eq_getElem hlt)
  rw [List.getElem?_eq_none (Nat.le_refl _)] at hx'
  cases hx'

theorem objHb_touched2 {os os' : List Obj} (h : ObjsTouched2 os os') {n : Nat} (hn : n < os.length) :
    objHb os' n = objHb os n := by
  unfold objHb
  obtain ⟨x', hx', ht⟩ := h n _ (List.getElem?_eq_getElem hn)
  rw [hx', List.getElem?_eq_getElem hn]
  exact hbOf_touched2 ht

theorem objAcc_touched2 {os os' : List Obj} (h : ObjsTouched2 os os') (k : Bool) {n : Nat} (hn : n < os.length) :
    objAcc os' k n = objAcc os k n := by
  unfold objAcc
  obtain ⟨x', hx', ht⟩ := h n _ (List.getElem?_eq_getElem hn)
  rw [hx', List.getElem?_eq_getElem hn]
  exact accOf_touched2 k ht

theorem objSs_touched2 {os os' : List Obj} (h : ObjsTouched2 os os') {n : Nat} (hn : n < os.length) :
    objSs os' n = objSs os n := by
  unfold objSs
  obtain ⟨x', hx', ht⟩ := h n _ (List.getElem?_eq_getElem hn)
  rw [hx', List.getElem?_eq_getElem hn]
  exact ssOf_touched2 ht

theorem objRs_touched2 {os os' : List Obj} (h : ObjsTouched2 os os') {n : Nat} (hn : n < os.length) :
    objRs os' n = objRs os n := by
  unfold objRs
  obtain ⟨x', hx', ht⟩ := h n _ (List.getElem?_eq_getElem hn)
  rw [hx', List.getElem?_eq_getElem hn]
  exact rsOf_touched2 ht

theorem cellIdle_touched2 {os os' : List Obj} (h : ObjsTouched2 os os') {n : Nat} (hc : cellIdle os n) :
    cellIdle os' n := by
  obtain ⟨cs, h1, h2, h3⟩ := hc
  obtain ⟨x', hx', ht⟩ := h n _ h1
  cases ht
  exact ⟨cs, hx', h2, h3⟩

/-- the channel objects keep the one-clock-per-message shape -/
theorem chanShape_touched2 {os os' : List Obj} (h : ObjsTouched2 os os') {n : Nat}
    (hc : ∃ cs, os[n]? = some (.chan cs) ∧ cs.receiverSync.length = cs.queue.length) :
    ∃ cs, os'[n]? = some (.chan cs) ∧ cs.receiverSync.length = cs.queue.length := by
  obtain ⟨cs, h1, h2⟩ := hc
  obtain ⟨x', hx', ht⟩ := h n _ h1
  cases ht with
  | refl => exact ⟨cs, hx', h2⟩
  | chan _ a b => exact ⟨_, hx', h2⟩

/-! ### setting / appending objects -/

theorem objSs_set_ne (os : List Obj) {o n : Nat} (x : Obj) (h : n ≠ o) : objSs (os.set o x) n = objSs os n := by
  unfold objSs; rw [List.getElem?_set_ne (Ne.symm h)]

theorem objRs_set_ne (os : List Obj) {o n : Nat} (x : Obj) (h : n ≠ o) : objRs (os.set o x) n = objRs os n := by
  unfold objRs; rw [List.getElem?_set_ne (Ne.symm h)]

theorem objSs_set_self (os : List Obj) {o : Nat} (x : Obj) (h : o < os.length) : objSs (os.set o x) o = ssOf x := by
  unfold objSs; simp [h]

theorem objRs_set_self (os : List Obj) {o : Nat} (x : Obj) (h : o < os.length) : objRs (os.set o x) o = rsOf x := by
  unfold objRs; simp [h]

theorem objSs_of {os : List Obj} {n : Nat} {x : Obj} (h : os[n]? = some x) : objSs os n = ssOf x := by
  unfold objSs; rw [h]

theorem objRs_of {os : List Obj} {n : Nat} {x : Obj} (h : os[n]? = some x) : objRs os n = rsOf x := by
  unfold objRs; rw [h]

theorem objSs_append (os x : List Obj) {n : Nat} (h : n < os.length) : objSs (os ++ x) n = objSs os n := by
  unfold objSs; rw [List.getElem?_append_left h]

theorem objRs_append (os x : List Obj) {n : Nat} (h : n < os.length) : objRs (os ++ x) n = objRs os n := by
  unfold objRs; rw [List.getElem?_append_left h]

/-- setting an object to one with the same clocks -/
theorem objSs_set_same (os : List Obj) {o : Nat} {x x' : Obj} (hx : os[o]? = some x) (h : ssOf x' = ssOf x)
    (n : Nat) : objSs (os.set o x') n = objSs os n := by
  by_cases e : n = o
  · subst e
    rw [objSs_set_self _ _ (List.getElem?_eq_some_iff.1 hx).1, objSs_of hx, h]
  · exact objSs_set_ne _ _ e

theorem objRs_set_same (os : List Obj) {o : Nat} {x x' : Obj} (hx : os[o]? = some x) (h : rsOf x' = rsOf x)
    (n : Nat) : objRs (os.set o x') n = objRs os n := by
  by_cases e : n = o
  · subst e
    rw [objRs_set_self _ _ (List.getElem?_eq_some_iff.1 hx).1, objRs_of hx, h]
  · exact objRs_set_ne _ _ e

theorem objAcc_set_same (os : List Obj) (k : Bool) {o : Nat} {x x' : Obj} (hx : os[o]? = some x)
    (h : accOf k x' = accOf k x) (n : Nat) : objAcc (os.set o x') k n = objAcc os k n := by
  by_cases e : n = o
  · subst e
    rw [objAcc_set_self _ _ _ (List.getElem?_eq_some_iff.1 hx).1, objAcc_of k hx, h]
  · exact objAcc_set_ne _ _ _ e

/-! ### the scheduling points -/

def ttcaus (t : Thread) : VV := t.causality

/-- the thread entries after a scheduling point that first rewrites the entry of the active thread with `g` -/
theorem sched_frame {w : World} {g : Thread → Thread} {e : Exec} {b p : Bool}
    (h : ({ w.exec with threads := w.ths.modifyActive g } : Exec).schedule p = .ok (e, b)) (i : Nat) :
    key5 (e.threads.get i) =
      key5 (if w.tid = i ∧ i < nthr w then g (w.ths.get i) else w.ths.get i) := by
  rw [schedule_key5 h i]
  show key5 ((w.ths.modifyActive g).get i) = _
  unfold Threads.modifyActive
  rw [WB.get_modify]
  rfl

/-- what the readers of `Proofs/RaceTwin.lean` / `Race2Defs.lean` see after a step whose thread entries agree
with `th'` on `key5` -/
theorem readers_of_key5 {w' : World} {i : Nat} {t : Thread} (h : key5 (w'.ths.get i) = key5 t) :
    tcaus w' i = t.causality ∧ trel w' i = t.released ∧ topo w' i = t.operation.map (·.obj) ∧
    tuc w' i = t.unparkCaus ∧ ttok w' i = t.token := by
  unfold key5 at h
  simp only [Prod.mk.injEq] at h
  obtain ⟨h1, h2, h3, h4, h5⟩ := h
  unfold tcaus trel topo tuc ttok
  rw [h1, h2, h3, h4, h5]
  exact ⟨rfl, rfl, rfl, rfl, rfl⟩

/-- the five readers at once -/
structure SameThr (w w' : World) (i : Nat) : Prop where
  caus : tcaus w' i = tcaus w i
  rel : trel w' i = trel w i
  uc : tuc w' i = tuc w i
  tok : ttok w' i = ttok w i

theorem sameThr_of_key5 {w w' : World} {i : Nat} (h : key5 (w'.ths.get i) = key5 (w.ths.get i)) :
    SameThr w w' i ∧ topo w' i = topo w i := by
  obtain ⟨h1, h2, h3, h4, h5⟩ := readers_of_key5 h
  exact ⟨⟨h1, h2, h4, h5⟩, h3⟩

/-- a scheduling point: the clocks and tokens of all threads are kept; the pending operation of the active thread
becomes `op'`, the others are kept -/
structure SchedOut (w w' : World) (op' : Option Nat) : Prop where
  same : ∀ i, SameThr w w' i
  topo : ∀ i, topo w' i = if i = w.tid then op' else topo w i
  objs : ObjsTouched2 w.exec.objs w'.exec.objs
  len : nthr w' = nthr w

theorem schedOut_of {w w' : World} {g : Thread → Thread} {e : Exec} {b p : Bool} {op' : Option Nat}
    (h : ({ w.exec with threads := w.ths.modifyActive g } : Exec).schedule p = .ok (e, b))
    (hw' : w'.exec = e) (hin : w.tid < nthr w)
    (hg : ∀ t, (g t).causality = t.causality ∧ (g t).released = t.released ∧ (g t).unparkCaus = t.unparkCaus ∧
      (g t).token = t.token ∧ (g t).operation.map (·.obj) = op') : SchedOut w w' op' := by
  have hk := fun i => sched_frame h i
  have hget : ∀ i, w'.ths.get i = e.threads.get i := by intro i; unfold World.ths; rw [hw']
  refine ⟨?_, ?_, ?_, ?_⟩
  · intro i
    have := hk i
    rw [← hget] at this
    obtain ⟨h1, h2, h3, h4, h5⟩ := readers_of_key5 this
    by_cases e : w.tid = i ∧ i < nthr w
    · rw [if_pos e] at h1 h2 h4 h5
      obtain ⟨g1, g2, g3, g4, _⟩ := hg (w.ths.get i)
      exact ⟨h1.trans g1, h2.trans g2, h4.trans g3, h5.trans g4⟩
    · rw [if_neg e] at h1 h2 h4 h5
      exact ⟨h1, h2, h4, h5⟩
  · intro i
    have := hk i
    rw [← hget] at this
    obtain ⟨_, _, h3, _, _⟩ := readers_of_key5 this
    by_cases e : i = w.tid
    · subst e
      rw [if_pos ⟨rfl, hin⟩] at h3
      rw [if_pos rfl, h3]
      exact (hg _).2.2.2.2
    · rw [if_neg (fun hh => e hh.1.symm)] at h3
      rw [if_neg e, h3]; rfl
  · have := schedule_objs2 h
    rw [hw']; exact this
  · have := schedule_len h
    unfold nthr
    rw [hw', this]
    simp [World.ths, Threads.modifyActive, Threads.modify]

theorem branch_sched {w w' : World} {o : Nat} {a : Action} {blk wt : Bool}
    (h : w.branch o a blk wt = .ok w') (hin : w.tid < nthr w) : SchedOut w w' (some o) := by
  unfold World.branch at h
  simp only [bind, Except.bind, pure, Except.pure] at h
  split at h
  · cases h
  · next v hv =>
    cases h
    refine schedOut_of (e := v.1) (b := v.2) hv rfl hin ?_
    intro t
    cases blk <;> exact ⟨rfl, rfl, rfl, rfl, rfl⟩

theorem threadDone_sched {w w' : World} (h : w.threadDone = .ok w') (hin : w.tid < nthr w) :
    SchedOut w w' none := by
  unfold World.threadDone at h
  simp only [bind, Except.bind, pure, Except.pure] at h
  split at h
  · cases h
  · next v hv =>
    cases h
    exact schedOut_of (e := v.1) (b := v.2) hv rfl hin fun t => ⟨rfl, rfl, rfl, rfl, rfl⟩

theorem yieldNow_sched {w w' : World} (h : w.yieldNow = .ok w') (hin : w.tid < nthr w) :
    SchedOut w w' none := by
  unfold World.yieldNow at h
  simp only [bind, Except.bind, pure, Except.pure] at h
  split at h
  · cases h
  · next v hv =>
    cases h
    exact schedOut_of (e := v.1) (b := v.2) hv rfl hin fun t => ⟨rfl, rfl, rfl, rfl, rfl⟩

theorem blockNow_sched {w w' : World} (h : w.blockNow = .ok w') (hin : w.tid < nthr w) :
    SchedOut w w' none := by
  unfold World.blockNow at h
  simp only [bind, Except.bind, pure, Except.pure] at h
  split at h
  · cases h
  · next v hv =>
    cases h
    exact schedOut_of (e := v.1) (b := v.2) hv rfl hin fun t => ⟨rfl, rfl, rfl, rfl, rfl⟩

/-- the blocking half of `rt::park` (no stored token) -/
theorem parkNow_sched {w w' : World} (htok : w.ths.activeT.token = false) (h : w.parkNow = .ok w')
    (hin : w.tid < nthr w) : SchedOut w w' none := by
  unfold World.parkNow at h
  simp only [htok, Bool.false_eq_true, if_false, bind, Except.bind, pure, Except.pure] at h
  split at h
  · cases h
  · next v hv =>
    cases h
    exact schedOut_of (e := v.1) (b := v.2) hv rfl hin fun t => ⟨rfl, rfl, rfl, rfl, rfl⟩

/-! ### what `R2` says about the objects -/

section
variable {w : World} {d : SCData2}

theorem sp_lt2 (hR : R2 w d) {b j n : Nat} (h : (b, j, n) ∈ w.spawned) : n < w.exec.objs.length := by
  obtain ⟨_, _, nt, ds, hv, _⟩ := hR.c.o.y.sp b j n h
  exact objView2_lt hv

theorem sp_notify2 (hR : R2 w d) {b j n : Nat} (h : (b, j, n) ∈ w.spawned) :
    ∃ ns, w.exec.objs[n]? = some (.notify ns) ∧ ns.spurious = false := by
  obtain ⟨_, _, nt, ds, hv, _⟩ := hR.c.o.y.sp b j n h
  obtain ⟨ns, h1, h2, _⟩ := objView2_notify hv
  exact ⟨ns, h1, h2⟩

theorem mtx_obj2 (hR : R2 w d) {m : Nat} (hm : m < w.prog.cfg.nMutexes) :
    ∃ ms, w.exec.objs[w.mutexObj m]? = some (.mutex ms) := by
  obtain ⟨l, hv, _⟩ := hR.c.o.y.mtx m hm
  obtain ⟨ms, h1, _⟩ := objView2_mutex hv
  exact ⟨ms, h1⟩

theorem cell_obj2 (hR : R2 w d) {c : Nat} (hc : c < w.prog.cfg.nCells) :
    ∃ cs, w.exec.objs[w.cellObj c]? = some (.cell cs) := by
  obtain ⟨cs, h1, _⟩ := objView2_cell (hR.c.o.y.cell c hc)
  exact ⟨cs, h1⟩

theorem ntf_obj2 (hR : R2 w d) {n : Nat} (hn : n < w.prog.cfg.nNotifies) :
    ∃ ns, w.exec.objs[w.notifyObj n]? = some (.notify ns) ∧ ns.spurious = true ∧
      ns.notified = d.nFlag.getD n false := by
  obtain ⟨ds, hv, _⟩ := hR.c.o.n.n n hn
  obtain ⟨ns, h1, h2, h3, _⟩ := objView2_notify hv
  exact ⟨ns, h1, h2, h3⟩

theorem chan_obj2 (hR : R2 w d) {q : Nat} (hq : q < w.prog.cfg.nChans) :
    ∃ cs, w.exec.objs[w.chanObj q]? = some (.chan cs) := by
  obtain ⟨queue, hv, _⟩ := hR.c.o.ch.q q hq
  obtain ⟨cs, h1, _⟩ := objView2_chan hv
  exact ⟨cs, h1⟩

theorem cv_obj2 (hR : R2 w d) {v : Nat} (hv : v < w.prog.cfg.nCondvars) :
    ∃ cs, w.exec.objs[w.cvObj v]? = some (.condvar cs) := by
  obtain ⟨ws, hws, _⟩ := hR.c.o.cv.q v hv
  obtain ⟨cs, h1, _⟩ := objView2_condvar hws
  exact ⟨cs, h1⟩

theorem mtx_lt2 (hR : R2 w d) {m : Nat} (hm : m < w.prog.cfg.nMutexes) : w.mutexObj m < w.exec.objs.length := by
  obtain ⟨ms, h⟩ := mtx_obj2 hR hm
  exact (List.getElem?_eq_some_iff.1 h).1

theorem cell_lt2 (hR : R2 w d) {c : Nat} (hc : c < w.prog.cfg.nCells) : w.cellObj c < w.exec.objs.length := by
  obtain ⟨ms, h⟩ := cell_obj2 hR hc
  exact (List.getElem?_eq_some_iff.1 h).1

theorem ntf_lt2 (hR : R2 w d) {n : Nat} (hn : n < w.prog.cfg.nNotifies) : w.notifyObj n < w.exec.objs.length := by
  obtain ⟨ms, h, _⟩ := ntf_obj2 hR hn
  exact (List.getElem?_eq_some_iff.1 h).1

theorem chan_lt2 (hR : R2 w d) {q : Nat} (hq : q < w.prog.cfg.nChans) : w.chanObj q < w.exec.objs.length := by
  obtain ⟨ms, h⟩ := chan_obj2 hR hq
  exact (List.getElem?_eq_some_iff.1 h).1

theorem cv_lt2 (hR : R2 w d) {v : Nat} (hv : v < w.prog.cfg.nCondvars) : w.cvObj v < w.exec.objs.length := by
  obtain ⟨ms, h⟩ := cv_obj2 hR hv
  exact (List.getElem?_eq_some_iff.1 h).1

/-- a `JoinHandle` notify is none of the declared objects of the program: it is created with `spurious := false`
(the `Notify` objects of the DSL with `spurious := true`), and it is a notify -/
theorem sp_ne_ntf2 (hR : R2 w d) {b j n k : Nat} (h : (b, j, n) ∈ w.spawned) (hk : k < w.prog.cfg.nNotifies) :
    n ≠ w.notifyObj k := by
  intro e
  obtain ⟨ns, h1, h2⟩ := sp_notify2 hR h
  obtain ⟨ns', h3, h4, _⟩ := ntf_obj2 hR hk
  rw [e, h3] at h1; cases h1
  rw [h2] at h4; cases h4

theorem sp_ne_mtx2 (hR : R2 w d) {b j n m : Nat} (h : (b, j, n) ∈ w.spawned) (hm : m < w.prog.cfg.nMutexes) :
    n ≠ w.mutexObj m := by
  intro e
  obtain ⟨ns, h1, _⟩ := sp_notify2 hR h
  obtain ⟨ms, h2⟩ := mtx_obj2 hR hm
  rw [e, h2] at h1; cases h1

theorem sp_ne_cell2 (hR : R2 w d) {b j n c : Nat} (h : (b, j, n) ∈ w.spawned) (hc : c < w.prog.cfg.nCells) :
    n ≠ w.cellObj c := by
  intro e
  obtain ⟨ns, h1, _⟩ := sp_notify2 hR h
  obtain ⟨ms, h2⟩ := cell_obj2 hR hc
  rw [e, h2] at h1; cases h1

theorem sp_ne_chan2 (hR : R2 w d) {b j n q : Nat} (h : (b, j, n) ∈ w.spawned) (hq : q < w.prog.cfg.nChans) :
    n ≠ w.chanObj q := by
  intro e
  obtain ⟨ns, h1, _⟩ := sp_notify2 hR h
  obtain ⟨ms, h2⟩ := chan_obj2 hR hq
  rw [e, h2] at h1; cases h1

theorem sp_ne_cv2 (hR : R2 w d) {b j n v : Nat} (h : (b, j, n) ∈ w.spawned) (hv : v < w.prog.cfg.nCondvars) :
    n ≠ w.cvObj v := by
  intro e
  obtain ⟨ns, h1, _⟩ := sp_notify2 hR h
  obtain ⟨ms, h2⟩ := cv_obj2 hR hv
  rw [e, h2] at h1; cases h1

theorem nthr_eq2 (hR : R2 w d) : w.ctl.length = nthr w := hR.c.lenCtl

end

end Race2
end LoomVerif

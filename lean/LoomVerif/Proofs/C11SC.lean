/-
C11: the Arc steps of the reference machine `Spec/SC.lean` as equations, and the agreement of the
twin's effect stages with them on the counter component.
-/
import LoomVerif.Spec.SC
import LoomVerif.Proofs.C11Inv

namespace LoomVerif
namespace C11
open SC World

/-- the value the last completed operation of thread `t` returned, in the reference machine -/
def scRet (s : SC.St) (t : Nat) : Option Ret := (s.th t).rets.head?.map (·.2)

/-- the reference machine's strong count of arc `a` -/
def scCount (s : SC.St) (a : Nat) : Nat := (s.arcs.getD a (0, VV.zero)).1

theorem th_modTh (s : SC.St) (t : Nat) (f : SC.Th → SC.Th) (ht : t < s.ths.length) :
    (s.modTh t f).th t = f (s.th t) := by
  simp [SC.St.th, SC.St.modTh, List.getD_eq_getElem?_getD, ht]

theorem scRet_ret (s : SC.St) (t : Nat) (r : Ret) (ht : t < s.ths.length) :
    scRet (s.ret t r) t = some r := by
  simp [scRet, SC.St.ret, th_modTh s t _ ht]

@[simp] theorem length_tick (s : SC.St) (t : Nat) : (s.tick t).ths.length = s.ths.length := by
  simp [SC.St.tick, SC.St.modTh]

@[simp] theorem length_acquire (s : SC.St) (t : Nat) (c : VV) :
    (s.acquire t c).ths.length = s.ths.length := by
  simp [SC.St.acquire, SC.St.modTh]

theorem scCount_of_arcs {s s' : SC.St} {a n : Nat} {rel : VV} (h : s'.arcs = s.arcs.set a (n, rel))
    (ha : a < s.arcs.length) :
    scCount s' a = n ∧ ∀ b, b ≠ a → scCount s' b = scCount s b := by
  unfold scCount
  rw [h]
  constructor
  · simp [List.getD_eq_getElem?_getD, ha]
  · intro b hb
    simp [List.getD_eq_getElem?_getD, List.getElem?_set_ne (Ne.symm hb)]

theorem scCount_eq {s : SC.St} {a n : Nat} {rel : VV} (h : s.arcs[a]? = some (n, rel)) :
    scCount s a = n ∧ s.arcs.getD a (0, VV.zero) = (n, rel) ∧ a < s.arcs.length := by
  have hl : a < s.arcs.length := by
    rcases Nat.lt_or_ge a s.arcs.length with h' | h'
    · exact h'
    · rw [List.getElem?_eq_none h'] at h; cases h
  refine ⟨?_, ?_, hl⟩ <;> simp [scCount, List.getD_eq_getElem?_getD, h]

/-! ### the steps, as equations -/

section steps
variable (p : Prog) (s : St) (t hd a : Nat)

theorem step_arcClone (h2 : Nat) (hn : (s.th t).cvNotified = none)
    (hop : opOf p s t = some (.arcClone hd h2)) (ha : arcOf s hd = some a) :
    SC.step p s t =
      [({ (s.tick t) with
            arcs := s.arcs.set a ((s.arcs.getD a (0, VV.zero)).1 + 1, (s.arcs.getD a (0, VV.zero)).2)
            handles := (h2, a) :: s.handles.filter (·.1 != h2) }).ret t .unit] := by
  have ha' : arcOf (s.tick t) hd = some a := ha
  unfold SC.step
  simp only [hn, hop, ha']
  rfl

theorem step_arcInc (hn : (s.th t).cvNotified = none)
    (hop : opOf p s t = some (.arcInc hd)) (ha : arcOf s hd = some a) :
    SC.step p s t =
      [({ (s.tick t) with
            arcs := s.arcs.set a ((s.arcs.getD a (0, VV.zero)).1 + 1, (s.arcs.getD a (0, VV.zero)).2)
          }).ret t .unit] := by
  have ha' : arcOf (s.tick t) hd = some a := ha
  unfold SC.step
  simp only [hn, hop, ha']
  rfl

theorem step_arcDrop (hn : (s.th t).cvNotified = none) (hop : opOf p s t = some (.arcDrop hd))
    (ha : arcOf s hd = some a) :
    SC.step p s t =
      [({ (arcDec (s.tick t) t a).1 with
          handles := (arcDec (s.tick t) t a).1.handles.filter (·.1 != hd) }).ret t
            (bool01 (arcDec (s.tick t) t a).2)] := by
  have ha' : arcOf (s.tick t) hd = some a := ha
  unfold SC.step
  simp only [hn, hop, ha']

theorem step_arcDec (hn : (s.th t).cvNotified = none) (hop : opOf p s t = some (.arcDec hd))
    (ha : arcOf s hd = some a) :
    SC.step p s t =
      [(arcDec (s.tick t) t a).1.ret t (bool01 (arcDec (s.tick t) t a).2)] := by
  have ha' : arcOf (s.tick t) hd = some a := ha
  unfold SC.step
  simp only [hn, hop, ha']

theorem step_arcCount (hn : (s.th t).cvNotified = none) (hop : opOf p s t = some (.arcCount hd))
    (ha : arcOf s hd = some a) :
    SC.step p s t = [(s.tick t).ret t (.val (scCount s a))] := by
  have ha' : arcOf (s.tick t) hd = some a := ha
  unfold SC.step
  simp only [hn, hop, ha']
  rfl

theorem step_arcGetMut (hn : (s.th t).cvNotified = none) (hop : opOf p s t = some (.arcGetMut hd))
    (ha : arcOf s hd = some a) :
    SC.step p s t =
      if scCount s a = 1 then
        [((s.tick t).acquire t (s.arcs.getD a (0, VV.zero)).2).ret t (bool01 true)]
      else [(s.tick t).ret t (bool01 false)] := by
  have ha' : arcOf (s.tick t) hd = some a := ha
  rcases hx : s.arcs.getD a (0, VV.zero) with ⟨n, rel⟩
  have hx' : (s.tick t).arcs.getD a (0, VV.zero) = (n, rel) := hx
  unfold SC.step
  simp only [hn, hop, ha', hx', scCount, hx]
  by_cases h1 : n = 1 <;> simp [h1]

theorem step_arcUnwrap (hn : (s.th t).cvNotified = none) (hop : opOf p s t = some (.arcUnwrap hd))
    (ha : arcOf s hd = some a) :
    SC.step p s t =
      if scCount s a = 1 then
        [(({ (s.tick t) with
            arcs := s.arcs.set a (0, (s.arcs.getD a (0, VV.zero)).2)
            handles := s.handles.filter (·.1 != hd) }).acquire t
              (s.arcs.getD a (0, VV.zero)).2).ret t (.ok 0)]
      else [(s.tick t).ret t (.err 0)] := by
  have ha' : arcOf (s.tick t) hd = some a := ha
  rcases hx : s.arcs.getD a (0, VV.zero) with ⟨n, rel⟩
  have hx' : (s.tick t).arcs.getD a (0, VV.zero) = (n, rel) := hx
  unfold SC.step
  simp only [hn, hop, ha', hx', scCount, hx]
  by_cases h1 : n = 1
  · simp [h1]; rfl
  · simp [h1]

theorem step_arcPtrEq (h2 : Nat) (hn : (s.th t).cvNotified = none)
    (hop : opOf p s t = some (.arcPtrEq hd h2)) :
    SC.step p s t = [(s.tick t).ret t (bool01 (arcOf s hd == arcOf s h2))] := by
  unfold SC.step
  simp only [hn, hop]
  rfl

end steps

/-- the reference machine's decrement -/
theorem arcDec_eq (s : St) (t a n : Nat) (rel : VV) (hs : s.arcs[a]? = some (n, rel)) :
    arcDec s t a =
      if n = 0 then (s.stop (.misuse 2), false) else
      (if n = 1 then
        ({ s with arcs := s.arcs.set a (n - 1, rel.join (s.vc t)) }).acquire t (rel.join (s.vc t))
       else { s with arcs := s.arcs.set a (n - 1, rel.join (s.vc t)) }, decide (n = 1)) := by
  unfold arcDec
  simp only [hs]
  by_cases h0 : n = 0
  · simp [h0]
  · by_cases h1 : n = 1 <;> simp [h0, h1]

/-- … on the counter: −1, "was last" iff the count was 1 -/
theorem arcDec_count (s : St) (t a n : Nat) (rel : VV) (hs : s.arcs[a]? = some (n, rel))
    (h0 : n ≠ 0) :
    scCount (arcDec s t a).1 a = n - 1 ∧ (arcDec s t a).2 = decide (n = 1) ∧
      (∀ b, b ≠ a → scCount (arcDec s t a).1 b = scCount s b) ∧
      (arcDec s t a).1.ths.length = s.ths.length ∧ (arcDec s t a).1.verdict = s.verdict := by
  have hl := (scCount_eq hs).2.2
  rw [arcDec_eq s t a n rel hs]
  simp only [h0, if_false]
  by_cases h1 : n = 1
  · simp only [h1, if_true]
    have := scCount_of_arcs (s := s)
      (s' := ({ s with arcs := s.arcs.set a (1 - 1, rel.join (s.vc t)) }).acquire t
        (rel.join (s.vc t))) (a := a) (n := 1 - 1) (rel := rel.join (s.vc t)) rfl hl
    exact ⟨this.1, by simp, this.2, by simp, rfl⟩
  · simp only [h1, if_false]
    have := scCount_of_arcs (s := s)
      (s' := { s with arcs := s.arcs.set a (n - 1, rel.join (s.vc t)) }) (a := a) (n := n - 1)
      (rel := rel.join (s.vc t)) rfl hl
    exact ⟨this.1, by simp, this.2, trivial, trivial⟩

/-- on a released arc the reference machine stops with `misuse 2` -/
theorem sc_arcDec_released (s : St) (t a : Nat) (rel : VV) (hs : s.arcs[a]? = some (0, rel)) :
    (arcDec s t a).1.verdict = some (.misuse 2) := by
  rw [arcDec_eq s t a 0 rel hs]; rfl

/-! ### agreement of the twin with the reference machine, operation by operation -/

/-- thread `t` of the reference machine is about to execute `op` -/
structure ScAt (p : Prog) (sc : SC.St) (t : Nat) (op : Op) : Prop where
  notified : (sc.th t).cvNotified = none
  op : SC.opOf p sc t = some op
  thread : t < sc.ths.length

/-- the twin and the reference machine agree on the arc behind handle `h`: the handle names the
same allocation (both number allocations in creation order), the twin's `rt::Arc` object `s` has
the reference count of the reference machine, and the twin's bookkeeping invariant holds -/
structure ArcAgree (w : World) (sc : SC.St) (h : Nat) (hs : HandleSt) (s : ArcSt) : Prop where
  handle : w.handle h = .ok hs
  scHandle : SC.arcOf sc h = some hs.arc
  obj : w.getArc (w.arcInfo hs.arc).obj = .ok s
  inv : ArcInv w hs.arc s
  scKnown : hs.arc < sc.arcs.length
  count : s.refCnt = scCount sc hs.arc

section agree
variable {p : Prog} {w : World} {sc : SC.St} {c : TCtl} {t h : Nat} {hs : HandleSt} {s : ArcSt}

theorem clone_agrees (h2 : Nat) (ag : ArcAgree w sc h hs s) (hc : c.stage ≠ 0)
    (live : s.refCnt ≠ 0) (at_ : ScAt p sc t (.arcClone h h2)) :
    ∃ w' sc' s', w.runOp c (.arcClone h h2) = .ok w' ∧ SC.step p sc t = [sc'] ∧
      w'.getArc (w.arcInfo hs.arc).obj = .ok s' ∧ ArcInv w' hs.arc s' ∧
      s'.refCnt = s.refCnt + 1 ∧ s'.refCnt = scCount sc' hs.arc ∧
      retOf w' = scRet sc' t ∧
      w'.handle h2 = .ok { arc := hs.arc } ∧ SC.arcOf sc' h2 = some hs.arc := by
  obtain ⟨w', hw, hg, _, _, _, hh2, hr, hinv⟩ := arcClone_effect h2 ag.handle hc ag.obj
  have hst := step_arcClone p sc t h hs.arc h2 at_.notified at_.op ag.scHandle
  refine ⟨w', _, _, hw, hst, hg, hinv ag.inv live, rfl, ?_, ?_, hh2, ?_⟩
  · have := (scCount_of_arcs (s := sc) (s' := ({ (sc.tick t) with
            arcs := sc.arcs.set hs.arc ((sc.arcs.getD hs.arc (0, VV.zero)).1 + 1,
              (sc.arcs.getD hs.arc (0, VV.zero)).2)
            handles := (h2, hs.arc) :: sc.handles.filter (·.1 != h2) }).ret t .unit)
        rfl ag.scKnown).1
    rw [this, ag.count]; rfl
  · rw [hr, scRet_ret _ _ _ (by simpa using at_.thread)]
  · simp [SC.arcOf, SC.St.ret, SC.St.modTh]

theorem inc_agrees (ag : ArcAgree w sc h hs s) (hc : c.stage ≠ 0)
    (live : s.refCnt ≠ 0) (at_ : ScAt p sc t (.arcInc h)) :
    ∃ w' sc' s', w.runOp c (.arcInc h) = .ok w' ∧ SC.step p sc t = [sc'] ∧
      w'.getArc (w.arcInfo hs.arc).obj = .ok s' ∧ ArcInv w' hs.arc s' ∧
      s'.refCnt = s.refCnt + 1 ∧ s'.refCnt = scCount sc' hs.arc ∧
      retOf w' = scRet sc' t := by
  obtain ⟨w', hw, hg, _, _, _, hr, hinv⟩ := arcInc_effect ag.handle hc ag.obj
  have hst := step_arcInc p sc t h hs.arc at_.notified at_.op ag.scHandle
  refine ⟨w', _, _, hw, hst, hg, hinv ag.inv live, rfl, ?_, ?_⟩
  · have := (scCount_of_arcs (s := sc) (s' := ({ (sc.tick t) with
            arcs := sc.arcs.set hs.arc ((sc.arcs.getD hs.arc (0, VV.zero)).1 + 1,
              (sc.arcs.getD hs.arc (0, VV.zero)).2) }).ret t .unit)
        rfl ag.scKnown).1
    rw [this, ag.count]; rfl
  · rw [hr, scRet_ret _ _ _ (by simpa using at_.thread)]

/-- the entry of arc `a` in the reference state -/
theorem sc_entry (ag : ArcAgree w sc h hs s) (t : Nat) :
    (sc.tick t).arcs[hs.arc]? = some (s.refCnt, (sc.arcs.getD hs.arc (0, VV.zero)).2) := by
  have h1 : (sc.tick t).arcs = sc.arcs := rfl
  rw [h1, ag.count, scCount, List.getD_eq_getElem?_getD, List.getElem?_eq_getElem ag.scKnown]
  simp

theorem drop_agrees (ag : ArcAgree w sc h hs s) (hc : c.stage ≠ 0)
    (live : s.refCnt ≠ 0) (at_ : ScAt p sc t (.arcDrop h)) :
    ∃ w' sc' s', w.runOp c (.arcDrop h) = .ok w' ∧ SC.step p sc t = [sc'] ∧
      w'.getArc (w.arcInfo hs.arc).obj = .ok s' ∧ ArcInv w' hs.arc s' ∧
      s'.refCnt = s.refCnt - 1 ∧ s'.refCnt = scCount sc' hs.arc ∧
      retOf w' = scRet sc' t ∧ retOf w' = some (boolRet (decide (s.refCnt = 1))) ∧
      w'.handle h = .error (.internal 70) ∧ SC.arcOf sc' h = none := by
  obtain ⟨w', hw, hg, _, _, hh, hr, hinv, _⟩ := arcDrop_effect ag.handle hc ag.obj live ag.inv
  have hst := step_arcDrop p sc t h hs.arc at_.notified at_.op ag.scHandle
  obtain ⟨d1, d2, _, d4, _⟩ := arcDec_count (sc.tick t) t hs.arc s.refCnt _ (sc_entry ag t) live
  refine ⟨w', _, _, hw, hst, hg, hinv, rfl, ?_, ?_, hr, hh, ?_⟩
  · exact d1.symm
  · rw [hr, scRet_ret _ _ _ (by rw [d4]; simpa using at_.thread), d2]; rfl
  · have : ∀ (l : List (Nat × Nat)), (l.filter (·.1 != h)).lookup h = none := by
      intro l
      rw [List.lookup_eq_none_iff]
      intro q hq
      simp only [List.mem_filter, bne_iff_ne, ne_eq] at hq
      simpa using fun e => hq.2 e.symm
    exact this _

theorem dec_agrees (ag : ArcAgree w sc h hs s) (hc : c.stage ≠ 0)
    (live : s.refCnt ≠ 0) (at_ : ScAt p sc t (.arcDec h)) :
    ∃ w' sc' s', w.runOp c (.arcDec h) = .ok w' ∧ SC.step p sc t = [sc'] ∧
      w'.getArc (w.arcInfo hs.arc).obj = .ok s' ∧ ArcInv w' hs.arc s' ∧
      s'.refCnt = s.refCnt - 1 ∧ s'.refCnt = scCount sc' hs.arc ∧
      retOf w' = scRet sc' t ∧ retOf w' = some (boolRet (decide (s.refCnt = 1))) := by
  obtain ⟨w', hw, hg, _, _, hr, hinv, _⟩ := arcDec_effect ag.handle hc ag.obj live ag.inv
  have hst := step_arcDec p sc t h hs.arc at_.notified at_.op ag.scHandle
  obtain ⟨d1, d2, _, d4, _⟩ := arcDec_count (sc.tick t) t hs.arc s.refCnt _ (sc_entry ag t) live
  refine ⟨w', _, _, hw, hst, hg, hinv, rfl, ?_, ?_, hr⟩
  · exact d1.symm
  · rw [hr, scRet_ret _ _ _ (by rw [d4]; simpa using at_.thread), d2]; rfl

/-- on a released Arc: the twin panics "Arc is already released", the reference machine stops
with `misuse 2` -/
theorem drop_released_agrees (ag : ArcAgree w sc h hs s) (hc : c.stage ≠ 0)
    (dead : s.refCnt = 0) (at_ : ScAt p sc t (.arcDrop h)) :
    w.runOp c (.arcDrop h) = .error .arcReleased ∧
      ∃ sc', SC.step p sc t = [sc'] ∧ sc'.verdict = some (.misuse 2) := by
  refine ⟨arcDrop_released ag.handle hc ag.obj dead, _,
    step_arcDrop p sc t h hs.arc at_.notified at_.op ag.scHandle, ?_⟩
  have := sc_entry ag t
  rw [dead] at this
  exact sc_arcDec_released (sc.tick t) t hs.arc _ this

theorem count_agrees (ag : ArcAgree w sc h hs s) (hc : c.stage ≠ 0)
    (live : s.refCnt ≠ 0) (at_ : ScAt p sc t (.arcCount h)) :
    ∃ w' sc', w.runOp c (.arcCount h) = .ok w' ∧ SC.step p sc t = [sc'] ∧
      w'.exec.objs = w.exec.objs ∧ w'.arcs = w.arcs ∧ sc'.arcs = sc.arcs ∧
      retOf w' = scRet sc' t ∧ retOf w' = some (.val s.refCnt) := by
  obtain ⟨w', hw, hr, ho, ha, _⟩ := (arcCount_effect ag.handle hc ag.obj).2 live
  have hst := step_arcCount p sc t h hs.arc at_.notified at_.op ag.scHandle
  refine ⟨w', _, hw, hst, ho, ha, rfl, ?_, hr⟩
  rw [hr, scRet_ret _ _ _ (by simpa using at_.thread), ag.count]

theorem getMut_agrees (ag : ArcAgree w sc h hs s) (hc : c.stage ≠ 0)
    (live : s.refCnt ≠ 0) (at_ : ScAt p sc t (.arcGetMut h)) :
    ∃ w' sc', w.runOp c (.arcGetMut h) = .ok w' ∧ SC.step p sc t = [sc'] ∧
      w'.exec.objs = w.exec.objs ∧ w'.arcs = w.arcs ∧ sc'.arcs = sc.arcs ∧
      retOf w' = scRet sc' t ∧ retOf w' = some (boolRet (s.refCnt == 1)) := by
  obtain ⟨w', hw, hr, ho, ha, _⟩ := (arcGetMut_effect ag.handle hc ag.obj).2 live ag.inv.std
  have hst := step_arcGetMut p sc t h hs.arc at_.notified at_.op ag.scHandle
  by_cases h1 : s.refCnt = 1
  · have h1' : scCount sc hs.arc = 1 := by rw [← ag.count]; exact h1
    rw [if_pos h1'] at hst
    refine ⟨w', _, hw, hst, ho, ha, rfl, ?_, hr⟩
    rw [hr, scRet_ret _ _ _ (by simpa using at_.thread)]; simp [h1, boolRet, bool01]
  · have h1' : ¬ scCount sc hs.arc = 1 := by rw [← ag.count]; exact h1
    rw [if_neg h1'] at hst
    refine ⟨w', _, hw, hst, ho, ha, rfl, ?_, hr⟩
    rw [hr, scRet_ret _ _ _ (by simpa using at_.thread)]; simp [h1, boolRet, bool01]

/-- `try_unwrap` on a shared Arc: `Err` on both sides, nothing changes -/
theorem unwrap_shared_agrees (ag : ArcAgree w sc h hs s) (hc : c.stage = 1)
    (live : s.refCnt ≠ 0) (shared : s.refCnt ≠ 1) (at_ : ScAt p sc t (.arcUnwrap h)) :
    ∃ w' sc', w.runOp c (.arcUnwrap h) = .ok w' ∧ SC.step p sc t = [sc'] ∧
      w'.exec.objs = w.exec.objs ∧ w'.arcs = w.arcs ∧ w'.handles = w.handles ∧
      sc'.arcs = sc.arcs ∧ sc'.handles = sc.handles ∧
      retOf w' = scRet sc' t ∧ retOf w' = some (.err 0) := by
  obtain ⟨w', hw, hr, ho, ha, hh, _⟩ := (arcUnwrap_effect1 ag.handle hc ag.obj).2.1 live shared
  have hst := step_arcUnwrap p sc t h hs.arc at_.notified at_.op ag.scHandle
  have h1' : ¬ scCount sc hs.arc = 1 := by rw [← ag.count]; exact shared
  rw [if_neg h1'] at hst
  refine ⟨w', _, hw, hst, ho, ha, hh, rfl, rfl, ?_, hr⟩
  rw [hr, scRet_ret _ _ _ (by simpa using at_.thread)]

/-- `try_unwrap` on the only handle: the twin's second half (after its second branch point)
completes what the reference machine does in one step: count 0, handle consumed, `Ok` -/
theorem unwrap_unique_agrees (ag : ArcAgree w sc h hs s) (hc : c.stage = 2)
    (unique : s.refCnt = 1) (at_ : ScAt p sc t (.arcUnwrap h)) :
    ∃ w' sc' s', w.runOp c (.arcUnwrap h) = .ok w' ∧ SC.step p sc t = [sc'] ∧
      w'.getArc (w.arcInfo hs.arc).obj = .ok s' ∧ ArcInv w' hs.arc s' ∧
      s'.refCnt = 0 ∧ scCount sc' hs.arc = 0 ∧
      retOf w' = scRet sc' t ∧ retOf w' = some (.ok 0) ∧
      w'.handle h = .error (.internal 70) ∧ SC.arcOf sc' h = none := by
  obtain ⟨w', hw, hg, h0, _, hh, hr, hinv, _⟩ := arcUnwrap_effect2 ag.handle hc ag.obj unique ag.inv
  have hst := step_arcUnwrap p sc t h hs.arc at_.notified at_.op ag.scHandle
  have h1' : scCount sc hs.arc = 1 := by rw [← ag.count]; exact unique
  rw [if_pos h1'] at hst
  refine ⟨w', _, _, hw, hst, hg, hinv, h0, ?_, ?_, hr, hh, ?_⟩
  · exact (scCount_of_arcs (s := sc) (s' := (({ (sc.tick t) with
            arcs := sc.arcs.set hs.arc (0, (sc.arcs.getD hs.arc (0, VV.zero)).2)
            handles := sc.handles.filter (·.1 != h) }).acquire t
              (sc.arcs.getD hs.arc (0, VV.zero)).2).ret t (.ok 0)) rfl ag.scKnown).1
  · rw [hr, scRet_ret _ _ _ (by simpa using at_.thread)]
  · have : ∀ (l : List (Nat × Nat)), (l.filter (·.1 != h)).lookup h = none := by
      intro l
      rw [List.lookup_eq_none_iff]
      intro q hq
      simp only [List.mem_filter, bne_iff_ne, ne_eq] at hq
      simpa using fun e => hq.2 e.symm
    exact this _

/-- `ptr_eq` compares the allocations behind the two handles -/
theorem ptrEq_agrees (h2 : Nat) (hs2 : HandleSt) (hh : w.handle h = .ok hs)
    (hh2 : w.handle h2 = .ok hs2) (ha : SC.arcOf sc h = some hs.arc)
    (ha2 : SC.arcOf sc h2 = some hs2.arc) (at_ : ScAt p sc t (.arcPtrEq h h2)) :
    ∃ w' sc', w.runOp c (.arcPtrEq h h2) = .ok w' ∧ SC.step p sc t = [sc'] ∧
      w'.exec = w.exec ∧ sc'.arcs = sc.arcs ∧
      retOf w' = scRet sc' t ∧ retOf w' = some (boolRet (hs.arc == hs2.arc)) := by
  refine ⟨_, _, runOp_arcPtrEq w c h hs h2 hs2 hh hh2,
    step_arcPtrEq p sc t h h2 at_.notified at_.op, rfl, rfl, ?_, rfl⟩
  rw [scRet_ret _ _ _ (by simpa using at_.thread), ha, ha2]
  simp [retOf, boolRet, bool01]

end agree

end C11
end LoomVerif

/-
Soundness of the vector clocks of the reference semantics, part 4: the clock effect of a step as a FUNCTION of the
event (`newClock`, `nextVc`), so that the invariant proof treats all operations uniformly:
a ticking event sets its thread's clock to `tick ⊔ (clock of the object acquired from) ⊔ (clock of the joined thread)`,
a release joins it into the clock of the object, a `spawn` hands it (plus one tick of the child) to the child.
`AStepE.facts`: every step of the fragment has this form.
-/
import LoomVerif.Proofs.VCSoundHB

namespace LoomVerif
namespace VCSound
open Race (upd upd_self upd_ne get_zero zero_join join_zero)
open Clocks

/-- the object the event acquires from -/
def Event.acqOf (e : Event) : Option Obj :=
  match e.op with
  | some op =>
    match acqObjOf e.thr op with
    | some o => if isTry op then (if e.res = some (.val 1) then some o else none) else some o
    | none => none
  | none => none

def Event.joinOf (e : Event) : Option Nat := match e.op with | some (.join b) => some b | _ => none
/-- the object the event releases into -/
def Event.relOf (e : Event) : Option Obj := match e.op with | some op => relObjOf op | none => none
def Event.forkOf (e : Event) : Option Nat := match e.op with | some (.spawn b) => some b | _ => none

theorem Event.acqOf_iff {e : Event} {o : Obj} : e.acqOf = some o ↔ e.Acq o := by
  unfold Event.acqOf Event.Acq
  cases hop : e.op with
  | none => simp
  | some op =>
    simp only [Option.some.injEq, exists_eq_left']
    cases ha : acqObjOf e.thr op with
    | none => simp
    | some o' =>
      simp only [Option.some.injEq]
      by_cases ht : isTry op = true
      · rw [if_pos ht]
        by_cases hr : e.res = some (.val 1)
        · rw [if_pos hr]; simp [hr]
        · rw [if_neg hr]; simp [hr, ht]
      · rw [if_neg ht]; simp [ht]

theorem Event.joinOf_iff {e : Event} {b : Nat} : e.joinOf = some b ↔ e.op = some (.join b) := by
  unfold Event.joinOf; split
  · next h => simp [h]
  · next h => constructor
              · intro x; cases x
              · intro x; exact (h _ x).elim

theorem Event.relOf_iff {e : Event} {o : Obj} : e.relOf = some o ↔ e.Rel o := by
  unfold Event.relOf Event.Rel
  cases hop : e.op with
  | none => simp
  | some op => simp

theorem Event.forkOf_iff {e : Event} {b : Nat} : e.forkOf = some b ↔ e.op = some (.spawn b) := by
  unfold Event.forkOf; split
  · next h => simp [h]
  · next h => constructor
              · intro x; cases x
              · intro x; exact (h _ x).elim

/-- the channel the event takes a message out of -/
def Event.takeChan (e : Event) : Option Nat :=
  match e.op, e.res with
  | some (.recv q), _ => some q
  | some (.tryRecv q), some (.val _) => some q
  | _, _ => none

/-- the channel whose receiver the event drops -/
def Event.dropChan (e : Event) : Option Nat := match e.op with | some (.dropRx q) => some q | _ => none

theorem Event.takeChan_iff {e : Event} {q : Nat} : e.takeChan = some q ↔ e.takeOn q := by
  unfold Event.takeChan Event.takeOn
  split
  · next q' _ h => simp [h]
  · next q' x h1 h2 => simp [h1, h2]
  · next h1 h2 =>
    constructor
    · intro h; cases h
    · rintro (h | ⟨h, x, hx⟩)
      · exact (h1 _ h).elim
      · exact (h2 _ _ h hx).elim

theorem Event.dropChan_iff {e : Event} {q : Nat} : e.dropChan = some q ↔ e.dropOn q := by
  unfold Event.dropChan Event.dropOn; split
  · next h => simp [h]
  · next h => constructor
              · intro x; cases x
              · intro x; exact (h _ x).elim

def acqM (v : View) (e : Event) : VV := match e.acqOf with | some o => v.orel o | none => VV.zero
def acqJ (v : View) (e : Event) : VV := match e.joinOf with | some b => v.vc b | none => VV.zero
/-- the message clocks the event acquires: the oldest one (a take), all of them (`droprx`) -/
def acqC (v : View) (e : Event) : VV :=
  match e.takeChan with
  | some q => (v.chq q).head?.getD VV.zero
  | none => match e.dropChan with
    | some q => (v.chq q).foldl VV.join VV.zero
    | none => VV.zero

/-- the clock of the thread of the event after the event -/
def newClock (v : View) (e : Event) : VV :=
  if e.ticks then (((v.tk e.thr).join (acqM v e)).join (acqJ v e)).join (acqC v e) else v.vc e.thr

def nextVc (v : View) (e : Event) : Nat → VV :=
  match e.forkOf with
  | some b => upd (upd v.vc e.thr (newClock v e)) b (((upd v.vc e.thr (newClock v e) b).join (newClock v e)).inc b)
  | none => upd v.vc e.thr (newClock v e)

/-- nobody will acquire from the object any more: the token of a thread that has ended or does not exist; the sender
side of a channel whose receiver has been dropped -/
def Dead (p : Prog) (v : View) (o : Obj) : Prop :=
  (∃ u, o = .token u ∧ (v.finished u = true ∨ p.threads.length ≤ u)) ∨ (∃ q, o = .chan q ∧ v.rxd q = true)

/-- what the invariant proof needs to know about a step (`live`: the release of the step, if any, is recorded) -/
structure SF (p : Prog) (v : View) (e : Event) (v' : View) (live : Bool) : Prop where
  t5 : e.thr < 5
  lt : e.thr < p.threads.length
  started : v.started e.thr = true
  running : v.finished e.thr = false
  hop : opAt p e.thr (v.pc e.thr) = e.op
  vc : v'.vc = nextVc v e
  orel : ∀ o, v'.orel o = if e.relOf = some o ∧ live = true then (v.orel o).join (newClock v e) else v.orel o
  dead : live = false → ∀ o, e.relOf = some o → Dead p v o
  joinFin : ∀ b, e.joinOf = some b → v.finished b = true
  st : v'.started = match e.forkOf with | some b => upd v.started b true | none => v.started
  pcMono : ∀ u, v.pc u ≤ v'.pc u
  pcFork : ∀ b, e.forkOf = some b → v.pc e.thr < v'.pc e.thr
  forkPos : ∀ b, e.forkOf = some b → 0 < b
  finOld : ∀ u, v'.finished u = true → v.finished u = true ∨ u = e.thr
  finMono : ∀ u, v.finished u = true → v'.finished u = true
  chq : ∀ q, v'.chq q =
    if e.sendOn q ∧ live = true then v.chq q ++ [(v.crel q).join (newClock v e)]
    else if e.takeOn q then (v.chq q).tail else if e.dropOn q then [] else v.chq q
  rxd : ∀ q, v'.rxd q = (v.rxd q || decide (e.dropOn q))
  takeNe : ∀ q, e.takeOn q → v.chq q ≠ []
  sendLive : ∀ q, e.sendOn q → (live = true ↔ v.rxd q = false)

theorem upd_same' {α : Type} (f : Nat → α) (i : Nat) : upd f i (f i) = f := by
  funext j; unfold upd; split
  · next h => rw [h]
  · rfl

theorem upd_mono (f : Nat → Nat) (i x : Nat) (h : f i ≤ x) (u : Nat) : f u ≤ upd f i x u := by
  unfold upd; split
  · next e => rw [e]; exact h
  · exact Nat.le_refl _

theorem orel_setRel (v : View) (o o' : Obj) (X : VV) :
    (v.setRel o X).orel o' = if o' = o then X else v.orel o' := by
  cases o <;> cases o' <;> simp only [View.setRel, View.orel, Obj.mutex.injEq, Obj.rw.injEq, Obj.notify.injEq,
    Obj.token.injEq, Obj.chan.injEq, reduceCtorEq, if_false]
  all_goals (unfold upd; rfl)

theorem setRel_vc (v : View) (o : Obj) (X : VV) : (v.setRel o X).vc = v.vc := by cases o <;> rfl
theorem setRel_started (v : View) (o : Obj) (X : VV) : (v.setRel o X).started = v.started := by cases o <;> rfl
theorem setRel_finished (v : View) (o : Obj) (X : VV) : (v.setRel o X).finished = v.finished := by cases o <;> rfl
theorem setRel_pc (v : View) (o : Obj) (X : VV) : (v.setRel o X).pc = v.pc := by cases o <;> rfl
theorem setRel_cw (v : View) (o : Obj) (X : VV) : (v.setRel o X).cw = v.cw := by cases o <;> rfl
theorem setRel_cr (v : View) (o : Obj) (X : VV) : (v.setRel o X).cr = v.cr := by cases o <;> rfl
theorem setRel_verdict (v : View) (o : Obj) (X : VV) : (v.setRel o X).verdict = v.verdict := by cases o <;> rfl
theorem setRel_chq (v : View) (o : Obj) (X : VV) : (v.setRel o X).chq = v.chq := by cases o <;> rfl
theorem setRel_rxd (v : View) (o : Obj) (X : VV) : (v.setRel o X).rxd = v.rxd := by cases o <;> rfl

/-- the channel operations -/
def isChanOp : Op → Bool
  | .send .. | .recv _ | .tryRecv _ | .dropRx _ => true
  | _ => false

/-- an event of an operation that is not a channel operation -/
theorem noChan_facts {t : Nat} {op : Op} (h : isChanOp op = false) (res : Option Ret) :
    (∀ q, ¬ Event.sendOn ⟨t, some op, res⟩ q) ∧ (∀ q, ¬ Event.takeOn ⟨t, some op, res⟩ q) ∧
    (∀ q, ¬ Event.dropOn ⟨t, some op, res⟩ q) ∧ Event.takeChan ⟨t, some op, res⟩ = none ∧
    Event.dropChan ⟨t, some op, res⟩ = none := by
  cases op <;> simp [isChanOp] at h <;>
    simp [Event.sendOn, Event.takeOn, Event.dropOn, Event.takeChan, Event.dropChan]

/-- the channel part of `SF` for an event that is not a channel operation -/
theorem nochan_fields {v v' : View} {e : Event} (live : Bool) (h1 : ∀ q, ¬ e.sendOn q) (h2 : ∀ q, ¬ e.takeOn q)
    (h3 : ∀ q, ¬ e.dropOn q) (hq : v'.chq = v.chq) (hr : v'.rxd = v.rxd) :
    (∀ q, v'.chq q =
      if e.sendOn q ∧ live = true then v.chq q ++ [(v.crel q).join (newClock v e)]
      else if e.takeOn q then (v.chq q).tail else if e.dropOn q then [] else v.chq q) ∧
    (∀ q, v'.rxd q = (v.rxd q || decide (e.dropOn q))) ∧ (∀ q, e.takeOn q → v.chq q ≠ []) ∧
    (∀ q, e.sendOn q → (live = true ↔ v.rxd q = false)) := by
  refine ⟨fun q => ?_, fun q => ?_, fun q h => (h2 q h).elim, fun q h => (h1 q h).elim⟩
  · rw [if_neg (fun h => h1 q h.1), if_neg (h2 q), if_neg (h3 q), hq]
  · rw [hr]; simp [h3 q]

/-- an acquiring operation ticks and is no `join`, `spawn`, release or channel operation -/
theorem acqObj_facts {t : Nat} {op : Op} {o : Obj} (h : acqObjOf t op = some o) (res : Option Ret) :
    Event.ticks ⟨t, some op, res⟩ = true ∧ Event.joinOf ⟨t, some op, res⟩ = none ∧
    Event.forkOf ⟨t, some op, res⟩ = none ∧ relObjOf op = none ∧ isChanOp op = false := by
  cases op <;> simp [acqObjOf] at h <;> exact ⟨rfl, rfl, rfl, rfl, rfl⟩

theorem relObj_facts {t : Nat} {op : Op} {o : Obj} (h : relObjOf op = some o) (hns : ∀ q x, op ≠ .send q x)
    (res : Option Ret) :
    Event.ticks ⟨t, some op, res⟩ = true ∧ Event.joinOf ⟨t, some op, res⟩ = none ∧
    Event.forkOf ⟨t, some op, res⟩ = none ∧ acqObjOf t op = none ∧ isChanOp op = false := by
  cases op <;> simp [relObjOf] at h <;> first | exact ⟨rfl, rfl, rfl, rfl, rfl⟩ | exact (hns _ _ rfl).elim

theorem isTry_facts {t : Nat} {op : Op} (h : isTry op = true) (res : Option Ret) :
    Event.ticks ⟨t, some op, res⟩ = true ∧ Event.joinOf ⟨t, some op, res⟩ = none ∧
    Event.forkOf ⟨t, some op, res⟩ = none ∧ relObjOf op = none ∧ isChanOp op = false := by
  cases op <;> simp [isTry] at h <;> exact ⟨rfl, rfl, rfl, rfl, rfl⟩

theorem acqC_none {v : View} {e : Event} (h1 : e.takeChan = none) (h2 : e.dropChan = none) : acqC v e = VV.zero := by
  unfold acqC; rw [h1, h2]

theorem foldl_join (l : List VV) (a : VV) : l.foldl VV.join a = a.join (l.foldl VV.join VV.zero) := by
  induction l generalizing a with
  | nil => simp [join_zero]
  | cons x l ih =>
    simp only [List.foldl_cons]
    rw [ih (a.join x), ih (VV.zero.join x), zero_join, join_assoc]

theorem AStepE.facts {p : Prog} {t : Nat} {v v' : View} {op : Option Op} {res : Option Ret}
    (hlen : p.threads.length ≤ 5) (h : AStepE p t v op res v') : ∃ live, SF p v ⟨t, op, res⟩ v' live := by
  obtain ⟨hst, hrun, _, hlt, hop, hstep⟩ := h
  have t5 : t < 5 := Nat.lt_of_lt_of_le hlt hlen
  have pcm : ∀ x, v.pc t ≤ x → ∀ u, v.pc u ≤ upd v.pc t x u := fun x hx u => upd_mono _ _ _ hx u
  have norel : ∀ {e : Event} {v' : View} (live : Bool), e.relOf = none → v'.mrel = v.mrel → v'.rwrel = v.rwrel →
      v'.nrel = v.nrel → v'.tok = v.tok → v'.crel = v.crel →
      ∀ o, v'.orel o = if e.relOf = some o ∧ live = true then (v.orel o).join (newClock v e) else v.orel o := by
    intro e v' live he h1 h2 h3 h4 h5 o
    rw [he, if_neg (by simp)]
    cases o <;> simp only [View.orel, h1, h2, h3, h4, h5]
  have nodead : ∀ {e : Event}, true = false → ∀ o, e.relOf = some o → Dead p v o := fun h => by cases h
  cases hstep
  case fin =>
    have hnc : (∀ q, ¬ Event.sendOn ⟨t, none, res⟩ q) ∧ (∀ q, ¬ Event.takeOn ⟨t, none, res⟩ q) ∧
        (∀ q, ¬ Event.dropOn ⟨t, none, res⟩ q) := by
      simp [Event.sendOn, Event.takeOn, Event.dropOn]
    have nc := fun v' hq hr => nochan_fields (v := v) (v' := v') true hnc.1 hnc.2.1 hnc.2.2 hq hr
    refine ⟨true, t5, hlt, hst, hrun, hop, ?_, norel true rfl rfl rfl rfl rfl rfl, nodead, ?_, rfl,
      fun _ => Nat.le_refl _, ?_, ?_, ?_, ?_, (nc _ rfl rfl).1, (nc _ rfl rfl).2.1, (nc _ rfl rfl).2.2.1, (nc _ rfl rfl).2.2.2⟩
    · simp [nextVc, Event.forkOf, newClock, Event.ticks, upd_same']
    · intro b hb; cases hb
    · intro b hb; cases hb
    · intro b hb; cases hb
    · intro u hu
      show v.finished u = true ∨ u = t
      by_cases e : u = t
      · exact .inr e
      · left; simpa [upd, e] using hu
    · intro u hu
      show upd v.finished t true u = true
      unfold upd; split
      · rfl
      · exact hu
  case ifEq i r n k hk =>
    obtain ⟨n1, n2, n3, n4, n5⟩ := noChan_facts (t := t) (op := .ifEq i r n) rfl res
    have nc := fun v' hq hr => nochan_fields (v := v) (v' := v') true n1 n2 n3 hq hr
    refine ⟨true, t5, hlt, hst, hrun, hop, ?_, norel true rfl rfl rfl rfl rfl rfl, nodead, ?_, rfl,
      pcm _ (Nat.le_of_lt hk), ?_, ?_, fun _ hu => .inl hu, fun _ hu => hu, (nc _ rfl rfl).1, (nc _ rfl rfl).2.1, (nc _ rfl rfl).2.2.1, (nc _ rfl rfl).2.2.2⟩
    · simp [nextVc, Event.forkOf, newClock, Event.ticks, upd_same']
    · intro b hb; cases hb
    · intro b hb; cases hb
    · intro b hb; cases hb
  case acq op' o hacq htry =>
    obtain ⟨h1, h2, h3, h4, h5⟩ := acqObj_facts hacq res
    obtain ⟨n1, n2, n3, n4, n5⟩ := noChan_facts (t := t) h5 res
    have hao : Event.acqOf ⟨t, some op', res⟩ = some o := by
      unfold Event.acqOf
      simp only [hacq]
      by_cases hh : isTry op' = true
      · rw [if_pos hh, if_pos (htry hh)]
      · rw [if_neg hh]
    have nc := fun v' hq hr => nochan_fields (v := v) (v' := v') true n1 n2 n3 hq hr
    refine ⟨true, t5, hlt, hst, hrun, hop, ?_, norel true (by simp [Event.relOf, h4]) rfl rfl rfl rfl rfl,
      nodead, ?_, ?_, pcm _ (Nat.le_succ _), ?_, ?_, fun _ hu => .inl hu, fun _ hu => hu, (nc _ rfl rfl).1, (nc _ rfl rfl).2.1, (nc _ rfl rfl).2.2.1, (nc _ rfl rfl).2.2.2⟩
    · simp only [nextVc, h3, newClock, h1, if_true, acqM, hao, acqJ, h2, acqC_none n4 n5, join_zero]
    · intro b hb; rw [h2] at hb; cases hb
    · rw [h3]
    · intro b hb; rw [h3] at hb; cases hb
    · intro b hb; rw [h3] at hb; cases hb
  case tryFail op' htry hres =>
    obtain ⟨h1, h2, h3, h4, h5⟩ := isTry_facts (t := t) htry res
    obtain ⟨n1, n2, n3, n4, n5⟩ := noChan_facts (t := t) h5 res
    have hao : Event.acqOf ⟨t, some op', res⟩ = none := by
      unfold Event.acqOf
      simp only
      cases acqObjOf t op' with
      | none => rfl
      | some o => simp only; rw [if_pos htry, if_neg hres]
    have nc := fun v' hq hr => nochan_fields (v := v) (v' := v') true n1 n2 n3 hq hr
    refine ⟨true, t5, hlt, hst, hrun, hop, ?_, norel true (by simp [Event.relOf, h4]) rfl rfl rfl rfl rfl,
      nodead, ?_, ?_, pcm _ (Nat.le_succ _), ?_, ?_, fun _ hu => .inl hu, fun _ hu => hu, (nc _ rfl rfl).1, (nc _ rfl rfl).2.1, (nc _ rfl rfl).2.2.1, (nc _ rfl rfl).2.2.2⟩
    · simp only [nextVc, h3, newClock, h1, if_true, acqM, hao, acqJ, h2, acqC_none n4 n5, join_zero]
    · intro b hb; rw [h2] at hb; cases hb
    · rw [h3]
    · intro b hb; rw [h3] at hb; cases hb
    · intro b hb; rw [h3] at hb; cases hb
  case rel op' o hrel hns =>
    obtain ⟨h1, h2, h3, h4, h5⟩ := relObj_facts (t := t) hrel hns res
    obtain ⟨n1, n2, n3, n4, n5⟩ := noChan_facts (t := t) h5 res
    have hao : Event.acqOf ⟨t, some op', res⟩ = none := by
      unfold Event.acqOf; simp only [h4]
    have hnc : newClock v ⟨t, some op', res⟩ = v.tk t := by
      simp only [newClock, h1, if_true, acqM, hao, acqJ, h2, acqC_none n4 n5, join_zero]
    have nc' := nochan_fields (v := v)
      (v' := (({ v with vc := upd v.vc t (v.tk t), pc := upd v.pc t (v.pc t + 1) } : View).setRel o
        ((v.orel o).join (v.tk t)))) true n1 n2 n3 (by rw [setRel_chq]) (by rw [setRel_rxd])
    refine ⟨true, t5, hlt, hst, hrun, hop, ?_, ?_, nodead, ?_, ?_, ?_, ?_, ?_, ?_, ?_, nc'.1, nc'.2.1, nc'.2.2.1, nc'.2.2.2⟩
    · rw [setRel_vc]; simp only [nextVc, h3, hnc]
    · intro o'
      rw [orel_setRel, hnc]
      have hro : Event.relOf ⟨t, some op', res⟩ = some o := hrel
      rw [hro]
      by_cases ho : o' = o
      · subst ho; rw [if_pos rfl, if_pos ⟨rfl, rfl⟩]
      · rw [if_neg ho, if_neg (by intro hh; exact ho (Option.some.inj hh.1).symm)]
        cases o' <;> rfl
    · intro b hb; rw [h2] at hb; cases hb
    · rw [setRel_started, h3]
    · rw [setRel_pc]; exact pcm _ (Nat.le_succ _)
    · intro b hb; rw [h3] at hb; cases hb
    · intro b hb; rw [h3] at hb; cases hb
    · intro u hu; rw [setRel_finished] at hu; exact .inl hu
    · intro u hu; rw [setRel_finished]; exact hu
  case relDead u hd =>
    obtain ⟨n1, n2, n3, n4, n5⟩ := noChan_facts (t := t) (op := .unpark u) rfl res
    have hnc : newClock v ⟨t, some (.unpark u), res⟩ = v.tk t := by
      simp [newClock, Event.ticks, acqM, Event.acqOf, acqObjOf, acqJ, Event.joinOf, acqC_none n4 n5, join_zero]
    have nc := fun v' hq hr => nochan_fields (v := v) (v' := v') false n1 n2 n3 hq hr
    refine ⟨false, t5, hlt, hst, hrun, hop, ?_, ?_, ?_, ?_, rfl, pcm _ (Nat.le_succ _), ?_, ?_,
      fun _ hu => .inl hu, fun _ hu => hu, (nc _ rfl rfl).1, (nc _ rfl rfl).2.1, (nc _ rfl rfl).2.2.1, (nc _ rfl rfl).2.2.2⟩
    · simp only [nextVc, Event.forkOf, hnc]
    · intro o; rw [if_neg (by simp)]; cases o <;> rfl
    · intro _ o ho
      have : o = .token u := by
        simp only [Event.relOf, relObjOf, Option.some.injEq] at ho; exact ho.symm
      exact .inl ⟨u, this, hd⟩
    · intro b hb; cases hb
    · intro b hb; cases hb
    · intro b hb; cases hb
  case sendDead q x hd =>
    have hnc : newClock v ⟨t, some (.send q x), res⟩ = v.tk t := by
      simp [newClock, Event.ticks, acqM, Event.acqOf, acqObjOf, acqJ, Event.joinOf, acqC, Event.takeChan,
        Event.dropChan, join_zero]
    refine ⟨false, t5, hlt, hst, hrun, hop, ?_, ?_, ?_, ?_, rfl, pcm _ (Nat.le_succ _), ?_, ?_,
      fun _ hu => .inl hu, fun _ hu => hu, ?_, ?_, ?_, ?_⟩
    · simp only [nextVc, Event.forkOf, hnc]
    · intro o; rw [if_neg (by simp)]; cases o <;> rfl
    · intro _ o ho
      have : o = .chan q := by
        simp only [Event.relOf, relObjOf, Option.some.injEq] at ho; exact ho.symm
      exact .inr ⟨q, this, hd⟩
    · intro b hb; cases hb
    · intro b hb; cases hb
    · intro b hb; cases hb
    · intro q'
      rw [if_neg (by simp), if_neg (by simp [Event.takeOn]), if_neg (by simp [Event.dropOn])]
    · intro q'; simp [Event.dropOn]
    · intro q' h; simp [Event.takeOn] at h
    · intro q' ⟨x', hx'⟩
      cases hx'
      simp [hd]
  case send q x hd =>
    have hnc : newClock v ⟨t, some (.send q x), res⟩ = v.tk t := by
      simp [newClock, Event.ticks, acqM, Event.acqOf, acqObjOf, acqJ, Event.joinOf, acqC, Event.takeChan,
        Event.dropChan, join_zero]
    refine ⟨true, t5, hlt, hst, hrun, hop, ?_, ?_, nodead, ?_, rfl, pcm _ (Nat.le_succ _), ?_, ?_,
      fun _ hu => .inl hu, fun _ hu => hu, ?_, ?_, ?_, ?_⟩
    · simp only [nextVc, Event.forkOf, hnc]
    · intro o
      rw [hnc]
      have hro : Event.relOf ⟨t, some (.send q x), res⟩ = some (.chan q) := rfl
      rw [hro]
      by_cases ho : o = .chan q
      · subst ho; rw [if_pos ⟨rfl, rfl⟩]; exact upd_self _ _ _
      · rw [if_neg (by intro hh; exact ho (Option.some.inj hh.1).symm)]
        cases o <;> first | rfl | skip
        case chan q' =>
          have : q' ≠ q := fun h => ho (by rw [h])
          exact upd_ne _ _ this
    · intro b hb; cases hb
    · intro b hb; cases hb
    · intro b hb; cases hb
    · intro q'
      by_cases hq : q' = q
      · subst hq
        rw [if_pos ⟨⟨x, rfl⟩, rfl⟩, hnc]; exact upd_self _ _ _
      · rw [if_neg (by rintro ⟨⟨x', hx'⟩, _⟩; cases hx'; exact hq rfl), if_neg (by simp [Event.takeOn]),
          if_neg (by simp [Event.dropOn])]
        exact upd_ne _ _ hq
    · intro q'; simp [Event.dropOn]
    · intro q' h; simp [Event.takeOn] at h
    · intro q' ⟨x', hx'⟩
      cases hx'
      simp [hd]
  case take op' q X rest hhd hopq =>
    have hcl : op' = .recv q ∨ op' = .tryRecv q := hopq.imp id (·.1)
    have htk : Event.takeChan ⟨t, some op', res⟩ = some q := by
      rcases hopq with rfl | ⟨rfl, x, rfl⟩ <;> rfl
    have hfacts : Event.ticks ⟨t, some op', res⟩ = true ∧ Event.joinOf ⟨t, some op', res⟩ = none ∧
        Event.forkOf ⟨t, some op', res⟩ = none ∧ Event.relOf ⟨t, some op', res⟩ = none ∧
        Event.acqOf ⟨t, some op', res⟩ = none := by
      rcases hcl with rfl | rfl <;> exact ⟨rfl, rfl, rfl, rfl, rfl⟩
    obtain ⟨h1, h2, h3, h4, h5⟩ := hfacts
    have hnc : newClock v ⟨t, some op', res⟩ = (v.tk t).join X := by
      simp only [newClock, h1, if_true, acqM, h5, acqJ, h2, acqC, htk, hhd, List.head?_cons, Option.getD_some,
        join_zero]
    have htake : ∀ q', Event.takeOn ⟨t, some op', res⟩ q' ↔ q' = q := by
      intro q'
      rw [← Event.takeChan_iff, htk]
      constructor
      · intro h; exact (Option.some.inj h).symm
      · intro h; rw [h]
    have hnsend : ∀ q', ¬ Event.sendOn ⟨t, some op', res⟩ q' := by
      rintro q' ⟨x', hx'⟩
      rcases hcl with rfl | rfl <;> cases hx'
    have hndrop : ∀ q', ¬ Event.dropOn ⟨t, some op', res⟩ q' := by
      intro q' hx'
      rcases hcl with rfl | rfl <;> cases hx'
    refine ⟨true, t5, hlt, hst, hrun, hop, ?_, norel true h4 rfl rfl rfl rfl rfl, nodead, ?_, ?_,
      pcm _ (Nat.le_succ _), ?_, ?_, fun _ hu => .inl hu, fun _ hu => hu, ?_, ?_, ?_, ?_⟩
    · simp only [nextVc, h3, hnc]
    · intro b hb; rw [h2] at hb; cases hb
    · rw [h3]
    · intro b hb; rw [h3] at hb; cases hb
    · intro b hb; rw [h3] at hb; cases hb
    · intro q'
      rw [if_neg (fun h => hnsend q' h.1)]
      by_cases hq : q' = q
      · subst hq
        rw [if_pos ((htake _).2 rfl), hhd]; exact upd_self _ _ _
      · rw [if_neg (fun h => hq ((htake _).1 h)), if_neg (hndrop q')]
        exact upd_ne _ _ hq
    · intro q'; simp [hndrop q']
    · intro q' h
      rw [(htake _).1 h, hhd]; simp
    · intro q' h; exact (hnsend q' h).elim
  case recvEmpty q hemp =>
    have hnc : newClock v ⟨t, some (.tryRecv q), some .empty⟩ = v.tk t := by
      simp [newClock, Event.ticks, acqM, Event.acqOf, acqObjOf, acqJ, Event.joinOf, acqC, Event.takeChan,
        Event.dropChan, join_zero]
    have nc := fun v' hq hr => nochan_fields (v := v) (v' := v') (e := ⟨t, some (.tryRecv q), some .empty⟩) true (by simp [Event.sendOn]) (by simp [Event.takeOn]) (by simp [Event.dropOn]) hq hr
    refine ⟨true, t5, hlt, hst, hrun, hop, ?_, norel true rfl rfl rfl rfl rfl rfl, nodead, ?_, rfl,
      pcm _ (Nat.le_succ _), ?_, ?_, fun _ hu => .inl hu, fun _ hu => hu, (nc _ rfl rfl).1, (nc _ rfl rfl).2.1, (nc _ rfl rfl).2.2.1, (nc _ rfl rfl).2.2.2⟩
    · simp only [nextVc, Event.forkOf, hnc]
    · intro b hb; cases hb
    · intro b hb; cases hb
    · intro b hb; cases hb
  case drop q =>
    have hnc : newClock v ⟨t, some (.dropRx q), res⟩ = (v.chq q).foldl VV.join (v.tk t) := by
      simp only [newClock, Event.ticks, if_true, acqM, Event.acqOf, acqObjOf, acqJ, Event.joinOf, acqC,
        Event.takeChan, Event.dropChan, join_zero]
      rw [foldl_join (v.chq q) (v.tk t)]
    refine ⟨true, t5, hlt, hst, hrun, hop, ?_, norel true rfl rfl rfl rfl rfl rfl, nodead, ?_, rfl,
      pcm _ (Nat.le_succ _), ?_, ?_, fun _ hu => .inl hu, fun _ hu => hu, ?_, ?_, ?_, ?_⟩
    · simp only [nextVc, Event.forkOf, hnc]
    · intro b hb; cases hb
    · intro b hb; cases hb
    · intro b hb; cases hb
    · intro q'
      rw [if_neg (by simp [Event.sendOn]), if_neg (by simp [Event.takeOn])]
      by_cases hq : q' = q
      · subst hq
        have hd : Event.dropOn ⟨t, some (.dropRx q'), res⟩ q' := rfl
        rw [if_pos hd]; exact upd_self _ _ _
      · have hd : ¬ Event.dropOn ⟨t, some (.dropRx q), res⟩ q' := by intro h; cases h; exact hq rfl
        rw [if_neg hd]; exact upd_ne _ _ hq
    · intro q'
      by_cases hq : q' = q
      · subst hq
        have : Event.dropOn ⟨t, some (.dropRx q'), res⟩ q' := rfl
        simp only [this, decide_true, Bool.or_true]; exact upd_self _ _ _
      · have : ¬ Event.dropOn ⟨t, some (.dropRx q), res⟩ q' := by intro h; cases h; exact hq rfl
        simp only [this, decide_false, Bool.or_false]; exact upd_ne _ _ hq
    · intro q' h; simp [Event.takeOn] at h
    · intro q' h; simp [Event.sendOn] at h
  case spawn b hb0 =>
    obtain ⟨n1, n2, n3, n4, n5⟩ := noChan_facts (t := t) (op := .spawn b) rfl res
    have nc := fun v' hq hr => nochan_fields (v := v) (v' := v') true n1 n2 n3 hq hr
    refine ⟨true, t5, hlt, hst, hrun, hop, ?_, norel true rfl rfl rfl rfl rfl rfl, nodead, ?_, rfl,
      pcm _ (Nat.le_succ _), ?_, ?_, fun _ hu => .inl hu, fun _ hu => hu, (nc _ rfl rfl).1, (nc _ rfl rfl).2.1, (nc _ rfl rfl).2.2.1, (nc _ rfl rfl).2.2.2⟩
    · simp [nextVc, Event.forkOf, newClock, Event.ticks, acqM, acqJ, Event.acqOf, acqObjOf, Event.joinOf,
        acqC_none n4 n5, join_zero]
    · intro b hb; cases hb
    · intro b' _
      show v.pc t < upd v.pc t (v.pc t + 1) t
      rw [upd_self]; exact Nat.lt_succ_self _
    · intro b' hb'
      cases hb'; exact hb0
  case join b hfb =>
    obtain ⟨n1, n2, n3, n4, n5⟩ := noChan_facts (t := t) (op := .join b) rfl res
    have nc := fun v' hq hr => nochan_fields (v := v) (v' := v') true n1 n2 n3 hq hr
    refine ⟨true, t5, hlt, hst, hrun, hop, ?_, norel true rfl rfl rfl rfl rfl rfl, nodead, ?_, rfl,
      pcm _ (Nat.le_succ _), ?_, ?_, fun _ hu => .inl hu, fun _ hu => hu, (nc _ rfl rfl).1, (nc _ rfl rfl).2.1, (nc _ rfl rfl).2.2.1, (nc _ rfl rfl).2.2.2⟩
    · simp [nextVc, Event.forkOf, newClock, Event.ticks, acqM, acqJ, Event.acqOf, acqObjOf, Event.joinOf,
        acqC_none n4 n5, join_zero]
    · intro b' hb'; cases hb'; exact hfb
    · intro b hb; cases hb
    · intro b hb; cases hb
  case readRace c hle =>
    obtain ⟨n1, n2, n3, n4, n5⟩ := noChan_facts (t := t) (op := .cellRead c) rfl res
    have nc := fun v' hq hr => nochan_fields (v := v) (v' := v') true n1 n2 n3 hq hr
    refine ⟨true, t5, hlt, hst, hrun, hop, ?_, norel true rfl rfl rfl rfl rfl rfl, nodead, ?_, rfl,
      fun _ => Nat.le_refl _, ?_, ?_, fun _ hu => .inl hu, fun _ hu => hu, (nc _ rfl rfl).1, (nc _ rfl rfl).2.1, (nc _ rfl rfl).2.2.1, (nc _ rfl rfl).2.2.2⟩
    · simp [nextVc, Event.forkOf, newClock, Event.ticks, acqM, acqJ, Event.acqOf, acqObjOf, Event.joinOf,
        acqC_none n4 n5, join_zero]
    · intro b hb; cases hb
    · intro b hb; cases hb
    · intro b hb; cases hb
  case read c hle =>
    obtain ⟨n1, n2, n3, n4, n5⟩ := noChan_facts (t := t) (op := .cellRead c) rfl res
    have nc := fun v' hq hr => nochan_fields (v := v) (v' := v') true n1 n2 n3 hq hr
    refine ⟨true, t5, hlt, hst, hrun, hop, ?_, norel true rfl rfl rfl rfl rfl rfl, nodead, ?_, rfl,
      pcm _ (Nat.le_succ _), ?_, ?_, fun _ hu => .inl hu, fun _ hu => hu, (nc _ rfl rfl).1, (nc _ rfl rfl).2.1, (nc _ rfl rfl).2.2.1, (nc _ rfl rfl).2.2.2⟩
    · simp [nextVc, Event.forkOf, newClock, Event.ticks, acqM, acqJ, Event.acqOf, acqObjOf, Event.joinOf,
        acqC_none n4 n5, join_zero]
    · intro b hb; cases hb
    · intro b hb; cases hb
    · intro b hb; cases hb
  case writeRaceW c x hle =>
    obtain ⟨n1, n2, n3, n4, n5⟩ := noChan_facts (t := t) (op := .cellWrite c x) rfl res
    have nc := fun v' hq hr => nochan_fields (v := v) (v' := v') true n1 n2 n3 hq hr
    refine ⟨true, t5, hlt, hst, hrun, hop, ?_, norel true rfl rfl rfl rfl rfl rfl, nodead, ?_, rfl,
      fun _ => Nat.le_refl _, ?_, ?_, fun _ hu => .inl hu, fun _ hu => hu, (nc _ rfl rfl).1, (nc _ rfl rfl).2.1, (nc _ rfl rfl).2.2.1, (nc _ rfl rfl).2.2.2⟩
    · simp [nextVc, Event.forkOf, newClock, Event.ticks, acqM, acqJ, Event.acqOf, acqObjOf, Event.joinOf,
        acqC_none n4 n5, join_zero]
    · intro b hb; cases hb
    · intro b hb; cases hb
    · intro b hb; cases hb
  case writeRaceR c x hle hlr =>
    obtain ⟨n1, n2, n3, n4, n5⟩ := noChan_facts (t := t) (op := .cellWrite c x) rfl res
    have nc := fun v' hq hr => nochan_fields (v := v) (v' := v') true n1 n2 n3 hq hr
    refine ⟨true, t5, hlt, hst, hrun, hop, ?_, norel true rfl rfl rfl rfl rfl rfl, nodead, ?_, rfl,
      fun _ => Nat.le_refl _, ?_, ?_, fun _ hu => .inl hu, fun _ hu => hu, (nc _ rfl rfl).1, (nc _ rfl rfl).2.1, (nc _ rfl rfl).2.2.1, (nc _ rfl rfl).2.2.2⟩
    · simp [nextVc, Event.forkOf, newClock, Event.ticks, acqM, acqJ, Event.acqOf, acqObjOf, Event.joinOf,
        acqC_none n4 n5, join_zero]
    · intro b hb; cases hb
    · intro b hb; cases hb
    · intro b hb; cases hb
  case write c x hle hlr =>
    obtain ⟨n1, n2, n3, n4, n5⟩ := noChan_facts (t := t) (op := .cellWrite c x) rfl res
    have nc := fun v' hq hr => nochan_fields (v := v) (v' := v') true n1 n2 n3 hq hr
    refine ⟨true, t5, hlt, hst, hrun, hop, ?_, norel true rfl rfl rfl rfl rfl rfl, nodead, ?_, rfl,
      pcm _ (Nat.le_succ _), ?_, ?_, fun _ hu => .inl hu, fun _ hu => hu, (nc _ rfl rfl).1, (nc _ rfl rfl).2.1, (nc _ rfl rfl).2.2.1, (nc _ rfl rfl).2.2.2⟩
    · simp [nextVc, Event.forkOf, newClock, Event.ticks, acqM, acqJ, Event.acqOf, acqObjOf, Event.joinOf,
        acqC_none n4 n5, join_zero]
    · intro b hb; cases hb
    · intro b hb; cases hb
    · intro b hb; cases hb

end VCSound
end LoomVerif

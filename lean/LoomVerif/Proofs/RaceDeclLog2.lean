/-
End-to-end race exactness with a declarative reference side, part 4: the WAIT fragment — the reference trace is the
run of the twin (as `Proofs/RaceDeclLog.lean` for the lock fragment), as long as no `Notify` returns spuriously.

* `W.stepL_res`: every step of the wait fragment (on the data `SCData2`) records its label (`Res`);
* `HistL`: the reference state has a history (`Traced`, `RetsOk`), OR some `Notify` has used its spurious return
  (`SpurUsed`: then there is no `VCSound.Run`, which has no spurious step);
* `runLoop_log2`: `Race2.runLoop_clock2` with `HistL` for `SCExec2`;
* `wait_report`, `wait_completed`: the compositions, under `noSpur` of the final world (which excludes `SpurUsed`).
-/
import LoomVerif.Proofs.RaceDeclLog

namespace LoomVerif
namespace RaceDecl
open Refine Refine2 VCSound

/-! ## the wait fragment: every step does `Res` -/

namespace W

theorem th_modTh_self {d : SCData2} {t : Nat} (f : DTh2 → DTh2) (ht : t < d.ths.length) :
    (d.modTh t f).th t = f (d.th t) := getD_modify_self _ _ _ _ ht

theorem th_modTh_ne (d : SCData2) {t u : Nat} (f : DTh2 → DTh2) (h : u ≠ t) : (d.modTh t f).th u = d.th u :=
  getD_modify_ne _ _ _ _ _ h

theorem th_modTh_or (d : SCData2) (t u : Nat) (f : DTh2 → DTh2) :
    (d.modTh t f).th u = f (d.th u) ∨ (d.modTh t f).th u = d.th u := by
  by_cases e : u = t
  · subst e
    by_cases ht : u < d.ths.length
    · exact .inl (th_modTh_self f ht)
    · right
      have h1 : (d.ths.modify u f)[u]? = none := List.getElem?_eq_none (by simp; omega)
      have h2 : d.ths[u]? = none := List.getElem?_eq_none (by omega)
      simp [SCData2.modTh, SCData2.th, List.getD, h1, h2]
  · exact .inr (th_modTh_ne d f e)

/-- `X` has the threads of `d` as far as `rets` and `pc` go -/
structure Sim (d X : SCData2) : Prop where
  len : X.ths.length = d.ths.length
  th : ∀ u, (X.th u).rets = (d.th u).rets ∧ (X.th u).pc = (d.th u).pc

theorem Sim.of_ths {d X : SCData2} (h : X.ths = d.ths) : Sim d X :=
  ⟨by rw [h], fun u => by unfold SCData2.th; rw [h]; exact ⟨rfl, rfl⟩⟩

theorem Sim.modTh {d X : SCData2} (h : Sim d X) (b : Nat) {f : DTh2 → DTh2}
    (hf : ∀ x, (f x).rets = x.rets ∧ (f x).pc = x.pc) : Sim d (X.modTh b f) := by
  refine ⟨by simp [SCData2.modTh, h.len], fun u => ?_⟩
  rcases th_modTh_or X b u f with e | e
  · rw [e, (hf _).1, (hf _).2]; exact h.th u
  · rw [e]; exact h.th u

/-- a change of the other fields keeps `Sim` -/
theorem Sim.fields {d X Y : SCData2} (h : Sim d X) (e : Y.ths = X.ths) : Sim d Y :=
  ⟨by rw [e]; exact h.len, fun u => by unfold SCData2.th; rw [e]; exact h.th u⟩

theorem Sim.foldl {d : SCData2} (l : List Nat) {X : SCData2} (h : Sim d X) :
    Sim d (l.foldl (fun d w => d.modTh w SCData2.notifyTh) X) := by
  induction l generalizing X with
  | nil => exact h
  | cons x l ih => rw [List.foldl_cons]; exact ih (h.modTh x (fun _ => ⟨rfl, rfl⟩))

def ResD (d d' : SCData2) (t : Nat) (l : Option (Nat × Ret)) : Prop :=
  Res (fun u => (d.th u).rets) (fun u => (d'.th u).rets) (fun u => (d.th u).pc) (fun u => (d'.th u).pc) t l

theorem res_ret {d X : SCData2} {t : Nat} (r : Ret) (hs : Sim d X) (ht : t < d.ths.length) :
    ResD d (X.ret t r) t (some ((d.th t).pc, r)) := by
  have htX : t < X.ths.length := by rw [hs.len]; exact ht
  have e : (X.ret t r).th t = { X.th t with rets := ((X.th t).pc, r) :: (X.th t).rets, pc := (X.th t).pc + 1 } :=
    th_modTh_self _ htX
  refine ⟨rfl, ?_, ?_, fun u hu => ?_⟩
  · show ((X.ret t r).th t).rets = _
    rw [e]
    show ((X.th t).pc, r) :: (X.th t).rets = _
    rw [(hs.th t).1, (hs.th t).2]
  · show ((X.ret t r).th t).pc = _
    rw [e]
    show (X.th t).pc + 1 = _
    rw [(hs.th t).2]
  · show ((X.ret t r).th u).rets = _ ∧ ((X.ret t r).th u).pc = _
    have : (X.ret t r).th u = X.th u := th_modTh_ne X _ hu
    rw [this]; exact hs.th u

theorem res_mod {d X : SCData2} {t : Nat} {f : DTh2 → DTh2} (hs : Sim d X)
    (hf : ∀ x, (f x).rets = x.rets ∧ x.pc ≤ (f x).pc) : ResD d (X.modTh t f) t none := by
  intro u
  show ((X.modTh t f).th u).rets = _ ∧ _ ≤ ((X.modTh t f).th u).pc
  rcases th_modTh_or X t u f with e | e
  · rw [e, (hf _).1, (hs.th u).1]
    refine ⟨rfl, ?_⟩
    have := (hf (X.th u)).2
    rw [(hs.th u).2] at this
    exact this
  · rw [e, (hs.th u).1, (hs.th u).2]
    exact ⟨rfl, Nat.le_refl _⟩

/-- an enabled thread exists -/
theorem lt_of_enabled {p : Prog} {d : SCData2} {t : Nat} (h : SCData2.enabled p d t = true) : t < d.ths.length := by
  apply Classical.byContradiction
  intro hn
  have h2 : d.ths[t]? = none := List.getElem?_eq_none (by omega)
  have : d.th t = {} := by simp [SCData2.th, List.getD, h2]
  unfold SCData2.enabled at h
  rw [this] at h
  simp at h

/-- **every step of the wait fragment records its label** -/
theorem stepL_res {p : Prog} {d d' : SCData2} {t : Nat} {l : Option (Nat × Ret)} (ht : t < d.ths.length)
    (h : (l, d') ∈ SCData2.stepL p d t) : ResD d d' t l := by
  unfold SCData2.stepL at h
  simp only at h
  split at h
  · simp only [List.mem_singleton, Prod.mk.injEq] at h
    obtain ⟨rfl, rfl⟩ := h
    refine res_ret _ (Sim.modTh ?_ t (fun _ => ⟨rfl, rfl⟩)) ht
    exact Sim.of_ths rfl
  · split at h
    · simp only [List.mem_singleton, Prod.mk.injEq] at h
      obtain ⟨rfl, rfl⟩ := h
      exact res_mod (Sim.of_ths rfl) (fun _ => ⟨rfl, Nat.le_refl _⟩)
    · next op hop =>
      cases op <;> simp only [List.not_mem_nil] at h
      case spawn b =>
        simp only [List.mem_singleton, Prod.mk.injEq] at h
        obtain ⟨rfl, rfl⟩ := h
        exact res_ret _ (Sim.modTh (Sim.of_ths rfl) b (fun _ => ⟨rfl, rfl⟩)) ht
      case park =>
        simp only [List.mem_singleton, Prod.mk.injEq] at h
        obtain ⟨rfl, rfl⟩ := h
        exact res_ret _ (Sim.modTh (Sim.of_ths rfl) t (fun _ => ⟨rfl, rfl⟩)) ht
      case unpark u =>
        split at h <;> simp only [List.mem_singleton, Prod.mk.injEq] at h <;> obtain ⟨rfl, rfl⟩ := h
        · exact res_ret _ (Sim.of_ths rfl) ht
        · exact res_ret _ (Sim.modTh (Sim.of_ths rfl) u (fun _ => ⟨rfl, rfl⟩)) ht
      case ifEq i r n =>
        split at h <;> simp only [List.mem_singleton, Prod.mk.injEq] at h <;> obtain ⟨rfl, rfl⟩ := h
        · exact res_mod (Sim.of_ths rfl) (fun x => ⟨rfl, Nat.le_succ _⟩)
        · exact res_mod (Sim.of_ths rfl) (fun x => ⟨rfl, by show x.pc ≤ x.pc + 1 + n; omega⟩)
      case cvWait v m =>
        simp only [List.mem_singleton, Prod.mk.injEq] at h
        obtain ⟨rfl, rfl⟩ := h
        exact res_mod (Sim.of_ths rfl) (fun _ => ⟨rfl, Nat.le_refl _⟩)
      case cvOne v =>
        split at h <;> simp only [List.mem_singleton, Prod.mk.injEq] at h <;> obtain ⟨rfl, rfl⟩ := h
        · exact res_ret _ (Sim.of_ths rfl) ht
        · refine res_ret _ (Sim.modTh ?_ _ (fun _ => ⟨rfl, rfl⟩)) ht
          exact Sim.of_ths rfl
      case cvAll v =>
        simp only [List.mem_singleton, Prod.mk.injEq] at h
        obtain ⟨rfl, rfl⟩ := h
        exact res_ret _ ((Sim.foldl _ (Sim.of_ths rfl)).fields rfl) ht
      all_goals first
        | (simp only [List.mem_singleton, Prod.mk.injEq] at h
           obtain ⟨rfl, rfl⟩ := h
           exact res_ret _ (Sim.of_ths rfl) ht)
        | (split at h <;> simp only [List.mem_singleton, List.not_mem_nil, Prod.mk.injEq] at h <;>
            first
              | (obtain ⟨rfl, rfl⟩ := h; exact res_ret _ (Sim.of_ths rfl) ht)
              | exact h.elim)

end W

theorem resS_of_data2 {s s' : SC.St} {t : Nat} {l : Option (Nat × Ret)} (h : W.ResD (data2 s) (data2 s') t l) :
    ResS s s' t l := by
  unfold W.ResD at h
  simp only [data2_th] at h
  exact h

/-! ## the simulation along `runLoop`, with the trace -/

/-- the reference state has a history whose recorded results are the event log of `w`, or a spurious return of a
`Notify` has happened -/
def HistL (p : Prog) (w : World) (s : SC.St) : Prop := (Traced p w s ∧ RetsOk s) ∨ SpurUsed p s

/-- one reference step keeps `HistL` -/
theorem histL_step {p : Prog} {w w1 : World} {s s1 : SC.St} {t : Nat} {l : Option (Nat × Ret)} (hh : HistL p w s)
    (hfs : FragSt2 s) (hlen : s1.nSpurUsed.length = p.cfg.nNotifies)
    (hrs : Race2.RefStepSC p s t s1) (hl : RefStep p (data2 s) t l (data2 s1))
    (hev : w1.events.reverse.map triple = w.events.reverse.map triple ++ SCData.label t l) : HistL p w1 s1 := by
  have keep : SpurUsed p s → SpurUsed p s1 := by
    rintro ⟨n, hn, hu⟩
    refine ⟨n, hn, ?_⟩
    rcases hl with ⟨_, hst⟩ | hsp
    · have e : s1.nSpurUsed = s.nSpurUsed := stepL_nSpur hst
      rw [e]; exact hu
    · obtain ⟨m, _, hm⟩ := spuriousL_nSpur hsp
      have e : s1.nSpurUsed = s.nSpurUsed.set m true := hm
      rw [e]; exact getD_set_true _ _ _ hu
  have spur : ∀ {s2 : SC.St}, s2 = s1 → s2 ∈ SC.spurious p s t → SpurUsed p s1 := by
    rintro s2 rfl hsp
    obtain ⟨m, hm, e⟩ := spurious_nSpur (hfs.2 t).2 hsp
    refine ⟨m, ?_, ?_⟩
    · rw [← hlen, e]; simpa using hm
    · rw [e]; exact getD_set_self' _ _ _ _ hm
  rcases hh with ⟨⟨tr, htr, hlog⟩, hrk⟩ | hs
  · rcases hrs with ⟨hen, hst⟩ | hsp
    · rcases hl with ⟨hen', hst'⟩ | hsp'
      · obtain ⟨hrk1, hrec⟩ := res_consume hrk (resS_of_data2 (W.stepL_res (W.lt_of_enabled hen') hst'))
        exact .inl ⟨⟨_, .snoc htr hen hst, by rw [recorded_snoc, hrec, hev, hlog]⟩, hrk1⟩
      · -- the data step is a spurious return: the flag of some `Notify` is set in `s1`
        right
        obtain ⟨m, hm, e⟩ := spuriousL_nSpur hsp'
        have e' : s1.nSpurUsed = s.nSpurUsed.set m true := e
        have hm' : m < s.nSpurUsed.length := hm
        refine ⟨m, ?_, ?_⟩
        · rw [← hlen, e']; simpa using hm'
        · rw [e']; exact getD_set_self' _ _ _ _ hm'
    · exact .inr (spur rfl hsp)
  · exact .inr (keep hs)

/-- what a run of the twin from a related world amounts to in the reference semantics -/
def RunOutL2 (p : Prog) (w' : World) : Option Panic → Prop
  | none =>
    ∃ s', w'.prog = p ∧ HistL p w' s' ∧ Race2.RC2 w' s' ∧
      SCData2.Run2 p (data2 (SC.init p)) (w'.events.reverse.map triple) (data2 s')
  | some (.causality k) =>
    ∃ s' t, w'.prog = p ∧ HistL p w' s' ∧ Race2.RC2 w' s' ∧
      SCData2.Run2 p (data2 (SC.init p)) (w'.events.reverse.map triple) (data2 s') ∧
      t = Race.body w' w'.tid ∧ SC.enabled p s' t = true ∧ SC.step p s' t = [(s'.tick t).stop (.race k)]
  | some _ => True

open Race Race2 in
/-- `Race2.runLoop_clock2` with `HistL` for `SCExec2` -/
theorem runLoop_log2 (p : Prog) (hwf : WF3 p) :
    ∀ (fuel : Nat) (w w' : World) (s : SC.St) (r : Option Panic), w.prog = p → RC2 w s → InRange w →
      HistL p w s →
      SCData2.Run2 p (data2 (SC.init p)) (w.events.reverse.map triple) (data2 s) →
      okRun fuel w = true →
      World.runLoop fuel w = (w', r) → RunOutL2 p w' r := by
  intro fuel
  induction fuel with
  | zero =>
    intro w w' s r _ _ _ _ _ _ h
    simp only [World.runLoop] at h
    cases h
    trivial
  | succ fuel ih =>
    intro w w' s r hp hRC hrange hex hrun hok h
    unfold World.runLoop at h
    unfold okRun at hok
    split at h
    · cases h
      exact ⟨s, hp, hex, hRC, hrun⟩
    · next hact =>
      have hact' : w.ths.isActive = true := by simpa using hact
      have hin : w.tid < w.ctl.length := by rw [hRC.r.c.lenCtl]; exact hrange hact'
      have hwf' : WF3 w.prog := by rw [hp]; exact hwf
      rw [if_neg hact] at hok
      simp only [Bool.and_eq_true] at hok
      split at h
      · next e hstep =>
        cases h
        cases e <;> try trivial
        case causality k =>
          have hcell := causality_only_at_cells2 hwf' hRC hin hstep
          refine ⟨s, body w w.tid, hp, hex, hRC, hrun, rfl, ?_, ?_⟩
          · rw [← hp]; exact enabled_cell2 hwf'.1 hRC hin hcell
          · rw [← hp]
            rcases hcell with ⟨c, hop, hc⟩ | ⟨c, v, hop, hc⟩
            · exact (read_panics_iff_races2 hRC hin hop hc k).1 hstep
            · exact (write_panics_iff_races2 hRC hin hop hc k).1 hstep
      · next w1 hstep =>
        have hok1 : okRun fuel w1 = true := by
          have := hok.2
          rw [hstep] at this
          exact this
        have hr1 : InRange w1 := (step_sim2 hwf'.1 hRC.r hin hok.1 hstep).2
        obtain ⟨hp1, hsim⟩ := step_clock2 hwf' hRC hin hact' hok.1 hstep
        rcases hsim with ⟨hRC1, hev⟩ | ⟨s1, hrs, hRC1, l, hl, hev⟩
        · refine ih w1 w' s r (hp1.trans hp) hRC1 hr1 ?_ (by rw [hev]; exact hrun) hok1 h
          rcases hex with ⟨⟨tr, h1, h2⟩, h3⟩ | hs
          · exact .inl ⟨⟨tr, h1, by rw [hev]; exact h2⟩, h3⟩
          · exact .inr hs
        · rw [hp] at hrs hl
          have hlen : s1.nSpurUsed.length = p.cfg.nNotifies := by
            have := hRC1.r.c.o.n.lenS
            rw [hp1.trans hp] at this
            exact this
          have hex1 : HistL p w1 s1 := histL_step hex hRC.fs hlen hrs hl (triple_step hev)
          refine ih w1 w' s1 r (hp1.trans hp) hRC1 hr1 hex1 ?_ hok1 h
          rw [triple_step hev]
          rcases hl with ⟨hen, hst⟩ | hsp
          · exact SCData2.Run2.step hrun hen hst
          · exact SCData2.Run2.spur hrun hsp

/-! ## the compositions for the wait fragment -/

open Race2 in
/-- the twin run ended with the report `causality k` and no `Notify` has returned spuriously: the reference run
with history whose recorded results are the event log of the twin, the racing step, the declarative data race -/
theorem wait_report {prog : Prog} {exec : Exec} {w0 w : World} {fuel k : Nat}
    (hwf : WF3 prog) (hcv : NoCondvar prog) (hnt : prog.threads.length ≤ 5) (hfresh : FreshExec2 exec)
    (hinit : World.init prog exec = .ok w0) (hok : okRun fuel w0 = true)
    (hrun : World.runLoop fuel w0 = (w, some (.causality k))) (hns : noSpur w = true) :
    ∃ (tr : List Step) (s : SC.St) (t : Nat),
      Run prog tr s ∧ RC2 w s ∧ t = Race.body w w.tid ∧
      Run prog (tr ++ [⟨t, s, (s.tick t).stop (.race k)⟩]) ((s.tick t).stop (.race k)) ∧
      recorded (tr ++ [⟨t, s, (s.tick t).stop (.race k)⟩]) = w.events.reverse.map triple ∧
      ∃ (j : Nat) (a b : VCSound.Event), b.thr = t ∧
        DataRace (events prog (tr ++ [⟨t, s, (s.tick t).stop (.race k)⟩])) j tr.length a b ∧ RaceKind k a b := by
  obtain ⟨hRC, hp, hev⟩ := init_RC2 hwf hnt hfresh hinit
  have := runLoop_log2 prog hwf fuel w0 w (SC.init prog) _ hp hRC (init_inRange2 hfresh hinit)
    (.inl ⟨⟨[], .nil, by rw [hev]; rfl⟩, retsOk_init prog⟩) (by rw [hev]; exact SCData2.Run2.nil _) hok hrun
  obtain ⟨s, t, hpw, hex, hRC', _, ht, hen, hst⟩ := this
  rcases hex with ⟨⟨tr, htr, hlog⟩, hrk⟩ | hsp
  · have hmem : (s.tick t).stop (.race k) ∈ SC.step prog s t := by rw [hst]; exact List.mem_singleton.2 rfl
    obtain ⟨j, a, hdr, hkind⟩ := last_step_race (wfx_of_wf2 hwf.1 hcv) hnt htr hen hmem rfl
    refine ⟨tr, s, t, htr, hRC', ht, .snoc htr hen hmem, ?_, j, a, _, rfl, hdr, hkind⟩
    rw [recorded_snoc, stepRec_same hrk (race_rets s t t k), List.append_nil, hlog]
  · exact absurd (hpw ▸ hsp) (not_spurUsed_of_noSpur hRC' hns)

open Race2 in
/-- the twin run completed and no `Notify` has returned spuriously: the reference run with history whose recorded
results are the event log of the twin, declaratively race-free -/
theorem wait_completed {prog : Prog} {exec : Exec} {w0 w : World} {fuel : Nat}
    (hwf : WF3 prog) (hcv : NoCondvar prog) (hnt : prog.threads.length ≤ 5) (hfresh : FreshExec2 exec)
    (hinit : World.init prog exec = .ok w0) (hok : okRun fuel w0 = true)
    (hrun : World.runLoop fuel w0 = (w, none)) (hns : noSpur w = true) :
    ∃ (tr : List Step) (s : SC.St),
      Run prog tr s ∧ s.verdict = none ∧ RC2 w s ∧ recorded tr = w.events.reverse.map triple ∧
      RaceFree (events prog tr) := by
  obtain ⟨hRC, hp, hev⟩ := init_RC2 hwf hnt hfresh hinit
  have := runLoop_log2 prog hwf fuel w0 w (SC.init prog) _ hp hRC (init_inRange2 hfresh hinit)
    (.inl ⟨⟨[], .nil, by rw [hev]; rfl⟩, retsOk_init prog⟩) (by rw [hev]; exact SCData2.Run2.nil _) hok hrun
  obtain ⟨s, hpw, hex, hRC', _⟩ := this
  rcases hex with ⟨⟨tr, htr, hlog⟩, _⟩ | hsp
  · exact ⟨tr, s, htr, hRC'.fs.1, hRC', hlog,
      run_no_verdict_raceFree (wfx_of_wf2 hwf.1 hcv) hnt htr hRC'.fs.1⟩
  · exact absurd (hpw ▸ hsp) (not_spurUsed_of_noSpur hRC' hns)

end RaceDecl
end LoomVerif

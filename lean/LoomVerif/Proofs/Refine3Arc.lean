/-
Refinement, RESOURCE fragment, part 6: the simulation for the `Arc` operations.  The branch point of an operation
(stage 0; for `arcUnwrap` also the successful uniqueness test of stage 1) is a stuttering step; the effect stage is
matched by the reference step, with the same result.
-/
import LoomVerif.Proofs.Refine3Step2
import LoomVerif.Proofs.C11Inv

namespace LoomVerif
namespace Refine3
open Refine Sy C07 C08 C11

theorem viewLe_set_same {os : List Obj} {o : Nat} {x x' : Obj} (h : os[o]? = some x) (hv : view x' = view x) :
    ViewLe os (os.set o x') := by
  intro n v hn
  have ho : o < os.length := (List.getElem?_eq_some_iff.1 h).1
  by_cases e : n = o
  · subst e
    rw [objView_set_self _ ho, hv]
    rw [objView_of h] at hn
    exact hn
  · rw [objView_set_ne _ _ e]; exact hn

theorem handle_lookup {w : World} {h : Nat} {hs : HandleSt} (hh : w.handle h = .ok hs) :
    w.handles.lookup h = some hs := by
  unfold World.handle at hh
  split at hh
  · next x hx => cases hh; exact hx
  · cases hh

theorem boolRet_eq (b : Bool) : World.boolRet b = SC.bool01 b := rfl

section
variable {w w' : World} {s : SCData3}

/-- the effect stage of a resource operation: it completes with result `r`, the resource tables and objects have
changed consistently with the reference step -/
theorem sim_effect (hR : R3 w s) (hact : w.tid < w.ctl.length) {op : Op} (hop : opAt w = some op)
    (hl : ∀ m, op ≠ .lock m) (hj : ∀ b, op ≠ .join b) {w0 : World}
    (hctl : w0.ctl = w.ctl) (htid : w0.tid = w.tid) (hprog : w0.prog = w.prog) (hsp : w0.spawned = w.spawned)
    (hlen : w0.exec.threads.threads.length = w.exec.threads.threads.length) (hev : w0.events = w.events)
    {arcs' : List Nat} {handles' : List (Nat × Nat)} {tracks' : List (Nat × Bool)}
    (hy : RY w.prog w.ctl w.spawned w0.exec.objs s.cells s.mutex)
    (ha : RArc w0.exec.objs w0.handles w0.arcs arcs' handles')
    (ht : RTrk w.prog w0.exec.objs w0.tracks w0.rawAllocs tracks') (r : Ret)
    (hmem : (some ((s.th (w.ctlOf w.tid).body).pc, r),
      ({ s with arcs := arcs', handles := handles', tracks := tracks' } : SCData3).ret (w.ctlOf w.tid).body r) ∈
        SCData3.stepL w.prog s (w.ctlOf w.tid).body) :
    SimI w s (w0.complete r) := by
  have hin : w.tid < w.exec.threads.threads.length := by rw [← hR.lenCtl]; exact hact
  obtain ⟨_, hrel, hof⟩ := base3 hR hact
  refine ⟨⟨hprog, .inr ⟨_, _, enabled_plain3 hR hact hop hl hj, hmem, ?_, ?_⟩⟩,
    inRange_of (w' := w0.complete r) htid (Nat.le_of_eq hlen.symm) hin⟩
  · exact R3_complete (s := s) (cells' := s.cells) (mutex' := s.mutex) hR hact hop hctl htid hprog hsp hlen hy ha ht r
  · rw [events_complete', hev, htid,
      show w0.ctlOf w.tid = w.ctlOf w.tid by simp only [World.ctlOf, hctl], hrel.2.1]
    rfl

/-- a branch point of a resource operation -/
theorem sim_branch (hR : R3 w s) (hact : w.tid < w.ctl.length) {op : Op} (hop : opAt w = some op) {o : Nat}
    {a : Action} (h : (w.setStage 1).branch o a = .ok w') : SimI w s w' := by
  obtain ⟨hq, hc⟩ := branch_quiet3 h
  exact ⟨sim_stage hR hact hop 1 (one_le_maxStage _) (quiet3_setStage hq) hc, branch_inRange h⟩

/-! ### `refDecEffect`, `afterDec` -/

theorem refDec_obs {w w1 : World} {o : Nat} {st : ArcSt} {last : Bool}
    (hobj : w.exec.objs[o]? = some (.arc st)) (h : w.refDecEffect o = .ok (w1, last)) :
    st.refCnt ≠ 0 ∧ last = decide (st.refCnt = 1) ∧ w1.ctl = w.ctl ∧ w1.tid = w.tid ∧ w1.prog = w.prog ∧
    w1.spawned = w.spawned ∧ w1.events = w.events ∧
    w1.exec.threads.threads.length = w.exec.threads.threads.length ∧ frame w1 = frame w ∧
    ∃ st' : ArcSt, st'.refCnt = st.refCnt - 1 ∧ w1.exec.objs = w.exec.objs.set o (.arc st') := by
  rw [refDecEffect_eq w o st (getArc_of hobj)] at h
  by_cases h0 : st.refCnt = 0
  · simp [h0] at h
  · simp only [h0, if_false, Except.ok.injEq, Prod.mk.injEq] at h
    obtain ⟨hw, hl⟩ := h
    refine ⟨h0, hl.symm, ?_⟩
    by_cases h1 : st.refCnt = 1
    · simp only [h1, if_true] at hw
      subst hw
      refine ⟨rfl, ?_, rfl, rfl, rfl, ?_, rfl, _, rfl, rfl⟩
      · simp [World.tid, World.setThs, World.ths]
      · simp [World.setThs, World.ths]
    · simp only [h1, if_false] at hw
      subst hw
      exact ⟨rfl, rfl, rfl, rfl, rfl, rfl, rfl, _, rfl, rfl⟩

theorem afterDec_obs {w1 w2 : World} {a : Nat} {last : Bool} (h : w1.afterDec a last = .ok w2) :
    ∃ f : ArcInfo → ArcInfo, w2 = w1.modArc a f ∧ (f (w1.arcInfo a)).obj = (w1.arcInfo a).obj ∧
      (f (w1.arcInfo a)).stdCount = (w1.arcInfo a).stdCount - 1 := by
  rw [afterDec_eq] at h
  cases last with
  | false =>
    simp only [Bool.false_eq_true, if_false, Except.ok.injEq] at h
    exact ⟨_, h.symm, rfl, rfl⟩
  | true =>
    simp only [if_true] at h
    by_cases h1 : (w1.arcInfo a).stdCount = 1
    · cases h2 : (w1.arcInfo a).registered with
      | false => simp [h1, h2] at h
      | true =>
        simp only [h1, h2, ne_eq, not_true_eq_false, if_false, Bool.true_eq_false, Except.ok.injEq] at h
        exact ⟨_, h.symm, rfl, by simp [h1]⟩
    · simp [h1] at h

/-! ### the operations -/

theorem sim_arcNew (hR : R3 w s) (hact : w.tid < w.ctl.length) {h : Nat}
    (hop : opAt w = some (.arcNew h))
    (hrun : w.runOp (w.ctlOf w.tid) (.arcNew h) = .ok w') : SimI w s w' := by
  obtain ⟨_, hrel, hof⟩ := base3 hR hact
  rw [C11.runOp_arcNew] at hrun
  cases hrun
  refine sim_effect hR hact hop (by simp) (by simp) (by rfl) (by rfl) (by rfl) (by rfl) (by rfl) (by rfl)
    (arcs' := s.arcs ++ [1]) (handles' := SCData3.bind s.handles h s.arcs.length) (tracks' := s.tracks)
    ?_ ?_ ?_ .unit ?_
  · exact hR.y.viewLe (ViewLe.append _ _)
  · exact hR.a.new h
  · exact hR.t.congr (alloc_append_arc _ _)
  · unfold SCData3.stepL
    rw [hof, hop]
    exact List.mem_singleton.2 rfl

theorem sim_arcClone (hR : R3 w s) (hact : w.tid < w.ctl.length) {h h2 : Nat}
    (hop : opAt w = some (.arcClone h h2))
    (hrun : w.runOp (w.ctlOf w.tid) (.arcClone h h2) = .ok w') : SimI w s w' := by
  obtain ⟨_, hrel, hof⟩ := base3 hR hact
  cases hh : w.handle h with
  | error e => simp [World.runOp, hh] at hrun
  | ok hs =>
    obtain ⟨hsh, halt, hslt, st, hobj, hcnt, hstd⟩ := hR.a.handle (handle_lookup hh)
    by_cases hc : (w.ctlOf w.tid).stage = 0
    · rw [runOp_arcClone_stage0 w _ h hs h2 hh hc] at hrun
      exact sim_branch hR hact hop hrun
    · rw [runOp_arcClone_stage1 w _ h hs h2 st hh hc (getArc_of hobj)] at hrun
      cases hrun
      refine sim_effect hR hact hop (by simp) (by simp) (by rfl) (by rfl) (by rfl) (by rfl) (by rfl) (by rfl)
        (arcs' := s.arcs.set hs.arc (s.arcs.getD hs.arc 0 + 1)) (handles' := SCData3.bind s.handles h2 hs.arc)
        (tracks' := s.tracks) ?_ ?_ ?_ .unit ?_
      · exact hR.y.viewLe (viewLe_set_same hobj rfl)
      · exact (hR.a.setCount halt _ _ (by show AV.arc (st.refCnt + 1) = _; rw [hcnt]) _ rfl
          (by show (w.arcs.getD hs.arc dfltArc).stdCount + 1 = _; rw [hstd])).bindH h2 { arc := hs.arc }
            (by simpa using halt)
      · exact hR.t.congr (alloc_set_arc hobj _)
      · unfold SCData3.stepL
        rw [hof, hop]
        simp only []
        rw [show SCData3.arcOf s h = some hs.arc from hsh]
        exact List.mem_singleton.2 rfl

theorem sim_arcInc (hR : R3 w s) (hact : w.tid < w.ctl.length) {h : Nat}
    (hop : opAt w = some (.arcInc h))
    (hrun : w.runOp (w.ctlOf w.tid) (.arcInc h) = .ok w') : SimI w s w' := by
  obtain ⟨_, hrel, hof⟩ := base3 hR hact
  cases hh : w.handle h with
  | error e => simp [World.runOp, hh] at hrun
  | ok hs =>
    obtain ⟨hsh, halt, hslt, st, hobj, hcnt, hstd⟩ := hR.a.handle (handle_lookup hh)
    by_cases hc : (w.ctlOf w.tid).stage = 0
    · rw [runOp_arcInc_stage0 w _ h hs hh hc] at hrun
      split at hrun
      · cases hrun
      · exact sim_branch hR hact hop hrun
    · rw [runOp_arcInc_stage1 w _ h hs st hh hc (getArc_of hobj)] at hrun
      cases hrun
      refine sim_effect hR hact hop (by simp) (by simp) (by rfl) (by rfl) (by rfl) (by rfl) (by rfl) (by rfl)
        (arcs' := s.arcs.set hs.arc (s.arcs.getD hs.arc 0 + 1)) (handles' := s.handles)
        (tracks' := s.tracks) ?_ ?_ ?_ .unit ?_
      · exact hR.y.viewLe (viewLe_set_same hobj rfl)
      · exact hR.a.setCount halt _ _ (by show AV.arc (st.refCnt + 1) = _; rw [hcnt]) _ rfl
          (by show (w.arcs.getD hs.arc dfltArc).stdCount + 1 = _; rw [hstd])
      · exact hR.t.congr (alloc_set_arc hobj _)
      · unfold SCData3.stepL
        rw [hof, hop]
        simp only []
        rw [show SCData3.arcOf s h = some hs.arc from hsh]
        exact List.mem_singleton.2 rfl

theorem sim_arcCount (hR : R3 w s) (hact : w.tid < w.ctl.length) {h : Nat}
    (hop : opAt w = some (.arcCount h))
    (hrun : w.runOp (w.ctlOf w.tid) (.arcCount h) = .ok w') : SimI w s w' := by
  obtain ⟨_, hrel, hof⟩ := base3 hR hact
  cases hh : w.handle h with
  | error e => simp [World.runOp, hh] at hrun
  | ok hs =>
    obtain ⟨hsh, halt, hslt, st, hobj, hcnt, hstd⟩ := hR.a.handle (handle_lookup hh)
    by_cases hc : (w.ctlOf w.tid).stage = 0
    · rw [runOp_arcCount_stage0 w _ h hs hh hc] at hrun
      exact sim_branch hR hact hop hrun
    · rw [runOp_arcCount_stage1 w _ h hs st hh hc (getArc_of hobj)] at hrun
      split at hrun
      · cases hrun
      · cases hrun
        rw [hcnt]
        refine sim_effect hR hact hop (by simp) (by simp) (w0 := w.setThs (w.ths.syncLoad st.sync .sc))
          (by rfl) (by simp [World.tid, World.setThs, World.ths]) (by rfl) (by rfl) (by simp [World.setThs, World.ths])
          (by rfl)
          (arcs' := s.arcs) (handles' := s.handles) (tracks' := s.tracks) hR.y hR.a hR.t _ ?_
        unfold SCData3.stepL
        rw [hof, hop]
        simp only []
        rw [show SCData3.arcOf s h = some hs.arc from hsh]
        exact List.mem_singleton.2 rfl

theorem sim_arcGetMut (hR : R3 w s) (hact : w.tid < w.ctl.length) {h : Nat}
    (hop : opAt w = some (.arcGetMut h))
    (hrun : w.runOp (w.ctlOf w.tid) (.arcGetMut h) = .ok w') : SimI w s w' := by
  obtain ⟨_, hrel, hof⟩ := base3 hR hact
  cases hh : w.handle h with
  | error e => simp [World.runOp, hh] at hrun
  | ok hs =>
    obtain ⟨hsh, halt, hslt, st, hobj, hcnt, hstd⟩ := hR.a.handle (handle_lookup hh)
    by_cases hc : (w.ctlOf w.tid).stage = 0
    · rw [runOp_arcGetMut_stage0 w _ h hs hh hc] at hrun
      exact sim_branch hR hact hop hrun
    · rw [runOp_arcGetMut_stage1 w _ h hs st hh hc (getArc_of hobj)] at hrun
      split at hrun
      · cases hrun
      · split at hrun
        · cases hrun
        · cases hrun
          rw [hcnt, boolRet_eq]
          refine sim_effect hR hact hop (by simp) (by simp) (w0 := w.setThs (w.ths.syncLoad st.sync .acq))
            (by rfl) (by simp [World.tid, World.setThs, World.ths]) (by rfl) (by rfl) (by simp [World.setThs, World.ths])
            (by rfl)
            (arcs' := s.arcs) (handles' := s.handles) (tracks' := s.tracks) hR.y hR.a hR.t _ ?_
          unfold SCData3.stepL
          rw [hof, hop]
          simp only []
          rw [show SCData3.arcOf s h = some hs.arc from hsh]
          exact List.mem_singleton.2 rfl

theorem sim_arcPtrEq (hR : R3 w s) (hact : w.tid < w.ctl.length) {h h2 : Nat}
    (hop : opAt w = some (.arcPtrEq h h2))
    (hrun : w.runOp (w.ctlOf w.tid) (.arcPtrEq h h2) = .ok w') : SimI w s w' := by
  obtain ⟨_, hrel, hof⟩ := base3 hR hact
  cases hh : w.handle h with
  | error e => simp [World.runOp, hh] at hrun
  | ok hs =>
    cases hh2 : w.handle h2 with
    | error e => simp [World.runOp, hh, hh2] at hrun
    | ok hs2 =>
      rw [runOp_arcPtrEq w _ h hs h2 hs2 hh hh2] at hrun
      cases hrun
      have e1 : SCData3.arcOf s h = some hs.arc := (hR.a.handle (handle_lookup hh)).1
      have e2 : SCData3.arcOf s h2 = some hs2.arc := (hR.a.handle (handle_lookup hh2)).1
      have e : World.boolRet (hs.arc == hs2.arc) = SC.bool01 (SCData3.arcOf s h == SCData3.arcOf s h2) := by
        rw [e1, e2, boolRet_eq]
        congr 1
      rw [e]
      refine sim_effect hR hact hop (by simp) (by simp) (w0 := w) (by rfl) (by rfl) (by rfl) (by rfl) (by rfl) (by rfl)
        (arcs' := s.arcs) (handles' := s.handles) (tracks' := s.tracks) hR.y hR.a hR.t _ ?_
      unfold SCData3.stepL
      rw [hof, hop]
      exact List.mem_singleton.2 rfl

theorem sim_arcIntoRaw (hR : R3 w s) (hact : w.tid < w.ctl.length) {h : Nat}
    (hop : opAt w = some (.arcIntoRaw h))
    (hrun : w.runOp (w.ctlOf w.tid) (.arcIntoRaw h) = .ok w') : SimI w s w' := by
  obtain ⟨_, hrel, hof⟩ := base3 hR hact
  cases hh : w.handle h with
  | error e => simp [World.runOp, hh] at hrun
  | ok hs =>
    rw [runOp_arcIntoRaw w _ h hs hh] at hrun
    cases hrun
    refine sim_effect hR hact hop (by simp) (by simp) (w0 := w.setHandle h (some { hs with raw := true })) (by rfl) (by rfl) (by rfl) (by rfl) (by rfl) (by rfl)
      (arcs' := s.arcs) (handles' := s.handles) (tracks' := s.tracks) hR.y ?_ hR.t _ ?_
    · exact hR.a.rawH h hs _ (handle_lookup hh) rfl
    · unfold SCData3.stepL
      rw [hof, hop]
      exact List.mem_singleton.2 rfl

theorem sim_arcFromRaw (hR : R3 w s) (hact : w.tid < w.ctl.length) {h : Nat}
    (hop : opAt w = some (.arcFromRaw h))
    (hrun : w.runOp (w.ctlOf w.tid) (.arcFromRaw h) = .ok w') : SimI w s w' := by
  obtain ⟨_, hrel, hof⟩ := base3 hR hact
  cases hh : w.handle h with
  | error e => simp [World.runOp, hh] at hrun
  | ok hs =>
    rw [runOp_arcFromRaw w _ h hs hh] at hrun
    split at hrun
    · cases hrun
    · cases hrun
      refine sim_effect hR hact hop (by simp) (by simp) (w0 := w.setHandle h (some { hs with raw := false }))
        (by rfl) (by rfl) (by rfl) (by rfl) (by rfl) (by rfl)
        (arcs' := s.arcs) (handles' := s.handles) (tracks' := s.tracks) hR.y ?_ hR.t _ ?_
      · exact hR.a.rawH h hs _ (handle_lookup hh) rfl
      · unfold SCData3.stepL
        rw [hof, hop]
        exact List.mem_singleton.2 rfl

end

end Refine3
end LoomVerif

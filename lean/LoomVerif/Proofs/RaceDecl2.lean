/-
End-to-end race exactness with a declarative reference side, part 2: the WAIT fragment (`Props/Race2.lean`).

Two gaps between `Props/Race2.lean` and `Props/VCSound.lean` are closed here:
* condvars: `Race2.WF3` has them, `VCSound.WFX` does not — `NoCondvar p` (decidable) excludes them, and then
  `WF2 p → WFX p` (`wfx_of_wf2`);
* the spurious return of `nWait`: an execution `Refine2.SCExec2` may contain `spur` steps, a `VCSound.Run` has none.
  The simulation along `World.runLoop` is redone in `Proofs/RaceDeclLog2.lean` carrying "the reference state has a
  history `VCSound.Run`, OR some `Notify` has used its spurious return" (`SpurUsed`); the second alternative is
  excluded by a check of the FINAL world of the twin: no `Notify` object has `didSpur` set (`noSpur`, computable) —
  `nSpurUsed` of the reference is never reset (`stepL_nSpur`) and is tied to `didSpur` by the relation
  (`Refine2.RN`, `not_spurUsed_of_noSpur`).
-/
import LoomVerif.Proofs.RaceDecl
import LoomVerif.Props.Race2

namespace LoomVerif
namespace RaceDecl
open Refine Refine2 VCSound

/-! ## the common fragment: no condvars -/

def isCv : Op → Bool
  | .cvWait .. | .cvOne _ | .cvAll _ => true
  | _ => false

/-- the program has no condvar operation (`cvWait`, `cvOne`, `cvAll`): `Props/VCSound.lean` does not cover them -/
def NoCondvar (p : Prog) : Prop :=
  ∀ a, a < p.threads.length → ∀ k, k < (p.threads.getD a []).length →
    ((p.threads.getD a [])[k]?.all fun op => !isCv op) = true

instance (p : Prog) : Decidable (NoCondvar p) := by unfold NoCondvar; infer_instance

/-- a program of the wait fragment without condvars is a program of the fragment of `Props/VCSound.lean` -/
theorem wfx_of_wf2 {p : Prog} (h : WF2 p) (hc : NoCondvar p) : WFX p := by
  refine ⟨h.1, ?_, h.2.2.1, h.2.2.2⟩
  intro a ha k hk
  have h1 := h.2.1 a ha k hk
  have h2 := hc a ha k hk
  cases ho : (p.threads.getD a [])[k]? with
  | none => rfl
  | some op =>
    rw [ho] at h1 h2
    simp only [Option.all_some] at h1 h2 ⊢
    cases op <;> first | exact h1 | (exfalso; revert h2; simp [isCv]; done) |
      (exfalso; revert h1; simp [Refine2.opOk]; done)

/-! ## the spurious flag of the reference is never reset -/

theorem foldl_notify_nSpur (l : List Nat) (d : SCData2) :
    (l.foldl (fun d w => d.modTh w SCData2.notifyTh) d).nSpurUsed = d.nSpurUsed := by
  induction l generalizing d with
  | nil => rfl
  | cons x l ih => rw [List.foldl_cons, ih]; rfl

/-- a step of `SC.step` (on the data) does not touch the spurious flags -/
theorem stepL_nSpur {p : Prog} {d d' : SCData2} {t : Nat} {l : Option (Nat × Ret)}
    (h : (l, d') ∈ SCData2.stepL p d t) : d'.nSpurUsed = d.nSpurUsed := by
  unfold SCData2.stepL at h
  simp only at h
  split at h
  · simp only [List.mem_singleton, Prod.mk.injEq] at h
    rw [h.2]; rfl
  · split at h
    · simp only [List.mem_singleton, Prod.mk.injEq] at h
      rw [h.2]; rfl
    · next op hop =>
      cases op <;> simp only [List.not_mem_nil] at h
      case cvAll v =>
        simp only [List.mem_singleton, Prod.mk.injEq] at h
        rw [h.2]
        exact foldl_notify_nSpur _ _
      all_goals first
        | (simp only [List.mem_singleton, Prod.mk.injEq] at h; rw [h.2]; rfl)
        | (split at h <;> simp only [List.mem_singleton, List.not_mem_nil, Prod.mk.injEq] at h <;>
            first | (rw [h.2]; rfl) | exact h.elim)

/-- a spurious return sets the flag of a declared `Notify` (and resets none) -/
theorem spuriousL_nSpur {p : Prog} {d d' : SCData2} {t : Nat} {l : Option (Nat × Ret)}
    (h : (l, d') ∈ SCData2.spuriousL p d t) :
    ∃ n, n < d.nSpurUsed.length ∧ d'.nSpurUsed = d.nSpurUsed.set n true := by
  unfold SCData2.spuriousL at h
  simp only at h
  split at h
  · cases h
  · split at h
    · next n hop =>
      split at h
      · next hu =>
        simp only [List.mem_singleton, Prod.mk.injEq] at h
        refine ⟨n, ?_, by rw [h.2]; rfl⟩
        apply Classical.byContradiction
        intro hn
        have : d.nSpurUsed[n]? = none := List.getElem?_eq_none (by omega)
        simp [List.getD, this] at hu
      · cases h
    · cases h

/-- some declared `Notify` has used its spurious return -/
def SpurUsed (p : Prog) (s : SC.St) : Prop := ∃ n, n < p.cfg.nNotifies ∧ s.nSpurUsed.getD n true = true

theorem getD_set_true (l : List Bool) (n m : Nat) (h : l.getD m true = true) : (l.set n true).getD m true = true := by
  by_cases e : m = n
  · subst e
    by_cases hm : m < l.length
    · exact getD_set_self' _ _ _ _ hm
    · have : (l.set m true)[m]? = none := List.getElem?_eq_none (by simp; omega)
      simp [List.getD, this]
  · rw [getD_set_ne _ _ _ _ _ e]; exact h

/-- a spurious return (of a thread outside `block_on`) sets the flag of a `Notify` -/
theorem spurious_nSpur {p : Prog} {s s1 : SC.St} {t : Nat} (hph : (s.th t).phase = 0)
    (hsp : s1 ∈ SC.spurious p s t) : ∃ n, n < s.nSpurUsed.length ∧ s1.nSpurUsed = s.nSpurUsed.set n true := by
  unfold SC.spurious at hsp
  simp only at hsp
  split at hsp
  · cases hsp
  · split at hsp
    · next n hop =>
      split at hsp
      · next hu =>
        simp only [List.mem_singleton] at hsp
        refine ⟨n, ?_, by rw [hsp]; rfl⟩
        apply Classical.byContradiction
        intro hn
        have : s.nSpurUsed[n]? = none := List.getElem?_eq_none (by omega)
        simp [List.getD, this] at hu
      · cases hsp
    · split at hsp
      · next hc =>
        rw [hph] at hc
        simp at hc
      · cases hsp
    · cases hsp

/-! ## the check of the final world -/

/-- **no `Notify` of the program has taken its spurious return** (computable on a world of the twin): every `Notify`
object of the DSL has `didSpur = false` -/
def noSpur (w : World) : Bool :=
  (List.range w.prog.cfg.nNotifies).all fun n =>
    match objView2 w.exec.objs (notifyIdx w.prog n) with
    | some (.notify _ _ ds) => !ds
    | _ => false

theorem not_spurUsed_of_noSpur {w : World} {s : SC.St} (hRC : Race2.RC2 w s) (h : noSpur w = true) :
    ¬ SpurUsed w.prog s := by
  rintro ⟨n, hn, hu⟩
  have hall := List.all_eq_true.1 h n (List.mem_range.2 hn)
  obtain ⟨ds, hv, _, _, h2, h3⟩ := hRC.r.c.o.n.n n hn
  rw [hv] at hall
  simp only [Bool.not_eq_eq_eq_not, Bool.not_true] at hall
  subst hall
  have hnone : ∀ i, i < w.ctl.length → pendN w.prog (w.ctl.getD i {}) ≠ some (n, 2) := by
    intro i hi hp
    have := (h2 i hi hp).1
    cases this
  have := h3 hnone
  have hu' : (data2 s).nSpurUsed.getD n true = true := hu
  rw [← this] at hu'
  cases hu'

end RaceDecl
end LoomVerif

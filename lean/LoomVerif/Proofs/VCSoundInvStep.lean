/-
Soundness of the vector clocks of the reference semantics, part 6: the invariant `Inv` is preserved by every step
(`Ctx.step`, on the view), holds initially, and hence holds along every run of a well-formed program with at most five
threads (`Run.inv`).
-/
import LoomVerif.Proofs.VCSoundInv
import LoomVerif.Proofs.VCSoundView

namespace LoomVerif
namespace VCSound
open Race (upd upd_self upd_ne get_zero zero_join join_zero)
open Clocks
open Refine (WF)

section
variable {p : Prog} {evs : List Event} {cl : List VV} {v v' : View} {e : Event} {live : Bool}

theorem snoc_both {j : Nat} {a : Event} {c0 V : VV} (hlen : cl.length = evs.length)
    (h1 : (evs ++ [e])[j]? = some a) (h2 : (cl ++ [V])[j]? = some c0) :
    (evs[j]? = some a ∧ cl[j]? = some c0) ∨ (j = evs.length ∧ a = e ∧ c0 = V) := by
  rcases getElem?_snoc.1 h1 with h | ⟨hj, ha⟩
  · left
    refine ⟨h, ?_⟩
    have : j < cl.length := by rw [hlen]; exact (List.getElem?_eq_some_iff.1 h).1
    rw [List.getElem?_append_left this] at h2
    exact h2
  · right
    refine ⟨hj, ha, ?_⟩
    rcases getElem?_snoc.1 h2 with h | ⟨_, hc⟩
    · have := (List.getElem?_eq_some_iff.1 h).1
      omega
    · exact hc

theorem snoc_last : (evs ++ [e])[evs.length]? = some e := by
  rw [List.getElem?_append_right (Nat.le_refl _)]; simp

theorem Ctx.started_eq (c : Ctx p evs cl v e v' live) (b : Nat) :
    v'.started b = if e.forkOf = some b then true else v.started b := by
  rw [c.sf.st]
  cases hf : e.forkOf with
  | none => simp
  | some b0 =>
    simp only
    by_cases h : b = b0
    · subst h; rw [upd_self, if_pos rfl]
    · rw [upd_ne _ _ h, if_neg (by intro x; cases x; exact h rfl)]

theorem ticks_of_join {b : Nat} (h : e.op = some (.join b)) : e.ticks = true := by
  unfold Event.ticks; rw [h]
theorem ticks_of_acq {o : Obj} (h : e.Acq o) : e.ticks = true := by
  obtain ⟨op, hop, hacq, _⟩ := h
  have := (acqObj_facts hacq e.res).1
  unfold Event.ticks at this ⊢
  rw [hop]; exact this

theorem acqObj_token {t u : Nat} {op : Op} (h : acqObjOf t op = some (.token u)) : u = t := by
  cases op <;> simp [acqObjOf] at h
  exact h.symm

theorem Dead.mono {p : Prog} {v v' : View} {o : Obj} (hf : ∀ u, v.finished u = true → v'.finished u = true)
    (hr : ∀ q, v.rxd q = true → v'.rxd q = true) (h : Dead p v o) : Dead p v' o := by
  rcases h with ⟨u, ho, hd⟩ | ⟨q, ho, hd⟩
  · exact .inl ⟨u, ho, hd.imp (hf u) id⟩
  · exact .inr ⟨q, ho, hr q hd⟩

theorem count_takes (q : Nat) (C : ChanCount) (e : Event) :
    (C.step q e).takes = C.takes + (if e.takeOn q then 1 else 0) := by
  by_cases h1 : e.dropOn q
  · rw [cstep_drop _ h1, if_neg (not_take_of_drop h1)]; rfl
  · by_cases h2 : e.sendOn q
    · rw [cstep_send _ h2, if_neg (not_take_of_send h2)]; split <;> rfl
    · by_cases h3 : e.takeOn q
      · rw [cstep_take _ h3, if_pos h3]
      · rw [cstep_none _ h1 h2 h3, if_neg h3]; rfl

theorem count_dropped (q : Nat) (C : ChanCount) (e : Event) :
    (C.step q e).dropped = (C.dropped || decide (e.dropOn q)) := by
  by_cases h1 : e.dropOn q
  · rw [cstep_drop _ h1]; simp [h1]
  · by_cases h2 : e.sendOn q
    · rw [cstep_send _ h2]; split <;> simp [h1]
    · by_cases h3 : e.takeOn q
      · rw [cstep_take _ h3]; simp [h1]
      · rw [cstep_none _ h1 h2 h3]; simp [h1]

theorem count_sends (q : Nat) (C : ChanCount) (e : Event) :
    (C.step q e).sends = C.sends + (if e.sendOn q ∧ C.dropped = false then 1 else 0) := by
  by_cases h1 : e.dropOn q
  · rw [cstep_drop _ h1, if_neg (fun h => not_send_of_drop h1 h.1)]; rfl
  · by_cases h2 : e.sendOn q
    · rw [cstep_send _ h2]
      cases hd : C.dropped <;> simp [h2]
    · by_cases h3 : e.takeOn q
      · rw [cstep_take _ h3, if_neg (fun h => h2 h.1)]; rfl
      · rw [cstep_none _ h1 h2 h3, if_neg (fun h => h2 h.1)]; rfl

/-- where a message of the channel after the step comes from: an old message (at position `k0`, the same message
number), or the message the step sends -/
theorem Ctx.chq_cases (c : Ctx p evs cl v e v' live) {q k : Nat} {X : VV} (h : (v'.chq q)[k]? = some X) :
    (∃ k0, (v.chq q)[k0]? = some X ∧
      (chanCount q evs).takes + k0 = (chanCount q (evs ++ [e])).takes + k) ∨
    (e.sendOn q ∧ live = true ∧ k = (v.chq q).length ∧ X = (v.crel q).join (newClock v e)) := by
  rw [c.sf.chq, chanCount_snoc, count_takes] at *
  split at h
  · next hs =>
    rw [if_neg (not_take_of_send hs.1)]
    by_cases hk : k < (v.chq q).length
    · rw [List.getElem?_append_left hk] at h
      exact .inl ⟨k, h, rfl⟩
    · rw [List.getElem?_append_right (Nat.le_of_not_lt hk)] at h
      have hk0 : k - (v.chq q).length = 0 := by
        cases hkk : k - (v.chq q).length with
        | zero => rfl
        | succ m => rw [hkk] at h; simp at h
      rw [hk0] at h
      simp only [List.getElem?_cons_zero, Option.some.injEq] at h
      exact .inr ⟨hs.1, hs.2, by omega, h.symm⟩
  · split at h
    · next _ ht =>
      rw [if_pos ht]
      rw [List.getElem?_tail] at h
      exact .inl ⟨k + 1, h, by omega⟩
    · next _ ht =>
      rw [if_neg ht]
      split at h
      · simp at h
      · exact .inl ⟨k, h, rfl⟩

theorem Ctx.step (c : Ctx p evs cl v e v' live) : Inv p (evs ++ [e]) (cl ++ [newClock v e]) v' := by
  have hI := c.inv
  have hlen := hI.len
  have takeOld : ∀ {i : Nat}, i < evs.length → (evs ++ [e]).take i = evs.take i := fun h =>
    List.take_append_of_le_length (Nat.le_of_lt h)
  refine ⟨?_, ?_, ?_, ?_, ?_, ?_, ?_, ?_, ?_, ?_, ?_, ?_, ?_, ?_, ?_, ?_, ?_, ?_, ?_, ?_, ?_⟩
  · -- len
    simp [hlen]
  · -- thr5
    intro j a h
    rcases getElem?_snoc.1 h with h | ⟨_, rfl⟩
    · exact hI.thr5 j a h
    · exact c.sf.t5
  · -- unstarted
    intro b hb'
    rw [c.started_eq] at hb'
    have hnf : e.forkOf ≠ some b := by
      intro h; rw [if_pos h] at hb'; cases hb'
    rw [if_neg hnf] at hb'
    have hne : b ≠ e.thr := by
      intro h; rw [h, c.sf.started] at hb'; cases hb'
    obtain ⟨hz, hev⟩ := hI.unstarted b hb'
    refine ⟨by rw [c.vc_other hne hnf]; exact hz, ?_⟩
    intro j a h
    rcases getElem?_snoc.1 h with h | ⟨_, rfl⟩
    · exact hev j a h
    · exact ⟨fun h => hne h.symm, fun h => hnf (Event.forkOf_iff.2 h)⟩
  · -- spawned
    intro b hb'
    rw [c.started_eq] at hb'
    by_cases hf : e.forkOf = some b
    · right
      refine ⟨e.thr, v.pc e.thr, ?_, c.sf.pcFork b hf⟩
      rw [c.sf.hop]; exact Event.forkOf_iff.1 hf
    · rw [if_neg hf] at hb'
      rcases hI.spawned b hb' with h | ⟨a, k, h1, h2⟩
      · exact .inl h
      · exact .inr ⟨a, k, h1, Nat.lt_of_lt_of_le h2 (c.sf.pcMono a)⟩
  · -- fin
    intro b hb
    rcases c.sf.finOld b hb with h | h
    · obtain ⟨j, a, h1, h2⟩ := hI.fin b h
      exact ⟨j, a, getElem?_snoc.2 (.inl h1), h2⟩
    · exact ⟨evs.length, e, snoc_last, h.symm⟩
  · -- spawnFirst
    intro i f ei ef hi hf hop
    rcases getElem?_snoc.1 hi with hi | ⟨hi1, hi2⟩
    · rcases getElem?_snoc.1 hf with hf | ⟨hf1, _⟩
      · exact hI.spawnFirst i f ei ef hi hf hop
      · rw [hf1]; exact (List.getElem?_eq_some_iff.1 hi).1
    · subst hi2
      have hfk := Event.forkOf_iff.2 hop
      rcases getElem?_snoc.1 hf with hf | ⟨_, hf2⟩
      · exact (((hI.unstarted _ (c.fresh _ hfk)).2 f ef hf).1 rfl).elim
      · subst hf2
        exact (c.fork_ne hfk rfl).elim
  · -- ownT
    intro x u
    by_cases hu : u = e.thr
    · subst hu; rw [c.vc_self]; exact c.newClock_le_own' x
    · by_cases hf : e.forkOf = some u
      · rw [c.vc_child hf]
        by_cases hx : x = u
        · subst hx; rw [c.vc_child hf]; exact Nat.le_refl _
        · rw [get_inc_ne _ _ _ hx]; exact c.newClock_le_own' x
      · rw [c.vc_other hu hf]
        exact Nat.le_trans (hI.ownT x u) (c.own_mono x)
  · -- ownM
    intro x m
    rw [c.sf.orel]
    split
    · rw [get_join]
      exact Nat.max_le.2 ⟨Nat.le_trans (hI.ownM x m) (c.own_mono x), c.newClock_le_own' x⟩
    · exact Nat.le_trans (hI.ownM x m) (c.own_mono x)
  · -- pos
    intro j a c0 h1 h2 hta
    rcases snoc_both hlen h1 h2 with ⟨hj, hc⟩ | ⟨_, rfl, rfl⟩
    · exact hI.pos j a c0 hj hc hta
    · rw [newClock_self hI _ c.sf.t5, if_pos hta]; omega
  · -- knowT
    intro j a c0 h1 h2 hta u hx
    rcases snoc_both hlen h1 h2 with ⟨hj, hc⟩ | ⟨hjn, rfl, rfl⟩
    · by_cases hu : u = e.thr
      · subst hu
        rw [c.vc_self] at hx
        exact ⟨evs.length, e, snoc_last, .inl rfl, .inr (c.know_new hj hc hta hx)⟩
      · by_cases hf : e.forkOf = some u
        · rw [c.vc_child hf] at hx
          have hw : a.thr ≠ u := ((hI.unstarted u (c.fresh u hf)).2 j a hj).1
          rw [get_inc_ne _ _ _ hw] at hx
          exact ⟨evs.length, e, snoc_last, .inr (Event.forkOf_iff.1 hf), .inr (c.know_new hj hc hta hx)⟩
        · rw [c.vc_other hu hf] at hx
          exact (hI.knowT j a c0 hj hc hta u hx).append [e]
    · by_cases hu : u = a.thr
      · exact ⟨evs.length, a, snoc_last, .inl hu.symm, .inl hjn⟩
      · by_cases hf : a.forkOf = some u
        · exact ⟨evs.length, a, snoc_last, .inr (Event.forkOf_iff.1 hf), .inl hjn⟩
        · rw [c.vc_other hu hf, newClock_self hI _ c.sf.t5, if_pos hta] at hx
          have := hI.ownT a.thr u
          omega
  · -- knowM
    intro j a c0 h1 h2 hta m hx
    rw [c.sf.orel] at hx
    rcases snoc_both hlen h1 h2 with ⟨hj, hc⟩ | ⟨hjn, rfl, rfl⟩
    · have old : c0.get a.thr ≤ (v.orel m).get a.thr →
          ∃ (i : Nat) (ei : Event), (evs ++ [e])[i]? = some ei ∧ ei.Rel m ∧ HBAeq (evs ++ [e]) j i ∧
            ∀ q, m = .chan q → (chanCount q ((evs ++ [e]).take i)).dropped = false := by
        intro h
        obtain ⟨i, ei, hi, hop, hb, hq⟩ := hI.knowM j a c0 hj hc hta m h
        refine ⟨i, ei, getElem?_snoc.2 (.inl hi), hop, hb.append [e], ?_⟩
        intro q hmq
        rw [takeOld (List.getElem?_eq_some_iff.1 hi).1]; exact hq q hmq
      have new : c0.get a.thr ≤ (newClock v e).get a.thr → e.relOf = some m ∧ live = true →
          ∃ (i : Nat) (ei : Event), (evs ++ [e])[i]? = some ei ∧ ei.Rel m ∧ HBAeq (evs ++ [e]) j i ∧
            ∀ q, m = .chan q → (chanCount q ((evs ++ [e]).take i)).dropped = false := by
        intro hx' hr
        refine ⟨evs.length, e, snoc_last, Event.relOf_iff.1 hr.1, .inr (c.know_new hj hc hta hx'), ?_⟩
        intro q hmq
        subst hmq
        rw [take_length_snoc, ← hI.rxdIff]
        have hs : e.sendOn q := by
          obtain ⟨op, ho, hro⟩ := Event.relOf_iff.1 hr.1
          cases op <;> simp [relObjOf] at hro
          exact ⟨_, by rw [ho, hro]⟩
        exact (c.sf.sendLive q hs).1 hr.2
      split at hx
      · next hr =>
        rw [get_join] at hx
        by_cases h : c0.get a.thr ≤ (v.orel m).get a.thr
        · exact old h
        · exact new (by omega) hr
      · exact old hx
    · split at hx
      · next hr =>
        refine ⟨evs.length, a, snoc_last, Event.relOf_iff.1 hr.1, .inl hjn, ?_⟩
        intro q hmq
        subst hmq
        rw [take_length_snoc, ← hI.rxdIff]
        have hs : a.sendOn q := by
          obtain ⟨op, ho, hro⟩ := Event.relOf_iff.1 hr.1
          cases op <;> simp [relObjOf] at hro
          exact ⟨_, by rw [ho, hro]⟩
        exact (c.sf.sendLive q hs).1 hr.2
      · rw [newClock_self hI _ c.sf.t5, if_pos hta] at hx
        have := hI.ownM a.thr m
        omega
  · -- mono
    intro j i cj ci hedge hcj hci
    rcases edge_new_iff hedge with hold | ⟨hin, hs⟩
    · have hi : i < cl.length := by rw [hlen]; exact hold.lt_length
      have hj : j < cl.length := Nat.lt_trans hold.lt hi
      rw [List.getElem?_append_left hj] at hcj
      rw [List.getElem?_append_left hi] at hci
      exact hI.mono j i cj ci hold hcj hci
    · have hjl : j < evs.length := by rw [hin] at hedge; exact hedge.lt
      have hj : j < cl.length := by rw [hlen]; exact hjl
      rw [List.getElem?_append_left hj] at hcj
      rw [hin, ← hlen, List.getElem?_append_right (Nat.le_refl _)] at hci
      simp only [Nat.sub_self, List.getElem?_cons_zero, Option.some.injEq] at hci
      subst hci
      rcases hs with ⟨a, hja, hs⟩ | ⟨q, a, hja, hsnd, hd, hh⟩
      · rcases hs with h | h | h | ⟨m, h1, h2⟩
        · have := hI.clkT j a cj hja hcj
          rw [h] at this
          exact le_trans this (le_newClock v e)
        · exact le_trans (hI.clkS j a cj e.thr hja hcj h) (le_newClock v e)
        · have h3 := hI.clkT j a cj hja hcj
          have h4 : acqJ v e = v.vc a.thr := by
            unfold acqJ; rw [Event.joinOf_iff.2 h]
          rw [← h4] at h3
          exact le_trans h3 (acqJ_le_newClock v e (ticks_of_join h))
        · have h4 : acqM v e = v.orel m := by
            unfold acqM; rw [Event.acqOf_iff.2 h2]
          rcases hI.clkM j a cj m hja hcj h1 with h3 | ⟨u, rfl, hd⟩ | ⟨q, rfl, _⟩
          · rw [← h4] at h3
            exact le_trans h3 (acqM_le_newClock v e (ticks_of_acq h2))
          · exfalso
            obtain ⟨op, _, hacq, _⟩ := h2
            have hu := acqObj_token hacq
            subst hu
            rcases hd with hd | hd
            · rw [c.sf.running] at hd; cases hd
            · exact absurd c.sf.lt (Nat.not_lt.2 hd)
          · exfalso
            obtain ⟨op, _, hacq, _⟩ := h2
            cases op <;> simp [acqObjOf] at hacq
      · rcases hh with ⟨htk, hle⟩ | ⟨hdr, hnd, hlt⟩
        · -- a take: the clock of the oldest message
          cases hq : v.chq q with
          | nil => exact (c.sf.takeNe q htk hq).elim
          | cons X rest =>
            have h3 := hI.clkQ q 0 X (by rw [hq]; rfl) j a cj hja hcj hsnd hd (by simpa using hle)
            have h4 : acqC v e = X := by
              unfold acqC; rw [Event.takeChan_iff.2 htk]; simp only; rw [hq]; rfl
            rw [← h4] at h3
            have htick : e.ticks = true := by
              unfold Event.ticks
              rcases htk with h | ⟨h, _⟩ <;> rw [h]
            exact le_trans h3 (acqC_le_newClock v e htick)
        · -- a `droprx` of a non-empty channel: the clock of the newest message
          have hlen' := hI.lenQ q hnd
          have hpos : 0 < (v.chq q).length := by omega
          have hlast : (v.chq q)[(v.chq q).length - 1]? = some ((v.chq q)[(v.chq q).length - 1]'(by omega)) :=
            List.getElem?_eq_getElem (by omega)
          have hsl := sends_lt_of_send q evs hja hsnd hd hjl
          rw [List.take_length] at hsl
          have h3 := hI.clkQ q _ _ hlast j a cj hja hcj hsnd hd (by omega)
          have htc : e.takeChan = none := by
            cases h : e.takeChan with
            | none => rfl
            | some q' => exact (not_take_of_drop hdr (Event.takeChan_iff.1 h)).elim
          have h4 : acqC v e = (v.chq q).foldl VV.join VV.zero := by
            unfold acqC; rw [htc, Event.dropChan_iff.2 hdr]
          have htick : e.ticks = true := by
            unfold Event.ticks Event.dropOn at *; rw [hdr]
          refine le_trans h3 (le_trans ?_ (acqC_le_newClock v e htick))
          rw [h4]
          exact le_foldl_join (List.getElem_mem _) _
  · -- clkT
    intro j a c0 h1 h2
    rcases snoc_both hlen h1 h2 with ⟨hj, hc⟩ | ⟨_, rfl, rfl⟩
    · exact le_trans (hI.clkT j a c0 hj hc) (c.vc_mono _)
    · rw [c.vc_self]; exact le_refl _
  · -- clkS
    intro j a c0 b h1 h2 hop
    rcases snoc_both hlen h1 h2 with ⟨hj, hc⟩ | ⟨_, rfl, rfl⟩
    · exact le_trans (hI.clkS j a c0 b hj hc hop) (c.vc_mono _)
    · rw [c.vc_child (Event.forkOf_iff.2 hop)]; exact le_inc _ _
  · -- clkM
    intro j a c0 m h1 h2 hop
    rcases snoc_both hlen h1 h2 with ⟨hj, hc⟩ | ⟨_, rfl, rfl⟩
    · rcases hI.clkM j a c0 m hj hc hop with h | h
      · exact .inl (le_trans h (c.orel_mono _))
      · exact .inr (h.mono c.sf.finMono (fun q hq => by rw [c.sf.rxd, hq]; rfl))
    · cases hl : live with
      | true =>
        left
        rw [c.sf.orel, if_pos ⟨Event.relOf_iff.2 hop, hl⟩]; exact le_join_right _ _
      | false =>
        right
        exact (c.sf.dead hl m (Event.relOf_iff.2 hop)).mono c.sf.finMono (fun q hq => by rw [c.sf.rxd, hq]; rfl)

  · -- rxdIff
    intro q
    rw [c.sf.rxd, chanCount_snoc, count_dropped, hI.rxdIff]
  · -- lenQ
    intro q hd
    rw [chanCount_snoc, count_dropped] at hd
    have hd0 : (chanCount q evs).dropped = false := by
      cases h : (chanCount q evs).dropped with
      | false => rfl
      | true => rw [h] at hd; simp at hd
    have hnd : ¬ e.dropOn q := by
      intro h; rw [hd0] at hd; simp [h] at hd
    have hl := hI.lenQ q hd0
    rw [c.sf.chq, chanCount_snoc, count_takes, count_sends]
    by_cases hs : e.sendOn q
    · have hlive : live = true := (c.sf.sendLive q hs).2 (by rw [hI.rxdIff]; exact hd0)
      rw [if_pos ⟨hs, hlive⟩, if_neg (not_take_of_send hs), if_pos ⟨hs, hd0⟩, List.length_append]
      simp only [List.length_cons, List.length_nil]; omega
    · rw [if_neg (show ¬ (e.sendOn q ∧ live = true) from fun h => hs h.1),
        if_neg (show ¬ (e.sendOn q ∧ (chanCount q evs).dropped = false) from fun h => hs h.1)]
      by_cases ht : e.takeOn q
      · rw [if_pos ht, if_pos ht, List.length_tail]
        have := c.sf.takeNe q ht
        have hpos : 0 < (v.chq q).length := List.length_pos_iff.2 this
        omega
      · rw [if_neg ht, if_neg ht, if_neg hnd]; omega
  · -- lenQD
    intro q hd
    rw [chanCount_snoc, count_dropped] at hd
    rw [c.sf.chq]
    by_cases hdr : e.dropOn q
    · rw [if_neg (show ¬ (e.sendOn q ∧ live = true) from fun h => not_send_of_drop hdr h.1),
        if_neg (not_take_of_drop hdr), if_pos hdr]
    · have hd0 : (chanCount q evs).dropped = true := by simpa [hdr] using hd
      have hemp := hI.lenQD q hd0
      by_cases hs : e.sendOn q
      · have hnl : ¬ live = true := by
          intro hl
          have := (c.sf.sendLive q hs).1 hl
          rw [hI.rxdIff, hd0] at this; cases this
        rw [if_neg (show ¬ (e.sendOn q ∧ live = true) from fun h => hnl h.2), if_neg (not_take_of_send hs),
          if_neg hdr]; exact hemp
      · rw [if_neg (show ¬ (e.sendOn q ∧ live = true) from fun h => hs h.1)]
        by_cases ht : e.takeOn q
        · exact (c.sf.takeNe q ht hemp).elim
        · rw [if_neg ht, if_neg hdr]; exact hemp
  · -- ownQ
    intro x q k X hX
    rcases c.chq_cases hX with ⟨k0, h0, _⟩ | ⟨_, _, _, rfl⟩
    · exact Nat.le_trans (hI.ownQ x q k0 X h0) (c.own_mono x)
    · rw [get_join]
      exact Nat.max_le.2 ⟨Nat.le_trans (hI.ownM x (.chan q)) (c.own_mono x), c.newClock_le_own' x⟩
  · -- knowQ
    intro j a c0 h1 h2 hta q k X hX hx
    rcases c.chq_cases hX with ⟨k0, h0, hk0⟩ | ⟨hs, hlive, hk, rfl⟩
    · rcases snoc_both hlen h1 h2 with ⟨hj, hc⟩ | ⟨_, rfl, rfl⟩
      · obtain ⟨i, ei, hi, hsn, hd, hle, hb⟩ := hI.knowQ j a c0 hj hc hta q k0 X h0 hx
        have hil := (List.getElem?_eq_some_iff.1 hi).1
        refine ⟨i, ei, getElem?_snoc.2 (.inl hi), hsn, ?_, ?_, hb.append [e]⟩
        · rw [takeOld hil]; exact hd
        · rw [takeOld hil]; omega
      · exfalso
        rw [newClock_self hI _ c.sf.t5, if_pos hta] at hx
        have := hI.ownQ a.thr q k0 X h0
        omega
    · have hd0 : (chanCount q evs).dropped = false := by
        rw [← hI.rxdIff]; exact (c.sf.sendLive q hs).1 hlive
      have hl := hI.lenQ q hd0
      have htk : (chanCount q (evs ++ [e])).takes = (chanCount q evs).takes := by
        rw [chanCount_snoc, count_takes, if_neg (not_take_of_send hs)]; rfl
      have new : HBAeq (evs ++ [e]) j evs.length →
          ∃ (i : Nat) (ei : Event), (evs ++ [e])[i]? = some ei ∧ ei.sendOn q ∧
            (chanCount q ((evs ++ [e]).take i)).dropped = false ∧
            (chanCount q ((evs ++ [e]).take i)).sends ≤ (chanCount q (evs ++ [e])).takes + k ∧
            HBAeq (evs ++ [e]) j i := by
        intro hb
        refine ⟨evs.length, e, snoc_last, hs, ?_, ?_, hb⟩
        · rw [take_length_snoc]; exact hd0
        · rw [take_length_snoc, htk]; omega
      rcases snoc_both hlen h1 h2 with ⟨hj, hc⟩ | ⟨hjn, rfl, rfl⟩
      · rw [get_join] at hx
        by_cases hcr : c0.get a.thr ≤ (v.crel q).get a.thr
        · obtain ⟨i, ei, hi, hrel, hb, hq⟩ := hI.knowM j a c0 hj hc hta (.chan q) hcr
          have hil := (List.getElem?_eq_some_iff.1 hi).1
          have hsn : ei.sendOn q := by
            obtain ⟨op, ho, hro⟩ := hrel
            cases op <;> simp [relObjOf] at hro
            exact ⟨_, by rw [ho, hro]⟩
          have hsl := sends_lt_of_send q evs hi hsn (hq q rfl) hil
          rw [List.take_length] at hsl
          refine ⟨i, ei, getElem?_snoc.2 (.inl hi), hsn, ?_, ?_, hb.append [e]⟩
          · rw [takeOld hil]; exact hq q rfl
          · rw [takeOld hil, htk]; omega
        · exact new (.inr (c.know_new hj hc hta (by omega)))
      · exact new (.inl hjn)
  · -- clkQ
    intro q k X hX i ei ci hi hci hsn hd hle
    rcases c.chq_cases hX with ⟨k0, h0, hk0⟩ | ⟨hs, hlive, hk, rfl⟩
    · rcases snoc_both hlen hi hci with ⟨hi', hc'⟩ | ⟨hin, rfl, rfl⟩
      · have hil := (List.getElem?_eq_some_iff.1 hi').1
        rw [takeOld hil] at hd hle
        exact hI.clkQ q k0 X h0 i ei ci hi' hc' hsn hd (by omega)
      · exfalso
        rw [hin, take_length_snoc] at hd hle
        have hl := hI.lenQ q hd
        have hk0l : k0 < (v.chq q).length := (List.getElem?_eq_some_iff.1 h0).1
        omega
    · have hd0 : (chanCount q evs).dropped = false := by
        rw [← hI.rxdIff]; exact (c.sf.sendLive q hs).1 hlive
      rcases snoc_both hlen hi hci with ⟨hi', hc'⟩ | ⟨_, rfl, rfl⟩
      · rcases hI.clkM i ei ci (.chan q) hi' hc' ⟨_, hsn.choose_spec, rfl⟩ with h | ⟨u, hu, _⟩ | ⟨q', hq', hdead⟩
        · exact le_trans h (le_join_left _ _)
        · cases hu
        · cases hq'
          rw [hI.rxdIff, hd0] at hdead; cases hdead
      · exact le_join_right _ _

end

end VCSound
end LoomVerif

/-
Race exactness, part 9: the thread epilogue keeps `RC`.  The notification of the joiner (`notifyEffect` on the
`JoinHandle` notify) publishes the thread's final causality in the object's clock; the joiner acquires it in the
second half of its wait (`Notify::notify` itself only wakes: repair of finding F26).
-/
import LoomVerif.Proofs.RaceOps3

namespace LoomVerif
namespace Race
open Refine Sy C07 C08 Clocks

theorem modCtl_ctlOf (w w0 : World) (t : Nat) (g : TCtl → TCtl) (i : Nat) (hc : w0.ctl = w.ctl)
    (h : t < w.ctl.length) : (w0.modCtl t g).ctlOf i = if i = t then g (w.ctlOf t) else w.ctlOf i := by
  have e1 : ∀ j, w0.ctlOf j = w.ctlOf j := by intro j; unfold World.ctlOf; rw [hc]
  by_cases e : i = t
  · subst e; rw [if_pos rfl, ctlOf_modCtl_self w0 i g (by rw [hc]; exact h), e1]
  · rw [if_neg e, ctlOf_modCtl_ne w0 t g e, e1]

section
variable {w w' : World} {s : SC.St}

/-- **the notification of the joiner** -/
theorem notify_transfer (hRC : RC w s) (hact : w.tid < w.ctl.length) (hnone : opAt w = none) {b n : Nat}
    (hmem : (b, w.tid, n) ∈ w.spawned) (hlt : fin w w.tid < 10) {σT : CS} (hLT : LinkT w σT)
    (hp : w'.prog = w.prog) (hs : w'.spawned = w.spawned) (hn : nthr w' = nthr w)
    (hctl : ∀ i, w'.ctlOf i = if i = w.tid then { w.ctlOf w.tid with fin := 10 } else w.ctlOf i)
    {X : Obj} (hobjs : w'.exec.objs = w.exec.objs.set n X) (hX : hbOf X = tcaus w w.tid)
    (hcaus : ∀ i, tcaus w' i = tcaus w i)
    (hrel : ∀ i, trel w' i = trel w i) (htopo : ∀ i, topo w' i = topo w i) :
    TwinInv w' ∧ LinkT w' σT := by
  have hnlt := sp_lt hRC.r hmem
  have hpt : pend w w.tid = none := by
    apply pend_notJoin; intro b' hb'; rw [opAtI_tid, hnone] at hb'; cases hb'
  have hpend : ∀ i, pend w' i = pend w i := by
    intro i
    by_cases e : i = w.tid
    · subst e
      unfold pend opAtI jn
      rw [hp, hs, hctl w.tid, if_pos rfl]
    · exact pend_congr hp hs (by rw [hctl i, if_neg e])
  have hfin : ∀ j, fin w' j = if j = w.tid then 10 else fin w j := by
    intro j
    unfold fin; rw [hctl j]
    split <;> rfl
  have hfinMono : ∀ j, 10 ≤ fin w j → 10 ≤ fin w' j := by
    intro j hj; rw [hfin]; split
    · exact Nat.le_refl _
    · exact hj
  have hhbn : objHb w.exec.objs n = VV.zero := by
    rw [hRC.inv.nhb b w.tid n hmem, if_neg (by omega)]
  have hhb : ∀ n', objHb w'.exec.objs n' = if n' = n then tcaus w w.tid else objHb w.exec.objs n' := by
    intro n'
    rw [hobjs]
    by_cases e : n' = n
    · subst e; rw [if_pos rfl, objHb_set_self _ _ hnlt, hX]
    · rw [if_neg e, objHb_set_ne _ _ e]
  have hhbMono : ∀ n', (objHb w.exec.objs n').le (objHb w'.exec.objs n') := by
    intro n'
    rw [hhb]
    split
    · next e => rw [e, hhbn]; exact zero_le _
    · exact le_refl _
  have hcell : ∀ c, w'.cellObj c = w.cellObj c := by intro c; unfold World.cellObj World.cfg; rw [hp]
  have hmo : ∀ m, w'.mutexObj m = w.mutexObj m := by intro m; unfold World.mutexObj World.cfg; rw [hp]
  refine ⟨⟨?_, ?_, ?_, ?_, ?_, ?_, ?_⟩, ⟨?_, ?_, ?_, ?_⟩⟩
  · intro i hi
    rw [hrel]; exact hRC.inv.rel i (by rw [← hn]; exact hi)
  · intro i o hi ho
    rw [hn] at hi
    rw [htopo] at ho
    rw [hobjs]
    simpa using hRC.inv.ob i o hi ho
  · intro i b' j n' hi ho hm hij
    rw [hn] at hi
    rw [htopo] at ho
    rw [hs] at hm
    rw [hpend]
    rcases hRC.inv.jo i b' j n' hi ho hm hij with h | h
    · exact .inl h
    · exact .inr (hfinMono j h)
  · intro b' j n' hm
    rw [hs] at hm
    rw [hhb]
    by_cases e : n' = n
    · subst e
      have hj : j = w.tid := by
        have := hRC.r.y.spn _ _ hm hmem rfl
        simpa using this
      subst hj
      rw [if_pos rfl, hfin, if_pos rfl, if_pos (Nat.le_refl _), hcaus]
    · rw [if_neg e, hRC.inv.nhb b' j n' hm]
      have hj : j ≠ w.tid := by
        intro ej
        subst ej
        have := hRC.inv.spt _ _ hm hmem rfl
        simp only [Prod.mk.injEq] at this
        exact e this.2.2
      rw [hfin, if_neg hj]
      by_cases h10 : 10 ≤ fin w j
      · rw [if_pos h10, if_pos h10, hcaus]
      · rw [if_neg h10, if_neg h10]
  · intro b' j n' hm
    rw [hs] at hm; exact hRC.inv.sp0 b' j n' hm
  · intro e1 e2 h1 h2
    rw [hs] at h1 h2; exact hRC.inv.spt e1 e2 h1 h2
  · intro c hc
    rw [hp] at hc
    rw [hcell, hobjs]
    exact cellIdle_set_ne _ _ (Ne.symm (sp_ne_cell hRC.r hmem hc)) (hRC.inv.cb c hc)
  · intro m hm
    rw [hp] at hm
    rw [hmo, hhb, if_neg (Ne.symm (sp_ne_mtx hRC.r hmem hm))]
    exact hLT.mtx m hm
  · intro k c hc
    rw [hp] at hc
    rw [hcell, hobjs, objAcc_set_ne _ _ _ (Ne.symm (sp_ne_cell hRC.r hmem hc))]
    exact hLT.acc k c hc
  · intro i hi
    rw [hn] at hi
    rw [hcaus]
    exact hLT.lo i hi
  · intro i hi
    rw [hn] at hi
    have hold := hLT.hi i hi
    rw [hcaus]
    · have hmono : (pendHb w i).le (pendHb w' i) := by
        unfold pendHb
        rw [hpend]
        cases pend w i with
        | none => exact le_refl _
        | some n' => exact hhbMono n'
      exact le_trans hold (join_mono (le_refl _) hmono)

/-- the reference step at the end of a thread; the clocks of neither side move -/
theorem finish_out (hRC : RC w s) (hact : w.tid < w.ctl.length) (hnone : opAt w = none)
    (hlt : fin w w.tid < 10) (hp : w'.prog = w.prog)
    (hctl : ∀ i, w'.ctlOf i = if i = w.tid then { w.ctlOf w.tid with fin := 10 } else w.ctlOf i)
    (hlen : w'.ctl.length = w.ctl.length)
    (hT : TwinInv w' ∧ ∀ σT, LinkT w σT → LinkT w' σT) : RealOut w s w' := by
  obtain ⟨σT, σR, hLT, hLR, hGT, hGR, hX⟩ := hRC.clk
  have ho : SC.opOf w.prog s (body w w.tid) = none := (opOf_eq hRC.r hact).trans hnone
  have hbody : ∀ i, body w' i = body w i := by
    intro i; unfold body; rw [hctl i]; split
    · next e => rw [e]
    · rfl
  have hL0 : LinkR w.prog (if body w w.tid == 0 then { s with lazyDropped := true } else s) σR := by
    split
    · exact hLR.same _ (fun _ => rfl) rfl rfl rfl rfl rfl
    · exact hLR
  refine ⟨hp, by rw [hlen]; exact hact, hbody _, .inr ⟨by omega, ?_⟩, _, step_end (hRC.fs.2 _) ho, ?_, hT.1,
    σT, σR, hT.2 σT hLT, hL0.modTh _ _ (fun _ => rfl), hGT, hGR, ?_⟩
  · unfold fin; rw [hctl, if_pos rfl]; exact Nat.le_refl _
  · show (SC.St.modTh _ _ _).verdict = none
    rw [verdict_modTh]
    split <;> exact hRC.fs.1
  · rw [hlen]
    exact hX.congr (fun i _ => hbody i)

/-! ### the stages of the epilogue -/

theorem pend_none_end (hnone : opAt w = none) : pend w w.tid = none := by
  apply pend_notJoin; intro b' hb'; rw [opAtI_tid, hnone] at hb'; cases hb'

/-- a move of the control record alone -/
theorem quiet_mod (hRC : RC w s) (hact : w.tid < w.ctl.length) (hpend : pend w w.tid = none) (F : TCtl → TCtl)
    (hFb : (F (w.ctlOf w.tid)).body = (w.ctlOf w.tid).body) (hFpc : (F (w.ctlOf w.tid)).pc = (w.ctlOf w.tid).pc)
    (hFfin : 10 ≤ (F (w.ctlOf w.tid)).fin ↔ 10 ≤ (w.ctlOf w.tid).fin) : QuietOut w (w.modCtl w.tid F) := by
  refine quiet_core hRC hact hpend F rfl rfl rfl (ObjsTouched.refl _) rfl hFb hFpc hFfin (fun _ => ⟨rfl, rfl⟩)
    (fun _ _ => rfl) ?_
  intro o ho
  have ho' : topo w w.tid = some o := ho
  exact ⟨hRC.inv.ob w.tid o (nthr_tid hRC hact) ho', .inl ho'⟩

/-- `thread_done` -/
theorem quiet_done (hRC : RC w s) (hact : w.tid < w.ctl.length) (hpend : pend w w.tid = none) (F : TCtl → TCtl)
    (hFb : (F (w.ctlOf w.tid)).body = (w.ctlOf w.tid).body) (hFpc : (F (w.ctlOf w.tid)).pc = (w.ctlOf w.tid).pc)
    (hFfin : 10 ≤ (F (w.ctlOf w.tid)).fin ↔ 10 ≤ (w.ctlOf w.tid).fin)
    (h : (w.modCtl w.tid F).threadDone = .ok w') : QuietOut w w' := by
  obtain ⟨hq, hc⟩ := threadDone_quiet h
  have hin0 : w.tid < nthr w := nthr_tid hRC hact
  have hin : (w.modCtl w.tid F).tid < nthr (w.modCtl w.tid F) := hin0
  have hk := threadDone_ckey h hin
  have hobjs : ObjsTouched w.exec.objs w'.exec.objs := threadDone_objs (w := w.modCtl w.tid F) h
  refine quiet_core hRC hact hpend F hq.prog hq.spawned hq.len hobjs hc hFb hFpc hFfin
    (fun i => ⟨(hk i).1, (hk i).2.1⟩) ?_ ?_
  · intro i hi
    rw [(hk i).2.2]
    show (if i = w.tid then none else topo w i) = topo w i
    rw [if_neg hi]
  · intro o ho
    rw [(hk w.tid).2.2] at ho
    have : (if w.tid = (w.modCtl w.tid F).tid then (none : Option Nat) else topo (w.modCtl w.tid F) w.tid) = none :=
      if_pos rfl
    rw [this] at ho; cases ho

/-- the thread entries after `Notify::notify` on object `o` -/
def notF (w : World) (o : Nat) : Nat → Thread → Thread := fun i th =>
  if i = w.tid then th
  else if th.operation.any (fun op => op.obj == o) then th.wake
  else th

theorem any_obj (th : Thread) (o : Nat) :
    th.operation.any (fun op => op.obj == o) = true ↔ th.operation.map (·.obj) = some o := by
  cases th.operation with
  | none => simp
  | some op => simp

theorem clk_epilogue (hRC : RC w s) (hact : w.tid < w.ctl.length) (hnone : opAt w = none)
    (h : w.runEpilogue (w.ctlOf w.tid) = .ok w') : QuietOut w w' ∨ RealOut w s w' := by
  obtain ⟨_, hrel, _⟩ := base hRC.r hact
  have hloc := hrel.2.2.2.2.2.1
  have hdq := hrel.2.2.2.2.2.2
  have hdl : w.dropLocals = w := dropLocals_frag w hloc hdq
  have hpn := pend_none_end hnone
  have ht := nthr_tid hRC hact
  by_cases h10 : 10 ≤ (w.ctlOf w.tid).fin
  · left
    rw [runEpilogue_finish w _ h10] at h
    unfold World.finishThread at h
    split at h
    · cases h
    · next hrange =>
      rw [dropPass_eq, hdl] at h
      split at h
      · next e =>
        cases h
        exact quiet_mod hRC hact hpn _ rfl rfl (by show 10 ≤ 10 + 1 ↔ _; omega)
      · split at h
        · next e =>
          rw [hdq] at h
          simp only at h
          exact quiet_done hRC hact hpn (fun c => { c with fin := 99 }) rfl rfl (by show 10 ≤ 99 ↔ _; omega) h
        · rw [hdq] at h
          cases h
  · have hlt : (w.ctlOf w.tid).fin < 10 := by omega
    by_cases ht0 : w.tid = 0
    · right
      rw [runEpilogue_main w _ ht0 hlt] at h
      cases h
      have hctl : ∀ i, (({ w with exec := { w.exec with lazyStatics := none } } : World).modCtl w.tid
          fun c => { c with fin := 10 }).ctlOf i =
          if i = w.tid then { w.ctlOf w.tid with fin := 10 } else w.ctlOf i :=
        fun i => modCtl_ctlOf w _ w.tid _ i (by rfl) hact
      refine finish_out hRC hact hnone hlt rfl hctl (by rw [ctl_len_modCtl]) ?_
      have key : ∀ σT, LinkT w σT → TwinInv (({ w with exec := { w.exec with lazyStatics := none } } : World).modCtl
          w.tid fun c => { c with fin := 10 }) ∧ LinkT (({ w with exec := { w.exec with lazyStatics := none } } :
          World).modCtl w.tid fun c => { c with fin := 10 }) σT := by
        intro σT hLT
        refine quiet_transfer hRC.r hRC.inv hLT w.tid rfl rfl rfl (ObjsTouched.refl _) ?_ (fun _ => ⟨rfl, rfl⟩)
          (fun _ _ => rfl) hpn ?_ ?_ ?_
        · intro i hi; rw [hctl i, if_neg hi]
        · intro _; unfold fin; rw [hctl, if_pos rfl]; exact Nat.le_refl _
        · intro _
          right
          intro b n hm
          have := hRC.inv.sp0 b w.tid n hm
          omega
        · intro o ho
          have ho' : topo w w.tid = some o := ho
          exact ⟨hRC.inv.ob w.tid o ht ho', .inl ho'⟩
      obtain ⟨σT, _, hLT, _⟩ := hRC.clk
      exact ⟨(key σT hLT).1, fun σ hσ => (key σ hσ).2⟩
    · have hfind : ∃ b n, w.spawned.find? (·.2.1 == w.tid) = some (b, w.tid, n) := by
        cases hf : w.spawned.find? (·.2.1 == w.tid) with
        | none =>
          unfold World.runEpilogue at h
          simp [h10, ht0, hf, throw, throwThe, MonadExceptOf.throw] at h
        | some e =>
          obtain ⟨b, t, n⟩ := e
          have := List.find?_some hf
          simp only [beq_iff_eq] at this
          subst this
          exact ⟨b, n, rfl⟩
      obtain ⟨b, n, hf⟩ := hfind
      have hmem := List.mem_of_find?_eq_some hf
      rw [runEpilogue_spawned w _ b n ht0 hf hlt] at h
      split at h
      · next e =>
        left
        rw [hdl] at h
        cases h
        exact quiet_mod hRC hact hpn _ rfl rfl (by show 10 ≤ 4 ↔ _; omega)
      · split at h
        · next e3 =>
          left
          rw [dropPass_eq, hdl] at h
          split at h
          · cases h
            exact quiet_mod hRC hact hpn _ rfl rfl (by show 10 ≤ 3 + 1 ↔ _; omega)
          · split at h
            · rw [hdq] at h
              simp only at h
              obtain ⟨hq, hc⟩ := branch_quiet h
              refine quiet_branch hRC hact hpn (fun c => { c with fin := 1 })
                (w0 := w.modCtl w.tid fun c => { c with fin := 1 }) rfl h rfl hq.prog hq.spawned hc rfl rfl
                (by show 10 ≤ 1 ↔ _; omega) (sp_lt hRC.r hmem) ?_
              intro b' j n' hm e hne
              exfalso
              subst e
              have := hRC.r.y.spn _ _ hm hmem rfl
              simp only at this
              exact hne this.symm
            · rw [hdq] at h
              cases h
        · -- the notification
          right
          obtain ⟨_, _, nt, hv, _⟩ := hRC.r.y.sp b w.tid n hmem
          obtain ⟨ns, hobj, _, _⟩ := objView_notify hv
          obtain ⟨w1, h1, h⟩ := bind_ok h
          rw [notifyEffect_eq hobj] at h1
          obtain rfl : w1 = W2 w (w.exec.objs.set n (.notify { ns with
              sync := ns.sync.store w.ths.activeT.released w.ths.caus .rel, notified := true })) (notF w n) := by
            cases h1; rfl
          simp only [pure, Except.pure] at h
          cases h
          have hctl : ∀ i, ((W2 w (w.exec.objs.set n (.notify { ns with
              sync := ns.sync.store w.ths.activeT.released w.ths.caus .rel, notified := true }))
              (notF w n)).modCtl w.tid fun c => { c with fin := 10 }).ctlOf i =
              if i = w.tid then { w.ctlOf w.tid with fin := 10 } else w.ctlOf i :=
            fun i => modCtl_ctlOf w _ w.tid _ i (by rfl) hact
          refine finish_out hRC hact hnone hlt rfl hctl (by rw [ctl_len_modCtl]; rfl) ?_
          have hX : hbOf (.notify { ns with
              sync := ns.sync.store w.ths.activeT.released w.ths.caus .rel, notified := true }) =
              tcaus w w.tid := by
            show (ns.sync.store w.ths.activeT.released w.ths.caus .rel).hb = _
            rw [Clocks.Sync.store_of_releases _ _ _ (by rfl)]
            have hr : w.ths.activeT.released = VV.zero := hRC.inv.rel w.tid ht
            have hz : ns.sync.hb = VV.zero := by
              have := hRC.inv.nhb b w.tid n hmem
              rw [objHb_of hobj, if_neg (by show ¬ 10 ≤ (w.ctlOf w.tid).fin; omega)] at this
              exact this
            rw [hr, hz, join_zero, zero_join]
            rfl
          have key : ∀ σT, LinkT w σT → TwinInv ((W2 w (w.exec.objs.set n (.notify { ns with
              sync := ns.sync.store w.ths.activeT.released w.ths.caus .rel, notified := true }))
              (notF w n)).modCtl w.tid fun c => { c with fin := 10 }) ∧ LinkT ((W2 w (w.exec.objs.set n
              (.notify { ns with sync := ns.sync.store w.ths.activeT.released w.ths.caus .rel, notified := true }))
              (notF w n)).modCtl w.tid fun c => { c with fin := 10 }) σT := by
            intro σT hLT
            have hget := fun i => W2_get w (w.exec.objs.set n (.notify { ns with
              sync := ns.sync.store w.ths.activeT.released w.ths.caus .rel, notified := true })) (notF w n) i
            refine notify_transfer hRC hact hnone hmem hlt hLT rfl rfl (W2_nthr _ _ _) hctl rfl hX ?_ ?_ ?_
            · intro i
              show (((W2 w _ (notF w n)).ths.get i).causality) = _
              rw [hget]
              split
              · unfold notF; split
                · rfl
                · split
                  · exact congrArg (·.1) (wake_ckey _)
                  · rfl
              · rfl
            · intro i
              show (((W2 w _ (notF w n)).ths.get i).released) = _
              rw [hget]
              split
              · unfold notF; split
                · rfl
                · split
                  · exact congrArg (·.2.1) (wake_ckey _)
                  · rfl
              · rfl
            · intro i
              show (((W2 w _ (notF w n)).ths.get i).operation.map (·.obj)) = _
              rw [hget]
              split
              · unfold notF; split
                · rfl
                · split
                  · exact congrArg (fun x => x.2.2.map (·.obj)) (wake_ckey _)
                  · rfl
              · rfl
          obtain ⟨σT, _, hLT, _⟩ := hRC.clk
          exact ⟨(key σT hLT).1, fun σ hσ => (key σ hσ).2⟩

end

end Race
end LoomVerif

/-
Refinement, FUTURES fragment, part 3: the twin side.  What the abstraction relation reads of a world of the twin
(`view4`: the program, the control table, `spawned`, the number of loom threads, the futures' table, and of every
object its `OV4`: the flags of a `Notify`, the owner of a mutex, the most recent value of an atomic), and what the
primitives of `Model/Interp.lean` used by the fragment do to it.
-/
import LoomVerif.Proofs.Refine4Ref
import LoomVerif.Proofs.RefineTwin
import LoomVerif.Proofs.RefineStep
import LoomVerif.Proofs.C20BlockOn
import LoomVerif.Proofs.C20SelfWake
import LoomVerif.Proofs.C20Waker

set_option linter.unusedSimpArgs false
set_option linter.unusedVariables false

namespace LoomVerif
namespace Refine4
open Refine Sy C07 C08 C20

/-! ### what the relation sees of an object -/

inductive OV4
  | notify (spurious notified didSpur : Bool)
  | mutex (lock : Option Nat)
  /-- the value of the most recent store; the store ring has its full length; the number of stores so far (the
  initial one included) -/
  | atomic (latest : Nat) (full : Bool) (cnt : Nat)
  | other
deriving DecidableEq, Repr

def ov4 : Obj → OV4
  | .notify s => .notify s.spurious s.notified s.didSpur
  | .mutex s => .mutex s.lock
  | .atomic a => .atomic a.latestValue (a.stores.length == NH) a.cnt
  | _ => .other

/-- what the relation reads of a world -/
structure View where
  prog : Prog
  ctl : List TCtl
  spawned : List (Nat × Nat × Nat)
  /-- number of loom threads -/
  nth : Nat
  futs : List FutSt
  objs : List OV4

def view4 (w : World) : View :=
  { prog := w.prog, ctl := w.ctl, spawned := w.spawned, nth := w.exec.threads.threads.length, futs := w.futs,
    objs := w.exec.objs.map ov4 }

/-- everything but the execution record and the `Arc` bookkeeping is kept -/
def Fr (w w' : World) : Prop :=
  w'.prog = w.prog ∧ w'.ctl = w.ctl ∧ w'.spawned = w.spawned ∧ w'.futs = w.futs ∧ w'.events = w.events

theorem Fr.refl (w : World) : Fr w w := ⟨rfl, rfl, rfl, rfl, rfl⟩
theorem Fr.trans {a b c : World} (h1 : Fr a b) (h2 : Fr b c) : Fr a c :=
  ⟨h2.1.trans h1.1, h2.2.1.trans h1.2.1, h2.2.2.1.trans h1.2.2.1, h2.2.2.2.1.trans h1.2.2.2.1,
    h2.2.2.2.2.trans h1.2.2.2.2⟩

/-- a primitive that does not schedule: moreover the active thread and the number of threads are kept -/
def Keep (w w' : World) : Prop :=
  Fr w w' ∧ w'.tid = w.tid ∧ w'.exec.threads.threads.length = w.exec.threads.threads.length

theorem Keep.refl (w : World) : Keep w w := ⟨Fr.refl w, rfl, rfl⟩
theorem Keep.trans {a b c : World} (h1 : Keep a b) (h2 : Keep b c) : Keep a c :=
  ⟨h1.1.trans h2.1, h2.2.1.trans h1.2.1, h2.2.2.trans h1.2.2⟩

theorem view4_of {w w' : World} (h : Fr w w')
    (hl : w'.exec.threads.threads.length = w.exec.threads.threads.length) (os : List OV4)
    (ho : w'.exec.objs.map ov4 = os) : view4 w' = { view4 w with objs := os } := by
  obtain ⟨h1, h2, h3, h4, _⟩ := h
  simp only [view4, h1, h2, h3, h4, hl, ho]

theorem map_set_same {os : List Obj} {o : Nat} {x x' : Obj} (h : os[o]? = some x) (hv : ov4 x' = ov4 x) :
    (os.set o x').map ov4 = os.map ov4 := by
  rw [List.map_set, hv]
  apply List.ext_getElem?
  intro i
  rw [List.getElem?_set]
  split
  · next e =>
    subst e
    obtain ⟨hlt, hx⟩ := List.getElem?_eq_some_iff.1 h
    simp [hlt, hx]
  · rfl

/-! ### the scheduler -/

theorem atomic_setLastAccess_ov (a : Atomic) (act : Action) (pid : Nat) (v : VV) :
    ov4 (.atomic (a.setLastAccess act pid v)) = ov4 (.atomic a) := by
  unfold Atomic.setLastAccess
  split <;> rfl

theorem setLastAccess_ov {os os' : Objs} {op : Operation} {pid : Nat} {d : VV}
    (h : os.setLastAccess op pid d = .ok os') : os'.map ov4 = os.map ov4 := by
  unfold Objs.setLastAccess at h
  split at h
  all_goals first
    | (cases h; done)
    | (cases h
       refine map_set_same ‹_› ?_
       first
         | rfl
         | exact atomic_setLastAccess_ov _ _ _ _)

theorem schedule_ov {e e' : Exec} {b : Bool} {p : Bool} (h : e.schedule p = .ok (e', b)) :
    e'.objs.map ov4 = e.objs.map ov4 := by
  unfold Exec.schedule at h
  simp only [bind, Except.bind, pure, Except.pure] at h
  repeat' split at h
  all_goals first
    | (cases h; done)
    | (cases h; rfl)
    | (cases h; exact setLastAccess_ov ‹_›)

/-- a scheduling point: nothing the relation reads changes; the new active thread is in the table -/
structure Sched (w w' : World) : Prop where
  fr : Fr w w'
  view : view4 w' = view4 w
  inRange : InRange w'

theorem branch_sched {w w' : World} {o : Nat} {a : Action} {blk wt : Bool}
    (h : w.branch o a blk wt = .ok w') : Sched w w' := by
  have hq := (Refine.branch_quiet h).1
  have hcf := branch_cf h
  have hfr : Fr w w' := ⟨hq.prog, hcf.1, hq.spawned, hcf.2.1, hcf.2.2⟩
  refine ⟨hfr, ?_, branch_inRange h⟩
  have ho : w'.exec.objs.map ov4 = w.exec.objs.map ov4 := by
    unfold World.branch at h
    simp only [bind, Except.bind, pure, Except.pure] at h
    split at h
    · cases h
    · next v hv => cases h; have := @schedule_ov _ v.1 v.2 _ hv; exact this
  exact view4_of hfr hq.len _ ho

theorem yieldNow_sched {w w' : World} (h : w.yieldNow = .ok w') : Sched w w' := by
  have hcf := yieldNow_cf h
  obtain ⟨e, he⟩ := yieldNow_rest h
  unfold World.yieldNow at h
  simp only [bind, Except.bind, pure, Except.pure] at h
  split at h
  · cases h
  · next v hv =>
    cases h
    have hl := @schedule_len _ v.1 v.2 _ hv
    have ho := @schedule_ov _ v.1 v.2 _ hv
    have hfr : Fr w { w with exec := v.1 } := ⟨rfl, rfl, rfl, rfl, rfl⟩
    refine ⟨hfr, ?_, @schedule_inRange _ v.1 v.2 _ hv⟩
    exact view4_of hfr (by rw [hl]; simp [World.ths, Threads.modifyActive, Threads.modify]) _ ho

theorem threadDone_sched {w w' : World} (h : w.threadDone = .ok w') : Sched w w' := by
  unfold World.threadDone at h
  simp only [bind, Except.bind, pure, Except.pure] at h
  split at h
  · cases h
  · next v hv =>
    cases h
    have hl := @schedule_len _ v.1 v.2 _ hv
    have ho := @schedule_ov _ v.1 v.2 _ hv
    have hfr : Fr w { w with exec := v.1 } := ⟨rfl, rfl, rfl, rfl, rfl⟩
    refine ⟨hfr, ?_, @schedule_inRange _ v.1 v.2 _ hv⟩
    exact view4_of hfr (by rw [hl]; simp [World.ths, Threads.modifyActive, Threads.modify]) _ ho

/-! ### the control table -/

theorem view4_modCtl (w : World) (t : Nat) (f : TCtl → TCtl) :
    view4 (w.modCtl t f) = { view4 w with ctl := w.ctl.modify t f } := rfl

theorem view4_setStage (w : World) (n : Nat) :
    view4 (w.setStage n) = { view4 w with ctl := w.ctl.modify w.tid fun c => { c with stage := n } } := rfl

theorem view4_complete (w : World) (r : Ret) :
    view4 (w.complete r) = { view4 w with ctl := w.ctl.modify w.tid (completeF r) } := rfl

theorem view4_modFut (w : World) (f : Nat) (g : FutSt → FutSt) :
    view4 (w.modFut f g) = { view4 w with futs := w.futs.modify f g } := rfl

/-! ### mutexes -/

theorem getMutex_ok4 {w : World} {o : Nat} {m : MutexSt} (h : w.getMutex o = .ok m) :
    w.exec.objs[o]? = some (.mutex m) := getMutex_ok' h

/-- `post_acquire`: on a held mutex nothing happens; on a free one the active thread becomes the owner -/
theorem postAcquire_view {w w1 : World} {o : Nat} {okk : Bool} (h : w.postAcquire o = .ok (w1, okk)) :
    ∃ l, (view4 w).objs[o]? = some (.mutex l) ∧ okk = l.isNone ∧ Keep w w1 ∧
      (okk = false → w1 = w) ∧
      (okk = true → view4 w1 = { view4 w with objs := (view4 w).objs.set o (.mutex (some w.tid)) }) := by
  have hcf := postAcquire_cf h
  obtain ⟨m, hg, _⟩ : ∃ m, w.getMutex o = .ok m ∧ True := by
    unfold World.postAcquire at h
    cases hg : w.getMutex o with
    | error e => simp [hg, bind, Except.bind] at h
    | ok m => exact ⟨m, rfl, trivial⟩
  have hm := getMutex_ok4 hg
  obtain ⟨hk, hc1, ht1, hp1, hs1, he1, hl1, hsame, hobjs⟩ := postAcquire_obs hm h
  have hfr : Fr w w1 := ⟨hp1, hc1, hs1, hcf.2.1, he1⟩
  refine ⟨m.lock, by simp [view4, hm, ov4], hk, ⟨hfr, ht1, hl1⟩, hsame, ?_⟩
  intro e
  rw [view4_of hfr hl1 _ rfl, hobjs e, List.map_set]
  rfl

/-- `release_lock` clears the owner -/
theorem releaseLock_view {w w1 : World} {o : Nat} (h : w.releaseLock o = .ok w1) :
    ∃ l, (view4 w).objs[o]? = some (.mutex l) ∧ Keep w w1 ∧
      view4 w1 = { view4 w with objs := (view4 w).objs.set o (.mutex none) } := by
  have hcf := releaseLock_cf h
  obtain ⟨m, hg, _⟩ : ∃ m, w.getMutex o = .ok m ∧ True := by
    unfold World.releaseLock at h
    cases hg : w.getMutex o with
    | error e => simp [hg, bind, Except.bind] at h
    | ok m => exact ⟨m, rfl, trivial⟩
  have hm := getMutex_ok4 hg
  obtain ⟨hc1, ht1, hp1, hs1, he1, hl1, m', hm', hobjs⟩ := releaseLock_obs hm h
  have hfr : Fr w w1 := ⟨hp1, hc1, hs1, hcf.2.1, he1⟩
  refine ⟨m.lock, by simp [view4, hm, ov4], ⟨hfr, ht1, hl1⟩, ?_⟩
  rw [view4_of hfr hl1 _ rfl, hobjs, List.map_set]
  simp [ov4, hm', view4]

/-! ### `Notify` -/

theorem getNotify_ok4 {w : World} {o : Nat} {m : NotifySt} (h : w.getNotify o = .ok m) :
    w.exec.objs[o]? = some (.notify m) := by
  unfold World.getNotify at h
  split at h
  · next a heq => cases h; exact heq
  · cases h

/-- `notify`: the flag is raised -/
theorem notifyEffect_view {w w1 : World} {o : Nat} (h : w.notifyEffect o = .ok w1) :
    ∃ sp nt ds, (view4 w).objs[o]? = some (.notify sp nt ds) ∧ Keep w w1 ∧
      view4 w1 = { view4 w with objs := (view4 w).objs.set o (.notify sp true ds) } := by
  have hcf := notifyEffect_cf h
  obtain ⟨ns, hg, _⟩ : ∃ m, w.getNotify o = .ok m ∧ True := by
    unfold World.notifyEffect at h
    cases hg : w.getNotify o with
    | error e => simp [hg, bind, Except.bind] at h
    | ok m => exact ⟨m, rfl, trivial⟩
  have hn := getNotify_ok4 hg
  rw [notifyEffect_eq hn] at h
  have hw1 := (Except.ok.inj h).symm
  have hfr : Fr w w1 := by rw [hw1]; exact ⟨rfl, rfl, rfl, rfl, rfl⟩
  have hl : w1.exec.threads.threads.length = w.exec.threads.threads.length := by rw [hw1]; simp
  have ho : w1.exec.objs.map ov4 = (view4 w).objs.set o (.notify ns.spurious true ns.didSpur) := by
    rw [hw1]
    show (w.exec.objs.set o _).map ov4 = _
    rw [List.map_set]
    rfl
  exact ⟨ns.spurious, ns.notified, ns.didSpur, by simp [view4, hn, ov4], ⟨hfr, by rw [hw1]; rfl, hl⟩,
    view4_of hfr hl _ ho⟩

/-- the second half of `wait`: returns only on a raised flag, which it consumes -/
theorem notifyWait2_view {w w1 : World} {o : Nat} (h : w.notifyWait2 o = .ok w1) :
    ∃ sp ds, (view4 w).objs[o]? = some (.notify sp true ds) ∧ Keep w w1 ∧
      view4 w1 = { view4 w with objs := (view4 w).objs.set o (.notify sp false ds) } := by
  have hcf := notifyWait2_cf h
  obtain ⟨ns, hg, _⟩ : ∃ m, w.getNotify o = .ok m ∧ True := by
    unfold World.notifyWait2 at h
    cases hg : w.getNotify o with
    | error e => simp [hg, bind, Except.bind] at h
    | ok m => exact ⟨m, rfl, trivial⟩
  have hn := getNotify_ok4 hg
  obtain ⟨hn1, hc1, ht1, hp1, hs1, he1, hl1, hobjs⟩ := notifyWait2_obs hn h
  have hfr : Fr w w1 := ⟨hp1, hc1, hs1, hcf.2.1, he1⟩
  refine ⟨ns.spurious, ns.didSpur, by simp [view4, hn, ov4, hn1], ⟨hfr, ht1, hl1⟩, ?_⟩
  rw [view4_of hfr hl1 _ rfl, hobjs, List.map_set]
  rfl

/-- the first half of `wait`: a scheduling point; the one spurious return (`st = 2`) sets `did_spur` -/
theorem notifyWait1_view {w w1 : World} {o st : Nat} (h : w.notifyWait1 o = .ok (w1, st)) :
    ∃ sp nt ds, (view4 w).objs[o]? = some (.notify sp nt ds) ∧ Fr w w1 ∧ InRange w1 ∧
      ((st = 1 ∧ view4 w1 = view4 w) ∨
       (st = 2 ∧ sp = true ∧ ds = false ∧
          view4 w1 = { view4 w with objs := (view4 w).objs.set o (.notify sp nt true) })) := by
  obtain ⟨ns, hg, _⟩ : ∃ m, w.getNotify o = .ok m ∧ True := by
    unfold World.notifyWait1 at h
    cases hg : w.getNotify o with
    | error e => simp [hg, bind, Except.bind] at h
    | ok m => exact ⟨m, rfl, trivial⟩
  have hn := getNotify_ok4 hg
  refine ⟨ns.spurious, ns.notified, ns.didSpur, by simp [view4, hn, ov4], ?_⟩
  by_cases hs : (ns.spurious && !ns.didSpur) = false
  · rw [notifyWait1_plain hn hs] at h
    obtain ⟨w2, hb, he⟩ := map_ok h
    cases he
    have := branch_sched hb
    exact ⟨this.fr, this.inRange, .inl ⟨rfl, this.view⟩⟩
  · have hsp : ns.spurious = true := by cases hh : ns.spurious <;> simp [hh] at hs ⊢
    have hd : ns.didSpur = false := by cases hh : ns.didSpur <;> simp [hh] at hs ⊢
    rw [notifyWait1_maySpur hn hsp hd] at h
    split at h
    · cases h
    · next p hp =>
      obtain ⟨w2, hb, he⟩ := map_ok h
      cases he
      have := yieldNow_sched hb
      refine ⟨this.fr, this.inRange, .inr ⟨rfl, hsp, hd, ?_⟩⟩
      rw [this.view]
      show ({ view4 w with objs := (w.exec.objs.set o _).map ov4 } : View) = _
      rw [List.map_set]
      rfl
    · next p hp =>
      obtain ⟨w2, hb, he⟩ := map_ok h
      cases he
      have := branch_sched hb
      exact ⟨this.fr, this.inRange, .inl ⟨rfl, this.view⟩⟩

/-! ### the waker's `Arc`: invisible -/

theorem wakerClone_view {w w1 : World} {a : Nat} (h : w.wakerClone a = .ok w1) :
    Keep w w1 ∧ view4 w1 = view4 w := by
  unfold World.wakerClone at h
  simp only [bind, Except.bind, pure, Except.pure] at h
  split at h
  · cases h
  · next s hs =>
    cases h
    have ho := getArc_ok' hs
    have hfr : Fr w ((w.setObj (w.arcInfo a).obj (.arc { s with refCnt := s.refCnt + 1 })).modArc a
        fun i => { i with stdCount := i.stdCount + 1 }) := ⟨rfl, rfl, rfl, rfl, rfl⟩
    exact ⟨⟨hfr, rfl, rfl⟩, view4_of hfr rfl _ (map_set_same ho rfl)⟩

/-- a step that keeps everything the relation reads -/
def Same (w w' : World) : Prop := Keep w w' ∧ view4 w' = view4 w

theorem Same.refl (w : World) : Same w w := ⟨Keep.refl w, rfl⟩
theorem Same.trans {a b c : World} (h1 : Same a b) (h2 : Same b c) : Same a c :=
  ⟨h1.1.trans h2.1, h2.2.trans h1.2⟩

theorem same_setObj_arc {w : World} {o : Nat} {s : ArcSt} (s' : ArcSt) (ho : w.exec.objs[o]? = some (.arc s)) :
    Same w (w.setObj o (.arc s')) := by
  have hfr : Fr w (w.setObj o (.arc s')) := ⟨rfl, rfl, rfl, rfl, rfl⟩
  exact ⟨⟨hfr, rfl, rfl⟩, view4_of hfr rfl _ (map_set_same ho rfl)⟩

theorem same_syncLoad (w : World) (sy : Sync) (o : Ord) : Same w (w.setThs (w.ths.syncLoad sy o)) := by
  have hfr : Fr w (w.setThs (w.ths.syncLoad sy o)) := ⟨rfl, rfl, rfl, rfl, rfl⟩
  have hl : (w.setThs (w.ths.syncLoad sy o)).exec.threads.threads.length = w.exec.threads.threads.length := by
    simp [World.setThs, World.ths, Threads.syncLoad, Threads.setCaus, Threads.modifyActive, Threads.modify]
  exact ⟨⟨hfr, rfl, hl⟩, view4_of hfr hl _ rfl⟩

theorem same_sync (w : World) : Same w w.sync := by
  have hfr : Fr w w.sync := ⟨rfl, rfl, rfl, rfl, rfl⟩
  exact ⟨⟨hfr, rfl, sync_len w⟩, view4_of hfr (sync_len w) _ rfl⟩

theorem refDecEffect_view {w w1 : World} {o : Nat} {b : Bool} (h : w.refDecEffect o = .ok (w1, b)) :
    Same w w1 := by
  unfold World.refDecEffect at h
  simp only [bind, Except.bind, pure, Except.pure, throw, throwThe, MonadExceptOf.throw] at h
  split at h
  · cases h
  · next s hs =>
    have ho := getArc_ok' hs
    split at h
    · cases h
    · split at h
      · cases h
        exact (same_setObj_arc _ ho).trans (same_syncLoad _ _ _)
      · cases h
        exact same_setObj_arc _ ho

theorem afterDec_view {w w1 : World} {a : Nat} {last : Bool} (h : w.afterDec a last = .ok w1) :
    Same w w1 := by
  unfold World.afterDec at h
  simp only [bind, Except.bind, pure, Except.pure, throw, throwThe, MonadExceptOf.throw] at h
  repeat' split at h
  all_goals first
    | (cases h; done)
    | (cases h; exact ⟨⟨⟨rfl, rfl, rfl, rfl, rfl⟩, rfl, rfl⟩, rfl⟩)

theorem wakerDrop_view {w w1 : World} {a : Nat} (h : w.wakerDrop a = .ok w1) : Same w w1 := by
  rw [wakerDrop_eq] at h
  obtain ⟨⟨w2, last⟩, h1, h2⟩ := Refine.bind_ok h
  exact (refDecEffect_view h1).trans (afterDec_view h2)

/-! ### atomics -/

theorem getAtomic_ok4 {w : World} {o : Nat} {a : Atomic} (h : w.getAtomic o = .ok a) :
    w.exec.objs[o]? = some (.atomic a) := by
  unfold World.getAtomic at h
  split at h
  · next a heq => cases h; exact heq
  · cases h

theorem same_setPath (w : World) (p : Path) : Same w (w.setPath p) :=
  ⟨⟨⟨rfl, rfl, rfl, rfl, rfl⟩, rfl, rfl⟩, rfl⟩

theorem latest_modifyStore (a : Atomic) (i : Nat) (f : AStore → AStore) (hf : ∀ s, (f s).value = s.value) :
    (a.modifyStore i f).latestValue = a.latestValue ∧
    (a.modifyStore i f).stores.length = a.stores.length := by
  refine ⟨?_, by simp [Atomic.modifyStore]⟩
  simp only [Atomic.latestValue, Atomic.storeAt, Atomic.modifyStore, List.getD, List.getElem?_modify]
  cases a.stores[Atomic.index (a.cnt - 1)]? with
  | none => rfl
  | some s => by_cases e : i = Atomic.index (a.cnt - 1) <;> simp [e, hf]

theorem ov_setMo (a : Atomic) (i : Nat) (m : VV) :
    ov4 (.atomic (a.modifyStore i fun s => { s with mo := m })) = ov4 (.atomic a) := by
  have := latest_modifyStore a i (fun s => { s with mo := m }) (fun _ => rfl)
  show OV4.atomic _ _ a.cnt = _
  simp only [ov4, this.1, this.2]

theorem ov_touch (a : Atomic) (i : Nat) (ths : Threads) :
    ov4 (.atomic (a.modifyStore i fun s => { s with firstSeen := s.firstSeen.touch ths })) = ov4 (.atomic a) := by
  have := latest_modifyStore a i (fun s => { s with firstSeen := s.firstSeen.touch ths }) (fun _ => rfl)
  show OV4.atomic _ _ a.cnt = _
  simp only [ov4, this.1, this.2]

/-- an atomic load leaves the most recent value alone -/
theorem load_ov {a a' : Atomic} {ths ths' : Threads} {idx u : Nat} {o : Ord}
    (h : a.load ths idx o = .ok (a', ths', u)) :
    ov4 (.atomic a') = ov4 (.atomic a) ∧ ∃ sy, ths' = ths.syncLoad sy o := by
  unfold Atomic.load at h
  simp only [bind, Except.bind, pure, Except.pure] at h
  split at h
  · cases h
  · next a1 h1 =>
    cases h
    have e1 : ov4 (.atomic a1) = ov4 (.atomic a) := by
      unfold Atomic.trackLoad at h1
      simp only [bind, Except.bind, pure, Except.pure, throw, throwThe, MonadExceptOf.throw, Atomic.mutatingCheck] at h1
      repeat' split at h1
      all_goals first
        | (cases h1; done)
        | (cases h1; rfl)
    refine ⟨?_, _, rfl⟩
    rw [ov_touch]
    unfold Atomic.applyLoadCoherence
    rw [ov_setMo, e1]

/-- the flag load: nothing the relation reads changes -/
theorem primEffect_load_same {w w1 : World} {x : Nat} {o : Ord} {r : Ret}
    (h : w.primEffect x (.load o) = .ok (w1, r)) : Same w w1 := by
  unfold World.primEffect at h
  simp only [Prim.synchronizes, Prim.candidates, if_true, bind, Except.bind, pure, Except.pure, Except.map] at h
  split at h
  · cases h
  · next a ha =>
    have hoa : w.exec.objs[x]? = some (.atomic a) := getAtomic_ok4 ha
    have fin : ∀ (pth : Path) (idx : Nat) (v : Atomic × Threads × Ret),
        Prim.effect ((w.sync.setPath pth).cfg.ty) a (w.sync.setPath pth).ths (.load o) idx = .ok v →
        Same w (((w.sync.setPath pth).setObj x (.atomic v.1)).setThs v.2.1) := by
      intro pth idx v he
      unfold Prim.effect at he
      simp only [bind, Except.bind, pure, Except.pure] at he
      split at he
      · cases he
      · next v2 hv2 =>
        obtain ⟨a2, ths2, u⟩ := v2
        cases he
        obtain ⟨hov, sy, rfl⟩ := load_ov hv2
        refine (same_sync w).trans ((same_setPath _ pth).trans ?_)
        have hfr : Fr (w.sync.setPath pth)
            (((w.sync.setPath pth).setObj x (.atomic a2)).setThs ((w.sync.setPath pth).ths.syncLoad sy o)) :=
          ⟨rfl, rfl, rfl, rfl, rfl⟩
        have hl : (((w.sync.setPath pth).setObj x (.atomic a2)).setThs
            ((w.sync.setPath pth).ths.syncLoad sy o)).exec.threads.threads.length =
            (w.sync.setPath pth).exec.threads.threads.length := by
          simp [World.setThs, World.ths, Threads.syncLoad, Threads.setCaus, Threads.modifyActive, Threads.modify]
        exact ⟨⟨hfr, rfl, hl⟩, view4_of hfr hl _ (map_set_same hoa hov)⟩
    repeat' split at h
    all_goals first
      | (cases h; done)
      | (cases h; exact fin _ _ _ ‹_›)

/-- a store: its value is the most recent one -/
theorem primEffect_store_view {w w1 : World} {x : Nat} {v : Int} {o : Ord} {r : Ret}
    (h : w.primEffect x (.store v o) = .ok (w1, r)) :
    ∃ l full c, (view4 w).objs[x]? = some (.atomic l full c) ∧ Keep w w1 ∧ r = .unit ∧
      (full = true →
        view4 w1 = { view4 w with objs := (view4 w).objs.set x (.atomic (w.cfg.ty.intoU64 v) true (c + 1)) }) := by
  unfold World.primEffect at h
  simp only [Prim.synchronizes, Prim.candidates, if_true, bind, Except.bind, pure, Except.pure, Prim.effect] at h
  split at h
  · cases h
  · next a ha =>
    have hoa : w.exec.objs[x]? = some (.atomic a) := getAtomic_ok4 ha
    split at h
    · cases h
    · next v2 hv2 =>
      split at hv2
      · cases hv2
      · next a1 h1 =>
        cases hv2
        cases h
        have e1 : a1.stores = a.stores ∧ a1.cnt = a.cnt := by
          unfold Atomic.trackStore at h1
          simp only [bind, Except.bind, pure, Except.pure, throw, throwThe, MonadExceptOf.throw,
            Atomic.mutatingCheck] at h1
          repeat' split at h1
          all_goals first
            | (cases h1; done)
            | (cases h1; exact ⟨rfl, rfl⟩)
        have hvw : (view4 w).objs[x]? = some (.atomic a.latestValue (a.stores.length == NH) a.cnt) := by
          simp [view4, hoa, ov4]
        have hfr : Fr w ((w.sync.setObj x (.atomic (a1.store w.sync.ths Sync.new (w.cfg.ty.intoU64 v) o))).setThs
            w.sync.ths) := ⟨rfl, rfl, rfl, rfl, rfl⟩
        have hl : ((w.sync.setObj x (.atomic (a1.store w.sync.ths Sync.new (w.cfg.ty.intoU64 v) o))).setThs
            w.sync.ths).exec.threads.threads.length = w.exec.threads.threads.length := sync_len w
        refine ⟨_, _, _, hvw, ⟨hfr, rfl, hl⟩, rfl, ?_⟩
        intro hfull
        refine (view4_of hfr hl _ rfl).trans ?_
        show ({ view4 w with objs := (w.exec.objs.set x _).map ov4 } : View) = _
        rw [List.map_set]
        have hlen : a.stores.length = NH := by simpa using hfull
        have hov : ov4 (.atomic (a1.store w.sync.ths Sync.new (w.cfg.ty.intoU64 v) o)) =
            .atomic (w.cfg.ty.intoU64 v) true (a.cnt + 1) := by
          have hi : Atomic.index a.cnt < a.stores.length := by
            rw [hlen]; unfold Atomic.index; exact Nat.mod_lt _ (by decide)
          simp only [ov4, Atomic.store, Atomic.latestValue, Atomic.storeAt, e1.1, e1.2, Nat.add_sub_cancel,
            List.length_set, hlen, beq_self_eq_true]
          simp [List.getD, hi]
        rw [hov]
        rfl

end Refine4
end LoomVerif

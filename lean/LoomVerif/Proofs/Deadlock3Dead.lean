/-
Deadlock soundness, FUTURES fragment, part 5: the reference side.  When, in the middle of a stage, every loom thread
other than the active one is blocked or terminated, the reference thread of each of them is NOT `SC.enabled`: a
thread blocked past the branch point of `join b` stands for a `join` of an unfinished thread; a thread blocked in
the second half of the `Notify::wait` of a `block_on` stands for a `blockOn` in phase 4 whose call has not been
notified (no notification is in flight: a thread about to deliver one is never blocked); a thread blocked on the
mutex of a slot or of an `AtomicWaker` cannot exist (the holder of the mutex is never blocked).
-/
import LoomVerif.Proofs.Deadlock3Mid

set_option linter.unusedSimpArgs false
set_option linter.unusedVariables false

namespace LoomVerif
namespace Deadlock3
open Refine Refine4 Deadlock

/-! ### `SC.enabled` -/

section
variable {p : Prog} {s : SC.St} {t : Nat}

theorem en_unstarted (h : (s.th t).started = false) : SC.enabled p s t = false := by
  unfold SC.enabled; simp [h]

theorem en_finished (h : (s.th t).finished = true) : SC.enabled p s t = false := by
  unfold SC.enabled; simp [h]

theorem en_join {b : Nat} (hpl : Plain (s.th t)) (hop : SC.opOf p s t = some (.join b))
    (hf : (s.th b).finished = false) : SC.enabled p s t = false := by
  unfold SC.enabled
  simp only [hop, hpl.1, hpl.2.1, hf]
  simp

theorem en_bo4 {f m : Nat} (hpl : Plain (s.th t)) (hop : SC.opOf p s t = some (.blockOn f m))
    (hph : (s.th t).phase = 4) (hn : (s.futs.getD f {}).notified = false) : SC.enabled p s t = false := by
  unfold SC.enabled
  simp only [hop, hpl.1, hpl.2.1, hph, hn]
  simp

end

/-! ### a reference state that differs from `s` by the phase of one thread only -/

/-- `s'` is `s` up to the clocks and the phase (and the clock) of thread `b0` -/
structure PhaseOnly (s s' : SC.St) (b0 : Nat) : Prop where
  verdict : s'.verdict = s.verdict
  oth : ∀ u, u ≠ b0 → dth4 (s'.th u) = dth4 (s.th u)
  fin : ∀ u, (s'.th u).finished = (s.th u).finished
  started : ∀ u, (s'.th u).started = (s.th u).started
  futs : ∀ f, dfut (s'.futs.getD f {}) = dfut (s.futs.getD f {})

theorem PhaseOnly.refl (s : SC.St) (b0 : Nat) : PhaseOnly s s b0 :=
  ⟨rfl, fun _ _ => rfl, fun _ => rfl, fun _ => rfl, fun _ => rfl⟩

theorem phaseOnly_of_data {s s' : SC.St} {b0 : Nat} {g : DTh4 → DTh4}
    (hd : data4 s' = (data4 s).modTh b0 g)
    (hg : ∀ h, (g h).finished = h.finished ∧ (g h).started = h.started) : PhaseOnly s s' b0 := by
  have hoth : ∀ u, u ≠ b0 → dth4 (s'.th u) = dth4 (s.th u) := by
    intro u hu
    rw [th_of_data hd u, SCData4.th_modTh_ne _ _ hu, data4_th]
  have hself : dth4 (s'.th b0) = dth4 (s.th b0) ∨ dth4 (s'.th b0) = g (dth4 (s.th b0)) := by
    rw [th_of_data hd b0]
    by_cases hb : b0 < (data4 s).ths.length
    · right; rw [SCData4.th_modTh_self _ _ _ hb, data4_th]
    · left
      have : (data4 s).modTh b0 g = data4 s := by
        simp only [SCData4.modTh]
        rw [List.modify_eq_self (by omega)]
      rw [this, data4_th]
  refine ⟨?_, hoth, ?_, ?_, ?_⟩
  · rw [verdict_of_data hd]; rfl
  · intro u
    by_cases hu : u = b0
    · subst hu
      rcases hself with e | e
      · exact congrArg DTh4.finished e
      · have := congrArg DTh4.finished e
        exact this.trans (hg _).1
    · exact congrArg DTh4.finished (hoth u hu)
  · intro u
    by_cases hu : u = b0
    · subst hu
      rcases hself with e | e
      · exact congrArg DTh4.started e
      · have := congrArg DTh4.started e
        exact this.trans (hg _).2
    · exact congrArg DTh4.started (hoth u hu)
  · intro f
    rw [fut_of_data hd f, SCData4.fut_modTh, data4_fut]

/-! ### the waiting positions, inverted -/

theorem wpos_join {p : Prog} {c : TCtl} {b : Nat} (h : wpos p c = some (.join b)) :
    opOfCtl p c = some (.join b) ∧ c.stage = 1 := by
  unfold wpos at h
  cases ho : opOfCtl p c with
  | none => rw [ho] at h; cases h
  | some op =>
    rw [ho] at h
    simp only at h
    unfold wposT at h
    split at h <;> first | (cases h; done) | (cases h; exact ⟨rfl, by assumption⟩)

theorem wpos_call {p : Prog} {c : TCtl} {f : Nat} (h : wpos p c = some (.call f)) :
    ∃ m, opOfCtl p c = some (.blockOn f m) ∧ (c.stage = 16 ∨ c.stage = 53) := by
  unfold wpos at h
  cases ho : opOfCtl p c with
  | none => rw [ho] at h; cases h
  | some op =>
    rw [ho] at h
    simp only at h
    unfold wposT at h
    split at h
    all_goals first
      | (cases h; done)
      | (cases h; exact ⟨_, rfl, .inl (by assumption)⟩)
      | (cases h; exact ⟨_, rfl, .inr (by assumption)⟩)

/-- a thread that waits on a mutex of future `f` is at an operation on `f` -/
theorem wpos_mutex {p : Prog} {c : TCtl} {f : Nat} (h : wpos p c = some (.slotM f) ∨ wpos p c = some (.awM f)) :
    ∃ op k, opOfCtl p c = some op ∧ futKind op = some (f, k) := by
  unfold wpos at h
  cases ho : opOfCtl p c with
  | none => rw [ho] at h; rcases h with h | h <;> cases h
  | some op =>
    rw [ho] at h
    simp only at h
    refine ⟨op, ?_⟩
    unfold wposT at h
    split at h
    all_goals first
      | (rcases h with h | h <;> cases h; done)
      | (rcases h with h | h <;> cases h <;> exact ⟨_, rfl, rfl⟩)

theorem opOk4_fut {p : Prog} {op : Op} {f k : Nat} (h : opOk4 p op = true) (hk : futKind op = some (f, k)) :
    f < p.cfg.nFutures := by
  cases op <;> simp only [futKind] at hk <;> try (cases hk; done)
  all_goals
    simp only [Option.some.injEq, Prod.mk.injEq] at hk
    obtain ⟨rfl, _⟩ := hk
    simp only [opOk4, Bool.and_eq_true, decide_eq_true_eq] at h
    first | exact h | exact h.2

theorem pendN_op {p : Prog} {c : TCtl} {k : Nat} (h : pendN p c = some k) : opOfCtl p c ≠ none := by
  intro hn
  unfold pendN at h
  rw [hn] at h
  cases h

theorem OpAt4.nowait {p : Prog} {sp : List (Nat × Nat × Nat)} {futs : List FutSt} {c : TCtl} {op : Operation}
    (h : OpAt4 p sp futs c (some op)) (hw : wpos p c = none) : op.blocking = false := by
  unfold OpAt4 at h
  rw [hw] at h
  exact h op rfl

/-- the futures' table matters only through the `Notify` of the call a thread waits in -/
theorem OpAt4.futs {p : Prog} {sp : List (Nat × Nat × Nat)} {futs futs' : List FutSt} {c : TCtl}
    {o : Option Operation} (h : OpAt4 p sp futs c o)
    (hf : ∀ f, wpos p c = some (.call f) → (futs'.getD f {}).notify = (futs.getD f {}).notify) :
    OpAt4 p sp futs' c o := by
  unfold OpAt4 at h ⊢
  cases hw : wpos p c with
  | none => rw [hw] at h; exact h
  | some x =>
    rw [hw] at h
    cases x with
    | join b => exact h
    | call f => simp only at h ⊢; rw [hf f hw]; exact h
    | slotM f => exact h
    | awM f => exact h

/-! ### the threads of the twin and their reference threads -/

section
variable {w w1 : World} {s s' : SC.St} {G : TCtl → TCtl} {Fu : List FutSt}

/-- what the relation says about the reference thread of twin thread `i` -/
theorem thr4 (hR : R4 w s) {i : Nat} (hi : i < w.ctl.length) :
    ThRel4 w.prog (w.ctlOf i) (dth4 (s.th (w.ctlOf i).body)) := by
  obtain ⟨_, h2⟩ := hR.x.thr i hi
  have e : (data4 s).ths.getD (w.ctlOf i).body {} = dth4 (s.th (w.ctlOf i).body) := data4_th s _
  rw [← e]; exact h2

theorem fin_zero_of_op (hR : R4 w s) {i : Nat} (hi : i < w.ctl.length) (hop : opOfCtl w.prog (w.ctlOf i) ≠ none) :
    (w.ctlOf i).fin = 0 := by
  apply Classical.byContradiction
  intro hne
  exact hop (hR.x.epi i hi hne)

/-- a twin thread that has an operation to run stands for a started, unfinished reference thread -/
theorem alive_of_op (hR : R4 w s) {i : Nat} (hi : i < w.ctl.length) (hop : opOfCtl w.prog (w.ctlOf i) ≠ none) :
    (s.th (w.ctlOf i).body).started = true ∧ (s.th (w.ctlOf i).body).finished = false := by
  have h := thr4 hR hi
  refine ⟨h.1, ?_⟩
  have : (s.th (w.ctlOf i).body).finished = decide (10 ≤ (w.ctlOf i).fin) := h.2.1
  rw [this, fin_zero_of_op hR hi hop]; rfl

/-- a thread other than the active one that is blocked or terminated in the middle of a stage: blocked ⇒ at a
waiting position; terminated ⇒ at the end of its epilogue -/
theorem stuck_pos (c : Ctx w s) {H : Option Nat} {K : List Nat} (m : Mid w w1 G H K Fu) {j : Nat}
    (hj : j < w.ctl.length) (hne : j ≠ w.tid)
    (hst : (w1.ths.get j).state = .blocked ∨ (w1.ths.get j).state = .terminated) :
    wpos w.prog (w.ctlOf j) ≠ none ∨ opOfCtl w.prog (w.ctlOf j) = none := by
  rcases hst with hb | ht
  · left
    intro hw
    obtain ⟨op, h1, h2, _⟩ := m.g j hb
    have h1' : (w.ths.get j).operation = some op := by rw [← (m.oth j hne).1]; exact h1
    have hO := (c.j.thr j hj).opn hne
    rw [h1'] at hO
    rw [hO.nowait hw] at h2
    cases h2
  · right
    have ht' := (m.oth j hne).2 ht
    have h99 := (c.j.thr j hj).term ht'
    exact c.r.x.epi j hj (by
      show (w.ctlOf j).fin ≠ 0
      omega)

/-- the notification of a join handle: when the handle is not notified in the middle of the stage, the joined
thread has not passed its notification -/
theorem join_unfinished (c : Ctx w s) {H : Option Nat} (m : Mid w w1 G H [] Fu) {i b t n : Nat}
    (hi : i < w.ctl.length) (hop : opOfCtl w.prog (w.ctlOf i) = some (.join b)) (hmem : (b, t, n) ∈ w.spawned)
    (hun : Unavail (ovW w1) n) : (s.th b).finished = false := by
  obtain ⟨ht, hb, nt, ds, hv, _⟩ := c.r.sp.sp b t n hmem
  have hv' : (ovW w)[n]? = some (.notify false nt ds) := hv
  -- the handle is not notified in `w` either
  have hnt : nt = false := by
    cases nt with
    | false => rfl
    | true =>
      obtain ⟨ds', h'⟩ := m.nmono n false ds (by simp) hv'
      rcases hun with ⟨l, hl⟩ | ⟨sp, d2, hn⟩
      · rw [h'] at hl; cases hl
      · rw [h'] at hn; cases hn
  subst hnt
  have hlt : (w.ctlOf t).fin < 10 := by
    apply Classical.byContradiction
    intro hge
    rcases c.j.jnd b t n hmem (by omega) with ⟨sp, d2, hv2⟩ | ⟨j, k, hj, hk, hop'⟩
    · rw [hv'] at hv2; cases hv2
    · obtain ⟨e1, e2⟩ := c.wf.join_unique hop'
        (show (w.prog.threads.getD (w.ctlOf i).body [])[(w.ctlOf i).pc]? = _ from hop)
      have := c.r.x.inj j i hj hi e1
      subst this
      omega
  have hf : (s.th (w.ctlOf t).body).finished = decide (10 ≤ (w.ctlOf t).fin) := (thr4 c.r ht).2.1
  have hb' : (w.ctlOf t).body = b := hb
  rw [hb'] at hf
  rw [hf]
  simp; omega

/-- **every thread other than the active one that is blocked or terminated in the middle of a stage stands for a
reference thread that is not enabled** — in `s`, and in any state that differs from `s` by the phase of the
active thread's reference thread only — provided ALL the other threads are blocked or terminated, the active
thread holds no mutex and is not about to deliver a notification -/
theorem stuck_other (c : Ctx w s) (m : Mid w w1 G none [] Fu) (hp : PhaseOnly s s' (w.ctlOf w.tid).body)
    (hpend : pendN w.prog (w.ctlOf w.tid) = none)
    (hstuck : ∀ j, j < w.ctl.length → j ≠ w.tid →
      (w1.ths.get j).state = .blocked ∨ (w1.ths.get j).state = .terminated)
    {i : Nat} (hi : i < w.ctl.length) (hne : i ≠ w.tid) :
    SC.enabled w.prog s' (w.ctlOf i).body = false ∧
    ((w1.ths.get i).state ≠ .terminated →
      (s'.th (w.ctlOf i).body).started = true ∧ (s'.th (w.ctlOf i).body).finished = false) := by
  have hbody : (w.ctlOf i).body ≠ (w.ctlOf w.tid).body := fun e => hne (c.r.x.inj i w.tid hi c.act e)
  have hd := hp.oth _ hbody
  have hrel := thr4 c.r hi
  have hpl' : Plain (s'.th (w.ctlOf i).body) := plain_of (by rw [hd]; exact hrel.2.2.1)
  rcases hstuck i hi hne with hb | ht
  · -- blocked: at a waiting position
    obtain ⟨op, h1, h2, h3⟩ := m.g i hb
    have h1' : (w.ths.get i).operation = some op := by rw [← (m.oth i hne).1]; exact h1
    have hO := (c.j.thr i hi).opn hne
    rw [h1'] at hO
    cases hw : wpos w.prog (w.ctlOf i) with
    | none => rw [hO.nowait hw] at h2; cases h2
    | some x =>
      have hopn : opOfCtl w.prog (w.ctlOf i) ≠ none := by
        intro e; rw [wpos_none e] at hw; cases hw
      obtain ⟨ha1, ha2⟩ := alive_of_op c.r hi hopn
      have halive : (s'.th (w.ctlOf i).body).started = true ∧ (s'.th (w.ctlOf i).body).finished = false :=
        ⟨by rw [hp.started]; exact ha1, by rw [hp.fin]; exact ha2⟩
      refine ⟨?_, fun _ => halive⟩
      unfold OpAt4 at hO
      rw [hw] at hO
      cases x with
      | join b =>
        obtain ⟨t, n, bl, hmem, e⟩ := hO
        cases e
        obtain ⟨hopc, hst⟩ := wpos_join hw
        have hfin := join_unfinished c m hi hopc hmem h3
        have hah : aheadOf (opOfCtl w.prog (w.ctlOf i)) (w.ctlOf i).stage = none := by rw [hopc, hst]; rfl
        obtain ⟨_, hpc, _, _⟩ := c.r.results i hi hah
        have hpc' : (s'.th (w.ctlOf i).body).pc = (w.ctlOf i).pc := by
          have := congrArg DTh4.pc hd
          exact this.trans hpc
        have hopS : SC.opOf w.prog s' (w.ctlOf i).body = some (.join b) := by
          unfold SC.opOf; rw [hpc']; exact hopc
        exact en_join hpl' hopS (by rw [hp.fin]; exact hfin)
      | call f =>
        obtain ⟨bl, e⟩ := hO
        cases e
        obtain ⟨md, hopc, hst⟩ := wpos_call hw
        obtain ⟨hph, nt, ds, hv, hiff, _⟩ := c.r.no_lost_wakeup c.wf.1 i hi hopc hst
        have hv' : (ovW w)[(w.futs.getD f {}).notify]? = some (.notify true nt ds) := hv
        have hnt : nt = false := by
          cases nt with
          | false => rfl
          | true =>
            obtain ⟨ds', h'⟩ := m.nmono _ true ds (by simp) hv'
            rcases h3 with ⟨l, hl⟩ | ⟨sp, d2, hn⟩
            · rw [h'] at hl; cases hl
            · rw [h'] at hn; cases hn
        have hnf : (s.futs.getD f {}).notified = false := by
          cases hh : (s.futs.getD f {}).notified with
          | false => rfl
          | true =>
            exfalso
            rcases hiff.1 hh with e | ⟨j, hj, hpj⟩
            · rw [hnt] at e; cases e
            · by_cases hjt : j = w.tid
              · subst hjt; rw [hpend] at hpj; cases hpj
              · rcases stuck_pos c m hj hjt (hstuck j hj hjt) with h | h
                · exact h (wpos_of_pendN hpj)
                · exact pendN_op hpj h
        have hah : aheadOf (opOfCtl w.prog (w.ctlOf i)) (w.ctlOf i).stage = none := by
          rw [hopc]; rcases hst with e | e <;> rw [e] <;> rfl
        obtain ⟨_, hpc, _, _⟩ := c.r.results i hi hah
        have hpc' : (s'.th (w.ctlOf i).body).pc = (w.ctlOf i).pc := (congrArg DTh4.pc hd).trans hpc
        have hph' : (s'.th (w.ctlOf i).body).phase = 4 := (congrArg DTh4.phase hd).trans hph
        have hopS : SC.opOf w.prog s' (w.ctlOf i).body = some (.blockOn f md) := by
          unfold SC.opOf; rw [hpc']; exact hopc
        have hnf' : (s'.futs.getD f {}).notified = false := by
          have := congrArg DFut.notified (hp.futs f)
          exact this.trans hnf
        exact en_bo4 hpl' hopS hph' hnf'
      | slotM f =>
        exfalso
        cases hO
        obtain ⟨op', k, hop', hk⟩ := wpos_mutex (.inl hw)
        have hf := opOk4_fut (c.wf.1.opOk hop') hk
        obtain ⟨⟨l, hl⟩, _⟩ := c.j.mtx f hf
        obtain ⟨l', hl'⟩ := m.mkind _ _ hl
        rcases h3 with ⟨t, ht⟩ | ⟨sp, d2, hn⟩
        · by_cases htt : t = w.tid
          · subst htt
            have := m.mine _ ht
            cases this
          · obtain ⟨htl, hh⟩ := c.j.hold _ t (m.locks _ t ht htt)
            rcases stuck_pos c m htl htt (hstuck t htl htt) with h | h
            · exact h (wpos_of_holds hh)
            · rw [holdsAt_none h] at hh; cases hh
        · rw [hl'] at hn; cases hn
      | awM f =>
        exfalso
        cases hO
        obtain ⟨op', k, hop', hk⟩ := wpos_mutex (.inr hw)
        have hf := opOk4_fut (c.wf.1.opOk hop') hk
        obtain ⟨_, ⟨l, hl⟩⟩ := c.j.mtx f hf
        obtain ⟨l', hl'⟩ := m.mkind _ _ hl
        rcases h3 with ⟨t, ht⟩ | ⟨sp, d2, hn⟩
        · by_cases htt : t = w.tid
          · subst htt
            have := m.mine _ ht
            cases this
          · obtain ⟨htl, hh⟩ := c.j.hold _ t (m.locks _ t ht htt)
            rcases stuck_pos c m htl htt (hstuck t htl htt) with h | h
            · exact h (wpos_of_holds hh)
            · rw [holdsAt_none h] at hh; cases hh
        · rw [hl'] at hn; cases hn
  · -- terminated: finished
    refine ⟨?_, fun h => absurd ht h⟩
    have ht' := (m.oth i hne).2 ht
    have h99 := (c.j.thr i hi).term ht'
    have hf : (s.th (w.ctlOf i).body).finished = decide (10 ≤ (w.ctlOf i).fin) := hrel.2.1
    refine en_finished ?_
    rw [hp.fin, hf, h99]; rfl

/-- a reference thread that no loom thread runs has not started -/
theorem idle_unstarted (hR : R4 w s) {t : Nat} (hidle : ∀ i, i < w.ctl.length → (w.ctlOf i).body ≠ t) :
    (s.th t).started = false := by
  have hdef : dth4 (s.th t) = {} := by
    rw [← data4_th]
    show (data4 s).ths.getD t {} = {}
    by_cases ht : t < w.prog.threads.length
    · exact hR.x.idle t ht hidle
    · have hl : (data4 s).ths.length = w.prog.threads.length := hR.x.len
      have : (data4 s).ths[t]? = none := List.getElem?_eq_none (by omega)
      simp [List.getD, this]
  exact congrArg DTh4.started hdef

/-- **the deadlock test in the reference state**: every loom thread other than the active one is blocked or
terminated in the middle of the stage, one of the loom threads is not terminated, and the reference thread of the
active thread is not enabled in `s'` (alive unless the active thread terminates): then `s'` is deadlocked -/
theorem dead_of_stuck (c : Ctx w s) (m : Mid w w1 G none [] Fu) (hp : PhaseOnly s s' (w.ctlOf w.tid).body)
    (hpend : pendN w.prog (w.ctlOf w.tid) = none)
    (hstuck : ∀ j, j < w.ctl.length → j ≠ w.tid →
      (w1.ths.get j).state = .blocked ∨ (w1.ths.get j).state = .terminated)
    (hself : SC.enabled w.prog s' (w.ctlOf w.tid).body = false)
    (halive : (∀ j, j < w.ctl.length → j ≠ w.tid → (w1.ths.get j).state = .terminated) →
      (s'.th (w.ctlOf w.tid).body).started = true ∧ (s'.th (w.ctlOf w.tid).body).finished = false) :
    Dead4 w.prog s' := by
  refine ⟨by rw [hp.verdict]; exact c.r.verdict, ?_, ?_⟩
  · intro t
    by_cases hex : ∃ i, i < w.ctl.length ∧ (w.ctlOf i).body = t
    · obtain ⟨i, hi, rfl⟩ := hex
      by_cases hit : i = w.tid
      · subst hit; exact hself
      · exact (stuck_other c m hp hpend hstuck hi hit).1
    · refine en_unstarted ?_
      rw [hp.started]
      exact idle_unstarted c.r (fun i hi e => hex ⟨i, hi, e⟩)
  · by_cases hall : ∀ j, j < w.ctl.length → j ≠ w.tid → (w1.ths.get j).state = .terminated
    · exact ⟨_, halive hall⟩
    · have : ∃ j, j < w.ctl.length ∧ j ≠ w.tid ∧ (w1.ths.get j).state ≠ .terminated := by
        apply Classical.byContradiction
        intro hn
        apply hall
        intro j hj hjt
        apply Classical.byContradiction
        intro hnt
        exact hn ⟨j, hj, hjt, hnt⟩
      obtain ⟨j, hj, hjt, hnt⟩ := this
      exact ⟨_, (stuck_other c m hp hpend hstuck hj hjt).2 hnt⟩

end

end Deadlock3
end LoomVerif

/-
Refinement, WAIT fragment, part 24: back from the data semantics `SCData2` to the reference semantics proper.
`SC.enabled` reads only the data; every step of `SCData2.stepL` / `SCData2.spuriousL` from the data of a reference
state is the data of THE step of `SC.step` / `SC.spurious` of the same thread, unless that step stops with a
data-race verdict; hence every run `Run2` of the data semantics from the initial state is the data of an execution
of `Spec/SC.lean` (steps of enabled threads and spurious returns), or has a prefix whose reference execution ends in
a race verdict.
-/
import LoomVerif.Proofs.Refine2Data

set_option linter.unusedSimpArgs false
set_option linter.unusedVariables false

namespace LoomVerif
namespace Refine2
open Refine

/-- the operations of the WAIT fragment -/
def isFrag2 : Op → Bool
  | .spawn _ | .join _ | .lock _ | .unlock _ | .tryLock _ | .cellRead _ | .cellWrite _ _ | .ifEq .. => true
  | .send .. | .recv _ | .tryRecv _ | .dropRx _ | .nWait _ | .nNotify _ | .park | .unpark _ => true
  | .cvWait .. | .cvOne _ | .cvAll _ => true
  | _ => false

/-- the thread owns no thread-local and is not inside a multi-phase operation -/
def FragTh2 (h : SC.Th) : Prop := h.locals = [] ∧ h.phase = 0

def FragAll (s : SC.St) : Prop := ∀ u, FragTh2 (s.th u)

/-- no verdict has been reached and all threads satisfy the fragment invariant -/
def FragSt2 (s : SC.St) : Prop := s.verdict = none ∧ FragAll s

theorem fragSt2_init (p : Prog) : FragSt2 (SC.init p) := by
  refine ⟨rfl, fun t => ?_⟩
  unfold SC.St.th SC.init
  simp only [List.getD, List.getElem?_map]
  cases (List.range p.threads.length)[t]? with
  | none => exact ⟨rfl, rfl⟩
  | some i => exact ⟨rfl, rfl⟩

theorem st_th_modTh (s : SC.St) (t u : Nat) (f : SC.Th → SC.Th) :
    (s.modTh t f).th u = if t = u ∧ u < s.ths.length then f (s.th u) else s.th u := by
  simp only [SC.St.modTh, SC.St.th, List.getD, List.getElem?_modify]
  by_cases hu : u < s.ths.length
  · by_cases e : t = u <;> simp [hu, e]
  · have : s.ths[u]? = none := List.getElem?_eq_none (by omega)
    simp [this, hu]

theorem FragAll.modTh {s : SC.St} {t : Nat} {f : SC.Th → SC.Th}
    (hf : ∀ a, (f a).locals = a.locals ∧ (f a).phase = a.phase) (h : FragAll s) : FragAll (s.modTh t f) := by
  intro u
  rw [st_th_modTh]
  split
  · exact ⟨(hf _).1.trans (h u).1, (hf _).2.trans (h u).2⟩
  · exact h u

theorem FragAll.tick {s : SC.St} {t : Nat} (h : FragAll s) : FragAll (s.tick t) :=
  FragAll.modTh (fun _ => ⟨rfl, rfl⟩) h
theorem FragAll.acquire {s : SC.St} {t : Nat} {c : VV} (h : FragAll s) : FragAll (s.acquire t c) :=
  FragAll.modTh (fun _ => ⟨rfl, rfl⟩) h
theorem FragAll.ret {s : SC.St} {t : Nat} {r : Ret} (h : FragAll s) : FragAll (s.ret t r) :=
  FragAll.modTh (fun _ => ⟨rfl, rfl⟩) h
theorem FragAll.fields {s s' : SC.St} (e : s'.ths = s.ths) (h : FragAll s) : FragAll s' := by
  intro u
  have : s'.th u = s.th u := by unfold SC.St.th; rw [e]
  rw [this]; exact h u
theorem FragAll.foldl_modTh {α} (l : List α) (g : SC.St → α → Nat) (f : SC.St → α → SC.Th → SC.Th)
    (hf : ∀ s x a, (f s x a).locals = a.locals ∧ (f s x a).phase = a.phase) :
    ∀ s, FragAll s → FragAll (l.foldl (fun s x => s.modTh (g s x) (f s x)) s) := by
  induction l with
  | nil => intro s h; exact h
  | cons a l ih => intro s h; exact ih _ (FragAll.modTh (hf s a) h)

/-- list-level reading of `FragAll` -/
def FragAllL (l : List SC.Th) : Prop := ∀ u, FragTh2 (l.getD u {})

theorem FragAllL.modify {l : List SC.Th} {t : Nat} {f : SC.Th → SC.Th}
    (hf : ∀ a, (f a).locals = a.locals ∧ (f a).phase = a.phase) (h : FragAllL l) : FragAllL (l.modify t f) := by
  intro u
  by_cases e : u = t
  · subst e
    by_cases hu : u < l.length
    · have : (l.modify u f).getD u {} = f (l.getD u {}) := by
        simp [List.getD, List.getElem?_modify, List.getElem?_eq_getElem hu]
      rw [this]
      exact ⟨(hf _).1.trans (h u).1, (hf _).2.trans (h u).2⟩
    · have : (l.modify u f).getD u {} = l.getD u {} := by
        simp [List.getD, List.getElem?_eq_none (Nat.le_of_not_lt hu)]
      rw [this]; exact h u
  · have : (l.modify t f).getD u {} = l.getD u {} := by
      have : ¬ t = u := fun e' => e e'.symm
      simp [List.getD, List.getElem?_modify, this]
    rw [this]; exact h u

macro "frag_all" h:ident : tactic => `(tactic|
  (show FragAllL _
   dsimp only [SC.St.ret, SC.St.acquire, SC.St.tick, SC.St.modTh]
   repeat (first | exact $h | refine FragAllL.modify (fun _ => ⟨rfl, rfl⟩) ?_)))

/-! ### projection of the updates -/

theorem data2_fields {s s' : SC.St} (h1 : s'.ths = s.ths) (h2 : s'.cells = s.cells) (h3 : s'.mutex = s.mutex)
    (h4 : s'.cvQueue = s.cvQueue) (h5 : s'.nFlag = s.nFlag) (h6 : s'.nSpurUsed = s.nSpurUsed)
    (h7 : s'.chan = s.chan) (h8 : s'.rxDropped = s.rxDropped) (h9 : s'.chanLeft = s.chanLeft) :
    data2 s' = data2 s := by
  unfold data2; rw [h1, h2, h3, h4, h5, h6, h7, h8, h9]

theorem getD_map_chan (c : List (List (Int × VV))) (q : Nat) :
    (c.map fun l => l.map (·.1)).getD q [] = (c.getD q []).map (·.1) := by
  simp only [List.getD, List.getElem?_map]
  cases c[q]? <;> rfl

theorem data2_chan_getD (s : SC.St) (q : Nat) : (data2 s).chan.getD q [] = (s.chan.getD q []).map (·.1) :=
  getD_map_chan _ _

theorem map_set_chan (c : List (List (Int × VV))) (q : Nat) (x : List (Int × VV)) :
    (c.set q x).map (fun l => l.map (·.1)) = (c.map fun l => l.map (·.1)).set q (x.map (·.1)) := by
  simp [List.map_set]

theorem verdict_foldl_acquire (l : List (Int × VV)) (t : Nat) :
    ∀ s : SC.St, (l.foldl (fun s m => s.acquire t m.2) s).verdict = s.verdict ∧
      data2 (l.foldl (fun s m => s.acquire t m.2) s) = data2 s ∧
      (FragAll s → FragAll (l.foldl (fun s m => s.acquire t m.2) s)) ∧
      (l.foldl (fun s m => s.acquire t m.2) s).chan = s.chan ∧
      (l.foldl (fun s m => s.acquire t m.2) s).rxDropped = s.rxDropped := by
  induction l with
  | nil => intro s; exact ⟨rfl, rfl, id, rfl, rfl⟩
  | cons a l ih =>
    intro s
    obtain ⟨h1, h2, h3, h4, h5⟩ := ih (s.acquire t a.2)
    exact ⟨h1, h2.trans (data2_acquire _ _ _), fun h => h3 (FragAll.acquire h), h4, h5⟩

/-- the reference's `cvAll` loop, on the data -/
theorem data2_foldl_notify (l : List Nat) (c : VV) :
    ∀ s : SC.St,
      data2 (l.foldl (fun s w => s.modTh w fun h =>
        { h with cvNotified := h.cvWaiting.map (·.2), cvWaiting := none, vc := h.vc.join c }) s) =
        l.foldl (fun d w => d.modTh w SCData2.notifyTh) (data2 s) ∧
      (l.foldl (fun s w => s.modTh w fun h =>
        { h with cvNotified := h.cvWaiting.map (·.2), cvWaiting := none, vc := h.vc.join c }) s).verdict = s.verdict ∧
      (FragAll s → FragAll (l.foldl (fun s w => s.modTh w fun h =>
        { h with cvNotified := h.cvWaiting.map (·.2), cvWaiting := none, vc := h.vc.join c }) s)) ∧
      (l.foldl (fun s w => s.modTh w fun h =>
        { h with cvNotified := h.cvWaiting.map (·.2), cvWaiting := none, vc := h.vc.join c }) s).cvQueue =
        s.cvQueue := by
  induction l with
  | nil => intro s; exact ⟨rfl, rfl, id, rfl⟩
  | cons a l ih =>
    intro s
    simp only [List.foldl_cons]
    obtain ⟨h1, h2, h3, h4⟩ := ih (s.modTh a fun h =>
      { h with cvNotified := h.cvWaiting.map (·.2), cvWaiting := none, vc := h.vc.join c })
    refine ⟨?_, h2, fun h => h3 (FragAll.modTh (fun _ => ⟨rfl, rfl⟩) h), h4⟩
    rw [h1, data2_modTh _ _ _ SCData2.notifyTh (fun _ => rfl)]

theorem foldl_modTh_eq (l : List Nat) (d : SCData2) (f : DTh2 → DTh2) :
    l.foldl (fun d w => d.modTh w f) d = { d with ths := l.foldl (fun ths b => ths.modify b f) d.ths } := by
  induction l generalizing d with
  | nil => rfl
  | cons a l ih =>
    simp only [List.foldl_cons]
    rw [ih]
    rfl

/-! ### `SC.enabled` on the data -/

theorem SC.enabled_data2 {p : Prog} {s : SC.St} {t : Nat} (hv : s.verdict = none)
    (hop : ∀ op, SC.opOf p s t = some op → isFrag2 op = true) :
    SC.enabled p s t = SCData2.enabled p (data2 s) t := by
  unfold SC.enabled SCData2.enabled
  rw [data2_opOf, data2_th]
  simp only [hv, Option.isNone_none, Bool.true_and, dth2]
  cases hw : (s.th t).cvWaiting with
  | some x => rfl
  | none =>
    cases hn : (s.th t).cvNotified with
    | some m => rfl
    | none =>
      simp only
      cases ho : SC.opOf p s t with
      | none => rfl
      | some op =>
        have := hop op ho
        cases op <;> simp only [isFrag2, Bool.false_eq_true] at this
        case join b => simp only [data2_th, dth2]
        case recv q =>
          simp only
          rw [data2_chan_getD]
          cases s.chan.getD q [] <;> rfl
        all_goals rfl

/-! ### struct updates, projected -/

theorem data2_setCellR (s : SC.St) (r : List VV) : data2 { s with cellR := r } = data2 s := rfl
theorem data2_setCells (s : SC.St) (c : List Int) (w : List VV) :
    data2 { s with cells := c, cellW := w } = { data2 s with cells := c } := rfl
theorem data2_setMutex (s : SC.St) (m : List (Option Nat)) :
    data2 { s with mutex := m } = { data2 s with mutex := m } := rfl
theorem data2_setMutexRel (s : SC.St) (m : List (Option Nat)) (r : List VV) :
    data2 { s with mutex := m, mutexRel := r } = { data2 s with mutex := m } := rfl
theorem data2_setCvWait (s : SC.St) (m : List (Option Nat)) (r : List VV) (q : List (List Nat)) :
    data2 { s with mutex := m, mutexRel := r, cvQueue := q } = { data2 s with mutex := m, cvQueue := q } := rfl
theorem data2_setCvQueue (s : SC.St) (q : List (List Nat)) :
    data2 { s with cvQueue := q } = { data2 s with cvQueue := q } := rfl
theorem data2_setNFlag (s : SC.St) (f : List Bool) : data2 { s with nFlag := f } = { data2 s with nFlag := f } := rfl
theorem data2_setNFlagRel (s : SC.St) (f : List Bool) (r : List VV) :
    data2 { s with nFlag := f, nRel := r } = { data2 s with nFlag := f } := rfl
theorem data2_setNSpur (s : SC.St) (f : List Bool) :
    data2 { s with nSpurUsed := f } = { data2 s with nSpurUsed := f } := rfl
theorem data2_setChanLeft (s : SC.St) (l : List Nat) :
    data2 { s with chanLeft := l } = { data2 s with chanLeft := l } := rfl
theorem data2_setChan (s : SC.St) (q : Nat) (x : List (Int × VV)) :
    data2 { s with chan := s.chan.set q x } = { data2 s with chan := (data2 s).chan.set q (x.map (·.1)) } := by
  unfold data2
  simp only [map_set_chan]
theorem data2_setChanRel (s : SC.St) (q : Nat) (x : List (Int × VV)) (r : List VV) :
    data2 { s with chan := s.chan.set q x, chanRel := r } =
      { data2 s with chan := (data2 s).chan.set q (x.map (·.1)) } := by
  unfold data2
  simp only [map_set_chan]
theorem data2_setChanDrop (s : SC.St) (q : Nat) (x : List (Int × VV)) (d : List Bool) :
    data2 { s with chan := s.chan.set q x, rxDropped := d } =
      { data2 s with chan := (data2 s).chan.set q (x.map (·.1)), rxDropped := d } := by
  unfold data2
  simp only [map_set_chan]

end Refine2
end LoomVerif

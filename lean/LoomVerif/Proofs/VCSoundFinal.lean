/-
Soundness of the vector clocks of the reference semantics, part 14: the run-level theorems of
`Proofs/VCSoundMain.lean`, restated with the declarative happens-before `HB` (exact message matching) through
`hb_iff_hba`.
-/
import LoomVerif.Proofs.VCSoundExact
import LoomVerif.Proofs.VCSoundSched

namespace LoomVerif
namespace VCSound
open Clocks

variable {p : Prog} {tr : List Step} {s : SC.St}

/-- the earlier accesses of another thread that satisfy `P` and do NOT happen before event `n` of the run -/
def UnordAt (p : Prog) (tr : List Step) (n : Nat) (t : Nat) (P : Event → Prop) : Prop :=
  ∃ (j : Nat) (a : Event), j < n ∧ (events p tr)[j]? = some a ∧ a.thr ≠ t ∧ P a ∧ ¬ HB (events p tr) j n

theorem unordAt_iff (hwf : WFX p) (hok : ChanOK p (events p tr)) (n t : Nat) (P : Event → Prop) :
    UnordAt p tr n t P ↔ UnordAtA p tr n t P := by
  unfold UnordAt UnordAtA
  constructor
  · rintro ⟨j, a, h1, h2, h3, h4, h5⟩
    exact ⟨j, a, h1, h2, h3, h4, fun h => h5 ((hb_iff_hba hwf hok).2 h)⟩
  · rintro ⟨j, a, h1, h2, h3, h4, h5⟩
    exact ⟨j, a, h1, h2, h3, h4, fun h => h5 ((hb_iff_hba hwf hok).1 h)⟩

theorem Run.clock_get_le_iff_hb (hwf : WFX p) (hlen : p.threads.length ≤ 5) (h : Run p tr s) {j i : Nat}
    {ej ei : Step} (hj : tr[j]? = some ej) (hi : tr[i]? = some ei) (ht : (ej.ev p).ticks = true) :
    ej.clock.get ej.t ≤ ei.clock.get ej.t ↔ HBeq (events p tr) j i :=
  (h.clock_get_le_iff hwf hlen hj hi ht).trans (hbeq_iff_hbaeq hwf (h.chanOK hwf hlen)).symm

theorem Run.clock_le_iff_hb (hwf : WFX p) (hlen : p.threads.length ≤ 5) (h : Run p tr s) {j i : Nat}
    {ej ei : Step} (hj : tr[j]? = some ej) (hi : tr[i]? = some ei) (ht : (ej.ev p).ticks = true) :
    ej.clock.le ei.clock ↔ HBeq (events p tr) j i :=
  (h.clock_le_iff hwf hlen hj hi ht).trans (hbeq_iff_hbaeq hwf (h.chanOK hwf hlen)).symm

theorem Run.vc_iff_hb (hwf : WFX p) (hlen : p.threads.length ≤ 5) (h : Run p tr s) {j : Nat} {ej : Step}
    (hj : tr[j]? = some ej) (ht : (ej.ev p).ticks = true) (u : Nat) :
    ej.clock.get ej.t ≤ (s.vc u).get ej.t ↔ Vis (events p tr) j u :=
  (h.vc_iff hwf hlen hj ht u).trans (vis_iff_visA hwf (h.chanOK hwf hlen)).symm

theorem ex_hbeq (hwf : WFX p) (hok : ChanOK p (events p tr)) {j : Nat} (P : Nat → Event → Prop) :
    (∃ (i : Nat) (a : Event), (events p tr)[i]? = some a ∧ P i a ∧ HBAeq (events p tr) j i) ↔
    (∃ (i : Nat) (a : Event), (events p tr)[i]? = some a ∧ P i a ∧ HBeq (events p tr) j i) := by
  constructor
  · rintro ⟨i, a, h1, h2, h3⟩; exact ⟨i, a, h1, h2, (hbeq_iff_hbaeq hwf hok).2 h3⟩
  · rintro ⟨i, a, h1, h2, h3⟩; exact ⟨i, a, h1, h2, (hbeq_iff_hbaeq hwf hok).1 h3⟩

theorem Run.orel_iff_hb (hwf : WFX p) (hlen : p.threads.length ≤ 5) (h : Run p tr s) {j : Nat} {ej : Step}
    (hj : tr[j]? = some ej) (ht : (ej.ev p).ticks = true) (o : Obj) (hd : ¬ Dead p (view s) o) :
    ej.clock.get ej.t ≤ ((view s).orel o).get ej.t ↔
      ∃ (i : Nat) (a : Event), (events p tr)[i]? = some a ∧ a.Rel o ∧ HBeq (events p tr) j i :=
  (h.orel_iff hwf hlen hj ht o hd).trans (ex_hbeq hwf (h.chanOK hwf hlen) (fun _ a => a.Rel o))

theorem Run.cellW_iff_hb (hwf : WFX p) (hlen : p.threads.length ≤ 5) (h : Run p tr s) (hv : s.verdict = none)
    {j : Nat} {ej : Step} (hj : tr[j]? = some ej) (ht : (ej.ev p).ticks = true) (c : Nat) :
    ej.clock.get ej.t ≤ (s.cellW.getD c VV.zero).get ej.t ↔
      ∃ (i : Nat) (a : Event), (events p tr)[i]? = some a ∧ a.isWrite c ∧ HBeq (events p tr) j i :=
  (h.cellW_iff hwf hlen hv hj ht c).trans (ex_hbeq hwf (h.chanOK hwf hlen) (fun _ a => a.isWrite c))

theorem Run.cellR_iff_hb (hwf : WFX p) (hlen : p.threads.length ≤ 5) (h : Run p tr s) (hv : s.verdict = none)
    {j : Nat} {ej : Step} (hj : tr[j]? = some ej) (ht : (ej.ev p).ticks = true) (c : Nat) :
    ej.clock.get ej.t ≤ (s.cellR.getD c VV.zero).get ej.t ↔
      ∃ (i : Nat) (a : Event), (events p tr)[i]? = some a ∧ a.isRead c ∧ HBeq (events p tr) j i :=
  (h.cellR_iff hwf hlen hv hj ht c).trans (ex_hbeq hwf (h.chanOK hwf hlen) (fun _ a => a.isRead c))

theorem Run.verdict_at_hb (hwf : WFX p) (hlen : p.threads.length ≤ 5) (h : Run p tr s) {n : Nat} {e : Step}
    (hn : tr[n]? = some e) :
    (e.s'.verdict = none ∧ ¬ UnordAt p tr n e.t (Conflict · (e.ev p))) ∨
    (e.s'.verdict = some (.race 9) ∧ ∃ x, (e.ev p).isRead x ∧ UnordAt p tr n e.t (·.isWrite x)) ∨
    (e.s'.verdict = some (.race 10) ∧ ∃ x, (e.ev p).isWrite x ∧ UnordAt p tr n e.t (·.isWrite x)) ∨
    (e.s'.verdict = some (.race 11) ∧ ∃ x, (e.ev p).isWrite x ∧ ¬ UnordAt p tr n e.t (·.isWrite x) ∧
      UnordAt p tr n e.t (·.isRead x)) := by
  have := h.verdict_at hwf hlen hn
  simp only [← unordAt_iff hwf (h.chanOK hwf hlen)] at this
  exact this

end VCSound
end LoomVerif

/-
Deadlock soundness, part 3: how the per-thread invariant `JTd` and the twin-side invariant `JB` are transported
along the elementary changes of a stage: a change of the active thread's control record only (`JB.local_step`), a
scheduling point (`JB.sched_step`), the acquisition of a mutex (`postAcquire` blocks exactly the other threads
WAITING on it: `JTd.acquire_other`), its release (`releaseLock` wakes exactly the blocked threads pending on it:
`JTd.release_other`), the notification of a `JoinHandle` (`JTd.notify_other`).
-/
import LoomVerif.Proofs.DeadlockSched

namespace LoomVerif
namespace Deadlock
open Refine Sy

/-- the operations with a branch point after which the thread may be found blocked -/
def waits : Option Op → Bool
  | some (.lock _) | some (.tryLock _) | some (.join _) => true
  | _ => false

/-! ### `JTd` -/

section
variable {p : Prog} {sp sp' : List (Nat × Nat × Nat)} {objs objs' : List Obj} {fin fin' : Nat → Nat}
  {act act' : Prop} {th th' : Thread} {c c' : TCtl}

theorem JTd.mono (h : JTd p sp objs fin act th c)
    (hsp : ∀ e, e ∈ sp → e ∈ sp')
    (hmv : ∀ m l, objView objs (mobj p m) = some (.mutex l) → objView objs' (mobj p m) = some (.mutex l))
    (hfin : ∀ b t n, (b, t, n) ∈ sp → (fin' t < 10 ↔ fin t < 10))
    (hact : act → act')
    (hst : th'.state = th.state) (hop : th'.operation = th.operation) :
    JTd p sp' objs' fin' act' th' c := by
  refine ⟨by rw [hst]; exact h.noYield, by rw [hst]; exact h.term, fun h1 => ?_, fun h0 => ?_⟩
  · cases h.st1 h1 with
    | lock m l a b x d => exact .lock m l a (by rw [hop]; exact b) (hmv _ _ x) (by rw [hst]; exact d)
    | tryLock m a b x => exact .tryLock m a (by rw [hop]; exact b) (by rw [hst]; exact x)
    | join b t n wt a e f g =>
      exact .join b t n wt a (hsp _ e) (by rw [hop]; exact f) (by rw [hst, hfin _ _ _ e]; exact g)
  · obtain ⟨a, b⟩ := h.st0 h0
    exact ⟨by rw [hst]; exact a, fun hna => by rw [hop]; exact b (fun ha => hna (hact ha))⟩

/-- a thread at an operation without a waiting branch point is at stage 0 and is not blocked -/
theorem JTd.plain (h : JTd p sp objs fin act th c) (hw : waits (opOfC p c) = false) :
    c.stage ≠ 1 ∧ th.state ≠ .blocked := by
  have hs : c.stage ≠ 1 := by
    intro h1
    cases h.st1 h1 with
    | lock m l a => rw [a] at hw; cases hw
    | tryLock m a => rw [a] at hw; cases hw
    | join b t n wt a => rw [a] at hw; cases hw
  exact ⟨hs, (h.st0 hs).1⟩

/-- the active thread, not blocked, at stage 0 -/
theorem JTd.mk_idle (hact : act) (hny : th.state ≠ .yield) (hterm : th.state = .terminated → c.fin = 99)
    (hs : c.stage ≠ 1) (hnb : th.state ≠ .blocked) : JTd p sp objs fin act th c :=
  ⟨hny, hterm, fun h1 => absurd h1 hs, fun _ => ⟨hnb, fun hna => absurd hact hna⟩⟩

/-- the active thread after a stage of an operation without a waiting branch point -/
theorem JTd.after_plain (h : JTd p sp objs fin act th c) (hw : waits (opOfC p c) = false) (hact : act')
    (hst : c'.stage = c.stage ∨ c'.stage = 0) (hterm : th.state = .terminated → c'.fin = 99) :
    JTd p sp' objs' fin' act' th c' := by
  obtain ⟨hs, hnb⟩ := h.plain hw
  refine JTd.mk_idle hact h.noYield hterm ?_ hnb
  rcases hst with e | e <;> rw [e]
  · exact hs
  · decide

theorem setBlocked_operation (t : Thread) : t.setBlocked.operation = t.operation := rfl

theorem wake_operation (t : Thread) : t.wake.operation = t.operation := by
  unfold Thread.wake; split <;> rfl

theorem wake_state (t : Thread) : t.wake.state = if t.state = .blocked then .runnable else t.state := by
  unfold Thread.wake Thread.isBlocked
  by_cases h : t.state = .blocked
  · simp [h, Thread.setRunnable]
  · simp [h]

/-- **`post_acquire` and one OTHER thread**: it is blocked exactly if it waits on that mutex; the invariant is kept
with the mutex now held -/
theorem JTd.acquire_other {mi x : Nat} (h : JTd p sp objs fin False th c)
    (hnew : objView objs' (mobj p mi) = some (.mutex (some x)))
    (hmv : ∀ m l, m ≠ mi → objView objs (mobj p m) = some (.mutex l) →
      objView objs' (mobj p m) = some (.mutex l))
    (hsep : ∀ b t n, (b, t, n) ∈ sp → n ≠ mobj p mi) :
    JTd p sp objs' fin False
      (if th.operation.any (fun op => op.obj == mobj p mi && op.blocking) then th.setBlocked else th) c := by
  by_cases h1 : c.stage = 1
  · cases h.st1 h1 with
    | lock m l a b x d =>
      by_cases hm : m = mi
      · subst hm
        have hc : th.operation.any (fun op => op.obj == mobj p m && op.blocking) = true := by
          rw [b]; simp
        rw [if_pos hc]
        exact ⟨by simp [Thread.setBlocked], by simp [Thread.setBlocked],
          fun _ => .lock m _ a b hnew (by simp [Thread.setBlocked]), fun h0 => absurd h1 h0⟩
      · have hc : th.operation.any (fun op => op.obj == mobj p mi && op.blocking) = false := by
          rw [b]; simp [mobj, hm]
        rw [hc]
        simp only [Bool.false_eq_true, if_false]
        exact ⟨h.noYield, h.term, fun _ => .lock m l a b (hmv m l hm x) d, fun h0 => absurd h1 h0⟩
    | tryLock m a b x =>
      have hc : th.operation.any (fun op => op.obj == mobj p mi && op.blocking) = false := by
        rw [b]; simp
      rw [hc]
      simp only [Bool.false_eq_true, if_false]
      exact ⟨h.noYield, h.term, fun _ => .tryLock m a b x, fun h0 => absurd h1 h0⟩
    | join b t n wt a e f g =>
      have hc : th.operation.any (fun op => op.obj == mobj p mi && op.blocking) = false := by
        rw [f]; simp [hsep _ _ _ e]
      rw [hc]
      simp only [Bool.false_eq_true, if_false]
      exact ⟨h.noYield, h.term, fun _ => .join b t n wt a e f g, fun h0 => absurd h1 h0⟩
  · have h0 := h.st0 h1
    have hc : th.operation.any (fun op => op.obj == mobj p mi && op.blocking) = false := by
      cases hop : th.operation with
      | none => rfl
      | some op => simp [h0.2 (fun f => f) op hop]
    rw [hc]
    simp only [Bool.false_eq_true, if_false]
    exact ⟨h.noYield, h.term, fun h1' => absurd h1' h1, fun _ => h0⟩

/-- what `release_lock` does to one other thread -/
def released (o : Nat) (th : Thread) : Thread :=
  match th.operation with
  | some op => if op.obj == o then th.wake else th
  | none => th

theorem released_of_not_blocked (o : Nat) {th : Thread} (h : th.state ≠ .blocked) : released o th = th := by
  unfold released
  split
  · split
    · exact C08.wake_of_not_blocked h
    · rfl
  · rfl

/-- **`release_lock` and one OTHER thread**: it is woken exactly if it is blocked on that mutex; the invariant is
kept with the mutex now free -/
theorem JTd.release_other {mi : Nat} (h : JTd p sp objs fin False th c)
    (hnew : objView objs' (mobj p mi) = some (.mutex none))
    (hmv : ∀ m l, m ≠ mi → objView objs (mobj p m) = some (.mutex l) →
      objView objs' (mobj p m) = some (.mutex l))
    (hsep : ∀ b t n, (b, t, n) ∈ sp → n ≠ mobj p mi) :
    JTd p sp objs' fin False (released (mobj p mi) th) c := by
  by_cases h1 : c.stage = 1
  · cases h.st1 h1 with
    | lock m l a b x d =>
      by_cases hm : m = mi
      · subst hm
        have hr : released (mobj p m) th = th.wake := by
          unfold released; rw [b]; simp
        rw [hr]
        have hnb : th.wake.state ≠ .blocked := by
          rw [wake_state]; split <;> simp_all
        refine ⟨?_, ?_, fun _ => .lock m none a (by rw [wake_operation]; exact b) hnew ?_,
          fun h0 => absurd h1 h0⟩
        · rw [wake_state]; split
          · simp
          · exact h.noYield
        · rw [wake_state]; split
          · intro hh; cases hh
          · exact h.term
        · constructor
          · intro hh; exact absurd hh hnb
          · intro hh; cases hh
      · have hr : released (mobj p mi) th = th := by
          unfold released; rw [b]; simp [mobj, hm]
        rw [hr]
        exact ⟨h.noYield, h.term, fun _ => .lock m l a b (hmv m l hm x) d, fun h0 => absurd h1 h0⟩
    | tryLock m a b x =>
      rw [released_of_not_blocked _ x]
      exact ⟨h.noYield, h.term, fun _ => .tryLock m a b x, fun h0 => absurd h1 h0⟩
    | join b t n wt a e f g =>
      have hr : released (mobj p mi) th = th := by
        unfold released; rw [f]; simp [hsep _ _ _ e]
      rw [hr]
      exact ⟨h.noYield, h.term, fun _ => .join b t n wt a e f g, fun h0 => absurd h1 h0⟩
  · have h0 := h.st0 h1
    rw [released_of_not_blocked _ h0.1]
    exact ⟨h.noYield, h.term, fun h1' => absurd h1' h1, fun _ => h0⟩

/-- **the notification of a `JoinHandle` and one OTHER thread**: it is woken exactly if it is blocked in the `join`
of that thread; the invariant is kept with the notifying thread past its notification -/
theorem JTd.notify_other {t0 n0 : Nat} (h : JTd p sp objs fin False th c)
    (hn : ∀ b t n, (b, t, n) ∈ sp → n = n0 → t = t0)
    (ht : ∀ b t n, (b, t, n) ∈ sp → t = t0 → n = n0)
    (hmv : ∀ m l, objView objs (mobj p m) = some (.mutex l) → objView objs' (mobj p m) = some (.mutex l))
    (hsep : ∀ m l, objView objs (mobj p m) = some (.mutex l) → mobj p m ≠ n0)
    (hf0 : 10 ≤ fin' t0) (hf : ∀ t, t ≠ t0 → fin' t = fin t)
    (hop : th'.operation = th.operation)
    (hw : (∃ op, th.operation = some op ∧ op.obj = n0) → th.state = .blocked → th'.state = .runnable)
    (hk : ¬ ((∃ op, th.operation = some op ∧ op.obj = n0) ∧ th.state = .blocked) → th'.state = th.state) :
    JTd p sp objs' fin' False th' c := by
  have hstate : th'.state = th.state ∨ (th'.state = .runnable ∧ th.state = .blocked) := by
    by_cases hc : (∃ op, th.operation = some op ∧ op.obj = n0) ∧ th.state = .blocked
    · exact .inr ⟨hw hc.1 hc.2, hc.2⟩
    · exact .inl (hk hc)
  have hny : th'.state ≠ .yield := by
    rcases hstate with e | ⟨e, _⟩ <;> rw [e]
    · exact h.noYield
    · simp
  have hterm : th'.state = .terminated → c.fin = 99 := by
    rcases hstate with e | ⟨e, _⟩ <;> rw [e]
    · exact h.term
    · intro hh; cases hh
  by_cases h1 : c.stage = 1
  · refine ⟨hny, hterm, fun _ => ?_, fun h0 => absurd h1 h0⟩
    cases h.st1 h1 with
    | lock m l a b x d =>
      have hs : th'.state = th.state := hk (by
        rintro ⟨⟨op, ho, hobj⟩, _⟩
        rw [b] at ho; cases ho
        exact hsep m l x hobj)
      exact .lock m l a (by rw [hop]; exact b) (hmv m l x) (by rw [hs]; exact d)
    | tryLock m a b x =>
      have hs : th'.state = th.state := hk (fun hh => x hh.2)
      exact .tryLock m a (by rw [hop]; exact b) (by rw [hs]; exact x)
    | join b t n wt a e f g =>
      by_cases hnn : n = n0
      · have htt : t = t0 := hn b t n e hnn
        refine .join b t n wt a e (by rw [hop]; exact f) ?_
        rw [htt]
        constructor
        · intro hb
          exfalso
          rcases hstate with e' | ⟨e', _⟩
          · have hbl : th.state = .blocked := by rw [← e']; exact hb
            have := hw ⟨_, f, hnn⟩ hbl
            rw [this] at hb; cases hb
          · rw [e'] at hb; cases hb
        · intro hlt; omega
      · have hs : th'.state = th.state := hk (by
          rintro ⟨⟨op, ho, hobj⟩, _⟩
          rw [f] at ho; cases ho
          exact hnn hobj)
        have htt : t ≠ t0 := fun e' => hnn (ht b t n e e')
        exact .join b t n wt a e (by rw [hop]; exact f) (by rw [hs, hf t htt]; exact g)
  · have h0 := h.st0 h1
    have hs : th'.state = th.state := hk (fun hh => h0.1 hh.2)
    exact ⟨hny, hterm, fun h1' => absurd h1' h1, fun _ => ⟨by rw [hs]; exact h0.1, by rw [hop]; exact h0.2⟩⟩

end

/-! ### control records -/

theorem ctlOf_of_modify {w w' : World} {t : Nat} {f : TCtl → TCtl} (hc : w'.ctl = w.ctl.modify t f)
    (ht : t < w.ctl.length) (j : Nat) : w'.ctlOf j = if j = t then f (w.ctlOf j) else w.ctlOf j := by
  unfold World.ctlOf
  rw [hc]
  by_cases hj : j = t
  · subst hj; rw [if_pos rfl, getD_modify_self _ _ _ _ ht]
  · rw [if_neg hj, getD_modify_ne _ _ _ _ _ hj]

theorem ctl_len_of_modify {w w' : World} {t : Nat} {f : TCtl → TCtl} (hc : w'.ctl = w.ctl.modify t f) :
    w'.ctl.length = w.ctl.length := by rw [hc]; simp

/-! ### `JB` -/

section
variable {w w' : World} {s : SCData}

/-- the last clause of `JB` along a step that keeps `spawned`, lets no `JoinHandle` thread pass its notification and
keeps the raised notification flags -/
theorem jnd_frame (hJ : JB w) (hprog : w'.prog = w.prog) (hsp : w'.spawned = w.spawned)
    (hlen : w.ctl.length ≤ w'.ctl.length)
    (hfin : ∀ b i n, (b, i, n) ∈ w.spawned → 10 ≤ (w'.ctlOf i).fin → 10 ≤ (w.ctlOf i).fin)
    (hnv : ∀ n, objView w.exec.objs n = some (.notify false true) →
      objView w'.exec.objs n = some (.notify false true))
    (hpc : ∀ j, j < w.ctl.length → (w'.ctlOf j).body = (w.ctlOf j).body ∧ (w.ctlOf j).pc ≤ (w'.ctlOf j).pc) :
    ∀ b i n, (b, i, n) ∈ w'.spawned → 10 ≤ (w'.ctlOf i).fin →
      objView w'.exec.objs n = some (.notify false true) ∨
      ∃ j k, j < w'.ctl.length ∧ k < (w'.ctlOf j).pc ∧
        (w'.prog.threads.getD (w'.ctlOf j).body [])[k]? = some (.join b) := by
  intro b i n hmem h10
  rw [hsp] at hmem
  rcases hJ.jnd b i n hmem (hfin b i n hmem h10) with h | ⟨j, k, hj, hk, hop⟩
  · exact .inl (hnv n h)
  · refine .inr ⟨j, k, by omega, by have := (hpc j hj).2; omega, ?_⟩
    rw [hprog, (hpc j hj).1]; exact hop

/-- **a stage that only rewrites the active thread's control record** (and possibly objects that are neither
mutexes nor `JoinHandle` notifies): thread states and pending operations are untouched -/
theorem JB.local_step (hJ : JB w) (hact : w.tid < w.ctl.length) {g : TCtl → TCtl}
    (hprog : w'.prog = w.prog) (hsp : w'.spawned = w.spawned) (htid : w'.tid = w.tid)
    (hths : ∀ i, (w'.ths.get i).state = (w.ths.get i).state ∧
      (w'.ths.get i).operation = (w.ths.get i).operation)
    (hctl : w'.ctl = w.ctl.modify w.tid g)
    (hfin : (∃ b n, (b, w.tid, n) ∈ w.spawned) →
      ((g (w.ctlOf w.tid)).fin < 10 ↔ (w.ctlOf w.tid).fin < 10))
    (hmv : ∀ m l, objView w.exec.objs (mobj w.prog m) = some (.mutex l) →
      objView w'.exec.objs (mobj w.prog m) = some (.mutex l))
    (hnew : JTd w.prog w.spawned w.exec.objs (fun t => (w.ctlOf t).fin) True (w.ths.get w.tid)
      (g (w.ctlOf w.tid)))
    (hjnd : ∀ b i n, (b, i, n) ∈ w'.spawned → 10 ≤ (w'.ctlOf i).fin →
      objView w'.exec.objs n = some (.notify false true) ∨
      ∃ j k, j < w'.ctl.length ∧ k < (w'.ctlOf j).pc ∧
        (w'.prog.threads.getD (w'.ctlOf j).body [])[k]? = some (.join b)) :
    JB w' := by
  have hfin' : ∀ b t n, (b, t, n) ∈ w.spawned → ((w'.ctlOf t).fin < 10 ↔ (w.ctlOf t).fin < 10) := by
    intro b t n hmem
    rw [ctlOf_of_modify hctl hact]
    by_cases e : t = w.tid
    · subst e; rw [if_pos rfl]; exact hfin ⟨b, n, hmem⟩
    · rw [if_neg e]
  refine ⟨fun i hi => ?_, by rw [hsp]; exact hJ.spt, by rw [hsp]; exact hJ.sp0, hjnd⟩
  rw [ctl_len_of_modify hctl] at hi
  unfold JT
  rw [hprog, hsp, htid, ctlOf_of_modify hctl hact]
  by_cases e : i = w.tid
  · subst e
    rw [if_pos rfl]
    exact hnew.mono (fun _ h => h) hmv hfin' (fun _ => rfl) (hths _).1 (hths _).2
  · rw [if_neg e]
    exact (hJ.thr i hi).mono (fun _ h => h) hmv hfin' id (hths _).1 (hths _).2

/-- **a scheduling point**: the active thread's entry is rewritten by `F`, its control record by `g`, then
`Exec.schedule` picks the next thread -/
theorem JB.sched_step (hJ : JB w) (hR : R w s) (hact : w.tid < w.ctl.length)
    {F : Thread → Thread} {g : TCtl → TCtl} {e : Exec} {b : Bool} (hs : schedOn w F = .ok (e, b))
    (hexec : w'.exec = e) (hctl : w'.ctl = w.ctl.modify w.tid g) (hprog : w'.prog = w.prog)
    (hsp : w'.spawned = w.spawned)
    (hbody : (g (w.ctlOf w.tid)).body = (w.ctlOf w.tid).body)
    (hpc : (g (w.ctlOf w.tid)).pc = (w.ctlOf w.tid).pc)
    (hfin : (g (w.ctlOf w.tid)).fin < 10 ↔ (w.ctlOf w.tid).fin < 10)
    (hnew : JTd w.prog w.spawned w.exec.objs (fun t => (w.ctlOf t).fin) False (F (w.ths.get w.tid))
      (g (w.ctlOf w.tid))) :
    JB w' := by
  have hin : w.tid < w.exec.threads.threads.length := by rw [← hR.lenCtl]; exact hact
  obtain ⟨h1, h2, h3⟩ := schedOn_ok hs hin
  have hview : ViewLe w.exec.objs w'.exec.objs := by
    rw [hexec]
    exact ViewLe.of_touched
      (@schedule_objs ({ w.exec with threads := w.ths.modifyActive F }) e b w.panicking hs)
  have hfin' : ∀ t, (w'.ctlOf t).fin < 10 ↔ (w.ctlOf t).fin < 10 := by
    intro t
    rw [ctlOf_of_modify hctl hact]
    by_cases e : t = w.tid
    · subst e; rw [if_pos rfl]; exact hfin
    · rw [if_neg e]
  have hget : ∀ i, w'.ths.get i = e.threads.get i := by
    intro i; show w'.exec.threads.get i = _; rw [hexec]
  refine ⟨fun i hi => ?_, by rw [hsp]; exact hJ.spt, by rw [hsp]; exact hJ.sp0, ?_⟩
  · rw [ctl_len_of_modify hctl] at hi
    unfold JT
    rw [hprog, hsp, ctlOf_of_modify hctl hact, hget]
    by_cases e' : i = w.tid
    · subst e'
      rw [if_pos rfl]
      have hE : entryOn w F w.tid = F (w.ths.get w.tid) := by unfold entryOn; rw [if_pos rfl]
      refine hnew.mono (fun _ h => h) (fun m l h => hview _ _ h) (fun _ t _ _ => hfin' t)
        (fun f => absurd f id) ?_ ?_
      · rw [h1 _ (by rw [hE]; exact hnew.noYield), hE]
      · rw [h2, hE]
    · rw [if_neg e']
      have hE : entryOn w F i = w.ths.get i := by unfold entryOn; rw [if_neg e']
      refine (hJ.thr i hi).mono (fun _ h => h) (fun m l h => hview _ _ h) (fun _ t _ _ => hfin' t)
        (fun f => absurd f e') ?_ ?_
      · rw [h1 _ (by rw [hE]; exact (hJ.thr i hi).noYield), hE]
      · rw [h2, hE]
  · refine jnd_frame hJ hprog hsp (by rw [ctl_len_of_modify hctl]; exact Nat.le_refl _) ?_
      (fun n h => hview _ _ h) ?_
    · intro b i n _ h10
      have := hfin' i
      omega
    · intro j hj
      rw [ctlOf_of_modify hctl hact]
      by_cases e' : j = w.tid
      · subst e'; rw [if_pos rfl]; exact ⟨hbody, by rw [hpc]; exact Nat.le_refl _⟩
      · rw [if_neg e']; exact ⟨rfl, Nat.le_refl _⟩

end

end Deadlock
end LoomVerif

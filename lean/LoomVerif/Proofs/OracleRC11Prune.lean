/-
The pruning of modification orders in the RC11 enumerator (`moChoices`) loses no consistent graph.
-/
import LoomVerif.Proofs.OracleRC11Rel
import LoomVerif.Proofs.OracleRC11Perm

namespace LoomVerif.RC11

/-- all modification orders of a candidate: for every location ANY permutation of its writes -/
def allMo (c : Candidate) : List (List (List Nat)) :=
  product ((List.range c.nLoc).map fun x => permutations (c.writesAt x))

theorem mem_allMo {c : Candidate} {mos : List (List Nat)} : mos ∈ allMo c ↔
    mos.length = c.nLoc ∧ ∀ (x : Nat) (l : List Nat), mos[x]? = some l → l.Perm (c.writesAt x) := by
  unfold allMo
  rw [mem_product_range]
  simp only [mem_permutations]

/-! ### the writes of a location -/

namespace Candidate
variable {c : Candidate}

/-- the kind of event `i` is a write -/
def isWr (c : Candidate) (i : Nat) : Bool :=
  (c.evs.getD i default).kind == .W || (c.evs.getD i default).kind == .U

theorem mem_writesAt {x i : Nat} : i ∈ c.writesAt x ↔
    i < c.evs.size ∧ c.isWr i = true ∧ (c.evs.getD i default).loc = x := by
  unfold writesAt isWr
  simp only [List.mem_filter, List.mem_range, Bool.and_eq_true, beq_iff_eq]

theorem nodup_writesAt (x : Nat) : (c.writesAt x).Nodup :=
  List.Nodup.sublist List.filter_sublist List.nodup_range

theorem sorted_writesAt (x : Nat) : (c.writesAt x).Pairwise (· < ·) :=
  List.Pairwise.sublist List.filter_sublist List.pairwise_lt_range

/-! ### the graph of a candidate -/

@[simp] theorem graph_n (mos : List (List Nat)) : (c.graph mos).n = c.evs.size := rfl
@[simp] theorem graph_rf_n (mos : List (List Nat)) : (c.graph mos).rf.n = c.evs.size := rfl
@[simp] theorem graph_mo_n (mos : List (List Nat)) : (c.graph mos).mo.n = c.evs.size := rfl
@[simp] theorem graph_ev (mos : List (List Nat)) (i : Nat) :
    (c.graph mos).ev i = c.evs.getD i default := rfl

/-- `hb` does not depend on the modification orders -/
theorem graph_hb (mos : List (List Nat)) : (c.graph mos).hb = (c.graph []).hb :=
  Graph.hb_congr rfl rfl rfl

theorem graph_races (mos : List (List Nat)) : (c.graph mos).races = (c.graph []).races :=
  Graph.races_congr rfl rfl rfl

theorem graph_isW (mos : List (List Nat)) (i : Nat) : (c.graph mos).isW i = c.isWr i := rfl

theorem graph_rf_get {mos : List (List Nat)} {w r : Nat} (hw : w < c.evs.size)
    (hr : r < c.evs.size) : (c.graph mos).rf.get w r = true ↔
      ((c.evs.getD r default).kind = .R ∨ (c.evs.getD r default).kind = .U) ∧
        c.srcIdx.getD r none = some w := by
  unfold graph
  simp only
  rw [Rel.get_ofFn hw hr]
  simp

theorem graph_mo_get {mos : List (List Nat)} {a b : Nat} (ha : a < c.evs.size)
    (hb : b < c.evs.size) : (c.graph mos).mo.get a b = true ↔
      ∃ l, l ∈ mos ∧ ∃ i j, findIdx? (· == a) l = some i ∧ findIdx? (· == b) l = some j ∧ i < j := by
  unfold graph
  simp only
  rw [Rel.get_ofFn ha hb, List.any_eq_true]
  constructor
  · rintro ⟨l, hl, h⟩
    refine ⟨l, hl, ?_⟩
    split at h
    · next i j hi hj => exact ⟨i, j, hi, hj, by simpa using h⟩
    · cases h
  · rintro ⟨l, hl, i, j, hi, hj, h⟩
    refine ⟨l, hl, ?_⟩
    rw [hi, hj]; simpa using h

end Candidate

/-! ### positions in the modification orders -/

/-- `mos` gives every location (a list position) a permutation of its writes -/
def MoOk (c : Candidate) (mos : List (List Nat)) : Prop :=
  ∀ (x : Nat) (l : List Nat), mos[x]? = some l → l.Perm (c.writesAt x)

namespace MoOk
variable {c : Candidate} {mos : List (List Nat)}

theorem mem (h : MoOk c mos) {x : Nat} {l : List Nat} (hl : mos[x]? = some l) {a : Nat} :
    a ∈ l ↔ a < c.evs.size ∧ c.isWr a = true ∧ (c.evs.getD a default).loc = x := by
  rw [(h x l hl).mem_iff, Candidate.mem_writesAt]

theorem nodup (h : MoOk c mos) {x : Nat} {l : List Nat} (hl : mos[x]? = some l) : l.Nodup :=
  (h x l hl).nodup_iff.2 (Candidate.nodup_writesAt x)

/-- the lists of different locations are disjoint -/
theorem unique (h : MoOk c mos) {x : Nat} {l l' : List Nat} (hl : mos[x]? = some l)
    (hl' : l' ∈ mos) {a : Nat} (ha : a ∈ l) (ha' : a ∈ l') : l' = l := by
  obtain ⟨x', hx'⟩ := List.mem_iff_getElem?.1 hl'
  have e1 := ((h.mem hl).1 ha).2.2
  have e2 := ((h.mem hx').1 ha').2.2
  rw [e1] at e2; subst e2
  rw [hl] at hx'; cases hx'; rfl

/-- `mo` of the graph is the order of the positions -/
theorem mo_iff (h : MoOk c mos) {x : Nat} {l : List Nat} (hl : mos[x]? = some l) {i j a b : Nat}
    (hi : l[i]? = some a) (hj : l[j]? = some b) : (c.graph mos).mo.get a b = true ↔ i < j := by
  have ha := List.mem_of_getElem? hi
  have hb := List.mem_of_getElem? hj
  rw [Candidate.graph_mo_get ((h.mem hl).1 ha).1 ((h.mem hl).1 hb).1]
  constructor
  · rintro ⟨l', hl', i', j', hi', hj', hlt⟩
    have : l' = l := h.unique hl hl' ha (List.mem_of_getElem? (findIdx?_eq_getElem? hi'))
    subst this
    rw [findIdx?_eq_of_nodup (h.nodup hl) hi] at hi'
    rw [findIdx?_eq_of_nodup (h.nodup hl) hj] at hj'
    cases hi'; cases hj'; exact hlt
  · intro hlt
    exact ⟨l, List.mem_of_getElem? hl, i, j, findIdx?_eq_of_nodup (h.nodup hl) hi,
      findIdx?_eq_of_nodup (h.nodup hl) hj, hlt⟩

end MoOk

/-! ### the pruning lemmas -/

section prune
variable {c : Candidate} {mos : List (List Nat)} {strong : Bool}

/-- (b) `mo` extends `hb` (computed without `mo`) on the writes of a location -/
theorem prune_hb (h : MoOk c mos) (hc : (c.graph mos).consistent strong = true) {x : Nat}
    {l : List Nat} (hl : mos[x]? = some l) {i j a b : Nat} (hji : j < i) (hi : l[i]? = some a)
    (hj : l[j]? = some b) : (c.graph []).hb.get a b = false := by
  cases hab : (c.graph []).hb.get a b
  · rfl
  · exfalso
    rw [← Candidate.graph_hb mos] at hab
    have ha := ((h.mem hl).1 (List.mem_of_getElem? hi)).1
    have hb := ((h.mem hl).1 (List.mem_of_getElem? hj)).1
    exact Graph.coherent_hb_mo rfl (Graph.consistent_iff.1 hc).2.1 (a := a) (b := b) ha hb hab
      ((h.mo_iff hl hj hi).2 hji)

/-- (c) every RMW stands directly after the write it reads from -/
theorem prune_rmw (h : MoOk c mos) (hc : (c.graph mos).consistent strong = true) {x : Nat}
    {l : List Nat} (hl : mos[x]? = some l) {iu u : Nat} (hu : l[iu]? = some u)
    (hU : (c.evs.getD u default).kind = .U) :
    ∃ w, c.srcIdx.getD u none = some w ∧ 0 < iu ∧ l[iu - 1]? = some w := by
  obtain ⟨hwf, -, hat, -, hnta⟩ := Graph.consistent_iff.1 hc
  have hum := (h.mem hl).1 (List.mem_of_getElem? hu)
  have hun : u < (c.graph mos).n := hum.1
  have hUg : (c.graph mos).isU u = true := by
    show ((c.evs.getD u default).kind == .U) = true
    rw [hU]; rfl
  have hRg : (c.graph mos).isR u = true := by
    show ((c.evs.getD u default).kind == .R || (c.evs.getD u default).kind == .U) = true
    rw [hU]; rfl
  obtain ⟨w, hw, hrf, -⟩ := Graph.wellFormed_rf_exists hwf hun hRg
  obtain ⟨hW, -, hsl⟩ := Graph.wellFormed_rf hwf hw hun hrf
  have hsrc := ((Candidate.graph_rf_get hw hum.1).1 hrf).2
  have hloc : (c.evs.getD w default).loc = x := by
    have : (c.evs.getD w default).loc = (c.evs.getD u default).loc := by
      simp only [Graph.sameLoc, Bool.and_eq_true, beq_iff_eq] at hsl; exact hsl.2
    rw [this]; exact hum.2.2
  have hwl : w ∈ l := (h.mem hl).2 ⟨hw, hW, hloc⟩
  obtain ⟨iw, hiw⟩ := List.mem_iff_getElem?.1 hwl
  have hmo := Graph.atomicity_rf_mo hat hun hw hUg hrf
  have hlt : iw < iu := (h.mo_iff hl hiw hu).1 hmo
  refine ⟨w, hsrc, by omega, ?_⟩
  by_cases hadj : iw + 1 = iu
  · rw [← hadj]; simpa using hiw
  · exfalso
    have hlen : iu < l.length := (List.getElem?_eq_some_iff.1 hu).1
    have hw' : l[iw + 1]? = some l[iw + 1] := List.getElem?_eq_getElem (by omega)
    have hw'n := ((h.mem hl).1 (List.mem_of_getElem? hw')).1
    refine Graph.atomicity_get rfl hat hun hw hw'n hUg hrf ((h.mo_iff hl hiw hw').2 (by omega))
      ((h.mo_iff hl hw' hu).2 (by omega)) ?_
    intro e
    have := findIdx?_eq_of_nodup (h.nodup hl) hu
    rw [e, findIdx?_eq_of_nodup (h.nodup hl) hw'] at this
    cases this; omega

end prune

/-! ### `moChoices` -/

/-- the filter of `moChoices` -/
def moFilter (c : Candidate) (hb0 : Rel) (l : List Nat) : Bool :=
  ((List.range l.length).all fun i => (List.range i).all fun j =>
    !hb0.get (l.getD i 0) (l.getD j 0)) &&
  l.all fun u =>
    if (c.evs.getD u default).kind == .U then
      match c.srcIdx.getD u none, findIdx? (· == u) l with
      | some w, some iu => iu > 0 && l.getD (iu - 1) 0 == w
      | _, _ => false
    else true

theorem moChoices_eq (c : Candidate) (hb0 : Rel) (x : Nat) : moChoices c hb0 x =
    match c.writesAt x with
    | [] => [[]]
    | i0 :: rest => ((permutations rest).map (i0 :: ·)).filter (moFilter c hb0) := rfl

theorem mem_moChoices {c : Candidate} {hb0 : Rel} {x : Nat} {l : List Nat} :
    l ∈ moChoices c hb0 x ↔
      l.Perm (c.writesAt x) ∧ l.head? = (c.writesAt x).head? ∧ (l = [] ∨ moFilter c hb0 l = true) := by
  rw [moChoices_eq]
  cases hw : c.writesAt x with
  | nil =>
    simp only [List.mem_singleton, List.head?_nil]
    constructor
    · rintro rfl; exact ⟨.nil, rfl, .inl rfl⟩
    · exact fun h => h.1.eq_nil
  | cons i0 rest =>
    simp only [List.mem_filter, List.mem_map, mem_permutations, List.head?_cons]
    constructor
    · rintro ⟨⟨l', hl', rfl⟩, hf⟩
      exact ⟨hl'.cons i0, rfl, .inr hf⟩
    · rintro ⟨h1, h2, h3⟩
      cases l with
      | nil => cases h2
      | cons a l' =>
        simp only [List.head?_cons, Option.some.injEq] at h2
        subst h2
        rcases h3 with h3 | h3
        · cases h3
        · exact ⟨⟨l', h1.cons_inv, rfl⟩, h3⟩

/-- what is kept is a permutation of the writes of the location -/
theorem perm_of_mem_moChoices {c : Candidate} {hb0 : Rel} {x : Nat} {l : List Nat}
    (h : l ∈ moChoices c hb0 x) : l.Perm (c.writesAt x) := (mem_moChoices.1 h).1

/-- every pruned family of modification orders is one of all -/
theorem prunedMos_sub {c : Candidate} {mos : List (List Nat)} (h : mos ∈ prunedMos c) :
    mos ∈ allMo c := by
  unfold prunedMos at h
  rw [mem_product_range] at h
  exact mem_allMo.2 ⟨h.1, fun x l hl => perm_of_mem_moChoices (h.2 x l hl)⟩

/-- (a), (b), (c) together: a family of modification orders of a consistent graph passes the
filter of `moChoices` at every location where the first write in index order is first in `mo` -/
theorem mem_moChoices_of_consistent {c : Candidate} {mos : List (List Nat)} {strong : Bool}
    (h : MoOk c mos) (hc : (c.graph mos).consistent strong = true) {x : Nat} {l : List Nat}
    (hl : mos[x]? = some l) (hfirst : l.head? = (c.writesAt x).head?) :
    l ∈ moChoices c (c.graph []).hb x := by
  refine mem_moChoices.2 ⟨h x l hl, hfirst, .inr ?_⟩
  unfold moFilter
  rw [Bool.and_eq_true, List.all_eq_true, List.all_eq_true]
  constructor
  · intro i hi
    rw [List.mem_range] at hi
    rw [List.all_eq_true]
    intro j hj
    rw [List.mem_range] at hj
    have e1 : l[i]? = some (l.getD i 0) := by simp [List.getD, hi]
    have e2 : l[j]? = some (l.getD j 0) := by
      have : j < l.length := by omega
      simp [List.getD, this]
    rw [prune_hb h hc hl hj e1 e2]; rfl
  · intro u hu
    split
    · next hU =>
      obtain ⟨iu, hiu⟩ := List.mem_iff_getElem?.1 hu
      obtain ⟨w, hsrc, hpos, hw⟩ := prune_rmw h hc hl hiu (by simpa using hU)
      rw [hsrc, findIdx?_eq_of_nodup (h.nodup hl) hiu]
      simp only [gt_iff_lt, Bool.and_eq_true, decide_eq_true_eq, beq_iff_eq]
      refine ⟨hpos, ?_⟩
      simp [List.getD, hw]
    · rfl

end LoomVerif.RC11

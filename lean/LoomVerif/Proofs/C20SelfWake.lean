/-
C20, mode 5: `block_on` of a `yield_now`-shaped future.  Its first poll wakes the call's own waker by reference
(`cx.waker().wake_by_ref()`: stages 50 / 51 = branch point and effect of `Notify::notify` on the call's own
`Notify`) and returns Pending; `block_on` waits (`Notify::wait`: the rest of stage 51, stage 53); the second poll
(stage 52) is Ready and the call returns through stage 40.  The stage equations, which stage is entered from
where, and what these stages leave alone: the futures' table, every mutex, every `Arc` count, the `Arc` table.
-/
import LoomVerif.Proofs.C20BlockOn
import LoomVerif.Proofs.C20Waker
import LoomVerif.Proofs.C08Only

set_option linter.unusedSimpArgs false
set_option linter.unusedVariables false

namespace LoomVerif
namespace C20
open Sy C08

/-! ### the stages as equations -/

section equations
variable (w : World) (c : TCtl) (f mode : Nat)

/-- the world after the set-up stage 0, before the next stage is chosen -/
def setUp (w : World) (f : Nat) : World :=
  let w1 := (w.pushObj (.notify { seqCst := false, spurious := true })).1
  let w2 := (w1.pushObj (.arc {})).1
  let w3 : World := { w2 with arcs := w2.arcs ++ [({ obj := w1.exec.objs.length } : ArcInfo)] }
  w3.modFut f fun s => { s with notify := w.exec.objs.length, arc := w3.arcs.length - 1 }

theorem blockOn_stage0 (hs : c.stage = 0) :
    w.blockOnStage c f mode = .ok ((setUp w f).setStage (if mode = 5 then 50 else 10)) := by
  unfold World.blockOnStage setUp; simp only [hs]
  by_cases h : mode = 5
  · subst h; simp [World.pushObj, World.setObjs]
  · have : (mode == 5) = false := by simpa using h
    simp [World.pushObj, World.setObjs, this, h]

theorem setUp_facts :
    (setUp w f).ctl = w.ctl ∧ (setUp w f).events = w.events ∧
    (setUp w f).exec.objs = w.exec.objs ++ [.notify { seqCst := false, spurious := true }, .arc {}] ∧
    (setUp w f).arcs = w.arcs ++ [({ obj := w.exec.objs.length + 1 } : ArcInfo)] ∧
    (setUp w f).futs =
      w.futs.modify f (fun s => { s with notify := w.exec.objs.length, arc := w.arcs.length }) := by
  refine ⟨rfl, rfl, ?_, ?_, ?_⟩
  · show (w.exec.objs ++ [_]) ++ [_] = _
    simp
  · show w.arcs ++ [_] = _
    simp [World.pushObj, World.setObjs]
  · show w.futs.modify f _ = _
    simp [World.pushObj, World.setObjs]

theorem blockOn_stage50 (hs : c.stage = 50) :
    w.blockOnStage c f mode = (w.setStage 51).branch (w.futs.getD f {}).notify .opaque := by
  unfold World.blockOnStage; simp only [hs]

theorem blockOn_stage51 (hs : c.stage = 51) :
    w.blockOnStage c f mode = (do
      let w1 ← w.notifyEffect (w.futs.getD f {}).notify
      let (w2, st) ← w1.notifyWait1 (w.futs.getD f {}).notify
      pure (w2.modCtl w1.tid fun c => { c with stage := if st == 1 then 53 else 52 })) := by
  unfold World.blockOnStage; simp only [hs]

theorem blockOn_stage53 (hs : c.stage = 53) :
    w.blockOnStage c f mode = (do
      let w1 ← w.notifyWait2 (w.futs.getD f {}).notify
      pure (w1.setStage 52)) := by
  unfold World.blockOnStage; simp only [hs]

theorem blockOn_stage52 (hs : c.stage = 52) :
    w.blockOnStage c f mode =
      (w.setStage 40).branch (w.arcInfo (w.futs.getD f {}).arc).obj .arcDec := by
  unfold World.blockOnStage; simp only [hs]

/-- the return stage of a mode-5 call: ONE `wakerDrop` (the call's own handle), then the call completes -/
theorem blockOn_stage40_selfWake (hs : c.stage = 40) :
    w.blockOnStage c f 5 = (do
      let w1 ← w.wakerDrop (w.futs.getD f {}).arc
      pure (w1.complete (.val 7))) := by
  rw [blockOn_stage40 w c f 5 hs]; rfl

end equations

/-! ### which stage is entered from where -/

/-- the second poll (stage 52) is entered only from stage 51 (the wait returned at once) and from stage 53 (second
half of the wait) -/
theorem blockOn_noEnter52 {w w' : World} {c : TCtl} {f mode : Nat}
    (h : w.blockOnStage c f mode = .ok w') (h51 : c.stage ≠ 51) (h53 : c.stage ≠ 53) :
    NoEnter 52 w w' := by
  unfold NoEnter
  unfold World.blockOnStage at h
  bo_auto h

theorem blockOn_noEnter53 {w w' : World} {c : TCtl} {f mode : Nat}
    (h : w.blockOnStage c f mode = .ok w') (h51 : c.stage ≠ 51) : NoEnter 53 w w' := by
  unfold NoEnter
  unfold World.blockOnStage at h
  bo_auto h

theorem blockOn_noEnter51 {w w' : World} {c : TCtl} {f mode : Nat}
    (h : w.blockOnStage c f mode = .ok w') (h50 : c.stage ≠ 50) : NoEnter 51 w w' := by
  unfold NoEnter
  unfold World.blockOnStage at h
  bo_auto h

theorem blockOn_noEnter50 {w w' : World} {c : TCtl} {f mode : Nat}
    (h : w.blockOnStage c f mode = .ok w') (h0 : c.stage ≠ 0 ∨ mode ≠ 5) : NoEnter 50 w w' := by
  unfold NoEnter
  unfold World.blockOnStage at h
  bo_auto h

/-- the return path (stage 40) is entered only from a flag load (stages 11, 15) or from the second poll of a
mode-5 call (stage 52) -/
theorem blockOn_noEnter40 {w w' : World} {c : TCtl} {f mode : Nat}
    (h : w.blockOnStage c f mode = .ok w') (h11 : c.stage ≠ 11) (h15 : c.stage ≠ 15)
    (h52 : c.stage ≠ 52) : NoEnter 40 w w' := by
  unfold NoEnter
  unfold World.blockOnStage at h
  bo_auto h

/-- a mode-5 call has no flag load: its set-up stage does not lead to the poll stage 10 -/
theorem blockOn_noRepoll5 {w w' : World} {c : TCtl} {f : Nat}
    (h : w.blockOnStage c f 5 = .ok w') (h15 : c.stage ≠ 15) (h16 : c.stage ≠ 16) :
    NoRepoll w w' := by
  unfold NoRepoll
  unfold World.blockOnStage at h
  bo_auto h

/-- the stages of a mode-5 call -/
def SelfWakeStage (n : Nat) : Prop := n = 0 ∨ n = 50 ∨ n = 51 ∨ n = 52 ∨ n = 53 ∨ n = 40

/-- the stages of a mode-5 call are closed: a step from one of them leaves every thread's stage alone or moves
it to one of them (0: the call completed) -/
theorem blockOn_selfWake_closed {w w' : World} {c : TCtl} {f : Nat}
    (h : w.blockOnStage c f 5 = .ok w') (hc : SelfWakeStage c.stage) :
    ∀ t, (w'.ctlOf t).stage = (w.ctlOf t).stage ∨ SelfWakeStage (w'.ctlOf t).stage := by
  have h5 : World.slotMode 5 = false := rfl
  unfold SelfWakeStage at hc ⊢
  unfold World.blockOnStage at h
  bo_auto h

/-- a mode-5 call writes the futures' table in its set-up stage only -/
theorem blockOn_selfWake_futs {w w' : World} {c : TCtl} {f : Nat}
    (h : w.blockOnStage c f 5 = .ok w') (hc : SelfWakeStage c.stage) (h0 : c.stage ≠ 0) :
    w'.futs = w.futs := by
  have h5 : World.slotMode 5 = false := rfl
  unfold SelfWakeStage at hc
  unfold World.blockOnStage at h
  bo_auto h

/-- a mode-5 call records an event only in stage 40 -/
theorem blockOn_selfWake_events {w w' : World} {c : TCtl} {f : Nat}
    (h : w.blockOnStage c f 5 = .ok w') (hc : SelfWakeStage c.stage) (h40 : c.stage ≠ 40) :
    w'.events = w.events := by
  have h5 : World.slotMode 5 = false := rfl
  unfold SelfWakeStage at hc
  unfold World.blockOnStage at h
  bo_auto h

/-! ### what the helpers of these stages leave alone: mutexes, `Arc` counts, the `Arc` table -/

/-- `x'` is `x` as far as locks and reference counts go: a mutex is as before up to the scheduler's access
record, an `Arc` keeps its count -/
def Quiet (x x' : Obj) : Prop :=
  (∀ m, x = .mutex m → ∃ a, x' = .mutex { m with lastAccess := a }) ∧
  (∀ s, x = .arc s → ∃ s', x' = .arc s' ∧ s'.refCnt = s.refCnt)

/-- the same for the mutexes alone -/
def LockQuiet (x x' : Obj) : Prop := ∀ m, x = .mutex m → ∃ a, x' = .mutex { m with lastAccess := a }

/-- every object of `os` is still there in `os'`, related by `R` -/
def ObjsRel (R : Obj → Obj → Prop) (os os' : List Obj) : Prop :=
  ∀ (n : Nat) (x : Obj), os[n]? = some x → ∃ x', os'[n]? = some x' ∧ R x x'

theorem Quiet.refl (x : Obj) : Quiet x x :=
  ⟨fun m h => ⟨m.lastAccess, h⟩, fun s h => ⟨s, h, rfl⟩⟩

theorem Quiet.trans {x y z : Obj} (h1 : Quiet x y) (h2 : Quiet y z) : Quiet x z := by
  refine ⟨fun m h => ?_, fun s h => ?_⟩
  · obtain ⟨a, ha⟩ := h1.1 m h
    obtain ⟨b, hb⟩ := h2.1 _ ha
    exact ⟨b, hb⟩
  · obtain ⟨s', hs', e1⟩ := h1.2 s h
    obtain ⟨s'', hs'', e2⟩ := h2.2 _ hs'
    exact ⟨s'', hs'', e2.trans e1⟩

theorem Quiet.lock {x y : Obj} (h : Quiet x y) : LockQuiet x y := h.1

theorem LockQuiet.refl (x : Obj) : LockQuiet x x := fun m h => ⟨m.lastAccess, h⟩

theorem LockQuiet.trans {x y z : Obj} (h1 : LockQuiet x y) (h2 : LockQuiet y z) : LockQuiet x z := by
  intro m h
  obtain ⟨a, ha⟩ := h1 m h
  obtain ⟨b, hb⟩ := h2 _ ha
  exact ⟨b, hb⟩

theorem ObjsRel.refl {R : Obj → Obj → Prop} (hr : ∀ x, R x x) (os : List Obj) : ObjsRel R os os :=
  fun _ x h => ⟨x, h, hr x⟩

theorem ObjsRel.trans {R : Obj → Obj → Prop} (ht : ∀ x y z, R x y → R y z → R x z) {a b c : List Obj}
    (h1 : ObjsRel R a b) (h2 : ObjsRel R b c) : ObjsRel R a c := by
  intro n x h
  obtain ⟨y, hy, r1⟩ := h1 n x h
  obtain ⟨z, hz, r2⟩ := h2 n y hy
  exact ⟨z, hz, ht _ _ _ r1 r2⟩

theorem ObjsRel.mono {R S : Obj → Obj → Prop} (hs : ∀ x y, R x y → S x y) {a b : List Obj}
    (h : ObjsRel R a b) : ObjsRel S a b := by
  intro n x hx
  obtain ⟨y, hy, r⟩ := h n x hx
  exact ⟨y, hy, hs _ _ r⟩

theorem objsRel_set {R : Obj → Obj → Prop} (hr : ∀ x, R x x) {os : List Obj} {o : Nat} {x x' : Obj}
    (h : os[o]? = some x) (ht : R x x') : ObjsRel R os (os.set o x') := by
  intro n y hy
  by_cases hn : n = o
  · subst hn
    rw [h] at hy; cases hy
    exact ⟨x', getElem?_set_self' _ _ _ _ h, ht⟩
  · exact ⟨y, by rw [getElem?_set_ne' _ _ _ _ hn]; exact hy, hr y⟩

theorem objsRel_append {R : Obj → Obj → Prop} (hr : ∀ x, R x x) (os l : List Obj) :
    ObjsRel R os (os ++ l) := by
  intro n x h
  have hlt : n < os.length := (List.getElem?_eq_some_iff.1 h).1
  exact ⟨x, by rw [List.getElem?_append_left hlt]; exact h, hr x⟩

abbrev QuietObjs := ObjsRel Quiet
abbrev LocksQuiet := ObjsRel LockQuiet

theorem QuietObjs.rfl' (os : List Obj) : QuietObjs os os := ObjsRel.refl Quiet.refl os
theorem QuietObjs.tr {a b c : List Obj} (h1 : QuietObjs a b) (h2 : QuietObjs b c) : QuietObjs a c :=
  ObjsRel.trans (R := Quiet) @Quiet.trans h1 h2
theorem QuietObjs.locks {a b : List Obj} (h : QuietObjs a b) : LocksQuiet a b := ObjsRel.mono (R := Quiet) (S := LockQuiet) @Quiet.lock h

theorem arcSetLastAccess_refCnt (s : ArcSt) (act : Action) (pid : Nat) (v : VV) :
    (s.setLastAccess act pid v).refCnt = s.refCnt := by
  unfold ArcSt.setLastAccess; split <;> rfl

theorem setLastAccess_quiet {os os' : Objs} {op : Operation} {pid : Nat} {d : VV}
    (h : os.setLastAccess op pid d = .ok os') : QuietObjs os os' := by
  unfold Objs.setLastAccess at h
  split at h
  all_goals first
    | (cases h; done)
    | (cases h
       refine objsRel_set Quiet.refl ‹_› ⟨fun m e => ?_, fun s e => ?_⟩
       all_goals first
         | (cases e; done)
         | (cases e; exact ⟨_, rfl⟩)
         | (cases e; exact ⟨_, rfl, arcSetLastAccess_refCnt _ _ _ _⟩))

theorem schedule_quiet {e : Exec} {p : Bool} {r : Exec × Bool} (h : e.schedule p = .ok r) :
    QuietObjs e.objs r.1.objs := by
  unfold Exec.schedule at h
  simp only [bind, Except.bind, pure, Except.pure] at h
  repeat' split at h
  all_goals first
    | (cases h; done)
    | (cases h; exact QuietObjs.rfl' _)
    | (cases h; exact setLastAccess_quiet ‹_›)

theorem branch_quiet {w w' : World} {o : Nat} {a : Action} {blk wt : Bool}
    (h : w.branch o a blk wt = .ok w') : QuietObjs w.exec.objs w'.exec.objs ∧ w'.arcs = w.arcs := by
  unfold World.branch at h
  simp only [bind, Except.bind, pure, Except.pure] at h
  split at h
  · cases h
  · next v hv => cases h; have k := schedule_quiet hv; exact ⟨k, rfl⟩

theorem yieldNow_quiet {w w' : World} (h : w.yieldNow = .ok w') :
    QuietObjs w.exec.objs w'.exec.objs ∧ w'.arcs = w.arcs := by
  unfold World.yieldNow at h
  simp only [bind, Except.bind, pure, Except.pure] at h
  split at h
  · cases h
  · next v hv => cases h; have k := schedule_quiet hv; exact ⟨k, rfl⟩

/-- rewriting a notify object -/
theorem quiet_setNotify {os : List Obj} {o : Nat} {s s' : NotifySt} (h : os[o]? = some (.notify s)) :
    QuietObjs os (os.set o (.notify s')) :=
  objsRel_set Quiet.refl h ⟨fun m e => (by cases e), fun m e => (by cases e)⟩

theorem notifyEffect_quiet {w w' : World} {o : Nat} (h : w.notifyEffect o = .ok w') :
    QuietObjs w.exec.objs w'.exec.objs ∧ w'.arcs = w.arcs := by
  have h0 := h
  unfold World.notifyEffect at h0
  obtain ⟨s, hs, _⟩ := bind_ok h0
  have hs := C08.getNotify_ok hs
  rw [C08.notifyEffect_eq hs] at h
  cases h
  exact ⟨quiet_setNotify hs, rfl⟩

theorem notifyWait2_quiet {w w' : World} {o : Nat} (h : w.notifyWait2 o = .ok w') :
    QuietObjs w.exec.objs w'.exec.objs ∧ w'.arcs = w.arcs := by
  have h0 := h
  unfold World.notifyWait2 at h0
  obtain ⟨s, hs, _⟩ := bind_ok h0
  have hs := C08.getNotify_ok hs
  cases hn : s.notified
  · rw [C08.notifyWait2_unnotified hs hn] at h; cases h
  · rw [C08.notifyWait2_notified hs hn] at h; cases h
    exact ⟨quiet_setNotify hs, rfl⟩

theorem notifyWait1_quiet {w w' : World} {o st : Nat} (h : w.notifyWait1 o = .ok (w', st)) :
    QuietObjs w.exec.objs w'.exec.objs ∧ w'.arcs = w.arcs := by
  have h0 := h
  unfold World.notifyWait1 at h0
  obtain ⟨s, hs, _⟩ := bind_ok h0
  have hs := C08.getNotify_ok hs
  by_cases hsp : (s.spurious && !s.didSpur) = false
  · rw [C08.notifyWait1_plain hs hsp] at h
    obtain ⟨w1, hb, he⟩ := map_ok h
    cases he
    exact branch_quiet hb
  · have h1 : s.spurious = true := by cases hh : s.spurious <;> simp [hh] at hsp ⊢
    have h2 : s.didSpur = false := by cases hh : s.didSpur <;> simp [hh] at hsp ⊢
    rw [C08.notifyWait1_maySpur hs h1 h2] at h
    split at h
    · cases h
    · obtain ⟨w1, hb, he⟩ := map_ok h
      cases he
      have k := yieldNow_quiet hb
      exact ⟨(quiet_setNotify hs).tr k.1, k.2⟩
    · obtain ⟨w1, hb, he⟩ := map_ok h
      cases he
      have k := branch_quiet hb
      exact ⟨k.1, k.2⟩

/-- dropping a waker: no mutex is touched -/
theorem wakerDrop_locks {w w' : World} {a : Nat} (h : w.wakerDrop a = .ok w') :
    LocksQuiet w.exec.objs w'.exec.objs := by
  rw [wakerDrop_eq] at h
  obtain ⟨⟨w1, last⟩, h1, h2⟩ := WB.bind_eq_ok h
  dsimp only at h2
  rw [afterDec_exec h2]
  have h0 := h1
  unfold World.refDecEffect at h0
  obtain ⟨s, hs, _⟩ := bind_ok h0
  have hf := C11.refDecEffect_inv hs h1
  have hs' := getArc_ok' hs
  intro n x hx
  by_cases hn : n = (w.arcInfo a).obj
  · subst hn
    rw [hs'] at hx; cases hx
    exact ⟨_, getArc_ok' hf.arc, fun m e => by cases e⟩
  · exact ⟨x, by rw [hf.others n hn]; exact hx, LockQuiet.refl x⟩

/-- the stages 50–53 of `block_on` (mode 5: self-wake, wait, second poll) touch no mutex, change no `Arc`
count and leave the `Arc` table alone; so does the set-up stage 0 as far as the objects go (it appends the
call's `Notify` and its `Arc`) -/
theorem blockOn_selfWake_quiet {w w' : World} {c : TCtl} {f mode : Nat}
    (h : w.blockOnStage c f mode = .ok w')
    (hc : c.stage = 0 ∨ c.stage = 50 ∨ c.stage = 51 ∨ c.stage = 52 ∨ c.stage = 53) :
    QuietObjs w.exec.objs w'.exec.objs ∧ (c.stage ≠ 0 → w'.arcs = w.arcs) := by
  rcases hc with hs | hs | hs | hs | hs
  · rw [blockOn_stage0 w c f mode hs] at h
    cases h
    refine ⟨?_, fun h0 => absurd hs h0⟩
    show QuietObjs w.exec.objs (setUp w f).exec.objs
    rw [(setUp_facts w f).2.2.1]
    exact objsRel_append Quiet.refl _ _
  · rw [blockOn_stage50 w c f mode hs] at h
    have k := branch_quiet h
    exact ⟨k.1, fun _ => k.2⟩
  · rw [blockOn_stage51 w c f mode hs] at h
    obtain ⟨w1, h1, h2⟩ := bind_ok h
    obtain ⟨⟨w2, st⟩, h3, h4⟩ := bind_ok h2
    cases h4
    have k1 := notifyEffect_quiet h1
    have k2 := notifyWait1_quiet h3
    exact ⟨k1.1.tr k2.1, fun _ => k2.2.trans k1.2⟩
  · rw [blockOn_stage52 w c f mode hs] at h
    have k := branch_quiet h
    exact ⟨k.1, fun _ => k.2⟩
  · rw [blockOn_stage53 w c f mode hs] at h
    obtain ⟨w1, h1, h2⟩ := bind_ok h
    cases h2
    have k := notifyWait2_quiet h1
    exact ⟨k.1, fun _ => k.2⟩

/-- the return stage of a mode-5 call touches no mutex -/
theorem blockOn_return5_locks {w w' : World} {c : TCtl} {f : Nat}
    (h : w.blockOnStage c f 5 = .ok w') (hs : c.stage = 40) :
    LocksQuiet w.exec.objs w'.exec.objs := by
  rw [blockOn_stage40_selfWake w c f hs] at h
  obtain ⟨w1, h1, h2⟩ := bind_ok h
  cases h2
  have k := wakerDrop_locks h1
  exact k

/-- … spelled out: in every stage of a mode-5 call every mutex is as before (up to the scheduler's access record) -/
theorem blockOn_selfWake_locks {w w' : World} {c : TCtl} {f : Nat}
    (h : w.blockOnStage c f 5 = .ok w') (hc : SelfWakeStage c.stage) :
    ∀ (o : Nat) (m : MutexSt), w.exec.objs[o]? = some (Obj.mutex m) →
      ∃ a, w'.exec.objs[o]? = some (Obj.mutex { m with lastAccess := a }) := by
  have hq : LocksQuiet w.exec.objs w'.exec.objs := by
    rcases hc with e | e | e | e | e | e
    · exact (blockOn_selfWake_quiet h (.inl e)).1.locks
    · exact (blockOn_selfWake_quiet h (.inr (.inl e))).1.locks
    · exact (blockOn_selfWake_quiet h (.inr (.inr (.inl e)))).1.locks
    · exact (blockOn_selfWake_quiet h (.inr (.inr (.inr (.inl e))))).1.locks
    · exact (blockOn_selfWake_quiet h (.inr (.inr (.inr (.inr e))))).1.locks
    · exact blockOn_return5_locks h e
  intro o m hm
  obtain ⟨x', hx', r⟩ := hq o _ hm
  obtain ⟨a, ha⟩ := r m rfl
  exact ⟨a, by rw [hx', ha]⟩

/-- the stages 50–53 write neither the futures' table nor the `Arc` table and change no `Arc` count -/
theorem blockOn_selfWake_counts {w w' : World} {c : TCtl} {f mode : Nat}
    (h : w.blockOnStage c f mode = .ok w')
    (hc : c.stage = 50 ∨ c.stage = 51 ∨ c.stage = 52 ∨ c.stage = 53) :
    w'.arcs = w.arcs ∧ w'.futs = w.futs ∧
    ∀ (o : Nat) (s0 : ArcSt), w.exec.objs[o]? = some (Obj.arc s0) →
      ∃ s1 : ArcSt, w'.exec.objs[o]? = some (Obj.arc s1) ∧ s1.refCnt = s0.refCnt := by
  have hq := blockOn_selfWake_quiet h (.inr hc)
  have h0 : c.stage ≠ 0 := by omega
  refine ⟨hq.2 h0, ?_, fun o s0 hs => ?_⟩
  · unfold World.blockOnStage at h
    bo_auto h
  · obtain ⟨x', hx', r⟩ := hq.1 o _ hs
    obtain ⟨s1, h1, e⟩ := r.2 s0 rfl
    exact ⟨s1, by rw [hx', h1], e⟩

end C20
end LoomVerif

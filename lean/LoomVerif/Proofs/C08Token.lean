/-
C08, the `park` token (`Thread.token`, a field of its own since the repair of findings F5/F6/F18): a frame
theorem.  The token of a thread is written in two places only — `Thread::set_unparked` (`unpark`:
`false → true`, for a live thread that is not parked) and `rt::park` (the parker's own token: `true → false`).
(Since the repair of finding F15 the condvar no longer goes through `park` / `unpark`: `Condvar::wait` blocks
with `rt::block`, `notify_one` / `notify_all` wake with `Set::wake`; none of them touches a token.)  Every other helper of `Model/Interp.lean`, `Exec.schedule`,
`Exec.newThread`, the atomics, and hence every stage of every operation and of the epilogue, leaves every
thread's token alone.
-/
import LoomVerif.Proofs.C08Foot

set_option linter.unusedSimpArgs false
set_option linter.unusedVariables false

namespace LoomVerif
namespace Tok

/-- the token of thread `i` (`false` outside the thread table) -/
def toks (s : Threads) (i : Nat) : Bool := (s.get i).token

theorem toks_def (s : Threads) (i : Nat) : toks s i = (s.threads[i]?.map Thread.token).getD false := by
  unfold toks Threads.get
  rw [List.getD_eq_getElem?_getD]
  cases s.threads[i]? <;> rfl

theorem toks_congr {s s' : Threads}
    (h : ∀ i : Nat, (s'.threads[i]?.map Thread.token).getD false =
      (s.threads[i]?.map Thread.token).getD false) :
    toks s' = toks s := by
  funext i; rw [toks_def, toks_def]; exact h i

theorem toks_modify (s : Threads) (i : Nat) (f : Thread → Thread) (hf : ∀ t, (f t).token = t.token) :
    toks (s.modify i f) = toks s := by
  apply toks_congr
  intro j
  simp only [Threads.modify, List.getElem?_modify]
  by_cases e : i = j
  · subst e
    cases s.threads[i]? <;> simp [hf]
  · simp [e]

theorem toks_modifyActive (s : Threads) (f : Thread → Thread) (hf : ∀ t, (f t).token = t.token) :
    toks (s.modifyActive f) = toks s := toks_modify s _ f hf

@[simp] theorem toks_setCaus (s : Threads) (v : VV) : toks (s.setCaus v) = toks s :=
  toks_modifyActive s _ (fun _ => rfl)
@[simp] theorem toks_syncLoad (s : Threads) (sy : Sync) (o : Ord) : toks (s.syncLoad sy o) = toks s :=
  toks_setCaus s _
@[simp] theorem toks_inc (s : Threads) : toks s.activeCausalityInc = toks s :=
  toks_modifyActive s _ (fun _ => rfl)
@[simp] theorem toks_seqCstFence (s : Threads) : toks s.seqCstFence = toks s := by
  unfold Threads.seqCstFence
  exact toks_setCaus s _
@[simp] theorem toks_active (s : Threads) (a : Option Nat) : toks { s with active := a } = toks s := rfl
@[simp] theorem toks_seqCst (s : Threads) (v : VV) : toks { s with seqCst := v } = toks s := rfl

theorem wakeFrom_token (t u : Thread) : (t.wakeFrom u).token = t.token := by
  unfold Thread.wakeFrom
  simp only
  split <;> rfl

/-- `Set::wake` touches no token -/
@[simp] theorem toks_wake (s : Threads) (t : Nat) : toks (s.wake t) = toks s := by
  unfold Threads.wake
  split
  · rfl
  · exact toks_modify s _ _ (fun th => wakeFrom_token th _)

@[simp] theorem toks_foldl_wake (l : List Nat) (s : Threads) :
    toks (l.foldl (fun ths t => ths.wake t) s) = toks s := by
  induction l generalizing s with
  | nil => rfl
  | cons t l ih => rw [List.foldl_cons, ih, toks_wake]

theorem toks_mapIdx (s : Threads) (f : Nat → Thread → Thread) (hf : ∀ i t, (f i t).token = t.token) :
    toks { s with threads := s.threads.mapIdx f } = toks s := by
  apply toks_congr
  intro j
  simp only [List.getElem?_mapIdx]
  cases s.threads[j]? <;> simp [hf]

theorem toks_mk_mapIdx (l : List Thread) (a : Option Nat) (v : VV) (m : Nat)
    (f : Nat → Thread → Thread) (hf : ∀ i t, (f i t).token = t.token) :
    toks { threads := l.mapIdx f, active := a, seqCst := v, max := m } =
      toks { threads := l, active := a, seqCst := v, max := m } :=
  toks_mapIdx { threads := l, active := a, seqCst := v, max := m } f hf


/-! ### `Exec.schedule`, `Exec.newThread`, the atomics -/

theorem schedule_toks {e : Exec} {pk : Bool} {r : Exec × Bool} (h : e.schedule pk = .ok r) :
    toks r.1.threads = toks e.threads := by
  unfold Exec.schedule at h
  mt_split h
  all_goals first
    | (cases h; done)
    | (cases h; rfl)
    | (cases h
       dsimp only
       first
         | exact toks_mapIdx _ _ (fun i t => by split <;> rfl)
         | (refine (toks_mapIdx _ _ (fun i t => by split <;> rfl)).trans ?_
            first
              | rfl
              | exact (toks_modify _ _ _ (by intro _; rfl)).trans rfl))

theorem newThread_toks {e : Exec} {r : Exec × Nat} (h : e.newThread = .ok r) :
    toks r.1.threads = toks e.threads := by
  unfold Exec.newThread at h
  simp only [bind, Except.bind, pure, Except.pure] at h
  split at h
  · cases h
  · next v hv =>
    cases h
    unfold Threads.newThread at hv
    split at hv
    · cases hv
      dsimp only
      refine (toks_modify _ _ _ (by intro _; rfl)).trans ((toks_modify _ _ _ (by intro _; rfl)).trans ?_)
      apply toks_congr
      intro j
      by_cases hj : j < e.threads.threads.length
      · rw [List.getElem?_append_left hj]
      · by_cases hj' : j = e.threads.threads.length
        · subst hj'
          simp
        · have : e.threads.threads.length < j := by omega
          rw [List.getElem?_eq_none (by simp; omega), List.getElem?_eq_none (by omega)]
    · cases hv

theorem atomic_fenceAcq_toks (a : Atomic) (ths : Threads) : toks (a.fenceAcq ths) = toks ths := by
  unfold Atomic.fenceAcq
  generalize Atomic.storesMutOrder a.cnt = l
  induction l generalizing ths with
  | nil => rfl
  | cons i l ih =>
    simp only [List.foldl_cons, ih]
    split
    · exact toks_syncLoad _ _ _
    · rfl

theorem Atomic.load_toks {a : Atomic} {ths : Threads} {idx : Nat} {o : Ord} {r : Atomic × Threads × Nat}
    (h : a.load ths idx o = .ok r) : toks r.2.1 = toks ths := by
  unfold Atomic.load at h
  mt_split h
  all_goals first | (cases h; done) | (cases h; exact toks_syncLoad _ _ _)

theorem Atomic.rmw_toks {a : Atomic} {ths : Threads} {idx : Nat} {so fo : Ord} {f : Nat → Option Nat}
    {r : Atomic × Threads × Nat × Bool} (h : a.rmw ths idx so fo f = .ok r) :
    toks r.2.1 = toks ths := by
  unfold Atomic.rmw at h
  mt_split h
  all_goals first | (cases h; done) | (cases h; exact toks_syncLoad _ _ _)

theorem Prim.effect_toks {t : ATy} {a : Atomic} {ths : Threads} {p : Prim} {idx : Nat}
    {r : Atomic × Threads × Ret} (h : p.effect t a ths idx = .ok r) : toks r.2.1 = toks ths := by
  unfold Prim.effect at h
  mt_split h
  all_goals first
    | (cases h; done)
    | (cases h; rfl)
    | (have := Atomic.load_toks ‹Atomic.load _ _ _ _ = Except.ok _›; cases h; simp_all; done)
    | (have := Atomic.rmw_toks ‹Atomic.rmw _ _ _ _ _ _ = Except.ok _›; cases h; simp_all; done)


/-! ### the helpers of the interpreter -/

/-- every thread has in `w'` the token it has in `w` -/
def Keep (w w' : World) : Prop := toks w'.exec.threads = toks w.exec.threads

theorem Keep.refl (w : World) : Keep w w := rfl
theorem Keep.trans {a b c : World} (h1 : Keep a b) (h2 : Keep b c) : Keep a c :=
  Eq.trans h2 h1

theorem toks_forOthers (w : World) (p : Operation → Bool) (f : Thread → Thread)
    (hf : ∀ t, (f t).token = t.token) :
    toks (w.forOthers p f).exec.threads = toks w.exec.threads := by
  unfold World.forOthers
  exact toks_mapIdx w.exec.threads _ (fun i t => by
    split
    · rfl
    · split
      · split
        · exact hf _
        · rfl
      · rfl)

theorem wake_token (t : Thread) : t.wake.token = t.token := by
  unfold Thread.wake; split <;> rfl

@[simp] theorem toks_forOthers_wake (w : World) (p : Operation → Bool) :
    toks (w.forOthers p Thread.wake).exec.threads = toks w.exec.threads :=
  toks_forOthers w p _ wake_token
@[simp] theorem toks_forOthers_setBlocked (w : World) (p : Operation → Bool) :
    toks (w.forOthers p Thread.setBlocked).exec.threads = toks w.exec.threads :=
  toks_forOthers w p _ (fun _ => rfl)
@[simp] theorem toks_forOthers_notify (w : World) (p : Operation → Bool) (v : VV) :
    toks (w.forOthers p fun th => ({ th with causality := th.causality.join v }).wake).exec.threads =
      toks w.exec.threads :=
  toks_forOthers w p _ (fun t => wake_token _)

theorem toks_fenceAcq (w : World) : toks w.fenceAcq.exec.threads = toks w.exec.threads := by
  unfold World.fenceAcq
  show toks (w.exec.objs.foldl _ w.ths) = toks w.ths
  generalize w.ths = ths
  generalize w.exec.objs = os
  induction os generalizing ths with
  | nil => rfl
  | cons o os ih =>
    simp only [List.foldl_cons, ih]
    split
    · exact atomic_fenceAcq_toks _ _
    · rfl

@[simp] theorem toks_fenceRel (w : World) : toks w.fenceRel.exec.threads = toks w.exec.threads :=
  toks_modifyActive _ _ (fun _ => rfl)
@[simp] theorem toks_sync (w : World) : toks w.sync.exec.threads = toks w.exec.threads := toks_inc _
@[simp] theorem toks_fenceAcq' (w : World) : toks w.fenceAcq.exec.threads = toks w.exec.threads :=
  toks_fenceAcq w
@[simp] theorem toks_fenceSC (w : World) : toks w.fenceSC.exec.threads = toks w.exec.threads := by
  unfold World.fenceSC
  show toks (Threads.seqCstFence _) = _
  rw [toks_seqCstFence]
  exact (toks_fenceRel _).trans ((toks_fenceAcq _).trans (toks_sync _))
@[simp] theorem threads_setThs (w : World) (t : Threads) : (w.setThs t).exec.threads = t := rfl
@[simp] theorem threads_setObj (w : World) (o : Nat) (v : Obj) :
    (w.setObj o v).exec.threads = w.exec.threads := rfl
@[simp] theorem threads_setObjs (w : World) (o : Objs) : (w.setObjs o).exec.threads = w.exec.threads := rfl
@[simp] theorem threads_setPath (w : World) (p : Path) : (w.setPath p).exec.threads = w.exec.threads := rfl
@[simp] theorem threads_pushObj (w : World) (o : Obj) : (w.pushObj o).1.exec.threads = w.exec.threads := rfl
@[simp] theorem threads_modCtl (w : World) (t : Nat) (f : TCtl → TCtl) :
    (w.modCtl t f).exec.threads = w.exec.threads := rfl
@[simp] theorem threads_setStage (w : World) (n : Nat) : (w.setStage n).exec.threads = w.exec.threads := rfl
@[simp] theorem threads_complete (w : World) (r : Ret) : (w.complete r).exec.threads = w.exec.threads := rfl
@[simp] theorem threads_modArc (w : World) (a : Nat) (f : ArcInfo → ArcInfo) :
    (w.modArc a f).exec.threads = w.exec.threads := rfl
@[simp] theorem threads_modFut (w : World) (f : Nat) (g : FutSt → FutSt) :
    (w.modFut f g).exec.threads = w.exec.threads := rfl
@[simp] theorem threads_setHandle (w : World) (h : Nat) (x : Option HandleSt) :
    (w.setHandle h x).exec.threads = w.exec.threads := by
  unfold World.setHandle; rfl
@[simp] theorem threads_ths (w : World) : w.ths = w.exec.threads := rfl
@[simp] theorem threads_tlsGet (w : World) (k : Nat) : (w.tlsGet k).1.exec.threads = w.exec.threads := by
  rw [World.tlsGet_exec]
@[simp] theorem threads_dropLocals (w : World) : w.dropLocals.exec.threads = w.exec.threads := by
  rw [World.dropLocals_exec]

macro "tk_simp" : tactic => `(tactic|
  simp_all [Keep])

macro "tk_sat0" : tactic => `(tactic|
  (try (have := schedule_toks ‹Exec.schedule _ _ = Except.ok _›)
   try (have := newThread_toks ‹Exec.newThread _ = Except.ok _›)
   try (have := Prim.effect_toks ‹Prim.effect _ _ _ _ _ = Except.ok _›)))

macro "tk_auto0" h:ident : tactic => `(tactic|
  (mt_split $h
   all_goals first
     | (cases $h:ident; done)
     | (cases $h:ident; exact rfl)
     | (tk_sat0; (try cases $h:ident); tk_simp; done)))

theorem branch_keep {w w' : World} {o : Nat} {a : Action} {b wt : Bool}
    (h : w.branch o a b wt = .ok w') : Keep w w' := by
  unfold World.branch at h
  mt_split h
  · cases h
  · have := schedule_toks ‹Exec.schedule _ _ = Except.ok _›
    cases h
    refine Eq.trans this (toks_modifyActive _ _ (fun t => ?_))
    split <;> rfl

theorem yieldNow_keep {w w' : World} (h : w.yieldNow = .ok w') : Keep w w' := by
  unfold World.yieldNow at h
  mt_split h
  · cases h
  · have := schedule_toks ‹Exec.schedule _ _ = Except.ok _›
    cases h
    exact Eq.trans this (toks_modifyActive _ _ (fun t => rfl))

/-- `rt::block` blocks the caller and runs the scheduler: no token is touched (in particular the caller's own
token is neither looked at nor consumed) -/
theorem blockNow_keep {w w' : World} (h : w.blockNow = .ok w') : Keep w w' := by
  unfold World.blockNow at h
  mt_split h
  · cases h
  · have := schedule_toks ‹Exec.schedule _ _ = Except.ok _›
    cases h
    exact Eq.trans this (toks_modifyActive _ _ (fun t => rfl))

theorem postAcquire_keep {w : World} {o : Nat} {r : World × Bool} (h : w.postAcquire o = .ok r) :
    Keep w r.1 := by
  unfold World.postAcquire at h; tk_auto0 h
theorem releaseLock_keep {w w' : World} {o : Nat} (h : w.releaseLock o = .ok w') : Keep w w' := by
  unfold World.releaseLock at h; tk_auto0 h
theorem postAcquireRead_keep {w : World} {o : Nat} {r : World × Bool}
    (h : w.postAcquireRead o = .ok r) : Keep w r.1 := by
  unfold World.postAcquireRead at h; tk_auto0 h
theorem postAcquireWrite_keep {w : World} {o : Nat} {r : World × Bool}
    (h : w.postAcquireWrite o = .ok r) : Keep w r.1 := by
  unfold World.postAcquireWrite at h; tk_auto0 h
theorem releaseRead_keep {w w' : World} {o : Nat} (h : w.releaseRead o = .ok w') : Keep w w' := by
  unfold World.releaseRead at h; tk_auto0 h
theorem releaseWrite_keep {w w' : World} {o : Nat} (h : w.releaseWrite o = .ok w') : Keep w w' := by
  unfold World.releaseWrite at h; tk_auto0 h
theorem notifyWait2_keep {w w' : World} {o : Nat} (h : w.notifyWait2 o = .ok w') : Keep w w' := by
  unfold World.notifyWait2 at h; tk_auto0 h
theorem notifyEffect_keep {w w' : World} {o : Nat} (h : w.notifyEffect o = .ok w') : Keep w w' := by
  unfold World.notifyEffect at h; tk_auto0 h
theorem sendEffect_keep {w w' : World} {o : Nat} {v : Int} (h : w.sendEffect o v = .ok w') :
    Keep w w' := by
  unfold World.sendEffect at h; tk_auto0 h
theorem recvEffect_keep {w : World} {o : Nat} {r : World × Int} (h : w.recvEffect o = .ok r) :
    Keep w r.1 := by
  unfold World.recvEffect at h; tk_auto0 h
theorem refDecEffect_keep {w : World} {o : Nat} {r : World × Bool} (h : w.refDecEffect o = .ok r) :
    Keep w r.1 := by
  unfold World.refDecEffect at h; tk_auto0 h
theorem afterDec_keep {w w' : World} {a : Nat} {l : Bool} (h : w.afterDec a l = .ok w') :
    Keep w w' := by
  unfold World.afterDec at h; tk_auto0 h
theorem primEffect_keep {w : World} {x : Nat} {p : Prim} {r : World × Ret}
    (h : w.primEffect x p = .ok r) : Keep w r.1 := by
  unfold World.primEffect at h; tk_auto0 h
theorem wakerClone_keep {w w' : World} {a : Nat} (h : w.wakerClone a = .ok w') : Keep w w' := by
  unfold World.wakerClone at h; tk_auto0 h
theorem lazyRead_keep {w : World} {sv : LazyVal} {r : World × Int} (h : w.lazyRead sv = .ok r) :
    Keep w r.1 := by
  unfold World.lazyRead at h; tk_auto0 h


macro "tk_sat1" : tactic => `(tactic|
  (tk_sat0
   try (have := branch_keep ‹World.branch _ _ _ _ _ = Except.ok _›)
   try (have := yieldNow_keep ‹World.yieldNow _ = Except.ok _›)
   try (have := blockNow_keep ‹World.blockNow _ = Except.ok _›)
   try (have := postAcquire_keep ‹World.postAcquire _ _ = Except.ok _›)
   try (have := releaseLock_keep ‹World.releaseLock _ _ = Except.ok _›)
   try (have := postAcquireRead_keep ‹World.postAcquireRead _ _ = Except.ok _›)
   try (have := postAcquireWrite_keep ‹World.postAcquireWrite _ _ = Except.ok _›)
   try (have := releaseRead_keep ‹World.releaseRead _ _ = Except.ok _›)
   try (have := releaseWrite_keep ‹World.releaseWrite _ _ = Except.ok _›)
   try (have := notifyWait2_keep ‹World.notifyWait2 _ _ = Except.ok _›)
   try (have := notifyEffect_keep ‹World.notifyEffect _ _ = Except.ok _›)
   try (have := sendEffect_keep ‹World.sendEffect _ _ _ = Except.ok _›)
   try (have := recvEffect_keep ‹World.recvEffect _ _ = Except.ok _›)
   try (have := refDecEffect_keep ‹World.refDecEffect _ _ = Except.ok _›)
   try (have := afterDec_keep ‹World.afterDec _ _ _ = Except.ok _›)
   try (have := primEffect_keep ‹World.primEffect _ _ _ = Except.ok _›)
   try (have := wakerClone_keep ‹World.wakerClone _ _ = Except.ok _›)
   try (have := lazyRead_keep ‹World.lazyRead _ _ = Except.ok _›)))

macro "tk_auto1" h:ident : tactic => `(tactic|
  (mt_split $h
   all_goals first
     | (cases $h:ident; done)
     | (cases $h:ident; exact rfl)
     | (tk_sat1; (try cases $h:ident); tk_simp; done)))

theorem wakerDrop_keep {w w' : World} {a : Nat} (h : w.wakerDrop a = .ok w') : Keep w w' := by
  unfold World.wakerDrop at h; tk_auto1 h

theorem lazyInitFinish_keep {w : World} {z id : Nat} {r : World × Int}
    (h : w.lazyInitFinish z id = .ok r) : Keep w r.1 := by
  unfold World.lazyInitFinish at h
  mt_split h
  all_goals first
    | (cases h; done)
    | (have := lazyRead_keep h; exact Keep.trans (by simp [Keep]) this)

theorem notifyWait1_keep {w : World} {o : Nat} {r : World × Nat} (h : w.notifyWait1 o = .ok r) :
    Keep w r.1 := by
  unfold World.notifyWait1 at h; tk_auto1 h

theorem threadDone_keep {w w' : World} (h : w.threadDone = .ok w') : Keep w w' := by
  unfold World.threadDone at h
  mt_split h
  · cases h
  · have := schedule_toks ‹Exec.schedule _ _ = Except.ok _›
    cases h
    exact Eq.trans this (toks_modifyActive _ _ (fun t => rfl))

theorem primStart_keep {w w' : World} {x : Nat} {p : Prim} {next : Nat}
    (h : w.primStart x p next = .ok w') : Keep w w' := by
  unfold World.primStart at h; tk_auto1 h

theorem tlsGet_keep {w : World} {k : Nat} {r : World × Option Nat} (h : w.tlsGet k = r) :
    Keep w r.1 := by
  subst h; exact congrArg toks (threads_tlsGet w k)

macro "tk_sat2" : tactic => `(tactic|
  (tk_sat1
   try (have := tlsGet_keep ‹World.tlsGet _ _ = _›)
   try (have := wakerDrop_keep ‹World.wakerDrop _ _ = Except.ok _›)
   try (have := lazyInitFinish_keep ‹World.lazyInitFinish _ _ _ = Except.ok _›)
   try (have := notifyWait1_keep ‹World.notifyWait1 _ _ = Except.ok _›)
   try (have := threadDone_keep ‹World.threadDone _ = Except.ok _›)
   try (have := primStart_keep ‹World.primStart _ _ _ _ = Except.ok _›)))

macro "tk_auto2" h:ident : tactic => `(tactic|
  (mt_split $h
   all_goals first
     | (cases $h:ident; done)
     | (cases $h:ident; exact rfl)
     | (tk_sat2; (try cases $h:ident); tk_simp; done)))

theorem lazyStage_keep {w w' : World} {c : TCtl} {z : Nat} (h : w.lazyStage c z = .ok w') :
    Keep w w' := by
  unfold World.lazyStage at h; tk_auto2 h

theorem blockOnStage_keep {w w' : World} {c : TCtl} {f mode : Nat}
    (h : w.blockOnStage c f mode = .ok w') : Keep w w' := by
  unfold World.blockOnStage at h; tk_auto2 h

theorem wakeStage_keep {w w' : World} {c : TCtl} {f : Nat} {b store : Bool}
    (h : w.wakeStage c f b store = .ok w') : Keep w w' := by
  unfold World.wakeStage at h; tk_auto2 h

theorem awTakeStage_keep {w w' : World} {c : TCtl} {f : Nat}
    (h : w.awTakeStage c f = .ok w') : Keep w w' := by
  unfold World.awTakeStage at h; tk_auto2 h


/-! ### the two writers of the token: `unpark` and `park` -/

theorem toks_modify_ne (s : Threads) (i j : Nat) (f : Thread → Thread) (h : j ≠ i) :
    toks (s.modify i f) j = toks s j := by
  unfold toks
  rw [WB.get_modify]
  have : ¬ (i = j ∧ j < s.threads.length) := fun e => h e.1.symm
  rw [if_neg this]

theorem toks_modify_self (s : Threads) (i : Nat) (f : Thread → Thread) (h : i < s.threads.length) :
    toks (s.modify i f) i = (f (s.get i)).token := by
  unfold toks
  rw [WB.get_modify, if_pos ⟨rfl, h⟩]

theorem toks_lt {s : Threads} {i : Nat} (h : toks s i = true) : i < s.threads.length := by
  rw [toks_def] at h
  by_cases hi : i < s.threads.length
  · exact hi
  · rw [List.getElem?_eq_none (by omega)] at h; cases h

theorem setUnparked_token_mono {t : Thread} (h : t.token = true) : t.setUnparked.token = true := by
  unfold Thread.setUnparked
  split
  · exact h
  · split
    · rfl
    · exact h

theorem unpark_token_mono {t u : Thread} (h : t.token = true) : (t.unpark u).token = true :=
  setUnparked_token_mono (t := { t with unparkCaus := t.unparkCaus.join u.causality }) h

/-- `Set::unpark` never takes a token away -/
theorem toks_unpark_mono (s : Threads) (t i : Nat) (h : toks s i = true) : toks (s.unpark t) i = true := by
  have hi := toks_lt h
  unfold Threads.unpark
  split
  · by_cases e : i = s.activeId
    · subst e
      show toks (s.modify _ _) _ = true
      rw [toks_modify_self _ _ _ hi]
      exact setUnparked_token_mono h
    · show toks (s.modify _ _) _ = true
      rw [toks_modify_ne _ _ _ _ e]; exact h
  · by_cases e : i = t
    · subst e
      rw [toks_modify_self _ _ _ hi]
      exact unpark_token_mono h
    · rw [toks_modify_ne _ _ _ _ e]; exact h

/-- … and touches the token of the target only -/
theorem toks_unpark_ne (s : Threads) (t i : Nat) (h : i ≠ t) : toks (s.unpark t) i = toks s i := by
  unfold Threads.unpark
  split
  · next e =>
    have e' : t = s.activeId := by simpa using e
    show toks (s.modify _ _) _ = _
    rw [toks_modify_ne _ _ _ _ (by rw [← e']; exact h)]
  · rw [toks_modify_ne _ _ _ _ h]

theorem toks_foldl_unpark_mono (l : List Nat) (s : Threads) (i : Nat) (h : toks s i = true) :
    toks (l.foldl (fun ths t => ths.unpark t) s) i = true := by
  induction l generalizing s with
  | nil => exact h
  | cons t l ih => rw [List.foldl_cons]; exact ih _ (toks_unpark_mono s t i h)

theorem toks_foldl_unpark_ne (l : List Nat) (s : Threads) (i : Nat) (h : i ∉ l) :
    toks (l.foldl (fun ths t => ths.unpark t) s) i = toks s i := by
  induction l generalizing s with
  | nil => rfl
  | cons t l ih =>
    rw [List.foldl_cons, ih _ (fun hm => h (List.mem_cons_of_mem _ hm))]
    exact toks_unpark_ne s t i (fun e => h (by rw [e]; exact List.mem_cons_self))

/-- `rt::park` touches the token of the parking thread only … -/
theorem parkNow_toks_ne {w w' : World} (h : w.parkNow = .ok w') (i : Nat) (hi : i ≠ w.tid) :
    toks w'.exec.threads i = toks w.exec.threads i := by
  unfold World.parkNow at h
  mt_split h
  · cases h
    exact toks_modify_ne _ _ _ _ hi
  · cases h
  · have := schedule_toks ‹Exec.schedule _ _ = Except.ok _›
    cases h
    show toks _ i = _
    rw [this]
    exact congrFun (toks_modifyActive _ _ (by intro _; rfl)) i

/-- … which has none afterwards -/
theorem parkNow_toks_self {w w' : World} (h : w.parkNow = .ok w') :
    toks w'.exec.threads w.tid = false := by
  unfold World.parkNow at h
  mt_split h
  · next ht =>
    cases h
    have hlt : w.tid < w.exec.threads.threads.length := toks_lt (s := w.exec.threads) ht
    exact toks_modify_self _ _ _ hlt
  · cases h
  · have hnt : ¬ w.ths.activeT.token = true := by assumption
    have := schedule_toks ‹Exec.schedule _ _ = Except.ok _›
    cases h
    show toks _ _ = _
    rw [this, congrFun (toks_modifyActive _ _ (by intro _; rfl)) _]
    have : w.ths.activeT.token = false := by simpa using hnt
    exact this

/-! ### one stage of an operation -/

/-- the operations whose stages may write a token -/
def tokenOp : Op → Bool
  | .park | .unpark _ => true
  | _ => false

/-- the stage `c.stage` of `op` calls `rt::park` -/
def parksAt (c : TCtl) : Op → Bool
  | .park => c.stage == 0
  | _ => false

theorem runOp_cvWait_keep {w w' : World} {c : TCtl} {vi mi : Nat}
    (h : w.runOp c (.cvWait vi mi) = .ok w') : Keep w w' := by
  simp only [World.runOp] at h; tk_auto2 h

theorem runOp_cvOne_keep {w w' : World} {c : TCtl} {vi : Nat}
    (h : w.runOp c (.cvOne vi) = .ok w') : Keep w w' := by
  simp only [World.runOp] at h; tk_auto2 h

theorem runOp_cvAll_keep {w w' : World} {c : TCtl} {vi : Nat}
    (h : w.runOp c (.cvAll vi) = .ok w') : Keep w w' := by
  simp only [World.runOp] at h; tk_auto2 h

set_option maxHeartbeats 400000 in
/-- every stage of every operation other than `park`, `unpark` — `cvwait`, `notify_one`, `notify_all` included
since the repair of finding F15 — keeps every thread's token -/
theorem runOp_keep {w w' : World} {c : TCtl} {op : Op} (hop : tokenOp op = false)
    (h : w.runOp c op = .ok w') : Keep w w' := by
  cases op
  case park => cases hop
  case unpark => cases hop
  case cvWait vi mi => exact runOp_cvWait_keep h
  case cvOne vi => exact runOp_cvOne_keep h
  case cvAll vi => exact runOp_cvAll_keep h
  case «lazy» => exact lazyStage_keep h
  case blockOn => exact blockOnStage_keep h
  case wake => exact wakeStage_keep h
  case wakeRef => exact wakeStage_keep h
  case wakeQ => exact wakeStage_keep h
  case awTake => exact awTakeStage_keep h
  case tlsNest k j =>
    simp only [World.runOp] at h
    split at h
    · cases h
    · next h1 =>
      split at h
      · cases h
      · next h2 =>
        cases h
        exact Keep.trans (Keep.trans (tlsGet_keep h1) (tlsGet_keep h2)) rfl
  all_goals (simp only [World.runOp] at h; tk_auto2 h)


/-- no token is taken away -/
def Mono (w w' : World) : Prop := ∀ i, toks w.exec.threads i = true → toks w'.exec.threads i = true

theorem Keep.mono {w w' : World} (h : Keep w w') : Mono w w' := fun i hi => by
  rw [show toks w'.exec.threads = toks w.exec.threads from h]; exact hi

/-- `unpark`: no token is taken away, and only the target's token may change -/
theorem runOp_unpark {w w' : World} {c : TCtl} {b : Nat} (h : w.runOp c (.unpark b) = .ok w') :
    Mono w w' ∧ ∃ t, w.threadOf b = .ok t ∧ w'.exec.threads = w.exec.threads.unpark t ∧
      ∀ i, i ≠ t → toks w'.exec.threads i = toks w.exec.threads i := by
  simp only [World.runOp] at h
  mt_split h
  · cases h
  · next t ht =>
    cases h
    exact ⟨fun i hi => toks_unpark_mono _ t i hi, t, ht, rfl, fun i hi => toks_unpark_ne _ t i hi⟩

/-- `park`: the other threads' tokens are kept; the stage that calls `rt::park` (stage 0) leaves the parker
without a token, the other stage keeps its token too -/
theorem runOp_park {w w' : World} {c : TCtl} (h : w.runOp c .park = .ok w') :
    (∀ i, i ≠ w.tid → toks w'.exec.threads i = toks w.exec.threads i) ∧
    (c.stage ≠ 0 → Keep w w') ∧ (c.stage = 0 → toks w'.exec.threads w.tid = false) := by
  simp only [World.runOp] at h
  split at h
  · next hs =>
    have hs' : c.stage = 0 := by simpa using hs
    exact ⟨fun i hi => parkNow_toks_ne (w := w.setStage 1) h i hi, fun hn => absurd hs' hn,
      fun _ => parkNow_toks_self (w := w.setStage 1) h⟩
  · next hs =>
    have hs' : c.stage ≠ 0 := by simpa using hs
    cases h
    exact ⟨fun _ _ => rfl, fun _ => rfl, fun e => absurd e hs'⟩

/-- one stage of any operation takes no token away — except the parker's own token in the stage that calls
`rt::park` -/
theorem runOp_mono {w w' : World} {c : TCtl} {op : Op} (h : w.runOp c op = .ok w') (i : Nat)
    (hp : i = w.tid → parksAt c op = false) (hi : toks w.exec.threads i = true) :
    toks w'.exec.threads i = true := by
  by_cases hop : tokenOp op = false
  · exact (runOp_keep hop h).mono i hi
  · cases op <;> first | (exact absurd rfl hop) | skip
    case park =>
      obtain ⟨h1, h2, _⟩ := runOp_park h
      by_cases e : i = w.tid
      · have : c.stage ≠ 0 := by simpa [parksAt] using hp e
        exact (h2 this).mono i hi
      · rw [h1 i e]; exact hi
    case unpark b => exact (runOp_unpark h).1 i hi

/-! ### the epilogue, one step -/

theorem dropPass_keep {w w' : World} {c : TCtl} {base : Nat} {done : World → Except Panic World}
    (hd : ∀ w2, done w = .ok w2 → Keep w w2) (h : w.dropPass c base done = .ok w') : Keep w w' := by
  unfold World.dropPass at h
  mt_split h
  all_goals first
    | (cases h; done)
    | (cases h; exact congrArg toks (threads_dropLocals w))
    | exact hd _ h
    | (have f := primStart_keep h; exact Keep.trans rfl f)
    | (tk_sat2; (try cases h); tk_simp; done)

theorem finishThread_keep {w w' : World} {c : TCtl} (h : w.finishThread c = .ok w') : Keep w w' := by
  unfold World.finishThread at h
  split at h
  · cases h
  · refine dropPass_keep ?_ h
    intro w2 h2
    have k := threadDone_keep h2
    exact k

theorem runEpilogue_keep {w w' : World} {c : TCtl} (h : w.runEpilogue c = .ok w') : Keep w w' := by
  unfold World.runEpilogue at h
  mt_split h
  all_goals first
    | (cases h; done)
    | exact finishThread_keep h
    | (cases h; exact rfl)
    | (refine dropPass_keep ?_ h
       intro w2 h2
       first
         | (cases h2; exact rfl)
         | (have k := branch_keep h2; exact k))
    | (tk_sat2; (try cases h); tk_simp; done)

/-- the stage the active thread is about to run calls `rt::park` -/
def parkStage (w : World) : Bool :=
  match (w.prog.threads.getD (w.ctlOf w.tid).body [])[(w.ctlOf w.tid).pc]? with
  | some op => parksAt (w.ctlOf w.tid) op
  | none => false

/-- the frame theorem: one stage of the active thread (`World.stepActive`: any stage of any operation, or
of the epilogue) takes no token away, except that the stage that calls `rt::park` consumes the parker's own -/
theorem stepActive_mono {w w' : World} (h : w.stepActive = .ok w') (i : Nat)
    (hp : i = w.tid → parkStage w = false) (hi : toks w.exec.threads i = true) :
    toks w'.exec.threads i = true := by
  unfold World.stepActive at h
  simp only [] at h
  unfold parkStage at hp
  split at h
  · next op hop =>
    rw [hop] at hp
    exact runOp_mono h i hp hi
  · exact (runEpilogue_keep h).mono i hi

/-- … and a stage that does not belong to `park` or `unpark` changes no token at all -/
theorem stepActive_keep {w w' : World} (h : w.stepActive = .ok w')
    (hop : ∀ op, (w.prog.threads.getD (w.ctlOf w.tid).body [])[(w.ctlOf w.tid).pc]? = some op →
      tokenOp op = false) : Keep w w' := by
  unfold World.stepActive at h
  simp only [] at h
  split at h
  · next op hop' => exact runOp_keep (hop op hop') h
  · exact runEpilogue_keep h


theorem Keep_iff (w w' : World) :
    Keep w w' ↔ ∀ i, (w'.ths.get i).token = (w.ths.get i).token :=
  ⟨fun h i => congrFun h i, fun h => funext h⟩

theorem Mono_iff (w w' : World) :
    Mono w w' ↔ ∀ i, (w.ths.get i).token = true → (w'.ths.get i).token = true := Iff.rfl

theorem toks_apply (s : Threads) (i : Nat) : toks s i = (s.get i).token := rfl

/-! ### an unpark that came first is not lost -/

/-- a run of the twin (stages of whatever thread is active: any operation, the epilogue) in which thread `t`
runs no stage that calls `rt::park` -/
inductive NoParkRun (t : Nat) : World → World → Prop
  | refl (w : World) : NoParkRun t w w
  | step {w w1 w2 : World} : NoParkRun t w w1 → w1.stepActive = .ok w2 →
      (w1.tid = t → parkStage w1 = false) → NoParkRun t w w2

/-- along such a run `t` keeps a token it has -/
theorem NoParkRun.token {t : Nat} {w w' : World} (h : NoParkRun t w w')
    (ht : toks w.exec.threads t = true) : toks w'.exec.threads t = true := by
  induction h with
  | refl => exact ht
  | step _ hs hp ih => exact stepActive_mono hs t (fun e => hp e.symm) ih

/-- `Set::unpark t` on a live thread in the table that is not blocked in `park`: it has a token afterwards
(whether `t` is the active thread itself or another one; whatever else its state is — running, yielded,
blocked on a lock, a join, a receive, a notify-wait) -/
theorem toks_unpark_target {s : Threads} {t : Nat} (hin : t < s.threads.length)
    (hp : (s.get t).parked = false) (hl : (s.get t).state ≠ .terminated) :
    toks (s.unpark t) t = true := by
  have key : ∀ th : Thread, th.parked = false → th.state ≠ .terminated → th.setUnparked.token = true := by
    intro th h1 h2
    have : th.isTerminated = false := by
      unfold Thread.isTerminated
      cases hs : th.state <;> first | rfl | exact absurd hs h2
    simp [Thread.setUnparked, h1, this]
  unfold Threads.unpark
  split
  · next e =>
    have e' : t = s.activeId := by simpa using e
    show toks (s.modify _ _) _ = true
    rw [← e', toks_modify_self _ _ _ hin]
    exact key _ hp hl
  · rw [toks_modify_self _ _ _ hin]
    exact key _ hp hl

/-- with a token, `rt::park` returns at once: the token is cleared, the stored unpark causality is acquired
(`acquire_unpark`) and nothing else happens — `schedule` is not called: the path, the objects, the active thread
and every thread's state are what they were -/
theorem parkNow_of_token {w : World} (h : toks w.exec.threads w.tid = true) :
    w.parkNow = .ok (w.setThs (w.ths.modifyActive fun th =>
      ({ th with token := false }).acquireUnpark)) := by
  unfold World.parkNow
  have : w.ths.activeT.token = true := h
  rw [this]
  rfl

theorem state_modifyActive_token (s : Threads) (i : Nat) :
    ((s.modifyActive fun th => ({ th with token := false }).acquireUnpark).get i).state =
      (s.get i).state ∧
    ((s.modifyActive fun th => ({ th with token := false }).acquireUnpark).get i).parked =
      (s.get i).parked ∧
    ((s.modifyActive fun th => ({ th with token := false }).acquireUnpark).get i).operation =
      (s.get i).operation := by
  unfold Threads.modifyActive
  rw [WB.get_modify]
  split <;> exact ⟨rfl, rfl, rfl⟩

/-- **an `unpark` that comes before the `park` is never lost.**  Thread `t` is live and not blocked in
`park` in `w0`; `w1` is any world whose thread table is the result of `Set::unpark t` on that of `w0` (e.g.
the successor of `w0` by the operation `unpark`);
from `w1` the twin runs any stages of any threads — of `t` itself too — among which `t` runs no stage that
calls `rt::park`; then `t`, active in `w`, calls `rt::park`: it returns at once, without blocking and
without a scheduling point. -/
theorem unpark_then_park {w0 w1 w : World} {t : Nat}
    (hin : t < w0.exec.threads.threads.length) (hp : (w0.exec.threads.get t).parked = false)
    (hl : (w0.exec.threads.get t).state ≠ .terminated)
    (hu : w1.exec.threads = w0.exec.threads.unpark t) (hrun : NoParkRun t w1 w) (ht : w.tid = t) :
    toks w.exec.threads t = true ∧
    w.parkNow = .ok (w.setThs (w.ths.modifyActive fun th =>
      ({ th with token := false }).acquireUnpark)) := by
  have h1 : toks w1.exec.threads t = true := by rw [hu]; exact toks_unpark_target hin hp hl
  have h2 := hrun.token h1
  exact ⟨h2, parkNow_of_token (by rw [ht]; exact h2)⟩

end Tok
end LoomVerif

/-
Deadlock soundness, WAIT fragment, part 9: channels (`send`, `recv`, `tryRecv`, `dropRx`).
-/
import LoomVerif.Proofs.Deadlock2Ops2
import LoomVerif.Proofs.C09Chan

namespace LoomVerif
namespace Deadlock2
open Refine Refine2 Sy Deadlock C07 C08

/-- `forOthers` with the predicate "the pending operation is on object `o`" -/
theorem forOthers_obj (w : World) (o : Nat) (f : Thread → Thread) (i : Nat) (e : i ≠ w.tid) :
    ((¬ ∃ op, (w.ths.get i).operation = some op ∧ op.obj = o) ∧
      (w.forOthers (fun op => op.obj == o) f).ths.get i = w.ths.get i) ∨
    ((∃ op, (w.ths.get i).operation = some op ∧ op.obj = o) ∧
      (w.forOthers (fun op => op.obj == o) f).ths.get i = f (w.ths.get i)) := by
  rw [WB.forOthers_get, if_neg e]
  cases hop : (w.ths.get i).operation with
  | none => exact .inl ⟨(by rintro ⟨op, ho, _⟩; cases ho), rfl⟩
  | some op =>
    by_cases ho : op.obj = o
    · exact .inr ⟨⟨op, rfl, ho⟩, by simp [ho]⟩
    · exact .inl ⟨(by rintro ⟨op', ho', h2⟩; cases ho'; exact ho h2), by simp [ho]⟩

theorem syncLoad_same4 (w : World) (sy : Sync) (o : Ord) (i : Nat) :
    Same4 (w.ths.get i) ((w.setThs (w.ths.syncLoad sy o)).ths.get i) := setCaus_same4 w.ths _ i

/-- `sendEffect`, seen from the thread table -/
theorem sendEffect_desc {w : World} {o : Nat} {cs : ChanSt} {v : Int} {w1 : World}
    (hc : w.exec.objs[o]? = some (.chan cs)) (h : w.sendEffect o v = .ok w1) :
    w1.ctl = w.ctl ∧ w1.tid = w.tid ∧ w1.prog = w.prog ∧ w1.spawned = w.spawned ∧
    w1.exec.path = w.exec.path ∧ w1.ths.isActive = w.ths.isActive ∧
    (∃ cs' : ChanSt, cs'.msgCnt = cs.msgCnt + 1 ∧ w1.exec.objs = w.exec.objs.set o (.chan cs')) ∧
    w1.ths.get w.tid = w.ths.get w.tid ∧
    (cs.msgCnt ≠ 0 → w1.ths = w.ths) ∧
    (cs.msgCnt = 0 → ∀ i, i ≠ w.tid →
      ((¬ ∃ op, (w.ths.get i).operation = some op ∧ op.obj = o) ∧ w1.ths.get i = w.ths.get i) ∨
      ((∃ op, (w.ths.get i).operation = some op ∧ op.obj = o) ∧
        ∃ v, w1.ths.get i = ({ w.ths.get i with causality := v } : Thread).wake)) := by
  unfold World.sendEffect at h
  simp only [getChan_of hc, bind, Except.bind, pure, Except.pure] at h
  split at h
  · next h1 =>
    have h0 : cs.msgCnt = 0 := by simpa using h1
    cases h
    refine ⟨rfl, rfl, rfl, rfl, rfl, rfl, ⟨_, rfl, rfl⟩, WB.forOthers_get_self _ _ _,
      fun hne => absurd h0 hne, fun _ i e => ?_⟩
    rcases forOthers_obj (w.setObj o _) o Thread.wake i e with ⟨a, b⟩ | ⟨a, b⟩
    · exact .inl ⟨a, b⟩
    · exact .inr ⟨a, (w.ths.get i).causality, b⟩
  · next h1 =>
    have h0 : cs.msgCnt ≠ 0 := by simpa using h1
    cases h
    exact ⟨rfl, rfl, rfl, rfl, rfl, rfl, ⟨_, rfl, rfl⟩, rfl, fun _ => rfl, fun e => absurd e h0⟩

/-- `recvEffect`, seen from the thread table -/
theorem recvEffect_desc {w : World} {o : Nat} {cs : ChanSt} {v : Int} {w1 : World}
    (hc : w.exec.objs[o]? = some (.chan cs)) (h : w.recvEffect o = .ok (w1, v)) :
    cs.msgCnt ≠ 0 ∧
    w1.ctl = w.ctl ∧ w1.tid = w.tid ∧ w1.prog = w.prog ∧ w1.spawned = w.spawned ∧
    w1.exec.path = w.exec.path ∧ w1.ths.isActive = w.ths.isActive ∧
    (∃ cs' : ChanSt, w1.exec.objs = w.exec.objs.set o (.chan cs')) ∧
    (w1.ths.get w.tid).state = (w.ths.get w.tid).state ∧
    ∀ i, i ≠ w.tid → Same4 (w.ths.get i) (w1.ths.get i) ∨
      ∃ op, (w.ths.get i).operation = some op ∧ op.obj = o ∧ op.action = .chanRecv := by
  unfold World.recvEffect at h
  simp only [getChan_of hc, bind, Except.bind, pure, Except.pure, throw, throwThe, MonadExceptOf.throw] at h
  split at h
  · cases h
  · next hcnt =>
    have hcnt' : cs.msgCnt ≠ 0 := by simpa using hcnt
    split at h
    · next sy rest' v' q hsy hq =>
      split at h
      · cases h
        refine ⟨hcnt', rfl, rfl, rfl, rfl, rfl, rfl, ⟨_, rfl⟩, ?_, fun i e => ?_⟩
        · refine Eq.trans (congrArg Thread.state (WB.forOthers_get_self _ _ _)) ?_
          exact (syncLoad_same4 (w.setObj o _) sy .acq w.tid).st
        · have hs := syncLoad_same4 (w.setObj o (.chan { cs with msgCnt := cs.msgCnt - 1, receiverSync := rest', queue := q })) sy .acq i
          rw [WB.forOthers_get]
          split
          · next e2 => exact absurd e2 e
          · split
            · next op hop =>
              split
              · next hp =>
                right
                simp only [Bool.and_eq_true, beq_iff_eq] at hp
                exact ⟨op, hs.op.symm.trans hop, hp.1, hp.2⟩
              · exact .inl hs
            · exact .inl hs
      · cases h
        refine ⟨hcnt', rfl, rfl, rfl, rfl, rfl, rfl, ⟨_, rfl⟩, ?_, fun i e => .inl ?_⟩
        · exact (syncLoad_same4 (w.setObj o _) sy .acq w.tid).st
        · exact syncLoad_same4 (w.setObj o _) sy .acq i
    · cases h

section
variable {w w' : World} {s : SCData2}

/-- single consumer: no OTHER thread has a pending `chanRecv` on the channel the active thread receives from -/
theorem rx_alone (c : Ctx w s) {op : Op} {q : Nat} (hop : opAt2 w = some op) (hrx : rxChan op = some q)
    {i : Nat} (hi : i < w.ctl.length) (e : i ≠ w.tid) {op' : Operation}
    (ho : (w.ths.get i).operation = some op') (hobj : op'.obj = chanIdx w.prog q)
    (ha : op'.action = .chanRecv) : False := by
  have hO := (c.j.thr i hi).opn e
  rw [ho] at hO
  obtain ⟨opi, hopi, hrxi⟩ := hO.rx ha hobj
  have hop' : (w.prog.threads.getD (w.ctl.getD w.tid {}).body [])[(w.ctl.getD w.tid {}).pc]? = some op := hop
  have hopi' : (w.prog.threads.getD (w.ctl.getD i {}).body [])[(w.ctl.getD i {}).pc]? = some opi := hopi
  have := c.wf.1.rx_same_body hopi' hop' hrxi hrx
  exact e (c.r.x.inj i w.tid hi c.act this)

/-- a message is taken from channel `q` by its consumer -/
theorem recv_step (c : Ctx w s) {op : Op} {q : Nat} (hop : opAt2 w = some op) (hrx : rxChan op = some q)
    (hq : q < w.prog.cfg.nChans) {w1 : World} {v : Int} (hre : w.recvEffect (w.chanObj q) = .ok (w1, v))
    {g : TCtl → TCtl} {w2 : World}
    (hp : w2.prog = w1.prog) (hs : w2.spawned = w1.spawned) (ht : w2.tid = w1.tid)
    (hc : w2.ctl = w1.ctl.modify w1.tid g) (he : w2.exec = w1.exec)
    (hbody : (g (w.ctlOf w.tid)).body = (w.ctlOf w.tid).body)
    (hpc : (w.ctlOf w.tid).pc ≤ (g (w.ctlOf w.tid)).pc)
    (hfin : 10 ≤ (g (w.ctlOf w.tid)).fin → 10 ≤ (w.ctlOf w.tid).fin) : Res w w2 := by
  obtain ⟨cs, hobj⟩ := chan_obj c.r hq
  obtain ⟨hne, hc1, ht1, hp1, hs1, hpath, hact1, ⟨cs', hobjs⟩, hself, hths⟩ := recvEffect_desc hobj hre
  have hview : objView2 w.exec.objs (w.chanObj q) = some (.chan cs.msgCnt cs.queue) := objView2_of hobj
  have hobjs2 : w2.exec.objs = w.exec.objs.set (w.chanObj q) (.chan cs') := by rw [he]; exact hobjs
  have hths2 : ∀ i, w2.ths.get i = w1.ths.get i := by
    intro i; show w2.exec.threads.get i = _; rw [he]; rfl
  have hnst : ¬ Stuck (.chan cs.msgCnt cs.queue) := by
    intro hs
    cases hh : cs.msgCnt with
    | zero => exact hne hh
    | succ k => rw [hh] at hs; exact hs
  refine Res.local (JB2.quiet (g := g) c.j c.act c.run (hp.trans hp1) (hs.trans hs1) (ht.trans ht1)
    (by rw [hc, hc1, ht1]) (by rw [hths2, hself]) ?_ ?_ ?_) (by rw [he]; exact hpath)
    (by show w2.exec.threads.isActive = true; rw [he]; exact hact1.trans c.active)
  · intro i hi e
    rw [hths2]
    rcases hths i e with h | ⟨op', ho, h1, h2⟩
    · exact h
    · exact (rx_alone c hop hrx hi e ho h1 h2).elim
  · intro i
    rw [hobjs2]
    exact vkeep_set hview (fun hs => absurd hs hnst)
  · refine c.j.jnd.modify (g := g) c.act (hp.trans hp1) (hs.trans hs1) (by rw [hc, hc1, ht1]) hbody hpc
      (fun _ => hfin) ?_
    intro b i n _ a d hv
    rw [hobjs2]
    exact nv_set hview (by intro a d e; cases e) n a d hv

theorem step_send (c : Ctx w s) {qi : Nat} {v : Int} (hq : qi < w.prog.cfg.nChans)
    (hop : opAt2 w = some (.send qi v)) (h : w.runOp (w.ctlOf w.tid) (.send qi v) = .ok w') : Res w w' := by
  obtain ⟨cs, hobj⟩ := chan_obj c.r hq
  have hview : objView2 w.exec.objs (w.chanObj qi) = some (.chan cs.msgCnt cs.queue) := objView2_of hobj
  by_cases hs0 : (w.ctlOf w.tid).stage = 0
  · rw [C09.runOp_send_stage0 _ _ _ _ hs0] at h
    have hop' : opOfCtl w.prog { w.ctlOf w.tid with stage := 1 } = some (.send qi v) := hop
    refine branch_stage (g := fun c => { c with stage := 1 }) c h rfl rfl id ?_ (by intro hb; cases hb)
    unfold OpAt; rw [hop']; simp; rfl
  · rw [C09.runOp_send_stage1 _ _ _ _ hs0] at h
    obtain ⟨w1, hse, h⟩ := Refine.bind_ok h
    simp only [pure, Except.pure] at h
    cases h
    obtain ⟨hc1, ht1, hp1, hs1, hpath, hact1, ⟨cs', hcnt', hobjs⟩, hself, hsame, hwake⟩ := sendEffect_desc hobj hse
    have hjnd : Jnd (w1.complete .unit) := by
      refine Jnd.complete c .unit hc1 ht1 hp1 hs1 ?_
      intro b i n _ a d hv
      rw [hobjs]
      exact nv_set hview (by intro a d e; cases e) n a d hv
    by_cases h0 : cs.msgCnt = 0
    · refine Res.local (JB2.wake_step (g := completeF .unit) (o := w.chanObj qi) c.j c.act c.run hp1 hs1 ht1
        (by rw [ctl_complete', hc1, ht1]) (by show (w1.ths.get w.tid).state = _; rw [hself])
        (fun i _ e => hwake h0 i e) ?_ ?_ hjnd) hpath (hact1.trans c.active)
      · intro ws hws
        rw [hview] at hws; cases hws
      · intro n v' hn hv
        show objView2 w1.exec.objs n = _
        rw [hobjs, objView2_set_ne _ _ hn]; exact hv
    · have hths : w1.ths = w.ths := hsame h0
      have hnst : ¬ Stuck (.chan cs.msgCnt cs.queue) := by
        intro hs
        cases hh : cs.msgCnt with
        | zero => exact h0 hh
        | succ k => rw [hh] at hs; exact hs
      refine Res.local (JB2.quiet (g := completeF .unit) c.j c.act c.run hp1 hs1 ht1
        (by rw [ctl_complete', hc1, ht1]) (by show (w1.ths.get w.tid).state = _; rw [hths])
        (fun i _ _ => by show Same4 _ (w1.ths.get i); rw [hths]; exact Same4.refl _) ?_ hjnd) hpath
        (hact1.trans c.active)
      intro i
      show ∀ n v, _ → _ → ∃ v', objView2 w1.exec.objs n = some v' ∧ _
      rw [hobjs]
      exact vkeep_set hview (fun hs => absurd hs hnst)

theorem step_recv (c : Ctx w s) {qi : Nat} (hq : qi < w.prog.cfg.nChans)
    (hop : opAt2 w = some (.recv qi)) (h : w.runOp (w.ctlOf w.tid) (.recv qi) = .ok w') : Res w w' := by
  obtain ⟨cs, hobj⟩ := chan_obj c.r hq
  have hview : objView2 w.exec.objs (chanIdx w.prog qi) = some (.chan cs.msgCnt cs.queue) := objView2_of hobj
  by_cases hs0 : (w.ctlOf w.tid).stage = 0
  · rw [C09.runOp_recv_stage0 _ _ _ cs hs0 (getChan_of hobj)] at h
    have hop' : opOfCtl w.prog { w.ctlOf w.tid with stage := 1 } = some (.recv qi) := hop
    refine branch_stage (g := fun c => { c with stage := 1 }) c h rfl rfl id ?_ ?_
    · unfold OpAt; rw [hop']; simp; rfl
    · intro hb
      have h0 : cs.msgCnt = 0 := by simpa using hb
      exact .recv qi true cs.queue hop' rfl (by rw [branchF_operation]; rfl) (by rw [hview, h0])
  · rw [C09.runOp_recv_stage1 _ _ _ hs0] at h
    obtain ⟨⟨w1, v⟩, hre, h⟩ := Refine.bind_ok h
    simp only [pure, Except.pure] at h
    cases h
    exact recv_step (g := completeF (.val v)) c hop rfl hq hre rfl rfl rfl rfl rfl rfl (Nat.le_succ _) id

theorem step_tryRecv (c : Ctx w s) {qi : Nat} (hq : qi < w.prog.cfg.nChans)
    (hop : opAt2 w = some (.tryRecv qi)) (h : w.runOp (w.ctlOf w.tid) (.tryRecv qi) = .ok w') : Res w w' := by
  obtain ⟨cs, hobj⟩ := chan_obj c.r hq
  by_cases hs0 : (w.ctlOf w.tid).stage = 0
  · by_cases h0 : cs.msgCnt = 0
    · rw [C09.runOp_tryRecv_stage0_empty _ _ _ cs hs0 (getChan_of hobj) h0] at h
      cases h
      exact quiet_complete c _ rfl rfl rfl rfl rfl c.active rfl (fun i _ _ => Same4.refl _)
        (fun i n v hv _ => ⟨v, hv, .inl rfl⟩) (fun b i n _ a d hv => ⟨a, d, hv⟩)
    · rw [(C09.runOp_tryRecv_stage0_nonempty _ _ _ cs hs0 (getChan_of hobj) h0).1] at h
      have hop' : opOfCtl w.prog { w.ctlOf w.tid with stage := 1 } = some (.tryRecv qi) := hop
      refine branch_stage (g := fun c => { c with stage := 1 }) c h rfl rfl id ?_ (by intro hb; cases hb)
      unfold OpAt; rw [hop']; simp; rfl
  · rw [C09.runOp_tryRecv_stage1 _ _ _ hs0, C09.runOp_recv_stage1 _ _ _ hs0] at h
    obtain ⟨⟨w1, v⟩, hre, h⟩ := Refine.bind_ok h
    simp only [pure, Except.pure] at h
    cases h
    exact recv_step (g := completeF (.val v)) c hop rfl hq hre rfl rfl rfl rfl rfl rfl (Nat.le_succ _) id

theorem step_dropRx (c : Ctx w s) {qi : Nat} (hq : qi < w.prog.cfg.nChans)
    (hop : opAt2 w = some (.dropRx qi)) (h : w.runOp (w.ctlOf w.tid) (.dropRx qi) = .ok w') : Res w w' := by
  obtain ⟨cs, hobj⟩ := chan_obj c.r hq
  simp only [World.runOp] at h
  split at h
  · simp only [getChan_of hobj, bind, Except.bind] at h
    split at h
    · simp only [pure, Except.pure] at h
      cases h
      exact quiet_complete c _ rfl rfl rfl rfl rfl c.active rfl (fun i _ _ => Same4.refl _)
        (fun i n v hv _ => ⟨v, hv, .inl rfl⟩) (fun b i n _ a d hv => ⟨a, d, hv⟩)
    · have hop' : opOfCtl w.prog { w.ctlOf w.tid with stage := 1 } = some (.dropRx qi) := hop
      refine branch_stage (g := fun c => { c with stage := 1 }) c h rfl rfl id ?_ (by intro hb; cases hb)
      unfold OpAt; rw [hop']; simp; rfl
  · obtain ⟨⟨w1, v⟩, hre, h⟩ := Refine.bind_ok h
    simp only [pure, Except.pure] at h
    cases h
    exact recv_step (g := fun c => { c with stage := 0 }) c hop rfl hq hre rfl rfl rfl rfl rfl rfl
      (Nat.le_refl _) id

end

end Deadlock2
end LoomVerif

/-
C01 pillar 3 / C05.1 / C18.1-2: which thread `Exec.schedule` chooses, when it reports a
deadlock, and what it does to yielded threads.
-/
import LoomVerif.Proofs.C01Sched

namespace LoomVerif
namespace Exec

/-! ### `schedule` is a frame step -/

theorem finishOp_ok {e : Exec} {pid nid : Nat} {ths : Threads} {objs : Objs}
    (h : e.finishOp pid nid = .ok (ths, objs)) :
    ths.active = some nid ∧ ths.seqCst = e.threads.seqCst ∧ ths.max = e.threads.max ∧
    ((ths.threads = e.threads.threads ∧ objs = e.objs ∧ (e.threads.get nid).operation = none) ∨
     ∃ op d, (e.threads.get nid).operation = some op ∧
       ths.threads = e.threads.threads.modify nid (fun t => { t with dporVV := d }) ∧
       ∃ acc, e.objs.lastDependentAccess op = .ok acc ∧
         d = (match acc with
              | some a => (e.threads.get nid).dporVV.join a.vv
              | none => (e.threads.get nid).dporVV).inc nid ∧
         e.objs.setLastAccess op pid d = .ok objs) := by
  unfold finishOp at h
  simp only [bind, Except.bind, pure, Except.pure] at h
  have hget : (({ e.threads with active := some nid } : Threads).get nid) = e.threads.get nid := rfl
  rw [hget] at h
  cases hop : (e.threads.get nid).operation with
  | none =>
    rw [hop] at h; cases h
    exact ⟨rfl, rfl, rfl, Or.inl ⟨rfl, rfl, rfl⟩⟩
  | some op =>
    rw [hop] at h
    simp only at h
    cases hl : e.objs.lastDependentAccess op with
    | error err => rw [hl] at h; cases h
    | ok acc =>
      rw [hl] at h
      simp only at h
      split at h
      · cases h
      · rename_i objs' hs
        cases h
        exact ⟨rfl, rfl, rfl, Or.inr ⟨op, _, rfl, rfl, acc, hl, rfl, hs⟩⟩

theorem finish_ok {e e' : Exec} {p : Path} {pid nid : Nat} {b : Bool}
    (h : e.finish p pid nid = .ok (e', b)) :
    ∃ ths objs, e.finishOp pid nid = .ok (ths, objs) ∧
      e' = { e with path := p, threads := { ths with threads := reactivate ths.threads nid },
                    objs := objs } ∧
      b = (e.threads.activeId != nid) := by
  unfold finish at h
  split at h
  · cases h
  · rename_i ths objs hf
    cases h
    exact ⟨ths, objs, hf, rfl, rfl⟩

theorem finish_path {e e' : Exec} {p : Path} {pid nid : Nat} {b : Bool}
    (h : e.finish p pid nid = .ok (e', b)) :
    e'.path = p ∧ e'.threads.active = some nid ∧ b = (e.threads.activeId != nid) := by
  obtain ⟨ths, objs, hf, rfl, rfl⟩ := finish_ok h
  exact ⟨rfl, (finishOp_ok hf).1, rfl⟩

/-- inversion of a successful `schedule` -/
theorem schedule_ok {e e' : Exec} {pk b : Bool} (h : e.schedule pk = .ok (e', b)) :
    e.threads.isActive = true ∧
    ∃ p1 next, e.dporMarks = .ok p1 ∧
      p1.branchThread (seed e.threads.threads e.initial) pk = .ok (e'.path, next) ∧
      e'.threads.active = next ∧
      match next with
      | none => e.threads.threads.all Thread.isTerminated = true ∧ b = true ∧
          e' = { e with path := e'.path, threads := { e.threads with active := none } }
      | some nid => e.finish e'.path p1.pos nid = .ok (e', b) := by
  rw [schedule_eq] at h
  split at h
  · cases h
  · rename_i ha
    refine ⟨by simpa using ha, ?_⟩
    split at h
    · cases h
    · rename_i p1 hd
      refine ⟨p1, ?_⟩
      split at h
      · cases h
      · rename_i p2 hb
        split at h
        · cases h
          exact ⟨none, hd, hb, rfl, by assumption, rfl, rfl⟩
        · cases h
      · rename_i p2 nid hb
        split at h
        · cases h
        have := finish_path h
        refine ⟨some nid, hd, ?_, this.2.1, ?_⟩
        · rw [this.1]; exact hb
        · simp only; rw [this.1]; exact h

/-- a successful `schedule` never activates a thread that is not in the thread table (the code indexes the
table with the chosen id: `Exec.schedule` throws `.internal 31`) -/
theorem schedule_active_lt {e e' : Exec} {pk b : Bool} (h : e.schedule pk = .ok (e', b)) {nid : Nat}
    (hn : e'.threads.active = some nid) : nid < e.threads.threads.length := by
  rw [schedule_eq] at h
  split at h
  · cases h
  · split at h
    · cases h
    · split at h
      · cases h
      · split at h
        · cases h; cases hn
        · cases h
      · rename_i p2 nid' hb
        split at h
        · cases h
        · rename_i hlt
          have := (finish_path h).2.1
          rw [hn] at this
          cases this
          omega

/-- `schedule` never changes the number of threads -/
theorem schedule_length {e e' : Exec} {pk b : Bool} (h : e.schedule pk = .ok (e', b)) :
    e'.threads.threads.length = e.threads.threads.length := by
  unfold Exec.schedule at h
  simp only [bind, Except.bind, pure, Except.pure] at h
  repeat' split at h
  all_goals first
    | (cases h; done)
    | (cases h; simp [Threads.modify])

/-- `Exec.schedule_frame` -/
theorem schedule_frame {e e' : Exec} {pk b : Bool} (h : e.schedule pk = .ok (e', b)) :
    Path.Frame e.path e'.path ∧ e'.path.pos = e.path.pos + 1 ∧
      (Path.PrevDecr e.path → Path.PrevDecr e'.path) := by
  obtain ⟨_, p1, next, hd, hb, _, _⟩ := schedule_ok h
  obtain ⟨f1, _, e1, d1⟩ := dporMarks_frame hd
  have f2 := (Path.branchThread_frame hb).1
  refine ⟨f1.trans f2, ?_, fun hp => (d1 hp).branchThread hb⟩
  have hpos : p1.pos = e.path.pos := by rw [e1]
  rcases Path.branchThread_ok hb with h2 | ⟨_, _, _, h2⟩ <;> rw [h2] <;> simp [hpos]

/-! ### `pickInitial` -/

/-- `acc` is the runnable thread with the least `yieldCount`, first among equals, among the
threads with index `< n` (`none`: no such thread is runnable) -/
def IsPick (ths : List Thread) (n : Nat) : Option Nat → Prop
  | none => ∀ j < n, ∀ th, ths[j]? = some th → th.isRunnable = false
  | some m => m < n ∧ ∃ tm, ths[m]? = some tm ∧ tm.isRunnable = true ∧
      ∀ j < n, ∀ th, ths[j]? = some th → th.isRunnable = true →
        tm.yieldCount ≤ th.yieldCount ∧ (j < m → tm.yieldCount < th.yieldCount)

theorem pickInitial_go_spec (ths : List Thread) (rest : List Thread) (i : Nat) (acc : Option Nat)
    (hd : ths.drop i = rest) (hacc : IsPick ths i acc) :
    IsPick ths ths.length (pickInitial.go ths rest i acc) := by
  induction rest generalizing i acc with
  | nil =>
    unfold pickInitial.go
    have hlen : ths.length ≤ i := by simpa using hd
    cases acc with
    | none =>
      intro j hj th hth
      exact hacc j (by omega) th hth
    | some m =>
      obtain ⟨hm, tm, h1, h2, h3⟩ := hacc
      have hml : m < ths.length := (List.getElem?_eq_some_iff.1 h1).1
      exact ⟨hml, tm, h1, h2, fun j hj th hth => h3 j (by omega) th hth⟩
  | cons th rest ih =>
    have hi : ths[i]? = some th := by
      have := congrArg (fun l => l[0]?) hd
      simpa using this
    have hd' : ths.drop (i + 1) = rest := by
      have := congrArg List.tail hd
      simpa using this
    unfold pickInitial.go
    by_cases hr : th.isRunnable = true
    · simp only [hr, Bool.not_true, Bool.false_eq_true, if_false]
      cases acc with
      | none =>
        simp only
        apply ih (i + 1) (some i) hd'
        refine ⟨by omega, th, hi, hr, ?_⟩
        intro j hj tj htj hrj
        by_cases hji : j = i
        · subst hji; rw [hi] at htj; cases htj; exact ⟨Nat.le_refl _, fun h => by omega⟩
        · have := hacc j (by omega) tj htj; rw [this] at hrj; cases hrj
      | some m =>
        obtain ⟨hm, tm, h1, h2, h3⟩ := hacc
        have hget : ths.getD m {} = tm := by simp [List.getD, h1]
        simp only [hget]
        by_cases hlt : th.yieldCount < tm.yieldCount
        · simp only [hlt, if_true]
          apply ih (i + 1) (some i) hd'
          refine ⟨by omega, th, hi, hr, ?_⟩
          intro j hj tj htj hrj
          by_cases hji : j = i
          · subst hji; rw [hi] at htj; cases htj; exact ⟨Nat.le_refl _, fun h => by omega⟩
          · have := h3 j (by omega) tj htj hrj
            exact ⟨by omega, fun _ => by omega⟩
        · simp only [hlt, if_false]
          apply ih (i + 1) (some m) hd'
          refine ⟨by omega, tm, h1, h2, ?_⟩
          intro j hj tj htj hrj
          by_cases hji : j = i
          · subst hji; rw [hi] at htj; cases htj; exact ⟨by omega, fun h => by omega⟩
          · exact h3 j (by omega) tj htj hrj
    · simp only [hr, Bool.not_false, if_true]
      apply ih (i + 1) acc hd'
      cases acc with
      | none =>
        intro j hj tj htj
        by_cases hji : j = i
        · subst hji; rw [hi] at htj; cases htj; simpa using hr
        · exact hacc j (by omega) tj htj
      | some m =>
        obtain ⟨hm, tm, h1, h2, h3⟩ := hacc
        refine ⟨by omega, tm, h1, h2, ?_⟩
        intro j hj tj htj hrj
        by_cases hji : j = i
        · subst hji; rw [hi] at htj; cases htj; exact absurd hrj hr
        · exact h3 j (by omega) tj htj hrj

/-- `pickInitial` returns the runnable thread with the least `yieldCount`, first among equals -/
theorem pickInitial_isPick (ths : List Thread) : IsPick ths ths.length (pickInitial ths) :=
  pickInitial_go_spec ths ths 0 none rfl (fun j hj => by omega)

theorem pickInitial_eq_none (ths : List Thread) :
    pickInitial ths = none ↔ ∀ th ∈ ths, th.isRunnable = false := by
  have := pickInitial_isPick ths
  constructor
  · intro h th hth
    rw [h] at this
    obtain ⟨j, hj, rfl⟩ := List.getElem_of_mem hth
    exact this j hj _ (List.getElem?_eq_getElem hj)
  · intro h
    cases hp : pickInitial ths with
    | none => rfl
    | some m =>
      rw [hp] at this
      obtain ⟨_, tm, h1, h2, _⟩ := this
      have := h tm (List.mem_of_getElem? h1)
      rw [this] at h2; cases h2

theorem pickInitial_eq_some {ths : List Thread} {m : Nat} (h : pickInitial ths = some m) :
    ∃ tm, ths[m]? = some tm ∧ tm.isRunnable = true ∧
      ∀ j th, ths[j]? = some th → th.isRunnable = true →
        tm.yieldCount ≤ th.yieldCount ∧ (j < m → tm.yieldCount < th.yieldCount) := by
  have := pickInitial_isPick ths
  rw [h] at this
  obtain ⟨_, tm, h1, h2, h3⟩ := this
  exact ⟨tm, h1, h2, fun j th hj => h3 j (List.getElem?_eq_some_iff.1 hj).1 th hj⟩

/-! ### `seed` -/

/-- state given to thread `i` in a new schedule entry when `c` is the chosen thread -/
def seedSt (c : Option Nat) (i : Nat) (th : Thread) : ThSt :=
  if c = some i then .active
  else if th.isYield then .yield
  else if !th.isRunnable then .disabled
  else .skip

theorem seed_go_some (ths : List Thread) (k c : Nat) :
    seed.go ths k (some c) = (ths.mapIdx fun i th => seedSt (some c) (k + i) th, some c) := by
  induction ths generalizing k with
  | nil => rfl
  | cons th rest ih =>
    unfold seed.go
    simp only [Option.isNone_some, Bool.false_and, Bool.false_eq_true, if_false, ih (k + 1),
      List.mapIdx_cons, Nat.add_zero]
    refine Prod.ext ?_ rfl
    simp only [seedSt, List.cons.injEq]
    refine ⟨by simp only [beq_iff_eq], ?_⟩
    congr 1 <;> (funext i t; rw [show k + 1 + i = k + (i + 1) by omega])

theorem seed_go_none (ths : List Thread) (k : Nat) (h : ∀ th ∈ ths, th.isRunnable = false) :
    seed.go ths k none = (ths.mapIdx fun i th => seedSt none (k + i) th, none) := by
  induction ths generalizing k with
  | nil => rfl
  | cons th rest ih =>
    unfold seed.go
    have hr : th.isRunnable = false := h th (by simp)
    simp only [hr, Bool.and_false, Bool.false_eq_true, if_false,
      ih (k + 1) (fun t ht => h t (by simp [ht])), List.mapIdx_cons, Nat.add_zero]
    refine Prod.ext ?_ rfl
    simp only [seedSt, List.cons.injEq]
    refine ⟨by simp [hr], ?_⟩
    congr 1 <;> (funext i t; rw [show k + 1 + i = k + (i + 1) by omega])

/-- the seed for a chosen thread `c` -/
theorem seed_some (ths : List Thread) (c : Nat) :
    seed ths (some c) = ths.mapIdx (seedSt (some c)) := by
  unfold seed; rw [seed_go_some]; simp

/-- the seed when no thread is runnable -/
theorem seed_none (ths : List Thread) (h : ∀ th ∈ ths, th.isRunnable = false) :
    seed ths none = ths.mapIdx (seedSt none) := by
  unfold seed; rw [seed_go_none _ _ h]; simp


theorem seedSt_isActive (c : Option Nat) (i : Nat) (th : Thread) :
    (seedSt c i th).isActive = true ↔ c = some i := by
  unfold seedSt
  by_cases h : c = some i
  · simp [h, ThSt.isActive]
  · simp only [h, if_false]
    split
    · simp [ThSt.isActive]
    · split <;> simp [ThSt.isActive]

theorem seedSt_isYield_none (i : Nat) (th : Thread) :
    (seedSt none i th == ThSt.yield) = th.isYield := by
  unfold seedSt
  by_cases h : th.isYield = true
  · simp [h]
  · have : th.isYield = false := by simpa using h
    simp only [this, reduceCtorEq, if_false, Bool.false_eq_true]
    split <;> rfl

theorem countP_le_one_of_unique {α} (p : α → Bool) (l : List α)
    (h : ∀ i j (hi : i < l.length) (hj : j < l.length), p l[i] = true → p l[j] = true → i = j) :
    l.countP p ≤ 1 := by
  induction l with
  | nil => simp
  | cons x xs ih =>
    have ih' := ih (fun i j hi hj h1 h2 => by
      have := h (i + 1) (j + 1) (by simp; omega) (by simp; omega) (by simpa using h1)
        (by simpa using h2)
      omega)
    by_cases hx : p x = true
    · have : xs.countP p = 0 := by
        rw [List.countP_eq_zero]
        intro a ha
        obtain ⟨j, hj, rfl⟩ := List.getElem_of_mem ha
        intro hpa
        have := h 0 (j + 1) (by simp) (by simp; omega) (by simpa using hx) (by simpa using hpa)
        omega
      simp [hx, this]
    · simp [hx]; exact ih'

theorem seed_mapIdx_active_le (ths : List Thread) (c : Option Nat) :
    ((ths.mapIdx (seedSt c)).filter ThSt.isActive).length ≤ 1 := by
  rw [← List.countP_eq_length_filter]
  apply countP_le_one_of_unique
  intro i j hi hj h1 h2
  simp only [List.getElem_mapIdx, seedSt_isActive] at h1 h2
  rw [h1] at h2; cases h2; rfl

theorem findIdx?_active_seed_some (ths : List Thread) (c : Nat) (hc : c < ths.length) :
    findIdx? ThSt.isActive (ths.mapIdx (seedSt (some c))) = some c := by
  rw [findIdx?_eq_some]
  refine ⟨by simpa using hc, ?_, ?_⟩
  · simp only [List.getElem_mapIdx]; exact (seedSt_isActive _ _ _).2 rfl
  · intro j hj
    simp only [List.getElem_mapIdx]
    cases hh : (seedSt (some c) j ths[j]).isActive with
    | false => rfl
    | true => have := (seedSt_isActive _ _ _).1 hh; cases this; omega

theorem findIdx?_active_seed_none (ths : List Thread) :
    findIdx? ThSt.isActive (ths.mapIdx (seedSt none)) = none := by
  rw [findIdx?_eq_none]
  intro a ha
  obtain ⟨j, hj, rfl⟩ := List.getElem_of_mem ha
  simp only [List.getElem_mapIdx]
  cases hh : (seedSt none j _).isActive with
  | false => rfl
  | true => have := (seedSt_isActive _ _ _).1 hh; cases this

theorem findIdx?_yield_seed_none (ths : List Thread) :
    findIdx? (· == ThSt.yield) (ths.mapIdx (seedSt none)) = findIdx? Thread.isYield ths := by
  apply findIdx?_congr
  · simp
  · intro i h1 h2
    simp only [List.getElem_mapIdx]
    exact seedSt_isYield_none i _

theorem seed_set_yield (ths : List Thread) (y : Nat) (hy : y < ths.length) :
    (ths.mapIdx (seedSt none)).set y .active = ths.mapIdx (seedSt (some y)) := by
  apply List.ext_getElem
  · simp
  · intro i h1 h2
    simp only [List.getElem_set, List.getElem_mapIdx]
    by_cases hiy : y = i
    · subst hiy; simp [seedSt]
    · simp only [hiy, if_false]
      unfold seedSt
      have : ¬ (some y = some i) := by simpa using hiy
      simp [this]

theorem newThreads_seed_some (ths : List Thread) (c : Nat) (hc : c < ths.length) :
    Path.newThreads (ths.mapIdx (seedSt (some c))) =
      Path.padTo (ths.mapIdx (seedSt (some c))) NT .disabled := by
  unfold Path.newThreads
  simp only
  rw [findIdx?_padTo _ _ _ _ (by rfl), findIdx?_active_seed_some ths c hc]

theorem newThreads_seed_none (ths : List Thread) :
    Path.newThreads (ths.mapIdx (seedSt none)) =
      Path.padTo (ths.mapIdx (seedSt (findIdx? Thread.isYield ths))) NT .disabled := by
  unfold Path.newThreads
  simp only
  rw [findIdx?_padTo _ _ _ _ (by rfl), findIdx?_active_seed_none,
    findIdx?_padTo _ _ _ _ (by rfl), findIdx?_yield_seed_none]
  cases hy : findIdx? Thread.isYield ths with
  | none => rfl
  | some y =>
    simp only
    have hlt := findIdx?_lt hy
    rw [padTo_set, if_pos (by simpa using hlt), seed_set_yield ths y hlt]

/-! ### pillar 3: the choice -/

/-- the thread chosen by `schedule` when it pushes a new entry:
1. the active thread, if it is runnable ("avoid preemption");
2. else the runnable thread with the least `yieldCount`, first among equals (`pickInitial`);
3. else the first thread in `yield` state;
4. else none. -/
def choice (ths : Threads) : Option Nat :=
  if ths.activeT.isRunnable then some ths.activeId
  else match pickInitial ths.threads with
    | some m => some m
    | none => findIdx? Thread.isYield ths.threads

theorem choice_lt {ths : Threads} (hc : ths.activeId < ths.threads.length) {n : Nat}
    (h : choice ths = some n) : n < ths.threads.length := by
  unfold choice at h
  split at h
  · cases h; exact hc
  · split at h
    · rename_i m hm
      cases h
      obtain ⟨tm, h1, _⟩ := pickInitial_eq_some hm
      exact (List.getElem?_eq_some_iff.1 h1).1
    · exact findIdx?_lt h

/-- threads of the pushed entry, and its active thread, in terms of `choice` -/
theorem newThreads_seed (e : Exec) (hc : e.threads.activeId < e.threads.threads.length) :
    Path.newThreads (seed e.threads.threads e.initial) =
      Path.padTo (e.threads.threads.mapIdx (seedSt (choice e.threads))) NT .disabled ∧
    findIdx? ThSt.isActive (Path.newThreads (seed e.threads.threads e.initial)) =
      choice e.threads := by
  have key : Path.newThreads (seed e.threads.threads e.initial) =
      Path.padTo (e.threads.threads.mapIdx (seedSt (choice e.threads))) NT .disabled := by
    unfold initial choice
    split
    · rw [seed_some, newThreads_seed_some _ _ hc]
    · cases hp : pickInitial e.threads.threads with
      | some m =>
        obtain ⟨tm, h1, _⟩ := pickInitial_eq_some hp
        rw [seed_some, newThreads_seed_some _ _ (List.getElem?_eq_some_iff.1 h1).1]
      | none =>
        rw [seed_none _ ((pickInitial_eq_none _).1 hp), newThreads_seed_none]
  refine ⟨key, ?_⟩
  rw [key, findIdx?_padTo _ _ _ _ (by rfl)]
  cases hch : choice e.threads with
  | none => exact findIdx?_active_seed_none _
  | some n => exact findIdx?_active_seed_some _ _ (choice_lt hc hch)

theorem seed_length (e : Exec) : (seed e.threads.threads e.initial).length = e.threads.threads.length := by
  unfold initial
  split
  · rw [seed_some]; simp
  · cases hp : pickInitial e.threads.threads with
    | some m => rw [seed_some]; simp
    | none => rw [seed_none _ ((pickInitial_eq_none _).1 hp)]; simp

theorem seed_active_le (e : Exec) :
    ((seed e.threads.threads e.initial).filter ThSt.isActive).length ≤ 1 := by
  unfold initial
  split
  · rw [seed_some]; exact seed_mapIdx_active_le _ _
  · cases hp : pickInitial e.threads.threads with
    | some m => rw [seed_some]; exact seed_mapIdx_active_le _ _
    | none => rw [seed_none _ ((pickInitial_eq_none _).1 hp)]; exact seed_mapIdx_active_le _ _

end Exec

namespace Path

/-- `branchThread` on a traversed path: exactly what is pushed and returned -/
theorem branchThread_traversed (p : Path) (seed : List ThSt) (pk : Bool)
    (ht : p.isTraversed = true) :
    p.branchThread seed pk =
      if p.branches.length < p.cap || pk then
        if seed.length > NT then .error (.internal 5)
        else if (seed.filter ThSt.isActive).length > 1 then .error (.internal 6)
        else .ok ({ p with pos := p.pos + 1, branches := p.branches ++ [.sched (p.newSched seed)] },
          (p.newSched seed).activeIdx)
      else .error .branchLimit := by
  rw [branchThread_eq, if_pos ht]
  have hpos : p.pos = p.branches.length := by simpa [isTraversed] using ht
  have : readSched { p with branches := p.branches ++ [.sched (p.newSched seed)] } =
      .ok ({ p with pos := p.pos + 1, branches := p.branches ++ [.sched (p.newSched seed)] },
        (p.newSched seed).activeIdx) := by
    unfold readSched
    simp [hpos]
  rw [this]

end Path

namespace Exec

theorem dporMarks_shape {e : Exec} {p1 : Path} (hd : e.dporMarks = .ok p1) (pk : Bool) :
    p1.isTraversed = e.path.isTraversed ∧ p1.assertLen pk = e.path.assertLen pk ∧
      p1.pos = e.path.pos := by
  obtain ⟨_, hl, he, _⟩ := dporMarks_frame hd
  refine ⟨?_, ?_, ?_⟩
  · unfold Path.isTraversed; rw [hl, he]
  · unfold Path.assertLen; rw [hl, he]
  · rw [he]

/-- the entry pushed by `schedule` on a traversed path (`p1` is the path after the DPOR loop) -/
def pushed (e : Exec) (p1 : Path) : Path :=
  { p1 with pos := p1.pos + 1,
            branches := p1.branches ++ [.sched (p1.newSched (seed e.threads.threads e.initial))] }

/-- `schedule` on a traversed path, when the DPOR loop succeeds, the branch limit is respected
and the thread table fits: the chosen thread is `choice e.threads` -/
theorem schedule_traversed_eq {e : Exec} {pk : Bool} {p1 : Path}
    (ha : e.threads.isActive = true) (hc : e.threads.activeId < e.threads.threads.length)
    (ht : e.path.isTraversed = true) (hlen : e.path.assertLen pk = .ok ())
    (hnt : e.threads.threads.length ≤ NT) (hd : e.dporMarks = .ok p1) :
    e.schedule pk =
      match choice e.threads with
      | none =>
        if e.threads.threads.all Thread.isTerminated then
          .ok ({ e with path := e.pushed p1, threads := { e.threads with active := none } }, true)
        else .error .deadlock
      | some nid => e.finish (e.pushed p1) p1.pos nid := by
  obtain ⟨h1, h2, _⟩ := dporMarks_shape hd pk
  rw [schedule_eq, hd]
  simp only [ha, Bool.not_true, Bool.false_eq_true, if_false]
  rw [Path.branchThread_traversed _ _ _ (h1.trans ht)]
  have hl : (decide (p1.branches.length < p1.cap) || pk) = true := by
    have := h2.trans hlen
    unfold Path.assertLen at this
    split at this
    · assumption
    · cases this
  have hs : ¬ (seed e.threads.threads e.initial).length > NT := by rw [seed_length]; omega
  have hact : ¬ ((seed e.threads.threads e.initial).filter ThSt.isActive).length > 1 := by
    have := seed_active_le e; omega
  simp only [hl, if_true, hs, hact, if_false]
  have hidx : (p1.newSched (seed e.threads.threads e.initial)).activeIdx = choice e.threads := by
    unfold Sched.activeIdx
    rw [Path.newSched_threads]
    exact (newThreads_seed e hc).2
  rw [hidx]
  cases hch : choice e.threads with
  | none => rfl
  | some nid =>
    have := choice_lt hc hch
    simp only [ge_iff_le, Nat.not_le.2 this, if_false]
    rfl

theorem lastDependentAccess_error {os : Objs} {op : Operation} {err : Panic}
    (h : os.lastDependentAccess op = .error err) : err = .internal 20 := by
  unfold Objs.lastDependentAccess at h
  split at h <;> cases h
  rfl

theorem setLastAccess_error {os : Objs} {op : Operation} {pid : Nat} {v : VV} {err : Panic}
    (h : os.setLastAccess op pid v = .error err) : err = .internal 21 := by
  unfold Objs.setLastAccess at h
  split at h <;> cases h
  rfl

/-- the tail of `schedule` fails only on objects that are not branchable -/
theorem finish_error {e : Exec} {p : Path} {pid nid : Nat} {err : Panic}
    (h : e.finish p pid nid = .error err) : err = .internal 20 ∨ err = .internal 21 := by
  unfold finish at h
  split at h
  · rename_i err' hf
    cases h
    unfold finishOp at hf
    simp only [bind, Except.bind, pure, Except.pure] at hf
    split at hf
    · cases hf
    · split at hf
      · rename_i hl; cases hf; exact Or.inl (lastDependentAccess_error hl)
      · split at hf
        · rename_i hs; cases hf; exact Or.inr (setLastAccess_error hs)
        · cases hf
  · cases h

theorem choice_eq_none_iff {ths : Threads} (hc : ths.activeId < ths.threads.length) :
    choice ths = none ↔ ∀ th ∈ ths.threads, th.isRunnable = false ∧ th.isYield = false := by
  have hact : ths.activeT = ths.threads[ths.activeId] := by
    simp [Threads.activeT, Threads.get, List.getD, hc]
  unfold choice
  constructor
  · intro h
    split at h
    · cases h
    · split at h
      · cases h
      · rename_i hp
        have h1 := (pickInitial_eq_none _).1 hp
        have h2 := (findIdx?_eq_none _ _).1 h
        exact fun th hth => ⟨h1 th hth, h2 th hth⟩
  · intro h
    have hr : ths.activeT.isRunnable = false := by
      rw [hact]; exact (h _ (List.getElem_mem hc)).1
    simp only [hr, Bool.false_eq_true, if_false]
    have hp := (pickInitial_eq_none ths.threads).2 (fun th hth => (h th hth).1)
    rw [hp]
    simp only
    exact (findIdx?_eq_none _ _).2 (fun th hth => (h th hth).2)

/-- the four cases of `choice` -/
theorem choice_spec (ths : Threads) (hc : ths.activeId < ths.threads.length) :
    (ths.activeT.isRunnable = true → choice ths = some ths.activeId) ∧
    (ths.activeT.isRunnable = false → ∀ m, choice ths = some m →
      ∃ tm, ths.threads[m]? = some tm ∧
        ((tm.isRunnable = true ∧
            ∀ j th, ths.threads[j]? = some th → th.isRunnable = true →
              tm.yieldCount ≤ th.yieldCount ∧ (j < m → tm.yieldCount < th.yieldCount)) ∨
         (tm.isYield = true ∧ (∀ th ∈ ths.threads, th.isRunnable = false) ∧
            ∀ j th, j < m → ths.threads[j]? = some th → th.isYield = false))) ∧
    ((∃ th ∈ ths.threads, th.isRunnable = true) →
      ∃ m tm, choice ths = some m ∧ ths.threads[m]? = some tm ∧ tm.isRunnable = true) ∧
    (choice ths = none ↔ ∀ th ∈ ths.threads, th.isRunnable = false ∧ th.isYield = false) := by
  have hact : ths.activeT = ths.threads[ths.activeId] := by
    simp [Threads.activeT, Threads.get, List.getD, hc]
  refine ⟨?_, ?_, ?_, choice_eq_none_iff hc⟩
  · intro h; unfold choice; simp [h]
  · intro h m hm
    unfold choice at hm
    simp only [h, Bool.false_eq_true, if_false] at hm
    split at hm
    · rename_i m' hp
      cases hm
      obtain ⟨tm, h1, h2, h3⟩ := pickInitial_eq_some hp
      exact ⟨tm, h1, Or.inl ⟨h2, h3⟩⟩
    · rename_i hp
      obtain ⟨hlt, h1, h2⟩ := (findIdx?_eq_some _ _ _).1 hm
      refine ⟨_, List.getElem?_eq_getElem hlt, Or.inr ⟨h1, (pickInitial_eq_none _).1 hp, ?_⟩⟩
      intro j th hj hth
      obtain ⟨hjl, rfl⟩ := List.getElem?_eq_some_iff.1 hth
      exact h2 j hj
  · rintro ⟨th, hth, hr⟩
    unfold choice
    by_cases ha : ths.activeT.isRunnable = true
    · simp only [ha, if_true]
      exact ⟨_, _, rfl, List.getElem?_eq_getElem hc, by rw [← hact]; exact ha⟩
    · simp only [ha, if_false]
      cases hp : pickInitial ths.threads with
      | none => have := (pickInitial_eq_none _).1 hp th hth; rw [this] at hr; cases hr
      | some m =>
        obtain ⟨tm, h1, h2, _⟩ := pickInitial_eq_some hp
        exact ⟨m, tm, rfl, h1, h2⟩

/-- C05.1 -/
theorem deadlock_iff {e : Exec} {pk : Bool} {p1 : Path}
    (ha : e.threads.isActive = true) (hc : e.threads.activeId < e.threads.threads.length)
    (ht : e.path.isTraversed = true) (hlen : e.path.assertLen pk = .ok ())
    (hnt : e.threads.threads.length ≤ NT) (hd : e.dporMarks = .ok p1) :
    e.schedule pk = .error .deadlock ↔
      (∀ th ∈ e.threads.threads, th.isRunnable = false ∧ th.isYield = false) ∧
      ∃ th ∈ e.threads.threads, th.isTerminated = false := by
  rw [schedule_traversed_eq ha hc ht hlen hnt hd, ← choice_eq_none_iff hc]
  cases hch : choice e.threads with
  | none =>
    simp only [true_and]
    cases hall : e.threads.threads.all Thread.isTerminated with
    | true =>
      simp only [if_true]
      constructor
      · intro h; cases h
      · rintro ⟨th, hth, hf⟩
        have := (List.all_eq_true.1 hall) th hth
        rw [this] at hf; cases hf
    | false =>
      simp only [Bool.false_eq_true, if_false, true_iff]
      have : ¬ ∀ th ∈ e.threads.threads, th.isTerminated = true := by
        rw [← List.all_eq_true]; simp [hall]
      apply Classical.byContradiction
      intro hn
      apply this
      intro th hth
      cases hh : th.isTerminated with
      | true => rfl
      | false => exact absurd ⟨th, hth, hh⟩ hn
  | some nid =>
    simp only [reduceCtorEq, false_and, iff_false]
    intro h
    rcases finish_error h with h | h <;> cases h

/-- one runnable thread, but the active id points outside the thread table (cannot happen in
the code, where `threads[id]` would panic; the twin's `Threads.get` returns a default, runnable
thread record instead) -/
def outOfRangeExample : Exec :=
  { path := Path.new 10 none true, threads := { threads := [{}], active := some 3 } }

/-- without `activeId < threads.length` the twin's `schedule` reports a deadlock although a
thread is runnable: the in-range hypothesis of `deadlock_iff` cannot be dropped -/
theorem deadlock_iff_needs_in_range :
    outOfRangeExample.threads.isActive = true ∧ outOfRangeExample.path.isTraversed = true ∧
    outOfRangeExample.path.assertLen false = .ok () ∧
    outOfRangeExample.threads.threads.length ≤ NT ∧
    outOfRangeExample.dporMarks = .ok outOfRangeExample.path ∧
    outOfRangeExample.schedule false = .error .deadlock ∧
    ∃ th ∈ outOfRangeExample.threads.threads, th.isRunnable = true :=
  ⟨rfl, rfl, rfl, by decide, rfl, rfl, ⟨{}, by simp [outOfRangeExample], rfl⟩⟩

/-- pillar 3: the choice made by `schedule` when it pushes a new entry -/
theorem schedule_choice {e e' : Exec} {pk b : Bool} (ht : e.path.isTraversed = true)
    (hc : e.threads.activeId < e.threads.threads.length) (h : e.schedule pk = .ok (e', b)) :
    e'.threads.active = choice e.threads ∧
    ∃ p1 s, e.dporMarks = .ok p1 ∧
      e'.path = { p1 with pos := p1.pos + 1, branches := p1.branches ++ [.sched s] } ∧
      s.threads =
        Path.padTo (e.threads.threads.mapIdx (seedSt (choice e.threads))) NT .disabled ∧
      s.activeIdx = choice e.threads ∧ s.exploring = p1.exploring ∧
      s.prev = p1.lastSchedule := by
  obtain ⟨_, p1, next, hd, hb, hact, _⟩ := schedule_ok h
  obtain ⟨h1, _, _⟩ := dporMarks_shape hd pk
  rw [Path.branchThread_traversed _ _ _ (h1.trans ht)] at hb
  have hthreads := newThreads_seed e hc
  have hidx : (p1.newSched (seed e.threads.threads e.initial)).activeIdx = choice e.threads := by
    unfold Sched.activeIdx
    rw [Path.newSched_threads]
    exact hthreads.2
  split at hb
  · split at hb
    · cases hb
    · split at hb
      · cases hb
      · simp only [Except.ok.injEq, Prod.mk.injEq] at hb
        refine ⟨by rw [hact, ← hb.2, hidx], p1, _, hd, hb.1.symm, ?_, hidx, rfl, rfl⟩
        rw [Path.newSched_threads]; exact hthreads.1
  · cases hb

end Exec
end LoomVerif
